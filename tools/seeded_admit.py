#!/usr/bin/env python3
"""usage: seeded_admit.py <Cxx> <n> <summary-of-what-it-needs> -- <check ids...>
Stores /tmp/wt-out/Cxx/patch<n>.diff + demo<n>.rs under /verif/seeded/Cxx-<n>/ with meta.json,
after running the listed checks against /repo with the patch applied (and restoring /repo)."""
import json, os, shutil, subprocess, sys
pid, n = sys.argv[1], sys.argv[2]
i = sys.argv.index('--')
needs = ' '.join(sys.argv[3:i])
checks = sys.argv[i+1:]
base = os.environ.get('SEED_SRC', '/tmp/wt-out')
src = f'{base}/{pid}'
dst = f'/verif/seeded/{pid}-{int(n) + int(os.environ.get("SEED_OFFSET", "0"))}'
os.makedirs(dst, exist_ok=True)
shutil.copy(f'{src}/patch{n}.diff', f'{dst}/patch.diff')
shutil.copy(f'{src}/demo{n}.rs', f'{dst}/demo.rs')
if os.path.exists(f'{src}/notes.md'): shutil.copy(f'{src}/notes.md', f'{dst}/agent_notes.md')
confirm = open(f'{src}/confirm{n}.txt').read() if os.path.exists(f'{src}/confirm{n}.txt') else 'not run'
st = subprocess.run(['git','-C','/repo','status','--short'],capture_output=True,text=True).stdout.strip()
assert st == '', '/repo not clean: '+st
r = subprocess.run(['git','-C','/repo','apply',f'{dst}/patch.diff'],capture_output=True,text=True)
assert r.returncode == 0, r.stderr
results = {}
try:
    for c in checks:
        out = subprocess.run(['./check', c, '--tier', 'quick'], cwd='/verif', capture_output=True, text=True, env=dict(os.environ, VERIF_EVIDENCE_DIR='/verif/target/evidence-scratch')).stdout
        viol = [l for l in out.split('\n') if l.startswith('VIOLATION')]
        head = [l for l in out.split('\n') if l.startswith('[')]
        results[c] = {'caught': bool(viol), 'violation_lines': viol[:3], 'summary': head[:1]}
        print(c, 'CAUGHT' if viol else 'missed', head[:1])
finally:
    subprocess.run(['git','-C','/repo','checkout','--','.'])
meta = {
    'property': pid,
    'breaks': json.load(open(f'{base}/prop_{pid}.json'))['title'],
    'needs_to_manifest': needs,
    'origin': 'fresh sub-agent given only the property text and a scratch worktree',
    'confirmed_by_me': confirm.strip().split('\n'),
    'commands': [f'tools/confirm_seeded.sh <scratch worktree of /repo> patch.diff demo.rs  (clean: demo passes; patched: existing suite passes, demo fails)',
                 f'git -C /repo apply seeded/{pid}-{n}/patch.diff && ./check <id> --tier quick ; git -C /repo checkout -- .'],
    'detection': results,
}
json.dump(meta, open(f'{dst}/meta.json','w'), indent=1)
