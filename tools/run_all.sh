#!/bin/bash
# runs every claimed check (quick tier by default) against the current /repo tree, sequentially
cd "$(dirname "$0")/.."
tier=${1:-quick}
rc=0
for id in $(python3 -c "import json;print(' '.join(c['property_id'] for c in json.load(open('MANIFEST.json'))['checks']))"); do
  ./check $id --tier $tier 2>&1 | grep -E "^\[C|^VIOLATION|^KNOWN" || true
  [ ${PIPESTATUS[0]} -ne 0 ] && rc=1
done
exit $rc
