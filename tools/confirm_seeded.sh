#!/bin/bash
# usage: confirm_seeded.sh <worktree> <patch.diff> <demo.rs> [features]
# confirms: (1) clean tree: demo passes; (2) patched: existing suite passes, demo fails. Leaves the worktree clean.
set -u
WT=$1; PATCH=$2; DEMO=$3; FEAT=${4:-}
cd "$WT" || exit 2
git checkout -q -- . ; rm -rf tests
mkdir -p tests; cp "$DEMO" tests/seeded_demo.rs
FF=""; [ -n "$FEAT" ] && FF="--features $FEAT"
echo "== clean tree: demo"
cargo test --offline $FF --test seeded_demo 2>&1 | grep -E "^test result|error\[" | head -3
git apply "$PATCH" || { echo "PATCH DOES NOT APPLY"; rm -rf tests; exit 3; }
echo "== patched: existing suite"
cargo test --offline --lib 2>&1 | grep -E "^test result|error\[" | head -2; cargo test --offline --doc 2>&1 | grep -E "^test result|error\[" | head -2
cargo test --offline --features cached,watcher --lib 2>&1 | grep -E "^test result|error\[" | head -2
echo "== patched: demo"
cargo test --offline $FF --test seeded_demo 2>&1 | grep -E "^test result|error\[" | head -3
git checkout -q -- . ; rm -rf tests
