#!/usr/bin/env python3
"""Rewrites the seeded-change table in DESIGN.md (between the markers) from seeded/*/meta.json."""
import json, glob, os, re
rows = []
for d in sorted(glob.glob('/verif/seeded/*/meta.json'), key=lambda p: (os.path.basename(os.path.dirname(p))[:3], int(os.path.basename(os.path.dirname(p))[4:]))):
    m = json.load(open(d)); sid = os.path.basename(os.path.dirname(d))
    det = m['detection']
    caught = [c for c, v in det.items() if v['caught']]
    missed = [c for c, v in det.items() if not v['caught']]
    rows.append("| %s | %s | %s | %s |" % (sid, m.get('needs_to_manifest', '').replace('|', '/'), ", ".join(caught) if caught else "— (missed)", ", ".join(missed)))
table = "| id | needs, to manifest | caught by | also run, silent |\n|----|--------------------|-----------|------------------|\n" + "\n".join(rows) + "\n"
s = open('/verif/DESIGN.md').read()
a = s.index("<!-- seeded-table:begin -->") + len("<!-- seeded-table:begin -->\n")
b = s.index("<!-- seeded-table:end -->")
s = s[:a] + table + s[b:]
open('/verif/DESIGN.md', 'w').write(s)
print(len(rows), "rows;", sum(1 for r in rows if "(missed)" in r), "missed by every check run")
