#!/bin/bash
# usage: try_seeded.sh <patch.diff> <Cxx> [<Cyy> ...]   — applies the patch to /repo, runs the checks, restores /repo
PATCH=$1; shift
cd /repo && git status --short | grep -q . && { echo "/repo not clean"; exit 2; }
git apply "$PATCH" || { echo "patch does not apply"; exit 3; }
cd /verif
export VERIF_EVIDENCE_DIR=/verif/target/evidence-scratch
# (the summary and the VIOLATION lines first: a long list of SPEC-FAIL / DISAGREE lines must not push them out of view)
for c in "$@"; do ./check $c --tier quick > /verif/target/try_seeded.out 2>&1; grep -E "^\[|^VIOLATION" /verif/target/try_seeded.out | cut -c1-260; grep -E "KNOWN|SPEC-FAIL|DISAGREE" /verif/target/try_seeded.out | cut -c1-260 | head -6; done
git -C /repo checkout -- . ; git -C /repo status --short
