#!/bin/bash
# usage: try_seeded.sh <patch.diff> <Cxx> [<Cyy> ...]   — applies the patch to /repo, runs the checks, restores /repo
PATCH=$1; shift
cd /repo && git status --short | grep -q . && { echo "/repo not clean"; exit 2; }
git apply "$PATCH" || { echo "patch does not apply"; exit 3; }
cd /verif
export VERIF_EVIDENCE_DIR=/verif/target/evidence-scratch
for c in "$@"; do ./check $c --tier quick 2>&1 | grep -E "^\[|VIOLATION|KNOWN|SPEC-FAIL|DISAGREE" | cut -c1-260 | head -8; done
git -C /repo checkout -- . ; git -C /repo status --short
