#!/bin/bash
# usage: confirm_all.sh Cxx ... : runs confirm_seeded for patch1/patch2 of each, output to ${OUTBASE:-/tmp/wt-out}/Cxx/confirmN.txt
for id in "$@"; do
  ( for n in 1 2; do
      feat=""; grep -q 'feature *= *"\(cached\|watcher\)"' ${OUTBASE:-/tmp/wt-out}/$id/demo$n.rs 2>/dev/null && feat="cached,watcher"
      /verif/tools/confirm_seeded.sh ${WTBASE:-/tmp/wt}/$id ${OUTBASE:-/tmp/wt-out}/$id/patch$n.diff ${OUTBASE:-/tmp/wt-out}/$id/demo$n.rs $feat > ${OUTBASE:-/tmp/wt-out}/$id/confirm$n.txt 2>&1
    done ) &
done
wait
