#!/usr/bin/env python3
"""Records the hashes of the anchored source files of /repo (anchors.json): the state the model was last
aligned with.  `check` doubles its exploration budget for a property whose anchors differ from these."""
import json, hashlib, os
props = json.load(open('/verif/props.json'))
rec = {}
for pid, c in props.items():
    for f in c.get('anchors', []):
        p = os.path.join('/repo', f)
        rec[f] = hashlib.sha256(open(p, 'rb').read()).hexdigest()[:16] if os.path.exists(p) else 'missing'
json.dump(rec, open('/verif/anchors.json', 'w'), indent=1, sort_keys=True)
print(len(rec), 'anchored files hashed')
