#!/usr/bin/env python3
"""Regenerates MANIFEST.json from props.json (claimed checks) — run after editing props.json."""
import json
props = json.load(open('/verif/props.json'))
all_ids = [json.loads(l)['id'] for l in open('/verif/properties.jsonl')]
checks = []
for pid in all_ids:
    if pid not in props or not props[pid].get('claimed', True):
        continue
    c = props[pid]
    checks.append({
        "property_id": pid,
        "quick_cmd": f"./check {pid} --tier quick",
        "thorough_cmd": f"./check {pid} --tier thorough",
        "evidence_file": f"/verif/evidence/{pid}.json",
        "replay_cmd_template": f"./check {pid} --replay {{path}}",
        "engine": "lean4-model+correspondence",
        "level_claimed": {
            "category": "proof",
            "text": c.get("level_text", ""),
            "design_ref": c.get("design_ref", f"DESIGN.md section 6 / {pid}"),
        },
        "level_note": c.get("level_note", ""),
        "technique": c.get("technique", "Lean 4 theorems about a hand-written executable model + differential correspondence check against the crate"),
    })
na = [{"property_id": pid, "reason": props.get(pid, {}).get("na_reason", "check not built yet in this round; planned in DESIGN.md section 10")}
      for pid in all_ids if pid not in props or not props[pid].get('claimed', True)]
m = {
    "version": 1,
    "setup_cmd": "./check --setup",
    "hooks": {
        "guard": "casbin_verif",
        "enable": "RUSTFLAGS=\"--cfg casbin_verif\" (reserved; no hook is currently needed: every observable is reachable through the exported API)",
        "baseline_off_cmd": "cd /repo && cargo test --workspace --no-fail-fast --offline",
        "source_commits": [],
        "add_only": True,
    },
    "engines": [{
        "name": "lean4-model+correspondence",
        "path": "/verif/check",
        "serves_properties": [c["property_id"] for c in checks],
        "kind_free_text": "Lean 4.33 kernel-checked theorems about a hand-written executable model (lean/CasbinModel), tied to /repo on every run by a Rust harness (harness/) that drives the real crate and the compiled model with the same op stream and diffs canonical outputs; executable specs are also evaluated directly on the implementation's outputs",
    }],
    "checks": checks,
    "not_applicable": na,
    "notes": "Fix commits in /repo (unguarded, 'fix:' prefix) are listed in known_findings.json as fixed entries. See DESIGN.md.",
}
json.dump(m, open('/verif/MANIFEST.json', 'w'), indent=1)
print(len(checks), "checks;", len(na), "not yet claimed")
