import CasbinModel.Basic
import CasbinModel.Effect
