import CasbinModel.Effect
import CasbinModel.Store
import CasbinModel.Matcher
/-!
# Evaluation of a request  (src/enforcer.rs:120-352)

`enforceCore` mirrors `private_enforce` / `private_enforce_with_context` (the second
is a copy of the first parameterised by the section keys; enforcer.rs:225-352).
The per-rule matcher evaluation is a *parameter* (`matchRule`), so that the
theorems about the loop hold for every matcher — the AST evaluator of
`Matcher.lean` is one instance (`Cfg.matchRule`).
-/
namespace Casbin

/-- outcome of evaluating the matcher against one rule: `none` = evaluation error -/
abbrev MatchFn := Rule → Option Bool

/-- effect-column mapping (enforcer.rs:193-206): `eftIdx` = position of the token
`<ptype>_eft` among the policy tokens, if there is one -/
def ruleEffect (eftIdx : Option Nat) (matched : Bool) (rule : Rule) : Eff :=
  if !matched then .indet else
  match eftIdx with
  | none => .allow
  | some j =>
    match rule[j]? with
    | some "deny" => .deny
    | some "allow" => .allow
    | _ => .indet

/-- the rule loop (enforcer.rs:176-214).  Result: `ok stream` after the loop,
`err policy` on a rule of the wrong length, `err eval` on a matcher error. -/
def ruleLoop (ntok : Nat) (eftIdx : Option Nat) (m : MatchFn) : Stream → List Rule → Out ErrKind Stream
  | s, [] => .ok s
  | s, rule :: rest =>
    if rule.length ≠ ntok then .err .policy else
    match m rule with
    | none => .err .eval
    | some b =>
      let r := s.push (ruleEffect eftIdx b rule)
      if r.2 then .ok r.1 else ruleLoop ntok eftIdx m r.1 rest

/-- what `private_enforce*` needs from the model for one (r, p, e, m) section choice -/
structure EvalCfg where
  enabled : Bool
  /-- `get_or_err!` for the four sections succeeded -/
  sectionsOk : Bool
  rtokens : Nat
  ptokens : List String
  /-- the effect expression handed to the effector, after `escape_assertion`
  (and after the context variant's `<ptype>_eft ↦ p_eft` normalisation) -/
  effExpr : Option EffExpr
  /-- name of the effect column token, `p_eft` / `p2_eft` -/
  eftToken : String
  /-- `compile_expression` succeeded -/
  compiles : Bool
  policy : List Rule

/-- enforcer.rs:120-223 / 225-352 -/
def enforceCore (c : EvalCfg) (reqLen : Nat) (m : MatchFn) : Out ErrKind Bool :=
  if !c.enabled then .ok true else
  if !c.sectionsOk then .err .model else
  if c.rtokens ≠ reqLen then .err .request else
  -- `new_stream` panics on an unsupported expression (and on cap = 0, impossible here)
  match c.effExpr with
  | none => .panic
  | some ex =>
  match Stream.new ex (max c.policy.length 1) with
  | none => .panic
  | some s0 =>
  if !c.compiles then .err .eval else
  if c.policy.isEmpty then
    -- enforcer.rs:157-174: matcher once, every policy token bound to ""
    match m (c.ptokens.map (fun _ => "")) with
    | none => .err .eval
    | some b =>
      let s1 := (s0.push (if b then .allow else .indet)).1
      (match s1.next with | some v => .ok v | none => .panic)
  else
    let eftIdx := c.ptokens.idxOf? c.eftToken
    match ruleLoop c.ptokens.length eftIdx m s0 c.policy with
    | .ok s => (match s.next with | some v => .ok v | none => .panic)
    | .err e => .err e
    | .panic => .panic

end Casbin
