import CasbinModel.RoleGraph
/-!
# Matcher expressions  (the rhai fragment the model covers)

rhai's parser/evaluator is a *parameter* of the model: the model evaluates an AST;
the harness renders that AST to text and the real crate parses and evaluates the
text with rhai.  Semantics below were read off the crate's behaviour
(`only_i32`, `no_float`): `==`/`!=` across types is `false`/`true`, ordering across
types is `false`, `&&`/`||` short-circuit and reject non-booleans, a non-boolean
matcher result is an error, property access works on maps only, functions reject
non-string arguments (no such overload).
-/
namespace Casbin

inductive Atom where
  | str (s : String) | int (i : Int) | bool (b : Bool) | unit
  deriving DecidableEq, Repr

/-- a request value: an atom or a flat string-keyed map (ABAC attributes) -/
inductive Val where
  | atom (a : Atom)
  | map (fs : List (String × Atom))
  deriving DecidableEq, Repr

inductive CmpOp where
  | eq | ne | lt | le | gt | ge
  deriving DecidableEq, Repr

inductive Expr where
  | lit (a : Atom)
  | r (i : Nat)                         -- i-th request token
  | p (i : Nat)                         -- i-th policy token
  | attr (e : Expr) (f : String)        -- e.f
  | cmp (op : CmpOp) (a b : Expr)
  | and (a b : Expr)
  | or (a b : Expr)
  | not (a : Expr)
  | g2 (name : String) (a b : Expr)     -- g(a, b)
  | g3 (name : String) (a b c : Expr)   -- g(a, b, dom)
  | call2 (f : String) (a b : Expr)     -- keyMatch … regexMatch, keyGet
  | call3 (f : String) (a b c : Expr)   -- keyGet2, keyGet3
  | evalP (i : Nat)                     -- eval(p.<i-th token>)
  | unknownVar                          -- a token that is not defined (r.zzz)
  deriving DecidableEq, Repr

/-- what the evaluator needs from its surroundings -/
structure Env where
  req : List Val
  rule : List String
  /-- role manager consulted by g-functions -/
  rm : RoleMgr String
  /-- g-functions registered in the engine: (name, arity) (macros.rs:48-77) -/
  gfuncs : List (String × Nat)
  /-- built-in / user functions on strings: `none` = no such function or not modelled -/
  call : String → List String → Option Atom
  /-- rhai's runtime parser for `eval(..)`: rule text ↦ AST (`none` = parse error) -/
  tbl : String → Option Expr

def cmpInt (op : CmpOp) (a b : Int) : Bool :=
  match op with
  | .eq => a == b | .ne => a != b | .lt => a < b | .le => a ≤ b | .gt => a > b | .ge => a ≥ b

def cmpStr (op : CmpOp) (a b : String) : Bool :=
  match op with
  | .eq => a == b | .ne => a != b | .lt => a < b | .le => a ≤ b | .gt => a > b | .ge => a ≥ b

/-- rhai comparison of two values -/
def cmpVal (op : CmpOp) (a b : Val) : Bool :=
  match a, b with
  | .atom (.str x), .atom (.str y) => cmpStr op x y
  | .atom (.int x), .atom (.int y) => cmpInt op x y
  | .atom (.bool x), .atom (.bool y) =>
    -- rhai orders booleans (false < true)
    (match op with
     | .eq => x == y | .ne => x != y
     | .lt => !x && y | .le => !x || y | .gt => x && !y | .ge => x || !y)
  | .atom .unit, .atom .unit => (match op with | .eq => true | .ne => false | _ => false)
  | _, _ => (match op with | .ne => true | _ => false)

def asStr : Val → Option String
  | .atom (.str s) => some s
  | _ => none

/-- evaluation with explicit fuel for `eval(..)` nesting (rule text may itself contain
`eval`; the real engine has a call-depth limit).  `none` = evaluation error. -/
def Expr.eval (env : Env) : Nat → Expr → Option Val
  | _, .lit a => some (.atom a)
  | _, .r i => env.req[i]?
  | _, .p i => (env.rule[i]?).map (fun s => .atom (.str s))
  | fuel, .attr e f =>
    match e.eval env fuel with
    | some (.map fs) => some (.atom ((fs.lookup f).getD .unit))
    | _ => none
  | fuel, .cmp op a b =>
    match a.eval env fuel, b.eval env fuel with
    | some x, some y => some (.atom (.bool (cmpVal op x y)))
    | _, _ => none
  | fuel, .and a b =>
    match a.eval env fuel with
    | some (.atom (.bool false)) => some (.atom (.bool false))
    | some (.atom (.bool true)) =>
      (match b.eval env fuel with
       | some (.atom (.bool y)) => some (.atom (.bool y))
       | _ => none)
    | _ => none
  | fuel, .or a b =>
    match a.eval env fuel with
    | some (.atom (.bool true)) => some (.atom (.bool true))
    | some (.atom (.bool false)) =>
      (match b.eval env fuel with
       | some (.atom (.bool y)) => some (.atom (.bool y))
       | _ => none)
    | _ => none
  | fuel, .not a =>
    match a.eval env fuel with
    | some (.atom (.bool x)) => some (.atom (.bool (!x)))
    | _ => none
  | fuel, .g2 name a b =>
    match a.eval env fuel, b.eval env fuel with
    | some x, some y =>
      if (name, 2) ∈ env.gfuncs then
        match asStr x, asStr y with
        | some s, some t => some (.atom (.bool (env.rm.hasLink s t "DEFAULT")))
        | _, _ => none
      else none
    | _, _ => none
  | fuel, .g3 name a b c =>
    match a.eval env fuel, b.eval env fuel, c.eval env fuel with
    | some x, some y, some z =>
      if (name, 3) ∈ env.gfuncs then
        match asStr x, asStr y, asStr z with
        | some s, some t, some d => some (.atom (.bool (env.rm.hasLink s t d)))
        | _, _, _ => none
      else none
    | _, _, _ => none
  | fuel, .call2 f a b =>
    match a.eval env fuel, b.eval env fuel with
    | some x, some y =>
      (match asStr x, asStr y with
       | some s, some t => (env.call f [s, t]).map .atom
       | _, _ => none)
    | _, _ => none
  | fuel, .call3 f a b c =>
    match a.eval env fuel, b.eval env fuel, c.eval env fuel with
    | some x, some y, some z =>
      (match asStr x, asStr y, asStr z with
       | some s, some t, some u => (env.call f [s, t, u]).map .atom
       | _, _, _ => none)
    | _, _, _ => none
  | 0, .evalP _ => none
  | fuel + 1, .evalP i =>
    match env.rule[i]? with
    | none => none
    | some text =>
      match env.tbl text with
      | none => none
      | some e => e.eval env fuel
  | _, .unknownVar => none

/-- `eval_ast_with_scope::<bool>`: the matcher must produce a boolean -/
def Expr.evalBool (env : Env) (e : Expr) : Option Bool :=
  match e.eval env 8 with
  | some (.atom (.bool b)) => some b
  | _ => none

end Casbin
