/-!
# Basic definitions shared by all model files

Model files import nothing from Mathlib / Batteries so that the line-protocol
driver (`Main.lean`) can be linked as a native executable.
-/

namespace Casbin

/-- Result of an API call of the real crate, as observed by the harness.
`panic` is a *value* of the model: partial operations of the Rust code
(`&s[..i]`, `v[i]`, `assert!`, `unwrap`) are never totalised away. -/
inductive Out (ε α : Type) where
  | ok (a : α)
  | err (e : ε)
  | panic
  deriving DecidableEq, Repr

/-- error classes of `casbin::Error` the harness distinguishes -/
inductive ErrKind where
  | request | policy | eval | rbac | adapter | io | model
  deriving DecidableEq, Repr

def ErrKind.toString : ErrKind → String
  | .request => "request" | .policy => "policy" | .eval => "eval"
  | .rbac => "rbac" | .adapter => "adapter" | .io => "io" | .model => "model"

/-- one text representation everywhere text is inspected character by character -/
abbrev Str := List Char

end Casbin
