import CasbinModel.Rbac
/-!
# CachedEnforcer  (src/cached_enforcer.rs)

`cache` maps (request values, context key) to a decision.  `enforce` = lookup, else the
inner enforcer, storing `Ok` results (cached_enforcer.rs:61-89).  Management calls clear
the cache through the `ClearCache` event, i.e. only when the store changed
(internal_api.rs:115-120); every other forwarded state change clears it first
(after the repair).  mini-moka is modelled as a map without eviction (the histories stay
far below its capacity of 200; an eviction only ever removes entries).
-/
namespace Casbin

abbrev CacheKey := List Val × String

structure Cached where
  inner : Enforcer
  cache : List (CacheKey × Bool)

def Cached.lookup (c : Cached) (k : CacheKey) : Option Bool := c.cache.lookup k

/-- cached_enforcer.rs:61-89 -/
def Cached.enforceWith (c : Cached) (k : CacheKey) (compute : Enforcer → Out ErrKind Bool) : Cached × Out ErrKind Bool :=
  match c.lookup k with
  | some v => (c, .ok v)
  | none =>
    match compute c.inner with
    | .ok v => ({ c with cache := (k, v) :: c.cache }, .ok v)
    | r => (c, r)

/-- a forwarded state change that clears the cache first -/
def Cached.clearing (c : Cached) (f : Enforcer → Enforcer × Res) : Cached × Res :=
  let r := f c.inner
  ({ inner := r.1, cache := [] }, r.2)

/-- a management call: the `ClearCache` event is emitted iff the model-side store operation reported a
change (internal_api.rs: right after the store update, *before* the role-link update that may still
fail) — `changed` sees the enforcer before the call and the call's outcome -/
def Cached.mgmt (c : Cached) (f : Enforcer → Enforcer × Res) (changed : Enforcer → Enforcer × Res → Bool) : Cached × Res :=
  let r := f c.inner
  ({ inner := r.1, cache := if changed c.inner r then [] else c.cache }, r.2)

def resChanged : Res → Bool
  | .bool b => b
  | .rules b _ => b
  | _ => false

/-- the call reported a change, or the store is different afterwards (a call that fails in the link update
after the store changed returns an error, yet the store changed and the cache was cleared) -/
def storeOrResChanged (e : Enforcer) (r : Enforcer × Res) : Bool :=
  resChanged r.2 || decide (r.1.store ≠ e.store)

end Casbin
