import CasbinModel.Rbac
/-!
# CachedEnforcer  (src/cached_enforcer.rs)

`cache` maps (request values, context key) to a decision.  `enforce` = lookup, else the
inner enforcer, storing `Ok` results (cached_enforcer.rs:61-89).  Management calls clear
the cache through the `ClearCache` event, i.e. only when the store changed
(internal_api.rs:115-120); every other forwarded state change clears it first
(after the repair).  mini-moka is modelled as a map without eviction (the histories stay
far below its capacity of 200; an eviction only ever removes entries).
-/
namespace Casbin

abbrev CacheKey := List Val × String

structure Cached where
  inner : Enforcer
  cache : List (CacheKey × Bool)

def Cached.lookup (c : Cached) (k : CacheKey) : Option Bool := c.cache.lookup k

/-- cached_enforcer.rs:61-89 -/
def Cached.enforceWith (c : Cached) (k : CacheKey) (compute : Enforcer → Out ErrKind Bool) : Cached × Out ErrKind Bool :=
  match c.lookup k with
  | some v => (c, .ok v)
  | none =>
    match compute c.inner with
    | .ok v => ({ c with cache := (k, v) :: c.cache }, .ok v)
    | r => (c, r)

/-- a forwarded state change that clears the cache first -/
def Cached.clearing (c : Cached) (f : Enforcer → Enforcer × Res) : Cached × Res :=
  let r := f c.inner
  ({ inner := r.1, cache := [] }, r.2)

/-- a management call: the `ClearCache` event is emitted iff the store changed -/
def Cached.mgmt (c : Cached) (f : Enforcer → Enforcer × Res) (changed : Res → Bool) : Cached × Res :=
  let r := f c.inner
  ({ inner := r.1, cache := if changed r.2 then [] else c.cache }, r.2)

def resChanged : Res → Bool
  | .bool b => b
  | .rules b _ => b
  | _ => false

end Casbin
