/-!
# Line protocol helpers (driver side; mirrors harness/src/proto.rs)
-/
namespace Casbin.Proto

def hexVal (c : Char) : Nat :=
  if '0' ≤ c ∧ c ≤ '9' then c.toNat - '0'.toNat
  else if 'A' ≤ c ∧ c ≤ 'F' then c.toNat - 'A'.toNat + 10
  else if 'a' ≤ c ∧ c ≤ 'f' then c.toNat - 'a'.toNat + 10
  else 0

def unescChars : List Char → List Char
  | '%' :: a :: b :: rest => Char.ofNat (hexVal a * 16 + hexVal b) :: unescChars rest
  | c :: rest => c :: unescChars rest
  | [] => []

def unesc (s : String) : String := String.ofList (unescChars s.toList)

def escChar (c : Char) : String :=
  match c with
  | '%' => "%25" | '\t' => "%09" | '\n' => "%0A" | '\r' => "%0D"
  | ',' => "%2C" | ';' => "%3B" | '|' => "%7C" | '-' => "%2D" | ' ' => "%20"
  | c => String.singleton c

def esc (s : String) : String := s.toList.foldl (fun acc c => acc ++ escChar c) ""

/-- `-` = empty list, else comma-joined escaped items -/
def decList (s : String) : List String :=
  if s == "-" then [] else (s.splitOn ",").map unesc

def encList (xs : List String) : String :=
  if xs.isEmpty then "-" else ",".intercalate (xs.map esc)

/-- `-` = empty, items `;`-separated, `|` = the empty inner list -/
def decLists (s : String) : List (List String) :=
  if s == "-" then [] else (s.splitOn ";").map (fun x => if x == "|" then [] else decList x)

def encLists (xs : List (List String)) : String :=
  if xs.isEmpty then "-" else ";".intercalate (xs.map (fun x => if x.isEmpty then "|" else encList x))

def boolS (b : Bool) : String := if b then "true" else "false"

/-- insertion sort on strings (canonical order for set-valued answers) -/
def insertSorted (x : String) : List String → List String
  | [] => [x]
  | y :: ys => if x < y then x :: y :: ys else y :: insertSorted x ys

def sortStrings (xs : List String) : List String := xs.foldl (fun acc x => insertSorted x acc) []

end Casbin.Proto
