import CasbinModel.Enforce
import CasbinModel.Adapter
/-!
# The enforcer as a state machine
(src/enforcer.rs, src/internal_api.rs, src/model/assertion.rs, src/management_api.rs, src/rbac_api.rs)

Every step function follows the code line by line: adapter first when auto-save is on
(early return on `Err` / `Ok(false)`), then the model operation, then the
notification, then the role-link update (only when the store changed), then the
return value.
-/
namespace Casbin

inductive Event where
  | addPolicy (sec ptype : String) (rule : Rule)
  | addPolicies (sec ptype : String) (rules : List Rule)
  | removePolicy (sec ptype : String) (rule : Rule)
  | removePolicies (sec ptype : String) (rules : List Rule)
  | removeFiltered (sec ptype : String) (rules : List Rule)
  | savePolicy (rules : List Rule)
  | clearPolicy
  deriving DecidableEq, Repr

/-- the definitions of a model that are not rule stores -/
structure Defs where
  /-- request definitions: key ↦ number of tokens -/
  r : List (String × Nat)
  /-- effect expressions, escaped text -/
  e : List (String × String)
  /-- matchers: `none` = the text does not compile -/
  m : List (String × Option Expr)
  deriving Repr

structure Enforcer where
  defs : Defs
  store : Store
  adapter : AdapterSt
  rm : RoleMgr String
  enabled : Bool
  autoSave : Bool
  autoBuild : Bool
  autoNotify : Bool
  /-- number of `PolicyChange` handlers registered (enforcer.rs:101-117) -/
  callbacks : Nat
  hasWatcher : Bool
  /-- g-functions registered in the engine; never removed (macros.rs:48-77) -/
  gfuncs : List (String × Nat)
  /-- user functions added with `add_function` (the model knows them by name) -/
  userFns : List String
  /-- what the watcher received so far -/
  log : List Event

/-- generic result of a call -/
inductive Res where
  | unit
  | bool (b : Bool)
  | rules (b : Bool) (rs : List Rule)
  | err (k : ErrKind)
  | panic
  deriving DecidableEq, Repr

/-- `emit(Event::PolicyChange, d)`: once per registered handler; each handler forwards
to the watcher if one is set (emitter.rs:91-104) -/
def Enforcer.emit (e : Enforcer) (ev : Event) : Enforcer :=
  if e.hasWatcher then { e with log := e.log ++ List.replicate e.callbacks ev } else e

/-! ## Role links -/

/-- one `add_link`/`delete_link` derived from a grouping rule, by the definition's arity.
`none` = error (kind given) -/
def linkOp (arity : Nat) (insert : Bool) (rm : RoleMgr String) (rule : Rule) : Except ErrKind (RoleMgr String) :=
  if rule.length < arity then .error .policy else
  if arity = 2 then
    let a := rule.getD 0 ""; let b := rule.getD 1 ""
    if insert then .ok (rm.addLink a b "DEFAULT")
    else match rm.deleteLink a b "DEFAULT" with
      | some rm' => .ok rm'
      | none => .error .rbac
  else if arity = 3 then
    let a := rule.getD 0 ""; let b := rule.getD 1 ""; let d := rule.getD 2 ""
    if insert then .ok (rm.addLink a b d)
    else match rm.deleteLink a b d with
      | some rm' => .ok rm'
      | none => .error .rbac
  else if arity ≥ 4 then .error .model
  else .ok rm

/-- assertion.rs:49-82 `Assertion::build_role_links`: returns the manager as far as it got -/
def buildDef (rm : RoleMgr String) (d : PolDef) : RoleMgr String × Option ErrKind :=
  if d.arity < 2 then (rm, some .model) else
  let rec go (rm : RoleMgr String) : List Rule → RoleMgr String × Option ErrKind
    | [] => (rm, none)
    | rule :: rest =>
      match linkOp d.arity true rm rule with
      | .ok rm' => go rm' rest
      | .error k => (rm, some k)
  go rm d.policy

/-- enforcer.rs:706-711 + default_model.rs:158-168: clear, then every g-definition in order -/
def buildRoleLinks (rm : RoleMgr String) (gs : List PolDef) : RoleMgr String × Option ErrKind :=
  let rec go (rm : RoleMgr String) : List PolDef → RoleMgr String × Option ErrKind
    | [] => (rm, none)
    | d :: rest =>
      match buildDef rm d with
      | (rm', none) => go rm' rest
      | (rm', some k) => (rm', some k)
  go rm.clear gs

def Enforcer.buildRoleLinks (e : Enforcer) : Enforcer × Option ErrKind :=
  let r := Casbin.buildRoleLinks e.rm e.store.g
  ({ e with rm := r.1 }, r.2)

/-- assertion.rs:85-160 `build_incremental_role_links` for one definition; `pol` is the
definition's policy *after* the store update (used by the "still implied" test) -/
def buildIncremental (rm : RoleMgr String) (d : PolDef) (insert : Bool) (rules : List Rule) :
    RoleMgr String × Option ErrKind :=
  if d.arity < 2 then (rm, some .model) else
  let rec go (rm : RoleMgr String) : List Rule → RoleMgr String × Option ErrKind
    | [] => (rm, none)
    | rule :: rest =>
      if rule.length < d.arity then (rm, some .policy) else
      if !insert && d.arity ≤ 3 &&
          d.policy.any (fun r => r.length ≥ d.arity && r.take d.arity = rule.take d.arity) then go rm rest
      else
      match linkOp d.arity insert rm rule with
      | .ok rm' => go rm' rest
      | .error k => (rm, some k)
  go rm rules

/-- the tail of every `*_internal` function (internal_api.rs:121-139 …) -/
def Enforcer.linkUpdate (e : Enforcer) (changed : Bool) (sec ptype : String) (insert : Bool)
    (rules : List Rule) (ret : Res) : Enforcer × Res :=
  if !changed || sec ≠ "g" || !e.autoBuild then (e, ret) else
  match e.store.find sec ptype with
  | none => (e, ret)
  | some d =>
    match buildIncremental e.rm d insert rules with
    | (rm', none) => ({ e with rm := rm' }, ret)
    | (rm', some k) => ({ e with rm := rm' }, .err k)

/-! ## The five internal management operations (internal_api.rs) -/

def Enforcer.addPolicy (e : Enforcer) (sec ptype : String) (rule : Rule) : Enforcer × Res :=
  let go (e : Enforcer) : Enforcer × Res :=
    let r := e.store.addPolicy sec ptype rule
    let e := { e with store := r.1 }
    let e := if r.2 && e.autoNotify then e.emit (.addPolicy sec ptype rule) else e
    e.linkUpdate r.2 sec ptype true [rule] (.bool r.2)
  if e.autoSave then
    match e.adapter.addPolicy sec ptype rule with
    | (a, none) => ({ e with adapter := a }, .err .adapter)
    | (a, some false) => ({ e with adapter := a }, .bool false)
    | (a, some true) => go { e with adapter := a }
  else go e

def Enforcer.addPolicies (e : Enforcer) (sec ptype : String) (rules : List Rule) : Enforcer × Res :=
  let go (e : Enforcer) : Enforcer × Res :=
    let r := e.store.addPolicies sec ptype rules
    let e := { e with store := r.1 }
    let e := if r.2 && e.autoNotify then e.emit (.addPolicies sec ptype rules) else e
    e.linkUpdate r.2 sec ptype true rules (.bool r.2)
  if e.autoSave then
    match e.adapter.addPolicies sec ptype rules with
    | (a, none) => ({ e with adapter := a }, .err .adapter)
    | (a, some false) => ({ e with adapter := a }, .bool false)
    | (a, some true) => go { e with adapter := a }
  else go e

def Enforcer.removePolicy (e : Enforcer) (sec ptype : String) (rule : Rule) : Enforcer × Res :=
  let go (e : Enforcer) : Enforcer × Res :=
    let r := e.store.removePolicy sec ptype rule
    let e := { e with store := r.1 }
    let e := if r.2 && e.autoNotify then e.emit (.removePolicy sec ptype rule) else e
    e.linkUpdate r.2 sec ptype false [rule] (.bool r.2)
  if e.autoSave then
    match e.adapter.removePolicy sec ptype rule with
    | (a, none) => ({ e with adapter := a }, .err .adapter)
    | (a, some false) => ({ e with adapter := a }, .bool false)
    | (a, some true) => go { e with adapter := a }
  else go e

def Enforcer.removePolicies (e : Enforcer) (sec ptype : String) (rules : List Rule) : Enforcer × Res :=
  let go (e : Enforcer) : Enforcer × Res :=
    let r := e.store.removePolicies sec ptype rules
    let e := { e with store := r.1 }
    let e := if r.2 && e.autoNotify then e.emit (.removePolicies sec ptype rules) else e
    e.linkUpdate r.2 sec ptype false rules (.bool r.2)
  if e.autoSave then
    match e.adapter.removePolicies sec ptype rules with
    | (a, none) => ({ e with adapter := a }, .err .adapter)
    | (a, some false) => ({ e with adapter := a }, .bool false)
    | (a, some true) => go { e with adapter := a }
  else go e

def Enforcer.removeFiltered (e : Enforcer) (sec ptype : String) (idx : Nat) (vals : List String) :
    Enforcer × Res :=
  let go (e : Enforcer) : Enforcer × Res :=
    let r := e.store.removeFiltered sec ptype idx vals
    let e := { e with store := r.1 }
    let e := if r.2.1 && e.autoNotify then e.emit (.removeFiltered sec ptype r.2.2) else e
    e.linkUpdate r.2.1 sec ptype false r.2.2 (.rules r.2.1 r.2.2)
  if e.autoSave then
    match e.adapter.removeFiltered sec ptype idx vals with
    | (a, none) => ({ e with adapter := a }, .err .adapter)
    | (a, some false) => ({ e with adapter := a }, .rules false [])
    | (a, some true) => go { e with adapter := a }
  else go e

/-! ## Loading, saving, clearing (enforcer.rs:713-782) -/

/-- insert the offered records into the store; with `failAfter k` stop after `k` records -/
def loadRecords (s : Store) (recs : List (String × String × Rule)) : Store :=
  recs.foldl (fun s (sec, ptype, rule) => s.loadInsert sec ptype rule) s

/-- keep only the first `k` rules of the store (p-definitions first, then g-definitions,
each in stored order): what a user-supplied adapter that fails after delivering `k`
rules leaves behind (the harness' faulty adapter does exactly this) -/
def truncDefs : Nat → List PolDef → List PolDef × Nat
  | k, [] => ([], k)
  | k, d :: rest =>
    let r := truncDefs (k - d.policy.length) rest
    ({ d with policy := d.policy.take k } :: r.1, r.2)

def Store.truncate (s : Store) (k : Nat) : Store :=
  let rp := truncDefs k s.p
  { p := rp.1, g := (truncDefs rp.2 s.g).1 }

/-- adapter `load_policy`: new adapter state, the store after loading, `none` on `Err` -/
def AdapterSt.load (a : AdapterSt) (s : Store) : AdapterSt × Store × Option Unit :=
  let (f, a) := a.nextFault
  match f with
  | .err | .refuse => (a, s, none)
  | .failAfter k => ({ a with filtered := false }, (loadRecords s a.records).truncate k, none)
  | .pass => ({ a with filtered := false }, loadRecords s a.records, some ())

/-- adapter `load_filtered_policy` -/
def AdapterSt.loadFiltered (a : AdapterSt) (s : Store) (fp fg : List String) : AdapterSt × Store × Option Unit :=
  let (f, a) := a.nextFault
  let keep := fun (r : String × String × Rule) => filterKeeps fp fg r.1 r.2.2
  match f with
  | .err | .refuse => (a, s, none)
  | .failAfter k =>
    ({ a with filtered := a.records.any (fun r => !keep r) }, (loadRecords s (a.records.filter keep)).truncate k, none)
  | .pass =>
    ({ a with filtered := a.records.any (fun r => !keep r) }, loadRecords s (a.records.filter keep), some ())

/-- shared tail of `load_policy` / `load_filtered_policy` after the fix that keeps the
previous policy on failure -/
def Enforcer.finishLoad (e : Enforcer) (old : Store) (a : AdapterSt) (s : Store) (ok : Option Unit) :
    Enforcer × Res :=
  let e1 := { e with adapter := a, store := s }
  let (e2, res) : Enforcer × Option ErrKind :=
    match ok with
    | none => (e1, some .adapter)
    | some () => if e1.autoBuild then e1.buildRoleLinks else (e1, none)
  match res with
  | none => (e2, .unit)
  | some k =>
    -- restore_policy: previous rules back, links rebuilt (errors ignored)
    let e3 := { e2 with store := old }
    let e4 := if e3.autoBuild then e3.buildRoleLinks.1 else e3
    (e4, .err k)

def Enforcer.loadPolicy (e : Enforcer) : Enforcer × Res :=
  let r := e.adapter.load e.store.clear
  e.finishLoad e.store r.1 r.2.1 r.2.2

def Enforcer.loadFilteredPolicy (e : Enforcer) (fp fg : List String) : Enforcer × Res :=
  let r := e.adapter.loadFiltered e.store.clear fp fg
  e.finishLoad e.store r.1 r.2.1 r.2.2

/-- adapter `save_policy` -/
def AdapterSt.save (a : AdapterSt) (s : Store) : AdapterSt × Option Unit :=
  let (f, a) := a.nextFault
  match f with
  | .err | .refuse | .failAfter _ => (a, none)
  | .pass =>
    match a.kind with
    | .null => (a, some ())
    | .memory =>
      -- memory_adapter.rs:78-104: clear, then p-types, then g-types
      let ls := (s.p ++ s.g).flatMap (fun d =>
        d.policy.map (fun r => (String.ofList (d.key.toList.take 1)) :: d.key :: r))
      ({ a with lines := ls.foldl insertMove [] }, some ())
    | k =>
      -- file_adapter.rs:164-166, string_adapter.rs:126-128: a model without a policy definition is refused
      -- (`ModelError::P`) before anything is written
      if s.p.isEmpty then (a, none) else
      let sep := if k = .file then [','] else [',', ' ']
      let ls := (s.p ++ s.g).flatMap (fun d =>
        d.policy.map (fun r => renderLine sep d.key.toList (r.map String.toList) ++ ['\n']))
      ({ a with text := ls.flatten }, some ())

/-- the failure of a save is the adapter's own, except that the file and string adapters, when they are reached, refuse a
model without a policy definition with a model error -/
def AdapterSt.saveErr (a : AdapterSt) (s : Store) : ErrKind :=
  if (a.kind = .file || a.kind = .string) && s.p.isEmpty && a.nextFault.1 = .pass then .model else .adapter

def Enforcer.savePolicy (e : Enforcer) : Enforcer × Res :=
  if e.adapter.filtered then (e, .panic) else
  match e.adapter.save e.store with
  | (a, none) => ({ e with adapter := a }, .err (e.adapter.saveErr e.store))
  | (a, some ()) =>
    let e := { e with adapter := a }
    (e.emit (.savePolicy (e.store.allOf "p" ++ e.store.allOf "g")), .unit)

def Enforcer.clearPolicy (e : Enforcer) : Enforcer × Res :=
  let go (e : Enforcer) : Enforcer × Res :=
    let e := { e with store := e.store.clear }
    let (e, r) := if e.autoBuild then e.buildRoleLinks else (e, none)
    match r with
    | some k => (e, .err k)
    | none => (e.emit .clearPolicy, .unit)
  if e.autoSave then
    match e.adapter.clear with
    | (a, none) => ({ e with adapter := a }, .err .adapter)
    | (a, some ()) => go { e with adapter := a }
  else go e

/-! ## Configuration (enforcer.rs:404-550, 808-818) -/

/-- macros.rs:48-77 via `register_g_functions`: one function per role definition;
an arity other than 2 or 3 is an error -/
def registerG (gfuncs : List (String × Nat)) : List PolDef → Option (List (String × Nat))
  | [] => some gfuncs
  | d :: rest =>
    if d.arity = 2 || d.arity = 3 then registerG (gfuncs ++ [(d.key, d.arity)]) rest else none

/-- `Enforcer::new_raw` -/
def Enforcer.newRaw (defs : Defs) (store : Store) (a : AdapterSt) : Option Enforcer :=
  match registerG [] store.g with
  | none => none
  | some gf => some
    { defs := defs, store := store.clear, adapter := a, rm := RoleMgr.new 10, enabled := true,
      autoSave := true, autoBuild := true, autoNotify := true, callbacks := 1, hasWatcher := false,
      gfuncs := gf, userFns := [], log := [] }

/-- `Enforcer::new(model, adapter)` with a model that already holds rules (filled by the caller, e.g. through
an adapter-level filtered load) : an unfiltered adapter is loaded in full (which clears the model first); a
filtered adapter is not loaded, the rules of the given model stay and their role links are built -/
def Enforcer.newPrefilled (defs : Defs) (store : Store) (a : AdapterSt) : Option (Enforcer × Res) :=
  match Enforcer.newRaw defs store a with
  | none => none
  | some e0 =>
    let e := { e0 with store := store }
    if e.adapter.filtered then
      match e.buildRoleLinks with
      | (e', none) => some (e', .unit)
      | (e', some k) => some (e', .err k)
    else some e.loadPolicy

/-- `Enforcer::new`: `new_raw`, then `load_policy` unless the adapter is filtered -/
def Enforcer.new (defs : Defs) (store : Store) (a : AdapterSt) : Option (Enforcer × Res) :=
  match Enforcer.newRaw defs store a with
  | none => none
  | some e => if e.adapter.filtered then some (e, .unit) else some e.loadPolicy

/-- `set_role_manager(rm0)`: the given manager replaces the current one and the role functions are
registered against it *first* (so that they follow the manager even if the rebuild fails — the order after
the repair of F24); with auto-build on it is then cleared and rebuilt from the stored grouping rules
(whatever it held) -/
def Enforcer.setRoleManagerWith (e : Enforcer) (rm0 : RoleMgr String) : Enforcer × Res :=
  let e := { e with rm := rm0 }
  match registerG e.gfuncs e.store.g with
  | none => (e, .err .model)
  | some gf =>
    let e := { e with gfuncs := gf }
    let (e, r) := if e.autoBuild then e.buildRoleLinks else (e, none)
    match r with
    | some k => (e, .err k)
    | none => (e, .unit)

def Enforcer.setRoleManager (e : Enforcer) : Enforcer × Res := e.setRoleManagerWith (RoleMgr.new 10)

def Enforcer.setModel (e : Enforcer) (defs : Defs) (store : Store) : Enforcer × Res :=
  let e := { e with defs := defs, store := store.clear }
  match registerG e.gfuncs e.store.g with
  | none => (e, .err .model)
  | some gf => { e with gfuncs := gf }.loadPolicy

def Enforcer.setAdapter (e : Enforcer) (a : AdapterSt) : Enforcer × Res :=
  { e with adapter := a }.loadPolicy

/-- enforcer.rs `enable_auto_notify_watcher` (after the fix: `off` first, then `on`) -/
def Enforcer.enableAutoNotify (e : Enforcer) (b : Bool) : Enforcer :=
  { e with callbacks := if b then 1 else 0, autoNotify := b }

/-! ## Evaluation -/

/-- the four section keys of an `EnforceContext` (enforcer.rs:77-99) -/
structure CtxKeys where
  r : String
  p : String
  e : String
  m : String
  deriving DecidableEq, Repr

def CtxKeys.ofSuffix (suffix : String) : CtxKeys :=
  ⟨"r" ++ suffix, "p" ++ suffix, "e" ++ suffix, "m" ++ suffix⟩

def Enforcer.evalCfgKeys (e : Enforcer) (k : CtxKeys) (plain : Bool) : EvalCfg :=
  let rd := e.defs.r.lookup k.r
  let pd := e.store.find "p" k.p
  let ed := e.defs.e.lookup k.e
  let md := e.defs.m.lookup k.m
  let eftToken := k.p ++ "_eft"
  { enabled := e.enabled
    sectionsOk := rd.isSome && pd.isSome && ed.isSome && md.isSome
    rtokens := rd.getD 0
    ptokens := (pd.map (·.tokens)).getD []
    effExpr := (ed.bind (fun t => EffExpr.ofString (if plain then t else t.replace eftToken "p_eft")))
    eftToken := eftToken
    compiles := (md.getD none).isSome
    policy := (pd.map (·.policy)).getD [] }

def Enforcer.evalCfg (e : Enforcer) (suffix : String) (plain : Bool) : EvalCfg :=
  e.evalCfgKeys (CtxKeys.ofSuffix suffix) plain

def Enforcer.env (e : Enforcer) (call : String → List String → Option Atom)
    (tbl : String → Option Expr) (req : List Val) (rule : Rule) : Env :=
  { req := req, rule := rule, rm := e.rm, gfuncs := e.gfuncs, call := call, tbl := tbl }

def Enforcer.matchFn (e : Enforcer) (suffix : String) (call : String → List String → Option Atom)
    (tbl : String → Option Expr) (req : List Val) : MatchFn :=
  fun rule =>
    match (e.defs.m.lookup ("m" ++ suffix)).getD none with
    | none => none
    | some ex => ex.evalBool (e.env call tbl req rule)

def Enforcer.matchFnKey (e : Enforcer) (mkey : String) (call : String → List String → Option Atom)
    (tbl : String → Option Expr) (req : List Val) : MatchFn :=
  fun rule =>
    match (e.defs.m.lookup mkey).getD none with
    | none => none
    | some ex => ex.evalBool (e.env call tbl req rule)

/-- `enforce_with_context` with a hand-built context (public fields) -/
def Enforcer.enforceKeys (e : Enforcer) (k : CtxKeys) (call : String → List String → Option Atom)
    (tbl : String → Option Expr) (req : List Val) : Out ErrKind Bool :=
  enforceCore (e.evalCfgKeys k false) req.length (e.matchFnKey k.m call tbl req)

/-- `CoreApi::enforce` -/
def Enforcer.enforce (e : Enforcer) (call : String → List String → Option Atom)
    (tbl : String → Option Expr) (req : List Val) : Out ErrKind Bool :=
  enforceCore (e.evalCfg "" true) req.length (e.matchFn "" call tbl req)

/-- `CoreApi::enforce_with_context(EnforceContext::new(suffix), …)` -/
def Enforcer.enforceCtx (e : Enforcer) (suffix : String) (call : String → List String → Option Atom)
    (tbl : String → Option Expr) (req : List Val) : Out ErrKind Bool :=
  enforceCore (e.evalCfg suffix false) req.length (e.matchFn suffix call tbl req)

end Casbin
