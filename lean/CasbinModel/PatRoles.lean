import CasbinModel.RoleGraph
/-!
# DefaultRoleManager with matching functions  (src/rbac/default_role_manager.rs, the whole file)

`RoleGraph.lean` models the manager as the `Enforcer` configures it (no matching function).  This file
models the manager as written: a role-matching and a domain-matching function may be installed
(`matching_fn`, default_role_manager.rs:211-218), edges carry a variant (`Link` / `Match`,
default_role_manager.rs:30-34), creating a node adds `Match` edges to and from every node it matches
(`get_or_create_role` 49-101, `link_if_matches` 144-174), and the walk follows `Link` edges, the `Match`
edges of a linked node and the links of the patterns that match the node (`bfs_iterator` 478-538).

The two functions are *parameters* of every operation (the crate keeps them in two fields that
`matching_fn` may overwrite at any time; edges already in the graph stay).

`petgraph::StableDiGraph`: nodes in creation order (no node is ever removed); one edge list, newest first —
`add_edge` links the new edge at the head of the source's outgoing list **and** of the target's incoming
list, so filtering the one list by source (resp. target) gives the order `edges_directed` walks;
`find_edge(a, b)` returns the first outgoing edge of `a` whose target is `b`, i.e. the newest, whatever its
variant; `remove_edge` unlinks one edge and keeps the order of the others.

`Lemmas/PatRoles.lean` proves that with both functions absent this manager *is* the one of
`RoleGraph.lean` (every operation and every query commute with the embedding), so the C03 theorems speak
about this code path too.
-/
namespace Casbin

variable {α : Type} [DecidableEq α]

/-- an edge: source, target, `true` = `EdgeVariant::Match`, `false` = `EdgeVariant::Link` -/
abbrev PEdge (α : Type) := α × α × Bool

structure PGraph (α : Type) where
  nodes : List α
  edges : List (PEdge α)
  deriving Repr

structure PRm (α : Type) where
  doms : List (α × PGraph α)
  maxLevel : Nat
  deriving Repr

/-- a matching function, if one is installed (`Option<MatchingFn>`) -/
abbrev RoleFn (α : Type) := Option (α → α → Bool)

/-- `self.role_matching_fn.map(|f| f(a, b)).unwrap_or_default()` -/
def RoleFn.app (mf : RoleFn α) (a b : α) : Bool :=
  match mf with
  | some f => f a b
  | none => false

def PGraph.empty : PGraph α := ⟨[], []⟩
def PRm.new (maxLevel : Nat) : PRm α := ⟨[], maxLevel⟩

def PRm.graph? (rm : PRm α) (d : α) : Option (PGraph α) := (rm.doms.find? (·.1 = d)).map (·.2)
def PRm.graph (rm : PRm α) (d : α) : PGraph α := (rm.graph? d).getD PGraph.empty

def psetDom (doms : List (α × PGraph α)) (d : α) (g : PGraph α) : List (α × PGraph α) :=
  match doms with
  | [] => [(d, g)]
  | (d', g') :: rest => if d' = d then (d, g) :: rest else (d', g') :: psetDom rest d g

/-- `graph.find_edge(a, b)`: the newest edge from `a` to `b`, its variant -/
def PGraph.findEdge (g : PGraph α) (a b : α) : Option Bool :=
  (g.edges.find? (fun e => e.1 = a ∧ e.2.1 = b)).map (·.2.2)

/-- default_role_manager.rs:144-174 `link_if_matches(graph, f, not_pattern, maybe_pattern)`; the flag says
whether an edge was added -/
def PGraph.linkIfMatches (g : PGraph α) (f : α → α → Bool) (notPat maybePat : α) : PGraph α × Bool :=
  if !f maybePat notPat then (g, false) else
  let add := match g.findEdge notPat maybePat with
    | some isMatch => !isMatch
    | none => true
  if add then ({ g with edges := (notPat, maybePat, true) :: g.edges }, true) else (g, false)

/-- the `for existing_role_id in node_ids` loop of `get_or_create_role` -/
def PGraph.linkAll (f : α → α → Bool) (new : α) : PGraph α → List α → PGraph α
  | g, [] => g
  | g, x :: xs =>
    let g1 := (g.linkIfMatches f new x).1
    let g2 := (g1.linkIfMatches f x new).1
    PGraph.linkAll f new g2 xs

/-- default_role_manager.rs:49-101 `get_or_create_role` on one graph -/
def PGraph.getOrCreate (rf : RoleFn α) (g : PGraph α) (name : α) : PGraph α :=
  if name ∈ g.nodes then g else
  let g1 : PGraph α := { g with nodes := g.nodes ++ [name] }
  match rf with
  | none => g1
  | some f => PGraph.linkAll f name g1 (g1.nodes.filter (· ≠ name))

/-- default_role_manager.rs:184-209 `add_link` -/
def PRm.addLink (rf : RoleFn α) (rm : PRm α) (a b d : α) : PRm α :=
  if a = b then rm else
  let g := ((rm.graph d).getOrCreate rf a).getOrCreate rf b
  let add := match g.findEdge a b with
    | some isMatch => isMatch
    | none => true
  let g' := if add then { g with edges := (a, b, false) :: g.edges } else g
  { rm with doms := psetDom rm.doms d g' }

/-- default_role_manager.rs:103-121 `matched_domains` (a `HashMap`'s keys: the order is not observable, every
use folds them into a disjunction or a set) -/
def PRm.matchedDomains (df : RoleFn α) (rm : PRm α) (d : α) : List α :=
  match df with
  | some f => (rm.doms.map (·.1)).filter (fun k => f d k)
  | none => if (rm.graph? d).isSome then [d] else []

/-- default_role_manager.rs:123-141 `domain_has_role` -/
def PRm.domainHasRole (rf df : RoleFn α) (rm : PRm α) (name d : α) : Bool :=
  (rm.matchedDomains df d).any (fun k =>
    let g := rm.graph k
    if name ∈ g.nodes then true else
    match rf with
    | some f => g.nodes.any (fun r => f name r)
    | none => false)

/-- remove the first edge from `a` to `b` (`find_edge` + `remove_edge`) -/
def eraseFirstEdge (a b : α) : List (PEdge α) → List (PEdge α)
  | [] => []
  | e :: es => if e.1 = a ∧ e.2.1 = b then es else e :: eraseFirstEdge a b es

/-- default_role_manager.rs:220-250 `delete_link`; `none` = `Err(RbacError::NotFound)` -/
def PRm.deleteLink (rf df : RoleFn α) (rm : PRm α) (a b d : α) : Option (PRm α) :=
  if a = b then some rm else
  if !rm.domainHasRole rf df a d || !rm.domainHasRole rf df b d then none else
  let g := ((rm.graph d).getOrCreate rf a).getOrCreate rf b
  some { rm with doms := psetDom rm.doms d { g with edges := eraseFirstEdge a b g.edges } }

def PRm.clear (rm : PRm α) : PRm α := { rm with doms := [] }

/-! ## the walk -/

def PGraph.outLinks (g : PGraph α) (u : α) : List α :=
  (g.edges.filter (fun e => e.1 = u ∧ e.2.2 = false)).map (·.2.1)
def PGraph.outMatches (g : PGraph α) (u : α) : List α :=
  (g.edges.filter (fun e => e.1 = u ∧ e.2.2 = true)).map (·.2.1)
/-- sources of the incoming `Match` edges of `u` -/
def PGraph.inMatches (g : PGraph α) (u : α) : List α :=
  (g.edges.filter (fun e => e.2.1 = u ∧ e.2.2 = true)).map (·.1)
/-- sources of all incoming edges of `u` (`neighbors_directed(.., Incoming)`: every variant) -/
def PGraph.inAll (g : PGraph α) (u : α) : List α :=
  (g.edges.filter (fun e => e.2.1 = u)).map (·.1)

/-- default_role_manager.rs:478-538 `bfs_iterator` -/
def PGraph.succs (g : PGraph α) (withMatches : Bool) (u : α) : List α :=
  let direct := g.outLinks u
  if !withMatches then direct else
  direct ++ (direct.flatMap g.outMatches) ++ ((g.inMatches u).flatMap g.outLinks)

/-- `Bfs::next` over an arbitrary successor function (the bookkeeping is that of `Bfs.next`) -/
def Bfs.nextWith (succ : α → List α) (maxD : Nat) (b : Bfs α) : Option (α × Bfs α) :=
  if maxD ≤ b.depth then none else
  match b.queue with
  | [] => none
  | u :: q =>
    let rem1 := b.rem - 1
    let depth' := if rem1 = 0 then b.depth + 1 else b.depth
    let r := visitAll b.disc (succ u)
    some (u, { queue := q ++ r.1, disc := r.2, depth := depth', rem := rem1 + r.1.length })

/-- the `while let Some(node) = bfs.next(graph)` loop of `has_link` with the test it applies to a node -/
def searchWith (succ : α → List α) (hit : α → Bool) (maxD : Nat) : Nat → Bfs α → Bool
  | 0, _ => false
  | fuel + 1, b =>
    match Bfs.nextWith succ maxD b with
    | none => false
    | some (u, b') => if hit u then true else searchWith succ hit maxD fuel b'

/-- the start node of `has_link` in one graph: the node of that name, else the first node (creation order)
the name matches -/
def PGraph.startNode (rf : RoleFn α) (g : PGraph α) (name : α) : Option α :=
  if name ∈ g.nodes then some name else
  match rf with
  | some f => g.nodes.find? (fun r => f name r)
  | none => none

/-- the start node of `get_roles` / `get_users`: the first node that *is or matches* the name -/
def PGraph.firstNode (rf : RoleFn α) (g : PGraph α) (name : α) : Option α :=
  g.nodes.find? (fun r => decide (r = name) || RoleFn.app rf name r)

/-- `has_link` inside one matched domain -/
def PGraph.hasLink (rf : RoleFn α) (g : PGraph α) (maxD : Nat) (a b : α) : Bool :=
  match g.startNode rf a with
  | none => false
  | some s =>
    searchWith (g.succs rf.isSome) (fun r => decide (r = b) || RoleFn.app rf r b)
      maxD (g.nodes.length + 1) (Bfs.init s)

/-- default_role_manager.rs:252-325 `has_link` (result cache aside) -/
def PRm.hasLink (rf df : RoleFn α) (rm : PRm α) (a b d : α) : Bool :=
  if a = b then true else
  (rm.matchedDomains df d).any (fun k => (rm.graph k).hasLink rf rm.maxLevel a b)

/-- default_role_manager.rs:327-356 `get_roles` (a set) -/
def PRm.getRoles (rf df : RoleFn α) (rm : PRm α) (a d : α) : List α :=
  dedup ((rm.matchedDomains df d).flatMap (fun k =>
    let g := rm.graph k
    match g.firstNode rf a with
    | none => []
    | some s => g.succs rf.isSome s))

/-- default_role_manager.rs:358-387 `get_users` (a set) -/
def PRm.getUsers (rf df : RoleFn α) (rm : PRm α) (a d : α) : List α :=
  dedup ((rm.matchedDomains df d).flatMap (fun k =>
    let g := rm.graph k
    match g.firstNode rf a with
    | none => []
    | some s => g.inAll s))

end Casbin
