import CasbinModel.Basic
/-!
# DefaultRoleManager  (src/rbac/default_role_manager.rs)

Modelled as the `Enforcer` configures it: no role-matching and no domain-matching
function (both `None`).  `petgraph::StableDiGraph` is modelled as a node list
(creation order) and an edge list with the **newest edge first** — `add_edge` links
the new edge at the head of the source node's outgoing list, which is the order
`edges_directed(.., Outgoing)` walks.  A domain `None` is the literal domain
`"DEFAULT"` (default_role_manager.rs:18,54); the caller passes it explicitly.
-/
namespace Casbin

variable {α : Type} [DecidableEq α]

/-- one domain's graph -/
structure Graph (α : Type) where
  nodes : List α
  edges : List (α × α)
  deriving Repr

/-- default_role_manager.rs:20-28 (the cache is modelled in Cached.lean) -/
structure RoleMgr (α : Type) where
  doms : List (α × Graph α)
  maxLevel : Nat
  deriving Repr

def Graph.empty : Graph α := ⟨[], []⟩

def RoleMgr.new (maxLevel : Nat) : RoleMgr α := ⟨[], maxLevel⟩

/-- `all_domains.get(domain)` -/
def RoleMgr.graph? (rm : RoleMgr α) (d : α) : Option (Graph α) :=
  (rm.doms.find? (·.1 = d)).map (·.2)

/-- graph of a domain, empty if the domain does not exist (yet) -/
def RoleMgr.graph (rm : RoleMgr α) (d : α) : Graph α := (rm.graph? d).getD Graph.empty

def setDom (doms : List (α × Graph α)) (d : α) (g : Graph α) : List (α × Graph α) :=
  match doms with
  | [] => [(d, g)]
  | (d', g') :: rest => if d' = d then (d, g) :: rest else (d', g') :: setDom rest d g

/-- default_role_manager.rs:49-101 `get_or_create_role` on one graph -/
def Graph.getOrCreate (g : Graph α) (name : α) : Graph α :=
  if name ∈ g.nodes then g else { g with nodes := g.nodes ++ [name] }

/-- outgoing LINK neighbours in petgraph iteration order (newest edge first) -/
def Graph.succs (g : Graph α) (u : α) : List α := (g.edges.filter (·.1 = u)).map (·.2)

/-- incoming neighbours -/
def Graph.preds (g : Graph α) (u : α) : List α := (g.edges.filter (·.2 = u)).map (·.1)

/-- default_role_manager.rs:184-209 `add_link` -/
def RoleMgr.addLink (rm : RoleMgr α) (a b d : α) : RoleMgr α :=
  if a = b then rm else
  let g := ((rm.graph d).getOrCreate a).getOrCreate b
  let g' := if (a, b) ∈ g.edges then g else { g with edges := (a, b) :: g.edges }
  { rm with doms := setDom rm.doms d g' }

/-- default_role_manager.rs:123-141 `domain_has_role` with no matching functions -/
def RoleMgr.domainHasRole (rm : RoleMgr α) (name d : α) : Bool :=
  match rm.graph? d with
  | none => false
  | some g => decide (name ∈ g.nodes)

/-- default_role_manager.rs:220-250 `delete_link`; `none` = `Err(RbacError::NotFound)` -/
def RoleMgr.deleteLink (rm : RoleMgr α) (a b d : α) : Option (RoleMgr α) :=
  -- a self-link is never stored: deleting one is a no-op (mirrors `add_link`)
  if a = b then some rm else
  if !rm.domainHasRole a d || !rm.domainHasRole b d then none else
  let g := rm.graph d
  some { rm with doms := setDom rm.doms d { g with edges := g.edges.erase (a, b) } }

/-- default_role_manager.rs:177-182 `clear` -/
def RoleMgr.clear (rm : RoleMgr α) : RoleMgr α := { rm with doms := [] }

/-! ## The depth-bounded BFS (default_role_manager.rs:398-476) -/

structure Bfs (α : Type) where
  queue : List α
  disc : List α
  depth : Nat
  rem : Nat
  deriving Repr

/-- `discovered.visit(succ)` for every successor in order: (newly enqueued, discovered') -/
def visitAll (disc : List α) : List α → List α × List α
  | [] => ([], disc)
  | s :: ss =>
    if s ∈ disc then visitAll disc ss
    else
      let r := visitAll (s :: disc) ss
      (s :: r.1, r.2)

/-- `Bfs::new` -/
def Bfs.init (s : α) : Bfs α := { queue := [s], disc := [s], depth := 0, rem := 1 }

/-- `Bfs::next`: `none` when the depth limit is reached or the queue is empty.
Note `update_depth`: the counter only advances when `depth_elements_remaining`
(= queue length, see `BInv.rem_eq`) drops to zero. -/
def Bfs.next (g : Graph α) (maxD : Nat) (b : Bfs α) : Option (α × Bfs α) :=
  if maxD ≤ b.depth then none else
  match b.queue with
  | [] => none
  | u :: q =>
    let rem1 := b.rem - 1
    let depth' := if rem1 = 0 then b.depth + 1 else b.depth
    let r := visitAll b.disc (g.succs u)
    some (u, { queue := q ++ r.1, disc := r.2, depth := depth', rem := rem1 + r.1.length })

/-- the `while let Some(node) = bfs.next(graph)` loop of `has_link`, on fuel -/
def search (g : Graph α) (maxD : Nat) (t : α) : Nat → Bfs α → Bool
  | 0, _ => false
  | fuel + 1, b =>
    match b.next g maxD with
    | none => false
    | some (u, b') => if u = t then true else search g maxD t fuel b'

/-- default_role_manager.rs:252-325 `has_link` (cache aside) -/
def RoleMgr.hasLink (rm : RoleMgr α) (a b d : α) : Bool :=
  if a = b then true else
  match rm.graph? d with
  | none => false
  | some g =>
    if a ∈ g.nodes then search g rm.maxLevel b (g.nodes.length + 1) (Bfs.init a) else false

/-- a `HashSet` collects the neighbours: duplicates vanish (order is not observable) -/
def dedup : List α → List α
  | [] => []
  | x :: xs => if x ∈ xs then dedup xs else x :: dedup xs

/-- default_role_manager.rs:327-356 `get_roles` (a set; the driver sorts) -/
def RoleMgr.getRoles (rm : RoleMgr α) (a d : α) : List α :=
  match rm.graph? d with
  | none => []
  | some g => if a ∈ g.nodes then dedup (g.succs a) else []

/-- default_role_manager.rs:358-387 `get_users` -/
def RoleMgr.getUsers (rm : RoleMgr α) (a d : α) : List α :=
  match rm.graph? d with
  | none => []
  | some g => if a ∈ g.nodes then dedup (g.preds a) else []

/-- role-manager operations (a history is a list of these) -/
inductive RmOp (α : Type) where
  | add (a b d : α)
  | del (a b d : α)
  | clear
  deriving Repr

def RoleMgr.apply (rm : RoleMgr α) : RmOp α → RoleMgr α
  | .add a b d => rm.addLink a b d
  | .del a b d => (rm.deleteLink a b d).getD rm
  | .clear => rm.clear

def RoleMgr.run (rm : RoleMgr α) (h : List (RmOp α)) : RoleMgr α := h.foldl RoleMgr.apply rm

end Casbin
