import CasbinModel.Lemmas.Enforce
import CasbinModel.Enforcer
/-!
# C01 — Decisions equal the PERM reference semantics

`enforceCore` (the model of `private_enforce` / `private_enforce_with_context`) is
related to the declarative reference: per-rule outcomes in stored order
(`ruleOutcome`: arity check, matcher, effect column) combined by `combine`.
The theorems hold for **every matcher function** `m` — in particular for the AST
evaluator of `Matcher.lean` over any role graph — every policy and every request.
-/
namespace Casbin.C01
open Casbin

/-- the conditions under which evaluation reaches the rule loop -/
structure Ready (c : EvalCfg) (reqLen : Nat) (ex : EffExpr) : Prop where
  enabled : c.enabled = true
  sections : c.sectionsOk = true
  arity : c.rtokens = reqLen
  effect : c.effExpr = some ex
  compiles : c.compiles = true

/-- **Main theorem**: with stored rules, `enforce` is the reference scan over the
per-rule outcomes in stored order. -/
theorem enforce_eq_reference (c : EvalCfg) (reqLen : Nat) (m : MatchFn) (ex : EffExpr)
    (hr : Ready c reqLen ex) (hne : c.policy ≠ []) :
    enforceCore c reqLen m =
      refScan ex [] (c.policy.map (ruleOutcome c.ptokens.length (c.ptokens.idxOf? c.eftToken) m)) := by
  obtain ⟨h1, h2, h3, h4, h5⟩ := hr
  unfold enforceCore
  simp only [h1, h2, h3, h4, h5, Bool.not_true, Bool.false_eq_true, if_false, ne_eq, not_true_eq_false]
  have hpos : 0 < c.policy.length := List.length_pos_iff.mpr hne
  have hmax : max c.policy.length 1 = c.policy.length := by omega
  rw [hmax]
  cases hs : Stream.new ex c.policy.length with
  | none => unfold Stream.new at hs; split at hs <;> simp_all <;> omega
  | some s0 =>
    have hemp : c.policy.isEmpty = false := by cases hp : c.policy <;> simp_all
    simp only [hemp, Bool.false_eq_true, if_false]
    have := ruleLoop_eq_refScan ex c.policy.length c.ptokens.length (c.ptokens.idxOf? c.eftToken) m
      c.policy [] s0 (running_new ex _ s0 hs) (by simp)
    rw [← this]
    cases ruleLoop c.ptokens.length (c.ptokens.idxOf? c.eftToken) m s0 c.policy <;> rfl

/-- If no stored rule makes evaluation fail, the decision is *exactly* the effect rule
applied to all per-rule effects in stored order (the early exit never changes it). -/
theorem enforce_errorfree (c : EvalCfg) (reqLen : Nat) (m : MatchFn) (ex : EffExpr)
    (hr : Ready c reqLen ex) (hne : c.policy ≠ [])
    (effs : List Eff)
    (hok : c.policy.map (ruleOutcome c.ptokens.length (c.ptokens.idxOf? c.eftToken) m) = effs.map Except.ok) :
    enforceCore c reqLen m = .ok (combine ex effs) := by
  rw [enforce_eq_reference c reqLen m ex hr hne, hok, refScan_all_ok]; simp

/-- With no stored rules the matcher is evaluated once with empty policy fields. -/
theorem enforce_empty (c : EvalCfg) (reqLen : Nat) (m : MatchFn) (ex : EffExpr)
    (hr : Ready c reqLen ex) (hemp : c.policy = []) :
    enforceCore c reqLen m =
      (match m (c.ptokens.map (fun _ => "")) with
       | none => .err .eval
       | some b => .ok (combine ex [if b then Eff.allow else Eff.indet])) := by
  obtain ⟨h1, h2, h3, h4, h5⟩ := hr
  unfold enforceCore
  simp only [h1, h2, h3, h4, h5, hemp, Bool.not_true, Bool.false_eq_true, if_false, ne_eq,
    not_true_eq_false, List.length_nil, List.isEmpty_nil, if_true]
  cases hm : m (c.ptokens.map (fun _ => "")) with
  | none => simp [Stream.new]
  | some b => cases ex <;> cases b <;> decide

/-- It never grants what the reference denies and never denies what it grants
(both directions of the main theorem, for the record). -/
theorem never_grants_denied_never_denies_granted (c : EvalCfg) (reqLen : Nat) (m : MatchFn) (ex : EffExpr)
    (hr : Ready c reqLen ex) (hne : c.policy ≠ []) (v : Bool) :
    enforceCore c reqLen m = .ok v ↔
      refScan ex [] (c.policy.map (ruleOutcome c.ptokens.length (c.ptokens.idxOf? c.eftToken) m)) = .ok v := by
  rw [enforce_eq_reference c reqLen m ex hr hne]

/-- effect-column mapping -/
theorem ruleEffect_spec (eftIdx : Option Nat) (b : Bool) (rule : Rule) :
    ruleEffect eftIdx b rule =
      (if b = false then Eff.indet else
        match eftIdx with
        | none => Eff.allow
        | some j => if rule[j]? = some "deny" then Eff.deny else if rule[j]? = some "allow" then Eff.allow else Eff.indet) := by
  unfold ruleEffect
  cases b <;> simp
  cases eftIdx with
  | none => rfl
  | some j =>
    simp only
    split <;> simp_all

/-- the pre-loop error paths, in the order the code takes them -/
theorem disabled_grants (c : EvalCfg) (n : Nat) (m : MatchFn) (h : c.enabled = false) :
    enforceCore c n m = .ok true := by unfold enforceCore; simp [h]

theorem wrong_arity_is_error (c : EvalCfg) (n : Nat) (m : MatchFn) (h1 : c.enabled = true)
    (h2 : c.sectionsOk = true) (h : c.rtokens ≠ n) : enforceCore c n m = .err .request := by
  unfold enforceCore; simp [h1, h2, h]

/-- the model's enforcer instantiates the theorems: `Enforcer.enforce` *is* `enforceCore`
on the unsuffixed sections with the AST evaluator as matcher -/
theorem enforcer_enforce_def (e : Enforcer) (call : String → List String → Option Atom)
    (tbl : String → Option Expr) (req : List Val) :
    e.enforce call tbl req = enforceCore (e.evalCfg "" true) req.length (e.matchFn "" call tbl req) := rfl

/-! ### Non-vacuity: a concrete RBAC-with-deny configuration meets `Ready` and both sides reduce -/

def demoCfg : EvalCfg :=
  { enabled := true, sectionsOk := true, rtokens := 2, ptokens := ["p_sub", "p_obj", "p_eft"],
    effExpr := some .allowAndDeny, eftToken := "p_eft", compiles := true,
    policy := [["alice", "d1", "allow"], ["alice", "d1", "deny"], ["bob", "d1", "allow"]] }

def demoMatch (sub obj : String) : MatchFn := fun rule => some (rule[0]? = some sub && rule[1]? = some obj)

example : Ready demoCfg 2 .allowAndDeny := ⟨rfl, rfl, rfl, rfl, rfl⟩
example : enforceCore demoCfg 2 (demoMatch "alice" "d1") = .ok false := by decide
example : enforceCore demoCfg 2 (demoMatch "bob" "d1") = .ok true := by decide
example : refScan .allowAndDeny [] (demoCfg.policy.map
    (ruleOutcome 3 (some 2) (demoMatch "alice" "d1"))) = .ok false := by decide

end Casbin.C01
