import CasbinModel.Lemmas.Conc
/-!
# C20 — Concurrent enforcement is deterministic and deadlock-free   (*partial*)

**Lock protocol** (`Conc.lean`): threads running lock programs over the outer lock (0) and
the role-manager lock (1), for every scheduler and every reader-refusal policy between
"never" and parking_lot's "whenever a writer is queued".

* `no_deadlock` — if every thread's program takes locks in strictly increasing order (hence
  never re-entrantly), no reachable state is stuck; `runs_terminate` bounds every run by the
  number of actions, so no call blocks forever under any fair scheduler.
* `crate_programs_disciplined` — the shapes the crate's entry points have (per-statement
  role-manager guards inside an optional outer guard), for any number of `g` calls / links.
  That the source has these shapes is *checked on every run* by the syntactic pass of the
  harness (`c20.rs`, `conc.disc` lines), not assumed.
* `reentrant_read_deadlocks` — the pattern the discipline forbids does deadlock under the
  fair policy (and not under a reader-preferring one: why sequential tests cannot see it).
* `writer_exclusive` — a write guard excludes all other guards: management calls made under
  the outer write lock never overlap a call in flight.

**Data level**: calls on a shared (cached) enforcer at the granularity lookup /
compute-and-insert, interleaved arbitrarily with evictions, role-manager-handle operations
that do not change decisions, and exclusive writes.

* `decisions_serial` — every returned decision is the decision of the serial state after the
  writes that preceded it; `log_monotone` — those states follow the serial order.
* `readers_only_deterministic` — without writes every thread gets the single-thread answer.

Not modelled (partial): the interleaving of a handle *write that changes decisions* with the
individual `g` calls of one evaluation; memory-model effects inside rhai, mini-moka and
parking_lot (exercised by the stress run only).
-/
namespace Casbin.C20
open Casbin.Conc

/-! ### lock protocol -/

/-- **no deadlock**: from disciplined programs no reachable state is stuck -/
theorem no_deadlock (pol : Policy) (hpol : PolOk pol) (nL : Nat) (progs : List (List Act))
    (hd : ∀ p ∈ progs, disc nL [] p = true) (n : Nat) (s : State) (r : ReachN pol n (initState progs) s) :
    stuck pol s = false := by
  have hD : Disc nL (initState progs) := by
    intro th hm
    unfold initState at hm
    obtain ⟨p, hp, rfl⟩ := List.mem_map.mp hm
    exact hd p hp
  have hDs := disc_reach hD r
  unfold stuck
  cases hdone : allDone s with
  | true => rfl
  | false =>
    obtain ⟨t, ht⟩ := exists_enabled pol hpol nL s hDs hdone
    simp only [Bool.not_false, Bool.true_and]
    cases hall : (List.range s.length).all fun t => !enabled pol s t with
    | false => rfl
    | true =>
      rw [List.all_eq_true] at hall
      have hlt : t < s.length := by
        unfold enabled at ht
        rcases Nat.lt_or_ge t s.length with h | h
        · exact h
        · rw [List.getElem?_eq_none h] at ht; cases ht
      have := hall t (List.mem_range.mpr hlt)
      rw [ht] at this; cases this

/-- **no call blocks forever**: a run takes at most as many steps as there are actions, and can
only stop when every thread has finished -/
theorem runs_terminate (pol : Policy) (hpol : PolOk pol) (nL : Nat) (progs : List (List Act))
    (hd : ∀ p ∈ progs, disc nL [] p = true) (n : Nat) (s : State) (r : ReachN pol n (initState progs) s) :
    n ≤ work (initState progs) ∧ ((∀ t, enabled pol s t = false) → allDone s = true) := by
  refine ⟨by have := reach_bounded r; omega, ?_⟩
  intro hno
  have hs := no_deadlock pol hpol nL progs hd n s r
  unfold stuck at hs
  cases hdone : allDone s with
  | true => rfl
  | false =>
    rw [hdone] at hs
    simp only [Bool.not_false, Bool.true_and] at hs
    have : ((List.range s.length).all fun t => !enabled pol s t) = true := by
      rw [List.all_eq_true]; intro t _; rw [hno t]; rfl
    rw [this] at hs; cases hs

/-- **writes are exclusive** in every reachable state -/
theorem writer_exclusive (pol : Policy) (progs : List (List Act)) (n : Nat) (s : State)
    (r : ReachN pol n (initState progs) s) : Excl s := excl_reach (excl_init progs) r

/-- a statement-scoped guard on lock `l`: acquire, use, release -/
def guarded (m : Mode) (l : Nat) : List Act := [.acq m l, .tau, .rel m l]
/-- `k` statement-scoped guards in sequence -/
def guards (m : Mode) (l : Nat) : Nat → List Act
  | 0 => []
  | k + 1 => guarded m l ++ guards m l k
/-- a call made under the caller's outer lock in mode `mo` that takes `k` statement-scoped
role-manager guards in mode `mi` (enforce: `R`,`R`, one per `g` call; an RBAC helper: `R`,`R`, one per
statement; a management call: `W`,`W`, one per link) -/
def callProg (mo mi : Mode) (k : Nat) : List Act := .acq mo 0 :: (guards mi 1 k ++ [.rel mo 0])
/-- a thread using the role-manager handle directly, `k` times -/
def handleProg (m : Mode) (k : Nat) : List Act := guards m 1 k

theorem disc_guards (nL : Nat) (held : List (Nat × Mode)) (m : Mode) (l : Nat) (k : Nat) (rest : List Act)
    (hl : l < nL) (hh : ∀ x ∈ held, x.1 < l) (hr : disc nL held rest = true) (hnm : (l, m) ∉ held) :
    disc nL held (guards m l k ++ rest) = true := by
  induction k with
  | zero => exact hr
  | succ k ih =>
    simp only [guards, guarded, List.cons_append, List.nil_append, disc, Bool.and_eq_true, decide_eq_true_eq,
      List.all_eq_true, List.contains_cons, BEq.rfl, Bool.true_or, List.erase_cons_head]
    exact ⟨⟨hl, hh⟩, trivial, ih⟩

/-- **the crate's call shapes are disciplined**, whatever the number of guards taken -/
theorem crate_programs_disciplined (mo mi m : Mode) (k : Nat) :
    disc 2 [] (callProg mo mi k) = true ∧ disc 2 [] (handleProg m k) = true := by
  constructor
  · unfold callProg
    simp only [disc, Bool.and_eq_true, decide_eq_true_eq, List.all_nil]
    refine ⟨⟨by omega, trivial⟩, ?_⟩
    apply disc_guards 2 [(0, mo)] mi 1 k [.rel mo 0] (by omega)
    · intro x hx; simp at hx; subst hx; simp
    · simp [disc]
    · simp
  · have := disc_guards 2 [] m 1 k [] (by omega) (by simp) (by simp [disc]) (by simp)
    simpa [handleProg] using this

/-- any mix of such threads never deadlocks and always completes -/
theorem crate_threads_no_deadlock (pol : Policy) (hpol : PolOk pol) (progs : List (List Act))
    (hshape : ∀ p ∈ progs, (∃ mo mi k, p = callProg mo mi k) ∨ (∃ m k, p = handleProg m k))
    (n : Nat) (s : State) (r : ReachN pol n (initState progs) s) : stuck pol s = false := by
  apply no_deadlock pol hpol 2 progs _ n s r
  intro p hp
  rcases hshape p hp with ⟨mo, mi, k, rfl⟩ | ⟨m, k, rfl⟩
  · exact (crate_programs_disciplined mo mi .R k).1
  · exact (crate_programs_disciplined .R .R m k).2

/-- the forbidden pattern: a guard held across a call that locks again -/
def reentrantProg : List Act := [.acq .R 1, .acq .R 1, .rel .R 1, .rel .R 1]

/-- **re-entrant read + queued writer = deadlock** under the fair policy (the writer arrives — `tau` — after the
first read); the same programs run to completion under a reader-preferring lock, and the discipline rejects the program -/
theorem reentrant_read_deadlocks :
    (explore fairPol 100 [initState [reentrantProg, .tau :: handleProg .W 1]] 0).1.isSome = true ∧
    (explore eagerPol 100 [initState [reentrantProg, .tau :: handleProg .W 1]] 0).1.isSome = false ∧
    disc 2 [] reentrantProg = false := by decide +kernel

/-- with the crate's shapes the same exploration finds nothing (a test of the executable
explorer the driver uses; the theorem above is the unbounded statement) -/
example : (explore fairPol 100000 [initState [callProg .R .R 2, callProg .R .R 1, handleProg .W 1, callProg .W .W 1]] 0).1 = none := by
  decide +kernel

/-! ### data level -/
section
set_option linter.unusedSectionVars false
variable {S Req Dec W H : Type} [DecidableEq Req]
variable (f : S → Req → Dec) (applyW : W → S → S) (clears : W → Bool) (applyH : H → S → S)

structure Good (st0 : S) (y : Sys S Req Dec W) : Prop where
  st_eq : ∃ hs : List H, y.st = hs.foldl (fun s h => applyH h s) (y.ws.foldl (fun s w => applyW w s) st0)
  cache_sound : ∀ e ∈ y.cache, e.2 = f y.st e.1
  log_ok : ∀ e ∈ y.log, e.2.2 ≤ y.ws.length ∧ e.2.1 = f (serial applyW st0 y.ws e.2.2) e.1
  log_mono : y.log.Pairwise (fun a b => b.2.2 ≤ a.2.2)

theorem foldl_handles_invisible (hInv : ∀ h s, f (applyH h s) = f s) (hs : List H) (s : S) :
    f (hs.foldl (fun s h => applyH h s) s) = f s := by
  induction hs generalizing s with
  | nil => rfl
  | cons h hs ih => simp only [List.foldl_cons]; rw [ih, hInv]

theorem write_commutes (hComm : ∀ h w s, applyH h (applyW w s) = applyW w (applyH h s)) (w : W) (hs : List H) (s : S) :
    applyW w (hs.foldl (fun s h => applyH h s) s) = hs.foldl (fun s h => applyH h s) (applyW w s) := by
  induction hs generalizing s with
  | nil => rfl
  | cons h hs ih => simp only [List.foldl_cons]; rw [ih, hComm]

theorem serial_full (st0 : S) (ws : List W) : serial applyW st0 ws ws.length = ws.foldl (fun s w => applyW w s) st0 := by
  simp [serial]

theorem serial_append (st0 : S) (ws : List W) (w : W) (i : Nat) (h : i ≤ ws.length) :
    serial applyW st0 (ws ++ [w]) i = serial applyW st0 ws i := by
  unfold serial; rw [List.take_append_of_le_length h]

theorem lookup_mem {c : List (Req × Dec)} {k : Req} {v : Dec} (h : lookup c k = some v) : (k, v) ∈ c := by
  unfold lookup at h
  cases hf : c.find? (·.1 == k) with
  | none => rw [hf] at h; cases h
  | some e =>
    rw [hf] at h
    simp only [Option.map_some, Option.some.injEq] at h
    have hm := List.mem_of_find?_eq_some hf
    have hk := List.find?_some hf
    have : e = (k, v) := by
      cases e with
      | mk a b => simp at hk h; rw [hk, h]
    rw [← this]; exact hm

theorem good_step (hInv : ∀ h s, f (applyH h s) = f s)
    (hComm : ∀ h w s, applyH h (applyW w s) = applyW w (applyH h s))
    (hClr : ∀ w s, clears w = false → f (applyW w s) = f s)
    (st0 : S) (y : Sys S Req Dec W) (g : Good f applyW applyH st0 y) (ev : Ev Req W H) :
    Good f applyW applyH st0 (Sys.step f applyW clears applyH y ev) := by
  have hcur : f y.st = f (serial applyW st0 y.ws y.ws.length) := by
    obtain ⟨hs, he⟩ := g.st_eq
    rw [he, foldl_handles_invisible f applyH hInv, serial_full]
  have hpush : ∀ (k : Req) (v : Dec), v = f y.st k →
      (∀ e ∈ (k, v, y.ws.length) :: y.log, e.2.2 ≤ y.ws.length ∧ e.2.1 = f (serial applyW st0 y.ws e.2.2) e.1) ∧
      ((k, v, y.ws.length) :: y.log).Pairwise (fun a b => b.2.2 ≤ a.2.2) := by
    intro k v hv
    constructor
    · intro e he
      rcases List.mem_cons.mp he with h | h
      · subst h; exact ⟨Nat.le_refl _, by simp only []; rw [hv, hcur]⟩
      · exact g.log_ok e h
    · exact List.Pairwise.cons (fun e he => (g.log_ok e he).1) g.log_mono
  cases ev with
  | «begin» t k =>
    simp only [Sys.step]
    split
    · exact g
    · split
      · rename_i v hv
        have hm := lookup_mem hv
        have := g.cache_sound (k, v) hm
        obtain ⟨h1, h2⟩ := hpush k v this
        exact ⟨g.st_eq, g.cache_sound, h1, h2⟩
      · exact ⟨g.st_eq, g.cache_sound, g.log_ok, g.log_mono⟩
  | finish t =>
    simp only [Sys.step]
    split
    · exact g
    · rename_i t' k _
      obtain ⟨h1, h2⟩ := hpush k (f y.st k) rfl
      refine ⟨g.st_eq, ?_, h1, h2⟩
      intro e he
      rcases List.mem_cons.mp he with h | h
      · subst h; rfl
      · exact g.cache_sound e (List.mem_filter.mp h).1
  | evict k =>
    simp only [Sys.step]
    exact ⟨g.st_eq, fun e he => g.cache_sound e (List.mem_filter.mp he).1, g.log_ok, g.log_mono⟩
  | write w =>
    simp only [Sys.step]
    split
    · refine ⟨?_, ?_, ?_, g.log_mono⟩
      · obtain ⟨hs, he⟩ := g.st_eq
        refine ⟨hs, ?_⟩
        simp only [List.foldl_append, List.foldl_cons, List.foldl_nil]
        rw [he, write_commutes applyW applyH hComm]
      · intro e he
        cases hc : clears w with
        | true => simp [hc] at he
        | false =>
          simp only [hc, Bool.false_eq_true, if_false] at he
          simp only []
          rw [hClr w y.st hc]
          exact g.cache_sound e he
      · intro e he
        obtain ⟨h1, h2⟩ := g.log_ok e he
        refine ⟨by simp only [List.length_append, List.length_cons, List.length_nil]; omega, ?_⟩
        simp only []
        rw [serial_append applyW st0 y.ws w e.2.2 h1]
        exact h2
    · exact g
  | handle h =>
    simp only [Sys.step]
    refine ⟨?_, ?_, g.log_ok, g.log_mono⟩
    · obtain ⟨hs, he⟩ := g.st_eq
      exact ⟨hs ++ [h], by simp only [List.foldl_append, List.foldl_cons, List.foldl_nil]; rw [he]⟩
    · intro e he
      simp only []
      rw [hInv]
      exact g.cache_sound e he

theorem good_run (hInv : ∀ h s, f (applyH h s) = f s)
    (hComm : ∀ h w s, applyH h (applyW w s) = applyW w (applyH h s))
    (hClr : ∀ w s, clears w = false → f (applyW w s) = f s)
    (st0 : S) (y : Sys S Req Dec W) (g : Good f applyW applyH st0 y) (evs : List (Ev Req W H)) :
    Good f applyW applyH st0 (Sys.run f applyW clears applyH y evs) := by
  unfold Sys.run
  induction evs generalizing y with
  | nil => exact g
  | cons ev evs ih => exact ih _ (good_step f applyW clears applyH hInv hComm hClr st0 y g ev)

theorem good_init (st0 : S) : Good f applyW applyH st0 (Sys.init st0 : Sys S Req Dec W) :=
  ⟨⟨[], rfl⟩, by simp [Sys.init], by simp [Sys.init], by simp [Sys.init]⟩

/-- **every decision corresponds to a state in the serial order of the writes**: for every schedule,
each returned decision `(k, v, i)` is the serial decision after the first `i` writes, where `i` is the
number of writes completed when the call returned -/
theorem decisions_serial (hInv : ∀ h s, f (applyH h s) = f s)
    (hComm : ∀ h w s, applyH h (applyW w s) = applyW w (applyH h s))
    (hClr : ∀ w s, clears w = false → f (applyW w s) = f s)
    (st0 : S) (evs : List (Ev Req W H)) :
    let y := Sys.run f applyW clears applyH (Sys.init st0) evs
    ∀ e ∈ y.log, e.2.2 ≤ y.ws.length ∧ e.2.1 = f (serial applyW st0 y.ws e.2.2) e.1 :=
  (good_run f applyW clears applyH hInv hComm hClr st0 _ (good_init f applyW applyH st0) evs).log_ok

/-- the serial states observed follow the order of the writes (the log is newest-first) -/
theorem log_monotone (hInv : ∀ h s, f (applyH h s) = f s)
    (hComm : ∀ h w s, applyH h (applyW w s) = applyW w (applyH h s))
    (hClr : ∀ w s, clears w = false → f (applyW w s) = f s)
    (st0 : S) (evs : List (Ev Req W H)) :
    (Sys.run f applyW clears applyH (Sys.init st0) evs).log.Pairwise (fun a b => b.2.2 ≤ a.2.2) :=
  (good_run f applyW clears applyH hInv hComm hClr st0 _ (good_init f applyW applyH st0) evs).log_mono

def isWrite : Ev Req W H → Bool
  | .write _ => true
  | _ => false

theorem ws_nil_of_no_write (y : Sys S Req Dec W) (evs : List (Ev Req W H)) (h : ∀ ev ∈ evs, isWrite ev = false)
    (hy : y.ws = []) : (Sys.run f applyW clears applyH y evs).ws = [] := by
  unfold Sys.run
  induction evs generalizing y with
  | nil => exact hy
  | cons ev evs ih =>
    apply ih _ (fun e he => h e (List.mem_cons_of_mem _ he))
    have := h ev (List.mem_cons_self ..)
    cases ev with
    | «begin» t k => simp only [Sys.step]; split; exact hy; split <;> exact hy
    | finish t => simp only [Sys.step]; split <;> exact hy
    | evict k => exact hy
    | write w => cases this
    | handle h => exact hy

/-- **readers only**: whatever the interleaving, evictions and (decision-irrelevant) handle use, every
thread obtains exactly the single-thread decision -/
theorem readers_only_deterministic (hInv : ∀ h s, f (applyH h s) = f s) (st0 : S) (evs : List (Ev Req W H))
    (hnw : ∀ ev ∈ evs, isWrite ev = false) (clears' : W → Bool)
    (hComm : ∀ h w s, applyH h (applyW w s) = applyW w (applyH h s))
    (hClr : ∀ w s, clears' w = false → f (applyW w s) = f s) :
    ∀ e ∈ (Sys.run f applyW clears' applyH (Sys.init st0) evs).log, e.2.1 = f st0 e.1 := by
  intro e he
  have h := decisions_serial f applyW clears' applyH hInv hComm hClr st0 evs e he
  have hws := ws_nil_of_no_write f applyW clears' applyH (Sys.init st0) evs hnw rfl
  rw [hws] at h
  simpa [serial] using h.2
end

/-! ### Non-vacuity -/
/-- a concrete schedule: two overlapping calls, an eviction, a write between calls -/
example :
    (Sys.run (fun (s : Nat) (k : Nat) => decide (k < s)) (fun (w : Nat) _ => w) (fun _ => true) (fun (_ : Unit) s => s)
      (Sys.init 5) [.begin 0 3, .begin 1 3, .finish 0, .write 2, .finish 1, .evict 3, .write 2, .begin 0 3, .finish 0]).log
      = [(3, false, 1), (3, true, 0), (3, true, 0)] := by decide +kernel

end Casbin.C20
