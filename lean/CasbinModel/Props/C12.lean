import CasbinModel.Lemmas.Load
/-!
# C12 — Filtered loading loads exactly the matching subset

For every adapter content (`records`), every filter and every policy type that exists:
the rules loaded by `load_filtered_policy` are exactly those of a full load that pass the
filter, each unchanged and in the same order (`loadFiltered_eq_filter`, for contents
without duplicate rules — what every bundled adapter's `save_policy` produces);
`is_filtered` is true exactly when some record was left out; a filtered enforcer's
`save_policy` panics before the adapter is touched.
-/
namespace Casbin.C12
open Casbin

/-- the filter test as the property states it: every non-empty filter value equals the
rule's field at that position -/
theorem filterKeeps_iff (fp fg : List String) (sec : String) (rule : Rule) :
    filterKeeps fp fg sec rule = true ↔
      ∀ (i : Nat) (v : String), (if sec = "p" then fp else if sec = "g" then fg else [])[i]? = some v → v ≠ "" → rule[i]? = some v := by
  unfold filterKeeps
  simp only [List.all_eq_true, Bool.or_eq_true, decide_eq_true_eq]
  constructor
  · intro h i v hv hne
    have hm : (v, i) ∈ (if sec = "p" then fp else if sec = "g" then fg else []).zipIdx := by
      rw [List.mem_zipIdx_iff_getElem?]; simpa using hv
    rcases h (v, i) hm with h1 | h1
    · exact absurd h1 hne
    · exact h1
  · intro h p hp
    obtain ⟨v, i⟩ := p
    rw [List.mem_zipIdx_iff_getElem?] at hp
    by_cases hv : v = ""
    · exact Or.inl hv
    · exact Or.inr (h i v (by simpa using hp) hv)

/-- **Filtered load = filter ∘ full load**, per policy type, contents and order. -/
theorem loadFiltered_eq_filter (recs : List (String × String × Rule)) (s : Store) (fp fg : List String)
    (sec pt : String) (hex : (s.find sec pt).isSome = true) (hnd : (recsFor sec pt recs).Nodup) :
    (loadRecords s.clear (recs.filter (fun r => filterKeeps fp fg r.1 r.2.2))).getPolicy sec pt =
      ((loadRecords s.clear recs).getPolicy sec pt).filter (filterKeeps fp fg sec) := by
  have hex' : (s.clear.find sec pt).isSome = true := by rw [find_clear]; exact hex
  rw [getPolicy_loadRecords _ s.clear sec pt hex', getPolicy_loadRecords _ s.clear sec pt hex',
      getPolicy_clear', recsFor_filter]
  rw [foldl_insertMove_nodup _ [] hnd (by simp),
      foldl_insertMove_nodup _ [] (hnd.filter _) (by simp)]
  simp

/-- the adapter-level statement: a passing filtered load inserts exactly the records the
filter keeps and sets the flag iff some record was left out -/
theorem adapter_loadFiltered (a : AdapterSt) (s : Store) (fp fg : List String) (hp : a.plan = []) :
    (a.loadFiltered s fp fg).2.1 = loadRecords s (a.records.filter (fun r => filterKeeps fp fg r.1 r.2.2)) ∧
    (a.loadFiltered s fp fg).1.filtered = a.records.any (fun r => !filterKeeps fp fg r.1 r.2.2) ∧
    (a.loadFiltered s fp fg).2.2 = some () := by
  simp [AdapterSt.loadFiltered, AdapterSt.nextFault, hp]

/-- `is_filtered` is true exactly when some stored rule was left out -/
theorem isFiltered_iff (a : AdapterSt) (s : Store) (fp fg : List String) (hp : a.plan = []) :
    (a.loadFiltered s fp fg).1.filtered = true ↔ ∃ r ∈ a.records, filterKeeps fp fg r.1 r.2.2 = false := by
  rw [(adapter_loadFiltered a s fp fg hp).2.1]
  simp [List.any_eq_true]

/-- an empty filter leaves nothing out -/
theorem empty_filter_keeps_all (sec : String) (rule : Rule) : filterKeeps [] [] sec rule = true := by
  unfold filterKeeps; split <;> (try split) <;> simp

/-- **A filtered enforcer can never save**: `save_policy` panics and nothing — in
particular not the adapter — changes. -/
theorem filtered_cannot_save (e : Enforcer) (h : e.adapter.filtered = true) :
    e.savePolicy.2 = .panic ∧ e.savePolicy.1.adapter = e.adapter ∧ e.savePolicy.1.store = e.store := by
  simp [Enforcer.savePolicy, h]

/-- a full load resets the flag -/
theorem full_load_unfiltered (a : AdapterSt) (s : Store) (hp : a.plan = []) : (a.load s).1.filtered = false := by
  simp [AdapterSt.load, AdapterSt.nextFault, hp]

/-- a stored rule that ends before the position of a non-empty filter value is left out (a missing field is a
mismatch, not a wildcard) -/
theorem short_rule_left_out (fp fg : List String) (rule : Rule) (i : Nat) (v : String) (hv : fp[i]? = some v) (hne : v ≠ "")
    (hshort : rule.length ≤ i) : filterKeeps fp fg "p" rule = false := by
  cases hk : filterKeeps fp fg "p" rule with
  | false => rfl
  | true =>
    exfalso
    have h := (filterKeeps_iff fp fg "p" rule).1 hk i v (by simpa using hv) hne
    have hnone : rule[i]? = none := List.getElem?_eq_none hshort
    rw [hnone] at h
    cases h

/-- the filter of a section applies to every policy type filed under it: the test never looks at the policy type name
(`p2`, `p3` lines are filtered by `Filter.p` like `p` lines), and the record's section alone picks the filter -/
theorem filter_by_section (recs : List (String × String × Rule)) (fp fg : List String) (pt : String) (rule : Rule) :
    ("p", pt, rule) ∈ recs.filter (fun r => filterKeeps fp fg r.1 r.2.2) ↔
      ("p", pt, rule) ∈ recs ∧ filterKeeps fp [] "p" rule = true := by
  rw [List.mem_filter]
  have : filterKeeps fp fg "p" rule = filterKeeps fp [] "p" rule := by unfold filterKeeps; simp
  simp only [this]

/-- whatever the tail of a load does (link build, restore after a failure), the adapter is the one the load left -/
theorem finishLoad_adapter (e : Enforcer) (old : Store) (a : AdapterSt) (s : Store) (ok : Option Unit) :
    (e.finishLoad old a s ok).1.adapter = a := by
  unfold Enforcer.finishLoad
  have hx : ({ e with adapter := a, store := s } : Enforcer).adapter = a := rfl
  generalize ({ e with adapter := a, store := s } : Enforcer) = x at hx ⊢
  have hb : ∀ y : Enforcer, y.buildRoleLinks.1.adapter = y.adapter := fun y => by unfold Enforcer.buildRoleLinks; rfl
  have key : ∀ (e2 : Enforcer) (res : Option ErrKind), e2.adapter = a →
      (match res with
        | none => (e2, Res.unit)
        | some k => ((if ({ e2 with store := old } : Enforcer).autoBuild then ({ e2 with store := old } : Enforcer).buildRoleLinks.1
            else ({ e2 with store := old } : Enforcer)), Res.err k)).1.adapter = a := by
    intro e2 res h2
    cases res with
    | none => exact h2
    | some k =>
      simp only []
      split
      · rw [hb]; exact h2
      · exact h2
  cases ok with
  | none => exact key x (some .adapter) hx
  | some u =>
    by_cases hab : x.autoBuild = true
    · simp only [hab, if_true]
      cases hbr : x.buildRoleLinks with
      | mk e2 res =>
        have : e2.adapter = a := by
          have h := hb x
          rw [hbr] at h; exact h.trans hx
        exact key e2 res this
    · simp only [hab, if_false]
      exact key x none hx

/-- after a filtered load that left rules out, a full `load_policy` that the adapter serves makes the enforcer
unfiltered again - whether or not the link build then succeeds - so `save_policy` is no longer refused on that ground -/
theorem full_load_allows_save (e : Enforcer) (hp : e.adapter.plan = []) :
    e.loadPolicy.1.adapter.filtered = false := by
  unfold Enforcer.loadPolicy
  rw [finishLoad_adapter]
  exact full_load_unfiltered e.adapter e.store.clear hp

/-! ### Non-vacuity (and the regression for the repaired memory / string loaders, F8) -/
def demoStore : Store := ⟨[{ key := "p", tokens := [], arity := 0, policy := [] }], [{ key := "g", tokens := [], arity := 2, policy := [] }]⟩
def demoMem : AdapterSt :=
  { kind := .memory, lines := [["p", "p", "alice", "d1", "read"], ["p", "p", "bob", "d2", "read"], ["g", "g", "alice", "admin"]],
    text := [], filtered := false, plan := [] }
example : ((demoMem.loadFiltered demoStore.clear ["alice"] []).2.1.getPolicy "p" "p") = [["alice", "d1", "read"]] := by decide
example : (demoMem.loadFiltered demoStore.clear ["alice"] []).1.filtered = true := by decide
example : (demoMem.loadFiltered demoStore.clear ["", "d2"] ["alice"]).2.1.getPolicy "g" "g" = [["alice", "admin"]] := by decide


/-- **a `clear_policy` the adapter fails leaves the guard in place**: with auto-save on, when the adapter's clear
fails (error, refusal, or a failure part-way), the enforcer keeps its rules and the adapter keeps its `is_filtered`
flag — so a filtered enforcer still cannot save (`filtered_cannot_save`) -/
theorem failed_clear_keeps_guard (e : Enforcer) (hs : e.autoSave = true) (f : Fault) (rest : List Fault)
    (hp : e.adapter.plan = f :: rest) (hf : f ≠ .pass) :
    e.clearPolicy.1.store = e.store ∧ e.clearPolicy.1.adapter.filtered = e.adapter.filtered ∧
    e.clearPolicy.2 = .err .adapter := by
  have hc : e.adapter.clear = ({ e.adapter with plan := rest }, none) := by
    unfold AdapterSt.clear AdapterSt.nextFault
    rw [hp]
    cases f with
    | pass => exact absurd rfl hf
    | err => rfl
    | refuse => rfl
    | failAfter k => rfl
  unfold Enforcer.clearPolicy
  simp only [hs, if_true, hc]
  simp

end Casbin.C12
