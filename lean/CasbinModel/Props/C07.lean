import CasbinModel.Lemmas.Scan
import CasbinModel.Props.C01
import CasbinModel.Props.C03
import CasbinModel.Lemmas.Batch
/-!
# C07 — Tenants are isolated in domain models

Two ingredients, both for arbitrary policies, role graphs and histories:

* role manager: an addition / deletion in another domain leaves this domain's graph —
  hence `has_link`, `get_roles`, `get_users` for this domain — unchanged (C03);
* decisions: if the matcher gives *no match* (`some false`) on every rule of another
  domain (what a matcher containing `r.dom == p.dom` does), a decision depends only on
  the sub-list of this domain's rules, in order, and on the matcher's value on them.

The ingredients are composed at the end of the file (`tenant_isolation`, `tenant_isolation_history`): for a
matcher AST whose role lookups all name the request's tenant (`DomOnly`), decisions of that tenant are unchanged
by every history of confined rule calls and of role-link calls made for other tenants.

The hypothesis "both stores non-empty" is forced by the empty-store branch of
`enforce` (evaluated on the crate on every run; with non-empty request values it
cannot arise).
-/
namespace Casbin.C07
open Casbin

/-- an operation confined to another domain does not change this domain's graph,
and every role query of this domain is a function of that graph -/
theorem role_queries_isolated (rm : RoleMgr String) (a b d d' x y : String) (hd : d' ≠ d) :
    let rm1 := rm.apply (.add a b d')
    let rm2 := rm.apply (.del a b d')
    (rm1.hasLink x y d = rm.hasLink x y d ∧ rm1.getRoles x d = rm.getRoles x d ∧ rm1.getUsers x d = rm.getUsers x d) ∧
    (rm2.hasLink x y d = rm.hasLink x y d ∧ rm2.getRoles x d = rm.getRoles x d ∧ rm2.getUsers x d = rm.getUsers x d) := by
  have hg1 : (rm.apply (.add a b d')).graph? d = rm.graph? d := by
    simp only [RoleMgr.apply, RoleMgr.addLink]
    split
    · rfl
    · rw [graph?_setDom]; simp [hd]
  have hg2 : (rm.apply (.del a b d')).graph? d = rm.graph? d := by
    simp only [RoleMgr.apply, RoleMgr.deleteLink]
    split
    · rfl
    · split
      · rfl
      · simp only [Option.getD]; rw [graph?_setDom]; simp [hd]
  have hm1 := maxLevel_apply rm (.add a b d')
  have hm2 := maxLevel_apply rm (.del a b d')
  exact ⟨C03.queries_depend_only_on_domain_graph _ _ d hg1 hm1 x y,
         C03.queries_depend_only_on_domain_graph _ _ d hg2 hm2 x y⟩

/-- **Decisions depend only on the tenant's view.**  `inD` selects the rules of the
observed domain.  If rules outside it never match (under both matchers) and are
well-formed, and the two stores hold the same in-domain rules in the same order with the
same matcher values on them, the decisions coincide. -/
theorem decisions_depend_on_view (c c' : EvalCfg) (reqLen : Nat) (m m' : MatchFn) (ex : EffExpr)
    (hr : C01.Ready c reqLen ex) (hr' : C01.Ready c' reqLen ex)
    (htok : c.ptokens = c'.ptokens) (heft : c.eftToken = c'.eftToken)
    (hne : c.policy ≠ []) (hne' : c'.policy ≠ []) (inD : Rule → Bool)
    (hview : c.policy.filter inD = c'.policy.filter inD)
    (hm : ∀ rule, inD rule = true → m rule = m' rule)
    (hout : ∀ rule ∈ c.policy, inD rule = false → rule.length = c.ptokens.length ∧ m rule = some false)
    (hout' : ∀ rule ∈ c'.policy, inD rule = false → rule.length = c'.ptokens.length ∧ m' rule = some false) :
    enforceCore c reqLen m = enforceCore c' reqLen m' := by
  rw [C01.enforce_eq_reference c reqLen m ex hr hne, C01.enforce_eq_reference c' reqLen m' ex hr' hne']
  apply refScan_eq_of_filter_eq
  have hq : ∀ (cc : EvalCfg) (mm : MatchFn) (rule : Rule), rule.length = cc.ptokens.length → mm rule = some false →
      (!isIndetOk (ruleOutcome cc.ptokens.length (cc.ptokens.idxOf? cc.eftToken) mm rule)) = false := by
    intro cc mm rule hl hmm
    simp [ruleOutcome, hl, hmm, ruleEffect, isIndetOk]
  have e1 := filter_map_restrict c.policy inD
    (ruleOutcome c.ptokens.length (c.ptokens.idxOf? c.eftToken) m) (fun o => !isIndetOk o)
    (fun x hx hi => hq c m x (hout x hx hi).1 (hout x hx hi).2)
  have e2 := filter_map_restrict c'.policy inD
    (ruleOutcome c'.ptokens.length (c'.ptokens.idxOf? c'.eftToken) m') (fun o => !isIndetOk o)
    (fun x hx hi => hq c' m' x (hout' x hx hi).1 (hout' x hx hi).2)
  rw [e1, e2, hview, ← htok, ← heft]
  congr 1
  apply List.map_congr_left
  intro rule hrule
  have hin : inD rule = true := by
    have := List.mem_filter.mp hrule; simpa using this.2
  simp [ruleOutcome, hm rule hin]

/-- a matcher of the form `first && (r.dom == p.dom) && rest` in which `first` cannot fail
evaluates to `false` on every rule of another domain — this is why the generated domain
models satisfy the hypothesis of `decisions_depend_on_view` -/
theorem domain_guard_rejects (env : Env) (first rest : Expr) (ri pi : Nat) (rd pd : String) (b : Bool)
    (hfirst : first.eval env 8 = some (.atom (.bool b)))
    (hr : env.req[ri]? = some (.atom (.str rd))) (hp : env.rule[pi]? = some pd) (hne : rd ≠ pd) :
    (Expr.and (Expr.and first (.cmp .eq (.r ri) (.p pi))) rest).evalBool env = some false := by
  have hb : (rd == pd) = false := by simp [hne]
  cases b <;>
    simp [Expr.evalBool, Expr.eval, hfirst, hr, hp, cmpVal, cmpStr, hb]

/-! ### The tenant's view under management calls confined to other tenants -/

theorem filter_add_outside (inD : Rule → Bool) (l : List Rule) (r : Rule) (h : inD r = false) :
    (OrdSet.add l r).1.filter inD = l.filter inD := by
  unfold OrdSet.add
  split
  · rfl
  · simp [List.filter_append, h]

theorem filter_erase_outside (inD : Rule → Bool) (l : List Rule) (r : Rule) (h : inD r = false) :
    (l.erase r).filter inD = l.filter inD := by
  induction l with
  | nil => rfl
  | cons x t ih =>
    by_cases hx : x = r
    · subst hx; simp [List.erase_cons_head, List.filter_cons, h]
    · rw [List.erase_cons_tail (by simpa using hx)]
      simp only [List.filter_cons]
      rw [ih]

theorem filter_remove_outside (inD : Rule → Bool) (l : List Rule) (r : Rule) (h : inD r = false) :
    (OrdSet.remove l r).1.filter inD = l.filter inD := by
  rw [OrdSet.remove_eq, erase_inst_irrel]
  exact filter_erase_outside inD l r h

theorem filter_addAll_outside (inD : Rule → Bool) (rs : List Rule) (l : List Rule) (h : ∀ r ∈ rs, inD r = false) :
    (OrdSet.addAll l rs).filter inD = l.filter inD := by
  induction rs generalizing l with
  | nil => rfl
  | cons r t ih =>
    simp only [OrdSet.addAll]
    rw [ih _ (fun x hx => h x (by simp [hx])), filter_add_outside inD l r (h r (by simp))]

theorem filter_removeAll_outside (inD : Rule → Bool) (rs : List Rule) (l : List Rule) (h : ∀ r ∈ rs, inD r = false) :
    (OrdSet.removeAll l rs).filter inD = l.filter inD := by
  induction rs generalizing l with
  | nil => rfl
  | cons r t ih =>
    simp only [OrdSet.removeAll]
    rw [ih _ (fun x hx => h x (by simp [hx])), filter_remove_outside inD l r (h r (by simp))]

theorem filter_filtered_outside (inD fm : Rule → Bool) (l : List Rule) (h : ∀ r, fm r = true → inD r = false) :
    (l.filter (fun r => !fm r)).filter inD = l.filter inD := by
  rw [List.filter_filter]
  apply List.filter_congr
  intro r _
  by_cases hi : inD r = true
  · have : fm r = false := by
      cases hf : fm r with
      | false => rfl
      | true => have := h r hf; rw [hi] at this; cases this
    simp [hi, this]
  · have : inD r = false := by simpa using hi
    simp [this]

/-- the five management calls on permission rules -/
inductive TOp where
  | add (pt : String) (rule : Rule)
  | remove (pt : String) (rule : Rule)
  | addMany (pt : String) (rules : List Rule)
  | removeMany (pt : String) (rules : List Rule)
  | removeFiltered (pt : String) (idx : Nat) (vals : List String)

def TOp.apply (s : Store) : TOp → Store
  | .add pt rule => (s.addPolicy "p" pt rule).1
  | .remove pt rule => (s.removePolicy "p" pt rule).1
  | .addMany pt rules => (s.addPolicies "p" pt rules).1
  | .removeMany pt rules => (s.removePolicies "p" pt rules).1
  | .removeFiltered pt idx vals => (s.removeFiltered "p" pt idx vals).1

/-- the call names no rule of the observed tenant: every rule it adds or removes lies outside, and a filter selects
outside rules only (what a filter carrying another tenant's name in the tenant column does) -/
def TOp.Confined (inD : Rule → Bool) : TOp → Prop
  | .add _ rule => inD rule = false
  | .remove _ rule => inD rule = false
  | .addMany _ rules => ∀ r ∈ rules, inD r = false
  | .removeMany _ rules => ∀ r ∈ rules, inD r = false
  | .removeFiltered _ idx vals => ∀ r, filterMatch idx vals r = true → inD r = false

/-- **one confined call leaves the tenant's view alone**: under every policy type, the observed tenant's rules, in
order, are what they were — whether the call takes effect, reports no change, or names an unknown policy type -/
theorem view_step (inD : Rule → Bool) (s : Store) (op : TOp) (h : op.Confined inD) (pt' : String) :
    ((op.apply s).getPolicy "p" pt').filter inD = (s.getPolicy "p" pt').filter inD := by
  cases op with
  | add pt rule =>
    simp only [TOp.apply]
    rw [Store.addPolicy_getPolicy]
    split
    · rename_i hc; obtain ⟨_, h2, _⟩ := hc; subst h2
      exact filter_add_outside inD _ rule h
    · rfl
  | remove pt rule =>
    simp only [TOp.apply]
    rw [Store.removePolicy_getPolicy]
    split
    · rename_i hc; obtain ⟨_, h2, _⟩ := hc; subst h2
      exact filter_remove_outside inD _ rule h
    · rfl
  | addMany pt rules =>
    simp only [TOp.apply]
    unfold Store.addPolicies
    cases hf : s.find "p" pt with
    | none => rfl
    | some d =>
      simp only
      split
      · rfl
      · rw [Store.getPolicy_update' s "p" pt "p" pt' (fun pol => OrdSet.addAll pol rules)]
        split
        · rename_i hc; obtain ⟨_, h2, _⟩ := hc; subst h2
          exact filter_addAll_outside inD rules _ h
        · rfl
  | removeMany pt rules =>
    simp only [TOp.apply]
    unfold Store.removePolicies
    cases hf : s.find "p" pt with
    | none => rfl
    | some d =>
      simp only
      split
      · rfl
      · rw [Store.getPolicy_update' s "p" pt "p" pt' (fun pol => OrdSet.removeAll pol rules)]
        split
        · rename_i hc; obtain ⟨_, h2, _⟩ := hc; subst h2
          exact filter_removeAll_outside inD rules _ h
        · rfl
  | removeFiltered pt idx vals =>
    simp only [TOp.apply]
    unfold Store.removeFiltered
    split
    · rfl
    · cases hf : s.find "p" pt with
      | none => rfl
      | some d =>
        simp only
        split
        · rfl
        · rw [Store.getPolicy_update' s "p" pt "p" pt' (fun pol => pol.filter (fun r => !filterMatch idx vals r))]
          split
          · rename_i hc; obtain ⟨_, h2, _⟩ := hc; subst h2
            exact filter_filtered_outside inD (filterMatch idx vals) _ h
          · rfl

/-- **… and so does every history of confined calls** — the hypothesis `hview` of `decisions_depend_on_view` is an
invariant of whatever the other tenants do -/
theorem view_history (inD : Rule → Bool) (ops : List TOp) (s : Store) (h : ∀ op ∈ ops, op.Confined inD) (pt' : String) :
    ((ops.foldl TOp.apply s).getPolicy "p" pt').filter inD = (s.getPolicy "p" pt').filter inD := by
  induction ops generalizing s with
  | nil => rfl
  | cons op rest ih =>
    simp only [List.foldl_cons]
    rw [ih _ (fun o ho => h o (by simp [ho])), view_step inD s op (h op (by simp))]

/-- a filter that names another tenant in the tenant column selects no rule of the observed tenant -/
theorem tenant_filter_confined (d d' : String) (hd : d' ≠ d) (col idx : Nat) (vals : List String) (i : Nat)
    (hi : vals[i]? = some d') (hne : d' ≠ "") (hcol : idx + i = col) :
    ∀ r : Rule, filterMatch idx vals r = true → (fun r : Rule => decide (r[col]? = some d)) r = false := by
  intro r hfm
  unfold filterMatch at hfm
  rw [List.all_eq_true] at hfm
  have hmem : (d', i) ∈ vals.zipIdx := by
    rw [List.mem_zipIdx_iff_getElem?]; simpa using hi
  have := hfm (d', i) hmem
  simp only [Bool.or_eq_true, decide_eq_true_eq] at this
  rcases this with h | h
  · exact absurd h hne
  · rw [hcol] at h
    simp only [decide_eq_false_iff_not]
    rw [h]
    intro heq
    exact hd (Option.some.inj heq)

/-! ### Non-vacuity -/
def cfgA : EvalCfg :=
  { enabled := true, sectionsOk := true, rtokens := 2, ptokens := ["p_sub", "p_dom"], effExpr := some .allowOverride,
    eftToken := "p_eft", compiles := true, policy := [["alice", "d1"], ["bob", "d2"]] }
def cfgB : EvalCfg := { cfgA with policy := [["carol", "d2"], ["alice", "d1"], ["dave", "d3"]] }
def mAlice : MatchFn := fun rule => some (rule[0]? = some "alice" && rule[1]? = some "d1")
example : enforceCore cfgA 2 mAlice = enforceCore cfgB 2 mAlice := by decide
example : cfgA.policy.filter (fun r => r[1]? = some "d1") = cfgB.policy.filter (fun r => r[1]? = some "d1") := by decide


/-! ### The ingredients composed: one statement about decisions

A matcher whose every role lookup names the request's tenant (`g(_, _, r.dom)`, no two-place `g`, no
`eval`) is evaluated identically under two role managers that agree on that tenant's graph; together with
`decisions_depend_on_view` and the two history invariants (`view_history` for the rules,
`graph_history_outside` for the links) this gives: *whatever the other tenants do, no decision of this
tenant changes*. -/

/-- every role lookup of the matcher names the request's tenant, token `di` of the request -/
inductive DomOnly (di : Nat) : Expr → Prop
  | lit (a : Atom) : DomOnly di (.lit a)
  | r (i : Nat) : DomOnly di (.r i)
  | p (i : Nat) : DomOnly di (.p i)
  | attr {e : Expr} (f : String) : DomOnly di e → DomOnly di (.attr e f)
  | cmp (op : CmpOp) {a b : Expr} : DomOnly di a → DomOnly di b → DomOnly di (.cmp op a b)
  | and {a b : Expr} : DomOnly di a → DomOnly di b → DomOnly di (.and a b)
  | or {a b : Expr} : DomOnly di a → DomOnly di b → DomOnly di (.or a b)
  | not {a : Expr} : DomOnly di a → DomOnly di (.not a)
  | g3 (name : String) {a b : Expr} : DomOnly di a → DomOnly di b → DomOnly di (.g3 name a b (.r di))
  | call2 (f : String) {a b : Expr} : DomOnly di a → DomOnly di b → DomOnly di (.call2 f a b)
  | call3 (f : String) {a b c : Expr} : DomOnly di a → DomOnly di b → DomOnly di c → DomOnly di (.call3 f a b c)
  | unknownVar : DomOnly di .unknownVar

/-- the same surroundings with another role manager -/
def withRm (env : Env) (rm : RoleMgr String) : Env := { env with rm := rm }

@[simp] theorem withRm_req (env : Env) (rm : RoleMgr String) : (withRm env rm).req = env.req := rfl
@[simp] theorem withRm_rule (env : Env) (rm : RoleMgr String) : (withRm env rm).rule = env.rule := rfl
@[simp] theorem withRm_rm (env : Env) (rm : RoleMgr String) : (withRm env rm).rm = rm := rfl
@[simp] theorem withRm_gfuncs (env : Env) (rm : RoleMgr String) : (withRm env rm).gfuncs = env.gfuncs := rfl
@[simp] theorem withRm_call (env : Env) (rm : RoleMgr String) : (withRm env rm).call = env.call := rfl
@[simp] theorem withRm_tbl (env : Env) (rm : RoleMgr String) : (withRm env rm).tbl = env.tbl := rfl

/-- such a matcher sees a role manager only through the links of the request's tenant -/
theorem eval_rm_congr (di : Nat) (d : String) (env : Env) (rm' : RoleMgr String)
    (hreq : env.req[di]? = some (.atom (.str d)))
    (hl : ∀ s t, env.rm.hasLink s t d = rm'.hasLink s t d)
    (e : Expr) (he : DomOnly di e) (fuel : Nat) :
    e.eval (withRm env rm') fuel = e.eval env fuel := by
  induction he with
  | lit a => simp only [Expr.eval]
  | r i => simp only [Expr.eval, withRm_req]
  | p i => simp only [Expr.eval, withRm_rule]
  | attr f _ ih => simp only [Expr.eval, ih]
  | cmp op _ _ iha ihb => simp only [Expr.eval, iha, ihb]
  | and _ _ iha ihb => simp only [Expr.eval, iha, ihb]
  | or _ _ iha ihb => simp only [Expr.eval, iha, ihb]
  | not _ ih => simp only [Expr.eval, ih]
  | @g3 name a b _ _ iha ihb =>
    simp only [Expr.eval, iha, ihb, withRm_req, withRm_gfuncs, withRm_rm, hreq]
    cases a.eval env fuel with
    | none => rfl
    | some x =>
      cases b.eval env fuel with
      | none => rfl
      | some y =>
        simp only []
        by_cases hgf : (name, 3) ∈ env.gfuncs
        · simp only [hgf, if_true]
          cases hx : asStr x with
          | none => rfl
          | some s =>
            cases hy : asStr y with
            | none => rfl
            | some t => simp only [asStr, hl s t]
        · simp only [hgf, if_false]
  | call2 f _ _ iha ihb => simp only [Expr.eval, iha, ihb, withRm_call]
  | call3 f _ _ _ iha ihb ihc => simp only [Expr.eval, iha, ihb, ihc, withRm_call]
  | unknownVar => simp only [Expr.eval]

/-- the matcher `ex` as the rule loop calls it, in given surroundings -/
def matcherOf (ex : Expr) (env : Env) : MatchFn := fun rule => ex.evalBool { env with rule := rule }

theorem matcherOf_rm_congr (di : Nat) (d : String) (env : Env) (rm' : RoleMgr String)
    (hreq : env.req[di]? = some (.atom (.str d)))
    (hg : env.rm.graph? d = rm'.graph? d) (hm : env.rm.maxLevel = rm'.maxLevel)
    (ex : Expr) (he : DomOnly di ex) (rule : Rule) :
    matcherOf ex (withRm env rm') rule = matcherOf ex env rule := by
  unfold matcherOf Expr.evalBool
  have := eval_rm_congr di d { env with rule := rule } rm' hreq
    (fun s t => (C03.queries_depend_only_on_domain_graph env.rm rm' d hg hm s t).1) ex he 8
  simp only [withRm] at this ⊢
  rw [this]

/-- **tenant isolation, decisions**: take a matcher whose role lookups name the request's tenant `d` and which
rejects every rule outside `d` (`inD`).  Replace the role manager by one that agrees on `d`'s graph — whatever it
holds for other tenants — and the stored rules by any list with the same `d`-rules in the same order — whatever
other rules are interleaved.  The decision is the same. -/
theorem tenant_isolation (c c' : EvalCfg) (reqLen : Nat) (eff : EffExpr) (ex : Expr) (di : Nat) (d : String)
    (env : Env) (rm' : RoleMgr String)
    (hdo : DomOnly di ex) (hreq : env.req[di]? = some (.atom (.str d)))
    (hg : env.rm.graph? d = rm'.graph? d) (hml : env.rm.maxLevel = rm'.maxLevel)
    (hr : C01.Ready c reqLen eff) (hr' : C01.Ready c' reqLen eff)
    (htok : c.ptokens = c'.ptokens) (heft : c.eftToken = c'.eftToken)
    (hne : c.policy ≠ []) (hne' : c'.policy ≠ []) (inD : Rule → Bool)
    (hview : c.policy.filter inD = c'.policy.filter inD)
    (hout : ∀ rule, inD rule = false → rule ∈ c.policy ∨ rule ∈ c'.policy →
      rule.length = c.ptokens.length ∧ matcherOf ex env rule = some false) :
    enforceCore c reqLen (matcherOf ex env) = enforceCore c' reqLen (matcherOf ex (withRm env rm')) := by
  apply decisions_depend_on_view c c' reqLen _ _ eff hr hr' htok heft hne hne' inD hview
  · intro rule _
    exact (matcherOf_rm_congr di d env rm' hreq hg hml ex hdo rule).symm
  · intro rule hm hi
    exact hout rule hi (Or.inl hm)
  · intro rule hm hi
    have := hout rule hi (Or.inr hm)
    rw [matcherOf_rm_congr di d env rm' hreq hg hml ex hdo rule, ← htok]
    exact this

/-- a role-manager call made for another tenant -/
def RmOp.Outside (d : String) : RmOp String → Prop
  | .add _ _ d' => d' ≠ d
  | .del _ _ d' => d' ≠ d
  | .clear => False

theorem graph_step_outside (rm : RoleMgr String) (op : RmOp String) (d : String) (h : RmOp.Outside d op) :
    (rm.apply op).graph? d = rm.graph? d ∧ (rm.apply op).maxLevel = rm.maxLevel := by
  cases op with
  | add a b d' =>
    have hd : d' ≠ d := h
    simp only [RoleMgr.apply, RoleMgr.addLink]
    split
    · exact ⟨rfl, rfl⟩
    · exact ⟨by rw [graph?_setDom]; simp [hd], rfl⟩
  | del a b d' =>
    have hd : d' ≠ d := h
    simp only [RoleMgr.apply, RoleMgr.deleteLink]
    split
    · exact ⟨rfl, rfl⟩
    · split
      · exact ⟨rfl, rfl⟩
      · simp only [Option.getD_some]
        exact ⟨by rw [graph?_setDom]; simp [hd], trivial⟩
  | clear => exact absurd h (by simp [RmOp.Outside])

/-- every history of role-manager calls made for other tenants leaves this tenant's graph as it was -/
theorem graph_history_outside (rm : RoleMgr String) (ops : List (RmOp String)) (d : String)
    (h : ∀ op ∈ ops, RmOp.Outside d op) :
    (rm.run ops).graph? d = rm.graph? d ∧ (rm.run ops).maxLevel = rm.maxLevel := by
  induction ops generalizing rm with
  | nil => exact ⟨rfl, rfl⟩
  | cons op rest ih =>
    have h1 := graph_step_outside rm op d (h op (by simp))
    have h2 := ih (rm.apply op) (fun o ho => h o (by simp [ho]))
    simp only [RoleMgr.run, List.foldl_cons] at h2 ⊢
    exact ⟨h2.1.trans h1.1, h2.2.trans h1.2⟩

/-- **tenant isolation over histories**: after any history of management calls on permission rules that name
no rule of tenant `d` (`TOp.Confined`) and any history of role-link changes made for other tenants
(`RmOp.Outside`), every request of tenant `d` is decided as before -/
theorem tenant_isolation_history (c : EvalCfg) (reqLen : Nat) (eff : EffExpr) (ex : Expr) (di : Nat) (d : String)
    (env : Env) (s : Store) (pt : String) (ops : List TOp) (rops : List (RmOp String)) (inD : Rule → Bool)
    (hdo : DomOnly di ex) (hreq : env.req[di]? = some (.atom (.str d)))
    (hops : ∀ op ∈ ops, op.Confined inD) (hrops : ∀ op ∈ rops, RmOp.Outside d op)
    (hr : C01.Ready { c with policy := s.getPolicy "p" pt } reqLen eff)
    (hr' : C01.Ready { c with policy := (ops.foldl TOp.apply s).getPolicy "p" pt } reqLen eff)
    (hne : s.getPolicy "p" pt ≠ []) (hne' : (ops.foldl TOp.apply s).getPolicy "p" pt ≠ [])
    (hout : ∀ rule, inD rule = false → rule ∈ s.getPolicy "p" pt ∨ rule ∈ (ops.foldl TOp.apply s).getPolicy "p" pt →
      rule.length = c.ptokens.length ∧ matcherOf ex env rule = some false) :
    enforceCore { c with policy := s.getPolicy "p" pt } reqLen (matcherOf ex env) =
    enforceCore { c with policy := (ops.foldl TOp.apply s).getPolicy "p" pt } reqLen
      (matcherOf ex (withRm env (env.rm.run rops))) := by
  have hgr := graph_history_outside env.rm rops d hrops
  exact tenant_isolation _ _ reqLen eff ex di d env (env.rm.run rops) hdo hreq hgr.1.symm hgr.2.symm hr hr' rfl rfl
    hne hne' inD (view_history inD ops s hops pt).symm hout

/-! #### non-vacuity: the domain matcher of `rbac_with_domains_model.conf` -/

/-- `g(r.sub, p.sub, r.dom) && r.dom == p.dom && r.obj == p.obj` -/
def domMatcher : Expr :=
  .and (.and (.g3 "g" (.r 0) (.p 0) (.r 1)) (.cmp .eq (.r 1) (.p 1))) (.cmp .eq (.r 2) (.p 2))

theorem domMatcher_domOnly : DomOnly 1 domMatcher :=
  .and (.and (.g3 "g" (.r 0) (.p 0)) (.cmp .eq (.r 1) (.p 1))) (.cmp .eq (.r 2) (.p 2))

def demoEnv : Env :=
  { req := [.atom (.str "alice"), .atom (.str "d1"), .atom (.str "data1")], rule := [],
    rm := (RoleMgr.new 10).addLink "alice" "admin" "d1", gfuncs := [("g", 3)],
    call := fun _ _ => none, tbl := fun _ => none }

def cfgD : EvalCfg :=
  { enabled := true, sectionsOk := true, rtokens := 3, ptokens := ["p_sub", "p_dom", "p_obj"],
    effExpr := some .allowOverride, eftToken := "p_eft", compiles := true,
    policy := [["admin", "d1", "data1"], ["bob", "d2", "data2"]] }
def cfgD' : EvalCfg := { cfgD with policy := [["carol", "d2", "data1"], ["admin", "d1", "data1"]] }

theorem demo_link : demoEnv.rm.hasLink "alice" "admin" "d1" = true := by decide +kernel

/-- the matcher on the three rules of the example -/
theorem demo_matcher_vals :
    matcherOf domMatcher demoEnv ["admin", "d1", "data1"] = some true ∧
    matcherOf domMatcher demoEnv ["bob", "d2", "data2"] = some false ∧
    matcherOf domMatcher demoEnv ["carol", "d2", "data1"] = some false := by
  refine ⟨?_, ?_, ?_⟩
  · have := demo_link
    simp only [demoEnv] at this
    simp [matcherOf, domMatcher, Expr.evalBool, Expr.eval, asStr, cmpVal, cmpStr, demoEnv, this]
  · exact domain_guard_rejects _ _ _ 1 1 "d1" "d2" (demoEnv.rm.hasLink "alice" "bob" "d1")
      (by simp [Expr.eval, asStr, demoEnv]) rfl rfl (by decide)
  · exact domain_guard_rejects _ _ _ 1 1 "d1" "d2" (demoEnv.rm.hasLink "alice" "carol" "d1")
      (by simp [Expr.eval, asStr, demoEnv]) rfl rfl (by decide)

/-- the hypotheses of `tenant_isolation` are met by a concrete two-tenant configuration: another tenant's rules
differ, and the other tenant gained a link; alice@d1 is granted either way -/
example :
    enforceCore cfgD 3 (matcherOf domMatcher demoEnv) =
      enforceCore cfgD' 3 (matcherOf domMatcher (withRm demoEnv (demoEnv.rm.addLink "bob" "admin" "d2"))) := by
  apply tenant_isolation cfgD cfgD' 3 .allowOverride domMatcher 1 "d1" demoEnv _ domMatcher_domOnly rfl
    (graph_step_outside demoEnv.rm (.add "bob" "admin" "d2") "d1" (by simp [RmOp.Outside])).1.symm
    (graph_step_outside demoEnv.rm (.add "bob" "admin" "d2") "d1" (by simp [RmOp.Outside])).2.symm
    ⟨rfl, rfl, rfl, rfl, rfl⟩ ⟨rfl, rfl, rfl, rfl, rfl⟩ rfl rfl (by decide) (by decide)
    (fun r => decide (r[1]? = some "d1")) (by decide)
  intro rule hi hm
  simp only [cfgD, cfgD', List.mem_cons, List.not_mem_nil, or_false] at hm
  rcases hm with (rfl | rfl) | (rfl | rfl)
  · exact absurd hi (by decide)
  · exact ⟨rfl, demo_matcher_vals.2.1⟩
  · exact ⟨rfl, demo_matcher_vals.2.2⟩
  · exact absurd hi (by decide)

/-- … and the request is one that is granted (through the role), so the equality is not between two refusals -/
example : enforceCore cfgD 3 (matcherOf domMatcher demoEnv) = .ok true := by
  rw [C01.enforce_eq_reference cfgD 3 _ .allowOverride ⟨rfl, rfl, rfl, rfl, rfl⟩ (by decide)]
  simp [cfgD, ruleOutcome, demo_matcher_vals.1, demo_matcher_vals.2.1]
  decide


/-! #### … and of `Enforcer.enforce` itself -/

/-- the rule loop's matcher of an enforcer is `matcherOf` of the stored matcher in the enforcer's surroundings -/
theorem matchFn_eq_matcherOf (e : Enforcer) (call : String → List String → Option Atom) (tbl : String → Option Expr)
    (req : List Val) (ex : Expr) (h : e.defs.m.lookup "m" = some (some ex)) :
    e.matchFn "" call tbl req = matcherOf ex (e.env call tbl req []) := by
  funext rule
  simp [Enforcer.matchFn, matcherOf, h, Enforcer.env]

/-- **tenant isolation, stated of `enforce`**: two enforcers with the same model definitions, registered role
functions and switches, whose role managers agree on tenant `d`'s graph and whose stored permission rules have the same
`d`-rules in the same order, decide every request of tenant `d` alike — whatever else the other tenants stored or
linked.  (`e'` is `e` after any history confined to other tenants: `view_history`, `graph_history_outside`.) -/
theorem tenant_isolation_enforce (e e' : Enforcer) (call : String → List String → Option Atom)
    (tbl : String → Option Expr) (req : List Val) (eff : EffExpr) (ex : Expr) (di : Nat) (d : String)
    (hdefs : e'.defs = e.defs) (hgf : e'.gfuncs = e.gfuncs)
    (hm : e.defs.m.lookup "m" = some (some ex)) (hdo : DomOnly di ex)
    (hreq : req[di]? = some (.atom (.str d)))
    (hg : e.rm.graph? d = e'.rm.graph? d) (hml : e.rm.maxLevel = e'.rm.maxLevel)
    (hr : C01.Ready (e.evalCfg "" true) req.length eff) (hr' : C01.Ready (e'.evalCfg "" true) req.length eff)
    (htok : (e.evalCfg "" true).ptokens = (e'.evalCfg "" true).ptokens)
    (hne : (e.evalCfg "" true).policy ≠ []) (hne' : (e'.evalCfg "" true).policy ≠ []) (inD : Rule → Bool)
    (hview : (e.evalCfg "" true).policy.filter inD = (e'.evalCfg "" true).policy.filter inD)
    (hout : ∀ rule, inD rule = false → rule ∈ (e.evalCfg "" true).policy ∨ rule ∈ (e'.evalCfg "" true).policy →
      rule.length = (e.evalCfg "" true).ptokens.length ∧ e.matchFn "" call tbl req rule = some false) :
    e.enforce call tbl req = e'.enforce call tbl req := by
  unfold Enforcer.enforce
  have hm' : e'.defs.m.lookup "m" = some (some ex) := by rw [hdefs]; exact hm
  rw [matchFn_eq_matcherOf e call tbl req ex hm, matchFn_eq_matcherOf e' call tbl req ex hm']
  have henv : e'.env call tbl req [] = withRm (e.env call tbl req []) e'.rm := by
    simp [Enforcer.env, withRm, hgf]
  rw [henv]
  apply tenant_isolation _ _ req.length eff ex di d (e.env call tbl req []) e'.rm hdo hreq hg hml hr hr' htok rfl
    hne hne' inD hview
  intro rule hi hmem
  have := hout rule hi hmem
  rw [matchFn_eq_matcherOf e call tbl req ex hm] at this
  exact this

end Casbin.C07
