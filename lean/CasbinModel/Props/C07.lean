import CasbinModel.Lemmas.Scan
import CasbinModel.Props.C01
import CasbinModel.Props.C03
import CasbinModel.Lemmas.Batch
/-!
# C07 — Tenants are isolated in domain models

Two ingredients, both for arbitrary policies, role graphs and histories:

* role manager: an addition / deletion in another domain leaves this domain's graph —
  hence `has_link`, `get_roles`, `get_users` for this domain — unchanged (C03);
* decisions: if the matcher gives *no match* (`some false`) on every rule of another
  domain (what a matcher containing `r.dom == p.dom` does), a decision depends only on
  the sub-list of this domain's rules, in order, and on the matcher's value on them.

The hypothesis "both stores non-empty" is forced by the empty-store branch of
`enforce` (evaluated on the crate on every run; with non-empty request values it
cannot arise).
-/
namespace Casbin.C07
open Casbin

/-- an operation confined to another domain does not change this domain's graph,
and every role query of this domain is a function of that graph -/
theorem role_queries_isolated (rm : RoleMgr String) (a b d d' x y : String) (hd : d' ≠ d) :
    let rm1 := rm.apply (.add a b d')
    let rm2 := rm.apply (.del a b d')
    (rm1.hasLink x y d = rm.hasLink x y d ∧ rm1.getRoles x d = rm.getRoles x d ∧ rm1.getUsers x d = rm.getUsers x d) ∧
    (rm2.hasLink x y d = rm.hasLink x y d ∧ rm2.getRoles x d = rm.getRoles x d ∧ rm2.getUsers x d = rm.getUsers x d) := by
  have hg1 : (rm.apply (.add a b d')).graph? d = rm.graph? d := by
    simp only [RoleMgr.apply, RoleMgr.addLink]
    split
    · rfl
    · rw [graph?_setDom]; simp [hd]
  have hg2 : (rm.apply (.del a b d')).graph? d = rm.graph? d := by
    simp only [RoleMgr.apply, RoleMgr.deleteLink]
    split
    · rfl
    · split
      · rfl
      · simp only [Option.getD]; rw [graph?_setDom]; simp [hd]
  have hm1 := maxLevel_apply rm (.add a b d')
  have hm2 := maxLevel_apply rm (.del a b d')
  exact ⟨C03.queries_depend_only_on_domain_graph _ _ d hg1 hm1 x y,
         C03.queries_depend_only_on_domain_graph _ _ d hg2 hm2 x y⟩

/-- **Decisions depend only on the tenant's view.**  `inD` selects the rules of the
observed domain.  If rules outside it never match (under both matchers) and are
well-formed, and the two stores hold the same in-domain rules in the same order with the
same matcher values on them, the decisions coincide. -/
theorem decisions_depend_on_view (c c' : EvalCfg) (reqLen : Nat) (m m' : MatchFn) (ex : EffExpr)
    (hr : C01.Ready c reqLen ex) (hr' : C01.Ready c' reqLen ex)
    (htok : c.ptokens = c'.ptokens) (heft : c.eftToken = c'.eftToken)
    (hne : c.policy ≠ []) (hne' : c'.policy ≠ []) (inD : Rule → Bool)
    (hview : c.policy.filter inD = c'.policy.filter inD)
    (hm : ∀ rule, inD rule = true → m rule = m' rule)
    (hout : ∀ rule ∈ c.policy, inD rule = false → rule.length = c.ptokens.length ∧ m rule = some false)
    (hout' : ∀ rule ∈ c'.policy, inD rule = false → rule.length = c'.ptokens.length ∧ m' rule = some false) :
    enforceCore c reqLen m = enforceCore c' reqLen m' := by
  rw [C01.enforce_eq_reference c reqLen m ex hr hne, C01.enforce_eq_reference c' reqLen m' ex hr' hne']
  apply refScan_eq_of_filter_eq
  have hq : ∀ (cc : EvalCfg) (mm : MatchFn) (rule : Rule), rule.length = cc.ptokens.length → mm rule = some false →
      (!isIndetOk (ruleOutcome cc.ptokens.length (cc.ptokens.idxOf? cc.eftToken) mm rule)) = false := by
    intro cc mm rule hl hmm
    simp [ruleOutcome, hl, hmm, ruleEffect, isIndetOk]
  have e1 := filter_map_restrict c.policy inD
    (ruleOutcome c.ptokens.length (c.ptokens.idxOf? c.eftToken) m) (fun o => !isIndetOk o)
    (fun x hx hi => hq c m x (hout x hx hi).1 (hout x hx hi).2)
  have e2 := filter_map_restrict c'.policy inD
    (ruleOutcome c'.ptokens.length (c'.ptokens.idxOf? c'.eftToken) m') (fun o => !isIndetOk o)
    (fun x hx hi => hq c' m' x (hout' x hx hi).1 (hout' x hx hi).2)
  rw [e1, e2, hview, ← htok, ← heft]
  congr 1
  apply List.map_congr_left
  intro rule hrule
  have hin : inD rule = true := by
    have := List.mem_filter.mp hrule; simpa using this.2
  simp [ruleOutcome, hm rule hin]

/-- a matcher of the form `first && (r.dom == p.dom) && rest` in which `first` cannot fail
evaluates to `false` on every rule of another domain — this is why the generated domain
models satisfy the hypothesis of `decisions_depend_on_view` -/
theorem domain_guard_rejects (env : Env) (first rest : Expr) (ri pi : Nat) (rd pd : String) (b : Bool)
    (hfirst : first.eval env 8 = some (.atom (.bool b)))
    (hr : env.req[ri]? = some (.atom (.str rd))) (hp : env.rule[pi]? = some pd) (hne : rd ≠ pd) :
    (Expr.and (Expr.and first (.cmp .eq (.r ri) (.p pi))) rest).evalBool env = some false := by
  have hb : (rd == pd) = false := by simp [hne]
  cases b <;>
    simp [Expr.evalBool, Expr.eval, hfirst, hr, hp, cmpVal, cmpStr, hb]

/-! ### The tenant's view under management calls confined to other tenants -/

theorem filter_add_outside (inD : Rule → Bool) (l : List Rule) (r : Rule) (h : inD r = false) :
    (OrdSet.add l r).1.filter inD = l.filter inD := by
  unfold OrdSet.add
  split
  · rfl
  · simp [List.filter_append, h]

theorem filter_erase_outside (inD : Rule → Bool) (l : List Rule) (r : Rule) (h : inD r = false) :
    (l.erase r).filter inD = l.filter inD := by
  induction l with
  | nil => rfl
  | cons x t ih =>
    by_cases hx : x = r
    · subst hx; simp [List.erase_cons_head, List.filter_cons, h]
    · rw [List.erase_cons_tail (by simpa using hx)]
      simp only [List.filter_cons]
      rw [ih]

theorem filter_remove_outside (inD : Rule → Bool) (l : List Rule) (r : Rule) (h : inD r = false) :
    (OrdSet.remove l r).1.filter inD = l.filter inD := by
  rw [OrdSet.remove_eq, erase_inst_irrel]
  exact filter_erase_outside inD l r h

theorem filter_addAll_outside (inD : Rule → Bool) (rs : List Rule) (l : List Rule) (h : ∀ r ∈ rs, inD r = false) :
    (OrdSet.addAll l rs).filter inD = l.filter inD := by
  induction rs generalizing l with
  | nil => rfl
  | cons r t ih =>
    simp only [OrdSet.addAll]
    rw [ih _ (fun x hx => h x (by simp [hx])), filter_add_outside inD l r (h r (by simp))]

theorem filter_removeAll_outside (inD : Rule → Bool) (rs : List Rule) (l : List Rule) (h : ∀ r ∈ rs, inD r = false) :
    (OrdSet.removeAll l rs).filter inD = l.filter inD := by
  induction rs generalizing l with
  | nil => rfl
  | cons r t ih =>
    simp only [OrdSet.removeAll]
    rw [ih _ (fun x hx => h x (by simp [hx])), filter_remove_outside inD l r (h r (by simp))]

theorem filter_filtered_outside (inD fm : Rule → Bool) (l : List Rule) (h : ∀ r, fm r = true → inD r = false) :
    (l.filter (fun r => !fm r)).filter inD = l.filter inD := by
  rw [List.filter_filter]
  apply List.filter_congr
  intro r _
  by_cases hi : inD r = true
  · have : fm r = false := by
      cases hf : fm r with
      | false => rfl
      | true => have := h r hf; rw [hi] at this; cases this
    simp [hi, this]
  · have : inD r = false := by simpa using hi
    simp [this]

/-- the five management calls on permission rules -/
inductive TOp where
  | add (pt : String) (rule : Rule)
  | remove (pt : String) (rule : Rule)
  | addMany (pt : String) (rules : List Rule)
  | removeMany (pt : String) (rules : List Rule)
  | removeFiltered (pt : String) (idx : Nat) (vals : List String)

def TOp.apply (s : Store) : TOp → Store
  | .add pt rule => (s.addPolicy "p" pt rule).1
  | .remove pt rule => (s.removePolicy "p" pt rule).1
  | .addMany pt rules => (s.addPolicies "p" pt rules).1
  | .removeMany pt rules => (s.removePolicies "p" pt rules).1
  | .removeFiltered pt idx vals => (s.removeFiltered "p" pt idx vals).1

/-- the call names no rule of the observed tenant: every rule it adds or removes lies outside, and a filter selects
outside rules only (what a filter carrying another tenant's name in the tenant column does) -/
def TOp.Confined (inD : Rule → Bool) : TOp → Prop
  | .add _ rule => inD rule = false
  | .remove _ rule => inD rule = false
  | .addMany _ rules => ∀ r ∈ rules, inD r = false
  | .removeMany _ rules => ∀ r ∈ rules, inD r = false
  | .removeFiltered _ idx vals => ∀ r, filterMatch idx vals r = true → inD r = false

/-- **one confined call leaves the tenant's view alone**: under every policy type, the observed tenant's rules, in
order, are what they were — whether the call takes effect, reports no change, or names an unknown policy type -/
theorem view_step (inD : Rule → Bool) (s : Store) (op : TOp) (h : op.Confined inD) (pt' : String) :
    ((op.apply s).getPolicy "p" pt').filter inD = (s.getPolicy "p" pt').filter inD := by
  cases op with
  | add pt rule =>
    simp only [TOp.apply]
    rw [Store.addPolicy_getPolicy]
    split
    · rename_i hc; obtain ⟨_, h2, _⟩ := hc; subst h2
      exact filter_add_outside inD _ rule h
    · rfl
  | remove pt rule =>
    simp only [TOp.apply]
    rw [Store.removePolicy_getPolicy]
    split
    · rename_i hc; obtain ⟨_, h2, _⟩ := hc; subst h2
      exact filter_remove_outside inD _ rule h
    · rfl
  | addMany pt rules =>
    simp only [TOp.apply]
    unfold Store.addPolicies
    cases hf : s.find "p" pt with
    | none => rfl
    | some d =>
      simp only
      split
      · rfl
      · rw [Store.getPolicy_update' s "p" pt "p" pt' (fun pol => OrdSet.addAll pol rules)]
        split
        · rename_i hc; obtain ⟨_, h2, _⟩ := hc; subst h2
          exact filter_addAll_outside inD rules _ h
        · rfl
  | removeMany pt rules =>
    simp only [TOp.apply]
    unfold Store.removePolicies
    cases hf : s.find "p" pt with
    | none => rfl
    | some d =>
      simp only
      split
      · rfl
      · rw [Store.getPolicy_update' s "p" pt "p" pt' (fun pol => OrdSet.removeAll pol rules)]
        split
        · rename_i hc; obtain ⟨_, h2, _⟩ := hc; subst h2
          exact filter_removeAll_outside inD rules _ h
        · rfl
  | removeFiltered pt idx vals =>
    simp only [TOp.apply]
    unfold Store.removeFiltered
    split
    · rfl
    · cases hf : s.find "p" pt with
      | none => rfl
      | some d =>
        simp only
        split
        · rfl
        · rw [Store.getPolicy_update' s "p" pt "p" pt' (fun pol => pol.filter (fun r => !filterMatch idx vals r))]
          split
          · rename_i hc; obtain ⟨_, h2, _⟩ := hc; subst h2
            exact filter_filtered_outside inD (filterMatch idx vals) _ h
          · rfl

/-- **… and so does every history of confined calls** — the hypothesis `hview` of `decisions_depend_on_view` is an
invariant of whatever the other tenants do -/
theorem view_history (inD : Rule → Bool) (ops : List TOp) (s : Store) (h : ∀ op ∈ ops, op.Confined inD) (pt' : String) :
    ((ops.foldl TOp.apply s).getPolicy "p" pt').filter inD = (s.getPolicy "p" pt').filter inD := by
  induction ops generalizing s with
  | nil => rfl
  | cons op rest ih =>
    simp only [List.foldl_cons]
    rw [ih _ (fun o ho => h o (by simp [ho])), view_step inD s op (h op (by simp))]

/-- a filter that names another tenant in the tenant column selects no rule of the observed tenant -/
theorem tenant_filter_confined (d d' : String) (hd : d' ≠ d) (col idx : Nat) (vals : List String) (i : Nat)
    (hi : vals[i]? = some d') (hne : d' ≠ "") (hcol : idx + i = col) :
    ∀ r : Rule, filterMatch idx vals r = true → (fun r : Rule => decide (r[col]? = some d)) r = false := by
  intro r hfm
  unfold filterMatch at hfm
  rw [List.all_eq_true] at hfm
  have hmem : (d', i) ∈ vals.zipIdx := by
    rw [List.mem_zipIdx_iff_getElem?]; simpa using hi
  have := hfm (d', i) hmem
  simp only [Bool.or_eq_true, decide_eq_true_eq] at this
  rcases this with h | h
  · exact absurd h hne
  · rw [hcol] at h
    simp only [decide_eq_false_iff_not]
    rw [h]
    intro heq
    exact hd (Option.some.inj heq)

/-! ### Non-vacuity -/
def cfgA : EvalCfg :=
  { enabled := true, sectionsOk := true, rtokens := 2, ptokens := ["p_sub", "p_dom"], effExpr := some .allowOverride,
    eftToken := "p_eft", compiles := true, policy := [["alice", "d1"], ["bob", "d2"]] }
def cfgB : EvalCfg := { cfgA with policy := [["carol", "d2"], ["alice", "d1"], ["dave", "d3"]] }
def mAlice : MatchFn := fun rule => some (rule[0]? = some "alice" && rule[1]? = some "d1")
example : enforceCore cfgA 2 mAlice = enforceCore cfgB 2 mAlice := by decide
example : cfgA.policy.filter (fun r => r[1]? = some "d1") = cfgB.policy.filter (fun r => r[1]? = some "d1") := by decide

end Casbin.C07
