import CasbinModel.Lemmas.Scan
import CasbinModel.Props.C01
import CasbinModel.Props.C03
/-!
# C07 — Tenants are isolated in domain models

Two ingredients, both for arbitrary policies, role graphs and histories:

* role manager: an addition / deletion in another domain leaves this domain's graph —
  hence `has_link`, `get_roles`, `get_users` for this domain — unchanged (C03);
* decisions: if the matcher gives *no match* (`some false`) on every rule of another
  domain (what a matcher containing `r.dom == p.dom` does), a decision depends only on
  the sub-list of this domain's rules, in order, and on the matcher's value on them.

The hypothesis "both stores non-empty" is forced by the empty-store branch of
`enforce` (evaluated on the crate on every run; with non-empty request values it
cannot arise).
-/
namespace Casbin.C07
open Casbin

/-- an operation confined to another domain does not change this domain's graph,
and every role query of this domain is a function of that graph -/
theorem role_queries_isolated (rm : RoleMgr String) (a b d d' x y : String) (hd : d' ≠ d) :
    let rm1 := rm.apply (.add a b d')
    let rm2 := rm.apply (.del a b d')
    (rm1.hasLink x y d = rm.hasLink x y d ∧ rm1.getRoles x d = rm.getRoles x d ∧ rm1.getUsers x d = rm.getUsers x d) ∧
    (rm2.hasLink x y d = rm.hasLink x y d ∧ rm2.getRoles x d = rm.getRoles x d ∧ rm2.getUsers x d = rm.getUsers x d) := by
  have hg1 : (rm.apply (.add a b d')).graph? d = rm.graph? d := by
    simp only [RoleMgr.apply, RoleMgr.addLink]
    split
    · rfl
    · rw [graph?_setDom]; simp [hd]
  have hg2 : (rm.apply (.del a b d')).graph? d = rm.graph? d := by
    simp only [RoleMgr.apply, RoleMgr.deleteLink]
    split
    · rfl
    · split
      · rfl
      · simp only [Option.getD]; rw [graph?_setDom]; simp [hd]
  have hm1 := maxLevel_apply rm (.add a b d')
  have hm2 := maxLevel_apply rm (.del a b d')
  exact ⟨C03.queries_depend_only_on_domain_graph _ _ d hg1 hm1 x y,
         C03.queries_depend_only_on_domain_graph _ _ d hg2 hm2 x y⟩

/-- **Decisions depend only on the tenant's view.**  `inD` selects the rules of the
observed domain.  If rules outside it never match (under both matchers) and are
well-formed, and the two stores hold the same in-domain rules in the same order with the
same matcher values on them, the decisions coincide. -/
theorem decisions_depend_on_view (c c' : EvalCfg) (reqLen : Nat) (m m' : MatchFn) (ex : EffExpr)
    (hr : C01.Ready c reqLen ex) (hr' : C01.Ready c' reqLen ex)
    (htok : c.ptokens = c'.ptokens) (heft : c.eftToken = c'.eftToken)
    (hne : c.policy ≠ []) (hne' : c'.policy ≠ []) (inD : Rule → Bool)
    (hview : c.policy.filter inD = c'.policy.filter inD)
    (hm : ∀ rule, inD rule = true → m rule = m' rule)
    (hout : ∀ rule ∈ c.policy, inD rule = false → rule.length = c.ptokens.length ∧ m rule = some false)
    (hout' : ∀ rule ∈ c'.policy, inD rule = false → rule.length = c'.ptokens.length ∧ m' rule = some false) :
    enforceCore c reqLen m = enforceCore c' reqLen m' := by
  rw [C01.enforce_eq_reference c reqLen m ex hr hne, C01.enforce_eq_reference c' reqLen m' ex hr' hne']
  apply refScan_eq_of_filter_eq
  have hq : ∀ (cc : EvalCfg) (mm : MatchFn) (rule : Rule), rule.length = cc.ptokens.length → mm rule = some false →
      (!isIndetOk (ruleOutcome cc.ptokens.length (cc.ptokens.idxOf? cc.eftToken) mm rule)) = false := by
    intro cc mm rule hl hmm
    simp [ruleOutcome, hl, hmm, ruleEffect, isIndetOk]
  have e1 := filter_map_restrict c.policy inD
    (ruleOutcome c.ptokens.length (c.ptokens.idxOf? c.eftToken) m) (fun o => !isIndetOk o)
    (fun x hx hi => hq c m x (hout x hx hi).1 (hout x hx hi).2)
  have e2 := filter_map_restrict c'.policy inD
    (ruleOutcome c'.ptokens.length (c'.ptokens.idxOf? c'.eftToken) m') (fun o => !isIndetOk o)
    (fun x hx hi => hq c' m' x (hout' x hx hi).1 (hout' x hx hi).2)
  rw [e1, e2, hview, ← htok, ← heft]
  congr 1
  apply List.map_congr_left
  intro rule hrule
  have hin : inD rule = true := by
    have := List.mem_filter.mp hrule; simpa using this.2
  simp [ruleOutcome, hm rule hin]

/-- a matcher of the form `first && (r.dom == p.dom) && rest` in which `first` cannot fail
evaluates to `false` on every rule of another domain — this is why the generated domain
models satisfy the hypothesis of `decisions_depend_on_view` -/
theorem domain_guard_rejects (env : Env) (first rest : Expr) (ri pi : Nat) (rd pd : String) (b : Bool)
    (hfirst : first.eval env 8 = some (.atom (.bool b)))
    (hr : env.req[ri]? = some (.atom (.str rd))) (hp : env.rule[pi]? = some pd) (hne : rd ≠ pd) :
    (Expr.and (Expr.and first (.cmp .eq (.r ri) (.p pi))) rest).evalBool env = some false := by
  have hb : (rd == pd) = false := by simp [hne]
  cases b <;>
    simp [Expr.evalBool, Expr.eval, hfirst, hr, hp, cmpVal, cmpStr, hb]

/-! ### Non-vacuity -/
def cfgA : EvalCfg :=
  { enabled := true, sectionsOk := true, rtokens := 2, ptokens := ["p_sub", "p_dom"], effExpr := some .allowOverride,
    eftToken := "p_eft", compiles := true, policy := [["alice", "d1"], ["bob", "d2"]] }
def cfgB : EvalCfg := { cfgA with policy := [["carol", "d2"], ["alice", "d1"], ["dave", "d3"]] }
def mAlice : MatchFn := fun rule => some (rule[0]? = some "alice" && rule[1]? = some "d1")
example : enforceCore cfgA 2 mAlice = enforceCore cfgB 2 mAlice := by decide
example : cfgA.policy.filter (fun r => r[1]? = some "d1") = cfgB.policy.filter (fun r => r[1]? = some "d1") := by decide

end Casbin.C07
