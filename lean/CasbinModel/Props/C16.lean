import CasbinModel.Props.C09
import CasbinModel.Config
/-!
# C16 — Model and policy text formats round-trip   (*partial*)

* **Policy lines**: whatever blanks surround a value, and whether or not a comma-free value
  is quoted, a line parses to the same rule (`csv_layout_independent`; together with C09's
  `parse_render` for what `save_policy` writes).  Comment and blank lines are skipped by the
  line loaders (`comment_lines_skipped`).
* **Model text**: blank and comment lines anywhere between entries, and blanks around the
  key, the `=` and the value, do not change what `Config::parse` stores
  (`junk_lines_skipped`, `entry_spacing`).
* **Totality**: every function of the text models is a total Lean function without a
  panic value — the crate's parsers take no indexing or slicing step that the model had to
  guard; the crate itself is fuzzed on every run.

* **Whole texts**: a model text is a sequence of items (blank / comment line, `[header]`, `key = value` on one
  line or continued on following lines, each with blanks wherever blanks may stand); `Config::parse` of the text is the fold
  of the items' meanings (`parse_items`, `parseConfig_items`), so two texts with the same headers and entries in the
  same order parse to the same data (`text_layout_independent`, `model_text_layout_independent`).

  Values continued over any number of lines are items too (`entryContN`, `contLoop_chain`).

Not mechanised: `to_text` (HashMap-ordered token replacement) — covered by the differential run.
-/
namespace Casbin.C16
open Casbin

/-- a column as it may be written: blanks, the value (quoted or — if comma-free — bare), blanks -/
def looseCol (ws1 : Str) (f : Str) (quoted : Bool) (ws2 : Str) : Str :=
  ws1 ++ (if quoted then '"' :: f ++ ['"'] else f) ++ ws2

theorem ws_all (ws : Str) (h : ∀ c ∈ ws, isWs c = true) : ∀ c ∈ ws, (decide (c ≠ ',')) = true := ws_no_comma h

/-- the column regex matches exactly the loosely written column -/
theorem colMatch_looseCol (ws1 f ws2 rest : Str) (quoted : Bool) (h1 : ∀ c ∈ ws1, isWs c = true)
    (h2 : ∀ c ∈ ws2, isWs c = true) (hf : SafeField f) (hq : ',' ∈ f → quoted = true) (hr : AtSep rest) :
    colMatch (looseCol ws1 f quoted ws2 ++ rest) = (looseCol ws1 f quoted ws2, rest) := by
  obtain ⟨c0, t0, hf0⟩ : ∃ c t, f = c :: t := by
    cases hfe : f with
    | nil => exact absurd hfe hf.ne
    | cons c t => exact ⟨c, t, rfl⟩
  have hc0ws : isWs c0 = false := hf.headNotWs c0 (by simp [hf0])
  have hc0q : c0 ≠ '"' := by intro h; apply hf.noQuote; rw [hf0, h]; simp
  unfold looseCol
  cases quoted with
  | true =>
    simp only [if_true]
    unfold colMatch
    have e1 : (ws1 ++ ('"' :: f ++ ['"']) ++ ws2 ++ rest).dropWhile isWs = '"' :: (f ++ '"' :: (ws2 ++ rest)) := by
      rw [List.append_assoc, List.append_assoc, dw_append isWs ws1 _ h1]
      simp [List.dropWhile, isWs]
    have e2 : (ws1 ++ ('"' :: f ++ ['"']) ++ ws2 ++ rest).takeWhile isWs = ws1 := by
      rw [List.append_assoc, List.append_assoc, tw_append isWs ws1 _ h1]
      simp [List.takeWhile, isWs]
    simp only [e1, e2]
    have hqq : ∀ x ∈ f, (decide (x ≠ '"')) = true := by
      intro x hx; simp only [decide_eq_true_eq]; intro h; subst h; exact hf.noQuote hx
    have e3 : (f ++ '"' :: (ws2 ++ rest)).takeWhile (· ≠ '"') = f := by
      rw [tw_append _ f _ hqq]; simp [List.takeWhile]
    have e4 : (f ++ '"' :: (ws2 ++ rest)).dropWhile (· ≠ '"') = '"' :: (ws2 ++ rest) := by
      rw [dw_append _ f _ hqq]; simp [List.dropWhile]
    simp only [e3, e4]
    rw [tw_append isWs ws2 _ h2, dw_append isWs ws2 _ h2, tw_ws_atSep hr, dw_ws_atSep hr]
    simp
  | false =>
    have hnc : ',' ∉ f := fun h => by have := hq h; cases this
    simp only [Bool.false_eq_true, if_false]
    unfold colMatch
    have e1 : (ws1 ++ f ++ ws2 ++ rest).dropWhile isWs = c0 :: (t0 ++ ws2 ++ rest) := by
      rw [List.append_assoc, List.append_assoc, dw_append isWs ws1 _ h1, hf0]
      simp [List.dropWhile, hc0ws]
    simp only [e1]
    have hall : ∀ x ∈ ws1 ++ f ++ ws2, (decide (x ≠ ',')) = true := by
      intro x hx
      simp only [List.mem_append] at hx
      rcases hx with (h | h) | h
      · exact ws_no_comma h1 x h
      · simp only [decide_eq_true_eq]; intro hh; subst hh; exact hnc h
      · exact ws_no_comma h2 x h
    have e5 : (ws1 ++ f ++ ws2 ++ rest).takeWhile (· ≠ ',') = ws1 ++ f ++ ws2 := by
      rw [tw_append _ (ws1 ++ f ++ ws2) _ hall, tw_ne_comma_atSep hr]; simp
    have e6 : (ws1 ++ f ++ ws2 ++ rest).dropWhile (· ≠ ',') = rest := by
      rw [dw_append _ (ws1 ++ f ++ ws2) _ hall, dw_ne_comma_atSep hr]
    split
    · rename_i t heq
      simp only [List.cons.injEq] at heq
      exact absurd heq.1 hc0q
    · rw [e5, e6]

theorem trimR_append_ws (s ws : Str) (h : ∀ c ∈ ws, isWs c = true) (hl : ∀ c, s.getLast? = some c → isWs c = false) :
    trimR (s ++ ws) = s := by
  unfold trimR
  rw [List.reverse_append, dw_append isWs ws.reverse _ (by intro c hc; exact h c (List.mem_reverse.mp hc))]
  have := trimR_of_last hl
  unfold trimR at this
  exact this

/-- trimming and unquoting a loosely written column gives back the value -/
theorem unquote_trim_looseCol (ws1 f ws2 : Str) (quoted : Bool) (h1 : ∀ c ∈ ws1, isWs c = true)
    (h2 : ∀ c ∈ ws2, isWs c = true) (hf : SafeField f) : unquote (trim (looseCol ws1 f quoted ws2)) = f := by
  unfold looseCol trim
  cases quoted with
  | true =>
    simp only [if_true]
    have hcomma_free_or_not : True := trivial
    have e1 : trimL (ws1 ++ ('"' :: f ++ ['"']) ++ ws2) = ('"' :: f ++ ['"']) ++ ws2 := by
      unfold trimL
      rw [List.append_assoc, dw_append isWs ws1 _ h1]
      simp [List.dropWhile, isWs]
    rw [e1, trimR_append_ws _ ws2 h2 (by intro c hc; rw [getLast?_quoted] at hc; cases hc; decide)]
    unfold unquote
    have g1 : ('"' :: f ++ ['"']).length ≥ 2 := by simp
    have g2 : ('"' :: f ++ ['"']).head? = some '"' := rfl
    have g3 : ('"' :: f ++ ['"']).getLast? = some '"' := getLast?_quoted f
    simp only [g1, g2, g3, decide_true, Bool.and_self, if_true]
    simp
  | false =>
    simp only [Bool.false_eq_true, if_false]
    have e1 : trimL (ws1 ++ f ++ ws2) = f ++ ws2 := by
      unfold trimL
      rw [List.append_assoc, dw_append isWs ws1 _ h1]
      cases hfe : f with
      | nil => exact absurd hfe hf.ne
      | cons c t => simp [List.dropWhile, hf.headNotWs c (by simp [hfe])]
    rw [e1, trimR_append_ws _ ws2 h2 hf.lastNotWs]
    unfold unquote
    have : f.head? ≠ some '"' := by
      intro h
      cases f with
      | nil => cases h
      | cons c t => simp at h; subst h; exact hf.noQuote (by simp)
    simp [this]

/-- a loosely written column behaves like a raw column in the `find_iter` iteration -/
theorem goodCol_looseCol (ws1 f ws2 : Str) (quoted : Bool) (h1 : ∀ c ∈ ws1, isWs c = true)
    (h2 : ∀ c ∈ ws2, isWs c = true) (hf : SafeField f) (hq : ',' ∈ f → quoted = true) :
    GoodCol (looseCol ws1 f quoted ws2) := by
  refine ⟨?_, fun rest hr => colMatch_looseCol ws1 f ws2 rest quoted h1 h2 hf hq hr⟩
  unfold looseCol
  intro h
  cases quoted
  · have : f = [] := by
      simp only [Bool.false_eq_true, if_false, List.append_eq_nil_iff] at h
      exact h.1.2
    exact hf.ne this
  · simp at h

/-- one written column: blanks, value, quoting flag, blanks -/
structure Col where
  ws1 : Str
  f : Str
  quoted : Bool
  ws2 : Str

def Col.text (c : Col) : Str := looseCol c.ws1 c.f c.quoted c.ws2
def Col.Ok (c : Col) : Prop :=
  (∀ x ∈ c.ws1, isWs x = true) ∧ (∀ x ∈ c.ws2, isWs x = true) ∧ SafeField c.f ∧ (',' ∈ c.f → c.quoted = true)

/-- **CSV layout independence**: the columns of a line written with arbitrary blanks and
optional quoting are exactly the values (the line being already trimmed, as
`parse_csv_line` does first). -/
theorem csv_layout_independent (cols : List Col) (hne : cols ≠ []) (hok : ∀ c ∈ cols, c.Ok) :
    (csvCols (2 * (joinWith [','] (cols.map Col.text)).length + 3) (joinWith [','] (cols.map Col.text)) false).map
        (fun c => unquote (trim c)) = cols.map (·.f) := by
  have hg : ∀ c ∈ cols.map Col.text, GoodCol c := by
    intro c hc
    obtain ⟨x, hx, rfl⟩ := List.mem_map.mp hc
    obtain ⟨a, b, c', d⟩ := hok x hx
    exact goodCol_looseCol _ _ _ _ a b c' d
  have hne' : cols.map Col.text ≠ [] := by simpa using hne
  have hlen := length_joinWith_ge (cols.map Col.text) (fun c hc => (hg c hc).1)
  rw [(csvCols_join (cols.map Col.text) hg _ (by omega)).1 hne', List.map_map]
  apply List.map_congr_left
  intro x hx
  obtain ⟨a, b, c', _⟩ := hok x hx
  exact unquote_trim_looseCol _ _ _ _ a b c'

/-- comment and blank lines never become rules (string_adapter.rs:226-230, file_adapter.rs:235-239) -/
theorem comment_lines_skipped (line : Str) (h : (trim line).isEmpty = true ∨ (trim line).head? = some '#') :
    parseCsvLine line = none := by
  unfold parseCsvLine
  rcases h with h | h <;> simp [h]

/-! ### model text -/

def IsJunk (l : Str) : Prop := (trim l).isEmpty = true ∨ isComment (trim l) = true

/-- **blank and comment lines are skipped** wherever they stand between entries -/
theorem junk_lines_skipped (junk : List Str) (hj : ∀ l ∈ junk, IsJunk l) (rest : List Str) (sec : Str)
    (data : CfgData) (fuel : Nat) :
    parseLines (fuel + junk.length) (junk ++ rest) sec data = parseLines fuel rest sec data := by
  induction junk with
  | nil => rfl
  | cons l ls ih =>
    have hl := hj l (by simp)
    have e : fuel + (l :: ls).length = (fuel + ls.length) + 1 := by simp; omega
    rw [e]
    simp only [List.cons_append, parseLines]
    have : ((trim l).isEmpty || isComment (trim l)) = true := by
      rcases hl with h | h <;> simp [h]
    simp only [this, if_true]
    exact ih (fun x hx => hj x (by simp [hx]))

/-- blanks around the key, the `=` and the value do not matter -/
theorem entry_spacing (k v ws1 ws2 ws3 ws4 : Str) (hws : ∀ ws ∈ [ws1, ws2, ws3, ws4], ∀ c ∈ ws, isWs c = true)
    (hk : k ≠ [] ∧ '=' ∉ k ∧ (∀ c, k.head? = some c → isWs c = false) ∧ (∀ c, k.getLast? = some c → isWs c = false))
    (hv : v ≠ [] ∧ (∀ c, v.head? = some c → isWs c = false) ∧ (∀ c, v.getLast? = some c → isWs c = false)) :
    (splitEq (k ++ ws2 ++ ['='] ++ ws3 ++ v)).map (fun p => (trim p.1, trim p.2)) = some (k, v) := by
  have h2 := hws ws2 (by simp)
  have h3 := hws ws3 (by simp)
  have hnoeq : ∀ x ∈ k ++ ws2, (decide (x ≠ '=')) = true := by
    intro x hx
    rcases List.mem_append.mp hx with h | h
    · simp only [decide_eq_true_eq]; intro hh; subst hh; exact hk.2.1 h
    · have := h2 x h
      simp only [isWs, Bool.or_eq_true, decide_eq_true_eq] at this
      rcases this with ((a | a) | a) | a <;> subst a <;> decide
  have hmem : '=' ∈ k ++ ws2 ++ ['='] ++ ws3 ++ v := by simp
  unfold splitEq
  simp only [hmem, if_true, Option.map_some, Option.some.injEq, Prod.mk.injEq]
  have e1 : (k ++ ws2 ++ ['='] ++ ws3 ++ v).takeWhile (· ≠ '=') = k ++ ws2 := by
    rw [List.append_assoc (k ++ ws2), List.append_assoc (k ++ ws2), tw_append _ (k ++ ws2) _ hnoeq]
    simp [List.takeWhile]
  have e2 : ((k ++ ws2 ++ ['='] ++ ws3 ++ v).dropWhile (· ≠ '=')).drop 1 = ws3 ++ v := by
    rw [List.append_assoc (k ++ ws2), List.append_assoc (k ++ ws2), dw_append _ (k ++ ws2) _ hnoeq]
    simp [List.dropWhile]
  rw [e1, e2]
  constructor
  · unfold trim; rw [trimL_of_head (by intro c hc; cases hk' : k with
      | nil => exact absurd hk' hk.1
      | cons a b => rw [hk'] at hc; simp at hc; subst hc; exact hk.2.2.1 a (by simp [hk'])),
      trimR_append_ws k ws2 h2 hk.2.2.2]
  · unfold trim
    have : trimL (ws3 ++ v) = v := by
      unfold trimL; rw [dw_append isWs ws3 _ h3]; exact trimL_of_head hv.2.1
    rw [this, trimR_of_last hv.2.2]

/-- **a continuation line is appended to the value**: a line ending in a backslash is joined with the next
line — backslash dropped, blanks before it and around the next line removed, no separator inserted — wherever
the next line is an ordinary one (not blank, not a comment, not a section header) -/
theorem continuation_joins (f : Nat) (a nxt : Str) (rest : List Str) (ns : Str)
    (h1 : (trim nxt).isEmpty = false) (h2 : isComment (trim nxt) = false) (h3 : isSectionLine (trim nxt) = false)
    (h4 : (trimR a ++ trim nxt).getLast? ≠ some '\\') :
    contLoop (f + 2) (a ++ ['\\']) (nxt :: rest) ns = (trimR a ++ trim nxt, rest, ns) := by
  have hl : (a ++ ['\\']).getLast? = some '\\' := by simp
  have hd : (a ++ ['\\']).dropLast = a := by simp
  rw [contLoop]
  simp only [hl, ne_eq, not_true_eq_false, if_false, hd, h1, h2, h3, Bool.or_self, Bool.false_eq_true]
  rw [contLoop]
  rw [if_pos h4]

/-- a blank or comment line right after a continued line is consumed and **ends the value** (the joined text so far, its
trailing backslash and blanks removed, no longer ends in a backslash): a comment or blank line is never part of a continued
value — the reference implementation's reading, pinned by `examples/testini.ini` (`multi5`); what follows is a new entry -/
theorem continuation_skips_junk (f : Nat) (a junk : Str) (rest : List Str) (ns : Str)
    (hj : (trim junk).isEmpty = true ∨ isComment (trim junk) = true) :
    contLoop (f + 1) (a ++ ['\\']) (junk :: rest) ns = contLoop f (trimR a) rest ns := by
  have hl : (a ++ ['\\']).getLast? = some '\\' := by simp
  have hd : (a ++ ['\\']).dropLast = a := by simp
  rw [contLoop]
  simp only [hl, ne_eq, not_true_eq_false, if_false, hd]
  rcases hj with h | h <;> simp [h]

/-! ### Non-vacuity and pinned boundaries -/
example : IsJunk "  # comment".toList := Or.inr (by decide)
example : parseConfig "[a]\n\n# c\nk = v\n".toList = parseConfig "[a]\nk=v".toList := by decide +kernel
/-- the shipped multi-line matcher layout parses like the single-line one (modulo the blanks a
continuation removes) -/
example : (parseConfig "[matchers]\nm = a && \\\n  b".toList) = some [("matchers".toList, [("m".toList, "a &&b".toList)])] := by
  decide +kernel
/-- boundary: a continuation inside a policy_effect value joins without a separator, which the
effector does not recognise (the layout grammar therefore splits matchers only) -/
example : (parseConfig "[policy_effect]\ne = some(where (p.eft == allow)) && \\\n !some(where (p.eft == deny))".toList)
    = some [("policy_effect".toList, [("e".toList, "some(where (p.eft == allow)) &&!some(where (p.eft == deny))".toList)])] := by
  decide +kernel
/-- regression for the repaired blank-after-closing-quote defect (F19) -/
example : parseCsvLine "p, \"a, b\" , c".toList = some ["p".toList, "a, b".toList, "c".toList] := by decide +kernel

/-! ### Trailing comments on definition lines -/

theorem takeWhile_append_hash (a c : Str) (ha : ∀ x ∈ a, x ≠ '#') :
    (a ++ '#' :: c).takeWhile (· ≠ '#') = a := by
  induction a with
  | nil => simp
  | cons x t ih =>
    have hx : x ≠ '#' := ha x (by simp)
    simp only [List.cons_append, List.takeWhile, hx, ne_eq, not_false_eq_true, decide_true]
    rw [ih (fun y hy => ha y (by simp [hy]))]

theorem takeWhile_no_hash (a : Str) (ha : ∀ x ∈ a, x ≠ '#') : a.takeWhile (· ≠ '#') = a := by
  induction a with
  | nil => rfl
  | cons x t ih =>
    have hx : x ≠ '#' := ha x (by simp)
    simp only [List.takeWhile, hx, ne_eq, not_false_eq_true, decide_true]
    rw [ih (fun y hy => ha y (by simp [hy]))]

theorem trimR_append_ws_gen (s ws : Str) (h : ∀ c ∈ ws, isWs c = true) : trimR (s ++ ws) = trimR s := by
  unfold trimR
  rw [List.reverse_append, dw_append isWs ws.reverse _ (by intro c hc; exact h c (List.mem_reverse.mp hc))]

/-- **a trailing comment does not change a definition**: whatever follows the first `#` on a definition line — more
`#`, `=`, commas — and any blanks before it are dropped; the assertion loaded (key, value, tokens) is the one of the
bare line -/
theorem trailing_comment_ignored (sec key v ws c : Str) (hv : ∀ x ∈ v, x ≠ '#') (hws : ∀ x ∈ ws, isWs x = true) :
    addDef sec key (v ++ ws ++ '#' :: c) = addDef sec key v := by
  have hvw : ∀ x ∈ v ++ ws, x ≠ '#' := by
    intro x hx
    rcases List.mem_append.mp hx with h | h
    · exact hv x h
    · intro he; subst he; have := hws '#' h; simp [isWs] at this
  have hrc : removeComment (v ++ ws ++ '#' :: c) = removeComment v := by
    unfold removeComment
    rw [takeWhile_append_hash (v ++ ws) c hvw, takeWhile_no_hash v hv, trimR_append_ws_gen v ws hws]
  unfold addDef
  simp only [hrc]

example : addDef "p".toList "p".toList "sub, obj, act   # see issue #12, a = b".toList = addDef "p".toList "p".toList "sub, obj, act".toList :=
  trailing_comment_ignored "p".toList "p".toList "sub, obj, act".toList "   ".toList " see issue #12, a = b".toList
    (by intro x hx; revert x; decide +kernel) (by intro x hx; revert x; decide +kernel)

/-- **blanks or a line end after a definition's value do not change it** - also when there is no comment to cut off (a
value handed to `Model::add_def` directly, as read from a prompt or a database column) -/
theorem trailing_blanks_ignored (sec key v ws : Str) (hv : ∀ x ∈ v, x ≠ '#') (hws : ∀ x ∈ ws, isWs x = true) :
    addDef sec key (v ++ ws) = addDef sec key v := by
  have hvw : ∀ x ∈ v ++ ws, x ≠ '#' := by
    intro x hx
    rcases List.mem_append.mp hx with h | h
    · exact hv x h
    · intro he; subst he; have := hws '#' h; simp [isWs] at this
  have hrc : removeComment (v ++ ws) = removeComment v := by
    unfold removeComment
    rw [takeWhile_no_hash (v ++ ws) hvw, takeWhile_no_hash v hv, trimR_append_ws_gen v ws hws]
  unfold addDef
  simp only [hrc]

example : addDef "e".toList "e".toList "some(where (p.eft == allow)) \n".toList =
    addDef "e".toList "e".toList "some(where (p.eft == allow))".toList :=
  trailing_blanks_ignored "e".toList "e".toList "some(where (p.eft == allow))".toList " \n".toList
    (by intro x hx; revert x; decide +kernel) (by intro x hx; revert x; decide +kernel)


/-! ### a whole model text, whatever its layout -/

def AllWs (ws : Str) : Prop := ∀ c ∈ ws, isWs c = true
instance (ws : Str) : Decidable (AllWs ws) := by unfold AllWs; infer_instance


/-- a middle piece of a continued value: `wsC v wsA \ wsB` on a line of its own -/
structure Seg where
  wsC : Str
  v : Str
  wsA : Str
  wsB : Str

def Seg.line (s : Seg) : Str := s.wsC ++ (s.v ++ s.wsA ++ ['\\']) ++ s.wsB

/-- a piece of a value: non-empty, no blank at either end, not opening a comment or a header -/
def PieceOk (v : Str) : Prop :=
  v ≠ [] ∧ (∀ c, v.head? = some c → isWs c = false) ∧ (∀ c, v.getLast? = some c → isWs c = false) ∧
  (∀ c, v.head? = some c → c ≠ '#' ∧ c ≠ ';' ∧ c ≠ '[')

def Seg.Ok (s : Seg) : Prop := AllWs s.wsC ∧ AllWs s.wsA ∧ AllWs s.wsB ∧ PieceOk s.v

/-- one line of a model text as it may be written -/
inductive Item where
  /-- a blank or comment line -/
  | junk (l : Str)
  /-- `[name]` with blanks around it -/
  | header (ws1 name ws2 : Str)
  /-- `key = value` with blanks at the four places blanks may stand -/
  | entry (ws1 k ws2 ws3 v ws4 : Str)
  /-- `key = v1 \` continued on the next line by `v2`, blanks before and after the backslash and around `v2` -/
  | entryCont (ws1 k ws2 ws3 v1 wsA wsB wsC v2 wsD : Str)
  /-- a value continued over any number of lines: `key = v0 \`, then the middle pieces (`Seg`), then the last piece -/
  | entryContN (ws1 k ws2 ws3 v0 wsA wsB : Str) (segs : List Seg) (wsC vl wsD : Str)

def Item.lines : Item → List Str
  | .junk l => [l]
  | .header ws1 name ws2 => [ws1 ++ ('[' :: name ++ [']']) ++ ws2]
  | .entry ws1 k ws2 ws3 v ws4 => [ws1 ++ (k ++ ws2 ++ ['='] ++ ws3 ++ v) ++ ws4]
  | .entryCont ws1 k ws2 ws3 v1 wsA wsB wsC v2 wsD =>
    [ws1 ++ ((k ++ ws2 ++ ['='] ++ ws3 ++ v1) ++ wsA ++ ['\\']) ++ wsB, wsC ++ v2 ++ wsD]
  | .entryContN ws1 k ws2 ws3 v0 wsA wsB segs wsC vl wsD =>
    (ws1 ++ ((k ++ ws2 ++ ['='] ++ ws3 ++ v0) ++ wsA ++ ['\\']) ++ wsB) :: (segs.map Seg.line ++ [wsC ++ vl ++ wsD])

/-- what a key and a value must look like for the line to be *that* entry: non-empty, no blank at either
end, no `=` in the key, the key not opening a comment or a header, the value not ending in a backslash
(a continued value is the subject of `continuation_joins`) -/
def Item.Ok : Item → Prop
  | .junk l => IsJunk l
  | .header ws1 _ ws2 => AllWs ws1 ∧ AllWs ws2
  | .entry ws1 k ws2 ws3 v ws4 =>
    AllWs ws1 ∧ AllWs ws2 ∧ AllWs ws3 ∧ AllWs ws4 ∧
    (k ≠ [] ∧ '=' ∉ k ∧ (∀ c, k.head? = some c → isWs c = false) ∧ (∀ c, k.getLast? = some c → isWs c = false)) ∧
    (v ≠ [] ∧ (∀ c, v.head? = some c → isWs c = false) ∧ (∀ c, v.getLast? = some c → isWs c = false)) ∧
    (∀ c, k.head? = some c → c ≠ '#' ∧ c ≠ ';' ∧ c ≠ '[') ∧ v.getLast? ≠ some '\\'
  | .entryCont ws1 k ws2 ws3 v1 wsA wsB wsC v2 wsD =>
    AllWs ws1 ∧ AllWs ws2 ∧ AllWs ws3 ∧ AllWs wsA ∧ AllWs wsB ∧ AllWs wsC ∧ AllWs wsD ∧
    (k ≠ [] ∧ '=' ∉ k ∧ (∀ c, k.head? = some c → isWs c = false) ∧ (∀ c, k.getLast? = some c → isWs c = false)) ∧
    (v1 ≠ [] ∧ (∀ c, v1.head? = some c → isWs c = false) ∧ (∀ c, v1.getLast? = some c → isWs c = false)) ∧
    (v2 ≠ [] ∧ (∀ c, v2.head? = some c → isWs c = false) ∧ (∀ c, v2.getLast? = some c → isWs c = false)) ∧
    (∀ c, k.head? = some c → c ≠ '#' ∧ c ≠ ';' ∧ c ≠ '[') ∧
    (∀ c, v2.head? = some c → c ≠ '#' ∧ c ≠ ';' ∧ c ≠ '[') ∧ v2.getLast? ≠ some '\\'
  | .entryContN ws1 k ws2 ws3 v0 wsA wsB segs wsC vl wsD =>
    AllWs ws1 ∧ AllWs ws2 ∧ AllWs ws3 ∧ AllWs wsA ∧ AllWs wsB ∧ AllWs wsC ∧ AllWs wsD ∧
    (k ≠ [] ∧ '=' ∉ k ∧ (∀ c, k.head? = some c → isWs c = false) ∧ (∀ c, k.getLast? = some c → isWs c = false)) ∧
    (v0 ≠ [] ∧ (∀ c, v0.head? = some c → isWs c = false) ∧ (∀ c, v0.getLast? = some c → isWs c = false)) ∧
    (∀ c, k.head? = some c → c ≠ '#' ∧ c ≠ ';' ∧ c ≠ '[') ∧
    (∀ s ∈ segs, s.Ok) ∧ PieceOk vl ∧ vl.getLast? ≠ some '\\'

/-- what the line means: the current section and the data so far -/
def Item.step : Str × CfgData → Item → Str × CfgData
  | (sec, d), .junk _ => (sec, d)
  | (_, d), .header _ name _ => (name, d)
  | (sec, d), .entry _ k _ _ v _ => (sec, addConfig d sec k v)
  | (sec, d), .entryCont _ k _ _ v1 _ _ _ v2 _ => (sec, addConfig d sec k (v1 ++ v2))
  | (sec, d), .entryContN _ k _ _ v0 _ _ segs _ vl _ => (sec, addConfig d sec k (v0 ++ (segs.map Seg.v).flatten ++ vl))

theorem trim_pad (ws1 s ws2 : Str) (h1 : AllWs ws1) (h2 : AllWs ws2) (hne : s ≠ [])
    (hh : ∀ c, s.head? = some c → isWs c = false) (hl : ∀ c, s.getLast? = some c → isWs c = false) :
    trim (ws1 ++ s ++ ws2) = s := by
  unfold trim
  have : trimL (ws1 ++ s ++ ws2) = s ++ ws2 := by
    unfold trimL
    rw [List.append_assoc, dw_append isWs ws1 _ h1]
    cases s with
    | nil => exact absurd rfl hne
    | cons c t => simp [List.dropWhile, hh c rfl]
  rw [this]
  exact trimR_append_ws s ws2 h2 hl

theorem last_bracket (name : Str) : ('[' :: name ++ [']']).getLast? = some ']' := List.getLast?_concat

theorem last_bracket_cons (name : Str) : ('[' :: (name ++ [']'])).getLast? = some ']' := by
  rw [← List.cons_append]; exact List.getLast?_concat

theorem getLast?_append_ne {α : Type} (a b : List α) (h : b ≠ []) : (a ++ b).getLast? = b.getLast? := by
  rw [List.getLast?_append]
  cases hb : b.getLast? with
  | none => exact absurd (List.getLast?_eq_none_iff.mp hb) h
  | some c => simp

theorem isWs_bracket : isWs '[' = false ∧ isWs ']' = false := by decide

/-- a header line, trimmed, is `[name]` -/
theorem trim_header (ws1 name ws2 : Str) (h1 : AllWs ws1) (h2 : AllWs ws2) :
    trim (ws1 ++ ('[' :: name ++ [']']) ++ ws2) = '[' :: name ++ [']'] := by
  apply trim_pad _ _ _ h1 h2 (by simp)
  · intro c hc; simp at hc; subst hc; exact isWs_bracket.1
  · intro c hc
    rw [last_bracket] at hc; cases hc; exact isWs_bracket.2

theorem header_is_section (name : Str) :
    isSectionLine ('[' :: name ++ [']']) = true ∧ sectionName ('[' :: name ++ [']']) = name ∧
    ('[' :: name ++ [']']).isEmpty = false ∧ isComment ('[' :: name ++ [']']) = false := by
  refine ⟨by simp [isSectionLine, last_bracket_cons], ?_, by simp, by simp [isComment]⟩
  unfold sectionName
  simp

theorem piece_line_props (v : Str) (hv : PieceOk v) (tail : Str) :
    (v ++ tail).isEmpty = false ∧ isComment (v ++ tail) = false ∧ isSectionLine (v ++ tail) = false := by
  obtain ⟨c, t, rfl⟩ : ∃ c t, v = c :: t := by
    cases hve : v with
    | nil => exact absurd hve hv.1
    | cons c t => exact ⟨c, t, rfl⟩
  have h := hv.2.2.2 c (by simp)
  refine ⟨by simp, by simp [isComment, h.1, h.2.1], by simp [isSectionLine, h.2.2]⟩

/-- **the continuation loop over any number of continued lines**: started on a line `acc wsA \` (with `acc` ending in a
non-blank), followed by the middle pieces and the last piece, it returns `acc` with all pieces appended, no separator -/
theorem contLoop_chain (segs : List Seg) (hs : ∀ s ∈ segs, s.Ok) (acc wsA : Str) (hA : AllWs wsA)
    (hacc : ∀ c, acc.getLast? = some c → isWs c = false)
    (wsC vl wsD : Str) (hC : AllWs wsC) (hD : AllWs wsD) (hvl : PieceOk vl) (hnb : vl.getLast? ≠ some '\\')
    (rest : List Str) (ns : Str) (fuel : Nat) (hf : segs.length + 2 ≤ fuel) :
    contLoop fuel (acc ++ wsA ++ ['\\']) (segs.map Seg.line ++ (wsC ++ vl ++ wsD) :: rest) ns =
      (acc ++ (segs.map Seg.v).flatten ++ vl, rest, ns) := by
  induction segs generalizing acc wsA fuel with
  | nil =>
    obtain ⟨f, rfl⟩ : ∃ f, fuel = f + 2 := ⟨fuel - 2, by simp at hf; omega⟩
    have e2 : trim (wsC ++ vl ++ wsD) = vl := trim_pad _ _ _ hC hD hvl.1 hvl.2.1 hvl.2.2.1
    have pl := piece_line_props vl hvl []
    simp only [List.append_nil] at pl
    have := continuation_joins f (acc ++ wsA) (wsC ++ vl ++ wsD) rest ns
      (by rw [e2]; exact pl.1) (by rw [e2]; exact pl.2.1) (by rw [e2]; exact pl.2.2)
      (by rw [trimR_append_ws acc wsA hA hacc, e2, getLast?_append_ne _ _ hvl.1]; exact hnb)
    rw [trimR_append_ws acc wsA hA hacc, e2] at this
    simpa using this
  | cons s segs ih =>
    obtain ⟨f, rfl⟩ : ∃ f, fuel = f + 1 := ⟨fuel - 1, by simp at hf; omega⟩
    obtain ⟨hsC, hsA, hsB, hsv⟩ := hs s (by simp)
    have hl : (acc ++ wsA ++ ['\\']).getLast? = some '\\' := by simp
    have hd : (acc ++ wsA ++ ['\\']).dropLast = acc ++ wsA := by simp
    have core_last : ∀ c, (s.v ++ s.wsA ++ ['\\']).getLast? = some c → isWs c = false := by
      intro c hc; rw [List.getLast?_concat] at hc; cases hc; decide
    have core_head : ∀ c, (s.v ++ s.wsA ++ ['\\']).head? = some c → isWs c = false := by
      intro c hc
      cases hve : s.v with
      | nil => exact absurd hve hsv.1
      | cons a b => rw [hve] at hc; simp at hc; subst hc; exact hsv.2.1 a (by simp [hve])
    have e1 : trim s.line = s.v ++ s.wsA ++ ['\\'] :=
      trim_pad _ _ _ hsC hsB (by simp) core_head core_last
    have pl := piece_line_props s.v hsv (s.wsA ++ ['\\'])
    simp only [← List.append_assoc] at pl
    simp only [List.map_cons, List.cons_append, List.flatten_cons]
    rw [contLoop]
    simp only [hl, ne_eq, not_true_eq_false, if_false, hd, e1, pl.1, pl.2.1, pl.2.2, Bool.or_self, Bool.false_eq_true]
    rw [trimR_append_ws acc wsA hA hacc]
    have hacc' : ∀ c, (acc ++ s.v).getLast? = some c → isWs c = false := by
      intro c hc; rw [getLast?_append_ne _ _ hsv.1] at hc; exact hsv.2.2.1 c hc
    have := ih (fun x hx => hs x (by simp [hx])) (acc ++ s.v) s.wsA hsA hacc' f (by simp at hf; omega)
    simp only [List.append_assoc] at this ⊢
    exact this

/-- the part of an entry after the continuation loop: nothing to strip at the end, and `splitn(2, '=')` plus the
two trims give back key and value -/
theorem entry_tail (k ws2 ws3 v : Str) (h2 : AllWs ws2) (h3 : AllWs ws3)
    (hk : k ≠ [] ∧ '=' ∉ k ∧ (∀ c, k.head? = some c → isWs c = false) ∧ (∀ c, k.getLast? = some c → isWs c = false))
    (hv : v ≠ [] ∧ (∀ c, v.head? = some c → isWs c = false) ∧ (∀ c, v.getLast? = some c → isWs c = false))
    (hvl : v.getLast? ≠ some '\\') :
    ∃ p, splitEq (trimEndWsBackslash (k ++ ws2 ++ ['='] ++ ws3 ++ v)) = some p ∧ trim p.1 = k ∧ trim p.2 = v := by
  have core_last : (k ++ ws2 ++ ['='] ++ ws3 ++ v).getLast? = v.getLast? := getLast?_append_ne _ _ hv.1
  have e_trimEnd : trimEndWsBackslash (k ++ ws2 ++ ['='] ++ ws3 ++ v) = k ++ ws2 ++ ['='] ++ ws3 ++ v := by
    unfold trimEndWsBackslash
    obtain ⟨vl, hvl'⟩ : ∃ c, v.getLast? = some c := by
      cases hg : v.getLast? with
      | none => exact absurd (List.getLast?_eq_none_iff.mp hg) hv.1
      | some c => exact ⟨c, rfl⟩
    have hr : (k ++ ws2 ++ ['='] ++ ws3 ++ v).reverse.head? = some vl := by
      rw [List.head?_reverse, core_last, hvl']
    cases hrev : (k ++ ws2 ++ ['='] ++ ws3 ++ v).reverse with
    | nil => rw [hrev] at hr; cases hr
    | cons c t =>
      rw [hrev] at hr; simp at hr; subst hr
      have hcw : isWs c = false := hv.2.2 c hvl'
      have hcb : c ≠ '\\' := by intro h; apply hvl; rw [hvl', h]
      have : (c :: t).dropWhile (fun c => isWs c || c = '\\') = c :: t := by
        simp [List.dropWhile, hcw, hcb]
      rw [this, ← hrev, List.reverse_reverse]
  have e_split := entry_spacing k v [] ws2 ws3 []
    (by intro ws hws; simp at hws; rcases hws with h | h | h | h <;> subst h <;> first | assumption | (intro c hc; cases hc)) hk hv
  rw [e_trimEnd]
  cases hs : splitEq (k ++ ws2 ++ ['='] ++ ws3 ++ v) with
  | none => rw [hs] at e_split; simp at e_split
  | some p =>
    rw [hs] at e_split
    simp only [Option.map_some, Option.some.injEq, Prod.mk.injEq] at e_split
    exact ⟨p, rfl, e_split.1, e_split.2⟩

/-- **every line of a model text means what it says, whatever the layout**: parsing the lines of any
sequence of well-formed items — continued values included — is folding their meanings -/
theorem parse_items (items : List Item) (hok : ∀ i ∈ items, i.Ok) (sec : Str) (data : CfgData) (fuel : Nat)
    (hf : items.length ≤ fuel) :
    parseLines fuel (items.flatMap Item.lines) sec data = some (items.foldl Item.step (sec, data)).2 := by
  induction items generalizing sec data fuel with
  | nil => cases fuel <;> simp [parseLines]
  | cons it rest ih =>
    obtain ⟨f, rfl⟩ : ∃ f, fuel = f + 1 := ⟨fuel - 1, by simp at hf; omega⟩
    have hf' : rest.length ≤ f := by simp at hf; omega
    have hrest : ∀ i ∈ rest, i.Ok := fun i hi => hok i (by simp [hi])
    have hit := hok it (by simp)
    simp only [List.flatMap_cons, List.foldl_cons]
    cases it with
    | junk l =>
      have : ((trim l).isEmpty || isComment (trim l)) = true := by
        rcases hit with h | h <;> simp [h]
      simp only [parseLines, Item.lines, List.singleton_append, this, if_true, Item.step]
      exact ih hrest sec data f hf'
    | header ws1 name ws2 =>
      obtain ⟨h1, h2⟩ := hit
      obtain ⟨a, b, c, d⟩ := header_is_section name
      simp only [parseLines, Item.lines, List.singleton_append, trim_header ws1 name ws2 h1 h2, a, b, c, d, Bool.or_self,
        Bool.false_eq_true, if_false, if_true, Item.step]
      exact ih hrest name data f hf'
    | entry ws1 k ws2 ws3 v ws4 =>
      obtain ⟨h1, h2, h3, h4, hk, hv, hkh, hvl⟩ := hit
      obtain ⟨k0, kt, hk0⟩ : ∃ c t, k = c :: t := by
        cases hke : k with
        | nil => exact absurd hke hk.1
        | cons c t => exact ⟨c, t, rfl⟩
      have core_ne : k ++ ws2 ++ ['='] ++ ws3 ++ v ≠ [] := by simp [hk0]
      have core_head : ∀ c, (k ++ ws2 ++ ['='] ++ ws3 ++ v).head? = some c → isWs c = false := by
        intro c hc; simp [hk0] at hc; subst hc; exact hk.2.2.1 k0 (by simp [hk0])
      have core_last : (k ++ ws2 ++ ['='] ++ ws3 ++ v).getLast? = v.getLast? := getLast?_append_ne _ _ hv.1
      have core_last' : ∀ c, (k ++ ws2 ++ ['='] ++ ws3 ++ v).getLast? = some c → isWs c = false := by
        intro c hc; rw [core_last] at hc; exact hv.2.2 c hc
      have ht : trim (ws1 ++ (k ++ ws2 ++ ['='] ++ ws3 ++ v) ++ ws4) = k ++ ws2 ++ ['='] ++ ws3 ++ v :=
        trim_pad _ _ _ h1 h4 core_ne core_head core_last'
      have hk0' := hkh k0 (by simp [hk0])
      have e_empty : (k ++ ws2 ++ ['='] ++ ws3 ++ v).isEmpty = false := by simp [hk0]
      have e_comment : isComment (k ++ ws2 ++ ['='] ++ ws3 ++ v) = false := by
        simp [isComment, hk0, hk0'.1, hk0'.2.1]
      have e_section : isSectionLine (k ++ ws2 ++ ['='] ++ ws3 ++ v) = false := by
        simp [isSectionLine, hk0, hk0'.2.2]
      have e_cont : contLoop ((rest.flatMap Item.lines).length + 1) (k ++ ws2 ++ ['='] ++ ws3 ++ v) (rest.flatMap Item.lines) []
          = (k ++ ws2 ++ ['='] ++ ws3 ++ v, rest.flatMap Item.lines, []) := by
        rw [contLoop]; rw [if_pos (by rw [core_last]; exact hvl)]
      obtain ⟨p, hp, hp1, hp2⟩ := entry_tail k ws2 ws3 v h2 h3 hk hv hvl
      simp only [parseLines, Item.lines, List.singleton_append, ht, e_empty, e_comment, e_section, Bool.or_self,
        Bool.false_eq_true, if_false, e_cont, hp, hp1, hp2, Item.step, List.isEmpty_nil, if_true]
      exact ih hrest sec (addConfig data sec k v) f hf'
    | entryCont ws1 k ws2 ws3 v1 wsA wsB wsC v2 wsD =>
      obtain ⟨h1, h2, h3, hA, hB, hC, hD, hk, hv1, hv2, hkh, hv2h, hv2l⟩ := hit
      obtain ⟨k0, kt, hk0⟩ : ∃ c t, k = c :: t := by
        cases hke : k with
        | nil => exact absurd hke hk.1
        | cons c t => exact ⟨c, t, rfl⟩
      obtain ⟨c2, t2, hv20⟩ : ∃ c t, v2 = c :: t := by
        cases hve : v2 with
        | nil => exact absurd hve hv2.1
        | cons c t => exact ⟨c, t, rfl⟩
      -- the first physical line, trimmed
      have l1_head : ∀ c, ((k ++ ws2 ++ ['='] ++ ws3 ++ v1) ++ wsA ++ ['\\']).head? = some c → isWs c = false := by
        intro c hc; simp [hk0] at hc; subst hc; exact hk.2.2.1 k0 (by simp [hk0])
      have l1_last : ∀ c, ((k ++ ws2 ++ ['='] ++ ws3 ++ v1) ++ wsA ++ ['\\']).getLast? = some c → isWs c = false := by
        intro c hc; rw [List.getLast?_concat] at hc; cases hc; decide
      have ht : trim (ws1 ++ ((k ++ ws2 ++ ['='] ++ ws3 ++ v1) ++ wsA ++ ['\\']) ++ wsB)
          = (k ++ ws2 ++ ['='] ++ ws3 ++ v1) ++ wsA ++ ['\\'] :=
        trim_pad _ _ _ h1 hB (by simp) l1_head l1_last
      have hk0' := hkh k0 (by simp [hk0])
      have e_empty : ((k ++ ws2 ++ ['='] ++ ws3 ++ v1) ++ wsA ++ ['\\']).isEmpty = false := by simp [hk0]
      have e_comment : isComment ((k ++ ws2 ++ ['='] ++ ws3 ++ v1) ++ wsA ++ ['\\']) = false := by
        simp [isComment, hk0, hk0'.1, hk0'.2.1]
      have e_section : isSectionLine ((k ++ ws2 ++ ['='] ++ ws3 ++ v1) ++ wsA ++ ['\\']) = false := by
        simp [isSectionLine, hk0, hk0'.2.2]
      -- the continuation
      have core1_last : ∀ c, (k ++ ws2 ++ ['='] ++ ws3 ++ v1).getLast? = some c → isWs c = false := by
        intro c hc; rw [getLast?_append_ne _ _ hv1.1] at hc; exact hv1.2.2 c hc
      have e_trimR : trimR ((k ++ ws2 ++ ['='] ++ ws3 ++ v1) ++ wsA) = k ++ ws2 ++ ['='] ++ ws3 ++ v1 :=
        trimR_append_ws _ wsA hA core1_last
      have e_trim2 : trim (wsC ++ v2 ++ wsD) = v2 := trim_pad _ _ _ hC hD hv2.1 hv2.2.1 hv2.2.2
      have hc2 := hv2h c2 (by simp [hv20])
      have joined_last : (k ++ ws2 ++ ['='] ++ ws3 ++ v1 ++ v2).getLast? = v2.getLast? := getLast?_append_ne _ _ hv2.1
      have e_cont : contLoop (((wsC ++ v2 ++ wsD) :: rest.flatMap Item.lines).length + 1)
            ((k ++ ws2 ++ ['='] ++ ws3 ++ v1) ++ wsA ++ ['\\']) ((wsC ++ v2 ++ wsD) :: rest.flatMap Item.lines) []
          = (k ++ ws2 ++ ['='] ++ ws3 ++ v1 ++ v2, rest.flatMap Item.lines, []) := by
        have := continuation_joins (rest.flatMap Item.lines).length ((k ++ ws2 ++ ['='] ++ ws3 ++ v1) ++ wsA)
          (wsC ++ v2 ++ wsD) (rest.flatMap Item.lines) []
          (by rw [e_trim2]; simp [hv20])
          (by rw [e_trim2]; simp [isComment, hv20, hc2.1, hc2.2.1])
          (by rw [e_trim2]; simp [isSectionLine, hv20, hc2.2.2])
          (by rw [e_trimR, e_trim2, joined_last]; exact hv2l)
        rw [e_trimR, e_trim2] at this
        simpa using this
      -- key and value of the joined line
      have hv : (v1 ++ v2) ≠ [] ∧ (∀ c, (v1 ++ v2).head? = some c → isWs c = false) ∧
          (∀ c, (v1 ++ v2).getLast? = some c → isWs c = false) := by
        refine ⟨by simp [hv20], ?_, ?_⟩
        · intro c hc
          cases hv1e : v1 with
          | nil => exact absurd hv1e hv1.1
          | cons a b => rw [hv1e] at hc; simp at hc; subst hc; exact hv1.2.1 a (by simp [hv1e])
        · intro c hc; rw [getLast?_append_ne _ _ hv2.1] at hc; exact hv2.2.2 c hc
      have hvl : (v1 ++ v2).getLast? ≠ some '\\' := by rw [getLast?_append_ne _ _ hv2.1]; exact hv2l
      obtain ⟨p, hp, hp1, hp2⟩ := entry_tail k ws2 ws3 (v1 ++ v2) h2 h3 hk hv hvl
      have hassoc : k ++ ws2 ++ ['='] ++ ws3 ++ v1 ++ v2 = k ++ ws2 ++ ['='] ++ ws3 ++ (v1 ++ v2) := by
        simp [List.append_assoc]
      rw [← hassoc] at hp
      simp only [parseLines, Item.lines, List.cons_append, List.nil_append, ht, e_empty, e_comment, e_section,
        Bool.or_self, Bool.false_eq_true, if_false, e_cont, hp, hp1, hp2, Item.step, List.isEmpty_nil, if_true]
      exact ih hrest sec (addConfig data sec k (v1 ++ v2)) f hf'
    | entryContN ws1 k ws2 ws3 v0 wsA wsB segs wsC vl wsD =>
      obtain ⟨h1, h2, h3, hA, hB, hC, hD, hk, hv0, hkh, hsegs, hvl, hvlb⟩ := hit
      obtain ⟨k0, kt, hk0⟩ : ∃ c t, k = c :: t := by
        cases hke : k with
        | nil => exact absurd hke hk.1
        | cons c t => exact ⟨c, t, rfl⟩
      have l1_head : ∀ c, ((k ++ ws2 ++ ['='] ++ ws3 ++ v0) ++ wsA ++ ['\\']).head? = some c → isWs c = false := by
        intro c hc; simp [hk0] at hc; subst hc; exact hk.2.2.1 k0 (by simp [hk0])
      have l1_last : ∀ c, ((k ++ ws2 ++ ['='] ++ ws3 ++ v0) ++ wsA ++ ['\\']).getLast? = some c → isWs c = false := by
        intro c hc; rw [List.getLast?_concat] at hc; cases hc; decide
      have ht : trim (ws1 ++ ((k ++ ws2 ++ ['='] ++ ws3 ++ v0) ++ wsA ++ ['\\']) ++ wsB)
          = (k ++ ws2 ++ ['='] ++ ws3 ++ v0) ++ wsA ++ ['\\'] :=
        trim_pad _ _ _ h1 hB (by simp) l1_head l1_last
      have hk0' := hkh k0 (by simp [hk0])
      have e_empty : ((k ++ ws2 ++ ['='] ++ ws3 ++ v0) ++ wsA ++ ['\\']).isEmpty = false := by simp [hk0]
      have e_comment : isComment ((k ++ ws2 ++ ['='] ++ ws3 ++ v0) ++ wsA ++ ['\\']) = false := by
        simp [isComment, hk0, hk0'.1, hk0'.2.1]
      have e_section : isSectionLine ((k ++ ws2 ++ ['='] ++ ws3 ++ v0) ++ wsA ++ ['\\']) = false := by
        simp [isSectionLine, hk0, hk0'.2.2]
      have core_last : ∀ c, (k ++ ws2 ++ ['='] ++ ws3 ++ v0).getLast? = some c → isWs c = false := by
        intro c hc; rw [getLast?_append_ne _ _ hv0.1] at hc; exact hv0.2.2 c hc
      have e_cont := contLoop_chain segs hsegs (k ++ ws2 ++ ['='] ++ ws3 ++ v0) wsA hA core_last wsC vl wsD hC hD hvl hvlb
        (rest.flatMap Item.lines) [] ((segs.map Seg.line ++ (wsC ++ vl ++ wsD) :: rest.flatMap Item.lines).length + 1)
        (by simp only [List.length_append, List.length_map, List.length_cons]; omega)
      -- key and value of the joined line
      have hvne : (v0 ++ (segs.map Seg.v).flatten ++ vl) ≠ [] := by
        intro h; exact hvl.1 (List.append_eq_nil_iff.mp h).2
      have hv : (v0 ++ (segs.map Seg.v).flatten ++ vl) ≠ [] ∧
          (∀ c, (v0 ++ (segs.map Seg.v).flatten ++ vl).head? = some c → isWs c = false) ∧
          (∀ c, (v0 ++ (segs.map Seg.v).flatten ++ vl).getLast? = some c → isWs c = false) := by
        refine ⟨hvne, ?_, ?_⟩
        · intro c hc
          cases hv0e : v0 with
          | nil => exact absurd hv0e hv0.1
          | cons a b => rw [hv0e] at hc; simp at hc; subst hc; exact hv0.2.1 a (by simp [hv0e])
        · intro c hc; rw [getLast?_append_ne _ _ hvl.1] at hc; exact hvl.2.2.1 c hc
      have hvlast : (v0 ++ (segs.map Seg.v).flatten ++ vl).getLast? ≠ some '\\' := by
        rw [getLast?_append_ne _ _ hvl.1]; exact hvlb
      obtain ⟨p, hp, hp1, hp2⟩ := entry_tail k ws2 ws3 (v0 ++ (segs.map Seg.v).flatten ++ vl) h2 h3 hk hv hvlast
      have hassoc : k ++ ws2 ++ ['='] ++ ws3 ++ v0 ++ (segs.map Seg.v).flatten ++ vl
          = k ++ ws2 ++ ['='] ++ ws3 ++ (v0 ++ (segs.map Seg.v).flatten ++ vl) := by
        simp [List.append_assoc]
      rw [← hassoc] at hp
      have hlines : (Item.entryContN ws1 k ws2 ws3 v0 wsA wsB segs wsC vl wsD).lines ++ rest.flatMap Item.lines =
          (ws1 ++ ((k ++ ws2 ++ ['='] ++ ws3 ++ v0) ++ wsA ++ ['\\']) ++ wsB) ::
            (segs.map Seg.line ++ (wsC ++ vl ++ wsD) :: rest.flatMap Item.lines) := by
        simp [Item.lines]
      rw [hlines]
      simp only [parseLines, ht, e_empty, e_comment, e_section,
        Bool.or_self, Bool.false_eq_true, if_false, e_cont, hp, hp1, hp2, Item.step, List.isEmpty_nil, if_true]
      exact ih hrest sec (addConfig data sec k (v0 ++ (segs.map Seg.v).flatten ++ vl)) f hf'

/-- what a line contributes, layout forgotten -/
def Item.content : Item → Option (Str ⊕ (Str × Str))
  | .junk _ => none
  | .header _ name _ => some (.inl name)
  | .entry _ k _ _ v _ => some (.inr (k, v))
  | .entryCont _ k _ _ v1 _ _ _ v2 _ => some (.inr (k, v1 ++ v2))
  | .entryContN _ k _ _ v0 _ _ segs _ vl _ => some (.inr (k, v0 ++ (segs.map Seg.v).flatten ++ vl))

def stepContent : Str × CfgData → Str ⊕ (Str × Str) → Str × CfgData
  | (_, d), .inl name => (name, d)
  | (sec, d), .inr (k, v) => (sec, addConfig d sec k v)

theorem fold_content (items : List Item) (st : Str × CfgData) :
    items.foldl Item.step st = (items.filterMap Item.content).foldl stepContent st := by
  induction items generalizing st with
  | nil => rfl
  | cons it rest ih =>
    obtain ⟨sec, d⟩ := st
    cases it <;> simp [List.filterMap_cons, Item.content, Item.step, stepContent, ih]

/-- **layout independence of a whole model text**: two line sequences that carry the same headers and entries in
the same order — blank lines, comment lines and every blank around brackets, keys, `=` and values apart — parse to
the same data. -/
theorem text_layout_independent (a b : List Item) (ha : ∀ i ∈ a, i.Ok) (hb : ∀ i ∈ b, i.Ok)
    (h : a.filterMap Item.content = b.filterMap Item.content) :
    parseLines (a.length + 1) (a.flatMap Item.lines) [] [] = parseLines (b.length + 1) (b.flatMap Item.lines) [] [] := by
  rw [parse_items a ha [] [] _ (by omega), parse_items b hb [] [] _ (by omega), fold_content, fold_content, h]

/-! #### from lines to the text itself -/

/-- lines joined by line feeds -/
def joinLines : List Str → Str
  | [] => []
  | [l] => l
  | l :: l2 :: ls => l ++ '\n' :: joinLines (l2 :: ls)

theorem go_line (cur l : Str) (h : '\n' ∉ l) : splitLines.go cur l = [cur.reverse ++ l] := by
  induction l generalizing cur with
  | nil => simp [splitLines.go]
  | cons c t ih =>
    have hc : c ≠ '\n' := by intro hh; apply h; simp [hh]
    have ht : '\n' ∉ t := by intro hh; apply h; simp [hh]
    simp only [splitLines.go, hc, if_false]
    rw [ih (c :: cur) ht]; simp

theorem go_line_nl (cur l rest : Str) (h : '\n' ∉ l) :
    splitLines.go cur (l ++ '\n' :: rest) = (cur.reverse ++ l) :: splitLines.go [] rest := by
  induction l generalizing cur with
  | nil => simp [splitLines.go]
  | cons c t ih =>
    have hc : c ≠ '\n' := by intro hh; apply h; simp [hh]
    have ht : '\n' ∉ t := by intro hh; apply h; simp [hh]
    simp only [List.cons_append, splitLines.go, hc, if_false]
    rw [ih (c :: cur) ht]; simp

/-- splitting the joined text gives the lines back -/
theorem splitLines_join (l : Str) (ls : List Str) (h : ∀ x ∈ l :: ls, '\n' ∉ x) :
    splitLines (joinLines (l :: ls)) = l :: ls := by
  unfold splitLines
  induction ls generalizing l with
  | nil => simpa [joinLines] using go_line [] l (h l (by simp))
  | cons l2 ls ih =>
    simp only [joinLines]
    rw [go_line_nl [] l _ (h l (by simp))]
    simp only [List.reverse_nil, List.nil_append, List.cons.injEq, true_and]
    exact ih l2 (fun x hx => h x (by simp at hx ⊢; exact Or.inr hx))

theorem splitLines_join_ne (lines : List Str) (hne : lines ≠ []) (h : ∀ x ∈ lines, '\n' ∉ x) :
    splitLines (joinLines lines) = lines := by
  cases lines with
  | nil => exact absurd rfl hne
  | cons l ls => exact splitLines_join l ls h

theorem lines_ne_nil (it : Item) : it.lines ≠ [] := by cases it <;> simp [Item.lines]

/-- `Config::parse` on the text of a sequence of well-formed items is the fold of their meanings -/
theorem parseConfig_items (it : Item) (items : List Item) (hok : ∀ i ∈ it :: items, i.Ok)
    (hnl : ∀ i ∈ it :: items, ∀ l ∈ i.lines, '\n' ∉ l) :
    parseConfig (joinLines ((it :: items).flatMap Item.lines)) = some ((it :: items).foldl Item.step ([], [])).2 := by
  unfold parseConfig
  rw [splitLines_join_ne _ (by simp [List.flatMap_cons, lines_ne_nil]) (by
    intro x hx
    obtain ⟨i, hi, hx⟩ := List.mem_flatMap.mp hx
    exact hnl i hi x hx)]
  exact parse_items (it :: items) hok [] [] _ (by
    simp only [List.length_cons, List.flatMap_cons, List.length_append]
    have h1 : 1 ≤ it.lines.length := by
      cases h : it.lines with
      | nil => exact absurd h (lines_ne_nil it)
      | cons a b => simp
    have h2 : items.length ≤ (items.flatMap Item.lines).length := by
      clear hok hnl h1
      induction items with
      | nil => simp
      | cons x xs ih =>
        simp only [List.length_cons, List.flatMap_cons, List.length_append]
        have : 1 ≤ x.lines.length := by
          cases h : x.lines with
          | nil => exact absurd h (lines_ne_nil x)
          | cons a b => simp
        omega
    omega)

/-- **layout independence, stated of the text**: two model texts that carry the same headers and entries in the same
order parse to the same data, whatever blank lines, comment lines and blanks they contain, and whether a value is
written on one line or continued on the next -/
theorem model_text_layout_independent (a : Item) (as : List Item) (b : Item) (bs : List Item)
    (ha : ∀ i ∈ a :: as, i.Ok) (hb : ∀ i ∈ b :: bs, i.Ok)
    (hna : ∀ i ∈ a :: as, ∀ l ∈ i.lines, '\n' ∉ l) (hnb : ∀ i ∈ b :: bs, ∀ l ∈ i.lines, '\n' ∉ l)
    (h : (a :: as).filterMap Item.content = (b :: bs).filterMap Item.content) :
    parseConfig (joinLines ((a :: as).flatMap Item.lines)) = parseConfig (joinLines ((b :: bs).flatMap Item.lines)) := by
  rw [parseConfig_items a as ha hna, parseConfig_items b bs hb hnb, fold_content, fold_content, h]

def demoTight : List Item :=
  [.header [] "request_definition".toList [], .entry [] "r".toList [' '] [' '] "sub, obj,act".toList []]
def demoLoose : List Item :=
  [.junk "# model".toList, .header "  ".toList "request_definition".toList " ".toList, .junk [],
   .entryCont " ".toList "r".toList [] "\t ".toList "sub, obj,".toList " ".toList "  ".toList "    ".toList "act".toList "  ".toList]

/-- non-vacuity: a request definition written tightly and written with comments, blank lines and blanks everywhere -/
example :
    parseLines (demoTight.length + 1) (demoTight.flatMap Item.lines) [] [] =
    parseLines (demoLoose.length + 1) (demoLoose.flatMap Item.lines) [] [] := by
  apply text_layout_independent
  · intro i hi
    simp only [demoTight, List.mem_cons, List.not_mem_nil, or_false] at hi
    rcases hi with rfl | rfl
    · exact ⟨by decide, by decide⟩
    · exact ⟨by decide, by decide, by decide, by decide, by decide, by decide, by decide, by decide⟩
  · intro i hi
    simp only [demoLoose, List.mem_cons, List.not_mem_nil, or_false] at hi
    rcases hi with rfl | rfl | rfl | rfl
    · exact Or.inr (by decide)
    · exact ⟨by decide, by decide⟩
    · exact Or.inl (by decide)
    · exact ⟨by decide, by decide, by decide, by decide, by decide, by decide, by decide, by decide, by decide, by decide,
        by decide, by decide, by decide⟩
  · decide

/-- the same two layouts as texts -/
example : joinLines (demoLoose.flatMap Item.lines) = "# model\n  [request_definition] \n\n r=\t sub, obj, \\  \n    act  ".toList := by decide
example : parseConfig "[request_definition]\nr = sub, obj,act".toList =
    parseConfig "# model\n  [request_definition] \n\n r=\t sub, obj, \\  \n    act  ".toList := by decide +kernel


/-- non-vacuity for values continued over several lines: a matcher written on one line and written on three -/
def demoM1 : List Item :=
  [.header [] "matchers".toList [], .entry [] "m".toList [' '] [' '] "r.sub == p.sub &&r.obj == p.obj &&r.act == p.act".toList []]
def demoM3 : List Item :=
  [.header [] "matchers".toList [],
   .entryContN [] "m".toList [' '] [' '] "r.sub == p.sub &&".toList [' '] []
     [⟨"    ".toList, "r.obj == p.obj &&".toList, [' '], [' ']⟩] "    ".toList "r.act == p.act".toList []]

example :
    parseLines (demoM1.length + 1) (demoM1.flatMap Item.lines) [] [] =
    parseLines (demoM3.length + 1) (demoM3.flatMap Item.lines) [] [] := by
  apply text_layout_independent
  · intro i hi
    simp only [demoM1, List.mem_cons, List.not_mem_nil, or_false] at hi
    rcases hi with rfl | rfl
    · exact ⟨by decide, by decide⟩
    · exact ⟨by decide, by decide, by decide, by decide, by decide, by decide, by decide, by decide⟩
  · intro i hi
    simp only [demoM3, List.mem_cons, List.not_mem_nil, or_false] at hi
    rcases hi with rfl | rfl
    · exact ⟨by decide, by decide⟩
    · refine ⟨by decide, by decide, by decide, by decide, by decide, by decide, by decide, by decide, by decide, by decide,
        ?_, ⟨by decide, by decide, by decide, by decide⟩, by decide⟩
      intro s hs
      simp only [List.mem_cons, List.not_mem_nil, or_false] at hs
      subst hs
      exact ⟨by decide, by decide, by decide, by decide, by decide, by decide, by decide⟩
  · decide

example : joinLines (demoM3.flatMap Item.lines) = "[matchers]\nm = r.sub == p.sub && \\\n    r.obj == p.obj && \\ \n    r.act == p.act".toList := by decide

end Casbin.C16
