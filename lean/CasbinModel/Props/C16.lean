import CasbinModel.Props.C09
import CasbinModel.Config
/-!
# C16 — Model and policy text formats round-trip   (*partial*)

* **Policy lines**: whatever blanks surround a value, and whether or not a comma-free value
  is quoted, a line parses to the same rule (`csv_layout_independent`; together with C09's
  `parse_render` for what `save_policy` writes).  Comment and blank lines are skipped by the
  line loaders (`comment_lines_skipped`).
* **Model text**: blank and comment lines anywhere between entries, and blanks around the
  key, the `=` and the value, do not change what `Config::parse` stores
  (`junk_lines_skipped`, `entry_spacing`).
* **Totality**: every function of the text models is a total Lean function without a
  panic value — the crate's parsers take no indexing or slicing step that the model had to
  guard; the crate itself is fuzzed on every run.

Not mechanised: continuation lines and trailing comments for whole model texts, and
`to_text` (HashMap-ordered token replacement) — covered by the differential run.
-/
namespace Casbin.C16
open Casbin

/-- a column as it may be written: blanks, the value (quoted or — if comma-free — bare), blanks -/
def looseCol (ws1 : Str) (f : Str) (quoted : Bool) (ws2 : Str) : Str :=
  ws1 ++ (if quoted then '"' :: f ++ ['"'] else f) ++ ws2

theorem ws_all (ws : Str) (h : ∀ c ∈ ws, isWs c = true) : ∀ c ∈ ws, (decide (c ≠ ',')) = true := ws_no_comma h

/-- the column regex matches exactly the loosely written column -/
theorem colMatch_looseCol (ws1 f ws2 rest : Str) (quoted : Bool) (h1 : ∀ c ∈ ws1, isWs c = true)
    (h2 : ∀ c ∈ ws2, isWs c = true) (hf : SafeField f) (hq : ',' ∈ f → quoted = true) (hr : AtSep rest) :
    colMatch (looseCol ws1 f quoted ws2 ++ rest) = (looseCol ws1 f quoted ws2, rest) := by
  obtain ⟨c0, t0, hf0⟩ : ∃ c t, f = c :: t := by
    cases hfe : f with
    | nil => exact absurd hfe hf.ne
    | cons c t => exact ⟨c, t, rfl⟩
  have hc0ws : isWs c0 = false := hf.headNotWs c0 (by simp [hf0])
  have hc0q : c0 ≠ '"' := by intro h; apply hf.noQuote; rw [hf0, h]; simp
  unfold looseCol
  cases quoted with
  | true =>
    simp only [if_true]
    unfold colMatch
    have e1 : (ws1 ++ ('"' :: f ++ ['"']) ++ ws2 ++ rest).dropWhile isWs = '"' :: (f ++ '"' :: (ws2 ++ rest)) := by
      rw [List.append_assoc, List.append_assoc, dw_append isWs ws1 _ h1]
      simp [List.dropWhile, isWs]
    have e2 : (ws1 ++ ('"' :: f ++ ['"']) ++ ws2 ++ rest).takeWhile isWs = ws1 := by
      rw [List.append_assoc, List.append_assoc, tw_append isWs ws1 _ h1]
      simp [List.takeWhile, isWs]
    simp only [e1, e2]
    have hqq : ∀ x ∈ f, (decide (x ≠ '"')) = true := by
      intro x hx; simp only [decide_eq_true_eq]; intro h; subst h; exact hf.noQuote hx
    have e3 : (f ++ '"' :: (ws2 ++ rest)).takeWhile (· ≠ '"') = f := by
      rw [tw_append _ f _ hqq]; simp [List.takeWhile]
    have e4 : (f ++ '"' :: (ws2 ++ rest)).dropWhile (· ≠ '"') = '"' :: (ws2 ++ rest) := by
      rw [dw_append _ f _ hqq]; simp [List.dropWhile]
    simp only [e3, e4]
    rw [tw_append isWs ws2 _ h2, dw_append isWs ws2 _ h2, tw_ws_atSep hr, dw_ws_atSep hr]
    simp
  | false =>
    have hnc : ',' ∉ f := fun h => by have := hq h; cases this
    simp only [Bool.false_eq_true, if_false]
    unfold colMatch
    have e1 : (ws1 ++ f ++ ws2 ++ rest).dropWhile isWs = c0 :: (t0 ++ ws2 ++ rest) := by
      rw [List.append_assoc, List.append_assoc, dw_append isWs ws1 _ h1, hf0]
      simp [List.dropWhile, hc0ws]
    simp only [e1]
    have hall : ∀ x ∈ ws1 ++ f ++ ws2, (decide (x ≠ ',')) = true := by
      intro x hx
      simp only [List.mem_append] at hx
      rcases hx with (h | h) | h
      · exact ws_no_comma h1 x h
      · simp only [decide_eq_true_eq]; intro hh; subst hh; exact hnc h
      · exact ws_no_comma h2 x h
    have e5 : (ws1 ++ f ++ ws2 ++ rest).takeWhile (· ≠ ',') = ws1 ++ f ++ ws2 := by
      rw [tw_append _ (ws1 ++ f ++ ws2) _ hall, tw_ne_comma_atSep hr]; simp
    have e6 : (ws1 ++ f ++ ws2 ++ rest).dropWhile (· ≠ ',') = rest := by
      rw [dw_append _ (ws1 ++ f ++ ws2) _ hall, dw_ne_comma_atSep hr]
    split
    · rename_i t heq
      simp only [List.cons.injEq] at heq
      exact absurd heq.1 hc0q
    · rw [e5, e6]

theorem trimR_append_ws (s ws : Str) (h : ∀ c ∈ ws, isWs c = true) (hl : ∀ c, s.getLast? = some c → isWs c = false) :
    trimR (s ++ ws) = s := by
  unfold trimR
  rw [List.reverse_append, dw_append isWs ws.reverse _ (by intro c hc; exact h c (List.mem_reverse.mp hc))]
  have := trimR_of_last hl
  unfold trimR at this
  exact this

/-- trimming and unquoting a loosely written column gives back the value -/
theorem unquote_trim_looseCol (ws1 f ws2 : Str) (quoted : Bool) (h1 : ∀ c ∈ ws1, isWs c = true)
    (h2 : ∀ c ∈ ws2, isWs c = true) (hf : SafeField f) : unquote (trim (looseCol ws1 f quoted ws2)) = f := by
  unfold looseCol trim
  cases quoted with
  | true =>
    simp only [if_true]
    have hcomma_free_or_not : True := trivial
    have e1 : trimL (ws1 ++ ('"' :: f ++ ['"']) ++ ws2) = ('"' :: f ++ ['"']) ++ ws2 := by
      unfold trimL
      rw [List.append_assoc, dw_append isWs ws1 _ h1]
      simp [List.dropWhile, isWs]
    rw [e1, trimR_append_ws _ ws2 h2 (by intro c hc; rw [getLast?_quoted] at hc; cases hc; decide)]
    unfold unquote
    have g1 : ('"' :: f ++ ['"']).length ≥ 2 := by simp
    have g2 : ('"' :: f ++ ['"']).head? = some '"' := rfl
    have g3 : ('"' :: f ++ ['"']).getLast? = some '"' := getLast?_quoted f
    simp only [g1, g2, g3, decide_true, Bool.and_self, if_true]
    simp
  | false =>
    simp only [Bool.false_eq_true, if_false]
    have e1 : trimL (ws1 ++ f ++ ws2) = f ++ ws2 := by
      unfold trimL
      rw [List.append_assoc, dw_append isWs ws1 _ h1]
      cases hfe : f with
      | nil => exact absurd hfe hf.ne
      | cons c t => simp [List.dropWhile, hf.headNotWs c (by simp [hfe])]
    rw [e1, trimR_append_ws _ ws2 h2 hf.lastNotWs]
    unfold unquote
    have : f.head? ≠ some '"' := by
      intro h
      cases f with
      | nil => cases h
      | cons c t => simp at h; subst h; exact hf.noQuote (by simp)
    simp [this]

/-- a loosely written column behaves like a raw column in the `find_iter` iteration -/
theorem goodCol_looseCol (ws1 f ws2 : Str) (quoted : Bool) (h1 : ∀ c ∈ ws1, isWs c = true)
    (h2 : ∀ c ∈ ws2, isWs c = true) (hf : SafeField f) (hq : ',' ∈ f → quoted = true) :
    GoodCol (looseCol ws1 f quoted ws2) := by
  refine ⟨?_, fun rest hr => colMatch_looseCol ws1 f ws2 rest quoted h1 h2 hf hq hr⟩
  unfold looseCol
  intro h
  cases quoted
  · have : f = [] := by
      simp only [Bool.false_eq_true, if_false, List.append_eq_nil_iff] at h
      exact h.1.2
    exact hf.ne this
  · simp at h

/-- one written column: blanks, value, quoting flag, blanks -/
structure Col where
  ws1 : Str
  f : Str
  quoted : Bool
  ws2 : Str

def Col.text (c : Col) : Str := looseCol c.ws1 c.f c.quoted c.ws2
def Col.Ok (c : Col) : Prop :=
  (∀ x ∈ c.ws1, isWs x = true) ∧ (∀ x ∈ c.ws2, isWs x = true) ∧ SafeField c.f ∧ (',' ∈ c.f → c.quoted = true)

/-- **CSV layout independence**: the columns of a line written with arbitrary blanks and
optional quoting are exactly the values (the line being already trimmed, as
`parse_csv_line` does first). -/
theorem csv_layout_independent (cols : List Col) (hne : cols ≠ []) (hok : ∀ c ∈ cols, c.Ok) :
    (csvCols (2 * (joinWith [','] (cols.map Col.text)).length + 3) (joinWith [','] (cols.map Col.text)) false).map
        (fun c => unquote (trim c)) = cols.map (·.f) := by
  have hg : ∀ c ∈ cols.map Col.text, GoodCol c := by
    intro c hc
    obtain ⟨x, hx, rfl⟩ := List.mem_map.mp hc
    obtain ⟨a, b, c', d⟩ := hok x hx
    exact goodCol_looseCol _ _ _ _ a b c' d
  have hne' : cols.map Col.text ≠ [] := by simpa using hne
  have hlen := length_joinWith_ge (cols.map Col.text) (fun c hc => (hg c hc).1)
  rw [(csvCols_join (cols.map Col.text) hg _ (by omega)).1 hne', List.map_map]
  apply List.map_congr_left
  intro x hx
  obtain ⟨a, b, c', _⟩ := hok x hx
  exact unquote_trim_looseCol _ _ _ _ a b c'

/-- comment and blank lines never become rules (string_adapter.rs:226-230, file_adapter.rs:235-239) -/
theorem comment_lines_skipped (line : Str) (h : (trim line).isEmpty = true ∨ (trim line).head? = some '#') :
    parseCsvLine line = none := by
  unfold parseCsvLine
  rcases h with h | h <;> simp [h]

/-! ### model text -/

def IsJunk (l : Str) : Prop := (trim l).isEmpty = true ∨ isComment (trim l) = true

/-- **blank and comment lines are skipped** wherever they stand between entries -/
theorem junk_lines_skipped (junk : List Str) (hj : ∀ l ∈ junk, IsJunk l) (rest : List Str) (sec : Str)
    (data : CfgData) (fuel : Nat) :
    parseLines (fuel + junk.length) (junk ++ rest) sec data = parseLines fuel rest sec data := by
  induction junk with
  | nil => rfl
  | cons l ls ih =>
    have hl := hj l (by simp)
    have e : fuel + (l :: ls).length = (fuel + ls.length) + 1 := by simp; omega
    rw [e]
    simp only [List.cons_append, parseLines]
    have : ((trim l).isEmpty || isComment (trim l)) = true := by
      rcases hl with h | h <;> simp [h]
    simp only [this, if_true]
    exact ih (fun x hx => hj x (by simp [hx]))

/-- blanks around the key, the `=` and the value do not matter -/
theorem entry_spacing (k v ws1 ws2 ws3 ws4 : Str) (hws : ∀ ws ∈ [ws1, ws2, ws3, ws4], ∀ c ∈ ws, isWs c = true)
    (hk : k ≠ [] ∧ '=' ∉ k ∧ (∀ c, k.head? = some c → isWs c = false) ∧ (∀ c, k.getLast? = some c → isWs c = false))
    (hv : v ≠ [] ∧ (∀ c, v.head? = some c → isWs c = false) ∧ (∀ c, v.getLast? = some c → isWs c = false)) :
    (splitEq (k ++ ws2 ++ ['='] ++ ws3 ++ v)).map (fun p => (trim p.1, trim p.2)) = some (k, v) := by
  have h2 := hws ws2 (by simp)
  have h3 := hws ws3 (by simp)
  have hnoeq : ∀ x ∈ k ++ ws2, (decide (x ≠ '=')) = true := by
    intro x hx
    rcases List.mem_append.mp hx with h | h
    · simp only [decide_eq_true_eq]; intro hh; subst hh; exact hk.2.1 h
    · have := h2 x h
      simp only [isWs, Bool.or_eq_true, decide_eq_true_eq] at this
      rcases this with ((a | a) | a) | a <;> subst a <;> decide
  have hmem : '=' ∈ k ++ ws2 ++ ['='] ++ ws3 ++ v := by simp
  unfold splitEq
  simp only [hmem, if_true, Option.map_some, Option.some.injEq, Prod.mk.injEq]
  have e1 : (k ++ ws2 ++ ['='] ++ ws3 ++ v).takeWhile (· ≠ '=') = k ++ ws2 := by
    rw [List.append_assoc (k ++ ws2), List.append_assoc (k ++ ws2), tw_append _ (k ++ ws2) _ hnoeq]
    simp [List.takeWhile]
  have e2 : ((k ++ ws2 ++ ['='] ++ ws3 ++ v).dropWhile (· ≠ '=')).drop 1 = ws3 ++ v := by
    rw [List.append_assoc (k ++ ws2), List.append_assoc (k ++ ws2), dw_append _ (k ++ ws2) _ hnoeq]
    simp [List.dropWhile]
  rw [e1, e2]
  constructor
  · unfold trim; rw [trimL_of_head (by intro c hc; cases hk' : k with
      | nil => exact absurd hk' hk.1
      | cons a b => rw [hk'] at hc; simp at hc; subst hc; exact hk.2.2.1 a (by simp [hk'])),
      trimR_append_ws k ws2 h2 hk.2.2.2]
  · unfold trim
    have : trimL (ws3 ++ v) = v := by
      unfold trimL; rw [dw_append isWs ws3 _ h3]; exact trimL_of_head hv.2.1
    rw [this, trimR_of_last hv.2.2]

/-- **a continuation line is appended to the value**: a line ending in a backslash is joined with the next
line — backslash dropped, blanks before it and around the next line removed, no separator inserted — wherever
the next line is an ordinary one (not blank, not a comment, not a section header) -/
theorem continuation_joins (f : Nat) (a nxt : Str) (rest : List Str) (ns : Str)
    (h1 : (trim nxt).isEmpty = false) (h2 : isComment (trim nxt) = false) (h3 : isSectionLine (trim nxt) = false)
    (h4 : (trimR a ++ trim nxt).getLast? ≠ some '\\') :
    contLoop (f + 2) (a ++ ['\\']) (nxt :: rest) ns = (trimR a ++ trim nxt, rest, ns) := by
  have hl : (a ++ ['\\']).getLast? = some '\\' := by simp
  have hd : (a ++ ['\\']).dropLast = a := by simp
  rw [contLoop]
  simp only [hl, ne_eq, not_true_eq_false, if_false, hd, h1, h2, h3, Bool.or_self, Bool.false_eq_true]
  rw [contLoop]
  rw [if_pos h4]

/-- a blank or comment line right after a continued line is consumed and **ends the value** (the joined text so far, its
trailing backslash and blanks removed, no longer ends in a backslash): a comment or blank line is never part of a continued
value — the reference implementation's reading, pinned by `examples/testini.ini` (`multi5`); what follows is a new entry -/
theorem continuation_skips_junk (f : Nat) (a junk : Str) (rest : List Str) (ns : Str)
    (hj : (trim junk).isEmpty = true ∨ isComment (trim junk) = true) :
    contLoop (f + 1) (a ++ ['\\']) (junk :: rest) ns = contLoop f (trimR a) rest ns := by
  have hl : (a ++ ['\\']).getLast? = some '\\' := by simp
  have hd : (a ++ ['\\']).dropLast = a := by simp
  rw [contLoop]
  simp only [hl, ne_eq, not_true_eq_false, if_false, hd]
  rcases hj with h | h <;> simp [h]

/-! ### Non-vacuity and pinned boundaries -/
example : IsJunk "  # comment".toList := Or.inr (by decide)
example : parseConfig "[a]\n\n# c\nk = v\n".toList = parseConfig "[a]\nk=v".toList := by decide +kernel
/-- the shipped multi-line matcher layout parses like the single-line one (modulo the blanks a
continuation removes) -/
example : (parseConfig "[matchers]\nm = a && \\\n  b".toList) = some [("matchers".toList, [("m".toList, "a &&b".toList)])] := by
  decide +kernel
/-- boundary: a continuation inside a policy_effect value joins without a separator, which the
effector does not recognise (the layout grammar therefore splits matchers only) -/
example : (parseConfig "[policy_effect]\ne = some(where (p.eft == allow)) && \\\n !some(where (p.eft == deny))".toList)
    = some [("policy_effect".toList, [("e".toList, "some(where (p.eft == allow)) &&!some(where (p.eft == deny))".toList)])] := by
  decide +kernel
/-- regression for the repaired blank-after-closing-quote defect (F19) -/
example : parseCsvLine "p, \"a, b\" , c".toList = some ["p".toList, "a, b".toList, "c".toList] := by decide +kernel

/-! ### Trailing comments on definition lines -/

theorem takeWhile_append_hash (a c : Str) (ha : ∀ x ∈ a, x ≠ '#') :
    (a ++ '#' :: c).takeWhile (· ≠ '#') = a := by
  induction a with
  | nil => simp
  | cons x t ih =>
    have hx : x ≠ '#' := ha x (by simp)
    simp only [List.cons_append, List.takeWhile, hx, ne_eq, not_false_eq_true, decide_true]
    rw [ih (fun y hy => ha y (by simp [hy]))]

theorem takeWhile_no_hash (a : Str) (ha : ∀ x ∈ a, x ≠ '#') : a.takeWhile (· ≠ '#') = a := by
  induction a with
  | nil => rfl
  | cons x t ih =>
    have hx : x ≠ '#' := ha x (by simp)
    simp only [List.takeWhile, hx, ne_eq, not_false_eq_true, decide_true]
    rw [ih (fun y hy => ha y (by simp [hy]))]

theorem trimR_append_ws_gen (s ws : Str) (h : ∀ c ∈ ws, isWs c = true) : trimR (s ++ ws) = trimR s := by
  unfold trimR
  rw [List.reverse_append, dw_append isWs ws.reverse _ (by intro c hc; exact h c (List.mem_reverse.mp hc))]

/-- **a trailing comment does not change a definition**: whatever follows the first `#` on a definition line — more
`#`, `=`, commas — and any blanks before it are dropped; the assertion loaded (key, value, tokens) is the one of the
bare line -/
theorem trailing_comment_ignored (sec key v ws c : Str) (hv : ∀ x ∈ v, x ≠ '#') (hws : ∀ x ∈ ws, isWs x = true) :
    addDef sec key (v ++ ws ++ '#' :: c) = addDef sec key v := by
  have hvw : ∀ x ∈ v ++ ws, x ≠ '#' := by
    intro x hx
    rcases List.mem_append.mp hx with h | h
    · exact hv x h
    · intro he; subst he; have := hws '#' h; simp [isWs] at this
  have hrc : removeComment (v ++ ws ++ '#' :: c) = removeComment v := by
    unfold removeComment
    rw [takeWhile_append_hash (v ++ ws) c hvw, takeWhile_no_hash v hv, trimR_append_ws_gen v ws hws]
  unfold addDef
  simp only [hrc]

example : addDef "p".toList "p".toList "sub, obj, act   # see issue #12, a = b".toList = addDef "p".toList "p".toList "sub, obj, act".toList :=
  trailing_comment_ignored "p".toList "p".toList "sub, obj, act".toList "   ".toList " see issue #12, a = b".toList
    (by intro x hx; revert x; decide +kernel) (by intro x hx; revert x; decide +kernel)

/-- **blanks or a line end after a definition's value do not change it** - also when there is no comment to cut off (a
value handed to `Model::add_def` directly, as read from a prompt or a database column) -/
theorem trailing_blanks_ignored (sec key v ws : Str) (hv : ∀ x ∈ v, x ≠ '#') (hws : ∀ x ∈ ws, isWs x = true) :
    addDef sec key (v ++ ws) = addDef sec key v := by
  have hvw : ∀ x ∈ v ++ ws, x ≠ '#' := by
    intro x hx
    rcases List.mem_append.mp hx with h | h
    · exact hv x h
    · intro he; subst he; have := hws '#' h; simp [isWs] at this
  have hrc : removeComment (v ++ ws) = removeComment v := by
    unfold removeComment
    rw [takeWhile_no_hash (v ++ ws) hvw, takeWhile_no_hash v hv, trimR_append_ws_gen v ws hws]
  unfold addDef
  simp only [hrc]

example : addDef "e".toList "e".toList "some(where (p.eft == allow)) \n".toList =
    addDef "e".toList "e".toList "some(where (p.eft == allow))".toList :=
  trailing_blanks_ignored "e".toList "e".toList "some(where (p.eft == allow))".toList " \n".toList
    (by intro x hx; revert x; decide +kernel) (by intro x hx; revert x; decide +kernel)

end Casbin.C16
