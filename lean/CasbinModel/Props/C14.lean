import CasbinModel.Enforcer
import CasbinModel.Lemmas.Store
import CasbinModel.Lemmas.Batch
import CasbinModel.Lemmas.Load
import CasbinModel.Lemmas.Shape
import CasbinModel.Lemmas.AutoSave
/-!
# C14 — Change notifications are a faithful changelog

`log` is what the watcher received.  With notifications enabled (`autoNotify`, one handler
registered, watcher set) and the adapter not vetoing, each internal operation appends
exactly one event iff the store changed, carrying exactly the rules added / removed;
`clear_policy` and `save_policy` append exactly one.  Folding the delivered events into a
replica that equals the store yields the new store (`applyEvent`).  The number of
registered handlers is `1` when notifications are on and `0` when off, after any toggles.
-/
namespace Casbin.C14
open Casbin

/-- notifications are on and are delivered exactly once -/
structure Live (e : Enforcer) : Prop where
  notify : e.autoNotify = true
  one : e.callbacks = 1
  watcher : e.hasWatcher = true

theorem emit_live (e : Enforcer) (h : Live e) (ev : Event) : (e.emit ev).log = e.log ++ [ev] := by
  simp [Enforcer.emit, h.watcher, h.one]

/-- toggling establishes the handler-count invariant, whatever preceded (regression for F9) -/
theorem toggle_callbacks (e : Enforcer) (b : Bool) :
    (e.enableAutoNotify b).callbacks = (if b then 1 else 0) ∧ (e.enableAutoNotify b).autoNotify = b := by
  simp [Enforcer.enableAutoNotify]

theorem toggle_twice (e : Enforcer) : ((e.enableAutoNotify true).enableAutoNotify true).callbacks = 1 := by
  simp [Enforcer.enableAutoNotify]

/-- how a replica applies one event -/
def applyEvent (s : Store) : Event → Store
  | .addPolicy sec pt r => (s.addPolicy sec pt r).1
  | .addPolicies sec pt rs => rs.foldl (fun s r => (s.addPolicy sec pt r).1) s
  | .removePolicy sec pt r => (s.removePolicy sec pt r).1
  | .removePolicies sec pt rs => rs.foldl (fun s r => (s.removePolicy sec pt r).1) s
  | .removeFiltered sec pt rs => rs.foldl (fun s r => (s.removePolicy sec pt r).1) s
  | .savePolicy _ => s
  | .clearPolicy => s.clear

/-- the store and log after the model-side part of `add_policy_internal` -/
theorem add_notifies (e : Enforcer) (sec pt : String) (rule : Rule) (hs : e.autoSave = false) (hl : Live e) :
    let r := e.addPolicy sec pt rule
    let changed := (e.store.addPolicy sec pt rule).2
    r.1.store = (e.store.addPolicy sec pt rule).1 ∧
    r.1.log = e.log ++ (if changed then [Event.addPolicy sec pt rule] else []) := by
  simp only [Enforcer.addPolicy, hs, Bool.false_eq_true, if_false]
  have hlog : ∀ (x : Enforcer) (changed : Bool) (ret : Res),
      (x.linkUpdate changed sec pt true [rule] ret).1.store = x.store ∧
      (x.linkUpdate changed sec pt true [rule] ret).1.log = x.log := by
    intro x changed ret
    unfold Enforcer.linkUpdate
    split
    · exact ⟨rfl, rfl⟩
    · split
      · exact ⟨rfl, rfl⟩
      · split <;> exact ⟨rfl, rfl⟩
  cases hc : (e.store.addPolicy sec pt rule).2 with
  | false =>
    simp only [Bool.false_and, Bool.false_eq_true, if_false]
    rw [(hlog _ _ _).1, (hlog _ _ _).2]; simp
  | true =>
    simp only [hl.notify, Bool.and_self, if_true]
    rw [(hlog _ _ _).1, (hlog _ _ _).2]
    simp [Enforcer.emit, hl.watcher, hl.one]

theorem remove_notifies (e : Enforcer) (sec pt : String) (rule : Rule) (hs : e.autoSave = false) (hl : Live e) :
    let r := e.removePolicy sec pt rule
    let changed := (e.store.removePolicy sec pt rule).2
    r.1.store = (e.store.removePolicy sec pt rule).1 ∧
    r.1.log = e.log ++ (if changed then [Event.removePolicy sec pt rule] else []) := by
  simp only [Enforcer.removePolicy, hs, Bool.false_eq_true, if_false]
  have hlog : ∀ (x : Enforcer) (changed : Bool) (ret : Res),
      (x.linkUpdate changed sec pt false [rule] ret).1.store = x.store ∧
      (x.linkUpdate changed sec pt false [rule] ret).1.log = x.log := by
    intro x changed ret
    unfold Enforcer.linkUpdate
    split
    · exact ⟨rfl, rfl⟩
    · split
      · exact ⟨rfl, rfl⟩
      · split <;> exact ⟨rfl, rfl⟩
  cases hc : (e.store.removePolicy sec pt rule).2 with
  | false =>
    simp only [Bool.false_and, Bool.false_eq_true, if_false]
    rw [(hlog _ _ _).1, (hlog _ _ _).2]; simp
  | true =>
    simp only [hl.notify, Bool.and_self, if_true]
    rw [(hlog _ _ _).1, (hlog _ _ _).2]
    simp [Enforcer.emit, hl.watcher, hl.one]

/-- **Replica follows (single add / remove)**: folding the delivered events into a replica
equal to the store gives the new store. -/
theorem replica_follows_add (e : Enforcer) (sec pt : String) (rule : Rule) (hs : e.autoSave = false) (hl : Live e) :
    let r := e.addPolicy sec pt rule
    ((r.1.log.drop e.log.length).foldl applyEvent e.store).getPolicy = r.1.store.getPolicy := by
  obtain ⟨h1, h2⟩ := add_notifies e sec pt rule hs hl
  simp only at h1 h2 ⊢
  rw [h1, h2]
  simp only [List.drop_left]
  cases hc : (e.store.addPolicy sec pt rule).2 with
  | true => simp [applyEvent]
  | false =>
    simp only [Bool.false_eq_true, if_false, List.foldl]
    funext sec' pt'
    -- a call that reports no change left every rule list untouched (C04)
    unfold Store.addPolicy at hc ⊢
    cases hf : e.store.find sec pt with
    | none => simp [hf]
    | some d =>
      simp only [hf] at hc ⊢
      rw [Store.getPolicy_update e.store sec pt sec' pt' (fun pol => (OrdSet.add pol rule).1)]
      by_cases hne : sec = sec' ∧ pt = pt'
      · obtain ⟨a1, a2⟩ := hne; subst a1 a2
        simp only [and_self, if_true, hf]
        unfold OrdSet.add at hc ⊢
        by_cases hr : rule ∈ d.policy
        · simp [hr, Store.getPolicy, hf]
        · simp [hr] at hc
      · simp [hne]

/-- `clear_policy` and `save_policy` deliver exactly one notification (a clear, resp. a
snapshot of the stored policy), when the adapter call succeeds. -/
theorem save_notifies (e : Enforcer) (hl : Live e) (hf : e.adapter.filtered = false) (a : AdapterSt)
    (hok : e.adapter.save e.store = (a, some ())) :
    e.savePolicy.1.log = e.log ++ [Event.savePolicy (e.store.allOf "p" ++ e.store.allOf "g")] ∧
    e.savePolicy.1.store = e.store := by
  unfold Enforcer.savePolicy
  simp only [hf, Bool.false_eq_true, if_false, hok]
  simp [Enforcer.emit, hl.watcher, hl.one]

theorem clear_notifies (e : Enforcer) (hl : Live e) (hs : e.autoSave = false) (hb : e.autoBuild = false) :
    e.clearPolicy.1.log = e.log ++ [Event.clearPolicy] ∧ e.clearPolicy.1.store = e.store.clear := by
  unfold Enforcer.clearPolicy
  simp [hs, hb, Enforcer.emit, hl.watcher, hl.one]

/-! ### Batch and filtered operations -/

theorem linkUpdate_store_log (x : Enforcer) (changed : Bool) (sec pt : String) (ins : Bool) (rules : List Rule) (ret : Res) :
    (x.linkUpdate changed sec pt ins rules ret).1.store = x.store ∧
    (x.linkUpdate changed sec pt ins rules ret).1.log = x.log := by
  unfold Enforcer.linkUpdate
  split
  · exact ⟨rfl, rfl⟩
  · split
    · exact ⟨rfl, rfl⟩
    · split <;> exact ⟨rfl, rfl⟩

/-- a batch addition delivers one event carrying exactly the batch iff the store changed -/
theorem addPolicies_notifies (e : Enforcer) (sec pt : String) (rules : List Rule) (hs : e.autoSave = false) (hl : Live e) :
    let r := e.addPolicies sec pt rules
    let changed := (e.store.addPolicies sec pt rules).2
    r.1.store = (e.store.addPolicies sec pt rules).1 ∧
    r.1.log = e.log ++ (if changed then [Event.addPolicies sec pt rules] else []) := by
  simp only [Enforcer.addPolicies, hs, Bool.false_eq_true, if_false]
  cases hc : (e.store.addPolicies sec pt rules).2 with
  | false =>
    simp only [Bool.false_and, Bool.false_eq_true, if_false]
    rw [(linkUpdate_store_log _ _ _ _ _ _ _).1, (linkUpdate_store_log _ _ _ _ _ _ _).2]; simp
  | true =>
    simp only [hl.notify, Bool.and_self, if_true]
    rw [(linkUpdate_store_log _ _ _ _ _ _ _).1, (linkUpdate_store_log _ _ _ _ _ _ _).2]
    simp [Enforcer.emit, hl.watcher, hl.one]

theorem removePolicies_notifies (e : Enforcer) (sec pt : String) (rules : List Rule) (hs : e.autoSave = false) (hl : Live e) :
    let r := e.removePolicies sec pt rules
    let changed := (e.store.removePolicies sec pt rules).2
    r.1.store = (e.store.removePolicies sec pt rules).1 ∧
    r.1.log = e.log ++ (if changed then [Event.removePolicies sec pt rules] else []) := by
  simp only [Enforcer.removePolicies, hs, Bool.false_eq_true, if_false]
  cases hc : (e.store.removePolicies sec pt rules).2 with
  | false =>
    simp only [Bool.false_and, Bool.false_eq_true, if_false]
    rw [(linkUpdate_store_log _ _ _ _ _ _ _).1, (linkUpdate_store_log _ _ _ _ _ _ _).2]; simp
  | true =>
    simp only [hl.notify, Bool.and_self, if_true]
    rw [(linkUpdate_store_log _ _ _ _ _ _ _).1, (linkUpdate_store_log _ _ _ _ _ _ _).2]
    simp [Enforcer.emit, hl.watcher, hl.one]

/-- a filtered removal delivers one event carrying exactly the removed rules iff something was removed -/
theorem removeFiltered_notifies (e : Enforcer) (sec pt : String) (idx : Nat) (vals : List String)
    (hs : e.autoSave = false) (hl : Live e) :
    let r := e.removeFiltered sec pt idx vals
    let m := e.store.removeFiltered sec pt idx vals
    r.1.store = m.1 ∧
    r.1.log = e.log ++ (if m.2.1 then [Event.removeFiltered sec pt m.2.2] else []) := by
  simp only [Enforcer.removeFiltered, hs, Bool.false_eq_true, if_false]
  cases hc : (e.store.removeFiltered sec pt idx vals).2.1 with
  | false =>
    simp only [Bool.false_and, Bool.false_eq_true, if_false]
    rw [(linkUpdate_store_log _ _ _ _ _ _ _).1, (linkUpdate_store_log _ _ _ _ _ _ _).2]; simp
  | true =>
    simp only [hl.notify, Bool.and_self, if_true]
    rw [(linkUpdate_store_log _ _ _ _ _ _ _).1, (linkUpdate_store_log _ _ _ _ _ _ _).2]
    simp [Enforcer.emit, hl.watcher, hl.one]

/-- **Replica follows a batch addition**: applying the delivered batch rule by rule gives the new store
(and a call that reports no change delivers nothing and leaves the store alone) -/
theorem replica_follows_addPolicies (e : Enforcer) (sec pt : String) (rules : List Rule) (hs : e.autoSave = false) (hl : Live e) :
    let r := e.addPolicies sec pt rules
    ((r.1.log.drop e.log.length).foldl applyEvent e.store).getPolicy = r.1.store.getPolicy := by
  obtain ⟨h1, h2⟩ := addPolicies_notifies e sec pt rules hs hl
  simp only at h1 h2 ⊢
  rw [h1, h2]
  simp only [List.drop_left]
  funext sec' pt'
  unfold Store.addPolicies
  cases hf : e.store.find sec pt with
  | none => simp
  | some d =>
    simp only
    by_cases hany : rules.any (fun r => decide (r ∈ d.policy)) = true
    · simp [hany]
    · simp only [hany, Bool.false_eq_true, if_false, if_true, List.foldl_cons, List.foldl_nil, applyEvent]
      rw [Store.foldAdd_getPolicy, Store.getPolicy_update' e.store sec pt sec' pt' (fun pol => OrdSet.addAll pol rules)]

/-- **Replica follows a batch removal** -/
theorem replica_follows_removePolicies (e : Enforcer) (sec pt : String) (rules : List Rule) (hs : e.autoSave = false) (hl : Live e) :
    let r := e.removePolicies sec pt rules
    ((r.1.log.drop e.log.length).foldl applyEvent e.store).getPolicy = r.1.store.getPolicy := by
  obtain ⟨h1, h2⟩ := removePolicies_notifies e sec pt rules hs hl
  simp only at h1 h2 ⊢
  rw [h1, h2]
  simp only [List.drop_left]
  funext sec' pt'
  unfold Store.removePolicies
  cases hf : e.store.find sec pt with
  | none => simp
  | some d =>
    simp only
    by_cases hany : rules.any (fun r => decide (r ∉ d.policy)) = true
    · have hex : ∃ x, x ∈ rules ∧ ¬ x ∈ d.policy := by simpa using hany
      simp [hex]
    · simp only [hany, Bool.false_eq_true, if_false, if_true, List.foldl_cons, List.foldl_nil, applyEvent]
      rw [Store.foldRemove_getPolicy, Store.getPolicy_update' e.store sec pt sec' pt' (fun pol => OrdSet.removeAll pol rules)]

/-- **Replica follows a filtered removal**: removing the delivered rules one by one from a replica equal
to the (duplicate-free) store gives the new store -/
theorem replica_follows_removeFiltered (e : Enforcer) (sec pt : String) (idx : Nat) (vals : List String)
    (hs : e.autoSave = false) (hl : Live e) (hw : e.store.WF) :
    let r := e.removeFiltered sec pt idx vals
    ((r.1.log.drop e.log.length).foldl applyEvent e.store).getPolicy = r.1.store.getPolicy := by
  obtain ⟨h1, h2⟩ := removeFiltered_notifies e sec pt idx vals hs hl
  simp only at h1 h2 ⊢
  rw [h1, h2]
  simp only [List.drop_left]
  funext sec' pt'
  unfold Store.removeFiltered
  by_cases hv : vals.isEmpty = true
  · simp [hv]
  · simp only [hv, Bool.false_eq_true, if_false]
    cases hf : e.store.find sec pt with
    | none => simp
    | some d =>
      simp only
      by_cases hem : (d.policy.filter (filterMatch idx vals)).isEmpty = true
      · simp [hem]
      · simp only [hem, Bool.false_eq_true, if_false, if_true, List.foldl_cons, List.foldl_nil, applyEvent]
        rw [Store.foldRemove_getPolicy, Store.getPolicy_update' e.store sec pt sec' pt' (fun pol => pol.filter (fun r => !filterMatch idx vals r))]
        have hd : e.store.getPolicy sec pt = d.policy := by simp [Store.getPolicy, hf]
        have hnd : d.policy.Nodup := by have := hw sec pt; rwa [hd] at this
        rw [hd, OrdSet.removeAll_filter d.policy hnd]

/-- **Replica follows a single removal** -/
theorem replica_follows_remove (e : Enforcer) (sec pt : String) (rule : Rule) (hs : e.autoSave = false) (hl : Live e) :
    let r := e.removePolicy sec pt rule
    ((r.1.log.drop e.log.length).foldl applyEvent e.store).getPolicy = r.1.store.getPolicy := by
  obtain ⟨h1, h2⟩ := remove_notifies e sec pt rule hs hl
  simp only at h1 h2 ⊢
  rw [h1, h2]
  simp only [List.drop_left]
  cases hc : (e.store.removePolicy sec pt rule).2 with
  | true => simp [applyEvent]
  | false =>
    simp only [Bool.false_eq_true, if_false, List.foldl]
    funext sec' pt'
    rw [Store.removePolicy_getPolicy]
    split
    · rename_i hcond
      obtain ⟨a1, a2, a3⟩ := hcond; subst a1 a2
      -- no change reported: the rule was not stored
      unfold Store.removePolicy at hc
      cases hf : e.store.find sec pt with
      | none => rw [hf] at a3; cases a3
      | some d =>
        simp only [hf] at hc
        have hd : e.store.getPolicy sec pt = d.policy := by simp [Store.getPolicy, hf]
        rw [hd]
        have : rule ∉ d.policy := fun hin => by
          have := (OrdSet.remove_flag d.policy rule).mpr hin
          rw [hc] at this; cases this
        exact (OrdSet.remove_absent this).symm
    · rfl

/-! ### Every history: the replica that folds the changelog stays equal to the primary -/

/-- two stores hold the same rule lists under the same policy types -/
def SEq (s1 s2 : Store) : Prop :=
  (∀ sec pt, (s1.find sec pt).isSome = (s2.find sec pt).isSome) ∧ s1.getPolicy = s2.getPolicy

theorem SEq.refl (s : Store) : SEq s s := ⟨fun _ _ => rfl, rfl⟩
theorem SEq.trans {a b c : Store} (h1 : SEq a b) (h2 : SEq b c) : SEq a c :=
  ⟨fun sec pt => (h1.1 sec pt).trans (h2.1 sec pt), h1.2.trans h2.2⟩

theorem foldAdd_find (rules : List Rule) (s : Store) (sec pt sec' pt' : String) :
    ((rules.foldl (fun s r => (s.addPolicy sec pt r).1) s).find sec' pt').isSome = (s.find sec' pt').isSome := by
  induction rules generalizing s with
  | nil => rfl
  | cons r rs ih => simp only [List.foldl_cons]; rw [ih, Store.addPolicy_find]

theorem foldRemove_find (rules : List Rule) (s : Store) (sec pt sec' pt' : String) :
    ((rules.foldl (fun s r => (s.removePolicy sec pt r).1) s).find sec' pt').isSome = (s.find sec' pt').isSome := by
  induction rules generalizing s with
  | nil => rfl
  | cons r rs ih => simp only [List.foldl_cons]; rw [ih, Store.removePolicy_find]

/-- a replica applies an event the same way whatever its internal representation -/
theorem applyEvent_congr {s1 s2 : Store} (h : SEq s1 s2) (ev : Event) : SEq (applyEvent s1 ev) (applyEvent s2 ev) := by
  obtain ⟨hf, hg⟩ := h
  have hg' : ∀ sec pt, s1.getPolicy sec pt = s2.getPolicy sec pt := fun sec pt => by rw [hg]
  cases ev with
  | addPolicy sec pt r =>
    refine ⟨fun sec' pt' => ?_, ?_⟩
    · simp only [applyEvent]; rw [Store.addPolicy_find, Store.addPolicy_find, hf]
    · funext sec' pt'; simp only [applyEvent]; rw [Store.addPolicy_getPolicy, Store.addPolicy_getPolicy, hf, hg' sec pt, hg' sec' pt']
  | addPolicies sec pt rs =>
    refine ⟨fun sec' pt' => ?_, ?_⟩
    · simp only [applyEvent]; rw [foldAdd_find, foldAdd_find, hf]
    · funext sec' pt'; simp only [applyEvent]; rw [Store.foldAdd_getPolicy, Store.foldAdd_getPolicy, hf, hg' sec pt, hg' sec' pt']
  | removePolicy sec pt r =>
    refine ⟨fun sec' pt' => ?_, ?_⟩
    · simp only [applyEvent]; rw [Store.removePolicy_find, Store.removePolicy_find, hf]
    · funext sec' pt'; simp only [applyEvent]; rw [Store.removePolicy_getPolicy, Store.removePolicy_getPolicy, hf, hg' sec pt, hg' sec' pt']
  | removePolicies sec pt rs =>
    refine ⟨fun sec' pt' => ?_, ?_⟩
    · simp only [applyEvent]; rw [foldRemove_find, foldRemove_find, hf]
    · funext sec' pt'; simp only [applyEvent]; rw [Store.foldRemove_getPolicy, Store.foldRemove_getPolicy, hf, hg' sec pt, hg' sec' pt']
  | removeFiltered sec pt rs =>
    refine ⟨fun sec' pt' => ?_, ?_⟩
    · simp only [applyEvent]; rw [foldRemove_find, foldRemove_find, hf]
    · funext sec' pt'; simp only [applyEvent]; rw [Store.foldRemove_getPolicy, Store.foldRemove_getPolicy, hf, hg' sec pt, hg' sec' pt']
  | savePolicy _ => exact ⟨hf, hg⟩
  | clearPolicy =>
    refine ⟨fun sec' pt' => ?_, ?_⟩
    · simp only [applyEvent]; rw [find_clear, find_clear, hf]
    · funext sec' pt'; simp only [applyEvent]; rw [getPolicy_clear', getPolicy_clear']

theorem foldEvents_congr (evs : List Event) {s1 s2 : Store} (h : SEq s1 s2) :
    SEq (evs.foldl applyEvent s1) (evs.foldl applyEvent s2) := by
  induction evs generalizing s1 s2 with
  | nil => exact h
  | cons ev rest ih => exact ih (applyEvent_congr h ev)

theorem applyEvent_find (s : Store) (ev : Event) (sec pt : String) :
    ((applyEvent s ev).find sec pt).isSome = (s.find sec pt).isSome := by
  cases ev with
  | addPolicy sec' pt' r => simp only [applyEvent]; rw [Store.addPolicy_find]
  | addPolicies sec' pt' rs => simp only [applyEvent]; rw [foldAdd_find]
  | removePolicy sec' pt' r => simp only [applyEvent]; rw [Store.removePolicy_find]
  | removePolicies sec' pt' rs => simp only [applyEvent]; rw [foldRemove_find]
  | removeFiltered sec' pt' rs => simp only [applyEvent]; rw [foldRemove_find]
  | savePolicy _ => rfl
  | clearPolicy => simp only [applyEvent]; rw [find_clear]

theorem foldEvents_find (evs : List Event) (s : Store) (sec pt : String) :
    ((evs.foldl applyEvent s).find sec pt).isSome = (s.find sec pt).isSome := by
  induction evs generalizing s with
  | nil => rfl
  | cons ev rest ih => simp only [List.foldl_cons]; rw [ih, applyEvent_find]

/-- the five internal management calls -/
inductive NOp where
  | add (sec pt : String) (rule : Rule)
  | remove (sec pt : String) (rule : Rule)
  | addMany (sec pt : String) (rules : List Rule)
  | removeMany (sec pt : String) (rules : List Rule)
  | removeFiltered (sec pt : String) (idx : Nat) (vals : List String)

def NOp.run (e : Enforcer) : NOp → Enforcer
  | .add sec pt rule => (e.addPolicy sec pt rule).1
  | .remove sec pt rule => (e.removePolicy sec pt rule).1
  | .addMany sec pt rules => (e.addPolicies sec pt rules).1
  | .removeMany sec pt rules => (e.removePolicies sec pt rules).1
  | .removeFiltered sec pt idx vals => (e.removeFiltered sec pt idx vals).1

/-- the configuration carried along a history: adapter out of the way, notifications live, rule lists duplicate free -/
structure Ready (e : Enforcer) : Prop where
  save : e.autoSave = false
  live : Live e
  wf : e.store.WF

theorem linkUpdate_misc (x : Enforcer) (changed : Bool) (sec pt : String) (ins : Bool) (rules : List Rule) (ret : Res) :
    (x.linkUpdate changed sec pt ins rules ret).1.autoSave = x.autoSave ∧
    (x.linkUpdate changed sec pt ins rules ret).1.autoNotify = x.autoNotify ∧
    (x.linkUpdate changed sec pt ins rules ret).1.callbacks = x.callbacks ∧
    (x.linkUpdate changed sec pt ins rules ret).1.hasWatcher = x.hasWatcher := by
  unfold Enforcer.linkUpdate
  split
  · exact ⟨rfl, rfl, rfl, rfl⟩
  · split
    · exact ⟨rfl, rfl, rfl, rfl⟩
    · split <;> exact ⟨rfl, rfl, rfl, rfl⟩

theorem emit_misc (x : Enforcer) (ev : Event) :
    (x.emit ev).autoSave = x.autoSave ∧ (x.emit ev).autoNotify = x.autoNotify ∧
    (x.emit ev).callbacks = x.callbacks ∧ (x.emit ev).hasWatcher = x.hasWatcher := by
  unfold Enforcer.emit; split <;> exact ⟨rfl, rfl, rfl, rfl⟩

theorem run_misc (e : Enforcer) (hs : e.autoSave = false) (op : NOp) :
    (op.run e).autoSave = false ∧ (op.run e).autoNotify = e.autoNotify ∧
    (op.run e).callbacks = e.callbacks ∧ (op.run e).hasWatcher = e.hasWatcher := by
  cases op with
  | add sec pt rule =>
    simp only [NOp.run, Enforcer.addPolicy, hs, Bool.false_eq_true, if_false]
    rw [(linkUpdate_misc _ _ _ _ _ _ _).1, (linkUpdate_misc _ _ _ _ _ _ _).2.1, (linkUpdate_misc _ _ _ _ _ _ _).2.2.1, (linkUpdate_misc _ _ _ _ _ _ _).2.2.2]
    split
    · rw [(emit_misc _ _).1, (emit_misc _ _).2.1, (emit_misc _ _).2.2.1, (emit_misc _ _).2.2.2]; exact ⟨rfl, rfl, rfl, rfl⟩
    · exact ⟨rfl, rfl, rfl, rfl⟩
  | remove sec pt rule =>
    simp only [NOp.run, Enforcer.removePolicy, hs, Bool.false_eq_true, if_false]
    rw [(linkUpdate_misc _ _ _ _ _ _ _).1, (linkUpdate_misc _ _ _ _ _ _ _).2.1, (linkUpdate_misc _ _ _ _ _ _ _).2.2.1, (linkUpdate_misc _ _ _ _ _ _ _).2.2.2]
    split
    · rw [(emit_misc _ _).1, (emit_misc _ _).2.1, (emit_misc _ _).2.2.1, (emit_misc _ _).2.2.2]; exact ⟨rfl, rfl, rfl, rfl⟩
    · exact ⟨rfl, rfl, rfl, rfl⟩
  | addMany sec pt rules =>
    simp only [NOp.run, Enforcer.addPolicies, hs, Bool.false_eq_true, if_false]
    rw [(linkUpdate_misc _ _ _ _ _ _ _).1, (linkUpdate_misc _ _ _ _ _ _ _).2.1, (linkUpdate_misc _ _ _ _ _ _ _).2.2.1, (linkUpdate_misc _ _ _ _ _ _ _).2.2.2]
    split
    · rw [(emit_misc _ _).1, (emit_misc _ _).2.1, (emit_misc _ _).2.2.1, (emit_misc _ _).2.2.2]; exact ⟨rfl, rfl, rfl, rfl⟩
    · exact ⟨rfl, rfl, rfl, rfl⟩
  | removeMany sec pt rules =>
    simp only [NOp.run, Enforcer.removePolicies, hs, Bool.false_eq_true, if_false]
    rw [(linkUpdate_misc _ _ _ _ _ _ _).1, (linkUpdate_misc _ _ _ _ _ _ _).2.1, (linkUpdate_misc _ _ _ _ _ _ _).2.2.1, (linkUpdate_misc _ _ _ _ _ _ _).2.2.2]
    split
    · rw [(emit_misc _ _).1, (emit_misc _ _).2.1, (emit_misc _ _).2.2.1, (emit_misc _ _).2.2.2]; exact ⟨rfl, rfl, rfl, rfl⟩
    · exact ⟨rfl, rfl, rfl, rfl⟩
  | removeFiltered sec pt idx vals =>
    simp only [NOp.run, Enforcer.removeFiltered, hs, Bool.false_eq_true, if_false]
    rw [(linkUpdate_misc _ _ _ _ _ _ _).1, (linkUpdate_misc _ _ _ _ _ _ _).2.1, (linkUpdate_misc _ _ _ _ _ _ _).2.2.1, (linkUpdate_misc _ _ _ _ _ _ _).2.2.2]
    split
    · rw [(emit_misc _ _).1, (emit_misc _ _).2.1, (emit_misc _ _).2.2.1, (emit_misc _ _).2.2.2]; exact ⟨rfl, rfl, rfl, rfl⟩
    · exact ⟨rfl, rfl, rfl, rfl⟩

/-- one call: the log grows by the events delivered, and folding exactly those into a replica equal to the old store
gives the new store -/
theorem step_follows (e : Enforcer) (h : Ready e) (op : NOp) :
    ∃ evs, (op.run e).log = e.log ++ evs ∧ SEq (evs.foldl applyEvent e.store) (op.run e).store := by
  obtain ⟨hs, hl, hw⟩ := h
  -- the rule lists agree (the per-call theorems above); the policy types are those of the old store on both sides
  have key : ∀ (e' : Enforcer) (evs : List Event), e'.log = e.log ++ evs →
      ((e'.log.drop e.log.length).foldl applyEvent e.store).getPolicy = e'.store.getPolicy →
      (∀ sec pt, (e'.store.find sec pt).isSome = (e.store.find sec pt).isSome) →
      ∃ evs, e'.log = e.log ++ evs ∧ SEq (evs.foldl applyEvent e.store) e'.store := by
    intro e' evs hlog hget hfind
    refine ⟨evs, hlog, fun sec pt => ?_, ?_⟩
    · rw [foldEvents_find, hfind]
    · rw [hlog, List.drop_left] at hget; exact hget
  cases op with
  | add sec pt rule =>
    obtain ⟨h1, h2⟩ := add_notifies e sec pt rule hs hl
    exact key _ _ h2 (replica_follows_add e sec pt rule hs hl) (fun sec' pt' => by
      show ((e.addPolicy sec pt rule).1.store.find sec' pt').isSome = _
      rw [h1, Store.addPolicy_find])
  | remove sec pt rule =>
    obtain ⟨h1, h2⟩ := remove_notifies e sec pt rule hs hl
    exact key _ _ h2 (replica_follows_remove e sec pt rule hs hl) (fun sec' pt' => by
      show ((e.removePolicy sec pt rule).1.store.find sec' pt').isSome = _
      rw [h1, Store.removePolicy_find])
  | addMany sec pt rules =>
    obtain ⟨h1, h2⟩ := addPolicies_notifies e sec pt rules hs hl
    exact key _ _ h2 (replica_follows_addPolicies e sec pt rules hs hl) (fun sec' pt' => by
      show ((e.addPolicies sec pt rules).1.store.find sec' pt').isSome = _
      rw [h1]
      unfold Store.addPolicies
      cases e.store.find sec pt with
      | none => rfl
      | some d =>
        simp only
        split
        · rfl
        · exact Store.find_isSome_update e.store sec pt sec' pt' (fun pol => OrdSet.addAll pol rules))
  | removeMany sec pt rules =>
    obtain ⟨h1, h2⟩ := removePolicies_notifies e sec pt rules hs hl
    exact key _ _ h2 (replica_follows_removePolicies e sec pt rules hs hl) (fun sec' pt' => by
      show ((e.removePolicies sec pt rules).1.store.find sec' pt').isSome = _
      rw [h1]
      unfold Store.removePolicies
      cases e.store.find sec pt with
      | none => rfl
      | some d =>
        simp only
        split
        · rfl
        · exact Store.find_isSome_update e.store sec pt sec' pt' (fun pol => OrdSet.removeAll pol rules))
  | removeFiltered sec pt idx vals =>
    obtain ⟨h1, h2⟩ := removeFiltered_notifies e sec pt idx vals hs hl
    exact key _ _ h2 (replica_follows_removeFiltered e sec pt idx vals hs hl hw) (fun sec' pt' => by
      show ((e.removeFiltered sec pt idx vals).1.store.find sec' pt').isSome = _
      rw [h1]
      unfold Store.removeFiltered
      split
      · rfl
      · cases e.store.find sec pt with
        | none => rfl
        | some d =>
          simp only
          split
          · rfl
          · exact Store.find_isSome_update e.store sec pt sec' pt' (fun pol => pol.filter (fun r => !filterMatch idx vals r)))

/-- the rule lists stay duplicate free (they are what `OrdSet` operations leave) -/
theorem run_wf (e : Enforcer) (h : Ready e) (op : NOp) : (op.run e).store.WF := by
  obtain ⟨hs, hl, hw⟩ := h
  intro sec' pt'
  cases op with
  | add sec pt rule =>
    show ((e.addPolicy sec pt rule).1.store.getPolicy sec' pt').Nodup
    rw [(add_notifies e sec pt rule hs hl).1, Store.addPolicy_getPolicy]
    split
    · exact OrdSet.add_nodup (hw sec pt) rule
    · exact hw sec' pt'
  | remove sec pt rule =>
    show ((e.removePolicy sec pt rule).1.store.getPolicy sec' pt').Nodup
    rw [(remove_notifies e sec pt rule hs hl).1, Store.removePolicy_getPolicy]
    split
    · exact OrdSet.remove_nodup (hw sec pt) rule
    · exact hw sec' pt'
  | addMany sec pt rules =>
    show ((e.addPolicies sec pt rules).1.store.getPolicy sec' pt').Nodup
    rw [(addPolicies_notifies e sec pt rules hs hl).1]
    unfold Store.addPolicies
    cases e.store.find sec pt with
    | none => exact hw sec' pt'
    | some d =>
      simp only
      split
      · exact hw sec' pt'
      · rw [Store.getPolicy_update' e.store sec pt sec' pt' (fun pol => OrdSet.addAll pol rules)]
        split
        · exact OrdSet.addAll_nodup (hw sec pt) rules
        · exact hw sec' pt'
  | removeMany sec pt rules =>
    show ((e.removePolicies sec pt rules).1.store.getPolicy sec' pt').Nodup
    rw [(removePolicies_notifies e sec pt rules hs hl).1]
    unfold Store.removePolicies
    cases e.store.find sec pt with
    | none => exact hw sec' pt'
    | some d =>
      simp only
      split
      · exact hw sec' pt'
      · rw [Store.getPolicy_update' e.store sec pt sec' pt' (fun pol => OrdSet.removeAll pol rules)]
        split
        · exact OrdSet.removeAll_nodup (hw sec pt) rules
        · exact hw sec' pt'
  | removeFiltered sec pt idx vals =>
    show ((e.removeFiltered sec pt idx vals).1.store.getPolicy sec' pt').Nodup
    rw [(removeFiltered_notifies e sec pt idx vals hs hl).1]
    unfold Store.removeFiltered
    split
    · exact hw sec' pt'
    · cases e.store.find sec pt with
      | none => exact hw sec' pt'
      | some d =>
        simp only
        split
        · exact hw sec' pt'
        · rw [Store.getPolicy_update' e.store sec pt sec' pt' (fun pol => pol.filter (fun r => !filterMatch idx vals r))]
          split
          · exact (hw sec pt).filter _
          · exact hw sec' pt'

theorem run_ready (e : Enforcer) (h : Ready e) (op : NOp) : Ready (op.run e) := by
  obtain ⟨m1, m2, m3, m4⟩ := run_misc e h.save op
  exact ⟨m1, ⟨by rw [m2]; exact h.live.notify, by rw [m3]; exact h.live.one, by rw [m4]; exact h.live.watcher⟩, run_wf e h op⟩

/-- **the changelog is faithful over every history** of the five management calls (accepted, without effect, on
existing or unknown policy types): the watcher's log only grows, and a replica that started equal to the store and
applies exactly the events delivered since then holds, under every policy type, the rules the primary holds -/
theorem replica_history (ops : List NOp) (e : Enforcer) (h : Ready e) :
    ∃ evs, (ops.foldl NOp.run e).log = e.log ++ evs ∧
      SEq (evs.foldl applyEvent e.store) (ops.foldl NOp.run e).store := by
  induction ops generalizing e with
  | nil => exact ⟨[], by simp, SEq.refl _⟩
  | cons op ops ih =>
    obtain ⟨ev1, hl1, hs1⟩ := step_follows e h op
    obtain ⟨evs', hl2, hs2⟩ := ih (op.run e) (run_ready e h op)
    refine ⟨ev1 ++ evs', ?_, ?_⟩
    · simp only [List.foldl_cons]; rw [hl2, hl1, List.append_assoc]
    · simp only [List.foldl_cons, List.foldl_append]
      exact SEq.trans (foldEvents_congr evs' hs1) hs2

/-- when the adapter vetoes, nothing is delivered -/
theorem rejected_add_silent (e : Enforcer) (sec pt : String) (rule : Rule) (hs : e.autoSave = true)
    (f : Fault) (rest : List Fault) (hp : e.adapter.plan = f :: rest) (hf : f = .err ∨ f = .refuse) :
    (e.addPolicy sec pt rule).1.log = e.log := by
  unfold Enforcer.addPolicy
  simp only [hs, if_true]
  rcases hf with h | h <;> subst h <;> simp [AdapterSt.addPolicy, AdapterSt.nextFault, hp]

/-! ### Non-vacuity -/
def demo : Enforcer :=
  { defs := ⟨[], [], []⟩, store := ⟨[{ key := "p", tokens := [], arity := 0, policy := [] }], []⟩,
    adapter := AdapterSt.mk0 .null, rm := RoleMgr.new 10, enabled := true, autoSave := false, autoBuild := true,
    autoNotify := true, callbacks := 1, hasWatcher := true, gfuncs := [], userFns := [], log := [] }
example : Live demo := ⟨rfl, rfl, rfl⟩
example : (demo.addPolicy "p" "p" ["a"]).1.log = [Event.addPolicy "p" "p" ["a"]] := by decide
example : ((demo.addPolicy "p" "p" ["a"]).1.addPolicy "p" "p" ["a"]).1.log = [Event.addPolicy "p" "p" ["a"]] := by decide

/-- the history theorem's premise holds of a concrete enforcer -/
theorem demo_ready : Ready demo := by
  refine ⟨rfl, ⟨rfl, rfl, rfl⟩, ?_⟩
  intro sec pt
  have : demo.store.getPolicy sec pt = [] := by
    unfold Store.getPolicy Store.find Store.sec
    simp only [demo]
    by_cases h1 : sec = "p"
    · simp only [h1, if_true]
      by_cases h2 : "p" = pt
      · simp [List.find?, h2]
      · simp [List.find?, h2]
    · by_cases h2 : sec = "g"
      · simp [h1, h2]
      · simp [h1, h2]
  rw [this]; exact List.nodup_nil
example : ∃ evs, ([NOp.add "p" "p" ["a"], .removeMany "p" "p" [["a"]]].foldl NOp.run demo).log = demo.log ++ evs ∧
    SEq (evs.foldl applyEvent demo.store) ([NOp.add "p" "p" ["a"], .removeMany "p" "p" [["a"]]].foldl NOp.run demo).store :=
  replica_history _ demo demo_ready

/-! ### Histories that also clear and save -/

/-- a management call, a `clear_policy`, or a `save_policy` (whatever the adapter answers) -/
inductive WOp where
  | mgmt (op : NOp)
  | clear
  | save

def WOp.run (e : Enforcer) : WOp → Enforcer
  | .mgmt op => op.run e
  | .clear => e.clearPolicy.1
  | .save => e.savePolicy.1

/-- `Ready`, and every role definition has the two places linking needs (true of every enforcer the constructor returns
with auto-build on) -/
structure Ready2 (e : Enforcer) : Prop where
  ready : Ready e
  arity : ∀ a ∈ e.store.gArities, 2 ≤ a

theorem run_gArities (e : Enforcer) (h : Ready e) (op : NOp) : (op.run e).store.gArities = e.store.gArities := by
  obtain ⟨hs, hl, _⟩ := h
  cases op with
  | add sec pt rule =>
    show (e.addPolicy sec pt rule).1.store.gArities = _
    rw [(add_notifies e sec pt rule hs hl).1]; exact Store.addPolicy_gArities _ _ _ _
  | remove sec pt rule =>
    show (e.removePolicy sec pt rule).1.store.gArities = _
    rw [(remove_notifies e sec pt rule hs hl).1]; exact Store.removePolicy_gArities _ _ _ _
  | addMany sec pt rules =>
    show (e.addPolicies sec pt rules).1.store.gArities = _
    rw [(addPolicies_notifies e sec pt rules hs hl).1]; exact Store.addPolicies_gArities _ _ _ _
  | removeMany sec pt rules =>
    show (e.removePolicies sec pt rules).1.store.gArities = _
    rw [(removePolicies_notifies e sec pt rules hs hl).1]; exact Store.removePolicies_gArities _ _ _ _
  | removeFiltered sec pt idx vals =>
    show (e.removeFiltered sec pt idx vals).1.store.gArities = _
    rw [(removeFiltered_notifies e sec pt idx vals hs hl).1]; exact Store.removeFiltered_gArities _ _ _ _ _

theorem live_emit (x : Enforcer) (h : Live x) (ev : Event) : Live (x.emit ev) := by
  obtain ⟨_, m2, m3, m4⟩ := emit_misc x ev
  exact ⟨by rw [m2]; exact h.notify, by rw [m3]; exact h.one, by rw [m4]; exact h.watcher⟩

theorem emit_store_eq (x : Enforcer) (ev : Event) : (x.emit ev).store = x.store := by
  unfold Enforcer.emit; split <;> rfl

/-- `clear_policy` with auto-save off, auto-build on or off: the rules are gone, exactly one `ClearPolicy` is delivered,
nothing else moves -/
theorem clear_step (e : Enforcer) (h : Ready2 e) :
    e.clearPolicy.1.store = e.store.clear ∧ e.clearPolicy.1.log = e.log ++ [Event.clearPolicy] ∧
    e.clearPolicy.1.autoSave = false ∧ Live e.clearPolicy.1 := by
  obtain ⟨⟨hs, hl, _⟩, ha⟩ := h
  unfold Enforcer.clearPolicy
  rw [if_neg (by rw [hs]; exact Bool.false_ne_true)]
  simp only []
  by_cases hb : e.autoBuild = true
  · rw [if_pos hb]
    have hnone := buildRoleLinks_cleared e ha
    obtain ⟨f1, f2, f3, f4, f5, f6, _⟩ := buildRoleLinks_fields ({ e with store := e.store.clear } : Enforcer)
    cases hbr : ({ e with store := e.store.clear } : Enforcer).buildRoleLinks with
    | mk e2 res =>
      rw [hbr] at hnone f1 f2 f3 f4 f5 f6
      simp only at hnone f1 f2 f3 f4 f5 f6
      subst hnone
      simp only []
      have hl2 : Live e2 := ⟨by rw [f4]; exact hl.notify, by rw [f5]; exact hl.one, by rw [f6]; exact hl.watcher⟩
      refine ⟨?_, ?_, ?_, live_emit e2 hl2 _⟩
      · rw [emit_store_eq]; exact f1
      · rw [emit_live e2 hl2, f2]
      · rw [(emit_misc e2 _).1, f3]; exact hs
  · rw [if_neg hb]
    simp only []
    have hl2 : Live ({ e with store := e.store.clear } : Enforcer) := ⟨hl.notify, hl.one, hl.watcher⟩
    refine ⟨?_, ?_, ?_, live_emit _ hl2 _⟩
    · rw [emit_store_eq]
    · rw [emit_live _ hl2]
    · rw [(emit_misc _ _).1]; exact hs

/-- `save_policy`: the rules stay; at most one notification, a snapshot of exactly the rules stored -/
theorem save_step (e : Enforcer) (h : Ready e) :
    e.savePolicy.1.store = e.store ∧
    (e.savePolicy.1.log = e.log ∨
      e.savePolicy.1.log = e.log ++ [Event.savePolicy (e.store.allOf "p" ++ e.store.allOf "g")]) ∧
    e.savePolicy.1.autoSave = false ∧ Live e.savePolicy.1 := by
  obtain ⟨hs, hl, _⟩ := h
  unfold Enforcer.savePolicy
  by_cases hf : e.adapter.filtered = true
  · rw [if_pos hf]; exact ⟨rfl, Or.inl rfl, hs, hl⟩
  · rw [if_neg hf]
    cases hsv : e.adapter.save e.store with
    | mk a ok =>
      cases ok with
      | none =>
        exact ⟨rfl, Or.inl rfl, hs, ⟨hl.notify, hl.one, hl.watcher⟩⟩
      | some u =>
        simp only []
        have hl2 : Live ({ e with adapter := a } : Enforcer) := ⟨hl.notify, hl.one, hl.watcher⟩
        refine ⟨?_, Or.inr ?_, ?_, live_emit _ hl2 _⟩
        · rw [emit_store_eq]
        · rw [emit_live _ hl2]
        · rw [(emit_misc _ _).1]; exact hs

theorem wstep_follows (e : Enforcer) (h : Ready2 e) (op : WOp) :
    ∃ evs, (op.run e).log = e.log ++ evs ∧ SEq (evs.foldl applyEvent e.store) (op.run e).store := by
  cases op with
  | mgmt op => exact step_follows e h.ready op
  | clear =>
    obtain ⟨h1, h2, _, _⟩ := clear_step e h
    refine ⟨[Event.clearPolicy], h2, ?_⟩
    show SEq (applyEvent e.store Event.clearPolicy) e.clearPolicy.1.store
    rw [h1]; exact SEq.refl _
  | save =>
    obtain ⟨h1, h2, _, _⟩ := save_step e h.ready
    rcases h2 with h2 | h2
    · refine ⟨[], by rw [List.append_nil]; exact h2, ?_⟩
      show SEq e.store e.savePolicy.1.store
      rw [h1]; exact SEq.refl _
    · refine ⟨[Event.savePolicy (e.store.allOf "p" ++ e.store.allOf "g")], h2, ?_⟩
      show SEq e.store e.savePolicy.1.store
      rw [h1]; exact SEq.refl _

theorem wrun_ready (e : Enforcer) (h : Ready2 e) (op : WOp) : Ready2 (op.run e) := by
  cases op with
  | mgmt op =>
    refine ⟨run_ready e h.ready op, ?_⟩
    show ∀ a ∈ (op.run e).store.gArities, 2 ≤ a
    rw [run_gArities e h.ready op]; exact h.arity
  | clear =>
    obtain ⟨h1, _, h3, h4⟩ := clear_step e h
    refine ⟨⟨h3, h4, ?_⟩, ?_⟩
    · intro sec pt
      show (e.clearPolicy.1.store.getPolicy sec pt).Nodup
      rw [h1, getPolicy_clear']; exact List.nodup_nil
    · show ∀ a ∈ e.clearPolicy.1.store.gArities, 2 ≤ a
      rw [h1, Store.clear_gArities]; exact h.arity
  | save =>
    obtain ⟨h1, _, h3, h4⟩ := save_step e h.ready
    refine ⟨⟨h3, h4, ?_⟩, ?_⟩
    · show e.savePolicy.1.store.WF
      rw [h1]; exact h.ready.wf
    · show ∀ a ∈ e.savePolicy.1.store.gArities, 2 ≤ a
      rw [h1]; exact h.arity

/-- **the changelog is faithful over every history of management calls, `clear_policy` and `save_policy`**, with
auto-build on or off and whatever the adapter answers to a save: a replica that applies exactly the events delivered
(a `ClearPolicy` empties it, a `SavePolicy` snapshot leaves it as it is) holds the rules the primary holds -/
theorem replica_history_full (ops : List WOp) (e : Enforcer) (h : Ready2 e) :
    ∃ evs, (ops.foldl WOp.run e).log = e.log ++ evs ∧
      SEq (evs.foldl applyEvent e.store) (ops.foldl WOp.run e).store := by
  induction ops generalizing e with
  | nil => exact ⟨[], by simp, SEq.refl _⟩
  | cons op ops ih =>
    obtain ⟨ev1, hl1, hs1⟩ := wstep_follows e h op
    obtain ⟨evs', hl2, hs2⟩ := ih (op.run e) (wrun_ready e h op)
    refine ⟨ev1 ++ evs', ?_, ?_⟩
    · simp only [List.foldl_cons]; rw [hl2, hl1, List.append_assoc]
    · simp only [List.foldl_cons, List.foldl_append]
      exact SEq.trans (foldEvents_congr evs' hs1) hs2

/-- a save that reaches the adapter and succeeds is always announced - also when nothing is stored -/
theorem save_empty_notifies (e : Enforcer) (hl : Live e) (hf : e.adapter.filtered = false) (a : AdapterSt)
    (hok : e.adapter.save e.store = (a, some ())) (hempty : e.store.allOf "p" ++ e.store.allOf "g" = []) :
    e.savePolicy.1.log = e.log ++ [Event.savePolicy []] := by
  rw [(save_notifies e hl hf a hok).1, hempty]

theorem demo_ready2 : Ready2 demo := ⟨demo_ready, by intro a ha; simp [Store.gArities, demo] at ha⟩
example : ∃ evs, ([WOp.mgmt (.add "p" "p" ["a"]), .save, .clear, .save].foldl WOp.run demo).log = demo.log ++ evs ∧
    SEq (evs.foldl applyEvent demo.store) ([WOp.mgmt (.add "p" "p" ["a"]), .save, .clear, .save].foldl WOp.run demo).store :=
  replica_history_full _ demo demo_ready2
example : ([WOp.mgmt (.add "p" "p" ["a"]), .clear, .save].foldl WOp.run demo).log =
    [Event.addPolicy "p" "p" ["a"], Event.clearPolicy, Event.savePolicy []] := by decide +kernel

/-! ### Auto-save on or off -/

/-- with auto-save on, each of the five calls either stops at the adapter (an error, or a veto: only the adapter's own state
moves) or is the auto-save-off call on the enforcer that holds the adapter's new state, the switch put back afterwards -/
theorem run_on (e : Enforcer) (hs : e.autoSave = true) (op : NOp) :
    (∃ a, op.run e = ({ e with adapter := a } : Enforcer)) ∨
    (∃ a, op.run e = (op.run (({ e with adapter := a } : Enforcer).withSave false)).withSave true) := by
  cases op with
  | add sec pt rule => exact addPolicy_on e hs sec pt rule
  | remove sec pt rule => exact removePolicy_on e hs sec pt rule
  | addMany sec pt rules => exact addPolicies_on e hs sec pt rules
  | removeMany sec pt rules => exact removePolicies_on e hs sec pt rules
  | removeFiltered sec pt idx vals => exact removeFiltered_on e hs sec pt idx vals

/-- notifications live and rule lists duplicate free - the auto-save switch and the adapter are left open -/
structure ReadyAny (e : Enforcer) : Prop where
  live : Live e
  wf : e.store.WF

theorem step_follows_any (e : Enforcer) (h : ReadyAny e) (op : NOp) :
    (∃ evs, (op.run e).log = e.log ++ evs ∧ SEq (evs.foldl applyEvent e.store) (op.run e).store) ∧
    ReadyAny (op.run e) := by
  by_cases hs : e.autoSave = true
  · rcases run_on e hs op with ⟨a, h1⟩ | ⟨a, h1⟩
    · rw [h1]
      exact ⟨⟨[], by simp, SEq.refl _⟩, ⟨⟨h.live.notify, h.live.one, h.live.watcher⟩, h.wf⟩⟩
    · have hr : Ready (({ e with adapter := a } : Enforcer).withSave false) :=
        ⟨rfl, ⟨h.live.notify, h.live.one, h.live.watcher⟩, h.wf⟩
      obtain ⟨evs, hl, hse⟩ := step_follows _ hr op
      have hrr := run_ready _ hr op
      rw [h1]
      exact ⟨⟨evs, hl, hse⟩, ⟨⟨hrr.live.notify, hrr.live.one, hrr.live.watcher⟩, hrr.wf⟩⟩
  · have hs' : e.autoSave = false := by cases hh : e.autoSave <;> simp_all
    have hr : Ready e := ⟨hs', h.live, h.wf⟩
    exact ⟨step_follows e hr op, ⟨(run_ready e hr op).live, (run_ready e hr op).wf⟩⟩

/-- **the changelog is faithful over every history of the five management calls with auto-save on or off and whatever the
adapter answers** (accepts, vetoes, fails): a call the adapter stops delivers nothing and changes no rule; an accepted
one delivers exactly what the replica needs -/
theorem replica_history_any (ops : List NOp) (e : Enforcer) (h : ReadyAny e) :
    ∃ evs, (ops.foldl NOp.run e).log = e.log ++ evs ∧
      SEq (evs.foldl applyEvent e.store) (ops.foldl NOp.run e).store := by
  induction ops generalizing e with
  | nil => exact ⟨[], by simp, SEq.refl _⟩
  | cons op ops ih =>
    obtain ⟨⟨ev1, hl1, hs1⟩, hnext⟩ := step_follows_any e h op
    obtain ⟨evs', hl2, hs2⟩ := ih (op.run e) hnext
    refine ⟨ev1 ++ evs', ?_, ?_⟩
    · simp only [List.foldl_cons]; rw [hl2, hl1, List.append_assoc]
    · simp only [List.foldl_cons, List.foldl_append]
      exact SEq.trans (foldEvents_congr evs' hs1) hs2

/-- the premise holds of the demo enforcer with auto-save switched on over a memory adapter -/
example : ReadyAny ({ demo with autoSave := true, adapter := AdapterSt.mk0 .memory } : Enforcer) :=
  ⟨⟨rfl, rfl, rfl⟩, demo_ready.wf⟩
example : ([NOp.add "p" "p" ["a"], .add "p" "p" ["a"], .remove "p" "p" ["a"]].foldl NOp.run
    ({ demo with autoSave := true, adapter := AdapterSt.mk0 .memory } : Enforcer)).log =
    [Event.addPolicy "p" "p" ["a"], Event.removePolicy "p" "p" ["a"]] := by decide +kernel

/-! ### … and `clear_policy` / `save_policy` with auto-save on or off -/

/-- the model-side part of `clear_policy`, whatever the auto-save switch says -/
theorem clearGo_step (x : Enforcer) (hl : Live x) (ha : ∀ a ∈ x.store.gArities, 2 ≤ a) (r : Enforcer × Option ErrKind)
    (hr : r = (if ({ x with store := x.store.clear } : Enforcer).autoBuild then ({ x with store := x.store.clear } : Enforcer).buildRoleLinks
      else (({ x with store := x.store.clear } : Enforcer), none))) :
    (match r with
      | (e, r) => match r with
        | some k => (e, Res.err k)
        | none => (e.emit .clearPolicy, Res.unit)).1.store = x.store.clear ∧
    (match r with
      | (e, r) => match r with
        | some k => (e, Res.err k)
        | none => (e.emit .clearPolicy, Res.unit)).1.log = x.log ++ [Event.clearPolicy] ∧
    Live (match r with
      | (e, r) => match r with
        | some k => (e, Res.err k)
        | none => (e.emit .clearPolicy, Res.unit)).1 := by
  have hl0 : Live ({ x with store := x.store.clear } : Enforcer) := ⟨hl.notify, hl.one, hl.watcher⟩
  by_cases hb : ({ x with store := x.store.clear } : Enforcer).autoBuild = true
  · rw [if_pos hb] at hr
    have hnone := buildRoleLinks_cleared x ha
    obtain ⟨f1, f2, _, f4, f5, f6, _⟩ := buildRoleLinks_fields ({ x with store := x.store.clear } : Enforcer)
    obtain ⟨e2, res⟩ := r
    have hres : res = none := by rw [← hr] at hnone; exact hnone
    subst hres
    have he2 : e2 = ({ x with store := x.store.clear } : Enforcer).buildRoleLinks.1 := by rw [← hr]
    subst he2
    have hl2 : Live ({ x with store := x.store.clear } : Enforcer).buildRoleLinks.1 :=
      ⟨by rw [f4]; exact hl.notify, by rw [f5]; exact hl.one, by rw [f6]; exact hl.watcher⟩
    refine ⟨?_, ?_, live_emit _ hl2 _⟩
    · show (Enforcer.emit _ _).store = _
      rw [emit_store_eq]; exact f1
    · show (Enforcer.emit _ _).log = _
      rw [emit_live _ hl2, f2]
  · rw [if_neg hb] at hr
    subst hr
    refine ⟨?_, ?_, live_emit _ hl0 _⟩
    · show (Enforcer.emit _ _).store = _
      rw [emit_store_eq]
    · show (Enforcer.emit _ _).log = _
      rw [emit_live _ hl0]

/-- `clear_policy`, auto-save on or off: the adapter fails and nothing happens, or the rules are gone and exactly one
`ClearPolicy` is delivered -/
theorem clear_step_any (e : Enforcer) (hl : Live e) (ha : ∀ a ∈ e.store.gArities, 2 ≤ a) :
    (e.clearPolicy.1.store = e.store ∧ e.clearPolicy.1.log = e.log ∧ Live e.clearPolicy.1) ∨
    (e.clearPolicy.1.store = e.store.clear ∧ e.clearPolicy.1.log = e.log ++ [Event.clearPolicy] ∧ Live e.clearPolicy.1) := by
  unfold Enforcer.clearPolicy
  split
  · split
    · exact Or.inl ⟨rfl, rfl, ⟨hl.notify, hl.one, hl.watcher⟩⟩
    · rename_i a _
      exact Or.inr (clearGo_step ({ e with adapter := a } : Enforcer) ⟨hl.notify, hl.one, hl.watcher⟩ ha _ rfl)
  · exact Or.inr (clearGo_step e hl ha _ rfl)

/-- `save_policy` does not look at the auto-save switch -/
theorem save_step_any (e : Enforcer) (hl : Live e) :
    e.savePolicy.1.store = e.store ∧
    (e.savePolicy.1.log = e.log ∨
      e.savePolicy.1.log = e.log ++ [Event.savePolicy (e.store.allOf "p" ++ e.store.allOf "g")]) ∧
    Live e.savePolicy.1 := by
  unfold Enforcer.savePolicy
  by_cases hf : e.adapter.filtered = true
  · rw [if_pos hf]; exact ⟨rfl, Or.inl rfl, hl⟩
  · rw [if_neg hf]
    cases hsv : e.adapter.save e.store with
    | mk a ok =>
      cases ok with
      | none => exact ⟨rfl, Or.inl rfl, ⟨hl.notify, hl.one, hl.watcher⟩⟩
      | some u =>
        simp only []
        have hl2 : Live ({ e with adapter := a } : Enforcer) := ⟨hl.notify, hl.one, hl.watcher⟩
        refine ⟨?_, Or.inr ?_, live_emit _ hl2 _⟩
        · rw [emit_store_eq]
        · rw [emit_live _ hl2]

/-- `ReadyAny`, and every role definition has the two places linking needs -/
structure ReadyAll (e : Enforcer) : Prop where
  ready : ReadyAny e
  arity : ∀ a ∈ e.store.gArities, 2 ≤ a

theorem run_gArities_any (e : Enforcer) (h : ReadyAny e) (op : NOp) : (op.run e).store.gArities = e.store.gArities := by
  by_cases hs : e.autoSave = true
  · rcases run_on e hs op with ⟨a, h1⟩ | ⟨a, h1⟩
    · rw [h1]
    · rw [h1]
      exact run_gArities (({ e with adapter := a } : Enforcer).withSave false)
        ⟨rfl, ⟨h.live.notify, h.live.one, h.live.watcher⟩, h.wf⟩ op
  · have hs' : e.autoSave = false := by cases hh : e.autoSave <;> simp_all
    exact run_gArities e ⟨hs', h.live, h.wf⟩ op

theorem wstep_follows_all (e : Enforcer) (h : ReadyAll e) (op : WOp) :
    (∃ evs, (op.run e).log = e.log ++ evs ∧ SEq (evs.foldl applyEvent e.store) (op.run e).store) ∧
    ReadyAll (op.run e) := by
  cases op with
  | mgmt op =>
    obtain ⟨h1, h2⟩ := step_follows_any e h.ready op
    refine ⟨h1, h2, ?_⟩
    show ∀ a ∈ (op.run e).store.gArities, 2 ≤ a
    rw [run_gArities_any e h.ready op]; exact h.arity
  | clear =>
    rcases clear_step_any e h.ready.live h.arity with ⟨h1, h2, h3⟩ | ⟨h1, h2, h3⟩
    · refine ⟨⟨[], by rw [List.append_nil]; exact h2, ?_⟩, ⟨h3, ?_⟩, ?_⟩
      · show SEq e.store e.clearPolicy.1.store
        rw [h1]; exact SEq.refl _
      · show e.clearPolicy.1.store.WF
        rw [h1]; exact h.ready.wf
      · show ∀ a ∈ e.clearPolicy.1.store.gArities, 2 ≤ a
        rw [h1]; exact h.arity
    · refine ⟨⟨[Event.clearPolicy], h2, ?_⟩, ⟨h3, ?_⟩, ?_⟩
      · show SEq (applyEvent e.store Event.clearPolicy) e.clearPolicy.1.store
        rw [h1]; exact SEq.refl _
      · intro sec pt
        show (e.clearPolicy.1.store.getPolicy sec pt).Nodup
        rw [h1, getPolicy_clear']; exact List.nodup_nil
      · show ∀ a ∈ e.clearPolicy.1.store.gArities, 2 ≤ a
        rw [h1, Store.clear_gArities]; exact h.arity
  | save =>
    obtain ⟨h1, h2, h3⟩ := save_step_any e h.ready.live
    refine ⟨?_, ⟨h3, ?_⟩, ?_⟩
    · rcases h2 with h2 | h2
      · refine ⟨[], by rw [List.append_nil]; exact h2, ?_⟩
        show SEq e.store e.savePolicy.1.store
        rw [h1]; exact SEq.refl _
      · refine ⟨[Event.savePolicy (e.store.allOf "p" ++ e.store.allOf "g")], h2, ?_⟩
        show SEq e.store e.savePolicy.1.store
        rw [h1]; exact SEq.refl _
    · show e.savePolicy.1.store.WF
      rw [h1]; exact h.ready.wf
    · show ∀ a ∈ e.savePolicy.1.store.gArities, 2 ≤ a
      rw [h1]; exact h.arity

/-- **the changelog is faithful over every history of management calls, `clear_policy` and `save_policy`, with auto-save on
or off, auto-build on or off, and whatever the adapter answers to any of them** -/
theorem replica_history_all (ops : List WOp) (e : Enforcer) (h : ReadyAll e) :
    ∃ evs, (ops.foldl WOp.run e).log = e.log ++ evs ∧
      SEq (evs.foldl applyEvent e.store) (ops.foldl WOp.run e).store := by
  induction ops generalizing e with
  | nil => exact ⟨[], by simp, SEq.refl _⟩
  | cons op ops ih =>
    obtain ⟨⟨ev1, hl1, hs1⟩, hnext⟩ := wstep_follows_all e h op
    obtain ⟨evs', hl2, hs2⟩ := ih (op.run e) hnext
    refine ⟨ev1 ++ evs', ?_, ?_⟩
    · simp only [List.foldl_cons]; rw [hl2, hl1, List.append_assoc]
    · simp only [List.foldl_cons, List.foldl_append]
      exact SEq.trans (foldEvents_congr evs' hs1) hs2

example : ReadyAll ({ demo with autoSave := true, adapter := AdapterSt.mk0 .memory } : Enforcer) :=
  ⟨⟨⟨rfl, rfl, rfl⟩, demo_ready.wf⟩, by intro a ha; simp [Store.gArities, demo] at ha⟩

end Casbin.C14
