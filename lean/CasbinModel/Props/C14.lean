import CasbinModel.Enforcer
import CasbinModel.Lemmas.Store
import CasbinModel.Lemmas.Batch
/-!
# C14 — Change notifications are a faithful changelog

`log` is what the watcher received.  With notifications enabled (`autoNotify`, one handler
registered, watcher set) and the adapter not vetoing, each internal operation appends
exactly one event iff the store changed, carrying exactly the rules added / removed;
`clear_policy` and `save_policy` append exactly one.  Folding the delivered events into a
replica that equals the store yields the new store (`applyEvent`).  The number of
registered handlers is `1` when notifications are on and `0` when off, after any toggles.
-/
namespace Casbin.C14
open Casbin

/-- notifications are on and are delivered exactly once -/
structure Live (e : Enforcer) : Prop where
  notify : e.autoNotify = true
  one : e.callbacks = 1
  watcher : e.hasWatcher = true

theorem emit_live (e : Enforcer) (h : Live e) (ev : Event) : (e.emit ev).log = e.log ++ [ev] := by
  simp [Enforcer.emit, h.watcher, h.one]

/-- toggling establishes the handler-count invariant, whatever preceded (regression for F9) -/
theorem toggle_callbacks (e : Enforcer) (b : Bool) :
    (e.enableAutoNotify b).callbacks = (if b then 1 else 0) ∧ (e.enableAutoNotify b).autoNotify = b := by
  simp [Enforcer.enableAutoNotify]

theorem toggle_twice (e : Enforcer) : ((e.enableAutoNotify true).enableAutoNotify true).callbacks = 1 := by
  simp [Enforcer.enableAutoNotify]

/-- how a replica applies one event -/
def applyEvent (s : Store) : Event → Store
  | .addPolicy sec pt r => (s.addPolicy sec pt r).1
  | .addPolicies sec pt rs => rs.foldl (fun s r => (s.addPolicy sec pt r).1) s
  | .removePolicy sec pt r => (s.removePolicy sec pt r).1
  | .removePolicies sec pt rs => rs.foldl (fun s r => (s.removePolicy sec pt r).1) s
  | .removeFiltered sec pt rs => rs.foldl (fun s r => (s.removePolicy sec pt r).1) s
  | .savePolicy _ => s
  | .clearPolicy => s.clear

/-- the store and log after the model-side part of `add_policy_internal` -/
theorem add_notifies (e : Enforcer) (sec pt : String) (rule : Rule) (hs : e.autoSave = false) (hl : Live e) :
    let r := e.addPolicy sec pt rule
    let changed := (e.store.addPolicy sec pt rule).2
    r.1.store = (e.store.addPolicy sec pt rule).1 ∧
    r.1.log = e.log ++ (if changed then [Event.addPolicy sec pt rule] else []) := by
  simp only [Enforcer.addPolicy, hs, Bool.false_eq_true, if_false]
  have hlog : ∀ (x : Enforcer) (changed : Bool) (ret : Res),
      (x.linkUpdate changed sec pt true [rule] ret).1.store = x.store ∧
      (x.linkUpdate changed sec pt true [rule] ret).1.log = x.log := by
    intro x changed ret
    unfold Enforcer.linkUpdate
    split
    · exact ⟨rfl, rfl⟩
    · split
      · exact ⟨rfl, rfl⟩
      · split <;> exact ⟨rfl, rfl⟩
  cases hc : (e.store.addPolicy sec pt rule).2 with
  | false =>
    simp only [Bool.false_and, Bool.false_eq_true, if_false]
    rw [(hlog _ _ _).1, (hlog _ _ _).2]; simp
  | true =>
    simp only [hl.notify, Bool.and_self, if_true]
    rw [(hlog _ _ _).1, (hlog _ _ _).2]
    simp [Enforcer.emit, hl.watcher, hl.one]

theorem remove_notifies (e : Enforcer) (sec pt : String) (rule : Rule) (hs : e.autoSave = false) (hl : Live e) :
    let r := e.removePolicy sec pt rule
    let changed := (e.store.removePolicy sec pt rule).2
    r.1.store = (e.store.removePolicy sec pt rule).1 ∧
    r.1.log = e.log ++ (if changed then [Event.removePolicy sec pt rule] else []) := by
  simp only [Enforcer.removePolicy, hs, Bool.false_eq_true, if_false]
  have hlog : ∀ (x : Enforcer) (changed : Bool) (ret : Res),
      (x.linkUpdate changed sec pt false [rule] ret).1.store = x.store ∧
      (x.linkUpdate changed sec pt false [rule] ret).1.log = x.log := by
    intro x changed ret
    unfold Enforcer.linkUpdate
    split
    · exact ⟨rfl, rfl⟩
    · split
      · exact ⟨rfl, rfl⟩
      · split <;> exact ⟨rfl, rfl⟩
  cases hc : (e.store.removePolicy sec pt rule).2 with
  | false =>
    simp only [Bool.false_and, Bool.false_eq_true, if_false]
    rw [(hlog _ _ _).1, (hlog _ _ _).2]; simp
  | true =>
    simp only [hl.notify, Bool.and_self, if_true]
    rw [(hlog _ _ _).1, (hlog _ _ _).2]
    simp [Enforcer.emit, hl.watcher, hl.one]

/-- **Replica follows (single add / remove)**: folding the delivered events into a replica
equal to the store gives the new store. -/
theorem replica_follows_add (e : Enforcer) (sec pt : String) (rule : Rule) (hs : e.autoSave = false) (hl : Live e) :
    let r := e.addPolicy sec pt rule
    ((r.1.log.drop e.log.length).foldl applyEvent e.store).getPolicy = r.1.store.getPolicy := by
  obtain ⟨h1, h2⟩ := add_notifies e sec pt rule hs hl
  simp only at h1 h2 ⊢
  rw [h1, h2]
  simp only [List.drop_left]
  cases hc : (e.store.addPolicy sec pt rule).2 with
  | true => simp [applyEvent]
  | false =>
    simp only [Bool.false_eq_true, if_false, List.foldl]
    funext sec' pt'
    -- a call that reports no change left every rule list untouched (C04)
    unfold Store.addPolicy at hc ⊢
    cases hf : e.store.find sec pt with
    | none => simp [hf]
    | some d =>
      simp only [hf] at hc ⊢
      rw [Store.getPolicy_update e.store sec pt sec' pt' (fun pol => (OrdSet.add pol rule).1)]
      by_cases hne : sec = sec' ∧ pt = pt'
      · obtain ⟨a1, a2⟩ := hne; subst a1 a2
        simp only [and_self, if_true, hf]
        unfold OrdSet.add at hc ⊢
        by_cases hr : rule ∈ d.policy
        · simp [hr, Store.getPolicy, hf]
        · simp [hr] at hc
      · simp [hne]

/-- `clear_policy` and `save_policy` deliver exactly one notification (a clear, resp. a
snapshot of the stored policy), when the adapter call succeeds. -/
theorem save_notifies (e : Enforcer) (hl : Live e) (hf : e.adapter.filtered = false) (a : AdapterSt)
    (hok : e.adapter.save e.store = (a, some ())) :
    e.savePolicy.1.log = e.log ++ [Event.savePolicy (e.store.allOf "p" ++ e.store.allOf "g")] ∧
    e.savePolicy.1.store = e.store := by
  unfold Enforcer.savePolicy
  simp only [hf, Bool.false_eq_true, if_false, hok]
  simp [Enforcer.emit, hl.watcher, hl.one]

theorem clear_notifies (e : Enforcer) (hl : Live e) (hs : e.autoSave = false) (hb : e.autoBuild = false) :
    e.clearPolicy.1.log = e.log ++ [Event.clearPolicy] ∧ e.clearPolicy.1.store = e.store.clear := by
  unfold Enforcer.clearPolicy
  simp [hs, hb, Enforcer.emit, hl.watcher, hl.one]

/-! ### Batch and filtered operations -/

theorem linkUpdate_store_log (x : Enforcer) (changed : Bool) (sec pt : String) (ins : Bool) (rules : List Rule) (ret : Res) :
    (x.linkUpdate changed sec pt ins rules ret).1.store = x.store ∧
    (x.linkUpdate changed sec pt ins rules ret).1.log = x.log := by
  unfold Enforcer.linkUpdate
  split
  · exact ⟨rfl, rfl⟩
  · split
    · exact ⟨rfl, rfl⟩
    · split <;> exact ⟨rfl, rfl⟩

/-- a batch addition delivers one event carrying exactly the batch iff the store changed -/
theorem addPolicies_notifies (e : Enforcer) (sec pt : String) (rules : List Rule) (hs : e.autoSave = false) (hl : Live e) :
    let r := e.addPolicies sec pt rules
    let changed := (e.store.addPolicies sec pt rules).2
    r.1.store = (e.store.addPolicies sec pt rules).1 ∧
    r.1.log = e.log ++ (if changed then [Event.addPolicies sec pt rules] else []) := by
  simp only [Enforcer.addPolicies, hs, Bool.false_eq_true, if_false]
  cases hc : (e.store.addPolicies sec pt rules).2 with
  | false =>
    simp only [Bool.false_and, Bool.false_eq_true, if_false]
    rw [(linkUpdate_store_log _ _ _ _ _ _ _).1, (linkUpdate_store_log _ _ _ _ _ _ _).2]; simp
  | true =>
    simp only [hl.notify, Bool.and_self, if_true]
    rw [(linkUpdate_store_log _ _ _ _ _ _ _).1, (linkUpdate_store_log _ _ _ _ _ _ _).2]
    simp [Enforcer.emit, hl.watcher, hl.one]

theorem removePolicies_notifies (e : Enforcer) (sec pt : String) (rules : List Rule) (hs : e.autoSave = false) (hl : Live e) :
    let r := e.removePolicies sec pt rules
    let changed := (e.store.removePolicies sec pt rules).2
    r.1.store = (e.store.removePolicies sec pt rules).1 ∧
    r.1.log = e.log ++ (if changed then [Event.removePolicies sec pt rules] else []) := by
  simp only [Enforcer.removePolicies, hs, Bool.false_eq_true, if_false]
  cases hc : (e.store.removePolicies sec pt rules).2 with
  | false =>
    simp only [Bool.false_and, Bool.false_eq_true, if_false]
    rw [(linkUpdate_store_log _ _ _ _ _ _ _).1, (linkUpdate_store_log _ _ _ _ _ _ _).2]; simp
  | true =>
    simp only [hl.notify, Bool.and_self, if_true]
    rw [(linkUpdate_store_log _ _ _ _ _ _ _).1, (linkUpdate_store_log _ _ _ _ _ _ _).2]
    simp [Enforcer.emit, hl.watcher, hl.one]

/-- a filtered removal delivers one event carrying exactly the removed rules iff something was removed -/
theorem removeFiltered_notifies (e : Enforcer) (sec pt : String) (idx : Nat) (vals : List String)
    (hs : e.autoSave = false) (hl : Live e) :
    let r := e.removeFiltered sec pt idx vals
    let m := e.store.removeFiltered sec pt idx vals
    r.1.store = m.1 ∧
    r.1.log = e.log ++ (if m.2.1 then [Event.removeFiltered sec pt m.2.2] else []) := by
  simp only [Enforcer.removeFiltered, hs, Bool.false_eq_true, if_false]
  cases hc : (e.store.removeFiltered sec pt idx vals).2.1 with
  | false =>
    simp only [Bool.false_and, Bool.false_eq_true, if_false]
    rw [(linkUpdate_store_log _ _ _ _ _ _ _).1, (linkUpdate_store_log _ _ _ _ _ _ _).2]; simp
  | true =>
    simp only [hl.notify, Bool.and_self, if_true]
    rw [(linkUpdate_store_log _ _ _ _ _ _ _).1, (linkUpdate_store_log _ _ _ _ _ _ _).2]
    simp [Enforcer.emit, hl.watcher, hl.one]

/-- **Replica follows a batch addition**: applying the delivered batch rule by rule gives the new store
(and a call that reports no change delivers nothing and leaves the store alone) -/
theorem replica_follows_addPolicies (e : Enforcer) (sec pt : String) (rules : List Rule) (hs : e.autoSave = false) (hl : Live e) :
    let r := e.addPolicies sec pt rules
    ((r.1.log.drop e.log.length).foldl applyEvent e.store).getPolicy = r.1.store.getPolicy := by
  obtain ⟨h1, h2⟩ := addPolicies_notifies e sec pt rules hs hl
  simp only at h1 h2 ⊢
  rw [h1, h2]
  simp only [List.drop_left]
  funext sec' pt'
  unfold Store.addPolicies
  cases hf : e.store.find sec pt with
  | none => simp
  | some d =>
    simp only
    by_cases hany : rules.any (fun r => decide (r ∈ d.policy)) = true
    · simp [hany]
    · simp only [hany, Bool.false_eq_true, if_false, if_true, List.foldl_cons, List.foldl_nil, applyEvent]
      rw [Store.foldAdd_getPolicy, Store.getPolicy_update' e.store sec pt sec' pt' (fun pol => OrdSet.addAll pol rules)]

/-- **Replica follows a batch removal** -/
theorem replica_follows_removePolicies (e : Enforcer) (sec pt : String) (rules : List Rule) (hs : e.autoSave = false) (hl : Live e) :
    let r := e.removePolicies sec pt rules
    ((r.1.log.drop e.log.length).foldl applyEvent e.store).getPolicy = r.1.store.getPolicy := by
  obtain ⟨h1, h2⟩ := removePolicies_notifies e sec pt rules hs hl
  simp only at h1 h2 ⊢
  rw [h1, h2]
  simp only [List.drop_left]
  funext sec' pt'
  unfold Store.removePolicies
  cases hf : e.store.find sec pt with
  | none => simp
  | some d =>
    simp only
    by_cases hany : rules.any (fun r => decide (r ∉ d.policy)) = true
    · have hex : ∃ x, x ∈ rules ∧ ¬ x ∈ d.policy := by simpa using hany
      simp [hex]
    · simp only [hany, Bool.false_eq_true, if_false, if_true, List.foldl_cons, List.foldl_nil, applyEvent]
      rw [Store.foldRemove_getPolicy, Store.getPolicy_update' e.store sec pt sec' pt' (fun pol => OrdSet.removeAll pol rules)]

/-- **Replica follows a filtered removal**: removing the delivered rules one by one from a replica equal
to the (duplicate-free) store gives the new store -/
theorem replica_follows_removeFiltered (e : Enforcer) (sec pt : String) (idx : Nat) (vals : List String)
    (hs : e.autoSave = false) (hl : Live e) (hw : e.store.WF) :
    let r := e.removeFiltered sec pt idx vals
    ((r.1.log.drop e.log.length).foldl applyEvent e.store).getPolicy = r.1.store.getPolicy := by
  obtain ⟨h1, h2⟩ := removeFiltered_notifies e sec pt idx vals hs hl
  simp only at h1 h2 ⊢
  rw [h1, h2]
  simp only [List.drop_left]
  funext sec' pt'
  unfold Store.removeFiltered
  by_cases hv : vals.isEmpty = true
  · simp [hv]
  · simp only [hv, Bool.false_eq_true, if_false]
    cases hf : e.store.find sec pt with
    | none => simp
    | some d =>
      simp only
      by_cases hem : (d.policy.filter (filterMatch idx vals)).isEmpty = true
      · simp [hem]
      · simp only [hem, Bool.false_eq_true, if_false, if_true, List.foldl_cons, List.foldl_nil, applyEvent]
        rw [Store.foldRemove_getPolicy, Store.getPolicy_update' e.store sec pt sec' pt' (fun pol => pol.filter (fun r => !filterMatch idx vals r))]
        have hd : e.store.getPolicy sec pt = d.policy := by simp [Store.getPolicy, hf]
        have hnd : d.policy.Nodup := by have := hw sec pt; rwa [hd] at this
        rw [hd, OrdSet.removeAll_filter d.policy hnd]

/-- when the adapter vetoes, nothing is delivered -/
theorem rejected_add_silent (e : Enforcer) (sec pt : String) (rule : Rule) (hs : e.autoSave = true)
    (f : Fault) (rest : List Fault) (hp : e.adapter.plan = f :: rest) (hf : f = .err ∨ f = .refuse) :
    (e.addPolicy sec pt rule).1.log = e.log := by
  unfold Enforcer.addPolicy
  simp only [hs, if_true]
  rcases hf with h | h <;> subst h <;> simp [AdapterSt.addPolicy, AdapterSt.nextFault, hp]

/-! ### Non-vacuity -/
def demo : Enforcer :=
  { defs := ⟨[], [], []⟩, store := ⟨[{ key := "p", tokens := [], arity := 0, policy := [] }], []⟩,
    adapter := AdapterSt.mk0 .null, rm := RoleMgr.new 10, enabled := true, autoSave := false, autoBuild := true,
    autoNotify := true, callbacks := 1, hasWatcher := true, gfuncs := [], userFns := [], log := [] }
example : Live demo := ⟨rfl, rfl, rfl⟩
example : (demo.addPolicy "p" "p" ["a"]).1.log = [Event.addPolicy "p" "p" ["a"]] := by decide
example : ((demo.addPolicy "p" "p" ["a"]).1.addPolicy "p" "p" ["a"]).1.log = [Event.addPolicy "p" "p" ["a"]] := by decide

end Casbin.C14
