import CasbinModel.Fs
import CasbinModel.Enforcer
/-!
# C10 — Failed storage operations change nothing   (*partial*: real crashes without fsync)

* a management call the adapter rejects (`Err` or `Ok(false)`) leaves policy store, role
  manager and every other field of the enforcer untouched (only the adapter's own
  bookkeeping — here the fault plan — advances), for all five internal operations and
  `clear_policy`;
* `load_policy` / `load_filtered_policy` that fail (adapter error at any point, or a
  failing role-link build) leave the previous policy in force;
* `save_policy_file` is atomic under write failures and at every crash point of its step
  list: the policy file holds the old or the new text, never a truncated one.
-/
namespace Casbin.C10
open Casbin

/-- what a decision or query can depend on -/
def sameCore (e e' : Enforcer) : Prop :=
  e'.store = e.store ∧ e'.rm = e.rm ∧ e'.defs = e.defs ∧ e'.gfuncs = e.gfuncs ∧
  e'.enabled = e.enabled ∧ e'.log = e.log ∧ e'.autoSave = e.autoSave ∧ e'.autoBuild = e.autoBuild

/-- the next adapter call is rejected -/
def Rejecting (a : AdapterSt) : Prop := ∃ f rest, a.plan = f :: rest ∧ (f = .err ∨ f = .refuse)

theorem nextFault_rejecting {a : AdapterSt} (h : Rejecting a) :
    (a.nextFault.1 = .err ∨ a.nextFault.1 = .refuse) := by
  obtain ⟨f, rest, hp, hf⟩ := h
  simp [AdapterSt.nextFault, hp, hf]

/-- **A rejected add is a no-op** (and is reported as `Err` / `false`). -/
theorem rejected_add (e : Enforcer) (sec pt : String) (rule : Rule) (has : e.autoSave = true)
    (hr : Rejecting e.adapter) :
    sameCore e (e.addPolicy sec pt rule).1 ∧
    ((e.addPolicy sec pt rule).2 = .err .adapter ∨ (e.addPolicy sec pt rule).2 = .bool false) := by
  obtain ⟨f, rest, hp, hf⟩ := hr
  unfold Enforcer.addPolicy
  simp only [has, if_true]
  rcases hf with h | h <;> subst h <;>
    simp [AdapterSt.addPolicy, AdapterSt.nextFault, hp, sameCore, has]

theorem rejected_addMany (e : Enforcer) (sec pt : String) (rules : List Rule) (has : e.autoSave = true)
    (hr : Rejecting e.adapter) :
    sameCore e (e.addPolicies sec pt rules).1 ∧
    ((e.addPolicies sec pt rules).2 = .err .adapter ∨ (e.addPolicies sec pt rules).2 = .bool false) := by
  obtain ⟨f, rest, hp, hf⟩ := hr
  unfold Enforcer.addPolicies
  simp only [has, if_true]
  rcases hf with h | h <;> subst h <;>
    simp [AdapterSt.addPolicies, AdapterSt.nextFault, hp, sameCore, has]

theorem rejected_remove (e : Enforcer) (sec pt : String) (rule : Rule) (has : e.autoSave = true)
    (hr : Rejecting e.adapter) :
    sameCore e (e.removePolicy sec pt rule).1 ∧
    ((e.removePolicy sec pt rule).2 = .err .adapter ∨ (e.removePolicy sec pt rule).2 = .bool false) := by
  obtain ⟨f, rest, hp, hf⟩ := hr
  unfold Enforcer.removePolicy
  simp only [has, if_true]
  rcases hf with h | h <;> subst h <;>
    simp [AdapterSt.removePolicy, AdapterSt.nextFault, hp, sameCore, has]

theorem rejected_removeMany (e : Enforcer) (sec pt : String) (rules : List Rule) (has : e.autoSave = true)
    (hr : Rejecting e.adapter) :
    sameCore e (e.removePolicies sec pt rules).1 ∧
    ((e.removePolicies sec pt rules).2 = .err .adapter ∨ (e.removePolicies sec pt rules).2 = .bool false) := by
  obtain ⟨f, rest, hp, hf⟩ := hr
  unfold Enforcer.removePolicies
  simp only [has, if_true]
  rcases hf with h | h <;> subst h <;>
    simp [AdapterSt.removePolicies, AdapterSt.nextFault, hp, sameCore, has]

theorem rejected_removeFiltered (e : Enforcer) (sec pt : String) (idx : Nat) (vals : List String)
    (has : e.autoSave = true) (hr : Rejecting e.adapter) :
    sameCore e (e.removeFiltered sec pt idx vals).1 ∧
    ((e.removeFiltered sec pt idx vals).2 = .err .adapter ∨ (e.removeFiltered sec pt idx vals).2 = .rules false []) := by
  obtain ⟨f, rest, hp, hf⟩ := hr
  unfold Enforcer.removeFiltered
  simp only [has, if_true]
  rcases hf with h | h <;> subst h <;>
    simp [AdapterSt.removeFiltered, AdapterSt.nextFault, hp, sameCore, has]

theorem rejected_clear (e : Enforcer) (has : e.autoSave = true) (hr : Rejecting e.adapter) :
    sameCore e e.clearPolicy.1 ∧ e.clearPolicy.2 = .err .adapter := by
  obtain ⟨f, rest, hp, hf⟩ := hr
  unfold Enforcer.clearPolicy
  simp only [has, if_true]
  rcases hf with h | h <;> subst h <;>
    simp [AdapterSt.clear, AdapterSt.nextFault, hp, sameCore, has]

/-- decisions are a function of the core: after a rejected call every `enforce` is as before -/
theorem enforce_depends_on_core (e e' : Enforcer) (h : sameCore e e') (call : String → List String → Option Atom)
    (tbl : String → Option Expr) (req : List Val) :
    e'.enforce call tbl req = e.enforce call tbl req := by
  obtain ⟨h1, h2, h3, h4, h5, _, _, _⟩ := h
  unfold Enforcer.enforce Enforcer.evalCfg Enforcer.evalCfgKeys Enforcer.matchFn Enforcer.env
  rw [h1, h2, h3, h4, h5]

/-- **A failing load keeps the previous policy**: whatever the adapter delivered before it
failed (`a`, `s`), the store is the old one again and the result is an error. -/
theorem failed_load_keeps_policy (e : Enforcer) (a : AdapterSt) (s : Store) :
    (e.finishLoad e.store a s none).1.store = e.store ∧
    (e.finishLoad e.store a s none).2 = .err .adapter := by
  unfold Enforcer.finishLoad
  simp only
  constructor
  · split <;> simp [Enforcer.buildRoleLinks]
  · trivial

/-- role links after a failed load are those of a rebuild from the old rules -/
theorem failed_load_links (e : Enforcer) (a : AdapterSt) (s : Store) (hb : e.autoBuild = true) :
    (e.finishLoad e.store a s none).1.rm = (Casbin.buildRoleLinks e.rm e.store.g).1 := by
  unfold Enforcer.finishLoad
  simp [hb, Enforcer.buildRoleLinks]

theorem addLink_maxLevel (rm : RoleMgr String) (a b d : String) : (rm.addLink a b d).maxLevel = rm.maxLevel := by
  simp only [RoleMgr.addLink]; split <;> rfl

theorem linkOp_insert_maxLevel (arity : Nat) (rm rm' : RoleMgr String) (rule : Rule)
    (h : linkOp arity true rm rule = .ok rm') : rm'.maxLevel = rm.maxLevel := by
  unfold linkOp at h
  split at h
  · cases h
  · split at h
    · simp only [if_true] at h; cases h; exact addLink_maxLevel _ _ _ _
    · split at h
      · simp only [if_true] at h; cases h; exact addLink_maxLevel _ _ _ _
      · split at h
        · cases h
        · cases h; rfl

theorem buildDef_go_maxLevel (d : PolDef) (rules : List Rule) (rm : RoleMgr String) :
    (buildDef.go d rm rules).1.maxLevel = rm.maxLevel := by
  induction rules generalizing rm with
  | nil => rfl
  | cons r rs ih =>
    simp only [buildDef.go]
    cases hl : linkOp d.arity true rm r with
    | error k => rfl
    | ok rm' => simp only []; rw [ih, linkOp_insert_maxLevel _ _ _ _ hl]

theorem buildDef_maxLevel (rm : RoleMgr String) (d : PolDef) : (buildDef rm d).1.maxLevel = rm.maxLevel := by
  unfold buildDef
  split
  · rfl
  · exact buildDef_go_maxLevel d d.policy rm

theorem buildRoleLinks_go_maxLevel (gs : List PolDef) (rm : RoleMgr String) :
    (Casbin.buildRoleLinks.go rm gs).1.maxLevel = rm.maxLevel := by
  induction gs generalizing rm with
  | nil => rfl
  | cons d ds ih =>
    simp only [Casbin.buildRoleLinks.go]
    have hd := buildDef_maxLevel rm d
    cases hb : buildDef rm d with
    | mk rm' r =>
      rw [hb] at hd
      cases r with
      | none => simp only []; rw [ih]; exact hd
      | some k => exact hd

theorem buildRoleLinks_maxLevel (rm : RoleMgr String) (gs : List PolDef) :
    (Casbin.buildRoleLinks rm gs).1.maxLevel = rm.maxLevel := by
  unfold Casbin.buildRoleLinks
  rw [buildRoleLinks_go_maxLevel]
  rfl

/-- **a load that fails in the role-link rebuild** (the adapter delivered every rule, `some ()`, but a delivered
grouping rule cannot be linked): the previous rules are back, the error is reported, and the role graph is the
one a rebuild of the previous rules produces — cleared first, so that nothing of the rejected policy survives
(what the seeded changes C05-7 and C10-8 break) -/
theorem failed_rebuild_restores (e : Enforcer) (a : AdapterSt) (s : Store) (hb : e.autoBuild = true) (k : ErrKind)
    (hfail : (Casbin.buildRoleLinks e.rm s.g).2 = some k) :
    (e.finishLoad e.store a s (some ())).1.store = e.store ∧
    (e.finishLoad e.store a s (some ())).2 = .err k ∧
    (e.finishLoad e.store a s (some ())).1.rm =
      (Casbin.buildRoleLinks (Casbin.buildRoleLinks e.rm s.g).1 e.store.g).1 := by
  unfold Enforcer.finishLoad
  simp only [hb, if_true, Enforcer.buildRoleLinks, hfail]
  simp

/-- … and that graph does not depend on what the failed rebuild left behind: a rebuild starts from the cleared
manager (same hierarchy limit) -/
theorem failed_rebuild_links_clean (e : Enforcer) (s : Store) :
    (Casbin.buildRoleLinks (Casbin.buildRoleLinks e.rm s.g).1 e.store.g) = Casbin.buildRoleLinks e.rm e.store.g := by
  have hm : (Casbin.buildRoleLinks e.rm s.g).1.maxLevel = e.rm.maxLevel := buildRoleLinks_maxLevel e.rm s.g
  have hc : (Casbin.buildRoleLinks e.rm s.g).1.clear = e.rm.clear := by simp [RoleMgr.clear, hm]
  show Casbin.buildRoleLinks.go (Casbin.buildRoleLinks e.rm s.g).1.clear e.store.g = Casbin.buildRoleLinks.go e.rm.clear e.store.g
  rw [hc]

/-- with automatic link building **off**, a failing load leaves the role graph exactly as it was - whatever lag there is
between it and the stored rules stays (no link is built or dropped by the error path) -/
theorem failed_load_links_manual (e : Enforcer) (a : AdapterSt) (s : Store) (hb : e.autoBuild = false) :
    (e.finishLoad e.store a s none).1.rm = e.rm := by
  unfold Enforcer.finishLoad
  simp [hb]

/-- **a `save_policy` the adapter fails changes nothing the property speaks about**: rules, role graph, switches and
log are as before; only the adapter's own state is the one it returned -/
theorem failed_save_changes_nothing (e : Enforcer) (hf : e.adapter.filtered = false) (a : AdapterSt)
    (hfail : e.adapter.save e.store = (a, none)) :
    e.savePolicy.1 = { e with adapter := a } ∧ sameCore e e.savePolicy.1 ∧ (∃ k, e.savePolicy.2 = .err k) := by
  have h1 : e.savePolicy = ({ e with adapter := a }, .err (e.adapter.saveErr e.store)) := by
    unfold Enforcer.savePolicy
    rw [if_neg (by rw [hf]; exact Bool.false_ne_true), hfail]
  rw [h1]
  exact ⟨rfl, ⟨rfl, rfl, rfl, rfl, rfl, rfl, rfl, rfl⟩, _, rfl⟩

/-- … and an adapter that rejects the call (the injected error / refusal) keeps its lines and its text: the store still
holds the old policy -/
theorem rejected_save_keeps_store (a : AdapterSt) (s : Store) (hr : Rejecting a) :
    (a.save s).2 = none ∧ (a.save s).1.lines = a.lines ∧ (a.save s).1.text = a.text := by
  obtain ⟨f, rest, hp, hf⟩ := hr
  unfold AdapterSt.save AdapterSt.nextFault
  rw [hp]
  rcases hf with h | h <;> subst h <;> exact ⟨rfl, rfl, rfl⟩

/-! ### atomic save -/

theorem read_set_same (fs : Fs) (p : String) (c : Bytes) : (fs.set p c).read p = some c := by
  simp [Fs.set, Fs.read, List.lookup]

theorem read_set_other (fs : Fs) (p q : String) (c : Bytes) (h : q ≠ p) : (fs.set p c).read q = fs.read q := by
  simp only [Fs.set, Fs.read, List.lookup]
  have : (q == p) = false := by simp [h]
  simp only [this]
  induction fs.files with
  | nil => rfl
  | cons f fs ih =>
    by_cases hf : f.1 = p
    · simp only [List.filter, hf, ne_eq, not_true_eq_false, decide_false]
      rw [ih]
      obtain ⟨f1, f2⟩ := f
      simp only at hf; subst hf
      simp [List.lookup, this]
    · simp only [List.filter, hf, ne_eq, not_false_eq_true, decide_true]
      obtain ⟨f1, f2⟩ := f
      simp only [List.lookup]
      rw [ih]

theorem read_remove_other (fs : Fs) (p q : String) (h : q ≠ p) : (fs.remove p).read q = fs.read q := by
  simp only [Fs.remove, Fs.read]
  induction fs.files with
  | nil => rfl
  | cons f fs ih =>
    obtain ⟨f1, f2⟩ := f
    by_cases hf : f1 = p
    · subst hf
      have : (q == f1) = false := by simp [h]
      simp only [ne_eq, decide_not] at ih
      simp [List.filter, List.lookup, this, ih]
    · simp only [List.filter, hf, ne_eq, not_false_eq_true, decide_true, List.lookup]
      rw [ih]

theorem tmp_ne (path : String) : path ≠ path ++ ".tmp" := by
  intro h
  have := congrArg String.length h
  simp at this

/-- **Atomic save**: at every crash point and for every write budget, the policy file holds
the old contents or the complete new text. -/
theorem save_atomic (fs : Fs) (path : String) (text : Bytes) (k : Nat) :
    ∀ st ∈ saveAtomicStates fs path text k, st.read path = fs.read path ∨ st.read path = some text := by
  have hne := tmp_ne path
  intro st hst
  unfold saveAtomicStates at hst
  simp only at hst
  split at hst
  · simp only [List.mem_cons, List.mem_singleton, List.not_mem_nil, or_false] at hst
    rcases hst with h | h | h | h <;> subst h
    · exact Or.inl rfl
    · exact Or.inl (read_set_other _ _ _ _ hne)
    · left; rw [read_set_other _ _ _ _ hne, read_set_other _ _ _ _ hne]
    · left; rw [read_remove_other _ _ _ hne, read_set_other _ _ _ _ hne, read_set_other _ _ _ _ hne]
  · simp only [List.mem_cons, List.mem_singleton, List.not_mem_nil, or_false] at hst
    rcases hst with h | h | h | h <;> subst h
    · exact Or.inl rfl
    · exact Or.inl (read_set_other _ _ _ _ hne)
    · left; rw [read_set_other _ _ _ _ hne, read_set_other _ _ _ _ hne]
    · right
      unfold Fs.rename
      rw [read_set_same]
      simp only
      exact read_set_same _ _ _

/-- the final state: new text iff the write succeeded, old contents otherwise -/
theorem save_final (fs : Fs) (path : String) (text : Bytes) (k : Nat) :
    ((saveAtomicStates fs path text k).getLast?.bind (·.read path)) =
      if saveAtomicOk text k then some text else fs.read path := by
  have hne := tmp_ne path
  unfold saveAtomicStates saveAtomicOk
  by_cases hk : k < text.length
  · simp only [hk, if_true, decide_true, Bool.not_true, Bool.false_eq_true, if_false]
    simp only [List.getLast?, List.getLast, Option.bind]
    rw [read_remove_other _ _ _ hne, read_set_other _ _ _ _ hne, read_set_other _ _ _ _ hne]
  · simp only [hk, if_false, decide_false, Bool.not_false, if_true]
    simp only [List.getLast?, List.getLast, Option.bind]
    unfold Fs.rename
    rw [read_set_same]
    exact read_set_same _ _ _

/-- the pre-repair code was not atomic: a budget of 3 bytes truncates (regression witness, F5) -/
example : ∃ st ∈ saveTruncatingStates ⟨[("p.csv", [1, 2, 3, 4, 5])]⟩ "p.csv" [9, 9, 9, 9, 9, 9] 3,
    st.read "p.csv" ≠ some [1, 2, 3, 4, 5] ∧ st.read "p.csv" ≠ some [9, 9, 9, 9, 9, 9] :=
  ⟨(Fs.set ⟨[("p.csv", [1, 2, 3, 4, 5])]⟩ "p.csv" []).set "p.csv" [9, 9, 9], by simp [saveTruncatingStates], by decide⟩

end Casbin.C10
