import CasbinModel.Lemmas.Links
import CasbinModel.Props.C03
import CasbinModel.Lemmas.Store
import CasbinModel.Lemmas.AutoSave
/-!
# C05 — The role graph always reflects the stored grouping rules   (*partial*, see below)

Proved here, for one role definition of arity 2 or 3 whose rules have at least `arity`
fields (longer rules allowed):

* a full rebuild yields a graph that holds exactly the links implied by the stored rules;
* the incremental update after an addition / a removal keeps that relation
  (`SyncedWith`), including removal of one of several rules that imply the same link
  and removal of self-link rules;
* two managers that hold the same links answer every query alike when hierarchies are
  below the depth limit — so an explicit rebuild changes nothing.

Not mechanised (validated by the correspondence run only): the enforcer-level glue
that decides *which* of these updates each API call performs.  False on the current
tree and recorded as a known finding: several role definitions share one role
manager (`shared-role-manager`, see C19).
-/
namespace Casbin.C05
open Casbin

/-- a full rebuild of one definition: succeeds and is in sync -/
theorem rebuild_synced (arity : Nat) (ha : arity = 2 ∨ arity = 3) (rm : RoleMgr String) (d : PolDef)
    (hd : d.arity = arity) (hwf : WFRules arity d.policy) :
    ∃ rm', buildRoleLinks rm [d] = (rm', none) ∧ SyncedWith arity rm' d.policy ∧ rm'.WF := by
  have h2 : ¬ d.arity < 2 := by rw [hd]; rcases ha with h | h <;> omega
  obtain ⟨rm', h1, hs, hw⟩ := buildGo_synced ha d.policy rm.clear [] d hd hwf (synced_clear arity rm) (WF_clear rm)
  refine ⟨rm', ?_, by simpa using hs, hw⟩
  simp [buildRoleLinks, buildRoleLinks.go, buildDef, h2, h1]

/-- incremental update after adding rules `new` (the store now holds `old ++ new'` for
some `new'` with the same members — only membership matters) -/
theorem incr_add_synced (arity : Nat) (ha : arity = 2 ∨ arity = 3) (rm : RoleMgr String) (d : PolDef)
    (hd : d.arity = arity) (old new : List Rule) (hwf : WFRules arity new)
    (hs : SyncedWith arity rm old) (hw : rm.WF) :
    ∃ rm', buildIncremental rm d true new = (rm', none) ∧ SyncedWith arity rm' (old ++ new) ∧ rm'.WF := by
  have h2 : 2 ≤ d.arity := by rw [hd]; rcases ha with h | h <;> omega
  rw [incrInsert_eq_buildGo d h2 new (by rw [hd]; exact hwf)]
  exact buildGo_synced ha new rm old d hd hwf hs hw

/-- incremental update after removing rules `removed`; `d.policy` is the policy *after*
the store update.  Never fails, and the graph is in sync with what is left — also when
several removed or remaining rules imply the same link, and for self-link rules. -/
theorem incr_remove_synced (arity : Nat) (ha : arity = 2 ∨ arity = 3) (rm : RoleMgr String) (d : PolDef)
    (hd : d.arity = arity) (removed : List Rule) (hpol : WFRules arity d.policy) (hwf : WFRules arity removed)
    (hs : SyncedWith arity rm (d.policy ++ removed)) (hw : rm.WF) :
    ∃ rm', buildIncremental rm d false removed = (rm', none) ∧ SyncedWith arity rm' d.policy ∧ rm'.WF := by
  have h2 : ¬ d.arity < 2 := by rw [hd]; rcases ha with h | h <;> omega
  have hinit : Removing arity rm d.policy removed (d.policy ++ removed) := by
    refine ⟨hw, ?_, ?_, ?_⟩
    · intro dd a b ⟨hne, r, hr, hl⟩
      exact (hs dd a b).mpr ⟨hne, r, by simp [hr], hl⟩
    · intro dd a b he; exact (hs dd a b).mp he
    · intro r hr hne
      have he : ((linkOf arity r).1, (linkOf arity r).2.1) ∈ (rm.graph (linkOf arity r).2.2).edges :=
        (hs _ _ _).mpr ⟨hne, r, hr, rfl⟩
      exact (hw _).edges_in _ he
  obtain ⟨rm', h1, hr⟩ := removeGo_synced ha d hd hpol (d.policy ++ removed) removed rm hwf
    (fun r h => by simp [h]) hinit
  refine ⟨rm', by simp [buildIncremental, h2, h1], ?_, hr.wf⟩
  intro dd a b
  constructor
  · intro he; simpa using hr.only dd a b he
  · exact hr.keep dd a b

/-! ### Enforcer level: the invariant over API histories (one role definition) -/

/-- the enforcer's graph holds exactly the links implied by the stored rules of its (single) role
definition, whose rules are long enough -/
def GSync (e : Enforcer) : Prop :=
  ∃ d, e.store.g = [d] ∧ (d.arity = 2 ∨ d.arity = 3) ∧ WFRules d.arity d.policy ∧
    SyncedWith d.arity e.rm d.policy ∧ e.rm.WF

theorem emit_rm_store (x : Enforcer) (ev : Event) : (x.emit ev).rm = x.rm ∧ (x.emit ev).store = x.store ∧
    (x.emit ev).autoBuild = x.autoBuild := by
  unfold Enforcer.emit; split <;> exact ⟨rfl, rfl, rfl⟩

theorem find_g_single (s : Store) (d : PolDef) (h : s.g = [d]) (pt : String) :
    s.find "g" pt = if d.key = pt then some d else none := by
  unfold Store.find Store.sec
  simp only [h]
  by_cases hk : d.key = pt <;> simp [hk]

theorem update_g_single (s : Store) (d : PolDef) (h : s.g = [d]) (f : PolDef → PolDef) :
    (s.update "g" d.key f).g = [f d] := by
  unfold Store.update Store.setSec Store.sec updDef
  simp [h]

theorem update_p_keeps_g (s : Store) (pt : String) (f : PolDef → PolDef) : (s.update "p" pt f).g = s.g := by
  unfold Store.update Store.setSec
  simp

/-- the model-side part of `add_policy_internal("g", key, rule)` keeps the invariant: if the rule is new
its link is added incrementally, if it is already stored nothing changes -/
theorem gsync_add_g (e : Enforcer) (h : GSync e) (hs : e.autoSave = false) (hb : e.autoBuild = true)
    (pt : String) (rule : Rule) (hlen : ∀ d, e.store.g = [d] → d.arity ≤ rule.length) :
    GSync (e.addPolicy "g" pt rule).1 := by
  obtain ⟨d, hg, ha, hwf, hsync, hw⟩ := h
  have hl := hlen d hg
  unfold Enforcer.addPolicy
  simp only [hs, Bool.false_eq_true, if_false]
  unfold Store.addPolicy
  rw [find_g_single e.store d hg pt]
  by_cases hk : d.key = pt
  · subst hk
    simp only [if_true]
    by_cases hin : rule ∈ d.policy
    · -- already stored: no change, no link update
      have hadd : OrdSet.add d.policy rule = (d.policy, false) := by simp [OrdSet.add, hin]
      simp only [hadd, Bool.false_and, Bool.false_eq_true, if_false]
      unfold Enforcer.linkUpdate
      simp only [Bool.not_false, Bool.true_or, if_true]
      refine ⟨d, ?_, ha, hwf, hsync, hw⟩
      rw [update_g_single e.store d hg]
      simp only [hadd]
    · have hadd : OrdSet.add d.policy rule = (d.policy ++ [rule], true) := by simp [OrdSet.add, hin]
      simp only [hadd, Bool.true_and]
      -- the event (if any) does not touch graph, store or the auto-build switch
      have key : ∀ (x : Enforcer), x.rm = e.rm → x.autoBuild = true →
          x.store.g = [{ d with policy := d.policy ++ [rule] }] →
          GSync (x.linkUpdate true "g" d.key true [rule] (.bool true)).1 := by
        intro x hrm hab hxg
        unfold Enforcer.linkUpdate
        simp only [Bool.not_true, Bool.false_or, ne_eq, not_true_eq_false, decide_false, hab, Bool.false_eq_true, if_false]
        rw [find_g_single x.store _ hxg d.key]
        simp only [if_true]
        obtain ⟨rm', h1, h2, h3⟩ := incr_add_synced d.arity ha x.rm { d with policy := d.policy ++ [rule] } rfl
          d.policy [rule] (by intro r hr; simp at hr; subst hr; exact hl) (hrm ▸ hsync) (hrm ▸ hw)
        rw [h1]
        refine ⟨{ d with policy := d.policy ++ [rule] }, hxg, ha, ?_, h2, h3⟩
        intro r hr
        rcases List.mem_append.mp hr with h | h
        · exact hwf r h
        · simp at h; subst h; exact hl
      have hg' : (e.store.update "g" d.key (fun d => { d with policy := (OrdSet.add d.policy rule).1 })).g =
          [{ d with policy := d.policy ++ [rule] }] := by
        rw [update_g_single e.store d hg]; simp only [hadd]
      split
      · apply key
        · exact (emit_rm_store _ _).1
        · rw [(emit_rm_store _ _).2.2]; exact hb
        · rw [(emit_rm_store _ _).2.1]; exact hg'
      · exact key _ rfl hb hg'
  · -- unknown policy type: nothing stored, nothing linked
    simp only [hk, if_false, Bool.false_and, Bool.false_eq_true]
    unfold Enforcer.linkUpdate
    simp only [Bool.not_false, Bool.true_or, if_true]
    exact ⟨d, hg, ha, hwf, hsync, hw⟩

/-- permission rules never touch the graph -/
theorem gsync_add_p (e : Enforcer) (h : GSync e) (hs : e.autoSave = false) (pt : String) (rule : Rule) :
    GSync (e.addPolicy "p" pt rule).1 := by
  obtain ⟨d, hg, ha, hwf, hsync, hw⟩ := h
  unfold Enforcer.addPolicy
  simp only [hs, Bool.false_eq_true, if_false]
  have hlu : ∀ (x : Enforcer) (c : Bool) (ret : Res), (x.linkUpdate c "p" pt true [rule] ret).1 = x := by
    intro x c ret
    unfold Enforcer.linkUpdate
    simp
  rw [hlu]
  have hgs : (e.store.addPolicy "p" pt rule).1.g = e.store.g := by
    unfold Store.addPolicy
    cases e.store.find "p" pt with
    | none => rfl
    | some _ => exact update_p_keeps_g _ _ _
  split
  · refine ⟨d, ?_, ha, hwf, ?_, ?_⟩
    · rw [(emit_rm_store _ _).2.1]; simpa [hgs] using hg
    · rw [(emit_rm_store _ _).1]; exact hsync
    · rw [(emit_rm_store _ _).1]; exact hw
  · exact ⟨d, by simpa [hgs] using hg, ha, hwf, hsync, hw⟩

theorem synced_congr {arity : Nat} {rm : RoleMgr String} {l1 l2 : List Rule} (hm : ∀ r, r ∈ l1 ↔ r ∈ l2)
    (h : SyncedWith arity rm l1) : SyncedWith arity rm l2 := by
  intro dd a b
  rw [h dd a b]
  unfold Implied
  constructor
  · rintro ⟨hne, r, hr, hl⟩; exact ⟨hne, r, (hm r).mp hr, hl⟩
  · rintro ⟨hne, r, hr, hl⟩; exact ⟨hne, r, (hm r).mpr hr, hl⟩

/-- the model-side part of `remove_policy_internal("g", key, rule)` keeps the invariant — also when another
stored rule still implies the same link, and for self-link rules -/
theorem gsync_remove_g (e : Enforcer) (h : GSync e) (hs : e.autoSave = false) (hb : e.autoBuild = true)
    (pt : String) (rule : Rule) :
    GSync (e.removePolicy "g" pt rule).1 := by
  obtain ⟨d, hg, ha, hwf, hsync, hw⟩ := h
  unfold Enforcer.removePolicy
  simp only [hs, Bool.false_eq_true, if_false]
  unfold Store.removePolicy
  rw [find_g_single e.store d hg pt]
  by_cases hk : d.key = pt
  · subst hk
    simp only [if_true]
    by_cases hin : rule ∈ d.policy
    · have hrm : OrdSet.remove d.policy rule = (d.policy.erase rule, true) := by
        simp [OrdSet.remove, hin]
        first | rfl | exact (erase_inst_irrel _ _) | exact (erase_inst_irrel _ _).symm
      simp only [hrm, Bool.true_and]
      have hl : d.arity ≤ rule.length := hwf rule hin
      have key : ∀ (x : Enforcer), x.rm = e.rm → x.autoBuild = true →
          x.store.g = [{ d with policy := d.policy.erase rule }] →
          GSync (x.linkUpdate true "g" d.key false [rule] (.bool true)).1 := by
        intro x hrm' hab hxg
        unfold Enforcer.linkUpdate
        simp only [Bool.not_true, Bool.false_or, ne_eq, not_true_eq_false, decide_false, hab, Bool.false_eq_true, if_false]
        rw [find_g_single x.store _ hxg d.key]
        simp only [if_true]
        have hwf' : WFRules d.arity (d.policy.erase rule) := fun r hr => hwf r (List.mem_of_mem_erase hr)
        have hmem : ∀ r, r ∈ d.policy ↔ r ∈ d.policy.erase rule ++ [rule] := by
          intro r
          simp only [List.mem_append, List.mem_singleton]
          constructor
          · intro hr
            by_cases hrr : r = rule
            · exact Or.inr hrr
            · exact Or.inl ((List.mem_erase_of_ne hrr).mpr hr)
          · rintro (hr | hr)
            · exact List.mem_of_mem_erase hr
            · subst hr; exact hin
        obtain ⟨rm', h1, h2, h3⟩ := incr_remove_synced d.arity ha x.rm { d with policy := d.policy.erase rule } rfl
          [rule] hwf' (by intro r hr; simp at hr; subst hr; exact hl)
          (hrm' ▸ synced_congr hmem hsync) (hrm' ▸ hw)
        rw [h1]
        exact ⟨{ d with policy := d.policy.erase rule }, hxg, ha, hwf', h2, h3⟩
      have hg' : (e.store.update "g" d.key (fun d => { d with policy := (OrdSet.remove d.policy rule).1 })).g =
          [{ d with policy := d.policy.erase rule }] := by
        rw [update_g_single e.store d hg]; simp only [hrm]
      split
      · apply key
        · exact (emit_rm_store _ _).1
        · rw [(emit_rm_store _ _).2.2]; exact hb
        · rw [(emit_rm_store _ _).2.1]; exact hg'
      · exact key _ rfl hb hg'
    · have hrm : OrdSet.remove d.policy rule = (d.policy, false) := by simp [OrdSet.remove, hin]
      simp only [hrm, Bool.false_and, Bool.false_eq_true, if_false]
      unfold Enforcer.linkUpdate
      simp only [Bool.not_false, Bool.true_or, if_true]
      refine ⟨d, ?_, ha, hwf, hsync, hw⟩
      rw [update_g_single e.store d hg]
      simp only [hrm]
  · simp only [hk, if_false, Bool.false_and, Bool.false_eq_true]
    unfold Enforcer.linkUpdate
    simp only [Bool.not_false, Bool.true_or, if_true]
    exact ⟨d, hg, ha, hwf, hsync, hw⟩

theorem gsync_remove_p (e : Enforcer) (h : GSync e) (hs : e.autoSave = false) (pt : String) (rule : Rule) :
    GSync (e.removePolicy "p" pt rule).1 := by
  obtain ⟨d, hg, ha, hwf, hsync, hw⟩ := h
  unfold Enforcer.removePolicy
  simp only [hs, Bool.false_eq_true, if_false]
  have hlu : ∀ (x : Enforcer) (c : Bool) (ret : Res), (x.linkUpdate c "p" pt false [rule] ret).1 = x := by
    intro x c ret
    unfold Enforcer.linkUpdate
    simp
  rw [hlu]
  have hgs : (e.store.removePolicy "p" pt rule).1.g = e.store.g := by
    unfold Store.removePolicy
    cases e.store.find "p" pt with
    | none => rfl
    | some _ => exact update_p_keeps_g _ _ _
  split
  · refine ⟨d, ?_, ha, hwf, ?_, ?_⟩
    · rw [(emit_rm_store _ _).2.1]; simpa [hgs] using hg
    · rw [(emit_rm_store _ _).1]; exact hsync
    · rw [(emit_rm_store _ _).1]; exact hw
  · exact ⟨d, by simpa [hgs] using hg, ha, hwf, hsync, hw⟩

/-- hierarchies below the depth limit: every reachable pair is reachable by a short chain -/
def Shallow (g : Graph String) (n : Nat) : Prop := ∀ a b, Reach g a b → ∃ L, L < n ∧ Path g a b L

theorem path_congr {g1 g2 : Graph String} (he : ∀ x y, (x, y) ∈ g1.edges ↔ (x, y) ∈ g2.edges)
    {a b : String} {n : Nat} (hp : Path g1 a b n) : Path g2 a b n := by
  induction hp with
  | nil a => exact Path.nil _
  | cons h _ ih => exact Path.cons ((he _ _).mp h) ih

/-- **An explicit rebuild changes no answer**: two well-formed managers that hold the same
links (as `SyncedWith` the same rules guarantees) answer `has_link`, `get_roles`,
`get_users` alike, for hierarchies below the depth limit. -/
theorem same_links_same_answers (rm1 rm2 : RoleMgr String) (hw1 : rm1.WF) (hw2 : rm2.WF)
    (hm : rm1.maxLevel = rm2.maxLevel) (d : String)
    (he : ∀ x y, (x, y) ∈ (rm1.graph d).edges ↔ (x, y) ∈ (rm2.graph d).edges)
    (hsh : Shallow (rm1.graph d) rm1.maxLevel) (a b : String) :
    rm1.hasLink a b d = rm2.hasLink a b d ∧
    (∀ x, x ∈ rm1.getRoles a d ↔ x ∈ rm2.getRoles a d) ∧
    (∀ x, x ∈ rm1.getUsers a d ↔ x ∈ rm2.getUsers a d) := by
  refine ⟨?_, ?_, ?_⟩
  · have fwd : rm1.hasLink a b d = true → rm2.hasLink a b d = true := by
      intro h
      apply C03.hasLink_complete rm2 hw2
      rcases C03.hasLink_sound rm1 a b d h with h1 | h1
      · exact Or.inl h1
      · obtain ⟨L, hL, hp⟩ := hsh a b h1
        exact Or.inr ⟨L, by rw [← hm]; exact hL, path_congr he hp⟩
    have bwd : rm2.hasLink a b d = true → rm1.hasLink a b d = true := by
      intro h
      apply C03.hasLink_complete rm1 hw1
      rcases C03.hasLink_sound rm2 a b d h with h1 | h1
      · exact Or.inl h1
      · obtain ⟨n, hp⟩ := h1
        have hp1 : Path (rm1.graph d) a b n := path_congr (fun x y => (he x y).symm) hp
        exact Or.inr (hsh a b ⟨n, hp1⟩)
    cases h1 : rm1.hasLink a b d <;> cases h2 : rm2.hasLink a b d <;> simp_all
  · intro x; rw [C03.getRoles_eq rm1 hw1, C03.getRoles_eq rm2 hw2]; exact he a x
  · intro x; rw [C03.getUsers_eq rm1 hw1, C03.getUsers_eq rm2 hw2]; exact he x a

/-- both in sync with the same rules ⇒ same links -/
theorem synced_same_links (arity : Nat) (rm1 rm2 : RoleMgr String) (rules : List Rule)
    (h1 : SyncedWith arity rm1 rules) (h2 : SyncedWith arity rm2 rules) (d x y : String) :
    (x, y) ∈ (rm1.graph d).edges ↔ (x, y) ∈ (rm2.graph d).edges := by
  rw [h1 d x y, h2 d x y]

/-! ### Every history of single additions / removals, and what an explicit rebuild then does -/

/-! ### The batch and filtered operations -/

theorem linkUpdate_nochange (x : Enforcer) (sec pt : String) (ins : Bool) (rules : List Rule) (ret : Res) :
    (x.linkUpdate false sec pt ins rules ret).1 = x := by
  unfold Enforcer.linkUpdate; simp

theorem linkUpdate_p (x : Enforcer) (c : Bool) (pt : String) (ins : Bool) (rules : List Rule) (ret : Res) :
    (x.linkUpdate c "p" pt ins rules ret).1 = x := by
  unfold Enforcer.linkUpdate; simp

theorem gsync_emit (x : Enforcer) (ev : Event) (h : GSync x) : GSync (x.emit ev) := by
  unfold GSync at *
  rw [(emit_rm_store _ _).1, (emit_rm_store _ _).2.1]; exact h

/-- the store now holds `pol'` (the old rules and `new`, as a set) and the links of `new` are added -/
theorem gsync_link_insert (x : Enforcer) (d : PolDef) (ha : d.arity = 2 ∨ d.arity = 3) (hwf : WFRules d.arity d.policy)
    (hsync : SyncedWith d.arity x.rm d.policy) (hw : x.rm.WF) (hab : x.autoBuild = true)
    (pol' new : List Rule) (hxg : x.store.g = [{ d with policy := pol' }])
    (hmem : ∀ r, r ∈ pol' ↔ r ∈ d.policy ++ new) (hnew : WFRules d.arity new) (ret : Res) :
    GSync (x.linkUpdate true "g" d.key true new ret).1 := by
  unfold Enforcer.linkUpdate
  simp only [Bool.not_true, Bool.false_or, ne_eq, not_true_eq_false, decide_false, hab, Bool.false_eq_true, if_false]
  rw [find_g_single x.store _ hxg d.key]
  simp only [if_true]
  obtain ⟨rm', h1, h2, h3⟩ := incr_add_synced d.arity ha x.rm { d with policy := pol' } rfl d.policy new hnew hsync hw
  rw [h1]
  refine ⟨{ d with policy := pol' }, hxg, ha, ?_, synced_congr (fun r => (hmem r).symm) h2, h3⟩
  intro r hr
  rcases List.mem_append.mp ((hmem r).mp hr) with h | h
  · exact hwf r h
  · exact hnew r h

/-- the store now holds `pol'` (the old rules are `pol'` and `removed`, as a set) and the links of `removed`
are taken out unless a remaining rule still implies them -/
theorem gsync_link_delete (x : Enforcer) (d : PolDef) (ha : d.arity = 2 ∨ d.arity = 3) (hwf : WFRules d.arity d.policy)
    (hsync : SyncedWith d.arity x.rm d.policy) (hw : x.rm.WF) (hab : x.autoBuild = true)
    (pol' removed : List Rule) (hxg : x.store.g = [{ d with policy := pol' }])
    (hmem : ∀ r, r ∈ d.policy ↔ r ∈ pol' ++ removed) (ret : Res) :
    GSync (x.linkUpdate true "g" d.key false removed ret).1 := by
  unfold Enforcer.linkUpdate
  simp only [Bool.not_true, Bool.false_or, ne_eq, not_true_eq_false, decide_false, hab, Bool.false_eq_true, if_false]
  rw [find_g_single x.store _ hxg d.key]
  simp only [if_true]
  have hwf' : WFRules d.arity pol' := fun r hr => hwf r ((hmem r).mpr (by simp [hr]))
  have hwfr : WFRules d.arity removed := fun r hr => hwf r ((hmem r).mpr (by simp [hr]))
  obtain ⟨rm', h1, h2, h3⟩ := incr_remove_synced d.arity ha x.rm { d with policy := pol' } rfl removed hwf' hwfr
    (synced_congr hmem hsync) hw
  rw [h1]
  exact ⟨{ d with policy := pol' }, hxg, ha, hwf', h2, h3⟩

theorem mem_removeAll_keep (vs : List Rule) (s : List Rule) (x : Rule) (hx : x ∈ s) (hn : x ∉ vs) :
    x ∈ OrdSet.removeAll s vs := by
  induction vs generalizing s with
  | nil => simpa [OrdSet.removeAll] using hx
  | cons v vs ih =>
    have hxv : x ≠ v := fun h => hn (by simp [h])
    have hxvs : x ∉ vs := fun h => hn (by simp [h])
    simp only [OrdSet.removeAll]
    apply ih _ _ hxvs
    unfold OrdSet.remove
    split
    · show x ∈ @List.erase Rule instBEqOfDecidableEq s v
      rw [erase_inst_irrel]
      exact (List.mem_erase_of_ne hxv).mpr hx
    · exact hx

/-- removing rules that are all stored: the old rules are the remaining ones and the removed ones -/
theorem mem_removeAll_split (s vs : List Rule) (hsub : ∀ v ∈ vs, v ∈ s) (x : Rule) :
    x ∈ s ↔ x ∈ OrdSet.removeAll s vs ++ vs := by
  rw [List.mem_append]
  constructor
  · intro hx
    by_cases hv : x ∈ vs
    · exact Or.inr hv
    · exact Or.inl (mem_removeAll_keep vs s x hx hv)
  · rintro (h | h)
    · exact (OrdSet.removeAll_sublist s vs).subset h
    · exact hsub x h

theorem mem_filter_split (s : List Rule) (p : Rule → Bool) (x : Rule) :
    x ∈ s ↔ x ∈ s.filter (fun r => !p r) ++ s.filter p := by
  rw [List.mem_append, List.mem_filter, List.mem_filter]
  constructor
  · intro hx
    by_cases hp : p x = true
    · exact Or.inr ⟨hx, hp⟩
    · exact Or.inl ⟨hx, by simpa using hp⟩
  · rintro (h | h) <;> exact h.1

/-- `add_policies_internal("g", key, rules)`: all-or-nothing — if some rule is already stored nothing changes,
otherwise every rule is stored (a rule listed twice once) and the links of all of them are added -/
theorem gsync_addMany_g (e : Enforcer) (h : GSync e) (hs : e.autoSave = false) (hb : e.autoBuild = true)
    (pt : String) (rules : List Rule) (hlen : ∀ d, e.store.g = [d] → ∀ r ∈ rules, d.arity ≤ r.length) :
    GSync (e.addPolicies "g" pt rules).1 := by
  obtain ⟨d, hg, ha, hwf, hsync, hw⟩ := h
  unfold Enforcer.addPolicies
  simp only [hs, Bool.false_eq_true, if_false]
  unfold Store.addPolicies
  rw [find_g_single e.store d hg pt]
  by_cases hk : d.key = pt
  · subst hk
    simp only [if_true]
    by_cases hany : rules.any (fun r => decide (r ∈ d.policy)) = true
    · simp only [hany, if_true, Bool.false_and, Bool.false_eq_true, if_false]
      rw [linkUpdate_nochange]
      exact ⟨d, hg, ha, hwf, hsync, hw⟩
    · simp only [hany, Bool.false_eq_true, if_false, Bool.true_and]
      have hg' : (e.store.update "g" d.key (fun d => { d with policy := OrdSet.addAll d.policy rules })).g =
          [{ d with policy := OrdSet.addAll d.policy rules }] := update_g_single e.store d hg _
      have hmem : ∀ r, r ∈ OrdSet.addAll d.policy rules ↔ r ∈ d.policy ++ rules := by
        intro r; rw [OrdSet.addAll_mem, List.mem_append]
      split
      · apply gsync_link_insert _ d ha hwf _ _ _ (OrdSet.addAll d.policy rules) rules _ hmem (hlen d hg)
        · rw [(emit_rm_store _ _).1]; exact hsync
        · rw [(emit_rm_store _ _).1]; exact hw
        · rw [(emit_rm_store _ _).2.2]; exact hb
        · rw [(emit_rm_store _ _).2.1]; exact hg'
      · apply gsync_link_insert _ d ha hwf _ _ _ (OrdSet.addAll d.policy rules) rules _ hmem (hlen d hg)
        · exact hsync
        · exact hw
        · exact hb
        · exact hg'
  · simp only [hk, if_false, Bool.false_and, Bool.false_eq_true]
    rw [linkUpdate_nochange]
    exact ⟨d, hg, ha, hwf, hsync, hw⟩

/-- `remove_policies_internal("g", key, rules)`: all-or-nothing — if some rule is not stored nothing changes,
otherwise all are removed (a rule listed twice is removed once, the call still succeeds) and their links are
taken out unless a remaining rule implies them -/
theorem gsync_removeMany_g (e : Enforcer) (h : GSync e) (hs : e.autoSave = false) (hb : e.autoBuild = true)
    (pt : String) (rules : List Rule) :
    GSync (e.removePolicies "g" pt rules).1 := by
  obtain ⟨d, hg, ha, hwf, hsync, hw⟩ := h
  unfold Enforcer.removePolicies
  simp only [hs, Bool.false_eq_true, if_false]
  unfold Store.removePolicies
  rw [find_g_single e.store d hg pt]
  by_cases hk : d.key = pt
  · subst hk
    simp only [if_true]
    by_cases hany : rules.any (fun r => decide (r ∉ d.policy)) = true
    · simp only [hany, if_true, Bool.false_and, Bool.false_eq_true, if_false]
      rw [linkUpdate_nochange]
      exact ⟨d, hg, ha, hwf, hsync, hw⟩
    · simp only [hany, Bool.false_eq_true, if_false, Bool.true_and]
      have hsub : ∀ v ∈ rules, v ∈ d.policy := by
        intro v hv
        by_cases hc : v ∈ d.policy
        · exact hc
        · exact absurd (List.any_eq_true.mpr ⟨v, hv, by simpa using hc⟩) hany
      have hg' : (e.store.update "g" d.key (fun d => { d with policy := OrdSet.removeAll d.policy rules })).g =
          [{ d with policy := OrdSet.removeAll d.policy rules }] := update_g_single e.store d hg _
      have hmem := mem_removeAll_split d.policy rules hsub
      split
      · apply gsync_link_delete _ d ha hwf _ _ _ (OrdSet.removeAll d.policy rules) rules _ hmem
        · rw [(emit_rm_store _ _).1]; exact hsync
        · rw [(emit_rm_store _ _).1]; exact hw
        · rw [(emit_rm_store _ _).2.2]; exact hb
        · rw [(emit_rm_store _ _).2.1]; exact hg'
      · apply gsync_link_delete _ d ha hwf _ _ _ (OrdSet.removeAll d.policy rules) rules _ hmem
        · exact hsync
        · exact hw
        · exact hb
        · exact hg'
  · simp only [hk, if_false, Bool.false_and, Bool.false_eq_true]
    rw [linkUpdate_nochange]
    exact ⟨d, hg, ha, hwf, hsync, hw⟩

/-- `remove_filtered_policy_internal("g", key, index, values)`: the rules the filter selects are removed and
their links taken out unless a remaining rule implies them; an empty filter or one selecting nothing changes
nothing -/
theorem gsync_removeFiltered_g (e : Enforcer) (h : GSync e) (hs : e.autoSave = false) (hb : e.autoBuild = true)
    (pt : String) (idx : Nat) (vals : List String) :
    GSync (e.removeFiltered "g" pt idx vals).1 := by
  obtain ⟨d, hg, ha, hwf, hsync, hw⟩ := h
  unfold Enforcer.removeFiltered
  simp only [hs, Bool.false_eq_true, if_false]
  unfold Store.removeFiltered
  by_cases hve : vals.isEmpty = true
  · simp only [hve, if_true, Bool.false_and, Bool.false_eq_true, if_false]
    rw [linkUpdate_nochange]
    exact ⟨d, hg, ha, hwf, hsync, hw⟩
  · simp only [hve, Bool.false_eq_true, if_false]
    rw [find_g_single e.store d hg pt]
    by_cases hk : d.key = pt
    · subst hk
      simp only [if_true]
      by_cases hem : (d.policy.filter (filterMatch idx vals)).isEmpty = true
      · simp only [hem, if_true, Bool.false_and, Bool.false_eq_true, if_false]
        rw [linkUpdate_nochange]
        exact ⟨d, hg, ha, hwf, hsync, hw⟩
      · simp only [hem, Bool.false_eq_true, if_false, Bool.true_and]
        have hg' : (e.store.update "g" d.key
            (fun d => { d with policy := d.policy.filter (fun r => !filterMatch idx vals r) })).g =
            [{ d with policy := d.policy.filter (fun r => !filterMatch idx vals r) }] := update_g_single e.store d hg _
        have hmem := mem_filter_split d.policy (filterMatch idx vals)
        split
        · apply gsync_link_delete _ d ha hwf _ _ _ _ _ _ hmem
          · rw [(emit_rm_store _ _).1]; exact hsync
          · rw [(emit_rm_store _ _).1]; exact hw
          · rw [(emit_rm_store _ _).2.2]; exact hb
          · rw [(emit_rm_store _ _).2.1]; exact hg'
        · apply gsync_link_delete _ d ha hwf _ _ _ _ _ _ hmem
          · exact hsync
          · exact hw
          · exact hb
          · exact hg'
    · simp only [hk, if_false, Bool.false_and, Bool.false_eq_true]
      rw [linkUpdate_nochange]
      exact ⟨d, hg, ha, hwf, hsync, hw⟩

/-- batch and filtered calls on permission rules never touch the graph -/
theorem gsync_batch_p (e : Enforcer) (h : GSync e) (hs : e.autoSave = false) (pt : String) (rules : List Rule)
    (idx : Nat) (vals : List String) :
    GSync (e.addPolicies "p" pt rules).1 ∧ GSync (e.removePolicies "p" pt rules).1 ∧
    GSync (e.removeFiltered "p" pt idx vals).1 := by
  have hgs : ∀ (x : Enforcer) (s' : Store), s'.g = x.store.g → GSync x → GSync { x with store := s' } := by
    intro x s' hs' hx
    obtain ⟨d, hg, ha, hwf, hsync, hw⟩ := hx
    exact ⟨d, by simpa [hs'] using hg, ha, hwf, hsync, hw⟩
  refine ⟨?_, ?_, ?_⟩
  · unfold Enforcer.addPolicies
    simp only [hs, Bool.false_eq_true, if_false]
    rw [linkUpdate_p]
    have hg1 : (e.store.addPolicies "p" pt rules).1.g = e.store.g := by
      unfold Store.addPolicies
      cases e.store.find "p" pt with
      | none => rfl
      | some _ => simp only []; split
                  · rfl
                  · exact update_p_keeps_g _ _ _
    split
    · exact gsync_emit _ _ (hgs e _ hg1 h)
    · exact hgs e _ hg1 h
  · unfold Enforcer.removePolicies
    simp only [hs, Bool.false_eq_true, if_false]
    rw [linkUpdate_p]
    have hg1 : (e.store.removePolicies "p" pt rules).1.g = e.store.g := by
      unfold Store.removePolicies
      cases e.store.find "p" pt with
      | none => rfl
      | some _ => simp only []; split
                  · rfl
                  · exact update_p_keeps_g _ _ _
    split
    · exact gsync_emit _ _ (hgs e _ hg1 h)
    · exact hgs e _ hg1 h
  · unfold Enforcer.removeFiltered
    simp only [hs, Bool.false_eq_true, if_false]
    rw [linkUpdate_p]
    have hg1 : (e.store.removeFiltered "p" pt idx vals).1.g = e.store.g := by
      unfold Store.removeFiltered
      split
      · rfl
      · cases e.store.find "p" pt with
        | none => rfl
        | some _ => simp only []; split
                    · rfl
                    · exact update_p_keeps_g _ _ _
    split
    · exact gsync_emit _ _ (hgs e _ hg1 h)
    · exact hgs e _ hg1 h

/-- the five internal management calls, on permission rules and on grouping rules -/
inductive GOp where
  | add (sec pt : String) (rule : Rule)
  | remove (sec pt : String) (rule : Rule)
  | addMany (sec pt : String) (rules : List Rule)
  | removeMany (sec pt : String) (rules : List Rule)
  | removeFiltered (sec pt : String) (idx : Nat) (vals : List String)
  | load
  | loadFiltered (fp fg : List String)
  | clear
  | build
  | setRm (rm0 : RoleMgr String)
  | setModel (defs : Defs) (store : Store)
  | setAdapter (a : AdapterSt)

def GOp.apply (e : Enforcer) : GOp → Enforcer
  | .add sec pt rule => (e.addPolicy sec pt rule).1
  | .remove sec pt rule => (e.removePolicy sec pt rule).1
  | .addMany sec pt rules => (e.addPolicies sec pt rules).1
  | .removeMany sec pt rules => (e.removePolicies sec pt rules).1
  | .removeFiltered sec pt idx vals => (e.removeFiltered sec pt idx vals).1
  | .load => e.loadPolicy.1
  | .loadFiltered fp fg => (e.loadFilteredPolicy fp fg).1
  | .clear => e.clearPolicy.1
  | .build => e.buildRoleLinks.1
  | .setRm rm0 => (e.setRoleManagerWith rm0).1
  | .setModel defs store => (e.setModel defs store).1
  | .setAdapter a => (e.setAdapter a).1

/-- the calls the invariant is stated for: section `p` or `g`, and a grouping rule handed to an addition has
at least as many fields as the role definition -/
def GOp.Ok (e : Enforcer) : GOp → Prop
  | .add sec _ rule => sec = "p" ∨ (sec = "g" ∧ ∀ d, e.store.g = [d] → d.arity ≤ rule.length)
  | .remove sec _ _ => sec = "p" ∨ sec = "g"
  | .addMany sec _ rules => sec = "p" ∨ (sec = "g" ∧ ∀ d, e.store.g = [d] → ∀ r ∈ rules, d.arity ≤ r.length)
  | .removeMany sec _ _ => sec = "p" ∨ sec = "g"
  | .removeFiltered sec _ _ _ => sec = "p" ∨ sec = "g"
  | .load => True
  | .loadFiltered _ _ => True
  | .clear => True
  | .build => True
  | .setRm _ => True
  | .setModel _ store => ∃ d, store.g = [d] ∧ (d.arity = 2 ∨ d.arity = 3)
  | .setAdapter _ => True

theorem linkUpdate_flags (x : Enforcer) (c : Bool) (sec pt : String) (ins : Bool) (rules : List Rule) (ret : Res) :
    (x.linkUpdate c sec pt ins rules ret).1.autoSave = x.autoSave ∧
    (x.linkUpdate c sec pt ins rules ret).1.autoBuild = x.autoBuild := by
  unfold Enforcer.linkUpdate
  split
  · exact ⟨rfl, rfl⟩
  · split
    · exact ⟨rfl, rfl⟩
    · split <;> exact ⟨rfl, rfl⟩

theorem flags_add (e : Enforcer) (sec pt : String) (rule : Rule) (hs : e.autoSave = false) :
    (e.addPolicy sec pt rule).1.autoSave = false ∧ (e.addPolicy sec pt rule).1.autoBuild = e.autoBuild := by
  unfold Enforcer.addPolicy
  simp only [hs, Bool.false_eq_true, if_false]
  rw [(linkUpdate_flags _ _ _ _ _ _ _).1, (linkUpdate_flags _ _ _ _ _ _ _).2]
  split <;> simp [Enforcer.emit, hs] <;> split <;> simp [hs]

theorem flags_remove (e : Enforcer) (sec pt : String) (rule : Rule) (hs : e.autoSave = false) :
    (e.removePolicy sec pt rule).1.autoSave = false ∧ (e.removePolicy sec pt rule).1.autoBuild = e.autoBuild := by
  unfold Enforcer.removePolicy
  simp only [hs, Bool.false_eq_true, if_false]
  rw [(linkUpdate_flags _ _ _ _ _ _ _).1, (linkUpdate_flags _ _ _ _ _ _ _).2]
  split <;> simp [Enforcer.emit, hs] <;> split <;> simp [hs]

theorem flags_addMany (e : Enforcer) (sec pt : String) (rules : List Rule) (hs : e.autoSave = false) :
    (e.addPolicies sec pt rules).1.autoSave = false ∧ (e.addPolicies sec pt rules).1.autoBuild = e.autoBuild := by
  unfold Enforcer.addPolicies
  simp only [hs, Bool.false_eq_true, if_false]
  rw [(linkUpdate_flags _ _ _ _ _ _ _).1, (linkUpdate_flags _ _ _ _ _ _ _).2]
  split <;> simp [Enforcer.emit, hs] <;> split <;> simp [hs]

theorem flags_removeMany (e : Enforcer) (sec pt : String) (rules : List Rule) (hs : e.autoSave = false) :
    (e.removePolicies sec pt rules).1.autoSave = false ∧ (e.removePolicies sec pt rules).1.autoBuild = e.autoBuild := by
  unfold Enforcer.removePolicies
  simp only [hs, Bool.false_eq_true, if_false]
  rw [(linkUpdate_flags _ _ _ _ _ _ _).1, (linkUpdate_flags _ _ _ _ _ _ _).2]
  split <;> simp [Enforcer.emit, hs] <;> split <;> simp [hs]

theorem flags_removeFiltered (e : Enforcer) (sec pt : String) (idx : Nat) (vals : List String) (hs : e.autoSave = false) :
    (e.removeFiltered sec pt idx vals).1.autoSave = false ∧ (e.removeFiltered sec pt idx vals).1.autoBuild = e.autoBuild := by
  unfold Enforcer.removeFiltered
  simp only [hs, Bool.false_eq_true, if_false]
  rw [(linkUpdate_flags _ _ _ _ _ _ _).1, (linkUpdate_flags _ _ _ _ _ _ _).2]
  split <;> simp [Enforcer.emit, hs] <;> split <;> simp [hs]

/-- … hence an explicit `build_role_links` at any point of such a history succeeds and leaves every link
where it was: same edges in every domain (so, by `same_links_same_answers`, the same answers to every
role query and `g` test while hierarchies stay below the depth limit) -/
theorem rebuild_after_history (e : Enforcer) (h : GSync e) :
    ∃ e', e.buildRoleLinks = (e', none) ∧ GSync e' ∧
      ∀ dd x y, (x, y) ∈ (e'.rm.graph dd).edges ↔ (x, y) ∈ (e.rm.graph dd).edges := by
  obtain ⟨d, hg, ha, hwf, hsync, hw⟩ := h
  obtain ⟨rm', h1, h2, h3⟩ := rebuild_synced d.arity ha e.rm d rfl hwf
  refine ⟨{ e with rm := rm' }, ?_, ⟨d, hg, ha, hwf, h2, h3⟩, ?_⟩
  · unfold Enforcer.buildRoleLinks
    rw [hg, h1]
  · intro dd x y
    exact synced_same_links d.arity rm' e.rm d.policy h2 hsync dd x y

/-! ### clear_policy, build_role_links and load_policy -/

/-- a full rebuild that succeeds has seen only rules that are long enough -/
theorem buildGo_ok_wf (d : PolDef) : ∀ (rules : List Rule) (rm rm' : RoleMgr String),
    buildDef.go d rm rules = (rm', none) → WFRules d.arity rules := by
  intro rules
  induction rules with
  | nil => intro _ _ _ r hr; cases hr
  | cons rule rest ih =>
    intro rm rm' h
    simp only [buildDef.go] at h
    cases hl : linkOp d.arity true rm rule with
    | error k => rw [hl] at h; simp at h
    | ok rm1 =>
      rw [hl] at h
      have hlen : d.arity ≤ rule.length := by
        by_cases hc : rule.length < d.arity
        · unfold linkOp at hl; simp [hc] at hl
        · omega
      intro r hr
      rcases List.mem_cons.mp hr with rfl | hr'
      · exact hlen
      · exact ih rm1 rm' h r hr'

/-- the graph after a rebuild of a single definition: in sync exactly when the rebuild reports success -/
theorem rebuild_single (rm : RoleMgr String) (d : PolDef) (ha : d.arity = 2 ∨ d.arity = 3) :
    (∃ rm', buildRoleLinks rm [d] = (rm', none) ∧ WFRules d.arity d.policy ∧ SyncedWith d.arity rm' d.policy ∧ rm'.WF) ∨
    (∃ rm' k, buildRoleLinks rm [d] = (rm', some k)) := by
  cases hr : buildRoleLinks rm [d] with
  | mk rm' res =>
    cases res with
    | some k => exact Or.inr ⟨rm', k, rfl⟩
    | none =>
      left
      have h2 : ¬ d.arity < 2 := by rcases ha with h | h <;> omega
      have hwf : WFRules d.arity d.policy := by
        simp only [buildRoleLinks, buildRoleLinks.go, buildDef, h2, if_false] at hr
        cases hg : buildDef.go d rm.clear d.policy with
        | mk rm1 r1 =>
          rw [hg] at hr
          cases r1 with
          | none => exact buildGo_ok_wf d d.policy rm.clear rm1 hg
          | some k => simp at hr
      obtain ⟨rm2, h1, hs, hw⟩ := rebuild_synced d.arity ha rm d rfl hwf
      rw [hr] at h1
      have : rm' = rm2 := by simpa using congrArg Prod.fst h1
      subst this
      exact ⟨rm', rfl, hwf, hs, hw⟩

/-- the shape the invariant needs of a store: a single role definition of the given key and arity -/
def GShape (s : Store) (key : String) (arity : Nat) : Prop := ∃ d, s.g = [d] ∧ d.key = key ∧ d.arity = arity

theorem gshape_update (s : Store) (key : String) (arity : Nat) (h : GShape s key arity) (sec pt : String)
    (f : List Rule → List Rule) :
    GShape (s.update sec pt (fun d => { d with policy := f d.policy })) key arity := by
  obtain ⟨d, hg, hk, ha⟩ := h
  unfold Store.update Store.setSec Store.sec updDef
  by_cases h1 : sec = "p"
  · subst h1; exact ⟨d, by simpa using hg, hk, ha⟩
  · by_cases h2 : sec = "g"
    · subst h2
      simp only [h1, if_false, if_true, hg, List.map_cons, List.map_nil]
      by_cases hp : d.key = pt
      · exact ⟨{ d with policy := f d.policy }, by simp [hp], hk, ha⟩
      · exact ⟨d, by simp [hp], hk, ha⟩
    · simp only [h1, h2, if_false]; exact ⟨d, hg, hk, ha⟩

theorem gshape_loadRecords (recs : List (String × String × Rule)) (s : Store) (key : String) (arity : Nat)
    (h : GShape s key arity) : GShape (loadRecords s recs) key arity := by
  unfold loadRecords
  induction recs generalizing s with
  | nil => exact h
  | cons r rest ih =>
    obtain ⟨sec, pt, rule⟩ := r
    simp only [List.foldl_cons]
    apply ih
    unfold Store.loadInsert
    exact gshape_update s key arity h sec pt (fun pol => insertMove pol rule)

theorem gshape_clear (s : Store) (key : String) (arity : Nat) (h : GShape s key arity) : GShape s.clear key arity := by
  obtain ⟨d, hg, hk, ha⟩ := h
  exact ⟨{ d with policy := [] }, by simp [Store.clear, hg], hk, ha⟩

theorem gshape_truncate (s : Store) (key : String) (arity : Nat) (h : GShape s key arity) (k : Nat) :
    GShape (s.truncate k) key arity := by
  obtain ⟨d, hg, hk, ha⟩ := h
  unfold Store.truncate
  simp only [hg, truncDefs]
  exact ⟨_, rfl, hk, ha⟩

/-- a rebuild over any store of the right shape either fails or establishes the invariant -/
theorem gsync_of_build (x : Enforcer) (key : String) (arity : Nat) (ha : arity = 2 ∨ arity = 3)
    (hs : GShape x.store key arity) :
    (x.buildRoleLinks.2 = none ∧ GSync x.buildRoleLinks.1) ∨ (∃ k, x.buildRoleLinks.2 = some k) := by
  obtain ⟨d, hg, _, hd⟩ := hs
  have ha' : d.arity = 2 ∨ d.arity = 3 := by rw [hd]; exact ha
  unfold Enforcer.buildRoleLinks
  rw [hg]
  rcases rebuild_single x.rm d ha' with ⟨rm', h1, hwf, hsy, hw⟩ | ⟨rm', k, h1⟩
  · left; rw [h1]; exact ⟨rfl, d, hg, ha', hwf, hsy, hw⟩
  · right; rw [h1]; exact ⟨k, rfl⟩

/-- an explicit `build_role_links` keeps the invariant -/
theorem gsync_build (e : Enforcer) (h : GSync e) : GSync e.buildRoleLinks.1 := by
  obtain ⟨e', h1, h2, _⟩ := rebuild_after_history e h
  rw [h1]; exact h2

/-- **`load_policy` / `load_filtered_policy` keep the invariant whatever the adapter delivers**: if everything
arrives and links, the graph is rebuilt from the new rules; if the adapter fails, delivers only a part, or a
delivered grouping rule is too short to be linked, the previous rules come back and the graph is rebuilt from
them -/
theorem gsync_finishLoad_pre (e : Enforcer) (d : PolDef) (hg : e.store.g = [d]) (ha : d.arity = 2 ∨ d.arity = 3)
    (hwf : WFRules d.arity d.policy) (hb : e.autoBuild = true) (a : AdapterSt) (s : Store)
    (ok : Option Unit) (hshape : GShape s d.key d.arity) :
    GSync (e.finishLoad e.store a s ok).1 := by
  -- restoring the previous rules and rebuilding re-establishes the invariant, whatever the graph holds by then
  have hrestore : ∀ (x : Enforcer), GSync ({ x with store := e.store } : Enforcer).buildRoleLinks.1 := by
    intro x
    rcases gsync_of_build { x with store := e.store } d.key d.arity ha ⟨d, hg, rfl, rfl⟩ with ⟨_, h2⟩ | ⟨k, hk⟩
    · exact h2
    · exfalso
      obtain ⟨rm', h1, _, _⟩ := rebuild_synced d.arity ha x.rm d rfl hwf
      unfold Enforcer.buildRoleLinks at hk
      simp only [hg] at hk
      rw [h1] at hk
      cases hk
  unfold Enforcer.finishLoad
  have hx1 : ({ e with adapter := a, store := s } : Enforcer).autoBuild = true := hb
  have hx2 : GShape ({ e with adapter := a, store := s } : Enforcer).store d.key d.arity := hshape
  generalize ({ e with adapter := a, store := s } : Enforcer) = x at hx1 hx2 ⊢
  cases ok with
  | none =>
    simp only [hx1, if_true]
    exact hrestore _
  | some u =>
    simp only [hx1, if_true]
    rcases gsync_of_build x d.key d.arity ha hx2 with ⟨h1, h2⟩ | ⟨k, hk⟩
    · cases hbr : x.buildRoleLinks with
      | mk e2 res =>
        rw [hbr] at h1 h2
        have hres : res = none := h1
        subst hres
        exact h2
    · cases hbr : x.buildRoleLinks with
      | mk e2 res =>
        rw [hbr] at hk
        have hres : res = some k := hk
        subst hres
        have he2 : e2.autoBuild = true := by
          have : e2 = x.buildRoleLinks.1 := by rw [hbr]
          rw [this]; exact hx1
        simp only [he2, if_true]
        exact hrestore e2

theorem gsync_finishLoad (e : Enforcer) (h : GSync e) (hb : e.autoBuild = true) (a : AdapterSt) (s : Store)
    (ok : Option Unit) (hs : ∀ d, e.store.g = [d] → GShape s d.key d.arity) :
    GSync (e.finishLoad e.store a s ok).1 := by
  obtain ⟨d, hg, ha, hwf, _, _⟩ := h
  exact gsync_finishLoad_pre e d hg ha hwf hb a s ok (hs d hg)

/-- a load re-establishes the invariant from **any** graph, as long as the stored grouping rules can be linked: every path
of the load ends in a full rebuild -/
theorem gsync_load_pre (e : Enforcer) (d : PolDef) (hg : e.store.g = [d]) (ha : d.arity = 2 ∨ d.arity = 3)
    (hwf : WFRules d.arity d.policy) (hb : e.autoBuild = true) : GSync e.loadPolicy.1 := by
  unfold Enforcer.loadPolicy
  apply gsync_finishLoad_pre e d hg ha hwf hb
  have hc : GShape e.store.clear d.key d.arity := gshape_clear _ _ _ ⟨d, hg, rfl, rfl⟩
  unfold AdapterSt.load
  simp only
  split
  · exact hc
  · exact hc
  · exact gshape_truncate _ _ _ (gshape_loadRecords _ _ _ _ hc) _
  · exact gshape_loadRecords _ _ _ _ hc

theorem gsync_load (e : Enforcer) (h : GSync e) (hb : e.autoBuild = true) : GSync e.loadPolicy.1 := by
  unfold Enforcer.loadPolicy
  apply gsync_finishLoad e h hb
  intro d hg
  have hc : GShape e.store.clear d.key d.arity := gshape_clear _ _ _ ⟨d, hg, rfl, rfl⟩
  unfold AdapterSt.load
  simp only
  split
  · exact hc
  · exact hc
  · exact gshape_truncate _ _ _ (gshape_loadRecords _ _ _ _ hc) _
  · exact gshape_loadRecords _ _ _ _ hc

theorem gsync_loadFiltered (e : Enforcer) (h : GSync e) (hb : e.autoBuild = true) (fp fg : List String) :
    GSync (e.loadFilteredPolicy fp fg).1 := by
  unfold Enforcer.loadFilteredPolicy
  apply gsync_finishLoad e h hb
  intro d hg
  have hc : GShape e.store.clear d.key d.arity := gshape_clear _ _ _ ⟨d, hg, rfl, rfl⟩
  unfold AdapterSt.loadFiltered
  simp only
  split
  · exact hc
  · exact hc
  · exact gshape_truncate _ _ _ (gshape_loadRecords _ _ _ _ hc) _
  · exact gshape_loadRecords _ _ _ _ hc

/-- `clear_policy` (auto-save off): no rules, no links -/
theorem gsync_clear (e : Enforcer) (h : GSync e) (hs : e.autoSave = false) (hb : e.autoBuild = true) :
    GSync e.clearPolicy.1 := by
  obtain ⟨d, hg, ha, hwf, hsync, hw⟩ := h
  unfold Enforcer.clearPolicy
  rw [if_neg (by rw [hs]; exact Bool.false_ne_true)]
  simp only []
  rw [if_pos hb]
  have hx1 : ({ e with store := e.store.clear } : Enforcer).autoBuild = true := hb
  have hx2 : GShape ({ e with store := e.store.clear } : Enforcer).store d.key d.arity := gshape_clear _ _ _ ⟨d, hg, rfl, rfl⟩
  have hx3 : ({ e with store := e.store.clear } : Enforcer).store.g = [{ d with policy := [] }] := by
    simp [Store.clear, hg]
  have hx4 : ({ e with store := e.store.clear } : Enforcer).rm = e.rm := rfl
  generalize ({ e with store := e.store.clear } : Enforcer) = x at hx1 hx2 hx3 hx4 ⊢
  rcases gsync_of_build x d.key d.arity ha hx2 with ⟨h1, h2⟩ | ⟨k, hk⟩
  · cases hbr : x.buildRoleLinks with
    | mk e2 res =>
      rw [hbr] at h1 h2
      have hres : res = none := h1
      subst hres
      exact gsync_emit _ _ h2
  · exfalso
    obtain ⟨rm', h1, _, _⟩ := rebuild_synced d.arity ha x.rm { d with policy := [] } rfl (by intro r hr; cases hr)
    unfold Enforcer.buildRoleLinks at hk
    simp only at hk
    rw [hx3, h1] at hk
    cases hk

theorem flags_finishLoad (e : Enforcer) (hb : e.autoBuild = true) (old : Store) (a : AdapterSt) (s : Store) (ok : Option Unit) :
    (e.finishLoad old a s ok).1.autoSave = e.autoSave ∧ (e.finishLoad old a s ok).1.autoBuild = true := by
  unfold Enforcer.finishLoad
  have hx1 : ({ e with adapter := a, store := s } : Enforcer).autoBuild = true := hb
  have hx2 : ({ e with adapter := a, store := s } : Enforcer).autoSave = e.autoSave := rfl
  generalize ({ e with adapter := a, store := s } : Enforcer) = x at hx1 hx2 ⊢
  cases ok with
  | none =>
    simp only [hx1, if_true]
    exact ⟨hx2, rfl⟩
  | some u =>
    simp only [hx1, if_true]
    cases hbr : x.buildRoleLinks with
    | mk e2 res =>
      have he2 : e2 = x.buildRoleLinks.1 := by rw [hbr]
      have h1 : e2.autoSave = e.autoSave := by rw [he2]; exact hx2
      have h2 : e2.autoBuild = true := by rw [he2]; exact hx1
      cases res with
      | none => exact ⟨h1, h2⟩
      | some k =>
        simp only [h2, if_true]
        exact ⟨h1, rfl⟩

theorem flags_clear (e : Enforcer) (hs : e.autoSave = false) (hb : e.autoBuild = true) :
    e.clearPolicy.1.autoSave = false ∧ e.clearPolicy.1.autoBuild = true := by
  unfold Enforcer.clearPolicy
  rw [if_neg (by rw [hs]; exact Bool.false_ne_true)]
  simp only []
  rw [if_pos hb]
  have hx1 : ({ e with store := e.store.clear } : Enforcer).autoBuild = true := hb
  have hx2 : ({ e with store := e.store.clear } : Enforcer).autoSave = false := hs
  generalize ({ e with store := e.store.clear } : Enforcer) = x at hx1 hx2 ⊢
  cases hbr : x.buildRoleLinks with
  | mk e2 res =>
    have he2 : e2 = x.buildRoleLinks.1 := by rw [hbr]
    have h1 : e2.autoSave = false := by rw [he2]; exact hx2
    have h2 : e2.autoBuild = true := by rw [he2]; exact hx1
    cases res with
    | some k => exact ⟨h1, h2⟩
    | none =>
      simp only
      unfold Enforcer.emit
      split <;> exact ⟨h1, h2⟩

/-- `set_model` with a model that has one role definition of two or three places: the new definitions come with an
empty policy, the role functions are registered and everything is reloaded through the adapter - the invariant holds
afterwards **whatever the role graph held before** and whatever the adapter delivers -/
theorem gsync_setModel (e : Enforcer) (hb : e.autoBuild = true) (defs : Defs) (store : Store) (d : PolDef)
    (hg : store.g = [d]) (ha : d.arity = 2 ∨ d.arity = 3) :
    GSync (e.setModel defs store).1 ∧ (e.setModel defs store).1.autoSave = e.autoSave ∧
    (e.setModel defs store).1.autoBuild = true := by
  have hgc : store.clear.g = [{ d with policy := [] }] := by simp [Store.clear, hg]
  have hreg : registerG e.gfuncs store.clear.g = some (e.gfuncs ++ [(d.key, d.arity)]) := by
    rw [hgc]
    unfold registerG
    have : (d.arity = 2 || d.arity = 3) = true := by rcases ha with h | h <;> simp [h]
    simp only []
    rw [if_pos this]
    rfl
  unfold Enforcer.setModel
  simp only []
  have hreg' : registerG ({ e with defs := defs, store := store.clear } : Enforcer).gfuncs
      ({ e with defs := defs, store := store.clear } : Enforcer).store.g = some (e.gfuncs ++ [(d.key, d.arity)]) := hreg
  rw [hreg']
  simp only []
  have hx1 : ({ e with defs := defs, store := store.clear, gfuncs := e.gfuncs ++ [(d.key, d.arity)] } : Enforcer).store.g =
      [{ d with policy := [] }] := hgc
  have hx2 : ({ e with defs := defs, store := store.clear, gfuncs := e.gfuncs ++ [(d.key, d.arity)] } : Enforcer).autoBuild = true := hb
  have hx3 : ({ e with defs := defs, store := store.clear, gfuncs := e.gfuncs ++ [(d.key, d.arity)] } : Enforcer).autoSave = e.autoSave := rfl
  generalize ({ e with defs := defs, store := store.clear, gfuncs := e.gfuncs ++ [(d.key, d.arity)] } : Enforcer) = x at hx1 hx2 hx3 ⊢
  refine ⟨gsync_load_pre x { d with policy := [] } hx1 ha (by intro r hr; cases hr) hx2, ?_, ?_⟩
  · obtain ⟨f1, _⟩ := flags_finishLoad x hx2 x.store (x.adapter.load x.store.clear).1 (x.adapter.load x.store.clear).2.1
      (x.adapter.load x.store.clear).2.2
    show x.loadPolicy.1.autoSave = e.autoSave
    unfold Enforcer.loadPolicy; rw [f1]; exact hx3
  · obtain ⟨_, f2⟩ := flags_finishLoad x hx2 x.store (x.adapter.load x.store.clear).1 (x.adapter.load x.store.clear).2.1
      (x.adapter.load x.store.clear).2.2
    show x.loadPolicy.1.autoBuild = true
    unfold Enforcer.loadPolicy; exact f2

/-- `set_role_manager` with **any** manager - a fresh one, one kept from earlier, the installed one edited by hand: with
auto-build on it is emptied and rebuilt from the stored grouping rules, so the invariant holds again whatever it held -/
theorem gsync_setRm (e : Enforcer) (h : GSync e) (hb : e.autoBuild = true) (rm0 : RoleMgr String) :
    GSync (e.setRoleManagerWith rm0).1 ∧ (e.setRoleManagerWith rm0).1.autoSave = e.autoSave ∧
    (e.setRoleManagerWith rm0).1.autoBuild = true ∧ (e.setRoleManagerWith rm0).1.store = e.store := by
  obtain ⟨d, hg, ha, hwf, _, _⟩ := h
  have hreg : registerG e.gfuncs e.store.g = some (e.gfuncs ++ [(d.key, d.arity)]) := by
    rw [hg]
    unfold registerG
    have : (d.arity = 2 || d.arity = 3) = true := by rcases ha with h | h <;> simp [h]
    rw [if_pos this]
    rfl
  obtain ⟨rm', h1, h2, h3⟩ := rebuild_synced d.arity ha rm0 d rfl hwf
  unfold Enforcer.setRoleManagerWith
  simp only []
  have hreg' : registerG ({ e with rm := rm0 } : Enforcer).gfuncs ({ e with rm := rm0 } : Enforcer).store.g =
      some (e.gfuncs ++ [(d.key, d.arity)]) := hreg
  rw [hreg']
  simp only []
  have hb' : ({ e with rm := rm0, gfuncs := e.gfuncs ++ [(d.key, d.arity)] } : Enforcer).autoBuild = true := hb
  rw [if_pos hb']
  have hbuild : ({ e with rm := rm0, gfuncs := e.gfuncs ++ [(d.key, d.arity)] } : Enforcer).buildRoleLinks =
      ({ e with rm := rm', gfuncs := e.gfuncs ++ [(d.key, d.arity)] }, none) := by
    unfold Enforcer.buildRoleLinks
    simp only [hg, h1]
  rw [hbuild]
  exact ⟨⟨d, hg, ha, hwf, h2, h3⟩, rfl, hb, rfl⟩

/-- **the graph reflects the stored grouping rules after every history** of management calls — single and batch additions and removals, filtered
removals, `load_policy`, `load_filtered_policy` (whatever the adapter delivers, failures included), `clear_policy` and
explicit rebuilds, `set_role_manager` with any manager, `set_model` (one role definition of two or three places) and
`set_adapter` (auto-build on; the adapter not involved in the management calls: auto-save off —
with auto-save on an accepted call runs the same model-side code and a vetoed one changes nothing, see C10) -/
theorem gsync_history (ops : List GOp) (e : Enforcer) (h : GSync e) (hs : e.autoSave = false) (hb : e.autoBuild = true)
    (hok : ∀ (pre : List GOp) (op : GOp) (post : List GOp), ops = pre ++ op :: post → op.Ok (pre.foldl GOp.apply e)) :
    GSync (ops.foldl GOp.apply e) := by
  induction ops generalizing e with
  | nil => exact h
  | cons op ops ih =>
    have hop := hok [] op ops rfl
    simp only [List.foldl_nil] at hop
    simp only [List.foldl_cons]
    have hnext : ∀ (pre : List GOp) (op' : GOp) (post : List GOp), ops = pre ++ op' :: post →
        op'.Ok (pre.foldl GOp.apply (GOp.apply e op)) := by
      intro pre op' post heq
      have := hok (op :: pre) op' post (by rw [heq]; rfl)
      simpa using this
    cases op with
    | add sec pt rule =>
      obtain ⟨f1, f2⟩ := flags_add e sec pt rule hs
      apply ih _ _ f1 (by rw [f2]; exact hb) hnext
      rcases hop with h1 | ⟨h1, h2⟩
      · subst h1; exact gsync_add_p e h hs pt rule
      · subst h1; exact gsync_add_g e h hs hb pt rule h2
    | remove sec pt rule =>
      obtain ⟨f1, f2⟩ := flags_remove e sec pt rule hs
      apply ih _ _ f1 (by rw [f2]; exact hb) hnext
      rcases hop with h1 | h1
      · subst h1; exact gsync_remove_p e h hs pt rule
      · subst h1; exact gsync_remove_g e h hs hb pt rule
    | addMany sec pt rules =>
      obtain ⟨f1, f2⟩ := flags_addMany e sec pt rules hs
      apply ih _ _ f1 (by rw [f2]; exact hb) hnext
      rcases hop with h1 | ⟨h1, h2⟩
      · subst h1; exact (gsync_batch_p e h hs pt rules 0 []).1
      · subst h1; exact gsync_addMany_g e h hs hb pt rules h2
    | removeMany sec pt rules =>
      obtain ⟨f1, f2⟩ := flags_removeMany e sec pt rules hs
      apply ih _ _ f1 (by rw [f2]; exact hb) hnext
      rcases hop with h1 | h1
      · subst h1; exact (gsync_batch_p e h hs pt rules 0 []).2.1
      · subst h1; exact gsync_removeMany_g e h hs hb pt rules
    | removeFiltered sec pt idx vals =>
      obtain ⟨f1, f2⟩ := flags_removeFiltered e sec pt idx vals hs
      apply ih _ _ f1 (by rw [f2]; exact hb) hnext
      rcases hop with h1 | h1
      · subst h1; exact (gsync_batch_p e h hs pt [] idx vals).2.2
      · subst h1; exact gsync_removeFiltered_g e h hs hb pt idx vals
    | load =>
      obtain ⟨f1, f2⟩ := flags_finishLoad e hb e.store (e.adapter.load e.store.clear).1 (e.adapter.load e.store.clear).2.1
        (e.adapter.load e.store.clear).2.2
      exact ih _ (gsync_load e h hb) (by show e.loadPolicy.1.autoSave = false; unfold Enforcer.loadPolicy; rw [f1]; exact hs)
        (by show e.loadPolicy.1.autoBuild = true; unfold Enforcer.loadPolicy; exact f2) hnext
    | loadFiltered fp fg =>
      obtain ⟨f1, f2⟩ := flags_finishLoad e hb e.store (e.adapter.loadFiltered e.store.clear fp fg).1
        (e.adapter.loadFiltered e.store.clear fp fg).2.1 (e.adapter.loadFiltered e.store.clear fp fg).2.2
      exact ih _ (gsync_loadFiltered e h hb fp fg)
        (by show (e.loadFilteredPolicy fp fg).1.autoSave = false; unfold Enforcer.loadFilteredPolicy; rw [f1]; exact hs)
        (by show (e.loadFilteredPolicy fp fg).1.autoBuild = true; unfold Enforcer.loadFilteredPolicy; exact f2) hnext
    | clear =>
      obtain ⟨f1, f2⟩ := flags_clear e hs hb
      exact ih _ (gsync_clear e h hs hb) f1 f2 hnext
    | build =>
      exact ih _ (gsync_build e h) hs hb hnext
    | setRm rm0 =>
      obtain ⟨g1, g2, g3, _⟩ := gsync_setRm e h hb rm0
      exact ih _ g1 (by show (e.setRoleManagerWith rm0).1.autoSave = false; rw [g2]; exact hs) g3 hnext
    | setModel defs store =>
      obtain ⟨d, hg, ha⟩ := hop
      obtain ⟨g1, g2, g3⟩ := gsync_setModel e hb defs store d hg ha
      exact ih _ g1 (by show (e.setModel defs store).1.autoSave = false; rw [g2]; exact hs) g3 hnext
    | setAdapter a =>
      have key : ∀ x : Enforcer, GSync x → x.autoBuild = true → x.autoSave = false →
          GSync x.loadPolicy.1 ∧ x.loadPolicy.1.autoSave = false ∧ x.loadPolicy.1.autoBuild = true := by
        intro x hx hbx hsx
        obtain ⟨f1, f2⟩ := flags_finishLoad x hbx x.store (x.adapter.load x.store.clear).1 (x.adapter.load x.store.clear).2.1
          (x.adapter.load x.store.clear).2.2
        exact ⟨gsync_load x hx hbx, by unfold Enforcer.loadPolicy; rw [f1]; exact hsx, by unfold Enforcer.loadPolicy; exact f2⟩
      obtain ⟨g1, g2, g3⟩ := key ({ e with adapter := a } : Enforcer) h hb hs
      exact ih _ g1 g2 g3 hnext

/-! ### Auto-save on or off -/

theorem single_ok (e : Enforcer) (op : GOp) (h : op.Ok e) :
    ∀ (pre : List GOp) (op' : GOp) (post : List GOp), [op] = pre ++ op' :: post → op'.Ok (pre.foldl GOp.apply e) := by
  intro pre op' post heq
  cases pre with
  | nil =>
    simp only [List.nil_append, List.cons.injEq] at heq
    obtain ⟨rfl, _⟩ := heq
    exact h
  | cons p pre => simp at heq

/-- one call with auto-save off: the invariant and both switches -/
theorem gstep_off (e : Enforcer) (h : GSync e) (hs : e.autoSave = false) (hb : e.autoBuild = true) (op : GOp) (hok : op.Ok e) :
    GSync (op.apply e) ∧ (op.apply e).autoSave = false ∧ (op.apply e).autoBuild = true := by
  refine ⟨gsync_history [op] e h hs hb (single_ok e op hok), ?_⟩
  cases op with
  | add sec pt rule => obtain ⟨f1, f2⟩ := flags_add e sec pt rule hs; exact ⟨f1, by show (e.addPolicy sec pt rule).1.autoBuild = true; rw [f2]; exact hb⟩
  | remove sec pt rule => obtain ⟨f1, f2⟩ := flags_remove e sec pt rule hs; exact ⟨f1, by show (e.removePolicy sec pt rule).1.autoBuild = true; rw [f2]; exact hb⟩
  | addMany sec pt rules => obtain ⟨f1, f2⟩ := flags_addMany e sec pt rules hs; exact ⟨f1, by show (e.addPolicies sec pt rules).1.autoBuild = true; rw [f2]; exact hb⟩
  | removeMany sec pt rules => obtain ⟨f1, f2⟩ := flags_removeMany e sec pt rules hs; exact ⟨f1, by show (e.removePolicies sec pt rules).1.autoBuild = true; rw [f2]; exact hb⟩
  | removeFiltered sec pt idx vals => obtain ⟨f1, f2⟩ := flags_removeFiltered e sec pt idx vals hs; exact ⟨f1, by show (e.removeFiltered sec pt idx vals).1.autoBuild = true; rw [f2]; exact hb⟩
  | load =>
    obtain ⟨f1, f2⟩ := flags_finishLoad e hb e.store (e.adapter.load e.store.clear).1 (e.adapter.load e.store.clear).2.1
      (e.adapter.load e.store.clear).2.2
    exact ⟨by show e.loadPolicy.1.autoSave = false; unfold Enforcer.loadPolicy; rw [f1]; exact hs,
      by show e.loadPolicy.1.autoBuild = true; unfold Enforcer.loadPolicy; exact f2⟩
  | loadFiltered fp fg =>
    obtain ⟨f1, f2⟩ := flags_finishLoad e hb e.store (e.adapter.loadFiltered e.store.clear fp fg).1
      (e.adapter.loadFiltered e.store.clear fp fg).2.1 (e.adapter.loadFiltered e.store.clear fp fg).2.2
    exact ⟨by show (e.loadFilteredPolicy fp fg).1.autoSave = false; unfold Enforcer.loadFilteredPolicy; rw [f1]; exact hs,
      by show (e.loadFilteredPolicy fp fg).1.autoBuild = true; unfold Enforcer.loadFilteredPolicy; exact f2⟩
  | clear => exact flags_clear e hs hb
  | build => exact ⟨hs, hb⟩
  | setRm rm0 =>
    obtain ⟨_, g2, g3, _⟩ := gsync_setRm e h hb rm0
    exact ⟨by show (e.setRoleManagerWith rm0).1.autoSave = false; rw [g2]; exact hs, g3⟩
  | setModel defs store =>
    obtain ⟨d, hg, ha⟩ := hok
    obtain ⟨_, g2, g3⟩ := gsync_setModel e hb defs store d hg ha
    exact ⟨by show (e.setModel defs store).1.autoSave = false; rw [g2]; exact hs, g3⟩
  | setAdapter a =>
    obtain ⟨f1, f2⟩ := flags_finishLoad ({ e with adapter := a } : Enforcer) hb e.store
      (a.load e.store.clear).1 (a.load e.store.clear).2.1 (a.load e.store.clear).2.2
    exact ⟨by show ({ e with adapter := a } : Enforcer).loadPolicy.1.autoSave = false; unfold Enforcer.loadPolicy; rw [f1]; exact hs,
      by show ({ e with adapter := a } : Enforcer).loadPolicy.1.autoBuild = true; unfold Enforcer.loadPolicy; exact f2⟩

/-- a management call made with auto-save on, given what `Lemmas/AutoSave.lean` says about it -/
theorem gstep_on_mgmt (e : Enforcer) (h : GSync e) (hb : e.autoBuild = true) (op : GOp) (hok : op.Ok e) (y : Enforcer)
    (hcase : (∃ a, y = ({ e with adapter := a } : Enforcer)) ∨
      (∃ a, y = (op.apply (({ e with adapter := a } : Enforcer).withSave false)).withSave true)) :
    GSync y ∧ y.autoBuild = true := by
  rcases hcase with ⟨a, rfl⟩ | ⟨a, rfl⟩
  · exact ⟨h, hb⟩
  · have hx : GSync (({ e with adapter := a } : Enforcer).withSave false) := h
    obtain ⟨g1, _, g3⟩ := gstep_off _ hx rfl hb op hok
    exact ⟨g1, g3⟩

/-- the model-side part of `clear_policy`, whatever the auto-save switch says -/
theorem gsync_clearGo (x : Enforcer) (h : GSync x) (hb : x.autoBuild = true) (r : Enforcer × Option ErrKind)
    (hr : r = (if ({ x with store := x.store.clear } : Enforcer).autoBuild then ({ x with store := x.store.clear } : Enforcer).buildRoleLinks
      else (({ x with store := x.store.clear } : Enforcer), none))) :
    GSync (match r with
      | (e, r) => match r with
        | some k => (e, Res.err k)
        | none => (e.emit .clearPolicy, Res.unit)).1 ∧
    (match r with
      | (e, r) => match r with
        | some k => (e, Res.err k)
        | none => (e.emit .clearPolicy, Res.unit)).1.autoBuild = true := by
  obtain ⟨d, hg, ha, hwf, hsync, hw⟩ := h
  have hb' : ({ x with store := x.store.clear } : Enforcer).autoBuild = true := hb
  rw [if_pos hb'] at hr
  have hx2 : GShape ({ x with store := x.store.clear } : Enforcer).store d.key d.arity := gshape_clear _ _ _ ⟨d, hg, rfl, rfl⟩
  have hx3 : ({ x with store := x.store.clear } : Enforcer).store.g = [{ d with policy := [] }] := by
    simp [Store.clear, hg]
  generalize ({ x with store := x.store.clear } : Enforcer) = y at hb' hx2 hx3 hr
  have hyb : y.buildRoleLinks.1.autoBuild = true := by unfold Enforcer.buildRoleLinks; exact hb'
  rcases gsync_of_build y d.key d.arity ha hx2 with ⟨h1, h2⟩ | ⟨k, hk⟩
  · obtain ⟨e2, res⟩ := r
    have hres : res = none := by rw [← hr] at h1; exact h1
    subst hres
    have he2 : e2 = y.buildRoleLinks.1 := by rw [← hr]
    subst he2
    exact ⟨gsync_emit _ _ h2, by rw [(emit_rm_store _ _).2.2]; exact hyb⟩
  · exfalso
    obtain ⟨rm', h1, _, _⟩ := rebuild_synced d.arity ha y.rm { d with policy := [] } rfl (by intro r hr; cases hr)
    unfold Enforcer.buildRoleLinks at hk
    simp only at hk
    rw [hx3, h1] at hk
    cases hk

/-- `clear_policy` keeps the invariant with auto-save on too: the adapter fails (nothing is cleared) or the rules and
links go together -/
theorem gsync_clear_any (e : Enforcer) (h : GSync e) (hb : e.autoBuild = true) :
    GSync e.clearPolicy.1 ∧ e.clearPolicy.1.autoBuild = true := by
  unfold Enforcer.clearPolicy
  split
  · split
    · exact ⟨h, hb⟩
    · rename_i a _
      exact gsync_clearGo ({ e with adapter := a } : Enforcer) h hb _ rfl
  · exact gsync_clearGo e h hb _ rfl

/-- one call, auto-save on or off, whatever the adapter answers -/
theorem gstep_any (e : Enforcer) (h : GSync e) (hb : e.autoBuild = true) (op : GOp) (hok : op.Ok e) :
    GSync (op.apply e) ∧ (op.apply e).autoBuild = true := by
  by_cases hs : e.autoSave = true
  · cases op with
    | add sec pt rule => exact gstep_on_mgmt e h hb (.add sec pt rule) hok _ (addPolicy_on e hs sec pt rule)
    | remove sec pt rule => exact gstep_on_mgmt e h hb (.remove sec pt rule) hok _ (removePolicy_on e hs sec pt rule)
    | addMany sec pt rules => exact gstep_on_mgmt e h hb (.addMany sec pt rules) hok _ (addPolicies_on e hs sec pt rules)
    | removeMany sec pt rules => exact gstep_on_mgmt e h hb (.removeMany sec pt rules) hok _ (removePolicies_on e hs sec pt rules)
    | removeFiltered sec pt idx vals =>
      exact gstep_on_mgmt e h hb (.removeFiltered sec pt idx vals) hok _ (removeFiltered_on e hs sec pt idx vals)
    | load =>
      obtain ⟨_, f2⟩ := flags_finishLoad e hb e.store (e.adapter.load e.store.clear).1 (e.adapter.load e.store.clear).2.1
        (e.adapter.load e.store.clear).2.2
      exact ⟨gsync_load e h hb, by show e.loadPolicy.1.autoBuild = true; unfold Enforcer.loadPolicy; exact f2⟩
    | loadFiltered fp fg =>
      obtain ⟨_, f2⟩ := flags_finishLoad e hb e.store (e.adapter.loadFiltered e.store.clear fp fg).1
        (e.adapter.loadFiltered e.store.clear fp fg).2.1 (e.adapter.loadFiltered e.store.clear fp fg).2.2
      exact ⟨gsync_loadFiltered e h hb fp fg,
        by show (e.loadFilteredPolicy fp fg).1.autoBuild = true; unfold Enforcer.loadFilteredPolicy; exact f2⟩
    | clear => exact gsync_clear_any e h hb
    | build => exact ⟨gsync_build e h, hb⟩
    | setRm rm0 =>
      obtain ⟨g1, _, g3, _⟩ := gsync_setRm e h hb rm0
      exact ⟨g1, g3⟩
    | setModel defs store =>
      obtain ⟨d, hg, ha⟩ := hok
      obtain ⟨g1, _, g3⟩ := gsync_setModel e hb defs store d hg ha
      exact ⟨g1, g3⟩
    | setAdapter a =>
      obtain ⟨_, f2⟩ := flags_finishLoad ({ e with adapter := a } : Enforcer) hb e.store
        (a.load e.store.clear).1 (a.load e.store.clear).2.1 (a.load e.store.clear).2.2
      exact ⟨gsync_load ({ e with adapter := a } : Enforcer) h hb,
        by show ({ e with adapter := a } : Enforcer).loadPolicy.1.autoBuild = true; unfold Enforcer.loadPolicy; exact f2⟩
  · have hs' : e.autoSave = false := by cases hh : e.autoSave <;> simp_all
    obtain ⟨g1, _, g3⟩ := gstep_off e h hs' hb op hok
    exact ⟨g1, g3⟩

/-- **the invariant over every history, auto-save on or off and whatever the adapter answers** (accepts, vetoes, fails):
the role graph holds exactly the links the stored grouping rules imply after any sequence of the twelve kinds of call -/
theorem gsync_history_any (ops : List GOp) (e : Enforcer) (h : GSync e) (hb : e.autoBuild = true)
    (hok : ∀ (pre : List GOp) (op : GOp) (post : List GOp), ops = pre ++ op :: post → op.Ok (pre.foldl GOp.apply e)) :
    GSync (ops.foldl GOp.apply e) := by
  induction ops generalizing e with
  | nil => exact h
  | cons op ops ih =>
    have hop := hok [] op ops rfl
    simp only [List.foldl_nil] at hop
    simp only [List.foldl_cons]
    obtain ⟨g1, g2⟩ := gstep_any e h hb op hop
    apply ih _ g1 g2
    intro pre op' post heq
    have := hok (op :: pre) op' post (by rw [heq]; rfl)
    simpa using this

/-- **construction over a filtered adapter** (the model handed in already holds rules, regression for F22):
the constructor does not load, keeps those rules and builds their links — the invariant holds from the start -/
theorem newPrefilled_gsync (defs : Defs) (store : Store) (a : AdapterSt) (hf : a.filtered = true) (d : PolDef)
    (hg : store.g = [d]) (ha : d.arity = 2 ∨ d.arity = 3) (hwf : WFRules d.arity d.policy)
    (e : Enforcer) (r : Res) (h : Enforcer.newPrefilled defs store a = some (e, r)) :
    r = .unit ∧ e.store = store ∧ GSync e := by
  unfold Enforcer.newPrefilled at h
  cases hn : Enforcer.newRaw defs store a with
  | none => rw [hn] at h; cases h
  | some e0 =>
    rw [hn] at h
    have hadp : e0.adapter = a := by
      unfold Enforcer.newRaw at hn
      split at hn
      · cases hn
      · simp only [Option.some.injEq] at hn; rw [← hn]
    subst hadp
    simp only [hf, if_true] at h
    obtain ⟨rm', h1, h2, h3⟩ := rebuild_synced d.arity ha e0.rm d rfl hwf
    have hb : Enforcer.buildRoleLinks { e0 with store := store } = ({ e0 with store := store, rm := rm' }, none) := by
      unfold Enforcer.buildRoleLinks
      simp only [hg, h1]
    rw [hb] at h
    simp only [Option.some.injEq, Prod.mk.injEq] at h
    obtain ⟨he, hr⟩ := h
    subst he hr
    exact ⟨rfl, rfl, d, hg, ha, hwf, h2, h3⟩

/-! ### Non-vacuity: two rules implying one link; removing one keeps it (regression for F14) -/

def demoDef (pol : List Rule) : PolDef := { key := "g", tokens := [], arity := 2, policy := pol }

example : ((buildRoleLinks (RoleMgr.new 10) [demoDef [["alice", "admin", "x"], ["alice", "admin", "y"]]]).1.hasLink
    "alice" "admin" "DEFAULT") = true := by decide +kernel

example :
    let rm := (buildRoleLinks (RoleMgr.new 10) [demoDef [["alice", "admin", "x"], ["alice", "admin", "y"]]]).1
    ((buildIncremental rm (demoDef [["alice", "admin", "y"]]) false [["alice", "admin", "x"]]).1.hasLink
      "alice" "admin" "DEFAULT") = true := by decide +kernel

/-- a self-link rule can be removed without error (regression for the delete_link fix) -/
example :
    let rm := (buildRoleLinks (RoleMgr.new 10) [demoDef [["a", "a"], ["a", "b"]]]).1
    (buildIncremental rm (demoDef []) false [["a", "a"], ["a", "b"]]).2 = none := by decide +kernel

/-- non-vacuity of the enforcer-level invariant: a fresh RBAC enforcer satisfies it, and a three-call history
(add a link, add a second rule implying it, remove the first) meets the side conditions -/
def demoEnf : Enforcer :=
  { defs := ⟨[], [], []⟩, store := ⟨[{ key := "p", tokens := [], arity := 0, policy := [] }], [demoDef []]⟩,
    adapter := AdapterSt.mk0 .null, rm := (RoleMgr.new 10).clear, enabled := true, autoSave := false, autoBuild := true,
    autoNotify := false, callbacks := 0, hasWatcher := false, gfuncs := [], userFns := [], log := [] }

theorem demo_gsync : GSync demoEnf := by
  refine ⟨demoDef [], rfl, Or.inl rfl, ?_, synced_clear 2 _, WF_clear _⟩
  intro r hr; cases hr

example : GSync ([GOp.add "g" "g" ["alice", "admin"], .add "g" "g" ["alice", "admin", "x"], .remove "g" "g" ["alice", "admin"],
    .add "p" "p" ["admin", "d", "read"]].foldl GOp.apply demoEnf) := by
  apply gsync_history _ _ demo_gsync rfl rfl
  intro pre op post heq
  -- the four prefixes
  rcases pre with _ | ⟨a, _ | ⟨b, _ | ⟨c, _ | ⟨d', pre⟩⟩⟩⟩ <;> simp at heq
  · obtain ⟨rfl, _⟩ := heq; exact Or.inr ⟨rfl, by intro d hd; simp [demoEnf] at hd; subst hd; decide⟩
  · obtain ⟨rfl, rfl, _⟩ := heq
    refine Or.inr ⟨rfl, ?_⟩
    intro d hd
    have : (GOp.apply demoEnf (GOp.add "g" "g" ["alice", "admin"])).store.g = [demoDef [["alice", "admin"]]] := by decide +kernel
    simp only [List.foldl_cons, List.foldl_nil] at hd
    rw [this] at hd
    simp at hd; subst hd; decide
  · obtain ⟨rfl, rfl, rfl, _⟩ := heq; exact Or.inr rfl
  · obtain ⟨rfl, rfl, rfl, rfl, _⟩ := heq; exact Or.inl rfl

/-- the reconfiguration calls meet their side conditions on the same enforcer: a hand-edited manager handed back, a model
swap, an adapter swap -/
example : GSync ([GOp.setRm ((RoleMgr.new 10).addLink "stray" "admin" "DEFAULT"),
    .setModel ⟨[], [], []⟩ ⟨[], [demoDef [["x", "y"]]]⟩, .setAdapter (AdapterSt.mk0 .memory), .clear].foldl GOp.apply demoEnf) := by
  apply gsync_history _ _ demo_gsync rfl rfl
  intro pre op post heq
  rcases pre with _ | ⟨a, _ | ⟨b, _ | ⟨c, _ | ⟨d', pre⟩⟩⟩⟩ <;> simp at heq
  · obtain ⟨rfl, _⟩ := heq; exact True.intro
  · obtain ⟨rfl, rfl, _⟩ := heq; exact ⟨demoDef [["x", "y"]], rfl, Or.inl rfl⟩
  · obtain ⟨rfl, rfl, rfl, _⟩ := heq; exact True.intro
  · obtain ⟨rfl, rfl, rfl, rfl, _⟩ := heq; exact True.intro

/-- … and with auto-save on over a memory adapter -/
def demoEnfOn : Enforcer := { demoEnf with autoSave := true, adapter := AdapterSt.mk0 .memory }
example : GSync ([GOp.add "g" "g" ["alice", "admin"], .clear].foldl GOp.apply demoEnfOn) := by
  have h0 : GSync demoEnfOn := demo_gsync
  apply gsync_history_any _ demoEnfOn h0 rfl
  intro pre op post heq
  rcases pre with _ | ⟨a, _ | ⟨b, pre⟩⟩ <;> simp at heq
  · obtain ⟨rfl, _⟩ := heq; exact Or.inr ⟨rfl, by intro d hd; simp [demoEnfOn, demoEnf] at hd; subst hd; decide⟩
  · obtain ⟨rfl, rfl, _⟩ := heq; exact True.intro

end Casbin.C05
