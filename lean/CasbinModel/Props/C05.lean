import CasbinModel.Lemmas.Links
import CasbinModel.Props.C03
/-!
# C05 — The role graph always reflects the stored grouping rules   (*partial*, see below)

Proved here, for one role definition of arity 2 or 3 whose rules have at least `arity`
fields (longer rules allowed):

* a full rebuild yields a graph that holds exactly the links implied by the stored rules;
* the incremental update after an addition / a removal keeps that relation
  (`SyncedWith`), including removal of one of several rules that imply the same link
  and removal of self-link rules;
* two managers that hold the same links answer every query alike when hierarchies are
  below the depth limit — so an explicit rebuild changes nothing.

Not mechanised (validated by the correspondence run only): the enforcer-level glue
that decides *which* of these updates each API call performs.  False on the current
tree and recorded as a known finding: several role definitions share one role
manager (`shared-role-manager`, see C19).
-/
namespace Casbin.C05
open Casbin

/-- a full rebuild of one definition: succeeds and is in sync -/
theorem rebuild_synced (arity : Nat) (ha : arity = 2 ∨ arity = 3) (rm : RoleMgr String) (d : PolDef)
    (hd : d.arity = arity) (hwf : WFRules arity d.policy) :
    ∃ rm', buildRoleLinks rm [d] = (rm', none) ∧ SyncedWith arity rm' d.policy ∧ rm'.WF := by
  have h2 : ¬ d.arity < 2 := by rw [hd]; rcases ha with h | h <;> omega
  obtain ⟨rm', h1, hs, hw⟩ := buildGo_synced ha d.policy rm.clear [] d hd hwf (synced_clear arity rm) (WF_clear rm)
  refine ⟨rm', ?_, by simpa using hs, hw⟩
  simp [buildRoleLinks, buildRoleLinks.go, buildDef, h2, h1]

/-- incremental update after adding rules `new` (the store now holds `old ++ new'` for
some `new'` with the same members — only membership matters) -/
theorem incr_add_synced (arity : Nat) (ha : arity = 2 ∨ arity = 3) (rm : RoleMgr String) (d : PolDef)
    (hd : d.arity = arity) (old new : List Rule) (hwf : WFRules arity new)
    (hs : SyncedWith arity rm old) (hw : rm.WF) :
    ∃ rm', buildIncremental rm d true new = (rm', none) ∧ SyncedWith arity rm' (old ++ new) ∧ rm'.WF := by
  have h2 : 2 ≤ d.arity := by rw [hd]; rcases ha with h | h <;> omega
  rw [incrInsert_eq_buildGo d h2 new (by rw [hd]; exact hwf)]
  exact buildGo_synced ha new rm old d hd hwf hs hw

/-- incremental update after removing rules `removed`; `d.policy` is the policy *after*
the store update.  Never fails, and the graph is in sync with what is left — also when
several removed or remaining rules imply the same link, and for self-link rules. -/
theorem incr_remove_synced (arity : Nat) (ha : arity = 2 ∨ arity = 3) (rm : RoleMgr String) (d : PolDef)
    (hd : d.arity = arity) (removed : List Rule) (hpol : WFRules arity d.policy) (hwf : WFRules arity removed)
    (hs : SyncedWith arity rm (d.policy ++ removed)) (hw : rm.WF) :
    ∃ rm', buildIncremental rm d false removed = (rm', none) ∧ SyncedWith arity rm' d.policy ∧ rm'.WF := by
  have h2 : ¬ d.arity < 2 := by rw [hd]; rcases ha with h | h <;> omega
  have hinit : Removing arity rm d.policy removed (d.policy ++ removed) := by
    refine ⟨hw, ?_, ?_, ?_⟩
    · intro dd a b ⟨hne, r, hr, hl⟩
      exact (hs dd a b).mpr ⟨hne, r, by simp [hr], hl⟩
    · intro dd a b he; exact (hs dd a b).mp he
    · intro r hr hne
      have he : ((linkOf arity r).1, (linkOf arity r).2.1) ∈ (rm.graph (linkOf arity r).2.2).edges :=
        (hs _ _ _).mpr ⟨hne, r, hr, rfl⟩
      exact (hw _).edges_in _ he
  obtain ⟨rm', h1, hr⟩ := removeGo_synced ha d hd hpol (d.policy ++ removed) removed rm hwf
    (fun r h => by simp [h]) hinit
  refine ⟨rm', by simp [buildIncremental, h2, h1], ?_, hr.wf⟩
  intro dd a b
  constructor
  · intro he; simpa using hr.only dd a b he
  · exact hr.keep dd a b

/-- hierarchies below the depth limit: every reachable pair is reachable by a short chain -/
def Shallow (g : Graph String) (n : Nat) : Prop := ∀ a b, Reach g a b → ∃ L, L < n ∧ Path g a b L

theorem path_congr {g1 g2 : Graph String} (he : ∀ x y, (x, y) ∈ g1.edges ↔ (x, y) ∈ g2.edges)
    {a b : String} {n : Nat} (hp : Path g1 a b n) : Path g2 a b n := by
  induction hp with
  | nil a => exact Path.nil _
  | cons h _ ih => exact Path.cons ((he _ _).mp h) ih

/-- **An explicit rebuild changes no answer**: two well-formed managers that hold the same
links (as `SyncedWith` the same rules guarantees) answer `has_link`, `get_roles`,
`get_users` alike, for hierarchies below the depth limit. -/
theorem same_links_same_answers (rm1 rm2 : RoleMgr String) (hw1 : rm1.WF) (hw2 : rm2.WF)
    (hm : rm1.maxLevel = rm2.maxLevel) (d : String)
    (he : ∀ x y, (x, y) ∈ (rm1.graph d).edges ↔ (x, y) ∈ (rm2.graph d).edges)
    (hsh : Shallow (rm1.graph d) rm1.maxLevel) (a b : String) :
    rm1.hasLink a b d = rm2.hasLink a b d ∧
    (∀ x, x ∈ rm1.getRoles a d ↔ x ∈ rm2.getRoles a d) ∧
    (∀ x, x ∈ rm1.getUsers a d ↔ x ∈ rm2.getUsers a d) := by
  refine ⟨?_, ?_, ?_⟩
  · have fwd : rm1.hasLink a b d = true → rm2.hasLink a b d = true := by
      intro h
      apply C03.hasLink_complete rm2 hw2
      rcases C03.hasLink_sound rm1 a b d h with h1 | h1
      · exact Or.inl h1
      · obtain ⟨L, hL, hp⟩ := hsh a b h1
        exact Or.inr ⟨L, by rw [← hm]; exact hL, path_congr he hp⟩
    have bwd : rm2.hasLink a b d = true → rm1.hasLink a b d = true := by
      intro h
      apply C03.hasLink_complete rm1 hw1
      rcases C03.hasLink_sound rm2 a b d h with h1 | h1
      · exact Or.inl h1
      · obtain ⟨n, hp⟩ := h1
        have hp1 : Path (rm1.graph d) a b n := path_congr (fun x y => (he x y).symm) hp
        exact Or.inr (hsh a b ⟨n, hp1⟩)
    cases h1 : rm1.hasLink a b d <;> cases h2 : rm2.hasLink a b d <;> simp_all
  · intro x; rw [C03.getRoles_eq rm1 hw1, C03.getRoles_eq rm2 hw2]; exact he a x
  · intro x; rw [C03.getUsers_eq rm1 hw1, C03.getUsers_eq rm2 hw2]; exact he x a

/-- both in sync with the same rules ⇒ same links -/
theorem synced_same_links (arity : Nat) (rm1 rm2 : RoleMgr String) (rules : List Rule)
    (h1 : SyncedWith arity rm1 rules) (h2 : SyncedWith arity rm2 rules) (d x y : String) :
    (x, y) ∈ (rm1.graph d).edges ↔ (x, y) ∈ (rm2.graph d).edges := by
  rw [h1 d x y, h2 d x y]

/-! ### Non-vacuity: two rules implying one link; removing one keeps it (regression for F14) -/

def demoDef (pol : List Rule) : PolDef := { key := "g", tokens := [], arity := 2, policy := pol }

example : ((buildRoleLinks (RoleMgr.new 10) [demoDef [["alice", "admin", "x"], ["alice", "admin", "y"]]]).1.hasLink
    "alice" "admin" "DEFAULT") = true := by decide +kernel

example :
    let rm := (buildRoleLinks (RoleMgr.new 10) [demoDef [["alice", "admin", "x"], ["alice", "admin", "y"]]]).1
    ((buildIncremental rm (demoDef [["alice", "admin", "y"]]) false [["alice", "admin", "x"]]).1.hasLink
      "alice" "admin" "DEFAULT") = true := by decide +kernel

/-- a self-link rule can be removed without error (regression for the delete_link fix) -/
example :
    let rm := (buildRoleLinks (RoleMgr.new 10) [demoDef [["a", "a"], ["a", "b"]]]).1
    (buildIncremental rm (demoDef []) false [["a", "a"], ["a", "b"]]).2 = none := by decide +kernel

end Casbin.C05
