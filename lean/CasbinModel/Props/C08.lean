import CasbinModel.Lemmas.Mono
import CasbinModel.Props.C01
import CasbinModel.Props.C05
import CasbinModel.PatRoles
import CasbinModel.KeyMatch
import CasbinModel.Lemmas.PatRoles
/-!
# C08 — Granting never revokes and revoking never grants

* a negation-free matcher is monotone in the role links (`Lemmas/Mono.lean`), and
  `has_link` is monotone in the link set for hierarchies below the depth limit;
* under allow-override a decision is "some stored rule matches with effect allow", which
  is monotone in the rule set and in the matcher;
* under deny-override and allow-and-deny a rule that can only produce `deny` or
  `indeterminate` (a deny rule) can never turn a denial into a grant.

Hypotheses forced by the proofs and reported by the check: evaluations do not fail
(an added link can make a short-circuited ill-typed operand reachable), and the store is
non-empty on both sides (empty-store branch: known finding `empty-store-grant`).
-/
namespace Casbin.C08
open Casbin

/-- `has_link` is monotone in the link set, below the depth limit -/
theorem hasLink_mono (rm rm' : RoleMgr String) (hw' : rm'.WF) (hm : rm.maxLevel = rm'.maxLevel)
    (d : String) (hsub : ∀ x y, (x, y) ∈ (rm.graph d).edges → (x, y) ∈ (rm'.graph d).edges)
    (hsh : C05.Shallow (rm'.graph d) rm'.maxLevel) (a b : String)
    (h : rm.hasLink a b d = true) : rm'.hasLink a b d = true := by
  apply C03.hasLink_complete rm' hw'
  rcases C03.hasLink_sound rm a b d h with h1 | ⟨n, hp⟩
  · exact Or.inl h1
  · have hp' : Path (rm'.graph d) a b n := by
      clear h
      induction hp with
      | nil a => exact Path.nil _
      | cons he _ ih => exact Path.cons (hsub _ _ he) ih
    exact Or.inr (hsh a b ⟨n, hp'⟩)

/-- matcher monotonicity restated for `evalBool` -/
theorem matcher_monotone_links {env env' : Env} (h : EnvLe env env') {e : Expr} (hp : Positive e)
    (h1 : e.evalBool env = some true) (h2 : e.evalBool env' ≠ none) : e.evalBool env' = some true := by
  unfold Expr.evalBool at *
  have h1' : e.eval env 8 = vtrue := by
    revert h1
    cases e.eval env 8 with
    | none => simp
    | some v => cases v with
      | map fs => simp
      | atom x => cases x <;> simp [vtrue]
  have h2' : e.eval env' 8 ≠ none := by
    intro hn; rw [hn] at h2; simp at h2
  rw [eval_mono h hp 8 h1' h2']

/-- effect of a rule under a matcher, for well-formed rules -/
def effOf (eftIdx : Option Nat) (m : MatchFn) (rule : Rule) : Eff :=
  match m rule with
  | some b => ruleEffect eftIdx b rule
  | none => .indet

/-- allow-override, error-free: granted iff some stored rule yields `allow` -/
theorem allow_override_iff (c : EvalCfg) (reqLen : Nat) (m : MatchFn)
    (hr : C01.Ready c reqLen .allowOverride) (hne : c.policy ≠ [])
    (hok : ∀ rule ∈ c.policy, rule.length = c.ptokens.length ∧ (m rule).isSome) :
    enforceCore c reqLen m = .ok true ↔
      ∃ rule ∈ c.policy, effOf (c.ptokens.idxOf? c.eftToken) m rule = .allow := by
  have hmap : c.policy.map (ruleOutcome c.ptokens.length (c.ptokens.idxOf? c.eftToken) m) =
      (c.policy.map (effOf (c.ptokens.idxOf? c.eftToken) m)).map Except.ok := by
    rw [List.map_map]
    apply List.map_congr_left
    intro rule hrule
    obtain ⟨hl, hs⟩ := hok rule hrule
    cases hm : m rule with
    | none => rw [hm] at hs; simp at hs
    | some b => simp [ruleOutcome, hl, hm, effOf]
  rw [C01.enforce_errorfree c reqLen m .allowOverride hr hne _ hmap]
  simp [combine]

/-- **Granting never revokes** (allow-override): more rules and a matcher that is true at
least as often keep every grant. -/
theorem allow_grant_monotone (c c' : EvalCfg) (reqLen : Nat) (m m' : MatchFn)
    (hr : C01.Ready c reqLen .allowOverride) (hr' : C01.Ready c' reqLen .allowOverride)
    (htok : c.ptokens = c'.ptokens) (heft : c.eftToken = c'.eftToken)
    (hne : c.policy ≠ []) (hsub : ∀ rule ∈ c.policy, rule ∈ c'.policy)
    (hok : ∀ rule ∈ c.policy, rule.length = c.ptokens.length ∧ (m rule).isSome)
    (hok' : ∀ rule ∈ c'.policy, rule.length = c'.ptokens.length ∧ (m' rule).isSome)
    (hmono : ∀ rule, m rule = some true → m' rule = some true)
    (h : enforceCore c reqLen m = .ok true) : enforceCore c' reqLen m' = .ok true := by
  have hne' : c'.policy ≠ [] := by
    cases hp : c.policy with
    | nil => exact absurd hp hne
    | cons r rs => intro h0; have := hsub r (by simp [hp]); simp [h0] at this
  rw [allow_override_iff c reqLen m hr hne hok] at h
  rw [allow_override_iff c' reqLen m' hr' hne' hok']
  obtain ⟨rule, hrule, heff⟩ := h
  refine ⟨rule, hsub rule hrule, ?_⟩
  unfold effOf at heff ⊢
  cases hm : m rule with
  | none => rw [hm] at heff; simp at heff
  | some b =>
    cases b with
    | false => rw [hm] at heff; simp [ruleEffect] at heff
    | true =>
      rw [hm] at heff
      rw [hmono rule hm, ← htok, ← heft]; exact heff

/-- **Revoking never grants** is the same theorem read from the larger configuration to
the smaller one (`allow_grant_monotone` with the roles swapped): stated explicitly. -/
theorem allow_revoke_antitone (c c' : EvalCfg) (reqLen : Nat) (m m' : MatchFn)
    (hr : C01.Ready c reqLen .allowOverride) (hr' : C01.Ready c' reqLen .allowOverride)
    (htok : c.ptokens = c'.ptokens) (heft : c.eftToken = c'.eftToken)
    (hne : c.policy ≠ []) (hsub : ∀ rule ∈ c.policy, rule ∈ c'.policy)
    (hok : ∀ rule ∈ c.policy, rule.length = c.ptokens.length ∧ (m rule).isSome)
    (hok' : ∀ rule ∈ c'.policy, rule.length = c'.ptokens.length ∧ (m' rule).isSome)
    (hmono : ∀ rule, m rule = some true → m' rule = some true)
    (h : enforceCore c' reqLen m' ≠ .ok true) : enforceCore c reqLen m ≠ .ok true :=
  fun hg => h (allow_grant_monotone c c' reqLen m m' hr hr' htok heft hne hsub hok hok' hmono hg)

/-- the effect-list core of the deny half: inserting an effect that is not `allow`
anywhere in the list never turns a denial into a grant -/
theorem deny_insert_never_grants (ex : EffExpr) (hex : ex = .denyOverride ∨ ex = .allowAndDeny)
    (l1 l2 : List Eff) (e : Eff) (he : e ≠ .allow)
    (h : combine ex (l1 ++ e :: l2) = true) : combine ex (l1 ++ l2) = true := by
  rcases hex with hx | hx <;> subst hx <;> cases e <;> simp_all [combine]

/-- …and removing one never turns a grant into a denial -/
theorem deny_remove_never_denies (ex : EffExpr) (hex : ex = .denyOverride ∨ ex = .allowAndDeny)
    (l1 l2 : List Eff) (e : Eff) (he : e ≠ .allow)
    (h : combine ex (l1 ++ l2) = false) : combine ex (l1 ++ e :: l2) = false := by
  cases hc : combine ex (l1 ++ e :: l2) with
  | false => rfl
  | true => rw [deny_insert_never_grants ex hex l1 l2 e he hc] at h; cases h

/-- a rule whose effect column says `deny` yields `deny` or `indeterminate`, never `allow` -/
theorem deny_rule_effect (j : Nat) (b : Bool) (rule : Rule) (h : rule[j]? = some "deny") :
    ruleEffect (some j) b rule ≠ .allow := by
  cases b <;> simp [ruleEffect, h]

/-- **Adding a deny rule never grants** (deny-override / allow-and-deny), error-free stores. -/
theorem deny_add_never_grants (c c' : EvalCfg) (reqLen : Nat) (m : MatchFn) (ex : EffExpr)
    (hex : ex = .denyOverride ∨ ex = .allowAndDeny)
    (hr : C01.Ready c reqLen ex) (hr' : C01.Ready c' reqLen ex)
    (htok : c.ptokens = c'.ptokens) (heft : c.eftToken = c'.eftToken)
    (l1 l2 : List Rule) (rule : Rule) (j : Nat)
    (hpol : c.policy = l1 ++ l2) (hpol' : c'.policy = l1 ++ rule :: l2) (hne : c.policy ≠ [])
    (hj : c.ptokens.idxOf? c.eftToken = some j) (hdeny : rule[j]? = some "deny")
    (hok' : ∀ r ∈ c'.policy, r.length = c'.ptokens.length ∧ (m r).isSome)
    (h : enforceCore c' reqLen m = .ok true) : enforceCore c reqLen m = .ok true := by
  have hne' : c'.policy ≠ [] := by rw [hpol']; simp
  have mk : ∀ (cc : EvalCfg), (∀ r ∈ cc.policy, r.length = cc.ptokens.length ∧ (m r).isSome) →
      cc.policy.map (ruleOutcome cc.ptokens.length (cc.ptokens.idxOf? cc.eftToken) m) =
        (cc.policy.map (effOf (cc.ptokens.idxOf? cc.eftToken) m)).map Except.ok := by
    intro cc hk
    rw [List.map_map]
    apply List.map_congr_left
    intro r hrule
    obtain ⟨hl, hs⟩ := hk r hrule
    cases hm : m r with
    | none => rw [hm] at hs; simp at hs
    | some b => simp [ruleOutcome, hl, hm, effOf]
  have hok : ∀ r ∈ c.policy, r.length = c.ptokens.length ∧ (m r).isSome := by
    intro r hrm
    have : r ∈ c'.policy := by
      rw [hpol'] ; rw [hpol] at hrm
      simp only [List.mem_append, List.mem_cons] at hrm ⊢
      rcases hrm with h1 | h1
      · exact Or.inl h1
      · exact Or.inr (Or.inr h1)
    rw [htok]; exact hok' r this
  rw [C01.enforce_errorfree c' reqLen m ex hr' hne' _ (mk c' hok')] at h
  rw [C01.enforce_errorfree c reqLen m ex hr hne _ (mk c hok)]
  simp only [Out.ok.injEq] at h ⊢
  rw [hpol', ← htok, ← heft, hj] at h
  rw [hpol, hj]
  simp only [List.map_append, List.map_cons] at h ⊢
  apply deny_insert_never_grants ex hex _ _ _ _ h
  unfold effOf
  cases m rule with
  | none => simp
  | some b => exact deny_rule_effect j b rule hdeny

/-! ### Non-vacuity and the recorded corner -/

example : Positive (.and (.g2 "g" (.r 0) (.p 0)) (.cmp .eq (.r 1) (.p 1))) :=
  .and (.g2 (.r 0) (.p 0)) (.cmpEq (.r 1) (.p 1))

/-- the known finding `empty-store-grant`, in the model: on an empty ACL store the
all-empty request is granted (matcher evaluated on empty fields); after adding any rule it
is denied.  This is what C01's statement prescribes for an empty store. -/
example :
    enforceCore { C01.demoCfg with policy := [], effExpr := some .allowOverride } 2
      (fun rule => some (rule[0]? = some "" && rule[1]? = some "")) = .ok true ∧
    enforceCore { C01.demoCfg with policy := [["alice", "d1", "allow"]], effExpr := some .allowOverride } 2
      (fun rule => some (rule[0]? = some "" && rule[1]? = some "")) = .ok false := by decide

/-! ### The recorded finding K2, in the model of the manager as written (`PatRoles.lean`)

With a role-matching function installed the property is **false** of the code, and of its model: a name that is
not a node is answered from the first pattern node matching it, and the first link that mentions the name makes
it a node of its own.  The witness below is the history the check replays on the crate on every run (first case
of the `prm` stream and of the pattern-role stream); `k2_witness` is the negation of "granting never revokes"
for `has_link`, proved by kernel evaluation of the model. -/

/-- `key_match` as the role-matching function -/
def kmFn : RoleFn Str := some keyMatch
def dflt : Str := "DEFAULT".toList

/-- `g b*,alice; g *,guest; remove g *,guest; g reader,guest; g b*,*` on a fresh manager -/
def k2State : PRm Str :=
  (((((PRm.new 10).addLink kmFn "b*".toList "alice".toList dflt).addLink kmFn "*".toList "guest".toList dflt).deleteLink
      kmFn none "*".toList "guest".toList dflt).getD (PRm.new 10)
    |>.addLink kmFn "reader".toList "guest".toList dflt).addLink kmFn "b*".toList "*".toList dflt

/-- **adding a link revokes**: `bob` reaches `guest` through the patterns, and no longer does once
`g guest,bob` has made `bob` a node -/
theorem k2_witness :
    k2State.hasLink kmFn none "bob".toList "guest".toList dflt = true ∧
    (k2State.addLink kmFn "guest".toList "bob".toList dflt).hasLink kmFn none "bob".toList "guest".toList dflt = false := by
  decide +kernel

/-- so `has_link` of the manager with a role-matching function is not monotone in the links added -/
theorem pattern_roles_not_monotone :
    ¬ ∀ (rm : PRm Str) (x y a b d : Str), rm.hasLink kmFn none x y d = true →
        (rm.addLink kmFn a b d).hasLink kmFn none x y d = true := by
  intro h
  have h1 := h k2State "bob".toList "guest".toList "guest".toList "bob".toList dflt k2_witness.1
  rw [k2_witness.2] at h1
  cases h1

/-! ### Pattern domains (a domain-matching function on the role manager) -/

theorem addLink_maxLevel (rm : RoleMgr String) (x y d : String) : (rm.addLink x y d).maxLevel = rm.maxLevel := by
  unfold RoleMgr.addLink; split <;> rfl

/-- **pattern domains: granting never revokes.**  With a domain-matching function installed on the role
manager (no role-matching function), adding a link — in a concrete or in a pattern domain — never takes a
role away from a name, for whatever request domain and matching function, as long as the hierarchies stay
below the depth limit. -/
theorem pattern_domains_addLink_mono (rm : RoleMgr String) (hw : rm.WF) (df : RoleFn String)
    (x y d' a b d : String)
    (hsh : ∀ k, C05.Shallow ((rm.addLink x y d').graph k) rm.maxLevel)
    (h : rm.toP.hasLink none df a b d = true) :
    (rm.toP.addLink none x y d').hasLink none df a b d = true := by
  rw [addLink_toP]
  by_cases hab : a = b
  · simp [PRm.hasLink, hab]
  · rw [hasLink_toP_df _ _ _ _ _ hab] at h ⊢
    rw [List.any_eq_true] at h ⊢
    obtain ⟨k, hk, hl⟩ := h
    refine ⟨k, matchedDomains_addLink rm df x y d' d k hk, ?_⟩
    apply hasLink_mono rm (rm.addLink x y d') (addLink_WF hw x y d') (addLink_maxLevel rm x y d').symm k
      ?_ (by rw [addLink_maxLevel]; exact hsh k) a b hl
    intro u v huv
    rw [addLink_graph]
    by_cases hxy : x = y
    · simpa [hxy] using huv
    · simp only [hxy, if_false]
      by_cases hd : d' = k
      · subst hd
        simp only [if_true, addedGraph]
        have hmem : (u, v) ∈ (((rm.graph d').getOrCreate x).getOrCreate y).edges := by
          simpa [Graph.getOrCreate] using (by
            unfold Graph.getOrCreate; split <;> split <;> simpa using huv :
              (u, v) ∈ (((rm.graph d').getOrCreate x).getOrCreate y).edges)
        split
        · exact hmem
        · exact List.mem_cons_of_mem _ hmem
      · simpa [hd] using huv


/-- a graph with at most one link `u → v`, `u ≠ v`, is shallow for every limit above one -/
theorem shallow_single (g : Graph String) (u v : String) (huv : u ≠ v) (n : Nat) (hn : 2 ≤ n)
    (he : ∀ x y, (x, y) ∈ g.edges → x = u ∧ y = v) : C05.Shallow g n := by
  intro a b ⟨k, hp⟩
  cases hp with
  | nil => exact ⟨0, by omega, Path.nil _⟩
  | cons h1 hp' =>
    cases hp' with
    | nil => exact ⟨1, by omega, Path.cons h1 (Path.nil _)⟩
    | cons h2 _ =>
      exfalso
      obtain ⟨_, hy⟩ := he _ _ h1
      obtain ⟨hx, _⟩ := he _ _ h2
      exact huv (hx.symm.trans hy)

def pdDemo : RoleMgr String := (RoleMgr.new 10).addLink "alice" "admin" "domain1"


/-- non-vacuity of `pattern_domains_addLink_mono`: one link in a concrete domain, a second one added in the
pattern domain `*`, a domain function that lets `*` match every request domain -/
example :
    (pdDemo.toP.addLink none "bob" "admin" "*").hasLink none (some fun d k => k == "*" || k == d) "alice" "admin" "domain1" = true ∧
    (pdDemo.toP.addLink none "bob" "admin" "*").hasLink none (some fun d k => k == "*" || k == d) "bob" "admin" "domain1" = true ∧
    pdDemo.toP.hasLink none (some fun d k => k == "*" || k == d) "bob" "admin" "domain1" = false := by
  refine ⟨?_, by decide +kernel, by decide +kernel⟩
  apply pattern_domains_addLink_mono pdDemo (addLink_WF (WF_new 10) _ _ _) _ "bob" "admin" "*" "alice" "admin" "domain1"
  · intro k
    have hm : pdDemo.maxLevel = 10 := by decide +kernel
    rw [hm]
    by_cases h1 : k = "*"
    · subst h1
      apply shallow_single _ "bob" "admin" (by decide) 10 (by omega)
      intro x y h
      have : ((pdDemo.addLink "bob" "admin" "*").graph "*").edges = [("bob", "admin")] := by decide +kernel
      rw [this] at h; simpa using h
    · by_cases h2 : k = "domain1"
      · subst h2
        apply shallow_single _ "alice" "admin" (by decide) 10 (by omega)
        intro x y h
        have : ((pdDemo.addLink "bob" "admin" "*").graph "domain1").edges = [("alice", "admin")] := by decide +kernel
        rw [this] at h; simpa using h
      · apply shallow_single _ "alice" "admin" (by decide) 10 (by omega)
        intro x y h
        exfalso
        have h1' : ¬ "*" = k := fun hh => h1 hh.symm
        have h2' : ¬ "domain1" = k := fun hh => h2 hh.symm
        rw [addLink_graph] at h
        simp only [show ¬ ("bob" = "admin") by decide, if_false, h1'] at h
        unfold pdDemo at h
        rw [addLink_graph] at h
        simp only [show ¬ ("alice" = "admin") by decide, if_false, h2'] at h
        have : ((RoleMgr.new 10 : RoleMgr String).graph k).edges = [] := by
          simp [RoleMgr.new, RoleMgr.graph, RoleMgr.graph?, Graph.empty]
        rw [this] at h; cases h
  · decide +kernel

end Casbin.C08
