import CasbinModel.Lemmas.Mono
import CasbinModel.Props.C01
import CasbinModel.Props.C05
/-!
# C08 — Granting never revokes and revoking never grants

* a negation-free matcher is monotone in the role links (`Lemmas/Mono.lean`), and
  `has_link` is monotone in the link set for hierarchies below the depth limit;
* under allow-override a decision is "some stored rule matches with effect allow", which
  is monotone in the rule set and in the matcher;
* under deny-override and allow-and-deny a rule that can only produce `deny` or
  `indeterminate` (a deny rule) can never turn a denial into a grant.

Hypotheses forced by the proofs and reported by the check: evaluations do not fail
(an added link can make a short-circuited ill-typed operand reachable), and the store is
non-empty on both sides (empty-store branch: known finding `empty-store-grant`).
-/
namespace Casbin.C08
open Casbin

/-- `has_link` is monotone in the link set, below the depth limit -/
theorem hasLink_mono (rm rm' : RoleMgr String) (hw' : rm'.WF) (hm : rm.maxLevel = rm'.maxLevel)
    (d : String) (hsub : ∀ x y, (x, y) ∈ (rm.graph d).edges → (x, y) ∈ (rm'.graph d).edges)
    (hsh : C05.Shallow (rm'.graph d) rm'.maxLevel) (a b : String)
    (h : rm.hasLink a b d = true) : rm'.hasLink a b d = true := by
  apply C03.hasLink_complete rm' hw'
  rcases C03.hasLink_sound rm a b d h with h1 | ⟨n, hp⟩
  · exact Or.inl h1
  · have hp' : Path (rm'.graph d) a b n := by
      clear h
      induction hp with
      | nil a => exact Path.nil _
      | cons he _ ih => exact Path.cons (hsub _ _ he) ih
    exact Or.inr (hsh a b ⟨n, hp'⟩)

/-- matcher monotonicity restated for `evalBool` -/
theorem matcher_monotone_links {env env' : Env} (h : EnvLe env env') {e : Expr} (hp : Positive e)
    (h1 : e.evalBool env = some true) (h2 : e.evalBool env' ≠ none) : e.evalBool env' = some true := by
  unfold Expr.evalBool at *
  have h1' : e.eval env 8 = vtrue := by
    revert h1
    cases e.eval env 8 with
    | none => simp
    | some v => cases v with
      | map fs => simp
      | atom x => cases x <;> simp [vtrue]
  have h2' : e.eval env' 8 ≠ none := by
    intro hn; rw [hn] at h2; simp at h2
  rw [eval_mono h hp 8 h1' h2']

/-- effect of a rule under a matcher, for well-formed rules -/
def effOf (eftIdx : Option Nat) (m : MatchFn) (rule : Rule) : Eff :=
  match m rule with
  | some b => ruleEffect eftIdx b rule
  | none => .indet

/-- allow-override, error-free: granted iff some stored rule yields `allow` -/
theorem allow_override_iff (c : EvalCfg) (reqLen : Nat) (m : MatchFn)
    (hr : C01.Ready c reqLen .allowOverride) (hne : c.policy ≠ [])
    (hok : ∀ rule ∈ c.policy, rule.length = c.ptokens.length ∧ (m rule).isSome) :
    enforceCore c reqLen m = .ok true ↔
      ∃ rule ∈ c.policy, effOf (c.ptokens.idxOf? c.eftToken) m rule = .allow := by
  have hmap : c.policy.map (ruleOutcome c.ptokens.length (c.ptokens.idxOf? c.eftToken) m) =
      (c.policy.map (effOf (c.ptokens.idxOf? c.eftToken) m)).map Except.ok := by
    rw [List.map_map]
    apply List.map_congr_left
    intro rule hrule
    obtain ⟨hl, hs⟩ := hok rule hrule
    cases hm : m rule with
    | none => rw [hm] at hs; simp at hs
    | some b => simp [ruleOutcome, hl, hm, effOf]
  rw [C01.enforce_errorfree c reqLen m .allowOverride hr hne _ hmap]
  simp [combine]

/-- **Granting never revokes** (allow-override): more rules and a matcher that is true at
least as often keep every grant. -/
theorem allow_grant_monotone (c c' : EvalCfg) (reqLen : Nat) (m m' : MatchFn)
    (hr : C01.Ready c reqLen .allowOverride) (hr' : C01.Ready c' reqLen .allowOverride)
    (htok : c.ptokens = c'.ptokens) (heft : c.eftToken = c'.eftToken)
    (hne : c.policy ≠ []) (hsub : ∀ rule ∈ c.policy, rule ∈ c'.policy)
    (hok : ∀ rule ∈ c.policy, rule.length = c.ptokens.length ∧ (m rule).isSome)
    (hok' : ∀ rule ∈ c'.policy, rule.length = c'.ptokens.length ∧ (m' rule).isSome)
    (hmono : ∀ rule, m rule = some true → m' rule = some true)
    (h : enforceCore c reqLen m = .ok true) : enforceCore c' reqLen m' = .ok true := by
  have hne' : c'.policy ≠ [] := by
    cases hp : c.policy with
    | nil => exact absurd hp hne
    | cons r rs => intro h0; have := hsub r (by simp [hp]); simp [h0] at this
  rw [allow_override_iff c reqLen m hr hne hok] at h
  rw [allow_override_iff c' reqLen m' hr' hne' hok']
  obtain ⟨rule, hrule, heff⟩ := h
  refine ⟨rule, hsub rule hrule, ?_⟩
  unfold effOf at heff ⊢
  cases hm : m rule with
  | none => rw [hm] at heff; simp at heff
  | some b =>
    cases b with
    | false => rw [hm] at heff; simp [ruleEffect] at heff
    | true =>
      rw [hm] at heff
      rw [hmono rule hm, ← htok, ← heft]; exact heff

/-- **Revoking never grants** is the same theorem read from the larger configuration to
the smaller one (`allow_grant_monotone` with the roles swapped): stated explicitly. -/
theorem allow_revoke_antitone (c c' : EvalCfg) (reqLen : Nat) (m m' : MatchFn)
    (hr : C01.Ready c reqLen .allowOverride) (hr' : C01.Ready c' reqLen .allowOverride)
    (htok : c.ptokens = c'.ptokens) (heft : c.eftToken = c'.eftToken)
    (hne : c.policy ≠ []) (hsub : ∀ rule ∈ c.policy, rule ∈ c'.policy)
    (hok : ∀ rule ∈ c.policy, rule.length = c.ptokens.length ∧ (m rule).isSome)
    (hok' : ∀ rule ∈ c'.policy, rule.length = c'.ptokens.length ∧ (m' rule).isSome)
    (hmono : ∀ rule, m rule = some true → m' rule = some true)
    (h : enforceCore c' reqLen m' ≠ .ok true) : enforceCore c reqLen m ≠ .ok true :=
  fun hg => h (allow_grant_monotone c c' reqLen m m' hr hr' htok heft hne hsub hok hok' hmono hg)

/-- the effect-list core of the deny half: inserting an effect that is not `allow`
anywhere in the list never turns a denial into a grant -/
theorem deny_insert_never_grants (ex : EffExpr) (hex : ex = .denyOverride ∨ ex = .allowAndDeny)
    (l1 l2 : List Eff) (e : Eff) (he : e ≠ .allow)
    (h : combine ex (l1 ++ e :: l2) = true) : combine ex (l1 ++ l2) = true := by
  rcases hex with hx | hx <;> subst hx <;> cases e <;> simp_all [combine]

/-- …and removing one never turns a grant into a denial -/
theorem deny_remove_never_denies (ex : EffExpr) (hex : ex = .denyOverride ∨ ex = .allowAndDeny)
    (l1 l2 : List Eff) (e : Eff) (he : e ≠ .allow)
    (h : combine ex (l1 ++ l2) = false) : combine ex (l1 ++ e :: l2) = false := by
  cases hc : combine ex (l1 ++ e :: l2) with
  | false => rfl
  | true => rw [deny_insert_never_grants ex hex l1 l2 e he hc] at h; cases h

/-- a rule whose effect column says `deny` yields `deny` or `indeterminate`, never `allow` -/
theorem deny_rule_effect (j : Nat) (b : Bool) (rule : Rule) (h : rule[j]? = some "deny") :
    ruleEffect (some j) b rule ≠ .allow := by
  cases b <;> simp [ruleEffect, h]

/-- **Adding a deny rule never grants** (deny-override / allow-and-deny), error-free stores. -/
theorem deny_add_never_grants (c c' : EvalCfg) (reqLen : Nat) (m : MatchFn) (ex : EffExpr)
    (hex : ex = .denyOverride ∨ ex = .allowAndDeny)
    (hr : C01.Ready c reqLen ex) (hr' : C01.Ready c' reqLen ex)
    (htok : c.ptokens = c'.ptokens) (heft : c.eftToken = c'.eftToken)
    (l1 l2 : List Rule) (rule : Rule) (j : Nat)
    (hpol : c.policy = l1 ++ l2) (hpol' : c'.policy = l1 ++ rule :: l2) (hne : c.policy ≠ [])
    (hj : c.ptokens.idxOf? c.eftToken = some j) (hdeny : rule[j]? = some "deny")
    (hok' : ∀ r ∈ c'.policy, r.length = c'.ptokens.length ∧ (m r).isSome)
    (h : enforceCore c' reqLen m = .ok true) : enforceCore c reqLen m = .ok true := by
  have hne' : c'.policy ≠ [] := by rw [hpol']; simp
  have mk : ∀ (cc : EvalCfg), (∀ r ∈ cc.policy, r.length = cc.ptokens.length ∧ (m r).isSome) →
      cc.policy.map (ruleOutcome cc.ptokens.length (cc.ptokens.idxOf? cc.eftToken) m) =
        (cc.policy.map (effOf (cc.ptokens.idxOf? cc.eftToken) m)).map Except.ok := by
    intro cc hk
    rw [List.map_map]
    apply List.map_congr_left
    intro r hrule
    obtain ⟨hl, hs⟩ := hk r hrule
    cases hm : m r with
    | none => rw [hm] at hs; simp at hs
    | some b => simp [ruleOutcome, hl, hm, effOf]
  have hok : ∀ r ∈ c.policy, r.length = c.ptokens.length ∧ (m r).isSome := by
    intro r hrm
    have : r ∈ c'.policy := by
      rw [hpol'] ; rw [hpol] at hrm
      simp only [List.mem_append, List.mem_cons] at hrm ⊢
      rcases hrm with h1 | h1
      · exact Or.inl h1
      · exact Or.inr (Or.inr h1)
    rw [htok]; exact hok' r this
  rw [C01.enforce_errorfree c' reqLen m ex hr' hne' _ (mk c' hok')] at h
  rw [C01.enforce_errorfree c reqLen m ex hr hne _ (mk c hok)]
  simp only [Out.ok.injEq] at h ⊢
  rw [hpol', ← htok, ← heft, hj] at h
  rw [hpol, hj]
  simp only [List.map_append, List.map_cons] at h ⊢
  apply deny_insert_never_grants ex hex _ _ _ _ h
  unfold effOf
  cases m rule with
  | none => simp
  | some b => exact deny_rule_effect j b rule hdeny

/-! ### Non-vacuity and the recorded corner -/

example : Positive (.and (.g2 "g" (.r 0) (.p 0)) (.cmp .eq (.r 1) (.p 1))) :=
  .and (.g2 (.r 0) (.p 0)) (.cmpEq (.r 1) (.p 1))

/-- the known finding `empty-store-grant`, in the model: on an empty ACL store the
all-empty request is granted (matcher evaluated on empty fields); after adding any rule it
is denied.  This is what C01's statement prescribes for an empty store. -/
example :
    enforceCore { C01.demoCfg with policy := [], effExpr := some .allowOverride } 2
      (fun rule => some (rule[0]? = some "" && rule[1]? = some "")) = .ok true ∧
    enforceCore { C01.demoCfg with policy := [["alice", "d1", "allow"]], effExpr := some .allowOverride } 2
      (fun rule => some (rule[0]? = some "" && rule[1]? = some "")) = .ok false := by decide

end Casbin.C08
