import CasbinModel.Lemmas.Closure
import CasbinModel.Props.C03
import CasbinModel.Props.C04
import CasbinModel.Props.C08
/-!
# C13 — RBAC queries agree with enforcement

For every well-formed role manager (any history, cycles and diamonds included):
implicit roles are exactly the names reachable by at least one link; users-for-role and
roles-for-user are inverse views; implicit permissions are exactly the stored rules whose
subject is the user or one of those roles (and whose domain is the given one); under a
matcher that is "g(r.sub, p.sub) ∧ the remaining fields are equal", a request is granted
iff it appears among the subject's implicit permissions (hierarchies below the depth
limit); after `delete_user` / `delete_role` / `delete_permission` no stored rule carries the
deleted entity in the positions the call covers.
-/
namespace Casbin.C13
open Casbin

/-- **Implicit roles = reachability (≥ 1 link)**, via the work-list closure. -/
theorem implicitRoles_eq_reach (e : Enforcer) (hw : e.rm.WF) (name : String) (d : Option String) (r : String) :
    r ∈ e.getImplicitRoles name d ↔
      Reach1 (fun n => e.rm.getRoles n (optDom d)) name r := by
  unfold Enforcer.getImplicitRoles implicitRolesGo RoleMgr.nodeCount
  apply closure_eq_reach
  intro x y hy
  have := (C03.getRoles_eq e.rm hw x (optDom d) y).mp hy
  exact ((hw (optDom d)).edges_in _ this).2

/-- one step of that relation is a link of the domain -/
theorem step_is_link (rm : RoleMgr String) (hw : rm.WF) (d x y : String) :
    y ∈ rm.getRoles x d ↔ (x, y) ∈ (rm.graph d).edges := C03.getRoles_eq rm hw x d y

/-- **Roles-for-user and users-for-role are inverse views of the same links.** -/
theorem roles_users_inverse (rm : RoleMgr String) (hw : rm.WF) (u r d : String) :
    r ∈ rm.getRoles u d ↔ u ∈ rm.getUsers r d := by
  rw [C03.getRoles_eq rm hw, C03.getUsers_eq rm hw]

theorem hasRole_iff (e : Enforcer) (name role : String) (d : Option String) :
    e.hasRoleForUser name role d = true ↔ role ∈ e.getRolesForUser name d := by
  simp [Enforcer.hasRoleForUser]

/-- **Implicit permissions** = the stored rules whose subject is the user or one of its
implicit roles (restricted to the domain when one is given). -/
theorem implicitPerms_eq (e : Enforcer) (user : String) (d : Option String) (rule : Rule) :
    rule ∈ e.getImplicitPermissions user d ↔
      ∃ holder, (holder = user ∨ holder ∈ e.getImplicitRoles user d) ∧
        rule ∈ e.store.getPolicy "p" "p" ∧
        filterMatch 0 (match d with | some dom => [holder, dom] | none => [holder]) rule = true := by
  unfold Enforcer.getImplicitPermissions Enforcer.getPermissionsForUser Store.getFiltered
  simp only [List.mem_flatMap, List.mem_cons, List.mem_filter]
  constructor
  · rintro ⟨h, hh, hr, hm⟩; exact ⟨h, hh, hr, hm⟩
  · rintro ⟨h, hh, hr, hm⟩; exact ⟨h, hh, hr, hm⟩

/-- what the filter `[holder]` / `[holder, dom]` at index 0 means -/
theorem holder_filter (holder : String) (hne : holder ≠ "") (rule : Rule) :
    filterMatch 0 [holder] rule = true ↔ rule[0]? = some holder := by
  simp [filterMatch, List.zipIdx, hne]

theorem holder_dom_filter (holder dom : String) (hne : holder ≠ "") (hnd : dom ≠ "") (rule : Rule) :
    filterMatch 0 [holder, dom] rule = true ↔ rule[0]? = some holder ∧ rule[1]? = some dom := by
  simp [filterMatch, List.zipIdx, hne, hnd]

/-- **Enforcement ⇔ implicit permission** (abstract matcher form).  `m` is the matcher of an
RBAC model: true exactly on rules whose subject is the request's subject or a role it has,
and whose remaining fields equal the request's.  With `has_link` = reachability (C03, below
the depth limit) a request is granted iff some rule held by the subject or one of its
implicit roles has that tail. -/
theorem enforce_iff_implicitPerm (c : EvalCfg) (reqLen : Nat) (m : MatchFn)
    (hr : C01.Ready c reqLen .allowOverride) (hne : c.policy ≠ []) (hnoeft : c.ptokens.idxOf? c.eftToken = none)
    (holds : String → Bool) (tail : List String)
    (hlen : ∀ rule ∈ c.policy, rule.length = c.ptokens.length)
    (hm : ∀ rule ∈ c.policy, m rule = some ((match rule[0]? with | some s => holds s | none => false) && rule.drop 1 == tail)) :
    enforceCore c reqLen m = .ok true ↔
      ∃ rule ∈ c.policy, (∃ s, rule[0]? = some s ∧ holds s = true) ∧ rule.drop 1 = tail := by
  rw [C08.allow_override_iff c reqLen m hr hne (fun rule hrule => ⟨hlen rule hrule, by rw [hm rule hrule]; rfl⟩)]
  constructor
  · rintro ⟨rule, hrule, heff⟩
    refine ⟨rule, hrule, ?_⟩
    unfold C08.effOf at heff
    rw [hm rule hrule, hnoeft] at heff
    simp only [ruleEffect] at heff
    cases h0 : rule[0]? with
    | none => simp [h0] at heff
    | some s =>
      simp only [h0] at heff
      cases hh : holds s <;> cases ht : (rule.drop 1 == tail) <;> simp_all
  · rintro ⟨rule, hrule, ⟨s, hs, hh⟩, ht⟩
    refine ⟨rule, hrule, ?_⟩
    unfold C08.effOf
    rw [hm rule hrule, hnoeft]
    simp [ruleEffect, hs, hh, ht]

/-- **delete_user** (store level, adapter not vetoing): afterwards no grouping rule and no
permission rule carries the name in the subject position. -/
theorem deleteUser_post (s : Store) (n : String) (hn : n ≠ "") :
    let s1 := (s.removeFiltered "g" "g" 0 [n]).1
    let s2 := (s1.removeFiltered "p" "p" 0 [n]).1
    (∀ rule ∈ s2.getPolicy "g" "g", rule[0]? ≠ some n) ∧ (∀ rule ∈ s2.getPolicy "p" "p", rule[0]? ≠ some n) := by
  have key : ∀ (st : Store) (sec pt : String), ∀ rule ∈ (st.removeFiltered sec pt 0 [n]).1.getPolicy sec pt, rule[0]? ≠ some n := by
    intro st sec pt rule hrule
    cases hf : st.find sec pt with
    | none =>
      have : (st.removeFiltered sec pt 0 [n]).1 = st := by simp [Store.removeFiltered, hf]
      rw [this] at hrule; simp [Store.getPolicy, hf] at hrule
    | some d =>
      have := (C04.removeFiltered_target st sec pt 0 [n] d hf (by simp)).1
      rw [this] at hrule
      have := (List.mem_filter.mp hrule).2
      intro h0
      simp [filterMatch, List.zipIdx, hn, h0] at this
  have other : ∀ (st : Store), (st.removeFiltered "p" "p" 0 [n]).1.getPolicy "g" "g" = st.getPolicy "g" "g" := by
    intro st
    unfold Store.removeFiltered
    simp only [List.isEmpty_cons, Bool.false_eq_true, if_false]
    cases hf : st.find "p" "p" with
    | none => rfl
    | some d =>
      simp only
      split
      · rfl
      · rw [Store.getPolicy_update st "p" "p" "g" "g" (fun pol => pol.filter (fun r => !filterMatch 0 [n] r))]
        simp
  intro s1 s2
  refine ⟨?_, key s1 "p" "p"⟩
  intro rule hrule
  simp only [s2] at hrule
  rw [other s1] at hrule
  exact key s "g" "g" rule hrule

/-- **delete_permission**: no stored rule keeps the permission in positions 1… -/
theorem deletePermission_post (s : Store) (perm : List String) (hp : perm ≠ []) (hne : ∀ v ∈ perm, v ≠ "") :
    ∀ rule ∈ (s.removeFiltered "p" "p" 1 perm).1.getPolicy "p" "p", filterMatch 1 perm rule = false := by
  intro rule hrule
  cases hf : s.find "p" "p" with
  | none =>
    have : (s.removeFiltered "p" "p" 1 perm).1 = s := by
      simp [Store.removeFiltered, hf]
    rw [this] at hrule; simp [Store.getPolicy, hf] at hrule
  | some d =>
    have := (C04.removeFiltered_target s "p" "p" 1 perm d hf hp).1
    rw [this] at hrule
    have := (List.mem_filter.mp hrule).2
    simpa using this

/-! ### Non-vacuity: a diamond with a cycle -/
def demoRm : RoleMgr String :=
  (RoleMgr.new 10).run [.add "u" "a" "DEFAULT", .add "u" "b" "DEFAULT", .add "a" "c" "DEFAULT",
    .add "b" "c" "DEFAULT", .add "c" "u" "DEFAULT"]
example : (closureGo (fun n => demoRm.getRoles n "DEFAULT") 6 ["u"] []) = ["b", "a", "c", "u"] := by decide +kernel


/-! ### delete_role, and what the delete helpers leave alone -/

/-- a filtered removal touches the rules of its own policy type only -/
theorem removeFiltered_other (s : Store) (sec pt sec' pt' : String) (idx : Nat) (vals : List String)
    (h : ¬ (sec = sec' ∧ pt = pt')) :
    (s.removeFiltered sec pt idx vals).1.getPolicy sec' pt' = s.getPolicy sec' pt' := by
  unfold Store.removeFiltered
  split
  · rfl
  · cases hf : s.find sec pt with
    | none => rfl
    | some d =>
      simp only
      split
      · rfl
      · rw [Store.getPolicy_update s sec pt sec' pt' (fun pol => pol.filter (fun r => !filterMatch idx vals r))]
        simp [h]

/-- after a filtered removal on one value, no rule of that type carries the value at that position -/
theorem removeFiltered_post (s : Store) (sec pt : String) (idx : Nat) (n : String) (hn : n ≠ "") :
    ∀ rule ∈ (s.removeFiltered sec pt idx [n]).1.getPolicy sec pt, rule[idx]? ≠ some n := by
  intro rule hrule
  cases hf : s.find sec pt with
  | none =>
    have : (s.removeFiltered sec pt idx [n]).1 = s := by simp [Store.removeFiltered, hf]
    rw [this] at hrule; simp [Store.getPolicy, hf] at hrule
  | some d =>
    have := (C04.removeFiltered_target s sec pt idx [n] d hf (by simp)).1
    rw [this] at hrule
    have := (List.mem_filter.mp hrule).2
    intro h0
    simp [filterMatch, List.zipIdx, hn, h0] at this

/-- **delete_role** (store level, adapter not vetoing): afterwards no grouping rule carries the name in the role
position and no permission rule carries it in the subject position -/
theorem deleteRole_post (s : Store) (n : String) (hn : n ≠ "") :
    let s1 := (s.removeFiltered "g" "g" 1 [n]).1
    let s2 := (s1.removeFiltered "p" "p" 0 [n]).1
    (∀ rule ∈ s2.getPolicy "g" "g", rule[1]? ≠ some n) ∧ (∀ rule ∈ s2.getPolicy "p" "p", rule[0]? ≠ some n) := by
  intro s1 s2
  refine ⟨?_, removeFiltered_post s1 "p" "p" 0 n hn⟩
  intro rule hrule
  simp only [s2] at hrule
  rw [removeFiltered_other s1 "p" "p" "g" "g" 0 [n] (by decide)] at hrule
  exact removeFiltered_post s "g" "g" 1 n hn rule hrule

/-- **the delete helpers speak about `g` and `p` only**: every other role definition and every other policy type
keeps its rules, in order (`delete_user`: position 0 of `g`; `delete_role`: position 1) -/
theorem delete_helpers_confined (s : Store) (n : String) (i : Nat) (sec' pt' : String)
    (h1 : ¬ ("g" = sec' ∧ "g" = pt')) (h2 : ¬ ("p" = sec' ∧ "p" = pt')) :
    ((s.removeFiltered "g" "g" i [n]).1.removeFiltered "p" "p" 0 [n]).1.getPolicy sec' pt' = s.getPolicy sec' pt' := by
  rw [removeFiltered_other _ "p" "p" sec' pt' 0 [n] h2, removeFiltered_other s "g" "g" sec' pt' i [n] h1]

example (s : Store) (n : String) :
    ((s.removeFiltered "g" "g" 0 [n]).1.removeFiltered "p" "p" 0 [n]).1.getPolicy "g" "g2" = s.getPolicy "g" "g2" :=
  delete_helpers_confined s n 0 "g" "g2" (by decide) (by decide)

end Casbin.C13
