import CasbinModel.Enforcer
/-!
# C18 — A reconfigured enforcer equals a freshly built one

`set_model` on any enforcer (with the default toggles and an unfiltered adapter) produces
the same policy store, the same role manager, the same definitions, the same adapter state
and the same result as `Enforcer::new` on the same model and adapter; the engine's
g-function table is a superset of the fresh one (registrations are never removed), which
a matcher that only calls the role functions its own model defines cannot observe.
`set_adapter` and `set_role_manager` are the analogous statements.
-/
namespace Casbin.C18
open Casbin

theorem registerG_acc (ds : List PolDef) : ∀ acc : List (String × Nat),
    registerG acc ds = (registerG [] ds).map (acc ++ ·) := by
  induction ds with
  | nil => intro acc; simp [registerG]
  | cons d rest ih =>
    intro acc
    simp only [registerG]
    split
    · simp only [List.nil_append]
      rw [ih (acc ++ [(d.key, d.arity)]), ih [(d.key, d.arity)]]
      cases registerG [] rest with
      | none => rfl
      | some x => simp [List.append_assoc]
    · rfl

theorem registerG_clear (s : Store) (acc : List (String × Nat)) : registerG acc s.clear.g = registerG acc s.g := by
  simp only [Store.clear]
  induction s.g generalizing acc with
  | nil => rfl
  | cons d rest ih => simp only [List.map_cons, registerG]; split <;> simp [ih]

theorem buildRoleLinks_congr (rm rm' : RoleMgr String) (gs : List PolDef) (h : rm.maxLevel = rm'.maxLevel) :
    Casbin.buildRoleLinks rm gs = Casbin.buildRoleLinks rm' gs := by
  unfold Casbin.buildRoleLinks
  have : rm.clear = rm'.clear := by simp [RoleMgr.clear, h]
  rw [this]

/-- what a decision or a policy / role query depends on, apart from the function tables -/
structure SameCore (e e' : Enforcer) : Prop where
  store : e'.store = e.store
  rm : e'.rm = e.rm
  defs : e'.defs = e.defs
  adapter : e'.adapter = e.adapter

/-- `load_policy` (auto-build on) only looks at store layout, adapter and the hierarchy
limit of the role manager -/
theorem loadPolicy_proj (e e' : Enforcer) (h1 : e'.store = e.store) (h2 : e'.adapter = e.adapter)
    (hb : e.autoBuild = true) (hb' : e'.autoBuild = true) (h4 : e'.rm.maxLevel = e.rm.maxLevel)
    (h5 : e'.defs = e.defs) :
    e'.loadPolicy.2 = e.loadPolicy.2 ∧ SameCore e.loadPolicy.1 e'.loadPolicy.1 := by
  unfold Enforcer.loadPolicy Enforcer.finishLoad
  rw [h1, h2]
  cases hl : e.adapter.load e.store.clear with
  | mk a rest =>
    obtain ⟨s, ok⟩ := rest
    cases ok with
    | none =>
      simp only [hb, hb', if_true, Enforcer.buildRoleLinks]
      rw [buildRoleLinks_congr e'.rm e.rm _ h4]
      refine ⟨by simp, ⟨?_, ?_, ?_, ?_⟩⟩ <;> simp_all
    | some u =>
      simp only [hb, hb', if_true, Enforcer.buildRoleLinks]
      rw [buildRoleLinks_congr e'.rm e.rm _ h4]
      cases hbr : (Casbin.buildRoleLinks e.rm s.g).2 with
      | none => refine ⟨by simp, ⟨?_, ?_, ?_, ?_⟩⟩ <;> simp_all
      | some k =>
        simp only [hb, hb', if_true]
        refine ⟨by simp, ⟨?_, ?_, ?_, ?_⟩⟩ <;> simp_all

/-- **set_model = fresh construction** on store, role manager, definitions, adapter and
result; the registered g-functions are a superset of the fresh enforcer's. -/
theorem setModel_eq_fresh (e : Enforcer) (defs : Defs) (store : Store)
    (hb : e.autoBuild = true) (hf : e.adapter.filtered = false) (hm : e.rm.maxLevel = 10) :
    match Enforcer.new defs store e.adapter with
    | none => (e.setModel defs store).2 = .err .model
    | some (f, rf) =>
      (e.setModel defs store).2 = rf ∧ SameCore f (e.setModel defs store).1 ∧
      (∀ x ∈ f.gfuncs, x ∈ (e.setModel defs store).1.gfuncs) := by
  unfold Enforcer.new Enforcer.newRaw Enforcer.setModel
  simp only
  rw [registerG_clear, registerG_acc store.g e.gfuncs]
  cases hr : registerG [] store.g with
  | none => simp
  | some gf =>
    simp only [Option.map_some, hf, Bool.false_eq_true, if_false]
    have := loadPolicy_proj
      { defs := defs, store := store.clear, adapter := e.adapter, rm := RoleMgr.new 10, enabled := true,
        autoSave := true, autoBuild := true, autoNotify := true, callbacks := 1, hasWatcher := false,
        gfuncs := gf, userFns := [], log := [] }
      { e with defs := defs, store := store.clear, gfuncs := e.gfuncs ++ gf }
      rfl rfl rfl hb (by simp [hm, RoleMgr.new]) rfl
    refine ⟨this.1, this.2, ?_⟩
    intro x hx
    -- load_policy does not touch the function table
    have hg : ∀ (z : Enforcer), z.loadPolicy.1.gfuncs = z.gfuncs := by
      intro z
      unfold Enforcer.loadPolicy Enforcer.finishLoad Enforcer.buildRoleLinks
      simp only
      split <;> (try split) <;> (try split) <;> simp <;> (try split) <;> simp
    rw [hg] at hx ⊢
    exact List.mem_append.mpr (Or.inr hx)

/-- **set_adapter = fresh construction with that adapter** (same model) -/
theorem setAdapter_eq_fresh (e : Enforcer) (a : AdapterSt) (hb : e.autoBuild = true) :
    (e.setAdapter a).2 = ({ e with adapter := a, rm := RoleMgr.new e.rm.maxLevel } : Enforcer).loadPolicy.2 ∧
    SameCore ({ e with adapter := a, rm := RoleMgr.new e.rm.maxLevel } : Enforcer).loadPolicy.1 (e.setAdapter a).1 := by
  unfold Enforcer.setAdapter
  exact loadPolicy_proj _ _ rfl rfl hb hb (by simp [RoleMgr.new]) rfl

/-- **set_role_manager**: the new manager holds exactly what a rebuild produces, and every
role definition of the model is (re-)registered -/
theorem setRoleManager_spec (e : Enforcer) (hb : e.autoBuild = true) :
    (Casbin.buildRoleLinks (RoleMgr.new 10) e.store.g).2 = none →
    (∀ gf, registerG [] e.store.g = some gf →
      e.setRoleManager.1.rm = (Casbin.buildRoleLinks (RoleMgr.new 10) e.store.g).1 ∧
      e.setRoleManager.1.store = e.store ∧
      e.setRoleManager.2 = .unit ∧ ∀ x ∈ gf, x ∈ e.setRoleManager.1.gfuncs) := by
  intro hok gf hgf
  unfold Enforcer.setRoleManager Enforcer.setRoleManagerWith
  simp only []
  rw [registerG_acc e.store.g e.gfuncs, hgf]
  simp only [Option.map_some, hb, if_true, Enforcer.buildRoleLinks]
  cases hbr : Casbin.buildRoleLinks (RoleMgr.new 10) e.store.g with
  | mk rm' r =>
    rw [hbr] at hok; simp only at hok; subst hok
    exact ⟨rfl, rfl, rfl, fun x hx => List.mem_append.mpr (Or.inr hx)⟩

/-- **a failing rebuild still leaves the role functions on the new manager** (regression for F24): when the
stored grouping rules cannot be linked, `set_role_manager` reports the error, but the functions of every role
definition are registered all the same — decisions and link maintenance keep using one and the same manager
(in the model there is a single `rm` field; the crate's closures capture it at registration time) -/
theorem setRoleManager_failing_build_registers (e : Enforcer) (hb : e.autoBuild = true) (k : ErrKind)
    (hfail : (Casbin.buildRoleLinks (RoleMgr.new 10) e.store.g).2 = some k) (gf : List (String × Nat))
    (hgf : registerG [] e.store.g = some gf) :
    e.setRoleManager.2 = .err k ∧ ∀ x ∈ gf, x ∈ e.setRoleManager.1.gfuncs := by
  unfold Enforcer.setRoleManager Enforcer.setRoleManagerWith
  simp only []
  rw [registerG_acc e.store.g e.gfuncs, hgf]
  simp only [Option.map_some, hb, if_true, Enforcer.buildRoleLinks]
  cases hbr : Casbin.buildRoleLinks (RoleMgr.new 10) e.store.g with
  | mk rm' r =>
    rw [hbr] at hfail; simp only at hfail; subst hfail
    exact ⟨rfl, fun x hx => List.mem_append.mpr (Or.inr hx)⟩

/-- **a handed-over manager's previous content is irrelevant** (auto-build on, role definitions well-formed):
whatever links the manager given to `set_role_manager` still holds — a fresh one, or a kept handle that went
stale while detached — the enforcer afterwards is the same, as long as the hierarchy limit is the same -/
theorem setRoleManagerWith_content_irrelevant (e : Enforcer) (hb : e.autoBuild = true) (r1 r2 : RoleMgr String)
    (hm : r1.maxLevel = r2.maxLevel) (hreg : (registerG e.gfuncs e.store.g).isSome = true) :
    e.setRoleManagerWith r1 = e.setRoleManagerWith r2 := by
  unfold Enforcer.setRoleManagerWith
  simp only []
  cases hr : registerG e.gfuncs e.store.g with
  | none => rw [hr] at hreg; cases hreg
  | some gf =>
    simp only [hb, if_true, Enforcer.buildRoleLinks]
    rw [buildRoleLinks_congr r1 r2 e.store.g hm]

/-- in particular handing back a stale handle is the same as installing a fresh manager -/
theorem setRoleManagerWith_eq_fresh (e : Enforcer) (hb : e.autoBuild = true) (r : RoleMgr String) (hm : r.maxLevel = 10)
    (hreg : (registerG e.gfuncs e.store.g).isSome = true) :
    e.setRoleManagerWith r = e.setRoleManager :=
  setRoleManagerWith_content_irrelevant e hb r (RoleMgr.new 10) (by simp [hm, RoleMgr.new]) hreg

/-- with automatic link building **off**, `set_role_manager` installs the manager as handed over (its links are the caller's
business until `build_role_links`) and registers the role functions of every role definition all the same - so that
decisions, role queries and the later rebuild all use that one manager -/
theorem setRoleManagerWith_manual (e : Enforcer) (hb : e.autoBuild = false) (r : RoleMgr String) (gf : List (String × Nat))
    (hgf : registerG [] e.store.g = some gf) :
    (e.setRoleManagerWith r).1.rm = r ∧ (e.setRoleManagerWith r).2 = .unit ∧
    (e.setRoleManagerWith r).1.store = e.store ∧ ∀ x ∈ gf, x ∈ (e.setRoleManagerWith r).1.gfuncs := by
  unfold Enforcer.setRoleManagerWith
  simp only []
  rw [registerG_acc e.store.g e.gfuncs, hgf]
  simp only [Option.map_some, hb, Bool.false_eq_true, if_false]
  exact ⟨trivial, trivial, trivial, fun x hx => List.mem_append.mpr (Or.inr hx)⟩

/-- … and the explicit rebuild that follows fills exactly that manager from the stored rules -/
theorem build_after_manual_set (e : Enforcer) (hb : e.autoBuild = false) (r : RoleMgr String) (gf : List (String × Nat))
    (hgf : registerG [] e.store.g = some gf) :
    (e.setRoleManagerWith r).1.buildRoleLinks.1.rm = (Casbin.buildRoleLinks r e.store.g).1 := by
  obtain ⟨h1, _, h3, _⟩ := setRoleManagerWith_manual e hb r gf hgf
  unfold Enforcer.buildRoleLinks
  simp only []
  rw [h1, h3]

/-! ### Non-vacuity and the regression witness for the repaired defect (F11) -/
def aclStore : Store := ⟨[{ key := "p", tokens := ["p_sub"], arity := 0, policy := [] }], []⟩
def rbacStore : Store := ⟨[{ key := "p", tokens := ["p_sub"], arity := 0, policy := [] }],
                          [{ key := "g", tokens := [], arity := 2, policy := [] }]⟩
def memA : AdapterSt := { kind := .memory, lines := [["p", "p", "admin"], ["g", "g", "alice", "admin"]], text := [], filtered := false, plan := [] }
/-- starting from an ACL model, `set_model(rbac)` registers `g` (before the repair it did not)
and the links of the reloaded grouping rules are in force -/
example : (Enforcer.new ⟨[], [], []⟩ aclStore memA).map (fun p =>
      decide (("g", 2) ∈ (p.1.setModel ⟨[], [], []⟩ rbacStore).1.gfuncs) &&
      (p.1.setModel ⟨[], [], []⟩ rbacStore).1.rm.hasLink "alice" "admin" "DEFAULT") = some true := by
  decide +kernel

end Casbin.C18
