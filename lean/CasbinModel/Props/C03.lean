import CasbinModel.Lemmas.RoleMgr
import CasbinModel.Lemmas.PatRoles
/-!
# C03 — Role inheritance is reachability within the domain

Property theorems only.  `RoleMgr` mirrors `DefaultRoleManager` (no matching
functions), including the BFS whose depth counter only advances when the queue
drains.  All statements hold for every history of add/delete/clear, every graph
size and every hierarchy limit.
-/
namespace Casbin.C03
open Casbin
variable {α : Type} [DecidableEq α]

/-- **Soundness, whatever the depth**: a role that is not reachable is never reported. -/
theorem hasLink_sound (rm : RoleMgr α) (a b d : α) (h : rm.hasLink a b d = true) :
    a = b ∨ Reach (rm.graph d) a b := by
  unfold RoleMgr.hasLink at h
  by_cases hab : a = b
  · exact Or.inl hab
  · right
    simp only [hab, if_false] at h
    cases hg : rm.graph? d with
    | none => simp [hg] at h
    | some g =>
      simp only [hg] at h
      rw [RoleMgr.graph?_some_graph hg]
      split at h
      · exact search_sound _ _ (sinv_init g a) h
      · cases h

/-- **Completeness below the limit**: a role reachable through a chain shorter than the
hierarchy limit is always reported (for the code's level-blind depth counter). -/
theorem hasLink_complete (rm : RoleMgr α) (hw : rm.WF) (a b d : α)
    (h : a = b ∨ ∃ L, L < rm.maxLevel ∧ Path (rm.graph d) a b L) : rm.hasLink a b d = true := by
  unfold RoleMgr.hasLink
  by_cases hab : a = b
  · simp [hab]
  · simp only [hab, if_false]
    rcases h with h | ⟨L, hL, hp⟩
    · exact absurd h hab
    · have hwd := hw d
      cases hp with
      | nil => exact absurd rfl hab
      | @cons _ x _ n he hp' =>
        cases hg : rm.graph? d with
        | none => rw [RoleMgr.graph?_none_graph hg] at he; simp [Graph.empty] at he
        | some g =>
          rw [RoleMgr.graph?_some_graph hg] at he hp' hwd
          have ha : a ∈ g.nodes := (hwd.edges_in _ he).1
          simp only [ha, if_true]
          have hN : ∀ e ∈ g.edges, e.2 ∈ g.nodes := fun e he => (hwd.edges_in e he).2
          exact search_complete hN (Path.cons he hp') hL (g.nodes.length + 1) (Bfs.init a) [] _ _
            (inv_init g a g.nodes ha) (by simp) (by simp)

/-- **Termination / fuel sufficiency**: the fuel the model gives the BFS loop is never the
reason it stops — any larger fuel computes the same answer, i.e. the real un-fuelled
`while let Some(node) = bfs.next()` loop terminates (also on cycles) with this answer. -/
theorem bfs_fuel_suffices (g : Graph α) (hw : g.WF) (maxD : Nat) (a t : α) (ha : a ∈ g.nodes) (k : Nat) :
    search g maxD t (g.nodes.length + 1 + k) (Bfs.init a) = search g maxD t (g.nodes.length + 1) (Bfs.init a) :=
  search_fuel_stable (fun e he => (hw.edges_in e he).2) (g.nodes.length + 1) (Bfs.init a) [] _ _
    (inv_init g a g.nodes ha) (by simp) k

/-- Well-formedness (index map in step with the graph, edges in range, no duplicate
edges, no self-loops) holds after every history. -/
theorem wf_run (n : Nat) (h : List (RmOp α)) : ((RoleMgr.new n : RoleMgr α).run h).WF :=
  WF_run (WF_new n) h

/-- **Refinement**: after any history the edges of every domain's graph are exactly the
links added and not deleted since the last clear. -/
theorem edges_run (n : Nat) (h : List (RmOp α)) (d a b : α) :
    (a, b) ∈ (((RoleMgr.new n : RoleMgr α).run h).graph d).edges ↔ (LinkRel.empty.run h) d a b = true :=
  refines_run (WF_new n) (refines_new n) h d a b

/-- The statement of C03 at history level: `has_link` never reports an unreachable role… -/
theorem history_sound (n : Nat) (h : List (RmOp α)) (a b d : α)
    (hl : ((RoleMgr.new n : RoleMgr α).run h).hasLink a b d = true) :
    a = b ∨ ∃ k, SpecPath ((LinkRel.empty.run h) d) a b k := by
  rcases hasLink_sound _ a b d hl with h1 | ⟨k, hp⟩
  · exact Or.inl h1
  · exact Or.inr ⟨k, (path_iff_specPath (fun x y => edges_run n h d x y)).mp hp⟩

/-- …and always reports one reachable by a chain shorter than the hierarchy limit. -/
theorem history_complete (n : Nat) (h : List (RmOp α)) (a b d : α)
    (hp : a = b ∨ ∃ k, k < n ∧ SpecPath ((LinkRel.empty.run h) d) a b k) :
    ((RoleMgr.new n : RoleMgr α).run h).hasLink a b d = true := by
  apply hasLink_complete _ (wf_run n h)
  rcases hp with h1 | ⟨k, hk, hp⟩
  · exact Or.inl h1
  · refine Or.inr ⟨k, ?_, (path_iff_specPath (fun x y => edges_run n h d x y)).mpr hp⟩
    rw [maxLevel_run]; exact hk

/-- Direct role listing = out-neighbours in the domain. -/
theorem getRoles_eq (rm : RoleMgr α) (hw : rm.WF) (a d x : α) :
    x ∈ rm.getRoles a d ↔ (a, x) ∈ (rm.graph d).edges := by
  unfold RoleMgr.getRoles
  cases hg : rm.graph? d with
  | none => simp [RoleMgr.graph?_none_graph hg, Graph.empty]
  | some g =>
    have hwd := hw d
    rw [RoleMgr.graph?_some_graph hg] at hwd ⊢
    simp only
    split
    · simp [mem_dedup, mem_succs]
    · rename_i ha
      constructor
      · intro h; cases h
      · intro h; exact absurd (hwd.edges_in _ h).1 ha

/-- Direct user listing = in-neighbours in the domain. -/
theorem getUsers_eq (rm : RoleMgr α) (hw : rm.WF) (a d x : α) :
    x ∈ rm.getUsers a d ↔ (x, a) ∈ (rm.graph d).edges := by
  unfold RoleMgr.getUsers
  cases hg : rm.graph? d with
  | none => simp [RoleMgr.graph?_none_graph hg, Graph.empty]
  | some g =>
    have hwd := hw d
    rw [RoleMgr.graph?_some_graph hg] at hwd ⊢
    simp only
    split
    · simp [mem_dedup, Graph.preds]
    · rename_i ha
      constructor
      · intro h; cases h
      · intro h; exact absurd (hwd.edges_in _ h).2 ha

/-- listings contain no duplicates -/
theorem getRoles_nodup (rm : RoleMgr α) (a d : α) : (rm.getRoles a d).Nodup := by
  unfold RoleMgr.getRoles
  split
  · simp
  · split
    · exact nodup_dedup _
    · simp

/-- **Domains are separate**: an addition or deletion in another domain leaves this
domain's graph (hence every answer about it) untouched. -/
theorem other_domain_irrelevant (rm : RoleMgr α) (a b d d' : α) (hd : d' ≠ d) :
    (rm.apply (.add a b d')).graph d = rm.graph d ∧ (rm.apply (.del a b d')).graph d = rm.graph d := by
  constructor
  · simp only [RoleMgr.apply, addLink_graph]
    split
    · rfl
    · simp [hd]
  · simp only [RoleMgr.apply]
    cases hdl : rm.deleteLink a b d' with
    | none => rfl
    | some rm' => simp [Option.getD, deleteLink_graph hdl, hd]

/-- every query is a function of the domain's graph and the limit only -/
theorem queries_depend_only_on_domain_graph (rm rm' : RoleMgr α) (d : α)
    (hg : rm.graph? d = rm'.graph? d) (hm : rm.maxLevel = rm'.maxLevel) (a b : α) :
    rm.hasLink a b d = rm'.hasLink a b d ∧ rm.getRoles a d = rm'.getRoles a d ∧
      rm.getUsers a d = rm'.getUsers a d := by
  simp [RoleMgr.hasLink, RoleMgr.getRoles, RoleMgr.getUsers, hg, hm]

/-- `delete_link` fails (NotFound) exactly when the names differ and one of them is
unknown in the domain, and then nothing changes. -/
theorem deleteLink_err_iff (rm : RoleMgr α) (a b d : α) :
    rm.deleteLink a b d = none ↔ a ≠ b ∧ ¬ (a ∈ (rm.graph d).nodes ∧ b ∈ (rm.graph d).nodes) := by
  unfold RoleMgr.deleteLink RoleMgr.domainHasRole RoleMgr.graph
  by_cases hab : a = b
  · simp [hab]
  · simp only [hab, if_false, ne_eq, not_false_eq_true, true_and]
    cases hg : rm.graph? d with
    | none => simp [Graph.empty]
    | some g =>
      simp only [Option.getD]
      by_cases h1 : a ∈ g.nodes <;> by_cases h2 : b ∈ g.nodes <;> simp [h1, h2]

/-! ### Non-vacuity -/

/-- a chain `0 → 1 → … → 11` built by `add_link` with limit 10: node 9 is found (9 links),
node 10 is not (10 links, at the limit) — the behaviour observed on the crate. -/
def chain12 : RoleMgr Nat :=
  (RoleMgr.new 10).run ((List.range 11).map (fun i => RmOp.add i (i + 1) 0))

example : chain12.hasLink 0 9 0 = true := by decide +kernel
example : chain12.hasLink 0 10 0 = false := by decide +kernel
example : chain12.hasLink 0 9 1 = false := by decide +kernel   -- another domain
/-- the premise of `history_complete` is met by a concrete history (diamond + 2-cycle) -/
example : SpecPath ((LinkRel.empty.run
    [RmOp.add 1 2 0, .add 1 3 0, .add 2 4 0, .add 3 4 0, .add 4 1 0]) 0) 1 4 2 :=
  SpecPath.cons (b := 2) (by decide) (SpecPath.cons (b := 4) (by decide) (SpecPath.nil _))

/-! ### The manager as written (`PatRoles.lean`: edge variants, matching functions, the three-part walk)

With no matching function installed — how the `Enforcer` configures it — the general code path answers every
history exactly as the model above (`Lemmas/PatRoles.lean`: the embedding commutes with `add_link`,
`delete_link`, `clear`, `has_link`, `get_roles`, `get_users`), so C03 holds of it. -/

/-- soundness, whatever the depth, for the manager as written -/
theorem pat_history_sound (n : Nat) (h : List (RmOp α)) (a b d : α)
    (hl : ((PRm.new n : PRm α).run none none h).hasLink none none a b d = true) :
    a = b ∨ ∃ k, SpecPath ((LinkRel.empty.run h) d) a b k := by
  rw [← new_toP, run_toP, hasLink_toP] at hl
  exact history_sound n h a b d hl

/-- completeness below the hierarchy limit, for the manager as written -/
theorem pat_history_complete (n : Nat) (h : List (RmOp α)) (a b d : α)
    (hp : a = b ∨ ∃ k, k < n ∧ SpecPath ((LinkRel.empty.run h) d) a b k) :
    ((PRm.new n : PRm α).run none none h).hasLink none none a b d = true := by
  rw [← new_toP, run_toP, hasLink_toP]
  exact history_complete n h a b d hp

/-- direct listings of the manager as written are the out- and in-neighbours -/
theorem pat_listings (n : Nat) (h : List (RmOp α)) (a d x : α) :
    (x ∈ ((PRm.new n : PRm α).run none none h).getRoles none none a d ↔ (LinkRel.empty.run h) d a x = true) ∧
    (x ∈ ((PRm.new n : PRm α).run none none h).getUsers none none a d ↔ (LinkRel.empty.run h) d x a = true) := by
  rw [← new_toP, run_toP, getRoles_toP, getUsers_toP]
  exact ⟨(getRoles_eq _ (wf_run n h) a d x).trans (edges_run n h d a x),
         (getUsers_eq _ (wf_run n h) a d x).trans (edges_run n h d x a)⟩

/-- a failing `delete_link` of the manager as written fails in the plain model too, and conversely -/
theorem pat_deleteLink_err (n : Nat) (h : List (RmOp α)) (a b d : α) :
    (((PRm.new n : PRm α).run none none h).deleteLink none none a b d).isNone =
      (((RoleMgr.new n : RoleMgr α).run h).deleteLink a b d).isNone := by
  rw [← new_toP, run_toP, deleteLink_toP]
  cases (RoleMgr.run (RoleMgr.new n) h).deleteLink a b d <;> simp

/-- non-vacuity: the embedding is exercised on a history with a delete that fails, a clear and a re-add -/
example : ((PRm.new 10 : PRm Nat).run none none [.add 1 2 0, .del 7 8 0, .add 2 3 0, .clear, .add 2 3 0]).hasLink none none 2 3 0 = true ∧
    ((PRm.new 10 : PRm Nat).run none none [.add 1 2 0, .del 7 8 0, .add 2 3 0, .clear, .add 2 3 0]).hasLink none none 1 3 0 = false := by
  decide +kernel


/-! ### … and with a domain-matching function installed -/

/-- **with a domain-matching function**: a role is reported for a request domain exactly when it is reported in one
of the stored domains the function matches — so it is reachable there (whatever the depth), and every role reachable
below the limit in a matched domain is reported -/
theorem patdom_hasLink_iff (rm : RoleMgr α) (df : RoleFn α) (a b d : α) (hab : a ≠ b) :
    rm.toP.hasLink none df a b d = true ↔ ∃ k ∈ rm.toP.matchedDomains df d, rm.hasLink a b k = true := by
  rw [hasLink_toP_df rm df a b d hab, List.any_eq_true]

theorem patdom_sound (rm : RoleMgr α) (df : RoleFn α) (a b d : α) (hab : a ≠ b)
    (h : rm.toP.hasLink none df a b d = true) :
    ∃ k ∈ rm.toP.matchedDomains df d, Reach (rm.graph k) a b := by
  obtain ⟨k, hk, hl⟩ := (patdom_hasLink_iff rm df a b d hab).mp h
  rcases hasLink_sound rm a b k hl with h1 | h1
  · exact absurd h1 hab
  · exact ⟨k, hk, h1⟩

theorem patdom_complete (rm : RoleMgr α) (hw : rm.WF) (df : RoleFn α) (a b d k : α) (hab : a ≠ b)
    (hk : k ∈ rm.toP.matchedDomains df d) (L : Nat) (hL : L < rm.maxLevel) (hp : Path (rm.graph k) a b L) :
    rm.toP.hasLink none df a b d = true :=
  (patdom_hasLink_iff rm df a b d hab).mpr ⟨k, hk, hasLink_complete rm hw a b k (Or.inr ⟨L, hL, hp⟩)⟩

/-- the matched domains are the stored ones the function accepts for the request domain -/
theorem matchedDomains_some (rm : RoleMgr α) (f : α → α → Bool) (d k : α) :
    k ∈ rm.toP.matchedDomains (some f) d ↔ (rm.graph? k).isSome = true ∧ f d k = true := by
  simp only [PRm.matchedDomains, RoleMgr.toP, List.map_map, List.mem_filter]
  constructor
  · rintro ⟨hm, hf⟩
    refine ⟨?_, hf⟩
    have hm' : k ∈ rm.doms.map (·.1) := by simpa [Function.comp] using hm
    obtain ⟨p, hp, rfl⟩ := List.mem_map.mp hm'
    unfold RoleMgr.graph?
    cases hfind : rm.doms.find? (fun x => x.1 = p.1) with
    | none =>
      have := List.find?_eq_none.mp hfind p hp
      simp at this
    | some q => simp
  · rintro ⟨hs, hf⟩
    refine ⟨?_, hf⟩
    unfold RoleMgr.graph? at hs
    cases hfind : rm.doms.find? (fun x => x.1 = k) with
    | none => rw [hfind] at hs; simp at hs
    | some q =>
      have hq := List.find?_some hfind
      have hmem := List.mem_of_find?_eq_some hfind
      have : k ∈ rm.doms.map (·.1) := List.mem_map.mpr ⟨q, hmem, by simpa using hq⟩
      simpa [Function.comp] using this

end Casbin.C03
