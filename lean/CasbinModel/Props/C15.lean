import CasbinModel.Lemmas.Utf8
import CasbinModel.Lemmas.Segments
import CasbinModel.Lemmas.Captures
/-!
# C15 — Built-in path matchers implement their documented patterns

Proved for **all strings** (multi-byte included):
`keyMatch k p` ⇔ `k` begins with the text of `p` before its first `*` (equality when `p` has
no `*`); `keyGet k p` is the text of `k` after that prefix when it is a proper prefix, else
empty.  This goes through the fact that UTF-8 is a prefix code (`Lemmas/Utf8.lean`), since
the crate compares byte prefixes at a byte offset taken from the pattern.

**keyMatch2 is proved for every pattern of the grammar and every key** (`keyMatch2_spec`):
for a pattern made of `/`-separated segments — literal text (no regex metacharacter, `/`, `:`),
`:name`, or `*` at any position — the crate's pipeline (replace `/*` by `/.*`, replace `:[^/]*`
by `[^/]+`, anchor, compile, leftmost-first backtracking match) decides exactly `segMatch`, the
segment-wise meaning written without regular expressions (`Lemmas/Segments.lean`: rewriting
lemmas, compilation lemma, matching lemma).  `keyMatch3` and `keyMatch5` follow the same way
(`keyMatch3_spec`, `keyMatch5_spec`).

**keyMatch4 and keyGet3** (`keyMatch4_spec`, `keyGet3_spec`, `Lemmas/Captures.lean`): the pipeline with the
capturing group computes `segCaps`, the text each named segment stands for (a named segment can only ever
stand for the whole `/`-free run, so greedy and lazy groups capture the same text; `*` takes as much as it
can); keyMatch4 is "matches segment-wise and equal names stand for equal text" (`consistent_iff`), keyGet3
returns the text of the first segment with the given name.

`keyGet2` is the same statement in the colon syntax (`keyGet2_spec`, names non-empty).

What the theorems do not cover is validated against the `regex` crate and the independent segment-wise matcher
by the correspondence run (all patterns of the grammar up to a size bound, random beyond): patterns outside the
grammar (literal text with regex metacharacters, empty names for the getters, `}` inside a name).
-/
namespace Casbin.C15
open Casbin

theorem utf8Len_le_of_prefix {pre k : Str} (h : pre <+: k) : utf8Len pre ≤ utf8Len k := by
  obtain ⟨t, ht⟩ := h
  rw [← ht]; simp [utf8Len]

theorem eq_of_prefix_of_len {pre k : Str} (h : pre <+: k) (hl : utf8Len k ≤ utf8Len pre) : k = pre := by
  obtain ⟨t, ht⟩ := h
  cases t with
  | nil => simpa using ht.symm
  | cons c t' =>
    rw [← ht] at hl
    have h0 : 0 < (enc c).length := List.length_pos_iff.mpr (enc_ne_nil c)
    rw [enc_length] at h0
    simp [utf8Len] at hl; omega

/-- **keyMatch** = "begins with the text before the first `*`" (equality without `*`) -/
theorem keyMatch_spec (k p : Str) :
    keyMatch k p = (match beforeStar p with
      | none => k == p
      | some pre => pre.isPrefixOf k) := by
  unfold keyMatch
  cases hb : beforeStar p with
  | none => rfl
  | some pre =>
    simp only
    by_cases hlen : utf8Len k > utf8Len pre
    · simp only [hlen, if_true]
      rw [utf8Len_eq pre]
      have h1 : ((utf8Bytes k).take (utf8Bytes pre).length == utf8Bytes pre) = true ↔ pre <+: k := by
        rw [beq_iff_eq, take_eq_iff_prefix, bytes_prefix_iff]
      rw [Bool.eq_iff_iff, h1, List.isPrefixOf_iff_prefix]
    · simp only [hlen, if_false]
      have hle : utf8Len k ≤ utf8Len pre := by omega
      cases hy : pre.isPrefixOf k with
      | true =>
        have := eq_of_prefix_of_len (List.isPrefixOf_iff_prefix.mp hy) hle
        simp [this]
      | false =>
        cases hx : (k == pre) with
        | false => rfl
        | true =>
          have : k = pre := by simpa using hx
          subst this
          have := List.isPrefixOf_iff_prefix.mpr (List.prefix_refl k)
          rw [hy] at this; cases this

/-- **keyGet** = the text after that prefix when the key is strictly longer, else `""` -/
theorem keyGet_spec (k p : Str) :
    keyGet k p = (match beforeStar p with
      | none => []
      | some pre => if pre.isPrefixOf k && decide (utf8Len k > utf8Len pre) then k.drop pre.length else []) := by
  unfold keyGet
  cases hb : beforeStar p with
  | none => rfl
  | some pre =>
    simp only
    by_cases hlen : utf8Len k > utf8Len pre
    · have h1 : ((utf8Bytes k).take (utf8Len pre) == utf8Bytes pre) = pre.isPrefixOf k := by
        rw [utf8Len_eq pre, Bool.eq_iff_iff, beq_iff_eq, take_eq_iff_prefix, bytes_prefix_iff, List.isPrefixOf_iff_prefix]
      simp only [hlen, decide_true, Bool.true_and, h1, Bool.and_true]
    · simp [hlen]

/-- never a partial operation: defined on every pair of strings (the byte-offset slice of
the pre-repair code is gone) -/
theorem keyMatch_total (k p : Str) : ∃ b, keyMatch k p = b := ⟨_, rfl⟩

/-! ### The fragment matcher on compiled segments -/

/-- a literal run matches exactly itself -/
theorem matchItems_lit (s : Str) (is : List Item) (k : Str) :
    matchItems (s.map Item.ch ++ is) k = if s.isPrefixOf k then matchItems is (k.drop s.length) else none := by
  induction s generalizing k with
  | nil => simp [List.isPrefixOf]
  | cons c t ih =>
    simp only [List.map_cons, List.cons_append]
    cases k with
    | nil => simp [matchItems, List.isPrefixOf]
    | cons x rest =>
      simp only [matchItems, List.isPrefixOf]
      by_cases hx : x = c
      · subst hx; simp [ih]
      · have : (c == x) = false := by simp [Ne.symm hx]
        simp [hx, this]

/-- `.*` at the end of the pattern accepts any remainder without a newline -/
theorem matchItems_rest_end (k : Str) (h : k.all (· ≠ '\n') = true) : (matchItems [Item.dotStar] k).isSome = true := by
  -- the longest candidate is the whole key
  have hs : ∀ (s : Str), s.all (· ≠ '\n') = true → (s, ([] : Str)) ∈ splits (· ≠ '\n') s := by
    intro s
    induction s with
    | nil => intro _; simp [splits]
    | cons c t ih =>
      intro hall
      simp only [List.all_cons, Bool.and_eq_true] at hall
      simp only [splits, hall.1, if_true, List.mem_cons, List.mem_map]
      right; exact ⟨(t, []), ih hall.2, rfl⟩
  have hf : ∀ (cands : List (Str × Str)), (k, ([] : Str)) ∈ cands →
      (firstSome cands (fun pr => matchItems [] pr.2)).isSome = true := by
    intro cands hm
    induction cands with
    | nil => cases hm
    | cons pr rest ih =>
      simp only [firstSome]
      cases hp : matchItems [] pr.2 with
      | some v => rfl
      | none =>
        simp only
        rcases List.mem_cons.mp hm with h1 | h1
        · subst h1; simp [matchItems] at hp
        · exact ih h1
  simp only [matchItems]
  exact hf _ (by simpa using hs k h)

/-! ### The RESTful matchers on the whole grammar -/

/-- **keyMatch2 = segment-wise matching**, for every pattern of the grammar and every key -/
theorem keyMatch2_spec (ps : List PSeg) (hok : ∀ p ∈ ps, p.Ok) (k : Str) :
    keyMatch2 k (render2 ps) = some (segMatch ps k) := by
  unfold keyMatch2 reMatch compileRe
  simp only
  rw [repl_render2 ps hok, rc_renderStar2 ps hok _ (by omega), compile_reBody ps hok _ (by omega)]
  simp [matchItems_itemsOf]

/-- **keyMatch3 = segment-wise matching** with `{name}` segments -/
theorem keyMatch3_spec (ps : List PSeg) (hok : ∀ p ∈ ps, p.Ok) (k : Str) :
    keyMatch3 k (render3 ps) = some (segMatch ps k) := by
  unfold keyMatch3 reMatch compileRe
  simp only
  rw [repl_render3 ps hok, rbg_renderStar3 ps hok _ (by omega), compile_reBody ps hok _ (by omega)]
  simp [matchItems_itemsOf]

/-- **keyMatch5 = segment-wise matching of the key without its query string** (names non-empty and
without `}`, as the lazy rewriting `\{[^/]+?\}` requires) -/
theorem keyMatch5_spec (ps : List PSeg) (hok : ∀ p ∈ ps, p.Ok) (hlz : ∀ p ∈ ps, p.OkLazy) (k : Str) :
    keyMatch5 k (render3 ps) = some (segMatch ps (k.takeWhile (· ≠ '?'))) := by
  unfold keyMatch5 reMatch compileRe
  simp only
  rw [repl_render3 ps hok, rbl_renderStar3 ps hok hlz _ (by omega), compile_reBody ps hok _ (by omega)]
  simp [matchItems_itemsOf]

/-! ### Captures: keyMatch4 and keyGet3 -/

/-- what `consistent` says: two entries with the same name carry the same text -/
theorem consistent_iff (l : List (Str × Str)) :
    consistent l = true ↔ ∀ p ∈ l, ∀ q ∈ l, p.1 = q.1 → p.2 = q.2 := by
  induction l with
  | nil => simp [consistent]
  | cons x rest ih =>
    obtain ⟨n, v⟩ := x
    simp only [consistent, Bool.and_eq_true, List.all_eq_true, Bool.or_eq_true, decide_eq_true_eq, beq_iff_eq, ih]
    constructor
    · rintro ⟨h1, h2⟩ p hp q hq hpq
      rcases List.mem_cons.mp hp with rfl | hp' <;> rcases List.mem_cons.mp hq with rfl | hq'
      · rfl
      · rcases h1 q hq' with h | h
        · exact absurd hpq.symm (by simpa using h)
        · exact h.symm
      · rcases h1 p hp' with h | h
        · exact absurd hpq (by simpa using h)
        · exact h
      · exact h2 p hp' q hq' hpq
    · intro h
      refine ⟨?_, fun p hp q hq => h p (by simp [hp]) q (by simp [hq])⟩
      intro q hq
      by_cases hn : q.1 = n
      · right; exact h q (by simp [hq]) (n, v) (by simp) hn
      · left; simpa using hn

/-- **keyMatch4 = segment-wise matching in which equal names stand for equal text**, for every pattern of the
grammar (names non-empty and without `}`) and every key -/
theorem keyMatch4_spec (ps : List PSeg) (hok : ∀ p ∈ ps, p.Ok) (hlz : ∀ p ∈ ps, p.OkLazy) (k : Str) :
    keyMatch4 k (render3 ps) =
      some (match segCaps ps k with
            | none => false
            | some caps => consistent ((namesOf ps).zip caps)) := by
  unfold keyMatch4 compileRe
  simp only
  rw [repl_render3 ps hok]
  obtain ⟨h1, h2⟩ := rbl_renderStar3_gen capRe ps hok hlz ((renderStar3 ps).length + 1) (by omega)
  rw [h1, h2, compile_reBodyCap ps hok _ (by omega)]
  simp only
  rw [matchItems_itemsOfC]
  cases segCaps ps k <;> rfl

/-- … in particular it can only hold for a key that matches segment-wise (keyMatch3's meaning), and when no
name is repeated it is exactly that -/
theorem keyMatch4_le_segMatch (ps : List PSeg) (hok : ∀ p ∈ ps, p.Ok) (hlz : ∀ p ∈ ps, p.OkLazy) (k : Str)
    (h : keyMatch4 k (render3 ps) = some true) : segMatch ps k = true := by
  rw [keyMatch4_spec ps hok hlz k] at h
  rw [← segCaps_isSome]
  cases hs : segCaps ps k with
  | none => simp [hs] at h
  | some caps => rfl

theorem escapeBrace_id (s : Str) (h : ∀ c ∈ s, c ≠ '{') : escapeBrace s = s := by
  induction s with
  | nil => rfl
  | cons c t ih =>
    have hc : c ≠ '{' := h c (by simp)
    have := ih (fun x hx => h x (by simp [hx]))
    unfold escapeBrace
    split
    · rename_i heq; simp only [List.cons.injEq] at heq; exact absurd heq.1 hc
    · rename_i heq; simp only [List.cons.injEq] at heq; obtain ⟨rfl, rfl⟩ := heq; rw [this]
    · rename_i heq; cases heq

theorem reBodyR_no_brace (ps : List PSeg) (hok : ∀ p ∈ ps, p.Ok) : ∀ c ∈ reBodyR capLazyRe ps, c ≠ '{' := by
  induction ps with
  | nil => intro c hc; cases hc
  | cons p ps ih =>
    have ih' := ih (fun q hq => hok q (by simp [hq]))
    have hp := hok p (by simp)
    intro c hc
    cases p with
    | lit s =>
      simp only [reBodyR, List.mem_cons, List.mem_append] at hc
      rcases hc with (rfl | hc) | hc
      · decide
      · exact litChar_ne_brace (hp c hc)
      · exact ih' c hc
    | named n =>
      simp only [reBodyR, List.mem_cons, List.mem_append] at hc
      rcases hc with (rfl | hc) | hc
      · decide
      · rw [capLazyRe_eq] at hc
        simp only [List.mem_cons, List.mem_nil_iff, or_false] at hc
        rcases hc with rfl | rfl | rfl | rfl | rfl | rfl | rfl | rfl <;> decide
      · exact ih' c hc
    | rest =>
      simp only [reBodyR, List.mem_cons] at hc
      rcases hc with rfl | rfl | rfl | hc
      · decide
      · decide
      · decide
      · exact ih' c hc

/-- the pattern rewritten with the lazy capturing group compiles to the lazy capturing items -/
theorem compile_reBodyCapLazy (ps : List PSeg) (hok : ∀ p ∈ ps, p.Ok) :
    ∀ f, f > (reBodyR capLazyRe ps).length → toItems f (reBodyR capLazyRe ps) = some (itemsOfC true ps) := by
  induction ps with
  | nil =>
    intro f hf
    cases f with
    | zero => simp [reBodyR] at hf
    | succ f => exact toItems_nil f
  | cons p ps ih =>
    have ih' := ih (fun q hq => hok q (by simp [hq]))
    have hp := hok p (by simp)
    cases p with
    | lit s =>
      simp only [reBodyR, itemsOfC]
      exact compile_ch '/' (by decide) _ _ (compile_lit s hp _ _ ih' (reBodyR_safeHead _ ps)) (safeHead_lit s hp _ (reBodyR_safeHead _ ps))
    | named n =>
      simp only [reBodyR, itemsOfC]
      refine compile_ch '/' (by decide) _ _ (compile_capLazy _ _ ih') ?_
      rw [capLazyRe_eq]
      exact Or.inr ⟨'(', _, rfl, by decide⟩
    | rest =>
      simp only [reBodyR, itemsOfC]
      exact compile_ch '/' (by decide) _ _ (compile_dotStar _ _ ih') (Or.inr ⟨'.', _, rfl, by decide⟩)

/-- **keyGet3 = the text of the first segment named `v`** (empty when the key does not match segment-wise or no
segment has that name) -/
theorem keyGet3_spec (ps : List PSeg) (hok : ∀ p ∈ ps, p.Ok) (hlz : ∀ p ∈ ps, p.OkLazy) (k v : Str) :
    keyGet3 k (render3 ps) v =
      some (match segCaps ps k with
            | none => []
            | some caps =>
              (match (((namesOf ps).zipIdx.filter (fun (n, _) => n == v))).head? with
               | some (_, i) => caps.getD i []
               | none => [])) := by
  unfold keyGet3 compileRe
  simp only
  rw [repl_render3 ps hok]
  obtain ⟨h1, h2⟩ := rbl_renderStar3_gen capLazyRe ps hok hlz ((renderStar3 ps).length + 1) (by omega)
  rw [h1, h2, escapeBrace_id _ (reBodyR_no_brace ps hok), compile_reBodyCapLazy ps hok _ (by omega)]
  simp only
  rw [matchItems_itemsOfC]
  cases segCaps ps k with
  | none => rfl
  | some caps =>
    simp only
    cases (((namesOf ps).zipIdx.filter (fun (n, _) => n == v))).head? with
    | none => rfl
    | some x => rfl

/-- **keyGet2 = the text of the first segment named `v`** in the colon syntax (names non-empty, as the getter's
`:[^/]+` requires) -/
theorem keyGet2_spec (ps : List PSeg) (hok : ∀ p ∈ ps, p.Ok) (hne : ∀ p ∈ ps, p.NameNonEmpty) (k v : Str) :
    keyGet2 k (render2 ps) v =
      some (match segCaps ps k with
            | none => []
            | some caps =>
              (match (((namesOf ps).zipIdx.filter (fun (n, _) => n == v))).head? with
               | some (_, i) => caps.getD i []
               | none => [])) := by
  unfold keyGet2 compileRe
  simp only
  rw [repl_render2 ps hok]
  obtain ⟨h1, h2⟩ := rc_renderStar2_gen capRe ps hok hne ((renderStar2 ps).length + 1) (by omega)
  rw [h1, h2, compile_reBodyCap ps hok _ (by omega)]
  simp only
  rw [matchItems_itemsOfC]
  cases segCaps ps k with
  | none => rfl
  | some caps =>
    simp only
    cases (((namesOf ps).zipIdx.filter (fun (n, _) => n == v))).head? with
    | none => rfl
    | some x => rfl

/-- the captures on concrete keys (tests of the specification itself) -/
example : segCaps [.lit "p".toList, .named "id".toList, .lit "c".toList, .named "id".toList] "/p/1/c/2".toList =
      some ["1".toList, "2".toList] ∧
    segCaps [.named "a".toList, .rest, .named "b".toList] "/x/y/z/w".toList = some ["x".toList, "w".toList] ∧
    segCaps [.named "a".toList] "/x/y".toList = none := by decide +kernel
/-- non-vacuity of the lazy-name premise -/
example : (∀ p ∈ [PSeg.lit "p".toList, .named "id".toList, .named "b".toList], p.OkLazy) := by
  intro p hp
  simp only [List.mem_cons, List.mem_nil_iff, or_false] at hp
  rcases hp with rfl | rfl | rfl
  · trivial
  · exact ⟨by decide, by intro c hc; revert c; decide +kernel⟩
  · exact ⟨by decide, by intro c hc; revert c; decide +kernel⟩

/-- the segment-wise meaning on concrete keys (tests of the specification itself) -/
example : segMatch [.lit "a".toList, .named "id".toList] "/a/7".toList = true ∧
    segMatch [.lit "a".toList, .named "id".toList] "/a/".toList = false ∧
    segMatch [.lit "a".toList, .named "id".toList] "/a/7/x".toList = false ∧
    segMatch [.lit "a".toList, .rest, .lit "b".toList] "/a/x/y/b".toList = true ∧
    segMatch [.lit "a".toList, .rest, .lit "b".toList] "/a/x/y/c".toList = false ∧
    segMatch [.lit "a".toList, .rest] "/a/".toList = true ∧
    segMatch [.lit "a".toList, .rest] "/a".toList = false := by decide +kernel

/-- non-vacuity: a pattern with all three kinds of segment, inner `*` included -/
example : (∀ p ∈ [PSeg.lit "res".toList, .named "id".toList, .rest, .lit "é".toList], p.Ok) ∧
    render2 [PSeg.lit "res".toList, .named "id".toList, .rest, .lit "é".toList] = "/res/:id/*/é".toList := by
  refine ⟨?_, by decide +kernel⟩
  intro p hp
  simp only [List.mem_cons, List.mem_nil_iff, or_false] at hp
  rcases hp with rfl | rfl | rfl | rfl
  · intro c hc; revert c; decide +kernel
  · intro c hc; revert c; decide +kernel
  · trivial
  · intro c hc; revert c; decide +kernel

/-! ### Tests (labelled as tests): the nine functions on patterns of the grammar -/
example : keyMatch2 "/res/7".toList "/res/:id".toList = some true := by decide +kernel
example : keyMatch2 "/res/7/x".toList "/res/:id".toList = some false := by decide +kernel
example : keyMatch2 "/res/é/x/y".toList "/res/:id/*".toList = some true := by decide +kernel
example : keyGet2 "/res/é".toList "/res/:id".toList "id".toList = some "é".toList := by decide +kernel
example : keyMatch3 "/res/7".toList "/res/{id}".toList = some true := by decide +kernel
example : keyMatch4 "/p/1/c/1".toList "/p/{id}/c/{id}".toList = some true := by decide +kernel
example : keyMatch4 "/p/1/c/2".toList "/p/{id}/c/{id}".toList = some false := by decide +kernel
example : keyMatch5 "/res/7?x=1".toList "/res/{id}".toList = some true := by decide +kernel
example : keyGet3 "/res/7".toList "/res/{id}".toList "id".toList = some "7".toList := by decide +kernel
/-- the repaired defect (F6): a multi-byte key against an ASCII pattern -/
example : keyMatch "éx".toList "a*".toList = false ∧ keyGet "éx".toList "a*".toList = [] := by decide +kernel
/-- documented boundaries, pinned: an empty name is a wildcard for keyMatch2 but no name for keyGet2 -/
example : keyMatch2 "/x/b".toList "/:/b".toList = some true := by decide +kernel
example : keyGet2 "/x/b".toList "/:/b".toList "".toList = some [] := by decide +kernel

end Casbin.C15
