import CasbinModel.Lemmas.Utf8
import CasbinModel.Lemmas.Segments
/-!
# C15 — Built-in path matchers implement their documented patterns

Proved for **all strings** (multi-byte included):
`keyMatch k p` ⇔ `k` begins with the text of `p` before its first `*` (equality when `p` has
no `*`); `keyGet k p` is the text of `k` after that prefix when it is a proper prefix, else
empty.  This goes through the fact that UTF-8 is a prefix code (`Lemmas/Utf8.lean`), since
the crate compares byte prefixes at a byte offset taken from the pattern.

**keyMatch2 is proved for every pattern of the grammar and every key** (`keyMatch2_spec`):
for a pattern made of `/`-separated segments — literal text (no regex metacharacter, `/`, `:`),
`:name`, or `*` at any position — the crate's pipeline (replace `/*` by `/.*`, replace `:[^/]*`
by `[^/]+`, anchor, compile, leftmost-first backtracking match) decides exactly `segMatch`, the
segment-wise meaning written without regular expressions (`Lemmas/Segments.lean`: rewriting
lemmas, compilation lemma, matching lemma).  `keyMatch3` and `keyMatch5` follow the same way
(`keyMatch3_spec`, `keyMatch5_spec`).

For `keyMatch4` and the getters `keyGet2/3` (captures) the model is the same pipeline; they
are validated against the `regex` crate and against the independent segment-wise matcher
by the correspondence run (all patterns of the grammar up to a size bound, random beyond)
(*partial*).
-/
namespace Casbin.C15
open Casbin

theorem utf8Len_le_of_prefix {pre k : Str} (h : pre <+: k) : utf8Len pre ≤ utf8Len k := by
  obtain ⟨t, ht⟩ := h
  rw [← ht]; simp [utf8Len]

theorem eq_of_prefix_of_len {pre k : Str} (h : pre <+: k) (hl : utf8Len k ≤ utf8Len pre) : k = pre := by
  obtain ⟨t, ht⟩ := h
  cases t with
  | nil => simpa using ht.symm
  | cons c t' =>
    rw [← ht] at hl
    have h0 : 0 < (enc c).length := List.length_pos_iff.mpr (enc_ne_nil c)
    rw [enc_length] at h0
    simp [utf8Len] at hl; omega

/-- **keyMatch** = "begins with the text before the first `*`" (equality without `*`) -/
theorem keyMatch_spec (k p : Str) :
    keyMatch k p = (match beforeStar p with
      | none => k == p
      | some pre => pre.isPrefixOf k) := by
  unfold keyMatch
  cases hb : beforeStar p with
  | none => rfl
  | some pre =>
    simp only
    by_cases hlen : utf8Len k > utf8Len pre
    · simp only [hlen, if_true]
      rw [utf8Len_eq pre]
      have h1 : ((utf8Bytes k).take (utf8Bytes pre).length == utf8Bytes pre) = true ↔ pre <+: k := by
        rw [beq_iff_eq, take_eq_iff_prefix, bytes_prefix_iff]
      rw [Bool.eq_iff_iff, h1, List.isPrefixOf_iff_prefix]
    · simp only [hlen, if_false]
      have hle : utf8Len k ≤ utf8Len pre := by omega
      cases hy : pre.isPrefixOf k with
      | true =>
        have := eq_of_prefix_of_len (List.isPrefixOf_iff_prefix.mp hy) hle
        simp [this]
      | false =>
        cases hx : (k == pre) with
        | false => rfl
        | true =>
          have : k = pre := by simpa using hx
          subst this
          have := List.isPrefixOf_iff_prefix.mpr (List.prefix_refl k)
          rw [hy] at this; cases this

/-- **keyGet** = the text after that prefix when the key is strictly longer, else `""` -/
theorem keyGet_spec (k p : Str) :
    keyGet k p = (match beforeStar p with
      | none => []
      | some pre => if pre.isPrefixOf k && decide (utf8Len k > utf8Len pre) then k.drop pre.length else []) := by
  unfold keyGet
  cases hb : beforeStar p with
  | none => rfl
  | some pre =>
    simp only
    by_cases hlen : utf8Len k > utf8Len pre
    · have h1 : ((utf8Bytes k).take (utf8Len pre) == utf8Bytes pre) = pre.isPrefixOf k := by
        rw [utf8Len_eq pre, Bool.eq_iff_iff, beq_iff_eq, take_eq_iff_prefix, bytes_prefix_iff, List.isPrefixOf_iff_prefix]
      simp only [hlen, decide_true, Bool.true_and, h1, Bool.and_true]
    · simp [hlen]

/-- never a partial operation: defined on every pair of strings (the byte-offset slice of
the pre-repair code is gone) -/
theorem keyMatch_total (k p : Str) : ∃ b, keyMatch k p = b := ⟨_, rfl⟩

/-! ### The fragment matcher on compiled segments -/

/-- a literal run matches exactly itself -/
theorem matchItems_lit (s : Str) (is : List Item) (k : Str) :
    matchItems (s.map Item.ch ++ is) k = if s.isPrefixOf k then matchItems is (k.drop s.length) else none := by
  induction s generalizing k with
  | nil => simp [List.isPrefixOf]
  | cons c t ih =>
    simp only [List.map_cons, List.cons_append]
    cases k with
    | nil => simp [matchItems, List.isPrefixOf]
    | cons x rest =>
      simp only [matchItems, List.isPrefixOf]
      by_cases hx : x = c
      · subst hx; simp [ih]
      · have : (c == x) = false := by simp [Ne.symm hx]
        simp [hx, this]

/-- `.*` at the end of the pattern accepts any remainder without a newline -/
theorem matchItems_rest_end (k : Str) (h : k.all (· ≠ '\n') = true) : (matchItems [Item.dotStar] k).isSome = true := by
  -- the longest candidate is the whole key
  have hs : ∀ (s : Str), s.all (· ≠ '\n') = true → (s, ([] : Str)) ∈ splits (· ≠ '\n') s := by
    intro s
    induction s with
    | nil => intro _; simp [splits]
    | cons c t ih =>
      intro hall
      simp only [List.all_cons, Bool.and_eq_true] at hall
      simp only [splits, hall.1, if_true, List.mem_cons, List.mem_map]
      right; exact ⟨(t, []), ih hall.2, rfl⟩
  have hf : ∀ (cands : List (Str × Str)), (k, ([] : Str)) ∈ cands →
      (firstSome cands (fun pr => matchItems [] pr.2)).isSome = true := by
    intro cands hm
    induction cands with
    | nil => cases hm
    | cons pr rest ih =>
      simp only [firstSome]
      cases hp : matchItems [] pr.2 with
      | some v => rfl
      | none =>
        simp only
        rcases List.mem_cons.mp hm with h1 | h1
        · subst h1; simp [matchItems] at hp
        · exact ih h1
  simp only [matchItems]
  exact hf _ (by simpa using hs k h)

/-! ### The RESTful matchers on the whole grammar -/

/-- **keyMatch2 = segment-wise matching**, for every pattern of the grammar and every key -/
theorem keyMatch2_spec (ps : List PSeg) (hok : ∀ p ∈ ps, p.Ok) (k : Str) :
    keyMatch2 k (render2 ps) = some (segMatch ps k) := by
  unfold keyMatch2 reMatch compileRe
  simp only
  rw [repl_render2 ps hok, rc_renderStar2 ps hok _ (by omega), compile_reBody ps hok _ (by omega)]
  simp [matchItems_itemsOf]

/-- **keyMatch3 = segment-wise matching** with `{name}` segments -/
theorem keyMatch3_spec (ps : List PSeg) (hok : ∀ p ∈ ps, p.Ok) (k : Str) :
    keyMatch3 k (render3 ps) = some (segMatch ps k) := by
  unfold keyMatch3 reMatch compileRe
  simp only
  rw [repl_render3 ps hok, rbg_renderStar3 ps hok _ (by omega), compile_reBody ps hok _ (by omega)]
  simp [matchItems_itemsOf]

/-- **keyMatch5 = segment-wise matching of the key without its query string** (names non-empty and
without `}`, as the lazy rewriting `\{[^/]+?\}` requires) -/
theorem keyMatch5_spec (ps : List PSeg) (hok : ∀ p ∈ ps, p.Ok) (hlz : ∀ p ∈ ps, p.OkLazy) (k : Str) :
    keyMatch5 k (render3 ps) = some (segMatch ps (k.takeWhile (· ≠ '?'))) := by
  unfold keyMatch5 reMatch compileRe
  simp only
  rw [repl_render3 ps hok, rbl_renderStar3 ps hok hlz _ (by omega), compile_reBody ps hok _ (by omega)]
  simp [matchItems_itemsOf]

/-- the segment-wise meaning on concrete keys (tests of the specification itself) -/
example : segMatch [.lit "a".toList, .named "id".toList] "/a/7".toList = true ∧
    segMatch [.lit "a".toList, .named "id".toList] "/a/".toList = false ∧
    segMatch [.lit "a".toList, .named "id".toList] "/a/7/x".toList = false ∧
    segMatch [.lit "a".toList, .rest, .lit "b".toList] "/a/x/y/b".toList = true ∧
    segMatch [.lit "a".toList, .rest, .lit "b".toList] "/a/x/y/c".toList = false ∧
    segMatch [.lit "a".toList, .rest] "/a/".toList = true ∧
    segMatch [.lit "a".toList, .rest] "/a".toList = false := by decide +kernel

/-- non-vacuity: a pattern with all three kinds of segment, inner `*` included -/
example : (∀ p ∈ [PSeg.lit "res".toList, .named "id".toList, .rest, .lit "é".toList], p.Ok) ∧
    render2 [PSeg.lit "res".toList, .named "id".toList, .rest, .lit "é".toList] = "/res/:id/*/é".toList := by
  refine ⟨?_, by decide +kernel⟩
  intro p hp
  simp only [List.mem_cons, List.mem_nil_iff, or_false] at hp
  rcases hp with rfl | rfl | rfl | rfl
  · intro c hc; revert c; decide +kernel
  · intro c hc; revert c; decide +kernel
  · trivial
  · intro c hc; revert c; decide +kernel

/-! ### Tests (labelled as tests): the nine functions on patterns of the grammar -/
example : keyMatch2 "/res/7".toList "/res/:id".toList = some true := by decide +kernel
example : keyMatch2 "/res/7/x".toList "/res/:id".toList = some false := by decide +kernel
example : keyMatch2 "/res/é/x/y".toList "/res/:id/*".toList = some true := by decide +kernel
example : keyGet2 "/res/é".toList "/res/:id".toList "id".toList = some "é".toList := by decide +kernel
example : keyMatch3 "/res/7".toList "/res/{id}".toList = some true := by decide +kernel
example : keyMatch4 "/p/1/c/1".toList "/p/{id}/c/{id}".toList = some true := by decide +kernel
example : keyMatch4 "/p/1/c/2".toList "/p/{id}/c/{id}".toList = some false := by decide +kernel
example : keyMatch5 "/res/7?x=1".toList "/res/{id}".toList = some true := by decide +kernel
example : keyGet3 "/res/7".toList "/res/{id}".toList "id".toList = some "7".toList := by decide +kernel
/-- the repaired defect (F6): a multi-byte key against an ASCII pattern -/
example : keyMatch "éx".toList "a*".toList = false ∧ keyGet "éx".toList "a*".toList = [] := by decide +kernel
/-- documented boundaries, pinned: an empty name is a wildcard for keyMatch2 but no name for keyGet2 -/
example : keyMatch2 "/x/b".toList "/:/b".toList = some true := by decide +kernel
example : keyGet2 "/x/b".toList "/:/b".toList "".toList = some [] := by decide +kernel

end Casbin.C15
