import CasbinModel.Props.C01
/-!
# C17 — Context-qualified enforcement equals plain enforcement

`enforce_with_context` and `enforce` run the same evaluation (`enforceCore`) on two
section choices.  The theorem: if the suffixed sections are copies of the unsuffixed ones
with tokens renamed injectively, the policy is the same list, and the matcher functions
agree, the two decisions are equal — including effect columns, arity errors, malformed
rules and the empty-policy case.

Two facts about *strings* are hypotheses here and are checked by the correspondence run
rather than by the kernel (string literals do not reduce in the kernel): that the effect
expression of the suffixed section normalises to the same `EffExpr` (`heff`), and that
the renamed matcher text denotes the same matcher function (`hm`).
-/
namespace Casbin.C17
open Casbin

theorem idxOf?_map_inj {α β : Type} [BEq α] [LawfulBEq α] [BEq β] [LawfulBEq β]
    (f : α → β) (hf : ∀ x y, f x = f y → x = y) (l : List α) (a : α) :
    (l.map f).idxOf? (f a) = l.idxOf? a := by
  induction l with
  | nil => simp
  | cons x xs ih =>
    simp only [List.map_cons, List.idxOf?_cons]
    by_cases h : x = a
    · subst h; simp
    · have h' : ¬ f x = f a := fun e => h (hf _ _ e)
      simp [h, h', ih]

/-- the evaluation only looks at: the flags, the number of request tokens, the *number* of
policy tokens, the *position* of the effect column, the effect expression, the policy and
the matcher function -/
theorem enforceCore_congr (c c' : EvalCfg) (n : Nat) (m m' : MatchFn)
    (h1 : c.enabled = c'.enabled) (h2 : c.sectionsOk = c'.sectionsOk) (h3 : c.rtokens = c'.rtokens)
    (heff : c.effExpr = c'.effExpr) (h5 : c.compiles = c'.compiles) (h6 : c.policy = c'.policy)
    (h7 : c.ptokens.length = c'.ptokens.length)
    (h8 : c.ptokens.idxOf? c.eftToken = c'.ptokens.idxOf? c'.eftToken)
    (hm : ∀ rule, m rule = m' rule) : enforceCore c n m = enforceCore c' n m' := by
  have hmm : m = m' := funext hm
  subst hmm
  have hemp : c.ptokens.map (fun _ => "") = c'.ptokens.map (fun _ => "") := by
    have : ∀ (l : List String), l.map (fun _ => "") = List.replicate l.length "" := by
      intro l; induction l with
      | nil => rfl
      | cons x xs ih => simp [List.replicate_succ, ih]
    rw [this, this, h7]
  unfold enforceCore
  rw [h1, h2, h3, heff, h5, h6, h7, h8, hemp]

/-- **C17**: suffixed sections that are renamed copies decide exactly like the unsuffixed
ones, for every policy, every request length and every matcher function. -/
theorem ctx_eq_plain (plain ctx : EvalCfg) (ren : String → String) (hinj : ∀ x y, ren x = ren y → x = y)
    (n : Nat) (m m' : MatchFn)
    (h1 : ctx.enabled = plain.enabled) (h2 : ctx.sectionsOk = plain.sectionsOk)
    (h3 : ctx.rtokens = plain.rtokens) (heff : ctx.effExpr = plain.effExpr)
    (h5 : ctx.compiles = plain.compiles) (h6 : ctx.policy = plain.policy)
    (htok : ctx.ptokens = plain.ptokens.map ren) (heft : ctx.eftToken = ren plain.eftToken)
    (hm : ∀ rule, m' rule = m rule) :
    enforceCore ctx n m' = enforceCore plain n m := by
  apply enforceCore_congr ctx plain n m' m h1 h2 h3 heff h5 h6
  · rw [htok]; simp
  · rw [htok, heft]; exact idxOf?_map_inj ren hinj _ _
  · exact hm

/-- the model's two entry points are this evaluation on the two section choices -/
theorem enforcer_defs (e : Enforcer) (k : String) (call : String → List String → Option Atom)
    (tbl : String → Option Expr) (req : List Val) :
    e.enforceCtx k call tbl req = enforceCore (e.evalCfg k false) req.length (e.matchFn k call tbl req) ∧
    e.enforce call tbl req = enforceCore (e.evalCfg "" true) req.length (e.matchFn "" call tbl req) :=
  ⟨rfl, rfl⟩

/-! ### Non-vacuity: a deny rule under a renamed policy type is honoured (regression for F10) -/
def plainCfg : EvalCfg :=
  { enabled := true, sectionsOk := true, rtokens := 2, ptokens := ["p_sub", "p_obj", "p_eft"],
    effExpr := some .denyOverride, eftToken := "p_eft", compiles := true,
    policy := [["alice", "d1", "deny"]] }
def ctxCfg : EvalCfg := { plainCfg with ptokens := ["p2_sub", "p2_obj", "p2_eft"], eftToken := "p2_eft" }
example : enforceCore ctxCfg 2 (C01.demoMatch "alice" "d1") = .ok false ∧
          enforceCore plainCfg 2 (C01.demoMatch "alice" "d1") = .ok false := by decide
/-- with the pre-fix lookup (`p_eft` among `p2_…` tokens) the deny rule counted as allow -/
example : enforceCore { ctxCfg with eftToken := "p_eft" } 2 (C01.demoMatch "alice" "d1") = .ok true := by decide

end Casbin.C17
