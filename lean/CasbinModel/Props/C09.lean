import CasbinModel.Lemmas.TextSave
import CasbinModel.Lemmas.Csv
import CasbinModel.Lemmas.Mirror
import CasbinModel.Lemmas.MirrorBatch
import CasbinModel.Lemmas.SaveMirror
import CasbinModel.Props.C04
/-!
# C09 — Stored policy and in-memory policy stay identical

* **Text round trip** (`parse_render`): for every policy type and every non-empty list of
  values the text format can carry (`SafeField`: non-empty, no double quote, no newline, no
  leading/trailing blank — commas allowed, they are quoted on save), parsing the line
  `save_policy` writes gives back exactly those values — for the file adapter's `","` and
  the string adapter's `", "` separator.  Proved against the model of `parse_csv_line` that
  follows the regex iteration (`find_iter`) of the crate.
* **Memory adapter mirror**: with auto-save on a `MemoryAdapter`, an add keeps the adapter's
  lines equal to the store per policy type (`mirror_add`), including vetoed (already present)
  calls; and a reload from lines that mirror a duplicate-free store reproduces it, rule for
  rule and in order (`reload_is_identity`).
-/
namespace Casbin.C09
open Casbin

/-- the separators the bundled adapters write: a comma followed by blanks -/
def IsSep (sep : List Char) : Prop := ∃ sws, sep = ',' :: sws ∧ ∀ c ∈ sws, isWs c = true

/-- **CSV round trip**: `parse_csv_line (render ptype fields) = [ptype, fields…]`. -/
theorem parse_render (sep ptype : List Char) (fields : List (List Char)) (hsep : IsSep sep)
    (hpt : SafeField ptype) (hptc : ',' ∉ ptype) (hpth : ptype.head? ≠ some '#')
    (hfs : ∀ f ∈ fields, SafeField f) (hne : fields ≠ []) :
    parseCsvLine (renderLine sep ptype fields) = some (ptype :: fields) := by
  obtain ⟨sws, hs, hsws⟩ := hsep
  obtain ⟨f1, frest, hfields⟩ : ∃ f1 fr, fields = f1 :: fr := by
    cases fields with
    | nil => exact absurd rfl hne
    | cons a b => exact ⟨a, b, rfl⟩
  subst hfields
  -- the raw columns between commas
  let raws : List (List Char) := ptype :: rawCol [' '] f1 :: frest.map (rawCol sws)
  have hline : renderLine sep ptype (f1 :: frest) = joinWith [','] raws := by
    unfold renderLine
    rw [hs, List.map_cons, joinWith_sep]
    simp only [raws, joinWith, rawCol, List.map_map]
    cases frest with
    | nil => simp [joinWith]
    | cons f2 fr => simp [joinWith, Function.comp_def, List.append_assoc]; rfl
  have hpt_raw : rawCol [] ptype = ptype := by simp [rawCol, renderField, hptc]
  have hgood : ∀ c ∈ raws, GoodCol c := by
    intro c hc
    simp only [raws, List.mem_cons, List.mem_map] at hc
    rcases hc with h | h | ⟨f, hf, h⟩
    · rw [h, ← hpt_raw]; exact goodCol_rawCol [] ptype (by simp) hpt
    · rw [h]; exact goodCol_rawCol [' '] f1 (by simp [isWs]) (hfs f1 (by simp))
    · rw [← h]; exact goodCol_rawCol sws f hsws (hfs f (by simp [hf]))
  have hraws_ne : raws ≠ [] := by simp [raws]
  have hcols_ne : ∀ c ∈ raws, c ≠ [] := fun c hc => (hgood c hc).1
  -- trimming the line changes nothing
  have hhead : ∀ c, (joinWith [','] raws).head? = some c → isWs c = false := by
    intro c hc
    have : (joinWith [','] raws).head? = ptype.head? := by
      simp only [raws, joinWith]
      cases hp : ptype with
      | nil => exact absurd hp hpt.ne
      | cons a b => simp
    rw [this] at hc
    exact hpt.headNotWs c hc
  have hlast : ∀ c, (joinWith [','] raws).getLast? = some c → isWs c = false := by
    intro c hc
    rw [getLast?_joinWith raws hraws_ne hcols_ne] at hc
    -- the last raw column is a rawCol of a safe field
    have : ∃ ws f, raws.getLast? = some (rawCol ws f) ∧ SafeField f := by
      cases hfr : frest.reverse with
      | nil =>
        have : frest = [] := by simpa using hfr
        subst this
        exact ⟨[' '], f1, by simp [raws], hfs f1 (by simp)⟩
      | cons fl flr =>
        have hfrest : frest = flr.reverse ++ [fl] := by
          have := congrArg List.reverse hfr; simpa using this
        refine ⟨sws, fl, ?_, hfs fl (by simp [hfrest])⟩
        simp only [raws, hfrest, List.map_append, List.map_cons, List.map_nil]
        rw [← List.cons_append, ← List.cons_append, getLast?_append_ne _ _ (by simp)]
        rfl
    obtain ⟨ws, f, hl, hf⟩ := this
    rw [hl] at hc
    simp only [Option.bind, rawCol] at hc
    rw [getLast?_append_ne _ _ (renderField_ne f hf)] at hc
    exact renderField_last f hf c hc
  unfold parseCsvLine
  rw [hline]
  have htrim : trim (joinWith [','] raws) = joinWith [','] raws := by
    unfold trim; rw [trimL_of_head hhead, trimR_of_last hlast]
  simp only [htrim]
  have hnotempty : (joinWith [','] raws).isEmpty = false := by
    have := length_joinWith_ge raws hcols_ne
    cases h : joinWith [','] raws with
    | nil => rw [h] at this; simp [raws] at this
    | cons a b => rfl
  have hnothash : ¬ (joinWith [','] raws).head? = some '#' := by
    have : (joinWith [','] raws).head? = ptype.head? := by
      simp only [raws, joinWith]
      cases hp : ptype with
      | nil => exact absurd hp hpt.ne
      | cons a b => simp
    rw [this]; exact hpth
  simp only [hnotempty, hnothash, Bool.false_or, decide_false, Bool.false_eq_true, if_false]
  have hfuel : 2 * raws.length ≤ 2 * (joinWith [','] raws).length + 3 := by
    have := length_joinWith_ge raws hcols_ne; omega
  rw [(csvCols_join raws hgood _ hfuel).1 hraws_ne]
  have hmap : raws.map (fun c => unquote (trim c)) = ptype :: f1 :: frest := by
    simp only [raws, List.map_cons, List.map_map]
    have h0 : unquote (trim ptype) = ptype := by
      have := trim_rawCol [] ptype (by simp) hpt
      rwa [hpt_raw] at this
    rw [h0, trim_rawCol [' '] f1 (by simp [isWs]) (hfs f1 (by simp))]
    congr 2
    have : ∀ (l : List (List Char)), (∀ f ∈ l, SafeField f) →
        l.map ((fun c => unquote (trim c)) ∘ rawCol sws) = l := by
      intro l hl
      induction l with
      | nil => rfl
      | cons a b ih =>
        simp only [List.map_cons, Function.comp, trim_rawCol sws a hsws (hl a (by simp))]
        have := ih (fun f hf => hl f (by simp [hf]))
        exact congrArg (a :: ·) this
    exact this frest (fun f hf => hfs f (by simp [hf]))
  rw [hmap]
  simp

/-- both bundled separators qualify -/
example : IsSep [','] := ⟨[], rfl, by simp⟩
example : IsSep [',', ' '] := ⟨[' '], rfl, by simp [isWs]⟩

/-! ### memory adapter -/

/-- **Reload is the identity** on a store whose rule lists are duplicate free and mirrored
by the adapter's lines. -/
theorem reload_is_identity (e : Enforcer) (hk : e.adapter.kind = .memory) (hm : Mirror e) (hw : e.store.WF)
    (sec pt : String) (hex : (e.store.find sec pt).isSome = true) :
    (loadRecords e.store.clear e.adapter.records).getPolicy sec pt = e.store.getPolicy sec pt := by
  have hex' : (e.store.clear.find sec pt).isSome = true := by rw [find_clear]; exact hex
  rw [records_memory _ hk, getPolicy_loadRecords _ e.store.clear sec pt hex', getPolicy_clear', hm sec pt hex]
  rw [foldl_insertMove_nodup _ [] (hw sec pt) (by simp)]
  simp

theorem linkUpdate_fields (x : Enforcer) (changed : Bool) (sec pt : String) (ins : Bool) (rules : List Rule) (ret : Res) :
    (x.linkUpdate changed sec pt ins rules ret).1.store = x.store ∧
    (x.linkUpdate changed sec pt ins rules ret).1.adapter = x.adapter := by
  unfold Enforcer.linkUpdate
  split
  · exact ⟨rfl, rfl⟩
  · split
    · exact ⟨rfl, rfl⟩
    · split <;> exact ⟨rfl, rfl⟩

theorem emit_fields (x : Enforcer) (ev : Event) : (x.emit ev).store = x.store ∧ (x.emit ev).adapter = x.adapter := by
  unfold Enforcer.emit; split <;> exact ⟨rfl, rfl⟩

/-- store and adapter after `add_policy_internal` with auto-save: the adapter's answer decides -/
theorem addPolicy_fields (e : Enforcer) (sec pt : String) (rule : Rule) (has : e.autoSave = true) :
    (e.addPolicy sec pt rule).1.adapter = (e.adapter.addPolicy sec pt rule).1 ∧
    (e.addPolicy sec pt rule).1.store =
      (if (e.adapter.addPolicy sec pt rule).2 = some true then (e.store.addPolicy sec pt rule).1 else e.store) := by
  unfold Enforcer.addPolicy
  simp only [has, if_true]
  cases hr : e.adapter.addPolicy sec pt rule with
  | mk a r =>
    cases r with
    | none => simp
    | some b =>
      cases b with
      | false => simp
      | true =>
        simp only [if_true]
        rw [(linkUpdate_fields _ _ _ _ _ _ _).1, (linkUpdate_fields _ _ _ _ _ _ _).2]
        split <;> simp [(emit_fields _ _).1, (emit_fields _ _).2]

/-- **An add with auto-save keeps the mirror** — whether the adapter accepts it (rule new)
or vetoes it (line already present). -/
theorem mirror_add (e : Enforcer) (hk : e.adapter.kind = .memory) (hp : e.adapter.plan = [])
    (has : e.autoSave = true) (hm : Mirror e) (sec pt : String) (rule : Rule) :
    Mirror (e.addPolicy sec pt rule).1 := by
  obtain ⟨ha, hs⟩ := addPolicy_fields e sec pt rule has
  have hadd : e.adapter.addPolicy sec pt rule =
      (if tag sec pt rule ∈ e.adapter.lines then (e.adapter, some false)
       else ({ e.adapter with lines := e.adapter.lines ++ [tag sec pt rule] }, some true)) := by
    simp only [AdapterSt.addPolicy, AdapterSt.nextFault, hp, hk, OrdSet.add]
    have : ({ e.adapter with plan := [] } : AdapterSt) = e.adapter := by
      cases hh : e.adapter; simp_all
    split <;> simp_all
  intro sec' pt' hex
  rw [ha, hs, hadd] at *
  by_cases hin : tag sec pt rule ∈ e.adapter.lines
  · simp only [hin, if_true] at hex ⊢
    simp only [Option.some.injEq, Bool.false_eq_true, if_false] at hex ⊢
    exact hm sec' pt' hex
  · simp only [hin, if_false, if_true] at hex ⊢
    rw [memRecords_append, recsFor_append, memRecords_tag, recsFor_single]
    have hex0 : (e.store.find sec' pt').isSome = true := by
      unfold Store.addPolicy at hex
      cases hf : e.store.find sec pt with
      | none => simpa [hf] using hex
      | some d =>
        simp only [hf] at hex
        rw [Store.find_update e.store sec pt sec' pt' (fun d => { d with policy := (OrdSet.add d.policy rule).1 }) (fun d => rfl)] at hex
        split at hex
        · rename_i hc; obtain ⟨h1, h2⟩ := hc; subst h1 h2; simp [hf]
        · exact hex
    rw [hm sec' pt' hex0]
    unfold Store.addPolicy
    cases hf : e.store.find sec pt with
    | none =>
      simp only
      by_cases hc : sec = sec' ∧ pt = pt'
      · obtain ⟨h1, h2⟩ := hc; subst h1 h2; rw [hf] at hex0; cases hex0
      · simp [hc]
    | some d =>
      simp only
      rw [Store.getPolicy_update e.store sec pt sec' pt' (fun pol => (OrdSet.add pol rule).1)]
      by_cases hc : sec = sec' ∧ pt = pt'
      · obtain ⟨h1, h2⟩ := hc; subst h1 h2
        simp only [and_self, if_true, hf]
        have hnot : rule ∉ d.policy := by
          have hmm := hm sec pt hex0
          simp only [Store.getPolicy, hf] at hmm
          rw [← hmm, mem_recsFor_mem]; exact hin
        simp [OrdSet.add, hnot, Store.getPolicy, hf]
      · simp [hc]

/-- store and adapter after `remove_policy_internal` with auto-save -/
theorem removePolicy_fields (e : Enforcer) (sec pt : String) (rule : Rule) (has : e.autoSave = true) :
    (e.removePolicy sec pt rule).1.adapter = (e.adapter.removePolicy sec pt rule).1 ∧
    (e.removePolicy sec pt rule).1.store =
      (if (e.adapter.removePolicy sec pt rule).2 = some true then (e.store.removePolicy sec pt rule).1 else e.store) := by
  unfold Enforcer.removePolicy
  simp only [has, if_true]
  cases hr : e.adapter.removePolicy sec pt rule with
  | mk a r =>
    cases r with
    | none => simp
    | some b =>
      cases b with
      | false => simp
      | true =>
        simp only [if_true]
        rw [(linkUpdate_fields _ _ _ _ _ _ _).1, (linkUpdate_fields _ _ _ _ _ _ _).2]
        split <;> simp [(emit_fields _ _).1, (emit_fields _ _).2]

/-- **A removal with auto-save keeps the mirror** — whether the adapter performs it (line present)
or vetoes it (line absent). -/
theorem mirror_remove (e : Enforcer) (hk : e.adapter.kind = .memory) (hp : e.adapter.plan = [])
    (has : e.autoSave = true) (hm : Mirror e) (sec pt : String) (rule : Rule) :
    Mirror (e.removePolicy sec pt rule).1 := by
  obtain ⟨ha, hs⟩ := removePolicy_fields e sec pt rule has
  have hrm : e.adapter.removePolicy sec pt rule =
      (if tag sec pt rule ∈ e.adapter.lines then ({ e.adapter with lines := e.adapter.lines.erase (tag sec pt rule) }, some true)
       else (e.adapter, some false)) := by
    simp only [AdapterSt.removePolicy, AdapterSt.nextFault, hp, hk, OrdSet.remove]
    have : ({ e.adapter with plan := [] } : AdapterSt) = e.adapter := by
      cases hh : e.adapter; simp_all
    split <;> simp_all
    exact (erase_inst_irrel _ _)
  intro sec' pt' hex
  rw [ha, hs, hrm] at *
  by_cases hin : tag sec pt rule ∈ e.adapter.lines
  · simp only [hin, if_true] at hex ⊢
    have hex0 : (e.store.find sec' pt').isSome = true := by
      unfold Store.removePolicy at hex
      cases hf : e.store.find sec pt with
      | none => simpa [hf] using hex
      | some d =>
        simp only [hf] at hex
        rw [Store.find_update e.store sec pt sec' pt' (fun d => { d with policy := (OrdSet.remove d.policy rule).1 }) (fun d => rfl)] at hex
        split at hex
        · rename_i hc; obtain ⟨h1, h2⟩ := hc; subst h1 h2; simp [hf]
        · exact hex
    rw [recsFor_erase, hm sec' pt' hex0]
    unfold Store.removePolicy
    cases hf : e.store.find sec pt with
    | none =>
      simp only
      by_cases hc : sec = sec' ∧ pt = pt'
      · obtain ⟨h1, h2⟩ := hc; subst h1 h2; rw [hf] at hex0; cases hex0
      · simp [hc]
    | some d =>
      simp only
      rw [Store.getPolicy_update e.store sec pt sec' pt' (fun pol => (OrdSet.remove pol rule).1)]
      by_cases hc : sec = sec' ∧ pt = pt'
      · obtain ⟨h1, h2⟩ := hc; subst h1 h2
        simp only [and_self, if_true, hf]
        have hmem : rule ∈ d.policy := by
          have hmm := hm sec pt hex0
          simp only [Store.getPolicy, hf] at hmm
          rw [← hmm, mem_recsFor_mem]; exact hin
        simp [OrdSet.remove, hmem, Store.getPolicy, hf]
        first | exact (erase_inst_irrel _ _) | exact (erase_inst_irrel _ _).symm
      · simp [hc]
  · simp only [hin, if_false] at hex ⊢
    simp only [Option.some.injEq, Bool.false_eq_true, if_false] at hex ⊢
    exact hm sec' pt' hex

/-! ### Every history of management operations -/

theorem linkUpdate_autoSave (x : Enforcer) (changed : Bool) (sec pt : String) (ins : Bool) (rules : List Rule) (ret : Res) :
    (x.linkUpdate changed sec pt ins rules ret).1.autoSave = x.autoSave := by
  unfold Enforcer.linkUpdate
  split
  · rfl
  · split
    · rfl
    · split <;> rfl

theorem emit_autoSave (x : Enforcer) (ev : Event) : (x.emit ev).autoSave = x.autoSave := by
  unfold Enforcer.emit; split <;> rfl

theorem addPolicy_autoSave (e : Enforcer) (sec pt : String) (rule : Rule) :
    (e.addPolicy sec pt rule).1.autoSave = e.autoSave := by
  unfold Enforcer.addPolicy
  split
  · split
    · rfl
    · rfl
    · simp only []
      rw [linkUpdate_autoSave]
      split <;> simp [emit_autoSave]
  · simp only []
    rw [linkUpdate_autoSave]
    split <;> simp [emit_autoSave]

theorem removePolicy_autoSave (e : Enforcer) (sec pt : String) (rule : Rule) :
    (e.removePolicy sec pt rule).1.autoSave = e.autoSave := by
  unfold Enforcer.removePolicy
  split
  · split
    · rfl
    · rfl
    · simp only []
      rw [linkUpdate_autoSave]
      split <;> simp [emit_autoSave]
  · simp only []
    rw [linkUpdate_autoSave]
    split <;> simp [emit_autoSave]

/-- the configuration the property speaks about: memory adapter, no injected fault pending,
auto-save on, adapter and store in agreement -/
def MemOk (e : Enforcer) : Prop :=
  e.adapter.kind = .memory ∧ e.adapter.plan = [] ∧ e.autoSave = true ∧ Mirror e

theorem memOk_add (e : Enforcer) (h : MemOk e) (sec pt : String) (rule : Rule) : MemOk (e.addPolicy sec pt rule).1 := by
  obtain ⟨hk, hp, has, hm⟩ := h
  refine ⟨?_, ?_, ?_, mirror_add e hk hp has hm sec pt rule⟩
  · rw [(addPolicy_fields e sec pt rule has).1]
    simp only [AdapterSt.addPolicy, AdapterSt.nextFault, hp, hk]
  · rw [(addPolicy_fields e sec pt rule has).1]
    simp only [AdapterSt.addPolicy, AdapterSt.nextFault, hp, hk]
  · rw [addPolicy_autoSave]; exact has

theorem memOk_remove (e : Enforcer) (h : MemOk e) (sec pt : String) (rule : Rule) : MemOk (e.removePolicy sec pt rule).1 := by
  obtain ⟨hk, hp, has, hm⟩ := h
  refine ⟨?_, ?_, ?_, mirror_remove e hk hp has hm sec pt rule⟩
  · rw [(removePolicy_fields e sec pt rule has).1]
    simp only [AdapterSt.removePolicy, AdapterSt.nextFault, hp, hk]
  · rw [(removePolicy_fields e sec pt rule has).1]
    simp only [AdapterSt.removePolicy, AdapterSt.nextFault, hp, hk]
  · rw [removePolicy_autoSave]; exact has

/-! ### The batch and filtered operations -/

theorem adapter_plan_nil (a : AdapterSt) (hp : a.plan = []) : ({ a with plan := [] } : AdapterSt) = a := by
  cases a; simp_all

theorem adapter_addPolicies_mem (a : AdapterSt) (hk : a.kind = .memory) (hp : a.plan = []) (sec pt : String) (rules : List Rule) :
    a.addPolicies sec pt rules =
      (if (rules.map (tag sec pt)).any (fun l => decide (l ∈ a.lines)) then (a, some false)
       else ({ a with lines := OrdSet.addAll a.lines (rules.map (tag sec pt)) }, some true)) := by
  simp only [AdapterSt.addPolicies, AdapterSt.nextFault, hp, hk, adapter_plan_nil a hp]

theorem adapter_removePolicies_mem (a : AdapterSt) (hk : a.kind = .memory) (hp : a.plan = []) (sec pt : String) (rules : List Rule) :
    a.removePolicies sec pt rules =
      (if (rules.map (tag sec pt)).any (fun l => decide (l ∉ a.lines)) then (a, some false)
       else ({ a with lines := OrdSet.removeAll a.lines (rules.map (tag sec pt)) }, some true)) := by
  simp only [AdapterSt.removePolicies, AdapterSt.nextFault, hp, hk, adapter_plan_nil a hp]

theorem adapter_removeFiltered_mem (a : AdapterSt) (hk : a.kind = .memory) (hp : a.plan = []) (sec pt : String)
    (idx : Nat) (vals : List String) :
    a.removeFiltered sec pt idx vals =
      (if vals.isEmpty then (a, some false)
       else ({ a with lines := a.lines.filter (fun l => !lineHit sec pt idx vals l) },
             some (a.lines.any (lineHit sec pt idx vals)))) := by
  simp only [AdapterSt.removeFiltered, AdapterSt.nextFault, hp, hk, adapter_plan_nil a hp]
  rfl

theorem addPolicies_fields (e : Enforcer) (sec pt : String) (rules : List Rule) (has : e.autoSave = true) :
    (e.addPolicies sec pt rules).1.adapter = (e.adapter.addPolicies sec pt rules).1 ∧
    (e.addPolicies sec pt rules).1.store =
      (if (e.adapter.addPolicies sec pt rules).2 = some true then (e.store.addPolicies sec pt rules).1 else e.store) := by
  unfold Enforcer.addPolicies
  simp only [has, if_true]
  cases hr : e.adapter.addPolicies sec pt rules with
  | mk a r =>
    cases r with
    | none => simp
    | some b =>
      cases b with
      | false => simp
      | true =>
        simp only [if_true]
        rw [(linkUpdate_fields _ _ _ _ _ _ _).1, (linkUpdate_fields _ _ _ _ _ _ _).2]
        split <;> simp [(emit_fields _ _).1, (emit_fields _ _).2]

theorem removePolicies_fields (e : Enforcer) (sec pt : String) (rules : List Rule) (has : e.autoSave = true) :
    (e.removePolicies sec pt rules).1.adapter = (e.adapter.removePolicies sec pt rules).1 ∧
    (e.removePolicies sec pt rules).1.store =
      (if (e.adapter.removePolicies sec pt rules).2 = some true then (e.store.removePolicies sec pt rules).1 else e.store) := by
  unfold Enforcer.removePolicies
  simp only [has, if_true]
  cases hr : e.adapter.removePolicies sec pt rules with
  | mk a r =>
    cases r with
    | none => simp
    | some b =>
      cases b with
      | false => simp
      | true =>
        simp only [if_true]
        rw [(linkUpdate_fields _ _ _ _ _ _ _).1, (linkUpdate_fields _ _ _ _ _ _ _).2]
        split <;> simp [(emit_fields _ _).1, (emit_fields _ _).2]

theorem removeFiltered_fields (e : Enforcer) (sec pt : String) (idx : Nat) (vals : List String) (has : e.autoSave = true) :
    (e.removeFiltered sec pt idx vals).1.adapter = (e.adapter.removeFiltered sec pt idx vals).1 ∧
    (e.removeFiltered sec pt idx vals).1.store =
      (if (e.adapter.removeFiltered sec pt idx vals).2 = some true then (e.store.removeFiltered sec pt idx vals).1 else e.store) := by
  unfold Enforcer.removeFiltered
  simp only [has, if_true]
  cases hr : e.adapter.removeFiltered sec pt idx vals with
  | mk a r =>
    cases r with
    | none => simp
    | some b =>
      cases b with
      | false => simp
      | true =>
        simp only [if_true]
        rw [(linkUpdate_fields _ _ _ _ _ _ _).1, (linkUpdate_fields _ _ _ _ _ _ _).2]
        split <;> simp [(emit_fields _ _).1, (emit_fields _ _).2]

theorem Store.addPolicies_find (s : Store) (sec pt : String) (rules : List Rule) (sec' pt' : String) :
    ((s.addPolicies sec pt rules).1.find sec' pt').isSome = (s.find sec' pt').isSome := by
  unfold Store.addPolicies
  cases hf : s.find sec pt with
  | none => rfl
  | some d =>
    simp only
    split
    · rfl
    · exact Store.find_isSome_update s sec pt sec' pt' (fun pol => OrdSet.addAll pol rules)

theorem Store.removePolicies_find (s : Store) (sec pt : String) (rules : List Rule) (sec' pt' : String) :
    ((s.removePolicies sec pt rules).1.find sec' pt').isSome = (s.find sec' pt').isSome := by
  unfold Store.removePolicies
  cases hf : s.find sec pt with
  | none => rfl
  | some d =>
    simp only
    split
    · rfl
    · exact Store.find_isSome_update s sec pt sec' pt' (fun pol => OrdSet.removeAll pol rules)

theorem Store.removeFiltered_find (s : Store) (sec pt : String) (idx : Nat) (vals : List String) (sec' pt' : String) :
    ((s.removeFiltered sec pt idx vals).1.find sec' pt').isSome = (s.find sec' pt').isSome := by
  unfold Store.removeFiltered
  split
  · rfl
  · cases hf : s.find sec pt with
    | none => rfl
    | some d =>
      simp only
      split
      · rfl
      · exact Store.find_isSome_update s sec pt sec' pt' (fun pol => pol.filter (fun r => !filterMatch idx vals r))

/-- **`add_policies` with auto-save keeps the mirror**: accepted (every rule new — the lines and the
store grow by the same rules in the same order, repeated rules of the batch once), vetoed by the
adapter (some line present), or on a policy type the model does not have. -/
theorem mirror_addPolicies (e : Enforcer) (hk : e.adapter.kind = .memory) (hp : e.adapter.plan = [])
    (has : e.autoSave = true) (hm : Mirror e) (sec pt : String) (rules : List Rule) :
    Mirror (e.addPolicies sec pt rules).1 := by
  obtain ⟨ha, hs⟩ := addPolicies_fields e sec pt rules has
  intro sec' pt' hex
  rw [ha, hs, adapter_addPolicies_mem _ hk hp]
  rw [hs, adapter_addPolicies_mem _ hk hp] at hex
  by_cases hany : (rules.map (tag sec pt)).any (fun l => decide (l ∈ e.adapter.lines)) = true
  · simp only [hany, if_true] at hex ⊢
    simp only [Option.some.injEq, Bool.false_eq_true, if_false] at hex ⊢
    exact hm sec' pt' hex
  · simp only [hany, Bool.false_eq_true, if_false, if_true] at hex ⊢
    rw [Store.addPolicies_find] at hex
    show proj sec' pt' _ = _
    rw [proj_addAll]
    have hm' : proj sec' pt' e.adapter.lines = e.store.getPolicy sec' pt' := hm sec' pt' hex
    unfold Store.addPolicies
    cases hf : e.store.find sec pt with
    | none =>
      simp only
      by_cases hc : sec = sec' ∧ pt = pt'
      · obtain ⟨h1, h2⟩ := hc; subst h1 h2; rw [hf] at hex; cases hex
      · simp only [hc, if_false]; exact hm'
    | some d =>
      simp only
      have hfresh : ¬ (rules.any (fun r => decide (r ∈ d.policy)) = true) := by
        intro h
        apply hany
        rw [List.any_eq_true] at h ⊢
        obtain ⟨r, hr, hin⟩ := h
        refine ⟨tag sec pt r, List.mem_map.mpr ⟨r, hr, rfl⟩, ?_⟩
        have hmm : proj sec pt e.adapter.lines = d.policy := by
          have := hm sec pt (by simp [hf]); unfold proj; simpa [Store.getPolicy, hf] using this
        have : r ∈ proj sec pt e.adapter.lines := by rw [hmm]; simpa using hin
        simpa using (mem_proj _ _ _ _).1 this
      simp only [hfresh, Bool.false_eq_true, if_false]
      rw [Store.getPolicy_update' e.store sec pt sec' pt' (fun pol => OrdSet.addAll pol rules)]
      by_cases hc : sec = sec' ∧ pt = pt'
      · obtain ⟨h1, h2⟩ := hc; subst h1 h2
        simp only [and_self, if_true, hf, Option.isSome_some, hm']
      · have : ¬ (sec = sec' ∧ pt = pt' ∧ (e.store.find sec pt).isSome = true) := fun hh => hc ⟨hh.1, hh.2.1⟩
        simp only [hc, this, if_false]; exact hm'

/-- **`remove_policies` with auto-save keeps the mirror**: performed (every rule present), vetoed by the
adapter (some line absent), or on a policy type the model does not have. -/
theorem mirror_removePolicies (e : Enforcer) (hk : e.adapter.kind = .memory) (hp : e.adapter.plan = [])
    (has : e.autoSave = true) (hm : Mirror e) (sec pt : String) (rules : List Rule) :
    Mirror (e.removePolicies sec pt rules).1 := by
  obtain ⟨ha, hs⟩ := removePolicies_fields e sec pt rules has
  intro sec' pt' hex
  rw [ha, hs, adapter_removePolicies_mem _ hk hp]
  rw [hs, adapter_removePolicies_mem _ hk hp] at hex
  by_cases hany : (rules.map (tag sec pt)).any (fun l => decide (l ∉ e.adapter.lines)) = true
  · simp only [hany, if_true] at hex ⊢
    simp only [Option.some.injEq, Bool.false_eq_true, if_false] at hex ⊢
    exact hm sec' pt' hex
  · simp only [hany, Bool.false_eq_true, if_false, if_true] at hex ⊢
    rw [Store.removePolicies_find] at hex
    show proj sec' pt' _ = _
    rw [proj_removeAll]
    have hm' : proj sec' pt' e.adapter.lines = e.store.getPolicy sec' pt' := hm sec' pt' hex
    unfold Store.removePolicies
    cases hf : e.store.find sec pt with
    | none =>
      simp only
      by_cases hc : sec = sec' ∧ pt = pt'
      · obtain ⟨h1, h2⟩ := hc; subst h1 h2; rw [hf] at hex; cases hex
      · simp only [hc, if_false]; exact hm'
    | some d =>
      simp only
      have hall : ¬ (rules.any (fun r => decide (r ∉ d.policy)) = true) := by
        intro h
        apply hany
        rw [List.any_eq_true] at h ⊢
        obtain ⟨r, hr, hnin⟩ := h
        refine ⟨tag sec pt r, List.mem_map.mpr ⟨r, hr, rfl⟩, ?_⟩
        have hmm : proj sec pt e.adapter.lines = d.policy := by
          have := hm sec pt (by simp [hf]); unfold proj; simpa [Store.getPolicy, hf] using this
        have : r ∉ proj sec pt e.adapter.lines := by rw [hmm]; simpa using hnin
        simpa using fun h' => this ((mem_proj _ _ _ _).2 h')
      simp only [hall, Bool.false_eq_true, if_false]
      rw [Store.getPolicy_update' e.store sec pt sec' pt' (fun pol => OrdSet.removeAll pol rules)]
      by_cases hc : sec = sec' ∧ pt = pt'
      · obtain ⟨h1, h2⟩ := hc; subst h1 h2
        simp only [and_self, if_true, hf, Option.isSome_some, hm']
      · have : ¬ (sec = sec' ∧ pt = pt' ∧ (e.store.find sec pt).isSome = true) := fun hh => hc ⟨hh.1, hh.2.1⟩
        simp only [hc, this, if_false]; exact hm'

/-- **`remove_filtered_policy` with auto-save keeps the mirror**: the adapter drops the lines of the policy
type whose fields match the filter, the store drops the rules that match; an empty filter or one that
selects nothing is vetoed by the adapter and changes neither. -/
theorem mirror_removeFiltered (e : Enforcer) (hk : e.adapter.kind = .memory) (hp : e.adapter.plan = [])
    (has : e.autoSave = true) (hm : Mirror e) (sec pt : String) (idx : Nat) (vals : List String) :
    Mirror (e.removeFiltered sec pt idx vals).1 := by
  obtain ⟨ha, hs⟩ := removeFiltered_fields e sec pt idx vals has
  intro sec' pt' hex
  rw [ha, hs, adapter_removeFiltered_mem _ hk hp]
  rw [hs, adapter_removeFiltered_mem _ hk hp] at hex
  by_cases hve : vals.isEmpty = true
  · simp only [hve, if_true] at hex ⊢
    simp only [Option.some.injEq, Bool.false_eq_true, if_false] at hex ⊢
    exact hm sec' pt' hex
  · simp only [hve, Bool.false_eq_true, if_false] at hex ⊢
    by_cases hany : e.adapter.lines.any (lineHit sec pt idx vals) = true
    · simp only [hany, if_true] at hex ⊢
      rw [Store.removeFiltered_find] at hex
      show proj sec' pt' _ = _
      rw [proj_filter]
      have hm' : proj sec' pt' e.adapter.lines = e.store.getPolicy sec' pt' := hm sec' pt' hex
      unfold Store.removeFiltered
      simp only [hve, Bool.false_eq_true, if_false]
      cases hf : e.store.find sec pt with
      | none =>
        simp only
        by_cases hc : sec = sec' ∧ pt = pt'
        · obtain ⟨h1, h2⟩ := hc; subst h1 h2; rw [hf] at hex; cases hex
        · simp only [hc, if_false]; exact hm'
      | some d =>
        simp only
        have hmm : proj sec pt e.adapter.lines = d.policy := by
          have := hm sec pt (by simp [hf]); unfold proj; simpa [Store.getPolicy, hf] using this
        have hne : ¬ ((d.policy.filter (filterMatch idx vals)).isEmpty = true) := by
          rw [any_lineHit_iff, hmm, List.any_eq_true] at hany
          obtain ⟨r, hr, hfm⟩ := hany
          intro h
          have : r ∈ d.policy.filter (filterMatch idx vals) := List.mem_filter.mpr ⟨hr, hfm⟩
          rw [List.isEmpty_iff.mp h] at this; cases this
        simp only [hne, Bool.false_eq_true, if_false]
        rw [Store.getPolicy_update' e.store sec pt sec' pt' (fun pol => pol.filter (fun r => !filterMatch idx vals r))]
        by_cases hc : sec = sec' ∧ pt = pt'
        · obtain ⟨h1, h2⟩ := hc; subst h1 h2
          simp only [and_self, if_true, hf, Option.isSome_some, hm']
        · have : ¬ (sec = sec' ∧ pt = pt' ∧ (e.store.find sec pt).isSome = true) := fun hh => hc ⟨hh.1, hh.2.1⟩
          simp only [hc, this, if_false]; exact hm'
    · have hany' : e.adapter.lines.any (lineHit sec pt idx vals) = false := by simpa using hany
      simp only [hany', Option.some.injEq, Bool.false_eq_true, if_false] at hex ⊢
      have hid : e.adapter.lines.filter (fun l => !lineHit sec pt idx vals l) = e.adapter.lines := by
        rw [List.filter_eq_self]
        intro l hl
        have := List.any_eq_false.mp hany' l hl
        simpa using this
      rw [hid]
      exact hm sec' pt' hex

theorem addPolicies_autoSave (e : Enforcer) (sec pt : String) (rules : List Rule) :
    (e.addPolicies sec pt rules).1.autoSave = e.autoSave := by
  unfold Enforcer.addPolicies
  split
  · split
    · rfl
    · rfl
    · simp only []
      rw [linkUpdate_autoSave]
      split <;> simp [emit_autoSave]
  · simp only []
    rw [linkUpdate_autoSave]
    split <;> simp [emit_autoSave]

theorem removePolicies_autoSave (e : Enforcer) (sec pt : String) (rules : List Rule) :
    (e.removePolicies sec pt rules).1.autoSave = e.autoSave := by
  unfold Enforcer.removePolicies
  split
  · split
    · rfl
    · rfl
    · simp only []
      rw [linkUpdate_autoSave]
      split <;> simp [emit_autoSave]
  · simp only []
    rw [linkUpdate_autoSave]
    split <;> simp [emit_autoSave]

theorem removeFiltered_autoSave (e : Enforcer) (sec pt : String) (idx : Nat) (vals : List String) :
    (e.removeFiltered sec pt idx vals).1.autoSave = e.autoSave := by
  unfold Enforcer.removeFiltered
  split
  · split
    · rfl
    · rfl
    · simp only []
      rw [linkUpdate_autoSave]
      split <;> simp [emit_autoSave]
  · simp only []
    rw [linkUpdate_autoSave]
    split <;> simp [emit_autoSave]

theorem memOk_addPolicies (e : Enforcer) (h : MemOk e) (sec pt : String) (rules : List Rule) :
    MemOk (e.addPolicies sec pt rules).1 := by
  obtain ⟨hk, hp, has, hm⟩ := h
  refine ⟨?_, ?_, ?_, mirror_addPolicies e hk hp has hm sec pt rules⟩
  · rw [(addPolicies_fields e sec pt rules has).1, adapter_addPolicies_mem _ hk hp]; split <;> exact hk
  · rw [(addPolicies_fields e sec pt rules has).1, adapter_addPolicies_mem _ hk hp]; split <;> exact hp
  · rw [addPolicies_autoSave]; exact has

theorem memOk_removePolicies (e : Enforcer) (h : MemOk e) (sec pt : String) (rules : List Rule) :
    MemOk (e.removePolicies sec pt rules).1 := by
  obtain ⟨hk, hp, has, hm⟩ := h
  refine ⟨?_, ?_, ?_, mirror_removePolicies e hk hp has hm sec pt rules⟩
  · rw [(removePolicies_fields e sec pt rules has).1, adapter_removePolicies_mem _ hk hp]; split <;> exact hk
  · rw [(removePolicies_fields e sec pt rules has).1, adapter_removePolicies_mem _ hk hp]; split <;> exact hp
  · rw [removePolicies_autoSave]; exact has

theorem memOk_removeFiltered (e : Enforcer) (h : MemOk e) (sec pt : String) (idx : Nat) (vals : List String) :
    MemOk (e.removeFiltered sec pt idx vals).1 := by
  obtain ⟨hk, hp, has, hm⟩ := h
  refine ⟨?_, ?_, ?_, mirror_removeFiltered e hk hp has hm sec pt idx vals⟩
  · rw [(removeFiltered_fields e sec pt idx vals has).1, adapter_removeFiltered_mem _ hk hp]; split <;> exact hk
  · rw [(removeFiltered_fields e sec pt idx vals has).1, adapter_removeFiltered_mem _ hk hp]; split <;> exact hp
  · rw [removeFiltered_autoSave]; exact has

/-- the five internal management operations every public mutation goes through -/
inductive SOp where
  | add (sec pt : String) (rule : Rule)
  | remove (sec pt : String) (rule : Rule)
  | addMany (sec pt : String) (rules : List Rule)
  | removeMany (sec pt : String) (rules : List Rule)
  | removeFiltered (sec pt : String) (idx : Nat) (vals : List String)

def SOp.apply (e : Enforcer) : SOp → Enforcer
  | .add sec pt rule => (e.addPolicy sec pt rule).1
  | .remove sec pt rule => (e.removePolicy sec pt rule).1
  | .addMany sec pt rules => (e.addPolicies sec pt rules).1
  | .removeMany sec pt rules => (e.removePolicies sec pt rules).1
  | .removeFiltered sec pt idx vals => (e.removeFiltered sec pt idx vals).1

/-- **after every history of the five management operations** — single and batch additions and removals and
filtered removals (accepted, vetoed, on existing or unknown policy types, with or without watcher) the adapter still mirrors the store … -/
theorem mirror_history (e : Enforcer) (h : MemOk e) (ops : List SOp) : MemOk (ops.foldl SOp.apply e) := by
  induction ops generalizing e with
  | nil => exact h
  | cons op ops ih =>
    cases op with
    | add sec pt rule => exact ih _ (memOk_add e h sec pt rule)
    | remove sec pt rule => exact ih _ (memOk_remove e h sec pt rule)
    | addMany sec pt rules => exact ih _ (memOk_addPolicies e h sec pt rules)
    | removeMany sec pt rules => exact ih _ (memOk_removePolicies e h sec pt rules)
    | removeFiltered sec pt idx vals => exact ih _ (memOk_removeFiltered e h sec pt idx vals)

/-- … so a `load_policy` at any point of such a history changes nothing -/
theorem reload_after_history (e : Enforcer) (h : MemOk e) (ops : List SOp) :
    let e' := ops.foldl SOp.apply e
    ∀ sec pt, (e'.store.find sec pt).isSome = true →
      recsFor sec pt e'.adapter.records = e'.store.getPolicy sec pt := by
  intro e' sec pt hex
  have hm := mirror_history e h ops
  rw [records_memory _ hm.1]
  exact hm.2.2.2 sec pt hex

/-! ### save_policy -/

/-- the shape `save_policy` relies on: a definition is filed under the first character of its key (`p2` under `p`,
`g3` under `g`), and keys are distinct within a section -/
structure Canon (s : Store) : Prop where
  ptag : ∀ d ∈ s.p, tagOf d = "p"
  gtag : ∀ d ∈ s.g, tagOf d = "g"
  pkeys : (s.p.map (·.key)).Nodup
  gkeys : (s.g.map (·.key)).Nodup

/-- **`save_policy` into a memory adapter establishes the mirror**: afterwards the adapter holds, per policy type,
exactly the stored rules in stored order — so (with `reload_is_identity`) a following `load_policy` changes nothing -/
theorem save_establishes_mirror (e : Enforcer) (hk : e.adapter.kind = .memory) (hp : e.adapter.plan = [])
    (hf : e.adapter.filtered = false) (hc : Canon e.store) (hw : e.store.WF) :
    Mirror e.savePolicy.1 := by
  have hsave : e.adapter.save e.store =
      ({ e.adapter with lines := ((e.store.p ++ e.store.g).flatMap (fun d =>
          d.policy.map (fun r => (String.ofList (d.key.toList.take 1)) :: d.key :: r))).foldl insertMove [] }, some ()) := by
    simp only [AdapterSt.save, AdapterSt.nextFault, hp, hk, adapter_plan_nil e.adapter hp]
  have hstore : e.savePolicy.1.store = e.store ∧ e.savePolicy.1.adapter.lines =
      ((e.store.p ++ e.store.g).flatMap (fun d =>
          d.policy.map (fun r => (String.ofList (d.key.toList.take 1)) :: d.key :: r))).foldl insertMove [] := by
    unfold Enforcer.savePolicy
    simp only [hf, Bool.false_eq_true, if_false, hsave]
    rw [(emit_fields _ _).1, (emit_fields _ _).2]
    exact ⟨rfl, rfl⟩
  intro sec pt hex
  rw [hstore.1] at hex ⊢
  rw [hstore.2]
  show proj sec pt _ = _
  -- the lines are the tagged records of all definitions
  have hT : (e.store.p ++ e.store.g).flatMap (fun d =>
        d.policy.map (fun r => (String.ofList (d.key.toList.take 1)) :: d.key :: r)) =
      ((e.store.p ++ e.store.g).flatMap (fun d => d.policy.map (fun r => (tagOf d, d.key, r)))).map
        (fun t => tag t.1 t.2.1 t.2.2) := by
    rw [List.map_flatMap]
    congr 1
    funext d
    rw [List.map_map]
    rfl
  rw [hT, proj_foldl_insertMove, recsFor_flatMap]
  have hfun : (fun d : PolDef => recsFor sec pt (d.policy.map (fun r => (tagOf d, d.key, r)))) =
      (fun d => if tagOf d = sec ∧ d.key = pt then d.policy else []) := by
    funext d; exact recsFor_const sec pt (tagOf d) d.key d.policy
  rw [hfun, List.flatMap_append]
  have hproj0 : proj sec pt [] = [] := by simp [proj, memRecords, recsFor]
  rw [hproj0]
  -- the section is `p` or `g`
  have hsec : sec = "p" ∨ sec = "g" := by
    by_cases h1 : sec = "p"
    · exact Or.inl h1
    · by_cases h2 : sec = "g"
      · exact Or.inr h2
      · exfalso
        simp [Store.find, Store.sec, h1, h2] at hex
  have hget : (e.store.p.flatMap (fun d => if tagOf d = sec ∧ d.key = pt then d.policy else [])) ++
      (e.store.g.flatMap (fun d => if tagOf d = sec ∧ d.key = pt then d.policy else [])) = e.store.getPolicy sec pt := by
    rcases hsec with rfl | rfl
    · rw [flatMap_unique e.store.p "p" pt hc.ptag hc.pkeys,
        flatMap_other e.store.g "p" pt (fun d hd => by rw [hc.gtag d hd]; decide)]
      simp [Store.getPolicy, Store.find, Store.sec]
      cases List.find? (fun x => decide (x.key = pt)) e.store.p <;> rfl
    · rw [flatMap_other e.store.p "g" pt (fun d hd => by rw [hc.ptag d hd]; decide),
        flatMap_unique e.store.g "g" pt hc.gtag hc.gkeys]
      simp [Store.getPolicy, Store.find, Store.sec]
      cases List.find? (fun x => decide (x.key = pt)) e.store.g <;> rfl
  rw [hget, foldl_insertMove_nodup _ [] (hw sec pt) (by simp)]
  simp


/-! ### `save_policy` into a file / string adapter, then `load_policy` -/

/-- every policy type name and every stored rule can be written as text -/
structure Writable (s : Store) : Prop where
  keys : ∀ d ∈ s.p ++ s.g, SafeKey d.key
  rules : ∀ d ∈ s.p ++ s.g, ∀ r ∈ d.policy, SafeRule r

theorem lineRecord_saved (sep : List Char) (hsep : IsSep sep) (k : String) (r : Rule) (hk : SafeKey k) (hr : SafeRule r) :
    lineRecord (renderLine sep k.toList (r.map String.toList)) = some (String.ofList (k.toList.take 1), k, r) := by
  apply lineRecord_render sep _ hk
  apply parse_render sep k.toList (r.map String.toList) hsep hk.safe hk.noComma hk.noHash
  · intro f hf
    simp only [List.mem_map] at hf
    obtain ⟨x, hx, rfl⟩ := hf
    exact hr.safe x hx
  · intro h
    exact hr.ne (by simpa using h)

theorem filterMap_rules (sep : List Char) (hsep : IsSep sep) (d : PolDef) (hk : SafeKey d.key) (rs : List Rule)
    (hr : ∀ r ∈ rs, SafeRule r) :
    (rs.map (fun r => renderLine sep d.key.toList (r.map String.toList))).filterMap lineRecord =
      rs.map (fun r => (tagOf d, d.key, r)) := by
  induction rs with
  | nil => rfl
  | cons r rest ih =>
    simp only [List.map_cons, List.filterMap_cons]
    rw [lineRecord_saved sep hsep d.key r hk (hr r List.mem_cons_self)]
    simp only []
    rw [ih (fun x hx => hr x (List.mem_cons_of_mem _ hx))]
    rfl

theorem filterMap_defs (sep : List Char) (hsep : IsSep sep) (ds : List PolDef) (hk : ∀ d ∈ ds, SafeKey d.key)
    (hr : ∀ d ∈ ds, ∀ r ∈ d.policy, SafeRule r) :
    (ds.flatMap (fun d => d.policy.map (fun r => renderLine sep d.key.toList (r.map String.toList)))).filterMap lineRecord =
      ds.flatMap (fun d => d.policy.map (fun r => (tagOf d, d.key, r))) := by
  induction ds with
  | nil => rfl
  | cons d rest ih =>
    simp only [List.flatMap_cons, List.filterMap_append]
    rw [filterMap_rules sep hsep d (hk d List.mem_cons_self) d.policy (hr d List.mem_cons_self),
      ih (fun x hx => hk x (List.mem_cons_of_mem _ hx)) (fun x hx => hr x (List.mem_cons_of_mem _ hx))]

/-- **the text `save_policy` writes reads back, line for line, as the stored rules** under their policy types, in
stored order: quoting, separators and line ends lose nothing -/
theorem saved_text_records (sep : List Char) (hsep : IsSep sep) (hnl : '\n' ∉ sep) (s : Store) (hw : Writable s) :
    (splitLines (((s.p ++ s.g).flatMap (fun d =>
        d.policy.map (fun r => renderLine sep d.key.toList (r.map String.toList) ++ ['\n']))).flatten)).filterMap lineRecord =
      (s.p ++ s.g).flatMap (fun d => d.policy.map (fun r => (tagOf d, d.key, r))) := by
  have hlines : (s.p ++ s.g).flatMap (fun d =>
        d.policy.map (fun r => renderLine sep d.key.toList (r.map String.toList) ++ ['\n'])) =
      ((s.p ++ s.g).flatMap (fun d =>
        d.policy.map (fun r => renderLine sep d.key.toList (r.map String.toList)))).map (· ++ ['\n']) := by
    rw [List.map_flatMap]
    congr 1
    funext d
    rw [List.map_map]
    rfl
  rw [hlines, splitLines_terminated]
  · rw [List.filterMap_append, filterMap_defs sep hsep _ hw.keys hw.rules]
    have : [([] : List Char)].filterMap lineRecord = [] := rfl
    rw [this, List.append_nil]
  · intro l hl
    simp only [List.mem_flatMap, List.mem_map] at hl
    obtain ⟨d, hd, r, hr, rfl⟩ := hl
    exact renderLine_no_nl sep hnl d.key r (hw.keys d hd) (hw.rules d hd r hr)

/-- the records of all definitions, seen per policy type, are the stored rule lists -/
theorem recsFor_allRecords (s : Store) (hc : Canon s) (sec pt : String) (hex : (s.find sec pt).isSome = true) :
    recsFor sec pt ((s.p ++ s.g).flatMap (fun d => d.policy.map (fun r => (tagOf d, d.key, r)))) = s.getPolicy sec pt := by
  rw [recsFor_flatMap]
  have hfun : (fun d : PolDef => recsFor sec pt (d.policy.map (fun r => (tagOf d, d.key, r)))) =
      (fun d => if tagOf d = sec ∧ d.key = pt then d.policy else []) := by
    funext d; exact recsFor_const sec pt (tagOf d) d.key d.policy
  rw [hfun, List.flatMap_append]
  have hsec : sec = "p" ∨ sec = "g" := by
    by_cases h1 : sec = "p"
    · exact Or.inl h1
    · by_cases h2 : sec = "g"
      · exact Or.inr h2
      · exfalso
        simp [Store.find, Store.sec, h1, h2] at hex
  rcases hsec with rfl | rfl
  · rw [flatMap_unique s.p "p" pt hc.ptag hc.pkeys,
      flatMap_other s.g "p" pt (fun d hd => by rw [hc.gtag d hd]; decide)]
    simp [Store.getPolicy, Store.find, Store.sec]
    cases List.find? (fun x => decide (x.key = pt)) s.p <;> rfl
  · rw [flatMap_other s.p "g" pt (fun d hd => by rw [hc.ptag d hd]; decide),
      flatMap_unique s.g "g" pt hc.gtag hc.gkeys]
    simp [Store.getPolicy, Store.find, Store.sec]
    cases List.find? (fun x => decide (x.key = pt)) s.g <;> rfl

/-- `save_policy` into a file or string adapter: the rules stay, and the adapter then offers exactly the stored rules -/
theorem save_text_records (e : Enforcer) (hk : e.adapter.kind = .file ∨ e.adapter.kind = .string) (hp : e.adapter.plan = [])
    (hf : e.adapter.filtered = false) (hw : Writable e.store) (hpd : e.store.p.isEmpty = false) :
    e.savePolicy.1.store = e.store ∧
    e.savePolicy.1.adapter.records =
      (e.store.p ++ e.store.g).flatMap (fun d => d.policy.map (fun r => (tagOf d, d.key, r))) := by
  have hsave : ∃ sep, IsSep sep ∧ '\n' ∉ sep ∧ e.adapter.save e.store =
      ({ e.adapter with text := ((e.store.p ++ e.store.g).flatMap (fun d =>
          d.policy.map (fun r => renderLine sep d.key.toList (r.map String.toList) ++ ['\n']))).flatten }, some ()) := by
    rcases hk with hk | hk
    · refine ⟨[','], ⟨[], rfl, by intro c hc; cases hc⟩, by decide, ?_⟩
      simp only [AdapterSt.save, AdapterSt.nextFault, hp, hk, adapter_plan_nil e.adapter hp, hpd, Bool.false_eq_true, if_false]
      rfl
    · refine ⟨[',', ' '], ⟨[' '], rfl, by intro c hc; simp only [List.mem_singleton] at hc; subst hc; rfl⟩, by decide, ?_⟩
      simp only [AdapterSt.save, AdapterSt.nextFault, hp, hk, adapter_plan_nil e.adapter hp, hpd, Bool.false_eq_true, if_false]
      rfl
  obtain ⟨sep, hsep, hnl, hsave⟩ := hsave
  have hfields : e.savePolicy.1.store = e.store ∧ e.savePolicy.1.adapter =
      { e.adapter with text := ((e.store.p ++ e.store.g).flatMap (fun d =>
          d.policy.map (fun r => renderLine sep d.key.toList (r.map String.toList) ++ ['\n']))).flatten } := by
    unfold Enforcer.savePolicy
    simp only [hf, Bool.false_eq_true, if_false, hsave]
    rw [(emit_fields _ _).1, (emit_fields _ _).2]
    exact ⟨rfl, rfl⟩
  refine ⟨hfields.1, ?_⟩
  rw [hfields.2]
  generalize hT : ((e.store.p ++ e.store.g).flatMap (fun d =>
          d.policy.map (fun r => renderLine sep d.key.toList (r.map String.toList) ++ ['\n']))).flatten = T
  have hk' : ({ e.adapter with text := T } : AdapterSt).kind = .file ∨ ({ e.adapter with text := T } : AdapterSt).kind = .string := hk
  rw [records_text _ hk']
  show (splitLines T).filterMap lineRecord = _
  rw [← hT]
  exact saved_text_records sep hsep hnl e.store hw

/-- a model without a policy definition is refused by the file and string adapters, and the refusal leaves the stored
text, the rules and the filtered flag as they were -/
theorem save_without_pdef_refused (e : Enforcer) (hk : e.adapter.kind = .file ∨ e.adapter.kind = .string)
    (hp : e.adapter.plan = []) (hf : e.adapter.filtered = false) (hpd : e.store.p.isEmpty = true) :
    e.savePolicy.2 = .err .model ∧ e.savePolicy.1.adapter = e.adapter ∧ e.savePolicy.1.store = e.store := by
  have hsave : e.adapter.save e.store = (e.adapter, none) := by
    rcases hk with hk | hk <;>
      simp only [AdapterSt.save, AdapterSt.nextFault, hp, hk, adapter_plan_nil e.adapter hp, hpd, if_true]
  have herr : e.adapter.saveErr e.store = .model := by
    rcases hk with hk | hk <;> simp [AdapterSt.saveErr, AdapterSt.nextFault, hp, hk, hpd]
  unfold Enforcer.savePolicy
  rw [if_neg (by rw [hf]; exact Bool.false_ne_true), hsave, herr]
  exact ⟨rfl, rfl, rfl⟩

/-- **save, then load, is the identity for the file and the string adapter**: after a `save_policy` that the adapter
accepts, a `load_policy` puts back, under every policy type, exactly the rules that were stored, in stored order -
whatever commas, blanks inside values, '#', '=' or multi-byte characters the values contain -/
theorem save_then_load_text (e : Enforcer) (hk : e.adapter.kind = .file ∨ e.adapter.kind = .string)
    (hp : e.adapter.plan = []) (hf : e.adapter.filtered = false) (hw : Writable e.store) (hc : Canon e.store)
    (hpd : e.store.p.isEmpty = false)
    (hwf : e.store.WF) (sec pt : String) (hex : (e.store.find sec pt).isSome = true) :
    (loadRecords e.savePolicy.1.store.clear e.savePolicy.1.adapter.records).getPolicy sec pt = e.store.getPolicy sec pt := by
  obtain ⟨h1, h2⟩ := save_text_records e hk hp hf hw hpd
  rw [h1, h2]
  have hex' : (e.store.clear.find sec pt).isSome = true := by rw [find_clear]; exact hex
  rw [getPolicy_loadRecords _ e.store.clear sec pt hex', getPolicy_clear', recsFor_allRecords e.store hc sec pt hex]
  rw [foldl_insertMove_nodup _ [] (hwf sec pt) (by simp)]
  simp

/-! ### clear_policy -/

theorem clearGo_adapter (x : Enforcer) (r : Enforcer × Option ErrKind)
    (hr : r = (if ({ x with store := x.store.clear } : Enforcer).autoBuild then ({ x with store := x.store.clear } : Enforcer).buildRoleLinks
      else (({ x with store := x.store.clear } : Enforcer), none))) :
    (match r with
      | (e, r) => match r with
        | some k => (e, Res.err k)
        | none => (e.emit .clearPolicy, Res.unit)).1.adapter = x.adapter := by
  have h : r.1.adapter = x.adapter := by
    subst hr
    split
    · unfold Enforcer.buildRoleLinks; rfl
    · rfl
  obtain ⟨e2, res⟩ := r
  cases res with
  | none => simp only []; rw [(emit_fields _ _).2]; exact h
  | some k => exact h

theorem clearGo_adapter_P (x : Enforcer) (r : Enforcer × Option ErrKind)
    (hr : r = (if ({ x with store := x.store.clear } : Enforcer).autoBuild then ({ x with store := x.store.clear } : Enforcer).buildRoleLinks
      else (({ x with store := x.store.clear } : Enforcer), none))) (P : AdapterSt → Prop) (hP : P x.adapter) :
    P (match r with
      | (e, r) => match r with
        | some k => (e, Res.err k)
        | none => (e.emit .clearPolicy, Res.unit)).1.adapter := by
  rw [clearGo_adapter x r hr]; exact hP

/-- **`clear_policy` with auto-save on empties the store behind the adapter whatever the enforcer holds in memory** - also
when it holds nothing (a second clear, a clear after a filtered load that kept nothing): no stored line or text survives
a clear the adapter accepts, so no later addition is vetoed because of a leftover -/
theorem clear_empties_adapter (e : Enforcer) (hs : e.autoSave = true) (hp : e.adapter.plan = []) :
    e.clearPolicy.1.adapter.kind = e.adapter.kind ∧
    (e.adapter.kind = .memory → e.clearPolicy.1.adapter.lines = []) ∧
    (e.adapter.kind = .file ∨ e.adapter.kind = .string → e.clearPolicy.1.adapter.text = []) := by
  have hclear : (e.adapter.clear).2 = some () ∧ (e.adapter.clear).1.kind = e.adapter.kind ∧
      (e.adapter.kind = .memory → (e.adapter.clear).1.lines = []) ∧
      (e.adapter.kind = .file ∨ e.adapter.kind = .string → (e.adapter.clear).1.text = []) := by
    unfold AdapterSt.clear AdapterSt.nextFault
    rw [hp]
    cases hk : e.adapter.kind <;> simp [hk]
  unfold Enforcer.clearPolicy
  rw [if_pos hs]
  split
  · rename_i a heq
    rw [heq] at hclear
    exact absurd hclear.1 (by simp)
  · rename_i a heq
    rw [heq] at hclear
    obtain ⟨_, h2, h3, h4⟩ := hclear
    exact clearGo_adapter_P ({ e with adapter := a } : Enforcer) _ rfl
      (fun ad => ad.kind = e.adapter.kind ∧ (e.adapter.kind = .memory → ad.lines = []) ∧
        (e.adapter.kind = .file ∨ e.adapter.kind = .string → ad.text = [])) ⟨h2, h3, h4⟩

/-! ### Non-vacuity -/
example : SafeField "a,b".toList := ⟨by decide, by decide, by decide, by decide⟩
example : SafeField "d é".toList := ⟨by decide, by decide, by decide, by decide⟩
example : parseCsvLine (renderLine [','] "p".toList ["alice".toList, "a,b".toList, "read".toList]) =
    some ["p".toList, "alice".toList, "a,b".toList, "read".toList] := by decide +kernel

/-- the premise of `save_establishes_mirror` holds of the usual shape of a model (p, p2 / g, g2) -/
example : Canon ⟨[{ key := "p", tokens := [], arity := 0, policy := [] }, { key := "p2", tokens := [], arity := 0, policy := [] }],
    [{ key := "g", tokens := [], arity := 2, policy := [] }, { key := "g2", tokens := [], arity := 3, policy := [] }]⟩ :=
  ⟨by decide, by decide, by decide, by decide⟩

/-- the premises of `save_then_load_text` hold of a concrete store with a comma inside a value -/
def demoStore : Store := ⟨[{ key := "p", tokens := [], arity := 0, policy := [["alice", "a,b"]] }], []⟩
theorem demo_writable : Writable demoStore := by
  constructor
  · intro d hd
    simp only [demoStore, List.append_nil, List.mem_singleton] at hd
    subst hd
    exact ⟨⟨by decide, by decide, by decide, by decide⟩, by decide, by decide, by decide⟩
  · intro d hd r hr
    simp only [demoStore, List.append_nil, List.mem_singleton] at hd
    subst hd
    simp only [List.mem_singleton] at hr
    subst hr
    refine ⟨by decide, ?_, ?_⟩
    · intro f hf
      simp only [List.mem_cons, List.not_mem_nil, or_false] at hf
      rcases hf with rfl | rfl <;> exact ⟨by decide, by decide, by decide, by decide⟩
    · intro f hf
      simp only [List.mem_cons, List.not_mem_nil, or_false] at hf
      rcases hf with rfl | rfl <;> decide
example : Canon demoStore := ⟨by decide, by decide, by decide, by decide⟩
example : (splitLines "p, alice,\"a,b\"\n".toList).filterMap lineRecord = [("p", "p", ["alice", "a,b"])] := by decide +kernel


/-! ### `save_policy` inside the auto-save history (memory adapter) -/

theorem updDef_keys (ds : List PolDef) (pt : String) (f : PolDef → PolDef) (hf : ∀ d, (f d).key = d.key) :
    (updDef ds pt f).map (·.key) = ds.map (·.key) := by
  induction ds with
  | nil => rfl
  | cons d rest ih =>
    simp only [updDef, List.map_cons] at ih ⊢
    rw [ih]
    by_cases hk : d.key = pt
    · simp only [hk, if_true]; rw [hf d, hk]
    · simp only [hk, if_false]

/-- the names of the definitions, per section -/
def keysOf (s : Store) : List String × List String := (s.p.map (·.key), s.g.map (·.key))

theorem update_keys (s : Store) (sec pt : String) (f : PolDef → PolDef) (hf : ∀ d, (f d).key = d.key) :
    keysOf (s.update sec pt f) = keysOf s := by
  unfold Store.update Store.setSec keysOf
  by_cases h1 : sec = "p"
  · subst h1
    simp only [if_true, Store.sec]
    rw [updDef_keys _ _ _ hf]
  · simp only [h1, if_false]
    by_cases h2 : sec = "g"
    · subst h2
      have : ¬ ("g" : String) = "p" := by decide
      simp only [if_true, Store.sec, this, if_false]
      rw [updDef_keys _ _ _ hf]
    · simp only [h2, if_false]

theorem addPolicy_keys (s : Store) (sec pt : String) (rule : Rule) : keysOf (s.addPolicy sec pt rule).1 = keysOf s := by
  unfold Store.addPolicy
  cases s.find sec pt with
  | none => rfl
  | some d => exact update_keys _ _ _ _ (fun _ => rfl)

theorem removePolicy_keys (s : Store) (sec pt : String) (rule : Rule) : keysOf (s.removePolicy sec pt rule).1 = keysOf s := by
  unfold Store.removePolicy
  cases s.find sec pt with
  | none => rfl
  | some d => exact update_keys _ _ _ _ (fun _ => rfl)

theorem addPolicies_keys (s : Store) (sec pt : String) (rules : List Rule) : keysOf (s.addPolicies sec pt rules).1 = keysOf s := by
  unfold Store.addPolicies
  cases s.find sec pt with
  | none => rfl
  | some d =>
    simp only []
    split
    · rfl
    · exact update_keys _ _ _ _ (fun _ => rfl)

theorem removePolicies_keys (s : Store) (sec pt : String) (rules : List Rule) : keysOf (s.removePolicies sec pt rules).1 = keysOf s := by
  unfold Store.removePolicies
  cases s.find sec pt with
  | none => rfl
  | some d =>
    simp only []
    split
    · rfl
    · exact update_keys _ _ _ _ (fun _ => rfl)

theorem removeFiltered_keys (s : Store) (sec pt : String) (idx : Nat) (vals : List String) :
    keysOf (s.removeFiltered sec pt idx vals).1 = keysOf s := by
  unfold Store.removeFiltered
  split
  · rfl
  · cases s.find sec pt with
    | none => rfl
    | some d =>
      simp only []
      split
      · rfl
      · exact update_keys _ _ _ _ (fun _ => rfl)

/-- `Canon` speaks about the names of the definitions only -/
theorem canon_congr (s s' : Store) (h : keysOf s' = keysOf s) (hc : Canon s) : Canon s' := by
  have hp : s'.p.map (·.key) = s.p.map (·.key) := congrArg Prod.fst h
  have hg : s'.g.map (·.key) = s.g.map (·.key) := congrArg Prod.snd h
  have tag : ∀ (ds ds' : List PolDef) (t : String), ds'.map (·.key) = ds.map (·.key) → (∀ d ∈ ds, tagOf d = t) →
      ∀ d ∈ ds', tagOf d = t := by
    intro ds ds' t hk hall d hd
    have : d.key ∈ ds.map (·.key) := by rw [← hk]; exact List.mem_map.mpr ⟨d, hd, rfl⟩
    obtain ⟨d0, hd0, hkey⟩ := List.mem_map.mp this
    have := hall d0 hd0
    unfold tagOf at this ⊢
    rw [← hkey]; exact this
  exact ⟨tag s.p s'.p "p" hp hc.ptag, tag s.g s'.g "g" hg hc.gtag, by rw [hp]; exact hc.pkeys, by rw [hg]; exact hc.gkeys⟩

/-- what the auto-save history with saves keeps: the mirror over a memory adapter that accepts everything, the adapter
unfiltered, the store in the shape `save_policy` relies on and duplicate-free -/
structure SaveOk (e : Enforcer) : Prop where
  mem : MemOk e
  unfiltered : e.adapter.filtered = false
  canon : Canon e.store
  wf : e.store.WF

theorem store_step_cases (e : Enforcer) (op : SOp) (has : e.autoSave = true) :
    (op.apply e).store = e.store ∨ ∃ mop : C04.MOp, (op.apply e).store = (C04.step e.store mop).1 ∧
      keysOf (C04.step e.store mop).1 = keysOf e.store := by
  cases op with
  | add sec pt rule =>
    have := (addPolicy_fields e sec pt rule has).2
    simp only [SOp.apply]
    split at this
    · exact Or.inr ⟨.add sec pt rule, this, addPolicy_keys _ _ _ _⟩
    · exact Or.inl this
  | remove sec pt rule =>
    have := (removePolicy_fields e sec pt rule has).2
    simp only [SOp.apply]
    split at this
    · exact Or.inr ⟨.remove sec pt rule, this, removePolicy_keys _ _ _ _⟩
    · exact Or.inl this
  | addMany sec pt rules =>
    have := (addPolicies_fields e sec pt rules has).2
    simp only [SOp.apply]
    split at this
    · exact Or.inr ⟨.addMany sec pt rules, this, addPolicies_keys _ _ _ _⟩
    · exact Or.inl this
  | removeMany sec pt rules =>
    have := (removePolicies_fields e sec pt rules has).2
    simp only [SOp.apply]
    split at this
    · exact Or.inr ⟨.removeMany sec pt rules, this, removePolicies_keys _ _ _ _⟩
    · exact Or.inl this
  | removeFiltered sec pt idx vals =>
    have := (removeFiltered_fields e sec pt idx vals has).2
    simp only [SOp.apply]
    split at this
    · exact Or.inr ⟨.removeFiltered sec pt idx vals, this, removeFiltered_keys _ _ _ _ _⟩
    · exact Or.inl this

theorem adapter_step_filtered (e : Enforcer) (op : SOp) (has : e.autoSave = true) (hk : e.adapter.kind = .memory)
    (hp : e.adapter.plan = []) : (op.apply e).adapter.filtered = e.adapter.filtered := by
  cases op with
  | add sec pt rule =>
    simp only [SOp.apply]; rw [(addPolicy_fields e sec pt rule has).1]
    simp only [AdapterSt.addPolicy, AdapterSt.nextFault, hp, hk]
  | remove sec pt rule =>
    simp only [SOp.apply]; rw [(removePolicy_fields e sec pt rule has).1]
    simp only [AdapterSt.removePolicy, AdapterSt.nextFault, hp, hk]
  | addMany sec pt rules =>
    simp only [SOp.apply]; rw [(addPolicies_fields e sec pt rules has).1]
    simp only [AdapterSt.addPolicies, AdapterSt.nextFault, hp, hk]
    split <;> rfl
  | removeMany sec pt rules =>
    simp only [SOp.apply]; rw [(removePolicies_fields e sec pt rules has).1]
    simp only [AdapterSt.removePolicies, AdapterSt.nextFault, hp, hk]
    split <;> rfl
  | removeFiltered sec pt idx vals =>
    simp only [SOp.apply]; rw [(removeFiltered_fields e sec pt idx vals has).1]
    simp only [AdapterSt.removeFiltered, AdapterSt.nextFault, hp, hk]
    split <;> rfl

theorem saveOk_step (e : Enforcer) (h : SaveOk e) (op : SOp) : SaveOk (op.apply e) := by
  obtain ⟨hk, hp, has, hm⟩ := h.mem
  have hmem : MemOk (op.apply e) := mirror_history e h.mem [op]
  refine ⟨hmem, ?_, ?_, ?_⟩
  · rw [adapter_step_filtered e op has hk hp]; exact h.unfiltered
  · rcases store_step_cases e op has with h1 | ⟨mop, h1, h2⟩
    · rw [h1]; exact h.canon
    · rw [h1]; exact canon_congr _ _ h2 h.canon
  · rcases store_step_cases e op has with h1 | ⟨mop, h1, _⟩
    · rw [h1]; exact h.wf
    · rw [h1]; exact C04.step_wf e.store h.wf mop

/-- `save_policy` keeps the invariant (and re-establishes the mirror from the store) -/
theorem saveOk_save (e : Enforcer) (h : SaveOk e) : SaveOk e.savePolicy.1 := by
  obtain ⟨hk, hp, has, _⟩ := h.mem
  have hsave : e.adapter.save e.store =
      ({ e.adapter with lines := ((e.store.p ++ e.store.g).flatMap (fun d =>
          d.policy.map (fun r => (String.ofList (d.key.toList.take 1)) :: d.key :: r))).foldl insertMove [] }, some ()) := by
    simp only [AdapterSt.save, AdapterSt.nextFault, hp, hk, adapter_plan_nil e.adapter hp]
  have hfields : e.savePolicy.1.store = e.store ∧ e.savePolicy.1.autoSave = e.autoSave ∧
      e.savePolicy.1.adapter.kind = e.adapter.kind ∧ e.savePolicy.1.adapter.plan = e.adapter.plan ∧
      e.savePolicy.1.adapter.filtered = e.adapter.filtered := by
    unfold Enforcer.savePolicy
    simp only [h.unfiltered, Bool.false_eq_true, if_false, hsave]
    rw [(emit_fields _ _).1, (emit_fields _ _).2, emit_autoSave]
    exact ⟨rfl, rfl, rfl, rfl, rfl⟩
  obtain ⟨f1, f2, f3, f4, f5⟩ := hfields
  refine ⟨⟨by rw [f3]; exact hk, by rw [f4]; exact hp, by rw [f2]; exact has,
    save_establishes_mirror e hk hp h.unfiltered h.canon h.wf⟩, by rw [f5]; exact h.unfiltered,
    by rw [f1]; exact h.canon, by rw [f1]; exact h.wf⟩

/-- management calls and `save_policy` -/
inductive FOp where
  | mgmt (op : SOp)
  | save

def FOp.apply (e : Enforcer) : FOp → Enforcer
  | .mgmt op => op.apply e
  | .save => e.savePolicy.1

/-- **the mirror over every history of management calls and saves** (memory adapter, auto-save on): after any
interleaving of the five management calls — accepted, vetoed, on unknown policy types — and `save_policy`, the
adapter holds, per policy type, exactly the stored rules in stored order -/
theorem mirror_history_with_save (e : Enforcer) (h : SaveOk e) (ops : List FOp) : SaveOk (ops.foldl FOp.apply e) := by
  induction ops generalizing e with
  | nil => exact h
  | cons op ops ih =>
    cases op with
    | mgmt o => exact ih _ (saveOk_step e h o)
    | save => exact ih _ (saveOk_save e h)

/-- … so a `load_policy` at any point of such a history reads back, under every policy type, the rules in memory -/
theorem reload_after_history_with_save (e : Enforcer) (h : SaveOk e) (ops : List FOp) (sec pt : String)
    (hex : ((ops.foldl FOp.apply e).store.find sec pt).isSome = true) :
    (loadRecords (ops.foldl FOp.apply e).store.clear (ops.foldl FOp.apply e).adapter.records).getPolicy sec pt =
      (ops.foldl FOp.apply e).store.getPolicy sec pt := by
  have h' := mirror_history_with_save e h ops
  exact reload_is_identity _ h'.mem.1 h'.mem.2.2.2 h'.wf sec pt hex

/-- non-vacuity: an empty enforcer over an empty memory adapter, auto-save on -/
def demoMem : Enforcer :=
  { defs := ⟨[], [], []⟩, store := ⟨[{ key := "p", tokens := [], arity := 0, policy := [] }], [{ key := "g", tokens := [], arity := 2, policy := [] }]⟩,
    adapter := AdapterSt.mk0 .memory, rm := RoleMgr.new 10, enabled := true, autoSave := true, autoBuild := true,
    autoNotify := true, callbacks := 1, hasWatcher := false, gfuncs := [("g", 2)], userFns := [], log := [] }

theorem demoMem_ok : SaveOk demoMem := by
  refine ⟨⟨rfl, rfl, rfl, ?_⟩, rfl, ⟨by decide, by decide, by decide, by decide⟩, ?_⟩
  · intro sec pt hex
    have hs : (sec = "p" ∧ pt = "p") ∨ (sec = "g" ∧ pt = "g") := by
      simp only [demoMem, Store.find, Store.sec] at hex
      by_cases h1 : sec = "p"
      · left; refine ⟨h1, ?_⟩
        simp only [h1, if_true, List.find?_cons] at hex
        by_cases h2 : ("p" : String) = pt
        · exact h2.symm
        · simp [h2] at hex
      · by_cases h2 : sec = "g"
        · right; refine ⟨h2, ?_⟩
          simp only [h2, show ¬ ("g" : String) = "p" by decide, if_false, if_true, List.find?_cons] at hex
          by_cases h3 : ("g" : String) = pt
          · exact h3.symm
          · simp [h3] at hex
        · simp [h1, h2] at hex
    rcases hs with ⟨rfl, rfl⟩ | ⟨rfl, rfl⟩ <;> decide
  · intro sec pt
    unfold Store.getPolicy Store.find
    cases hf : (demoMem.store.sec sec).find? (·.key = pt) with
    | none => simp
    | some d =>
      have hm := List.mem_of_find?_eq_some hf
      have hd : d.policy = [] := by
        unfold Store.sec at hm
        split at hm
        · simp only [demoMem, List.mem_singleton] at hm; rw [hm]
        · split at hm
          · simp only [demoMem, List.mem_singleton] at hm; rw [hm]
          · cases hm
      simp [hd]

example : (([FOp.mgmt (.add "p" "p" ["alice", "data1"]), .save, .mgmt (.add "g" "g" ["alice", "admin"]), .mgmt (.remove "p" "p" ["alice", "data1"]), .save].foldl
    FOp.apply demoMem).store.getPolicy "g" "g") = [["alice", "admin"]] := by decide

end Casbin.C09
