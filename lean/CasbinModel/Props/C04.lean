import CasbinModel.Lemmas.Store
/-!
# C04 — The policy store behaves as an insertion-ordered set

The observable of a store is `getPolicy sec pt` (every read API is defined from it:
`reads_are_views`).  For each management operation the theorems give the new contents
of the targeted rule list *in order*, the returned flag, and that nothing else moves.
-/
namespace Casbin.C04
open Casbin

/-- management operations at store level -/
inductive MOp where
  | add (sec pt : String) (r : Rule)
  | addMany (sec pt : String) (rs : List Rule)
  | remove (sec pt : String) (r : Rule)
  | removeMany (sec pt : String) (rs : List Rule)
  | removeFiltered (sec pt : String) (idx : Nat) (vals : List String)
  | clear

def step (s : Store) : MOp → Store × Bool
  | .add sec pt r => s.addPolicy sec pt r
  | .addMany sec pt rs => s.addPolicies sec pt rs
  | .remove sec pt r => s.removePolicy sec pt r
  | .removeMany sec pt rs => s.removePolicies sec pt rs
  | .removeFiltered sec pt idx vals => let r := s.removeFiltered sec pt idx vals; (r.1, r.2.1)
  | .clear => (s.clear, true)

def run (s : Store) (h : List MOp) : Store := h.foldl (fun s op => (step s op).1) s

/-! ### add: appends iff new -/

theorem add_target (s : Store) (sec pt : String) (r : Rule) (d : PolDef) (h : s.find sec pt = some d) :
    (s.addPolicy sec pt r).1.getPolicy sec pt = (if r ∈ d.policy then d.policy else d.policy ++ [r]) ∧
    (s.addPolicy sec pt r).2 = decide (r ∉ d.policy) := by
  unfold Store.addPolicy
  simp only [h]
  rw [Store.getPolicy_update s sec pt sec pt (fun pol => (OrdSet.add pol r).1)]
  simp only [and_self, if_true, h, OrdSet.add]
  by_cases hr : r ∈ d.policy <;> simp [hr]

theorem add_unknown_type (s : Store) (sec pt : String) (r : Rule) (h : s.find sec pt = none) :
    s.addPolicy sec pt r = (s, false) := by
  unfold Store.addPolicy; simp [h]

theorem add_other (s : Store) (sec pt sec' pt' : String) (r : Rule) (hne : ¬ (sec = sec' ∧ pt = pt')) :
    (s.addPolicy sec pt r).1.getPolicy sec' pt' = s.getPolicy sec' pt' := by
  unfold Store.addPolicy
  cases h : s.find sec pt with
  | none => rfl
  | some d =>
    simp only
    rw [Store.getPolicy_update s sec pt sec' pt' (fun pol => (OrdSet.add pol r).1)]
    simp [hne]

/-! ### batch add: all-or-nothing; new rules appended in order, old ones keep their place -/

theorem addMany_rejected (s : Store) (sec pt : String) (rs : List Rule) (d : PolDef)
    (h : s.find sec pt = some d) (hdup : ∃ r ∈ rs, r ∈ d.policy) :
    s.addPolicies sec pt rs = (s, false) := by
  unfold Store.addPolicies
  simp only [h]
  have : rs.any (fun r => decide (r ∈ d.policy)) = true := by
    simp only [List.any_eq_true, decide_eq_true_eq]; exact hdup
  rw [if_pos this]

theorem addMany_accepted (s : Store) (sec pt : String) (rs : List Rule) (d : PolDef)
    (h : s.find sec pt = some d) (hnew : ∀ r ∈ rs, r ∉ d.policy) :
    (s.addPolicies sec pt rs).2 = true ∧
    d.policy <+: (s.addPolicies sec pt rs).1.getPolicy sec pt ∧
    (∀ x, x ∈ (s.addPolicies sec pt rs).1.getPolicy sec pt ↔ x ∈ d.policy ∨ x ∈ rs) ∧
    (d.policy.Nodup → ((s.addPolicies sec pt rs).1.getPolicy sec pt).Nodup) := by
  unfold Store.addPolicies
  simp only [h]
  have : rs.any (fun r => decide (r ∈ d.policy)) = false := by
    simp only [List.any_eq_false, decide_eq_true_eq]; exact hnew
  simp only [this, Bool.false_eq_true, if_false]
  rw [Store.getPolicy_update s sec pt sec pt (fun pol => OrdSet.addAll pol rs)]
  simp only [and_self, if_true, h, true_and]
  exact ⟨OrdSet.addAll_prefix _ _, OrdSet.addAll_mem _ _, fun hn => OrdSet.addAll_nodup hn _⟩

theorem addMany_unknown_type (s : Store) (sec pt : String) (rs : List Rule) (h : s.find sec pt = none) :
    s.addPolicies sec pt rs = (s, false) := by
  unfold Store.addPolicies; simp [h]

/-! ### remove -/

theorem remove_target (s : Store) (sec pt : String) (r : Rule) (d : PolDef) (h : s.find sec pt = some d) :
    ((s.removePolicy sec pt r).1.getPolicy sec pt).Sublist d.policy ∧
    (d.policy.Nodup → ∀ x, x ∈ (s.removePolicy sec pt r).1.getPolicy sec pt ↔ x ∈ d.policy ∧ x ≠ r) ∧
    ((s.removePolicy sec pt r).2 = true ↔ r ∈ d.policy) := by
  unfold Store.removePolicy
  simp only [h]
  rw [Store.getPolicy_update s sec pt sec pt (fun pol => (OrdSet.remove pol r).1)]
  simp only [and_self, if_true, h]
  exact ⟨OrdSet.remove_sublist _ _, fun hn x => OrdSet.remove_mem hn r x, OrdSet.remove_flag _ _⟩

theorem removeMany_rejected (s : Store) (sec pt : String) (rs : List Rule) (d : PolDef)
    (h : s.find sec pt = some d) (habs : ∃ r ∈ rs, r ∉ d.policy) :
    s.removePolicies sec pt rs = (s, false) := by
  unfold Store.removePolicies
  simp only [h]
  have : rs.any (fun r => decide (r ∉ d.policy)) = true := by
    simp only [List.any_eq_true, decide_eq_true_eq]; exact habs
  rw [if_pos this]

theorem removeMany_accepted (s : Store) (sec pt : String) (rs : List Rule) (d : PolDef)
    (h : s.find sec pt = some d) (hn : d.policy.Nodup) (hall : ∀ r ∈ rs, r ∈ d.policy) :
    (s.removePolicies sec pt rs).2 = true ∧
    ((s.removePolicies sec pt rs).1.getPolicy sec pt).Sublist d.policy ∧
    (∀ x, x ∈ (s.removePolicies sec pt rs).1.getPolicy sec pt ↔ x ∈ d.policy ∧ x ∉ rs) := by
  unfold Store.removePolicies
  simp only [h]
  have : rs.any (fun r => decide (r ∉ d.policy)) = false := by
    simp only [List.any_eq_false, decide_eq_true_eq, Classical.not_not]; exact hall
  simp only [this, Bool.false_eq_true, if_false]
  rw [Store.getPolicy_update s sec pt sec pt (fun pol => OrdSet.removeAll pol rs)]
  simp only [and_self, if_true, h, true_and]
  exact ⟨OrdSet.removeAll_sublist _ _, OrdSet.removeAll_mem hn _⟩

/-! ### filtered removal: exactly the rules whose fields equal the non-empty filter values -/

/-- the filter test, spelled out -/
theorem filterMatch_iff (idx : Nat) (vals : List String) (rule : Rule) :
    filterMatch idx vals rule = true ↔
      ∀ i v, vals[i]? = some v → v ≠ "" → rule[idx + i]? = some v := by
  unfold filterMatch
  simp only [List.all_eq_true, Bool.or_eq_true, decide_eq_true_eq]
  constructor
  · intro h i v hv hne
    have hm : (v, i) ∈ vals.zipIdx := by
      rw [List.mem_zipIdx_iff_getElem?]; simpa using hv
    rcases h (v, i) hm with h1 | h1
    · exact absurd h1 hne
    · exact h1
  · intro h p hp
    obtain ⟨v, i⟩ := p
    rw [List.mem_zipIdx_iff_getElem?] at hp
    by_cases hv : v = ""
    · exact Or.inl hv
    · exact Or.inr (h i v (by simpa using hp) hv)

theorem removeFiltered_target (s : Store) (sec pt : String) (idx : Nat) (vals : List String) (d : PolDef)
    (h : s.find sec pt = some d) (hv : vals ≠ []) :
    let res := s.removeFiltered sec pt idx vals
    res.1.getPolicy sec pt = d.policy.filter (fun r => !filterMatch idx vals r) ∧
    res.2.2 = d.policy.filter (filterMatch idx vals) ∧
    res.2.1 = !(d.policy.filter (filterMatch idx vals)).isEmpty := by
  have hve : vals.isEmpty = false := by cases vals <;> simp_all
  simp only [Store.removeFiltered, hve, Bool.false_eq_true, if_false, h]
  by_cases hemp : (d.policy.filter (filterMatch idx vals)).isEmpty = true
  · simp only [hemp, if_true, Bool.not_true]
    have hnil : d.policy.filter (filterMatch idx vals) = [] := List.isEmpty_iff.mp hemp
    refine ⟨?_, hnil.symm, trivial⟩
    have : s.getPolicy sec pt = d.policy := by simp [Store.getPolicy, h]
    rw [this]
    rw [List.filter_eq_nil_iff] at hnil
    symm
    rw [List.filter_eq_self]
    intro a ha; simpa using hnil a ha
  · simp only [hemp, Bool.false_eq_true, if_false]
    rw [Store.getPolicy_update s sec pt sec pt (fun pol => pol.filter (fun r => !filterMatch idx vals r))]
    simp [h, hemp]

theorem removeFiltered_empty_filter (s : Store) (sec pt : String) (idx : Nat) :
    s.removeFiltered sec pt idx [] = (s, false, []) := by
  simp [Store.removeFiltered]

/-! ### a call that reports no change leaves every rule list (contents *and* order) untouched -/

theorem no_change_no_effect (s : Store) (op : MOp) (sec' pt' : String) (hop : op ≠ .clear)
    (h : (step s op).2 = false) : (step s op).1.getPolicy sec' pt' = s.getPolicy sec' pt' := by
  cases op with
  | add sec pt r =>
    simp only [step] at h ⊢
    cases hf : s.find sec pt with
    | none => rw [add_unknown_type s sec pt r hf]
    | some d =>
      by_cases hne : sec = sec' ∧ pt = pt'
      · obtain ⟨h1, h2⟩ := hne; subst h1 h2
        obtain ⟨ht, hflag⟩ := add_target s sec pt r d hf
        rw [hflag] at h
        have hr : r ∈ d.policy := by simpa using h
        rw [ht]; simp [hr, Store.getPolicy, hf]
      · exact add_other s sec pt sec' pt' r hne
  | addMany sec pt rs =>
    simp only [step] at h ⊢
    cases hf : s.find sec pt with
    | none => rw [addMany_unknown_type s sec pt rs hf]
    | some d =>
      by_cases hdup : ∃ r ∈ rs, r ∈ d.policy
      · rw [addMany_rejected s sec pt rs d hf hdup]
      · have hnew : ∀ r ∈ rs, r ∉ d.policy := fun r hr hm => hdup ⟨r, hr, hm⟩
        have := (addMany_accepted s sec pt rs d hf hnew).1
        rw [this] at h; cases h
  | remove sec pt r =>
    simp only [step] at h ⊢
    cases hf : s.find sec pt with
    | none => unfold Store.removePolicy; simp [hf]
    | some d =>
      obtain ⟨_, _, hflag⟩ := remove_target s sec pt r d hf
      have hr : r ∉ d.policy := fun hm => by rw [hflag.mpr hm] at h; cases h
      unfold Store.removePolicy
      simp only [hf]
      rw [Store.getPolicy_update s sec pt sec' pt' (fun pol => (OrdSet.remove pol r).1)]
      by_cases hne : sec = sec' ∧ pt = pt'
      · obtain ⟨h1, h2⟩ := hne; subst h1 h2
        simp only [and_self, if_true, hf, OrdSet.remove_absent hr, Store.getPolicy]
      · simp [hne]
  | removeMany sec pt rs =>
    simp only [step] at h ⊢
    cases hf : s.find sec pt with
    | none => unfold Store.removePolicies; simp [hf]
    | some d =>
      by_cases habs : ∃ r ∈ rs, r ∉ d.policy
      · rw [removeMany_rejected s sec pt rs d hf habs]
      · have hall : ∀ r ∈ rs, r ∈ d.policy := fun r hr => Classical.byContradiction (fun hm => habs ⟨r, hr, hm⟩)
        unfold Store.removePolicies at h
        simp only [hf] at h
        have hany : rs.any (fun r => decide (r ∉ d.policy)) = false := by
          simp only [List.any_eq_false, decide_eq_true_eq, Classical.not_not]; exact hall
        rw [if_neg (by rw [hany]; exact Bool.false_ne_true)] at h
        cases h
  | removeFiltered sec pt idx vals =>
    simp only [step] at h ⊢
    unfold Store.removeFiltered at h ⊢
    split at h
    · rename_i hc; simp [hc]
    · rename_i hc
      simp only [hc, Bool.false_eq_true, if_false]
      cases hf : s.find sec pt with
      | none => rfl
      | some d =>
        simp only [hf] at h ⊢
        split at h
        · rename_i hc2; simp [hc2]
        · simp at h
  | clear => exact absurd rfl hop

/-! ### the set invariant holds after every history -/

theorem getPolicy_clear (s : Store) (sec pt : String) : s.clear.getPolicy sec pt = [] := by
  unfold Store.getPolicy Store.find Store.sec Store.clear
  by_cases h1 : sec = "p"
  · simp only [h1, if_true, List.find?_map]
    cases (s.p.find? _) <;> simp
  · simp only [h1, if_false]
    by_cases h2 : sec = "g"
    · simp only [h2, if_true, List.find?_map]
      cases (s.g.find? _) <;> simp
    · simp [h2]

theorem step_wf (s : Store) (hw : s.WF) (op : MOp) : (step s op).1.WF := by
  intro sec' pt'
  cases op with
  | add sec pt r =>
    simp only [step]
    by_cases hne : sec = sec' ∧ pt = pt'
    · obtain ⟨h1, h2⟩ := hne; subst h1 h2
      cases hf : s.find sec pt with
      | none => rw [add_unknown_type s sec pt r hf]; exact hw sec pt
      | some d =>
        have hd : d.policy.Nodup := by have := hw sec pt; simpa [Store.getPolicy, hf] using this
        rw [(add_target s sec pt r d hf).1]
        split
        · exact hd
        · rename_i hr
          simp only [List.nodup_append]
          exact ⟨hd, by simp, by intro a ha b hb; simp at hb; subst hb; exact fun e => hr (e ▸ ha)⟩
    · rw [add_other s sec pt sec' pt' r hne]; exact hw sec' pt'
  | addMany sec pt rs =>
    simp only [step]
    unfold Store.addPolicies
    cases hf : s.find sec pt with
    | none => exact hw sec' pt'
    | some d =>
      simp only
      split
      · exact hw sec' pt'
      · rw [Store.getPolicy_update s sec pt sec' pt' (fun pol => OrdSet.addAll pol rs)]
        split
        · rename_i hne; obtain ⟨h1, h2⟩ := hne; subst h1 h2
          have hd : d.policy.Nodup := by have := hw sec pt; simpa [Store.getPolicy, hf] using this
          simp only [hf]; exact OrdSet.addAll_nodup hd _
        · exact hw sec' pt'
  | remove sec pt r =>
    simp only [step]
    unfold Store.removePolicy
    cases hf : s.find sec pt with
    | none => exact hw sec' pt'
    | some d =>
      simp only
      rw [Store.getPolicy_update s sec pt sec' pt' (fun pol => (OrdSet.remove pol r).1)]
      split
      · rename_i hne; obtain ⟨h1, h2⟩ := hne; subst h1 h2
        have hd : d.policy.Nodup := by have := hw sec pt; simpa [Store.getPolicy, hf] using this
        simp only [hf]; exact OrdSet.remove_nodup hd _
      · exact hw sec' pt'
  | removeMany sec pt rs =>
    simp only [step]
    unfold Store.removePolicies
    cases hf : s.find sec pt with
    | none => exact hw sec' pt'
    | some d =>
      simp only
      split
      · exact hw sec' pt'
      · rw [Store.getPolicy_update s sec pt sec' pt' (fun pol => OrdSet.removeAll pol rs)]
        split
        · rename_i hne; obtain ⟨h1, h2⟩ := hne; subst h1 h2
          have hd : d.policy.Nodup := by have := hw sec pt; simpa [Store.getPolicy, hf] using this
          simp only [hf]; exact OrdSet.removeAll_nodup hd _
        · exact hw sec' pt'
  | removeFiltered sec pt idx vals =>
    simp only [step]
    unfold Store.removeFiltered
    split
    · exact hw sec' pt'
    · cases hf : s.find sec pt with
      | none => exact hw sec' pt'
      | some d =>
        simp only
        split
        · exact hw sec' pt'
        · rw [Store.getPolicy_update s sec pt sec' pt' (fun pol => pol.filter (fun r => !filterMatch idx vals r))]
          split
          · rename_i hne; obtain ⟨h1, h2⟩ := hne; subst h1 h2
            have hd : d.policy.Nodup := by have := hw sec pt; simpa [Store.getPolicy, hf] using this
            simp only [hf]; exact hd.filter _
          · exact hw sec' pt'
  | clear =>
    simp only [step]
    rw [getPolicy_clear]; simp

/-- **Invariant over every management history**: each rule list stays duplicate free. -/
theorem wf_run (s : Store) (hw : s.WF) (h : List MOp) : (run s h).WF := by
  induction h generalizing s with
  | nil => exact hw
  | cons op ops ih => exact ih _ (step_wf s hw op)

/-- Every read API is a function of the rule list (`getPolicy`). -/
theorem reads_are_views (s : Store) (sec pt : String) (idx : Nat) (vals : List String) (r : Rule) :
    s.getFiltered sec pt idx vals = (s.getPolicy sec pt).filter (filterMatch idx vals) ∧
    s.hasPolicy sec pt r = decide (r ∈ s.getPolicy sec pt) ∧
    (∀ vs, s.valuesForField sec pt idx = some vs → ∀ x, x ∈ vs ↔ ∃ rule ∈ s.getPolicy sec pt, rule[idx]? = some x) := by
  refine ⟨rfl, rfl, ?_⟩
  intro vs hvs x
  unfold Store.valuesForField at hvs
  simp only at hvs
  split at hvs
  · rename_i hall
    cases hvs
    have hmem : ∀ (l : List String) (y : String), y ∈ lastOccurrenceOrder l ↔ y ∈ l := by
      intro l; induction l with
      | nil => simp [lastOccurrenceOrder]
      | cons a as ih =>
        intro y; unfold lastOccurrenceOrder
        split
        · rename_i ha; rw [ih]; constructor
          · exact List.mem_cons_of_mem _
          · intro hy; rcases List.mem_cons.mp hy with h1 | h1
            · subst h1; exact ha
            · exact h1
        · simp [ih]
    rw [hmem]
    simp only [List.mem_map, List.all_eq_true, decide_eq_true_eq] at hall ⊢
    constructor
    · rintro ⟨rule, hr, he⟩
      refine ⟨rule, hr, ?_⟩
      have := hall rule hr
      rw [← he]; simp [List.getD, this]
    · rintro ⟨rule, hr, he⟩
      refine ⟨rule, hr, ?_⟩
      have := hall rule hr
      simp [List.getD, he]
  · cases hvs

/-! ### Non-vacuity and the regression witness for the repaired re-add defect (F1) -/

def demo : Store :=
  { p := [{ key := "p", tokens := ["p_sub", "p_eft"], arity := 0, policy := [["alice", "allow"], ["alice", "deny"]] }],
    g := [] }

/-- re-adding a stored rule reports `false` and keeps the order -/
example : (demo.addPolicy "p" "p" ["alice", "allow"]).2 = false ∧
    (demo.addPolicy "p" "p" ["alice", "allow"]).1.getPolicy "p" "p" = [["alice", "allow"], ["alice", "deny"]] := by
  decide
example : (demo.getPolicy "p" "p").Nodup := by decide


/-! ### the order inside an accepted batch -/

/-- the rules of a batch in the order of their first occurrence, those already seen left out -/
def firstOcc {α : Type} [DecidableEq α] : List α → List α → List α
  | _, [] => []
  | seen, v :: vs => if v ∈ seen then firstOcc seen vs else v :: firstOcc (v :: seen) vs

theorem firstOcc_congr {α : Type} [DecidableEq α] (vs : List α) (a b : List α) (h : ∀ x, x ∈ a ↔ x ∈ b) :
    firstOcc a vs = firstOcc b vs := by
  induction vs generalizing a b with
  | nil => rfl
  | cons v vs ih =>
    simp only [firstOcc]
    by_cases hv : v ∈ a
    · have hv' : v ∈ b := (h v).mp hv
      simp only [hv, hv', if_true]
      exact ih a b h
    · have hv' : v ∉ b := fun hb => hv ((h v).mpr hb)
      simp only [hv, hv', if_false]
      congr 1
      exact ih _ _ (fun x => by simp only [List.mem_cons]; rw [h x])

/-- **the order a batch is stored in**: the old rules, then the new ones in the order of their first occurrence in
the batch — a rule named twice keeps the place of its first mention (`replace`, not `insert`) -/
theorem addAll_order {α : Type} [DecidableEq α] (s rs : List α) : OrdSet.addAll s rs = s ++ firstOcc s rs := by
  induction rs generalizing s with
  | nil => simp [OrdSet.addAll, firstOcc]
  | cons v vs ih =>
    simp only [OrdSet.addAll, OrdSet.add, firstOcc]
    by_cases hv : v ∈ s
    · simp only [hv, if_true]; exact ih s
    · simp only [hv, if_false]
      rw [ih (s ++ [v]), firstOcc_congr vs (s ++ [v]) (v :: s) (by intro x; simp [or_comm])]
      simp

/-- an accepted batch appends its rules in first-occurrence order -/
theorem addMany_order (s : Store) (sec pt : String) (rs : List Rule) (d : PolDef)
    (h : s.find sec pt = some d) (hnew : ∀ r ∈ rs, r ∉ d.policy) :
    (s.addPolicies sec pt rs).1.getPolicy sec pt = d.policy ++ firstOcc d.policy rs := by
  unfold Store.addPolicies
  simp only [h]
  have : rs.any (fun r => decide (r ∈ d.policy)) = false := by
    simp only [List.any_eq_false, decide_eq_true_eq]; exact hnew
  simp only [this, Bool.false_eq_true, if_false]
  rw [Store.getPolicy_update s sec pt sec pt (fun pol => OrdSet.addAll pol rs)]
  simp only [and_self, if_true, h]
  exact addAll_order _ _

example : firstOcc ([] : List Nat) [1, 2, 1, 3, 2] = [1, 2, 3] := by decide

end Casbin.C04
