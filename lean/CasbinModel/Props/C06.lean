import CasbinModel.Props.C01
import CasbinModel.KeyMatch
/-!
# C06 — Enforcement is total and fails closed   (*partial*: rhai/regex engines themselves)

In the model every partial operation of the Rust code is an explicit `panic` value
(`Out.panic`) or an explicit `none`; totality of the Lean definitions is the "never
hangs" half for the modelled logic (structural recursion / fuel; C03 for the BFS).
Here: `enforce` never produces `panic` once the effect expression is supported; a
wrong arity, a malformed stored rule that is reached, or a failing matcher that is
reached give an **error**, never a grant.  The byte-offset slicing of `key_match` /
`key_get` is modelled on UTF-8 bytes and is total.
-/
namespace Casbin.C06
open Casbin

theorem refScan_ne_panic (ex : EffExpr) (acc : List Eff) (outs : List (Except ErrKind Eff)) :
    refScan ex acc outs ≠ .panic := by
  induction outs generalizing acc with
  | nil => simp [refScan]
  | cons o rest ih =>
    cases o with
    | error k => simp [refScan]
    | ok e =>
      simp only [refScan]
      split
      · simp
      · exact ih _

/-- **`enforce` never panics** for a supported effect expression — whatever the request
(any arity, any values), policy (well- or malformed rules) and matcher behaviour. -/
theorem enforce_never_panics (c : EvalCfg) (reqLen : Nat) (m : MatchFn) (ex : EffExpr)
    (he : c.effExpr = some ex) : enforceCore c reqLen m ≠ .panic := by
  by_cases h1 : c.enabled = true
  · by_cases h2 : c.sectionsOk = true
    · by_cases h3 : c.rtokens = reqLen
      · by_cases h5 : c.compiles = true
        · have hr : C01.Ready c reqLen ex := ⟨h1, h2, h3, he, h5⟩
          by_cases hne : c.policy = []
          · rw [C01.enforce_empty c reqLen m ex hr hne]
            cases m (c.ptokens.map (fun _ => "")) <;> simp
          · rw [C01.enforce_eq_reference c reqLen m ex hr hne]
            exact refScan_ne_panic _ _ _
        · unfold enforceCore
          have hpos : ∃ s0, Stream.new ex (max c.policy.length 1) = some s0 := by
            unfold Stream.new
            have : ¬ max c.policy.length 1 = 0 := by omega
            simp [this]
          obtain ⟨s0, hs0⟩ := hpos
          simp [h1, h2, h3, he, hs0, h5]
      · rw [C01.wrong_arity_is_error c reqLen m h1 h2 h3]; simp
    · unfold enforceCore; simp [h1, h2]
  · have : c.enabled = false := by cases h : c.enabled <;> simp_all
    rw [C01.disabled_grants c reqLen m this]; simp

/-- A request with the wrong number of values is an error (never a grant). -/
theorem wrong_arity_never_grants (c : EvalCfg) (n : Nat) (m : MatchFn) (h1 : c.enabled = true)
    (h2 : c.sectionsOk = true) (h : c.rtokens ≠ n) : enforceCore c n m = .err .request :=
  C01.wrong_arity_is_error c n m h1 h2 h

/-- the scan returns the error of the first failing rule that is reached before the
result is decided -/
theorem refScan_reaches_error (ex : EffExpr) (effs : List Eff) (k : ErrKind)
    (rest : List (Except ErrKind Eff)) :
    ∀ acc, (∀ pre, pre <+: effs → pre ≠ [] → decided ex (acc ++ pre) = false) →
      refScan ex acc (effs.map Except.ok ++ .error k :: rest) = .err k := by
  induction effs with
  | nil => intro acc _; simp [refScan]
  | cons e es ih =>
    intro acc h
    simp only [List.map_cons, List.cons_append, refScan]
    have h1 : decided ex (acc ++ [e]) = false := h [e] (by simp) (by simp)
    simp only [h1, Bool.false_eq_true, if_false]
    apply ih
    intro pre hp hne
    have := h (e :: pre) (by simpa using hp) (by simp)
    simpa [List.append_assoc] using this

/-- **Fails closed**: if evaluation reaches a stored rule that is malformed or on which
the matcher fails — i.e. no earlier prefix of effects already decided the result —
`enforce` returns that error, never a grant. -/
theorem reached_failure_is_error (c : EvalCfg) (reqLen : Nat) (m : MatchFn) (ex : EffExpr)
    (hr : C01.Ready c reqLen ex) (good : List Rule) (bad : Rule) (rest : List Rule) (k : ErrKind)
    (effs : List Eff) (hpol : c.policy = good ++ bad :: rest)
    (hgood : good.map (ruleOutcome c.ptokens.length (c.ptokens.idxOf? c.eftToken) m) = effs.map Except.ok)
    (hbad : ruleOutcome c.ptokens.length (c.ptokens.idxOf? c.eftToken) m bad = .error k)
    (hund : ∀ pre, pre <+: effs → pre ≠ [] → decided ex pre = false) :
    enforceCore c reqLen m = .err k := by
  have hne : c.policy ≠ [] := by rw [hpol]; simp
  rw [C01.enforce_eq_reference c reqLen m ex hr hne, hpol]
  simp only [List.map_append, List.map_cons, hgood, hbad]
  exact refScan_reaches_error ex effs k _ [] (by simpa using hund)

/-- the two ways a rule fails -/
theorem malformed_rule_outcome (ntok : Nat) (eftIdx : Option Nat) (m : MatchFn) (rule : Rule)
    (h : rule.length ≠ ntok) : ruleOutcome ntok eftIdx m rule = .error .policy := by
  simp [ruleOutcome, h]

theorem failing_matcher_outcome (ntok : Nat) (eftIdx : Option Nat) (m : MatchFn) (rule : Rule)
    (h : rule.length = ntok) (hm : m rule = none) : ruleOutcome ntok eftIdx m rule = .error .eval := by
  simp [ruleOutcome, h, hm]

/-- an error is not a grant -/
theorem error_is_not_grant (k : ErrKind) : (Out.err k : Out ErrKind Bool) ≠ .ok true := by simp

/-- the evaluator rejects what rhai rejects: a non-boolean matcher result is an error -/
theorem nonbool_matcher_is_error (env : Env) (e : Expr) (v : Val) (h : e.eval env 8 = some v)
    (hv : ∀ b, v ≠ .atom (.bool b)) : e.evalBool env = none := by
  unfold Expr.evalBool; rw [h]
  cases v with
  | map fs => rfl
  | atom a => cases a <;> first | rfl | (exfalso; exact hv _ rfl)

/-- `key_match` / `key_get` after the byte-comparison fix are total functions of any two
strings (no slicing at a foreign byte offset): the model computes on UTF-8 bytes. -/
theorem keyMatch_total (k p : Str) : keyMatch k p = true ∨ keyMatch k p = false := by
  cases keyMatch k p <;> simp

/-! ### Non-vacuity -/
example : keyMatch "éx".toList "a*".toList = false := by decide +kernel
example : keyGet "éx".toList "a*".toList = [] := by decide +kernel
example : keyMatch "/é/x".toList "/é/*".toList = true := by decide +kernel
example : enforceCore C01.demoCfg 3 (C01.demoMatch "alice" "d1") = .err .request := by decide
/-- premise of `reached_failure_is_error` met: the first stored rule is malformed -/
example : enforceCore { C01.demoCfg with policy := [["alice"], ["alice", "d1", "allow"]] } 2
    (C01.demoMatch "alice" "d1") = .err .policy := by decide

end Casbin.C06
