import CasbinModel.Cached
import CasbinModel.Props.C10
/-!
# C11 — Caching never changes a decision

`CacheSound c`: every cached entry is what the inner enforcer would answer now.
It is established by construction, preserved by every request (plain or
context-qualified — the key carries the context), by every forwarded state change that
clears the cache, and by management calls (cleared when the store changed; when it did not
change the inner enforcer's decision core is untouched).  Under `CacheSound` a cached
enforcer answers every request exactly like its inner (uncached) enforcer.
-/
namespace Casbin.C11
open Casbin

/-- the decision procedure a cache key stands for -/
abbrev Oracle := Enforcer → CacheKey → Out ErrKind Bool

def CacheSound (oracle : Oracle) (c : Cached) : Prop :=
  ∀ k v, (k, v) ∈ c.cache → oracle c.inner k = .ok v

theorem lookup_mem_list (l : List (CacheKey × Bool)) (k : CacheKey) (v : Bool) (h : l.lookup k = some v) :
    (k, v) ∈ l := by
  induction l with
  | nil => cases h
  | cons x xs ih =>
    obtain ⟨k', v'⟩ := x
    simp only [List.lookup] at h
    split at h
    · rename_i hk
      have h1 : k = k' := by simpa using hk
      have h2 : v' = v := by simpa using h
      subst h1 h2; simp
    · exact List.mem_cons_of_mem _ (ih h)

theorem lookup_mem {c : Cached} {k : CacheKey} {v : Bool} (h : c.lookup k = some v) : (k, v) ∈ c.cache :=
  lookup_mem_list c.cache k v h

/-- **A cached enforcer answers like the uncached one**, and stays sound. -/
theorem enforce_eq_plain (oracle : Oracle) (c : Cached) (k : CacheKey) (hs : CacheSound oracle c) :
    (c.enforceWith k (fun e => oracle e k)).2 = oracle c.inner k ∧
    CacheSound oracle (c.enforceWith k (fun e => oracle e k)).1 ∧
    (c.enforceWith k (fun e => oracle e k)).1.inner = c.inner := by
  unfold Cached.enforceWith
  split
  · rename_i v hl
    exact ⟨(hs k v (lookup_mem hl)).symm, hs, rfl⟩
  · split
    · rename_i v ho
      refine ⟨ho.symm, ?_, rfl⟩
      intro k' v' hm
      simp only [List.mem_cons, Prod.mk.injEq] at hm
      rcases hm with ⟨h1, h2⟩ | hm
      · subst h1 h2; exact ho
      · exact hs k' v' hm
    · exact ⟨rfl, hs, rfl⟩

/-- an empty cache is sound for any inner state: every forwarded change that clears the
cache (clear_policy, load_policy, load_filtered_policy, set_model, set_adapter,
set_role_manager, build_role_links, enable_enforce, set_effector, add_function) keeps
soundness, whatever it does to the inner enforcer -/
theorem clearing_sound (oracle : Oracle) (c : Cached) (f : Enforcer → Enforcer × Res) :
    CacheSound oracle (c.clearing f).1 ∧ (c.clearing f).1.inner = (f c.inner).1 ∧ (c.clearing f).2 = (f c.inner).2 := by
  refine ⟨?_, rfl, rfl⟩
  intro k v hm; simp [Cached.clearing] at hm

theorem new_sound (oracle : Oracle) (e : Enforcer) : CacheSound oracle { inner := e, cache := [] } := by
  intro k v hm; cases hm

/-- a management call: sound afterwards provided the oracle does not change when the call
reports no change -/
theorem mgmt_sound (oracle : Oracle) (c : Cached) (f : Enforcer → Enforcer × Res)
    (changed : Enforcer → Enforcer × Res → Bool) (hs : CacheSound oracle c)
    (hstable : changed c.inner (f c.inner) = false → ∀ k, oracle (f c.inner).1 k = oracle c.inner k) :
    CacheSound oracle (c.mgmt f changed).1 := by
  unfold Cached.mgmt
  simp only
  cases hc : changed c.inner (f c.inner) with
  | true => intro k v hm; simp at hm
  | false =>
    simp only [Bool.false_eq_true, if_false]
    intro k v hm
    rw [hstable hc k]; exact hs k v hm

/-- the stability hypothesis holds for the plain-request oracle when the adapter vetoes the
call (C10) … -/
theorem rejected_add_stable (call : String → List String → Option Atom) (tbl : String → Option Expr)
    (e : Enforcer) (sec pt : String) (rule : Rule) (has : e.autoSave = true) (hr : C10.Rejecting e.adapter)
    (req : List Val) :
    (e.addPolicy sec pt rule).1.enforce call tbl req = e.enforce call tbl req :=
  C10.enforce_depends_on_core e _ (C10.rejected_add e sec pt rule has hr).1 call tbl req

/-- … and for a call that the model itself reports as "no change" (auto-save off): the enforcer's decision
core is *identical* afterwards, so the hypothesis holds for every oracle that reads only the core -/
def KeysUnique (s : Store) : Prop :=
  ∀ sec (d1 d2 : PolDef), d1 ∈ s.sec sec → d2 ∈ s.sec sec → d1.key = d2.key → d1 = d2

theorem updDef_self (ds : List PolDef) (pt : String) (f : PolDef → PolDef)
    (h : ∀ d ∈ ds, d.key = pt → f d = d) : updDef ds pt f = ds := by
  unfold updDef
  induction ds with
  | nil => rfl
  | cons d ds ih =>
    simp only [List.map_cons]
    rw [ih (fun x hx => h x (List.mem_cons_of_mem _ hx))]
    by_cases hk : d.key = pt
    · simp [hk, h d (by simp) hk]
    · simp [hk]

theorem setSec_self (s : Store) (sec : String) : s.setSec sec (s.sec sec) = s := by
  unfold Store.setSec Store.sec
  by_cases h1 : sec = "p"
  · simp [h1]
  · by_cases h2 : sec = "g"
    · simp [h2]
    · simp [h1, h2]

theorem find_mem (s : Store) (sec pt : String) (d : PolDef) (h : s.find sec pt = some d) : d ∈ s.sec sec ∧ d.key = pt := by
  unfold Store.find at h
  exact ⟨List.mem_of_find?_eq_some h, by simpa using List.find?_some h⟩

theorem linkUpdate_snd (x : Enforcer) (sec pt : String) (ins : Bool) (rules : List Rule) :
    (x.linkUpdate true sec pt ins rules (.bool true)).2 ≠ .bool false := by
  unfold Enforcer.linkUpdate
  split
  · simp
  · split
    · simp
    · split <;> simp

theorem nochange_add_sameCore (e : Enforcer) (sec pt : String) (rule : Rule) (hs : e.autoSave = false)
    (hu : KeysUnique e.store) (h : (e.addPolicy sec pt rule).2 = .bool false) :
    C10.sameCore e (e.addPolicy sec pt rule).1 := by
  unfold Enforcer.addPolicy at h ⊢
  simp only [hs, Bool.false_eq_true, if_false] at h ⊢
  unfold Store.addPolicy at h ⊢
  cases hf : e.store.find sec pt with
  | none =>
    simp only [Bool.false_and, Bool.false_eq_true, if_false]
    unfold Enforcer.linkUpdate
    simp [C10.sameCore, hs]
  | some d =>
    simp only [hf] at h ⊢
    by_cases hin : rule ∈ d.policy
    · have hadd : OrdSet.add d.policy rule = (d.policy, false) := by simp [OrdSet.add, hin]
      obtain ⟨hm, hk⟩ := find_mem e.store sec pt d hf
      have hstore : e.store.update sec pt (fun d => { d with policy := (OrdSet.add d.policy rule).1 }) = e.store := by
        unfold Store.update
        rw [updDef_self, setSec_self]
        intro d' hd' hk'
        have : d' = d := hu sec d' d hd' hm (by rw [hk', hk])
        subst this
        simp [hadd]
      simp only [hadd, Bool.false_and, Bool.false_eq_true, if_false]
      unfold Enforcer.linkUpdate
      simp only [Bool.not_false, Bool.true_or, if_true]
      exact ⟨hstore, rfl, rfl, rfl, rfl, rfl, hs.symm, rfl⟩
    · exfalso
      have hadd : OrdSet.add d.policy rule = (d.policy ++ [rule], true) := by simp [OrdSet.add, hin]
      simp only [hadd, Bool.true_and] at h
      split at h <;> exact linkUpdate_snd _ _ _ _ _ h

/-- … so a management call that does not fail keeps the cache sound for every oracle that reads only the
decision core: the cache is cleared when the call reports a change, and the core is identical when it
reports none -/
theorem mgmt_add_sound (oracle : Oracle) (horacle : ∀ e e', C10.sameCore e e' → ∀ k, oracle e' k = oracle e k)
    (c : Cached) (hs : CacheSound oracle c) (sec pt : String) (rule : Rule) (hsave : c.inner.autoSave = false)
    (hu : KeysUnique c.inner.store) (hres : ∃ b, (c.inner.addPolicy sec pt rule).2 = .bool b) :
    CacheSound oracle (c.mgmt (fun e => e.addPolicy sec pt rule) storeOrResChanged).1 := by
  apply mgmt_sound oracle c _ _ hs
  intro hc k
  apply horacle
  apply nochange_add_sameCore c.inner sec pt rule hsave hu
  obtain ⟨b, hb⟩ := hres
  simp only [storeOrResChanged, hb, resChanged, Bool.or_eq_false_iff] at hc
  rw [hb, hc.1]

/-- a call that fails *after* the store changed (its link update fails) still clears the cache: whatever the
result, a changed store empties the cache -/
theorem mgmt_clears_when_store_changed (c : Cached) (f : Enforcer → Enforcer × Res)
    (h : (f c.inner).1.store ≠ c.inner.store) : (c.mgmt f storeOrResChanged).1.cache = [] := by
  simp [Cached.mgmt, storeOrResChanged, h]

/-- the plain-request oracle is such an oracle (C10) -/
theorem enforce_oracle_core (call : String → List String → Option Atom) (tbl : String → Option Expr) :
    ∀ e e', C10.sameCore e e' → ∀ (req : List Val), e'.enforce call tbl req = e.enforce call tbl req :=
  fun e e' h req => C10.enforce_depends_on_core e e' h call tbl req

/-- the cache key separates a plain request from a context-qualified one with the same
values, and two contexts that differ in any section name (regression for the repaired key) -/
example : (([] : List Val), "") ≠ (([] : List Val), "ctx:r2-p2-e2-m2") := by decide
example : (([] : List Val), "ctx:r2-p2-e2-m2") ≠ (([] : List Val), "ctx:r2-p2-e2-m3") := by decide

/-! ### Non-vacuity: a stale entry is exactly what `CacheSound` excludes -/
def demoOracle : Oracle := fun e _ => .ok e.enabled
def dummy : Enforcer :=
  { defs := ⟨[], [], []⟩, store := ⟨[], []⟩, adapter := AdapterSt.mk0 .null, rm := RoleMgr.new 10, enabled := true,
    autoSave := true, autoBuild := true, autoNotify := true, callbacks := 1, hasWatcher := false, gfuncs := [],
    userFns := [], log := [] }
example : CacheSound demoOracle { inner := dummy, cache := [(([], ""), true)] } := by
  intro k v hm
  simp only [List.mem_singleton, Prod.mk.injEq] at hm
  obtain ⟨_, h⟩ := hm; subst h; rfl
/-- …and a request cached while enforcement was disabled is stale after re-enabling unless the
cache is cleared (what `enable_enforce` now does) -/
example : ¬ CacheSound demoOracle { inner := { dummy with enabled := false }, cache := [(([], ""), true)] } := by
  intro h; have := h ([], "") true (by simp); simp [demoOracle] at this

end Casbin.C11
