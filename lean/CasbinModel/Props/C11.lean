import CasbinModel.Cached
import CasbinModel.Props.C10
import CasbinModel.Lemmas.Batch
import CasbinModel.Lemmas.AutoSave
/-!
# C11 — Caching never changes a decision

`CacheSound c`: every cached entry is what the inner enforcer would answer now.
It is established by construction, preserved by every request (plain or
context-qualified — the key carries the context), by every forwarded state change that
clears the cache, and by management calls (cleared when the store changed; when it did not
change the inner enforcer's decision core is untouched).  Under `CacheSound` a cached
enforcer answers every request exactly like its inner (uncached) enforcer.
-/
namespace Casbin.C11
open Casbin

/-- the decision procedure a cache key stands for -/
abbrev Oracle := Enforcer → CacheKey → Out ErrKind Bool

def CacheSound (oracle : Oracle) (c : Cached) : Prop :=
  ∀ k v, (k, v) ∈ c.cache → oracle c.inner k = .ok v

theorem lookup_mem_list (l : List (CacheKey × Bool)) (k : CacheKey) (v : Bool) (h : l.lookup k = some v) :
    (k, v) ∈ l := by
  induction l with
  | nil => cases h
  | cons x xs ih =>
    obtain ⟨k', v'⟩ := x
    simp only [List.lookup] at h
    split at h
    · rename_i hk
      have h1 : k = k' := by simpa using hk
      have h2 : v' = v := by simpa using h
      subst h1 h2; simp
    · exact List.mem_cons_of_mem _ (ih h)

theorem lookup_mem {c : Cached} {k : CacheKey} {v : Bool} (h : c.lookup k = some v) : (k, v) ∈ c.cache :=
  lookup_mem_list c.cache k v h

/-- **A cached enforcer answers like the uncached one**, and stays sound. -/
theorem enforce_eq_plain (oracle : Oracle) (c : Cached) (k : CacheKey) (hs : CacheSound oracle c) :
    (c.enforceWith k (fun e => oracle e k)).2 = oracle c.inner k ∧
    CacheSound oracle (c.enforceWith k (fun e => oracle e k)).1 ∧
    (c.enforceWith k (fun e => oracle e k)).1.inner = c.inner := by
  unfold Cached.enforceWith
  split
  · rename_i v hl
    exact ⟨(hs k v (lookup_mem hl)).symm, hs, rfl⟩
  · split
    · rename_i v ho
      refine ⟨ho.symm, ?_, rfl⟩
      intro k' v' hm
      simp only [List.mem_cons, Prod.mk.injEq] at hm
      rcases hm with ⟨h1, h2⟩ | hm
      · subst h1 h2; exact ho
      · exact hs k' v' hm
    · exact ⟨rfl, hs, rfl⟩

/-- an empty cache is sound for any inner state: every forwarded change that clears the
cache (clear_policy, load_policy, load_filtered_policy, set_model, set_adapter,
set_role_manager, build_role_links, enable_enforce, set_effector, add_function) keeps
soundness, whatever it does to the inner enforcer -/
theorem clearing_sound (oracle : Oracle) (c : Cached) (f : Enforcer → Enforcer × Res) :
    CacheSound oracle (c.clearing f).1 ∧ (c.clearing f).1.inner = (f c.inner).1 ∧ (c.clearing f).2 = (f c.inner).2 := by
  refine ⟨?_, rfl, rfl⟩
  intro k v hm; simp [Cached.clearing] at hm

theorem new_sound (oracle : Oracle) (e : Enforcer) : CacheSound oracle { inner := e, cache := [] } := by
  intro k v hm; cases hm

/-- a management call: sound afterwards provided the oracle does not change when the call
reports no change -/
theorem mgmt_sound (oracle : Oracle) (c : Cached) (f : Enforcer → Enforcer × Res)
    (changed : Enforcer → Enforcer × Res → Bool) (hs : CacheSound oracle c)
    (hstable : changed c.inner (f c.inner) = false → ∀ k, oracle (f c.inner).1 k = oracle c.inner k) :
    CacheSound oracle (c.mgmt f changed).1 := by
  unfold Cached.mgmt
  simp only
  cases hc : changed c.inner (f c.inner) with
  | true => intro k v hm; simp at hm
  | false =>
    simp only [Bool.false_eq_true, if_false]
    intro k v hm
    rw [hstable hc k]; exact hs k v hm

/-- the stability hypothesis holds for the plain-request oracle when the adapter vetoes the
call (C10) … -/
theorem rejected_add_stable (call : String → List String → Option Atom) (tbl : String → Option Expr)
    (e : Enforcer) (sec pt : String) (rule : Rule) (has : e.autoSave = true) (hr : C10.Rejecting e.adapter)
    (req : List Val) :
    (e.addPolicy sec pt rule).1.enforce call tbl req = e.enforce call tbl req :=
  C10.enforce_depends_on_core e _ (C10.rejected_add e sec pt rule has hr).1 call tbl req

/-- … and for a call that the model itself reports as "no change" (auto-save off): the enforcer's decision
core is *identical* afterwards, so the hypothesis holds for every oracle that reads only the core -/
def KeysUnique (s : Store) : Prop :=
  ∀ sec (d1 d2 : PolDef), d1 ∈ s.sec sec → d2 ∈ s.sec sec → d1.key = d2.key → d1 = d2

theorem updDef_self (ds : List PolDef) (pt : String) (f : PolDef → PolDef)
    (h : ∀ d ∈ ds, d.key = pt → f d = d) : updDef ds pt f = ds := by
  unfold updDef
  induction ds with
  | nil => rfl
  | cons d ds ih =>
    simp only [List.map_cons]
    rw [ih (fun x hx => h x (List.mem_cons_of_mem _ hx))]
    by_cases hk : d.key = pt
    · simp [hk, h d (by simp) hk]
    · simp [hk]

theorem setSec_self (s : Store) (sec : String) : s.setSec sec (s.sec sec) = s := by
  unfold Store.setSec Store.sec
  by_cases h1 : sec = "p"
  · simp [h1]
  · by_cases h2 : sec = "g"
    · simp [h2]
    · simp [h1, h2]

theorem find_mem (s : Store) (sec pt : String) (d : PolDef) (h : s.find sec pt = some d) : d ∈ s.sec sec ∧ d.key = pt := by
  unfold Store.find at h
  exact ⟨List.mem_of_find?_eq_some h, by simpa using List.find?_some h⟩

theorem linkUpdate_snd (x : Enforcer) (sec pt : String) (ins : Bool) (rules : List Rule) :
    (x.linkUpdate true sec pt ins rules (.bool true)).2 ≠ .bool false := by
  unfold Enforcer.linkUpdate
  split
  · simp
  · split
    · simp
    · split <;> simp

theorem nochange_add_sameCore (e : Enforcer) (sec pt : String) (rule : Rule) (hs : e.autoSave = false)
    (hu : KeysUnique e.store) (h : (e.addPolicy sec pt rule).2 = .bool false) :
    C10.sameCore e (e.addPolicy sec pt rule).1 := by
  unfold Enforcer.addPolicy at h ⊢
  simp only [hs, Bool.false_eq_true, if_false] at h ⊢
  unfold Store.addPolicy at h ⊢
  cases hf : e.store.find sec pt with
  | none =>
    simp only [Bool.false_and, Bool.false_eq_true, if_false]
    unfold Enforcer.linkUpdate
    simp [C10.sameCore, hs]
  | some d =>
    simp only [hf] at h ⊢
    by_cases hin : rule ∈ d.policy
    · have hadd : OrdSet.add d.policy rule = (d.policy, false) := by simp [OrdSet.add, hin]
      obtain ⟨hm, hk⟩ := find_mem e.store sec pt d hf
      have hstore : e.store.update sec pt (fun d => { d with policy := (OrdSet.add d.policy rule).1 }) = e.store := by
        unfold Store.update
        rw [updDef_self, setSec_self]
        intro d' hd' hk'
        have : d' = d := hu sec d' d hd' hm (by rw [hk', hk])
        subst this
        simp [hadd]
      simp only [hadd, Bool.false_and, Bool.false_eq_true, if_false]
      unfold Enforcer.linkUpdate
      simp only [Bool.not_false, Bool.true_or, if_true]
      exact ⟨hstore, rfl, rfl, rfl, rfl, rfl, hs.symm, rfl⟩
    · exfalso
      have hadd : OrdSet.add d.policy rule = (d.policy ++ [rule], true) := by simp [OrdSet.add, hin]
      simp only [hadd, Bool.true_and] at h
      split at h <;> exact linkUpdate_snd _ _ _ _ _ h

/-- … so a management call that does not fail keeps the cache sound for every oracle that reads only the
decision core: the cache is cleared when the call reports a change, and the core is identical when it
reports none -/
theorem mgmt_add_sound (oracle : Oracle) (horacle : ∀ e e', C10.sameCore e e' → ∀ k, oracle e' k = oracle e k)
    (c : Cached) (hs : CacheSound oracle c) (sec pt : String) (rule : Rule) (hsave : c.inner.autoSave = false)
    (hu : KeysUnique c.inner.store) (hres : ∃ b, (c.inner.addPolicy sec pt rule).2 = .bool b) :
    CacheSound oracle (c.mgmt (fun e => e.addPolicy sec pt rule) storeOrResChanged).1 := by
  apply mgmt_sound oracle c _ _ hs
  intro hc k
  apply horacle
  apply nochange_add_sameCore c.inner sec pt rule hsave hu
  obtain ⟨b, hb⟩ := hres
  simp only [storeOrResChanged, hb, resChanged, Bool.or_eq_false_iff] at hc
  rw [hb, hc.1]

/-- a call that fails *after* the store changed (its link update fails) still clears the cache: whatever the
result, a changed store empties the cache -/
theorem mgmt_clears_when_store_changed (c : Cached) (f : Enforcer → Enforcer × Res)
    (h : (f c.inner).1.store ≠ c.inner.store) : (c.mgmt f storeOrResChanged).1.cache = [] := by
  simp [Cached.mgmt, storeOrResChanged, h]

/-- the plain-request oracle is such an oracle (C10) -/
theorem enforce_oracle_core (call : String → List String → Option Atom) (tbl : String → Option Expr) :
    ∀ e e', C10.sameCore e e' → ∀ (req : List Val), e'.enforce call tbl req = e.enforce call tbl req :=
  fun e e' h req => C10.enforce_depends_on_core e e' h call tbl req

/-! ### All five management calls, and every history of requests and management calls -/

inductive MOp where
  | add (sec pt : String) (rule : Rule)
  | remove (sec pt : String) (rule : Rule)
  | addMany (sec pt : String) (rules : List Rule)
  | removeMany (sec pt : String) (rules : List Rule)
  | removeFiltered (sec pt : String) (idx : Nat) (vals : List String)

def MOp.run (e : Enforcer) : MOp → Enforcer × Res
  | .add sec pt rule => e.addPolicy sec pt rule
  | .remove sec pt rule => e.removePolicy sec pt rule
  | .addMany sec pt rules => e.addPolicies sec pt rules
  | .removeMany sec pt rules => e.removePolicies sec pt rules
  | .removeFiltered sec pt idx vals => e.removeFiltered sec pt idx vals

/-- a batch call names at least one rule -/
def MOp.NonEmpty : MOp → Prop
  | .addMany _ _ rules => rules ≠ []
  | .removeMany _ _ rules => rules ≠ []
  | _ => True

/-- the model-side store operation of a call: the new store and its "changed" answer -/
def MOp.storeOp (s : Store) : MOp → Store × Bool
  | .add sec pt rule => s.addPolicy sec pt rule
  | .remove sec pt rule => s.removePolicy sec pt rule
  | .addMany sec pt rules => s.addPolicies sec pt rules
  | .removeMany sec pt rules => s.removePolicies sec pt rules
  | .removeFiltered sec pt idx vals => ((s.removeFiltered sec pt idx vals).1, (s.removeFiltered sec pt idx vals).2.1)

def resFailed : Res → Bool
  | .err _ => true
  | .panic => true
  | _ => false

/-- the tail shared by the five `*_internal` functions once the adapter is out of the way -/
def finish (e : Enforcer) (s' : Store) (flag : Bool) (ev : Event) (sec pt : String) (ins : Bool)
    (rules : List Rule) (ret : Res) : Enforcer × Res :=
  (if flag && e.autoNotify then ({ e with store := s' } : Enforcer).emit ev else { e with store := s' }).linkUpdate
    flag sec pt ins rules ret

theorem run_shape (e : Enforcer) (hs : e.autoSave = false) (op : MOp) :
    ∃ ev sec pt ins rules ret,
      op.run e = finish e (op.storeOp e.store).1 (op.storeOp e.store).2 ev sec pt ins rules ret ∧
      resChanged ret = (op.storeOp e.store).2 ∧ resFailed ret = false := by
  cases op with
  | add sec pt rule =>
    refine ⟨.addPolicy sec pt rule, sec, pt, true, [rule], .bool (e.store.addPolicy sec pt rule).2, ?_, rfl, rfl⟩
    simp only [MOp.run, Enforcer.addPolicy, hs, Bool.false_eq_true, if_false, finish, MOp.storeOp]
  | remove sec pt rule =>
    refine ⟨.removePolicy sec pt rule, sec, pt, false, [rule], .bool (e.store.removePolicy sec pt rule).2, ?_, rfl, rfl⟩
    simp only [MOp.run, Enforcer.removePolicy, hs, Bool.false_eq_true, if_false, finish, MOp.storeOp]
  | addMany sec pt rules =>
    refine ⟨.addPolicies sec pt rules, sec, pt, true, rules, .bool (e.store.addPolicies sec pt rules).2, ?_, rfl, rfl⟩
    simp only [MOp.run, Enforcer.addPolicies, hs, Bool.false_eq_true, if_false, finish, MOp.storeOp]
  | removeMany sec pt rules =>
    refine ⟨.removePolicies sec pt rules, sec, pt, false, rules, .bool (e.store.removePolicies sec pt rules).2, ?_, rfl, rfl⟩
    simp only [MOp.run, Enforcer.removePolicies, hs, Bool.false_eq_true, if_false, finish, MOp.storeOp]
  | removeFiltered sec pt idx vals =>
    refine ⟨.removeFiltered sec pt (e.store.removeFiltered sec pt idx vals).2.2, sec, pt, false,
      (e.store.removeFiltered sec pt idx vals).2.2,
      .rules (e.store.removeFiltered sec pt idx vals).2.1 (e.store.removeFiltered sec pt idx vals).2.2, ?_, rfl, rfl⟩
    simp only [MOp.run, Enforcer.removeFiltered, hs, Bool.false_eq_true, if_false, finish, MOp.storeOp]

theorem linkUpdate_store (x : Enforcer) (c : Bool) (sec pt : String) (ins : Bool) (rules : List Rule) (ret : Res) :
    (x.linkUpdate c sec pt ins rules ret).1.store = x.store := by
  unfold Enforcer.linkUpdate
  split
  · rfl
  · split
    · rfl
    · split <;> rfl

theorem linkUpdate_res (x : Enforcer) (c : Bool) (sec pt : String) (ins : Bool) (rules : List Rule) (ret : Res) :
    (x.linkUpdate c sec pt ins rules ret).2 = ret ∨ ∃ k, (x.linkUpdate c sec pt ins rules ret).2 = .err k := by
  unfold Enforcer.linkUpdate
  split
  · exact Or.inl rfl
  · split
    · exact Or.inl rfl
    · split
      · exact Or.inl rfl
      · exact Or.inr ⟨_, rfl⟩

theorem emit_store (x : Enforcer) (ev : Event) : (x.emit ev).store = x.store := by
  unfold Enforcer.emit; split <;> rfl

theorem finish_store (e : Enforcer) (s' : Store) (flag : Bool) (ev : Event) (sec pt : String) (ins : Bool)
    (rules : List Rule) (ret : Res) : (finish e s' flag ev sec pt ins rules ret).1.store = s' := by
  unfold finish
  rw [linkUpdate_store]
  split
  · rw [emit_store]
  · rfl

/-- a call whose model-side operation reports no change leaves the decision core alone, provided the store is
what it was; one that reports a change either returns that or fails -/
theorem finish_nochange (e : Enforcer) (s' : Store) (flag : Bool) (ev : Event) (sec pt : String) (ins : Bool)
    (rules : List Rule) (ret : Res) (hret : resChanged ret = flag)
    (hnf : resFailed (finish e s' flag ev sec pt ins rules ret).2 = false)
    (hch : resChanged (finish e s' flag ev sec pt ins rules ret).2 = false) (hst : s' = e.store) :
    C10.sameCore e (finish e s' flag ev sec pt ins rules ret).1 := by
  cases flag with
  | false =>
    subst hst
    simp only [finish, Bool.false_and, Bool.false_eq_true, if_false]
    unfold Enforcer.linkUpdate
    simp only [Bool.not_false, Bool.true_or, if_true]
    exact ⟨rfl, rfl, rfl, rfl, rfl, rfl, rfl, rfl⟩
  | true =>
    exfalso
    rcases linkUpdate_res (if true && e.autoNotify then ({ e with store := s' } : Enforcer).emit ev else { e with store := s' })
      true sec pt ins rules ret with h | ⟨k, h⟩
    · have : (finish e s' true ev sec pt ins rules ret).2 = ret := h
      rw [this, hret] at hch; cases hch
    · have : (finish e s' true ev sec pt ins rules ret).2 = .err k := h
      rw [this] at hnf; cases hnf

/-- **every management call keeps the cache sound** (auto-save off, any of the five internal calls, on any policy
type): when it reports a change or changes the store the cache is emptied; otherwise, unless it fails, the
decision core is identical -/
theorem mgmt_sound_all (oracle : Oracle) (horacle : ∀ e e', C10.sameCore e e' → ∀ k, oracle e' k = oracle e k)
    (c : Cached) (hs : CacheSound oracle c) (op : MOp) (hsave : c.inner.autoSave = false)
    (hfail : resFailed (op.run c.inner).2 = true → (op.run c.inner).1.store ≠ c.inner.store) :
    CacheSound oracle (c.mgmt (fun e => op.run e) storeOrResChanged).1 := by
  apply mgmt_sound oracle c _ _ hs
  intro hc k
  apply horacle
  simp only [storeOrResChanged, Bool.or_eq_false_iff, decide_eq_false_iff_not, ne_eq] at hc
  obtain ⟨hc1, hc2'⟩ := hc
  have hc2 : (op.run c.inner).1.store = c.inner.store := Decidable.of_not_not hc2'
  have hnf : resFailed (op.run c.inner).2 = false := by
    cases hf : resFailed (op.run c.inner).2 with
    | false => rfl
    | true => exact absurd hc2 (hfail hf)
  obtain ⟨ev, sec, pt, ins, rules, ret, hrun, hret, _⟩ := run_shape c.inner hsave op
  rw [hrun] at hc1 hc2 hnf ⊢
  rw [finish_store] at hc2
  exact finish_nochange _ _ _ _ _ _ _ _ _ hret hnf hc1 hc2

/-- a model-side operation that reports a change did change the store (a batch must name a rule) -/
theorem storeOp_changed (s : Store) (op : MOp) (hne : op.NonEmpty) (h : (op.storeOp s).2 = true) :
    (op.storeOp s).1 ≠ s := by
  intro heq
  cases op with
  | add sec pt rule =>
    simp only [MOp.storeOp] at h heq
    have hg := Store.addPolicy_getPolicy s sec pt rule sec pt
    rw [heq] at hg
    unfold Store.addPolicy at h
    cases hf : s.find sec pt with
    | none => simp [hf] at h
    | some d =>
      simp only [hf] at h
      have hnin : rule ∉ d.policy := by
        intro hin; simp [OrdSet.add, hin] at h
      simp only [and_self, hf, Option.isSome_some, if_true, true_and, Store.getPolicy, OrdSet.add, hnin, if_false] at hg
      have := congrArg List.length hg
      simp at this
  | remove sec pt rule =>
    simp only [MOp.storeOp] at h heq
    have hg := Store.removePolicy_getPolicy s sec pt rule sec pt
    rw [heq] at hg
    unfold Store.removePolicy at h
    cases hf : s.find sec pt with
    | none => simp [hf] at h
    | some d =>
      simp only [hf] at h
      have hin : rule ∈ d.policy := by
        by_cases hin : rule ∈ d.policy
        · exact hin
        · simp [OrdSet.remove, hin] at h
      simp only [and_self, hf, Option.isSome_some, if_true, true_and, Store.getPolicy, OrdSet.remove, hin] at hg
      have := congrArg List.length hg
      have hpos : 0 < d.policy.length := List.length_pos_of_mem hin
      first
        | (rw [List.length_erase_of_mem hin] at this; omega)
        | (rw [erase_inst_irrel, List.length_erase_of_mem hin] at this; omega)
        | (rw [← erase_inst_irrel, List.length_erase_of_mem hin] at this; omega)
  | addMany sec pt rules =>
    simp only [MOp.storeOp] at h heq
    unfold Store.addPolicies at h heq
    cases hf : s.find sec pt with
    | none => simp [hf] at h
    | some d =>
      simp only [hf] at h heq
      by_cases hany : rules.any (fun r => decide (r ∈ d.policy)) = true
      · simp [hany] at h
      · simp only [hany, Bool.false_eq_true, if_false] at heq
        have hg := Store.getPolicy_update' s sec pt sec pt (fun pol => OrdSet.addAll pol rules)
        rw [heq] at hg
        simp only [and_self, hf, Option.isSome_some, if_true, true_and, Store.getPolicy] at hg
        cases rules with
        | nil => exact hne rfl
        | cons r rs =>
          have hr : r ∉ d.policy := by
            intro hin; apply hany; simp [hin]
          have : r ∈ OrdSet.addAll d.policy (r :: rs) := (OrdSet.addAll_mem _ _ _).mpr (Or.inr (by simp))
          rw [← hg] at this
          exact hr this
  | removeMany sec pt rules =>
    simp only [MOp.storeOp] at h heq
    unfold Store.removePolicies at h heq
    cases hf : s.find sec pt with
    | none => simp [hf] at h
    | some d =>
      simp only [hf] at h heq
      by_cases hany : rules.any (fun r => decide (r ∉ d.policy)) = true
      · rw [if_pos hany] at h; exact absurd h (by simp)
      · simp only [hany, Bool.false_eq_true, if_false] at heq
        have hg := Store.getPolicy_update' s sec pt sec pt (fun pol => OrdSet.removeAll pol rules)
        rw [heq] at hg
        simp only [and_self, hf, Option.isSome_some, if_true, true_and, Store.getPolicy] at hg
        cases rules with
        | nil => exact hne rfl
        | cons r rs =>
          have hr : r ∈ d.policy := by
            by_cases hin : r ∈ d.policy
            · exact hin
            · exfalso; apply hany; simp [hin]
          have hlen : (OrdSet.removeAll d.policy (r :: rs)).length < d.policy.length := by
            have hsub := (OrdSet.removeAll_sublist (OrdSet.remove d.policy r).1 rs).length_le
            have hpos : 0 < d.policy.length := List.length_pos_of_mem hr
            have h2 : (OrdSet.remove d.policy r).1.length < d.policy.length := by
              simp only [OrdSet.remove, hr, if_true]
              first
                | (rw [List.length_erase_of_mem hr]; omega)
                | (rw [erase_inst_irrel, List.length_erase_of_mem hr]; omega)
            simp only [OrdSet.removeAll]
            omega
          rw [← hg] at hlen
          omega
  | removeFiltered sec pt idx vals =>
    simp only [MOp.storeOp] at h heq
    unfold Store.removeFiltered at h heq
    by_cases hve : vals.isEmpty = true
    · simp [hve] at h
    · simp only [hve, Bool.false_eq_true, if_false] at h heq
      cases hf : s.find sec pt with
      | none => simp [hf] at h
      | some d =>
        simp only [hf] at h heq
        by_cases hem : (d.policy.filter (filterMatch idx vals)).isEmpty = true
        · simp [hem] at h
        · simp only [hem, Bool.false_eq_true, if_false] at heq
          have hg := Store.getPolicy_update' s sec pt sec pt (fun pol => pol.filter (fun r => !filterMatch idx vals r))
          rw [heq] at hg
          simp only [and_self, hf, Option.isSome_some, if_true, true_and, Store.getPolicy] at hg
          have hex : ∃ x, x ∈ d.policy.filter (filterMatch idx vals) := by
            cases hl : d.policy.filter (filterMatch idx vals) with
            | nil => simp [hl] at hem
            | cons x _ => exact ⟨x, by simp⟩
          obtain ⟨x, hx⟩ := hex
          obtain ⟨hx1, hx2⟩ := List.mem_filter.mp hx
          rw [hg] at hx1
          have := (List.mem_filter.mp hx1).2
          simp [hx2] at this

/-- a call that fails after the adapter is out of the way failed in the link update, i.e. after the store
changed -/
theorem failed_changes_store (e : Enforcer) (hs : e.autoSave = false) (op : MOp) (hne : op.NonEmpty)
    (hf : resFailed (op.run e).2 = true) : (op.run e).1.store ≠ e.store := by
  obtain ⟨ev, sec, pt, ins, rules, ret, hrun, hret, hrf⟩ := run_shape e hs op
  rw [hrun, finish_store]
  apply storeOp_changed e.store op hne
  cases hflag : (op.storeOp e.store).2 with
  | true => rfl
  | false =>
    exfalso
    rw [hrun, hflag] at hf
    rw [hflag] at hret
    simp only [finish, Bool.false_and, Bool.false_eq_true, if_false] at hf
    unfold Enforcer.linkUpdate at hf
    simp only [Bool.not_false, Bool.true_or, if_true] at hf
    rw [hrf] at hf; cases hf

theorem run_autoSave (e : Enforcer) (hs : e.autoSave = false) (op : MOp) : (op.run e).1.autoSave = false := by
  obtain ⟨ev, sec, pt, ins, rules, ret, hrun, _⟩ := run_shape e hs op
  rw [hrun]
  unfold finish
  have hl : ∀ (x : Enforcer) (c : Bool), (x.linkUpdate c sec pt ins rules ret).1.autoSave = x.autoSave := by
    intro x c
    unfold Enforcer.linkUpdate
    split
    · rfl
    · split
      · rfl
      · split <;> rfl
  rw [hl]
  split
  · unfold Enforcer.emit; split <;> exact hs
  · exact hs

/-- a client of the cached enforcer: requests and management calls -/
inductive COp where
  | enforce (k : CacheKey)
  | mgmt (op : MOp)
  /-- a forwarded call that clears the cache first: `load_policy`, `load_filtered_policy`, `clear_policy`, `set_model`,
  `set_adapter`, `set_role_manager`, `build_role_links`, … (cached_enforcer.rs) -/
  | reconf (f : Enforcer → Enforcer × Res)

def COp.NonEmpty : COp → Prop
  | .enforce _ => True
  | .mgmt op => op.NonEmpty
  | .reconf f => ∀ e, (f e).1.autoSave = e.autoSave

def cstep (oracle : Oracle) (c : Cached) : COp → Cached
  | .enforce k => (c.enforceWith k (fun e => oracle e k)).1
  | .mgmt op => (c.mgmt (fun e => op.run e) storeOrResChanged).1
  | .reconf f => (c.clearing f).1

/-! the reconfiguration calls leave the auto-save switch alone (the side condition of `COp.reconf`) -/
theorem emit_autoSave (x : Enforcer) (ev : Event) : (x.emit ev).autoSave = x.autoSave := by
  unfold Enforcer.emit; split <;> rfl

theorem build_autoSave (x : Enforcer) : x.buildRoleLinks.1.autoSave = x.autoSave := by
  unfold Enforcer.buildRoleLinks; rfl

theorem finishLoad_autoSave (e : Enforcer) (old : Store) (a : AdapterSt) (s : Store) (ok : Option Unit) :
    (e.finishLoad old a s ok).1.autoSave = e.autoSave := by
  unfold Enforcer.finishLoad
  have hx : ({ e with adapter := a, store := s } : Enforcer).autoSave = e.autoSave := rfl
  generalize ({ e with adapter := a, store := s } : Enforcer) = x at hx ⊢
  have key : ∀ (e2 : Enforcer) (res : Option ErrKind), e2.autoSave = e.autoSave →
      (match res with
        | none => (e2, Res.unit)
        | some k => ((if ({ e2 with store := old } : Enforcer).autoBuild then ({ e2 with store := old } : Enforcer).buildRoleLinks.1
            else ({ e2 with store := old } : Enforcer)), Res.err k)).1.autoSave = e.autoSave := by
    intro e2 res h2
    cases res with
    | none => exact h2
    | some k =>
      simp only []
      split
      · rw [build_autoSave]; exact h2
      · exact h2
  cases ok with
  | none => exact key x (some .adapter) hx
  | some u =>
    by_cases hb : x.autoBuild = true
    · simp only [hb, if_true]
      cases hbr : x.buildRoleLinks with
      | mk e2 res =>
        have : e2.autoSave = e.autoSave := by
          have h := build_autoSave x
          rw [hbr] at h; exact h.trans hx
        exact key e2 res this
    · simp only [hb, if_false]
      exact key x none hx

theorem load_autoSave (e : Enforcer) : e.loadPolicy.1.autoSave = e.autoSave := finishLoad_autoSave _ _ _ _ _
theorem loadFiltered_autoSave (e : Enforcer) (fp fg : List String) : (e.loadFilteredPolicy fp fg).1.autoSave = e.autoSave :=
  finishLoad_autoSave _ _ _ _ _
theorem setAdapter_autoSave (e : Enforcer) (a : AdapterSt) : (e.setAdapter a).1.autoSave = e.autoSave :=
  load_autoSave { e with adapter := a }
theorem setModel_autoSave (e : Enforcer) (defs : Defs) (store : Store) : (e.setModel defs store).1.autoSave = e.autoSave := by
  unfold Enforcer.setModel
  dsimp only
  split
  · rfl
  · exact load_autoSave _
theorem tail_autoSave (x : Enforcer) (s0 : Bool) (hx : x.autoSave = s0) (r : Enforcer × Option ErrKind)
    (hr : r = (if x.autoBuild then x.buildRoleLinks else (x, none))) : r.1.autoSave = s0 := by
  subst hr
  split
  · rw [build_autoSave]; exact hx
  · exact hx
theorem setRm_autoSave (e : Enforcer) (rm0 : RoleMgr String) : (e.setRoleManagerWith rm0).1.autoSave = e.autoSave := by
  unfold Enforcer.setRoleManagerWith
  dsimp only
  split
  · rfl
  · rename_i gf _
    have h := tail_autoSave ({ e with rm := rm0, gfuncs := gf } : Enforcer) e.autoSave rfl _ rfl
    generalize (if ({ e with rm := rm0, gfuncs := gf } : Enforcer).autoBuild then ({ e with rm := rm0, gfuncs := gf } : Enforcer).buildRoleLinks
      else (({ e with rm := rm0, gfuncs := gf } : Enforcer), none)) = r at h ⊢
    obtain ⟨e2, res⟩ := r
    cases res <;> exact h
theorem clearGo_autoSave (x : Enforcer) (r : Enforcer × Option ErrKind)
    (hr : r = (if ({ x with store := x.store.clear } : Enforcer).autoBuild then ({ x with store := x.store.clear } : Enforcer).buildRoleLinks
      else (({ x with store := x.store.clear } : Enforcer), none))) :
    (match r with
      | (e, r) => match r with
        | some k => (e, Res.err k)
        | none => (e.emit .clearPolicy, Res.unit)).1.autoSave = x.autoSave := by
  have h := tail_autoSave ({ x with store := x.store.clear } : Enforcer) x.autoSave rfl r hr
  obtain ⟨e2, res⟩ := r
  cases res with
  | none => simp only []; rw [emit_autoSave]; exact h
  | some k => exact h
theorem clear_autoSave (e : Enforcer) : e.clearPolicy.1.autoSave = e.autoSave := by
  unfold Enforcer.clearPolicy
  split
  · split
    · rfl
    · rename_i a _
      exact clearGo_autoSave ({ e with adapter := a } : Enforcer) _ rfl
  · exact clearGo_autoSave e _ rfl

theorem cstep_inv (oracle : Oracle) (horacle : ∀ e e', C10.sameCore e e' → ∀ k, oracle e' k = oracle e k)
    (c : Cached) (hs : CacheSound oracle c) (hsave : c.inner.autoSave = false) (op : COp) (hne : op.NonEmpty) :
    CacheSound oracle (cstep oracle c op) ∧ (cstep oracle c op).inner.autoSave = false := by
  cases op with
  | enforce k =>
    obtain ⟨_, h2, h3⟩ := enforce_eq_plain oracle c k hs
    exact ⟨h2, by simp only [cstep]; rw [h3]; exact hsave⟩
  | mgmt op =>
    refine ⟨mgmt_sound_all oracle horacle c hs op hsave (failed_changes_store c.inner hsave op hne), ?_⟩
    simp only [cstep, Cached.mgmt]
    exact run_autoSave c.inner hsave op
  | reconf f =>
    obtain ⟨h1, h2, _⟩ := clearing_sound oracle c f
    refine ⟨h1, ?_⟩
    show (c.clearing f).1.inner.autoSave = false
    rw [h2, hne c.inner]; exact hsave

/-- **after every history of requests, management calls and reconfigurations** (management calls single, batch, filtered;
accepted, without effect or failing in the link update; auto-save off; reconfigurations: any forwarded call that clears
the cache first and leaves the auto-save switch alone - `load_policy`, `load_filtered_policy`, `clear_policy`,
`set_model`, `set_adapter`, `set_role_manager`, `build_role_links` all do: `load_autoSave` … `clear_autoSave`) a request —
cached or not — is answered exactly as the inner enforcer answers it at that moment -/
theorem cached_history (oracle : Oracle) (horacle : ∀ e e', C10.sameCore e e' → ∀ k, oracle e' k = oracle e k)
    (ops : List COp) (c : Cached) (hs : CacheSound oracle c) (hsave : c.inner.autoSave = false)
    (hne : ∀ op ∈ ops, op.NonEmpty) (k : CacheKey) :
    let c' := ops.foldl (cstep oracle) c
    (c'.enforceWith k (fun e => oracle e k)).2 = oracle c'.inner k := by
  intro c'
  have hinv : CacheSound oracle c' ∧ c'.inner.autoSave = false := by
    show CacheSound oracle (ops.foldl (cstep oracle) c) ∧ (ops.foldl (cstep oracle) c).inner.autoSave = false
    induction ops generalizing c with
    | nil => exact ⟨hs, hsave⟩
    | cons op ops ih =>
      obtain ⟨h1, h2⟩ := cstep_inv oracle horacle c hs hsave op (hne op (by simp))
      exact ih _ h1 h2 (fun o ho => hne o (by simp [ho]))
  exact (enforce_eq_plain oracle c' k hinv.1).1

/-- the cache key separates a plain request from a context-qualified one with the same
values, and two contexts that differ in any section name (regression for the repaired key) -/
example : (([] : List Val), "") ≠ (([] : List Val), "ctx:r2-p2-e2-m2") := by decide
example : (([] : List Val), "ctx:r2-p2-e2-m2") ≠ (([] : List Val), "ctx:r2-p2-e2-m3") := by decide

/-! ### Non-vacuity: a stale entry is exactly what `CacheSound` excludes -/
def demoOracle : Oracle := fun e _ => .ok e.enabled
def dummy : Enforcer :=
  { defs := ⟨[], [], []⟩, store := ⟨[], []⟩, adapter := AdapterSt.mk0 .null, rm := RoleMgr.new 10, enabled := true,
    autoSave := true, autoBuild := true, autoNotify := true, callbacks := 1, hasWatcher := false, gfuncs := [],
    userFns := [], log := [] }
example : CacheSound demoOracle { inner := dummy, cache := [(([], ""), true)] } := by
  intro k v hm
  simp only [List.mem_singleton, Prod.mk.injEq] at hm
  obtain ⟨_, h⟩ := hm; subst h; rfl
/-- …and a request cached while enforcement was disabled is stale after re-enabling unless the
cache is cleared (what `enable_enforce` now does) -/
example : ¬ CacheSound demoOracle { inner := { dummy with enabled := false }, cache := [(([], ""), true)] } := by
  intro h; have := h ([], "") true (by simp); simp [demoOracle] at this

/-- the history theorem's premises are satisfiable: a concrete client history on a concrete enforcer -/
example :
    let c : Cached := { inner := { dummy with autoSave := false }, cache := [] }
    let ops := [COp.mgmt (.add "p" "p" ["a"]), .enforce ([], ""), .mgmt (.removeMany "p" "p" [["a"]])]
    ((ops.foldl (cstep demoOracle) c).enforceWith ([], "") (fun e => demoOracle e ([], ""))).2 =
      demoOracle (ops.foldl (cstep demoOracle) c).inner ([], "") :=
  cached_history demoOracle (fun e e' h k => by simp [demoOracle, h.2.2.2.2.1]) _ _ (new_sound _ _) rfl
    (by intro op hop
        simp only [List.mem_cons, List.not_mem_nil, or_false] at hop
        rcases hop with h | h | h <;> subst h <;> simp [COp.NonEmpty, MOp.NonEmpty]) _

/-- the reconfiguration calls meet the side condition of `COp.reconf` -/
example : (COp.reconf Enforcer.loadPolicy).NonEmpty ∧ (COp.reconf Enforcer.clearPolicy).NonEmpty ∧
    (COp.reconf (fun e => e.setRoleManagerWith (RoleMgr.new 10))).NonEmpty ∧
    (COp.reconf (fun e => e.setModel ⟨[], [], []⟩ ⟨[], []⟩)).NonEmpty ∧
    (COp.reconf (fun e => e.setAdapter (AdapterSt.mk0 .memory))).NonEmpty ∧
    (COp.reconf (fun e => (e.buildRoleLinks.1, Res.unit))).NonEmpty :=
  ⟨load_autoSave, clear_autoSave, fun e => setRm_autoSave e _, fun e => setModel_autoSave e _ _,
    fun e => setAdapter_autoSave e _, build_autoSave⟩

/-! ### Auto-save on or off -/

/-- what a decision reads of the enforcer -/
def sameDecision (e e' : Enforcer) : Prop :=
  e'.store = e.store ∧ e'.rm = e.rm ∧ e'.defs = e.defs ∧ e'.gfuncs = e.gfuncs ∧ e'.enabled = e.enabled

/-- the plain-request oracle reads nothing else -/
theorem enforce_oracle_decision (call : String → List String → Option Atom) (tbl : String → Option Expr) :
    ∀ e e', sameDecision e e' → ∀ (req : List Val), e'.enforce call tbl req = e.enforce call tbl req := by
  intro e e' h req
  obtain ⟨h1, h2, h3, h4, h5⟩ := h
  unfold Enforcer.enforce Enforcer.evalCfg Enforcer.evalCfgKeys Enforcer.matchFn Enforcer.env
  rw [h1, h2, h3, h4, h5]

theorem sameCore_sameDecision {e e' : Enforcer} (h : C10.sameCore e e') : sameDecision e e' :=
  ⟨h.1, h.2.1, h.2.2.1, h.2.2.2.1, h.2.2.2.2.1⟩

/-- a call (auto-save off) that neither reports a change nor changes the store leaves the decision core alone -/
theorem run_nochange_sameCore (e : Enforcer) (hsave : e.autoSave = false) (op : MOp)
    (hfail : resFailed (op.run e).2 = true → (op.run e).1.store ≠ e.store)
    (hc : storeOrResChanged e (op.run e) = false) : C10.sameCore e (op.run e).1 := by
  simp only [storeOrResChanged, Bool.or_eq_false_iff, decide_eq_false_iff_not, ne_eq] at hc
  obtain ⟨hc1, hc2'⟩ := hc
  have hc2 : (op.run e).1.store = e.store := Decidable.of_not_not hc2'
  have hnf : resFailed (op.run e).2 = false := by
    cases hf : resFailed (op.run e).2 with
    | false => rfl
    | true => exact absurd hc2 (hfail hf)
  obtain ⟨ev, sec, pt, ins, rules, ret, hrun, hret, _⟩ := run_shape e hsave op
  rw [hrun] at hc1 hc2 hnf ⊢
  rw [finish_store] at hc2
  exact finish_nochange _ _ _ _ _ _ _ _ _ hret hnf hc1 hc2

/-- with auto-save on a call stops at the adapter or is the auto-save-off call after the adapter moved -/
theorem run_on2 (e : Enforcer) (hs : e.autoSave = true) (op : MOp) :
    (∃ a res, op.run e = (({ e with adapter := a } : Enforcer), res) ∧ stoppedRes res) ∨
    (∃ a, op.run e = ((op.run (({ e with adapter := a } : Enforcer).withSave false)).1.withSave true,
      (op.run (({ e with adapter := a } : Enforcer).withSave false)).2)) := by
  cases op with
  | add sec pt rule => exact addPolicy_on2 e hs sec pt rule
  | remove sec pt rule => exact removePolicy_on2 e hs sec pt rule
  | addMany sec pt rules => exact addPolicies_on2 e hs sec pt rules
  | removeMany sec pt rules => exact removePolicies_on2 e hs sec pt rules
  | removeFiltered sec pt idx vals => exact removeFiltered_on2 e hs sec pt idx vals

theorem stopped_not_changed {r : Res} (h : stoppedRes r) : resChanged r = false := by
  rcases h with h | h | h <;> subst h <;> rfl

theorem oracle_adapter (oracle : Oracle) (horacle : ∀ e e', sameDecision e e' → ∀ k, oracle e' k = oracle e k)
    (e : Enforcer) (a : AdapterSt) (k : CacheKey) : oracle ({ e with adapter := a } : Enforcer) k = oracle e k :=
  horacle e ({ e with adapter := a } : Enforcer) ⟨rfl, rfl, rfl, rfl, rfl⟩ k

theorem oracle_withSave (oracle : Oracle) (horacle : ∀ e e', sameDecision e e' → ∀ k, oracle e' k = oracle e k)
    (e : Enforcer) (b : Bool) (k : CacheKey) : oracle (e.withSave b) k = oracle e k :=
  horacle e (e.withSave b) ⟨rfl, rfl, rfl, rfl, rfl⟩ k

/-- **every management call keeps the cache sound, auto-save on or off, whatever the adapter answers** -/
theorem mgmt_sound_any (oracle : Oracle) (horacle : ∀ e e', sameDecision e e' → ∀ k, oracle e' k = oracle e k)
    (c : Cached) (hs : CacheSound oracle c) (op : MOp) (hne : op.NonEmpty) :
    CacheSound oracle (c.mgmt (fun e => op.run e) storeOrResChanged).1 := by
  apply mgmt_sound oracle c _ _ hs
  intro hc k
  by_cases hsave : c.inner.autoSave = true
  · rcases run_on2 c.inner hsave op with ⟨a, res, h1, _⟩ | ⟨a, h1⟩
    · show oracle (op.run c.inner).1 k = oracle c.inner k
      rw [h1]
      exact oracle_adapter oracle horacle c.inner a k
    · have hc0 : storeOrResChanged c.inner (op.run c.inner) = false := hc
      show oracle (op.run c.inner).1 k = oracle c.inner k
      rw [h1] at hc0 ⊢
      have hc := hc0
      -- the auto-save-off call on the enforcer holding the adapter's new state
      have hoff : (({ c.inner with adapter := a } : Enforcer).withSave false).autoSave = false := rfl
      have hc' : storeOrResChanged (({ c.inner with adapter := a } : Enforcer).withSave false)
          (op.run (({ c.inner with adapter := a } : Enforcer).withSave false)) = false := hc
      have hcore := run_nochange_sameCore _ hoff op (failed_changes_store _ hoff op hne) hc'
      calc oracle ((op.run (({ c.inner with adapter := a } : Enforcer).withSave false)).1.withSave true) k
          = oracle (op.run (({ c.inner with adapter := a } : Enforcer).withSave false)).1 k :=
            oracle_withSave oracle horacle _ true k
        _ = oracle (({ c.inner with adapter := a } : Enforcer).withSave false) k :=
            horacle _ _ (sameCore_sameDecision hcore) k
        _ = oracle c.inner k := (oracle_withSave oracle horacle _ false k).trans (oracle_adapter oracle horacle c.inner a k)
  · have hsave' : c.inner.autoSave = false := by cases hh : c.inner.autoSave <;> simp_all
    exact horacle _ _ (sameCore_sameDecision (run_nochange_sameCore c.inner hsave' op (failed_changes_store c.inner hsave' op hne) hc)) k


/-- **after every history of requests, management calls and reconfigurations, with auto-save on or off and whatever the
adapter answers**, a request — cached or not — is answered exactly as the inner enforcer answers it at that moment
(for every oracle that reads only what a decision reads; the plain-request oracle is one: `enforce_oracle_decision`) -/
theorem cached_history_any (oracle : Oracle) (horacle : ∀ e e', sameDecision e e' → ∀ k, oracle e' k = oracle e k)
    (ops : List COp) (c : Cached) (hs : CacheSound oracle c)
    (hne : ∀ op ∈ ops, ∀ m, op = COp.mgmt m → m.NonEmpty) (k : CacheKey) :
    let c' := ops.foldl (cstep oracle) c
    (c'.enforceWith k (fun e => oracle e k)).2 = oracle c'.inner k := by
  intro c'
  have hinv : CacheSound oracle c' := by
    show CacheSound oracle (ops.foldl (cstep oracle) c)
    induction ops generalizing c with
    | nil => exact hs
    | cons op ops ih =>
      apply ih _ _ (fun o ho => hne o (by simp [ho]))
      cases op with
      | enforce k' => exact (enforce_eq_plain oracle c k' hs).2.1
      | mgmt m => exact mgmt_sound_any oracle horacle c hs m (hne _ (by simp) m rfl)
      | reconf f => exact (clearing_sound oracle c f).1
  exact (enforce_eq_plain oracle c' k hinv).1

/-- the plain-request oracle meets the premise of `cached_history_any` -/
example (call : String → List String → Option Atom) (tbl : String → Option Expr) (ops : List COp) (c : Cached)
    (hs : CacheSound (fun e k => e.enforce call tbl k.1) c) (hne : ∀ op ∈ ops, ∀ m, op = COp.mgmt m → m.NonEmpty) (k : CacheKey) :
    let c' := ops.foldl (cstep (fun e k => e.enforce call tbl k.1)) c
    (c'.enforceWith k (fun e => e.enforce call tbl k.1)).2 = c'.inner.enforce call tbl k.1 :=
  cached_history_any (fun e k => e.enforce call tbl k.1)
    (fun e e' h k => enforce_oracle_decision call tbl e e' h k.1) ops c hs hne k

end Casbin.C11
