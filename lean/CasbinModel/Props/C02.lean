import CasbinModel.Lemmas.Effect
/-!
# C02 — Effect rules combine like their logical definitions

Property theorems only (helper lemmas live in `Lemmas/Effect.lean`).
All statements quantify over every expression and every effect list, with no
bound on the length.
-/
namespace Casbin.C02
open Casbin

/-- Pushing the whole sequence (capacity = its length) completes the stream and
yields the declarative result, for a caller that ignores the completion signal. -/
theorem pushAll_result (expr : EffExpr) (es : List Eff) (s : Stream)
    (hs : Stream.new expr es.length = some s) :
    (pushAll s es).done = true ∧ (pushAll s es).res = combine expr es := by
  have hg := good_pushAll es (good_new expr es.length s hs)
  simp only [List.nil_append] at hg
  obtain ⟨_, _, fr, hfr, hres, hnd, hd⟩ := hg
  cases hdone : (pushAll s es).done with
  | false => have := (hnd hdone).2.2.1; omega
  | true =>
    refine ⟨rfl, ?_⟩
    obtain ⟨hdec, hle, _⟩ := hd hdone
    obtain ⟨suf, hsuf⟩ := hfr
    rcases hdec with hdec | hlen
    · rw [hres, ← hsuf, decided_stable _ _ _ hdec]
    · have : suf = [] := by
        have := congrArg List.length hsuf
        simp at this
        exact List.eq_nil_of_length_eq_zero (by omega)
      subst this
      simp at hsuf
      rw [hres, hsuf]

/-- Same for the enforcer's protocol: stop at the first `true`. -/
theorem feed_result (expr : EffExpr) (es : List Eff) (s : Stream)
    (hs : Stream.new expr es.length = some s) :
    (feed s es).done = true ∧ (feed s es).res = combine expr es := by
  rw [feed_eq_pushAll]; exact pushAll_result expr es s hs

/-- `next` after the whole sequence returns the declarative verdict (never panics). -/
theorem next_result (expr : EffExpr) (es : List Eff) (s : Stream)
    (hs : Stream.new expr es.length = some s) :
    (pushAll s es).next = some (combine expr es) := by
  obtain ⟨h1, h2⟩ := pushAll_result expr es s hs
  simp [Stream.next, h1, h2]

/-- `new_stream` succeeds exactly for a positive capacity (the `assert!`). -/
theorem new_isSome_iff (expr : EffExpr) (cap : Nat) : (Stream.new expr cap).isSome ↔ 0 < cap := by
  unfold Stream.new; split <;> simp <;> omega

/-- The flag returned by `push_effect` is the stream's completion flag. -/
theorem push_true_iff_done (s : Stream) (e : Eff) : (s.push e).2 = (s.push e).1.done :=
  push_flag_eq_done s e

/-- Early completion is stable: if the stream is complete after a proper prefix
`pre` of the announced length `n`, then *every* continuation has the declarative
result the stream already reports. -/
theorem early_stable (expr : EffExpr) (n : Nat) (s : Stream) (pre : List Eff)
    (hs : Stream.new expr n = some s)
    (hdone : (pushAll s pre).done = true) (hlt : pre.length < n) :
    ∀ suf, combine expr (pre ++ suf) = (pushAll s pre).res := by
  intro suf
  have hg := good_pushAll pre (good_new expr n s hs)
  simp only [List.nil_append] at hg
  obtain ⟨_, _, fr, hfr, hres, _, hd⟩ := hg
  obtain ⟨hdec, hle, _⟩ := hd hdone
  obtain ⟨mid, hmid⟩ := hfr
  have hdec' : decided expr fr = true := by
    rcases hdec with h | h
    · exact h
    · have := congrArg List.length hmid; simp at this; omega
  rw [hres, ← hmid, List.append_assoc, decided_stable _ _ _ hdec']

/-- …and the stream is always complete once the announced number of effects has been pushed. -/
theorem done_at_cap (expr : EffExpr) (es : List Eff) (s : Stream)
    (hs : Stream.new expr es.length = some s) : (pushAll s es).done = true :=
  (pushAll_result expr es s hs).1

/-- A stream that is complete ignores everything pushed afterwards. -/
theorem complete_is_final (s : Stream) (es : List Eff) (h : s.done = true) : pushAll s es = s :=
  pushAll_of_done es h

/-- Indeterminate effects never influence the verdict (used by C07 / C08). -/
theorem combine_ignores_indet (expr : EffExpr) (es : List Eff) :
    combine expr (es.filter (· ≠ .indet)) = combine expr es := by
  cases expr <;> simp only [combine]
  · simp
  · simp
  · simp
  · congr 1
    induction es with
    | nil => rfl
    | cons e es ih =>
      by_cases he : e = .indet
      · simp only [ne_eq, decide_not] at ih
        simp [he, firstDet, ih]
      · simp [he, firstDet]

/-- the four logical definitions, spelled out -/
theorem combine_allowOverride (es) : combine .allowOverride es = true ↔ Eff.allow ∈ es := by
  simp [combine]
theorem combine_denyOverride (es) : combine .denyOverride es = true ↔ Eff.deny ∉ es := by
  simp [combine]
theorem combine_allowAndDeny (es) :
    combine .allowAndDeny es = true ↔ Eff.allow ∈ es ∧ Eff.deny ∉ es := by
  simp [combine]
theorem combine_priority_none (es) (h : ∀ e ∈ es, e = Eff.indet) : combine .priority es = false := by
  induction es with
  | nil => simp [combine, firstDet]
  | cons e es ih =>
    have he := h e (by simp)
    have := ih (fun x hx => h x (by simp [hx]))
    simp [combine, firstDet, he] at this ⊢
    exact this

/-! ### Non-vacuity: the premises of `early_stable` are met by concrete streams -/

example : ∃ s, Stream.new .allowOverride 5 = some s ∧
    (pushAll s [.indet, .allow]).done = true ∧ [Eff.indet, Eff.allow].length < 5 := by
  refine ⟨_, rfl, ?_, ?_⟩ <;> decide

example : ∃ s, Stream.new .allowAndDeny 6 = some s ∧
    (pushAll s [.allow, .allow, .deny]).done = true ∧ (pushAll s [.allow, .allow, .deny]).res = false := by
  refine ⟨_, rfl, ?_, ?_⟩ <;> decide

/-- regression witness for the repaired defect (known_findings: F18): pushing on
after completion no longer flips the verdict. -/
example : ∃ s, Stream.new .allowAndDeny 2 = some s ∧ (pushAll s [.deny, .allow]).res = false := by
  refine ⟨_, rfl, ?_⟩; decide
example : ∃ s, Stream.new .priority 2 = some s ∧ (pushAll s [.allow, .deny]).res = true := by
  refine ⟨_, rfl, ?_⟩; decide

end Casbin.C02
