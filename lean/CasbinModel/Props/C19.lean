import CasbinModel.Props.C08
import CasbinModel.Lemmas.Links
/-!
# C19 — Role definitions are independent relations   (**false on the current tree**)

All role definitions share one role manager (enforcer.rs:63, macros.rs:50,
default_model.rs:158-168).  The full-strength property is therefore false as soon as the
same names occur under two definitions; this is proved here as a witness
(`shared_manager_witness`), recorded as known finding `shared-role-manager`, and what *is*
proved is the partial statement: when the two definitions use disjoint name sets, links
added or deleted under one definition never change a `has_link` answer about names of the
other (hierarchies below the depth limit).
-/
namespace Casbin.C19
open Casbin

/-- the model reproduces the defect: a link stored under `g2` satisfies a `g` test -/
theorem shared_manager_witness :
    let g  : PolDef := { key := "g",  tokens := [], arity := 2, policy := [] }
    let g2 : PolDef := { key := "g2", tokens := [], arity := 2, policy := [["alice", "admin"]] }
    -- `g` holds no rule at all, yet g(alice, admin) is true after a rebuild
    (Casbin.buildRoleLinks (RoleMgr.new 10) [g, g2]).1.hasLink "alice" "admin" "DEFAULT" = true := by
  decide +kernel

/-- …and removing a link under `g2` deletes the edge a `g` rule still needs -/
theorem shared_manager_delete_witness :
    let g  : PolDef := { key := "g",  tokens := [], arity := 2, policy := [["alice", "admin"]] }
    let g2 : PolDef := { key := "g2", tokens := [], arity := 2, policy := [] }
    let rm := (Casbin.buildRoleLinks (RoleMgr.new 10) [g, { g2 with policy := [["alice", "admin"]] }]).1
    (buildIncremental rm g2 false [["alice", "admin"]]).1.hasLink "alice" "admin" "DEFAULT" = false := by
  decide +kernel

/-- the names of the two definitions do not meet, and every link stays inside one of them -/
structure Separated (N1 N2 : String → Prop) (g : Graph String) : Prop where
  disjoint : ∀ x, N1 x → N2 x → False
  closed : ∀ x y, (x, y) ∈ g.edges → (N1 x ∧ N1 y) ∨ (N2 x ∧ N2 y)

/-- a path that starts at a name of the first definition never uses a link of the second -/
theorem path_stays {N1 N2 : String → Prop} {g g' : Graph String} (hs : Separated N1 N2 g')
    (hsub : ∀ x y, (x, y) ∈ g'.edges → N1 x → (x, y) ∈ g.edges)
    {a b : String} {n : Nat} (hp : Path g' a b n) (ha : N1 a) : Path g a b n := by
  induction hp with
  | nil a => exact Path.nil _
  | @cons a x c n he _ ih =>
    have hx : N1 x := by
      rcases hs.closed a x he with h | h
      · exact h.2
      · exact absurd h.1 (fun h2 => hs.disjoint a ha h2)
    exact Path.cons (hsub a x he ha) (ih hx)

/-- **Partial independence (addition)**: adding a link between names of the second
definition changes no `has_link` answer for a name of the first. -/
theorem add_other_definition_irrelevant (rm : RoleMgr String) (hw : rm.WF) (N1 N2 : String → Prop)
    (x y d : String) (hx : N2 x) (hy : N2 y)
    (hs : Separated N1 N2 ((rm.addLink x y d).graph d))
    (hsh : C05.Shallow (rm.graph d) rm.maxLevel)
    (hsh' : C05.Shallow ((rm.addLink x y d).graph d) (rm.addLink x y d).maxLevel)
    (a b : String) (ha : N1 a) :
    (rm.addLink x y d).hasLink a b d = rm.hasLink a b d := by
  have hw' : (rm.addLink x y d).WF := addLink_WF hw x y d
  have hm : (rm.addLink x y d).maxLevel = rm.maxLevel := by
    have := maxLevel_apply rm (.add x y d); simpa [RoleMgr.apply] using this
  have fwd : rm.hasLink a b d = true → (rm.addLink x y d).hasLink a b d = true :=
    C08.hasLink_mono rm _ hw' hm.symm d (fun p q h => (addLink_edges rm x y d d p q).mpr (Or.inl h)) hsh' a b
  have bwd : (rm.addLink x y d).hasLink a b d = true → rm.hasLink a b d = true := by
    intro h
    apply C03.hasLink_complete rm hw
    rcases C03.hasLink_sound _ a b d h with h1 | ⟨n, hp⟩
    · exact Or.inl h1
    · have hp' : Path (rm.graph d) a b n := by
        apply path_stays hs _ hp ha
        intro p q he hp1
        rcases (addLink_edges rm x y d d p q).mp he with h2 | ⟨_, _, h3, _⟩
        · exact h2
        · subst h3; exact absurd hx (fun h2 => hs.disjoint p hp1 h2)
      exact Or.inr (hsh a b ⟨n, hp'⟩)
  cases h1 : rm.hasLink a b d <;> cases h2 : (rm.addLink x y d).hasLink a b d <;> simp_all

/-- **Partial independence (deletion)** -/
theorem delete_other_definition_irrelevant (rm rm' : RoleMgr String) (hw : rm.WF) (N1 N2 : String → Prop)
    (x y d : String) (hx : N2 x) (hdel : rm.deleteLink x y d = some rm')
    (hs : Separated N1 N2 (rm.graph d))
    (hsh : C05.Shallow (rm.graph d) rm.maxLevel) (hsh' : C05.Shallow (rm'.graph d) rm'.maxLevel)
    (a b : String) (ha : N1 a) :
    rm'.hasLink a b d = rm.hasLink a b d := by
  have hw' : rm'.WF := deleteLink_WF hw hdel
  have hm : rm'.maxLevel = rm.maxLevel := by
    have := maxLevel_apply rm (.del x y d); simpa [RoleMgr.apply, hdel] using this
  have bwd : rm'.hasLink a b d = true → rm.hasLink a b d = true :=
    C08.hasLink_mono rm' rm hw hm d (fun p q h => ((deleteLink_edges hw hdel d p q).mp h).1) hsh a b
  have fwd : rm.hasLink a b d = true → rm'.hasLink a b d = true := by
    intro h
    apply C03.hasLink_complete rm' hw'
    rcases C03.hasLink_sound _ a b d h with h1 | ⟨n, hp⟩
    · exact Or.inl h1
    · have hp' : Path (rm'.graph d) a b n := by
        apply path_stays hs _ hp ha
        intro p q he hp1
        rw [deleteLink_edges hw hdel]
        refine ⟨he, ?_⟩
        rintro ⟨_, h3, _⟩
        subst h3; exact hs.disjoint p hp1 hx
      exact Or.inr (hsh' a b ⟨n, hp'⟩)
  cases h1 : rm.hasLink a b d <;> cases h2 : rm'.hasLink a b d <;> simp_all

/-! ### Histories of the other definition -/

/-- a link operation of the second definition in domain `d`; a deletion of an absent link is an error that changes nothing -/
inductive LOp where
  | add (x y : String)
  | del (x y : String)

def LOp.apply (d : String) (rm : RoleMgr String) : LOp → RoleMgr String
  | .add x y => rm.addLink x y d
  | .del x y => (rm.deleteLink x y d).getD rm

def LOp.In (N2 : String → Prop) : LOp → Prop
  | .add x y => N2 x ∧ N2 y
  | .del x _ => N2 x

/-- what the step theorems need of a state: the two name sets stay apart and the hierarchy stays below the limit -/
structure Good (N1 N2 : String → Prop) (d : String) (rm : RoleMgr String) : Prop where
  wf : rm.WF
  sep : Separated N1 N2 (rm.graph d)
  shallow : C05.Shallow (rm.graph d) rm.maxLevel

theorem step_other_definition (N1 N2 : String → Prop) (d : String) (rm : RoleMgr String) (op : LOp)
    (h : Good N1 N2 d rm) (h' : Good N1 N2 d (op.apply d rm)) (hin : op.In N2) (a b : String) (ha : N1 a) :
    (op.apply d rm).hasLink a b d = rm.hasLink a b d := by
  cases op with
  | add x y =>
    exact add_other_definition_irrelevant rm h.wf N1 N2 x y d hin.1 hin.2 h'.sep h.shallow h'.shallow a b ha
  | del x y =>
    cases hdel : rm.deleteLink x y d with
    | none => simp [LOp.apply, hdel]
    | some rm' =>
      have he : (LOp.del x y).apply d rm = rm' := by simp [LOp.apply, hdel]
      rw [he] at h' ⊢
      exact delete_other_definition_irrelevant rm rm' h.wf N1 N2 x y d hin hdel h.sep h.shallow h'.shallow a b ha

/-- **independence over histories, for disjoint name sets**: whatever sequence of links the second definition adds and
removes among its own names - as long as the name sets stay apart and the hierarchy below the limit in every state passed
through - no `has_link` answer for a name of the first definition ever changes -/
theorem history_other_definition (N1 N2 : String → Prop) (d : String) (ops : List LOp) (rm : RoleMgr String)
    (h0 : Good N1 N2 d rm) (hin : ∀ op ∈ ops, op.In N2)
    (hgood : ∀ (pre : List LOp) (op : LOp) (post : List LOp), ops = pre ++ op :: post →
      Good N1 N2 d ((pre ++ [op]).foldl (LOp.apply d) rm))
    (a b : String) (ha : N1 a) :
    (ops.foldl (LOp.apply d) rm).hasLink a b d = rm.hasLink a b d := by
  induction ops generalizing rm with
  | nil => rfl
  | cons op ops ih =>
    have h1 : Good N1 N2 d (op.apply d rm) := by
      have := hgood [] op ops rfl
      simpa using this
    simp only [List.foldl_cons]
    rw [ih (op.apply d rm) h1 (fun o ho => hin o (List.mem_cons_of_mem _ ho))]
    · exact step_other_definition N1 N2 d rm op h0 h1 (hin op List.mem_cons_self) a b ha
    · intro pre op' post heq
      have := hgood (op :: pre) op' post (by rw [heq]; rfl)
      simpa using this

/-! non-vacuity: the premises of `history_other_definition` hold of a one-link history on an empty manager -/
def N1demo (x : String) : Prop := x = "alice" ∨ x = "admin"
def N2demo (x : String) : Prop := x = "data1" ∨ x = "group"

theorem good_of_edges (rm : RoleMgr String) (hw : rm.WF) (hm : 2 ≤ rm.maxLevel)
    (he : ∀ x y, (x, y) ∈ (rm.graph "DEFAULT").edges → x = "data1" ∧ y = "group") :
    Good N1demo N2demo "DEFAULT" rm := by
  refine ⟨hw, ⟨?_, ?_⟩, ?_⟩
  · intro x h1 h2
    rcases h1 with h1 | h1 <;> rcases h2 with h2 | h2 <;> (rw [h1] at h2; revert h2; decide)
  · intro x y hxy
    obtain ⟨rfl, rfl⟩ := he x y hxy
    exact Or.inr ⟨Or.inl rfl, Or.inr rfl⟩
  · intro a b ⟨n, hp⟩
    cases hp with
    | nil => exact ⟨0, by omega, Path.nil _⟩
    | cons h1 hp' =>
      cases hp' with
      | nil => exact ⟨1, by omega, Path.cons h1 (Path.nil _)⟩
      | cons h2 _ =>
        exfalso
        obtain ⟨_, hy⟩ := he _ _ h1
        obtain ⟨hx, _⟩ := he _ _ h2
        rw [hy] at hx
        revert hx; decide

example (a b : String) (ha : N1demo a) :
    ([LOp.add "data1" "group"].foldl (LOp.apply "DEFAULT") (RoleMgr.new 10)).hasLink a b "DEFAULT" =
      (RoleMgr.new 10 : RoleMgr String).hasLink a b "DEFAULT" := by
  apply history_other_definition N1demo N2demo "DEFAULT" _ _ _ _ _ a b ha
  · apply good_of_edges _ (WF_new 10) (by decide)
    intro x y h
    have : ((RoleMgr.new 10 : RoleMgr String).graph "DEFAULT").edges = [] := by decide +kernel
    rw [this] at h; cases h
  · intro op hop
    simp only [List.mem_singleton] at hop
    subst hop
    exact ⟨Or.inl rfl, Or.inr rfl⟩
  · intro pre op post heq
    rcases pre with _ | ⟨p1, pre⟩
    · simp only [List.nil_append, List.cons.injEq] at heq
      obtain ⟨rfl, _⟩ := heq
      show Good N1demo N2demo "DEFAULT" ((RoleMgr.new 10 : RoleMgr String).addLink "data1" "group" "DEFAULT")
      apply good_of_edges _ (addLink_WF (WF_new 10) "data1" "group" "DEFAULT") (by decide +kernel)
      intro x y h
      have : (((RoleMgr.new 10 : RoleMgr String).addLink "data1" "group" "DEFAULT").graph "DEFAULT").edges = [("data1", "group")] := by
        decide +kernel
      rw [this] at h
      simp only [List.mem_singleton, Prod.mk.injEq] at h
      exact h
    · simp at heq

end Casbin.C19
