import CasbinModel.Basic
/-!
# Policy text format  (src/util.rs:39-75)

`parseCsvLine` mirrors `parse_csv_line`: trim; reject empty / `#…`; the columns are
the matches of the regex `(\s*"[^"]*"?\s*|\s*[^,]*)` **in `find_iter` order**, with
the regex crate's rule that an empty match adjacent to the previous match is skipped
(the search restarts one character further and its result is taken as is).
Text is `List Char` here; whitespace is ASCII (space, tab, CR, LF) — the class the
harness generates; other Unicode blanks are outside the model.
-/
namespace Casbin

def isWs (c : Char) : Bool := c = ' ' || c = '\t' || c = '\r' || c = '\n'

def trimL (s : List Char) : List Char := s.dropWhile isWs
def trimR (s : List Char) : List Char := (s.reverse.dropWhile isWs).reverse
def trim (s : List Char) : List Char := trimR (trimL s)

/-- one leftmost-first match of the column regex at the start of `s`:
(matched text, remaining text) -/
def colMatch (s : List Char) : List Char × List Char :=
  let ws := s.takeWhile isWs
  let after := s.dropWhile isWs
  match after with
  | '"' :: t =>
    -- first alternative: \s*"[^"]*"?\s*
    let body := t.takeWhile (· ≠ '"')
    let t2 := t.dropWhile (· ≠ '"')
    match t2 with
    | '"' :: t3 =>
      let ws2 := t3.takeWhile isWs
      (ws ++ '"' :: body ++ '"' :: ws2, t3.dropWhile isWs)
    | _ => (ws ++ '"' :: body, t2)          -- unterminated: t2 = []
  | _ =>
    -- second alternative: \s*[^,]*   (= the maximal comma-free run)
    (s.takeWhile (· ≠ ','), s.dropWhile (· ≠ ','))

/-- `find_iter`: `adj` = the previous match ended exactly here -/
def csvCols : Nat → List Char → Bool → List (List Char)
  | 0, _, _ => []
  | fuel + 1, rest, adj =>
    let (m, rest') := colMatch rest
    if m.isEmpty && adj then
      match rest with
      | [] => []
      | _ :: rest1 =>
        let (m1, rest1') := colMatch rest1
        m1 :: csvCols fuel rest1' true
    else m :: csvCols fuel rest' true

/-- strip one pair of surrounding quotes (util.rs:49-55) -/
def unquote (col : List Char) : List Char :=
  if col.length ≥ 2 && col.head? = some '"' && col.getLast? = some '"' then
    (col.drop 1).dropLast
  else col

/-- util.rs:39-66 `parse_csv_line` -/
def parseCsvLine (line : List Char) : Option (List (List Char)) :=
  let l := trim line
  if l.isEmpty || l.head? = some '#' then none else
  let cols := (csvCols (2 * l.length + 3) l false).map (fun c => unquote (trim c))
  if cols.isEmpty then none else some cols

/-- util.rs `join_csv_fields`: a field containing a comma is quoted -/
def renderField (f : List Char) : List Char :=
  if ',' ∈ f then '"' :: f ++ ['"'] else f

def joinWith (sep : List Char) : List (List Char) → List Char
  | [] => []
  | [x] => x
  | x :: xs => x ++ sep ++ joinWith sep xs

/-- one saved line: `"{ptype}, " ++ join sep fields` (file: sep = ","; string: ", ") -/
def renderLine (sep : List Char) (ptype : List Char) (fields : List (List Char)) : List Char :=
  ptype ++ [',', ' '] ++ joinWith sep (fields.map renderField)

end Casbin

namespace Casbin

def splitLines (s : List Char) : List (List Char) :=
  let rec go (cur : List Char) : List Char → List (List Char)
    | [] => [cur.reverse]
    | c :: cs => if c = '\n' then cur.reverse :: go [] cs else go (c :: cur) cs
  go [] s

/-- the regex crate's Unicode `\w` (used by `\b`), exact on ASCII and approximated beyond it by the
Latin-1 letters and the CJK unified ideographs (every other non-ASCII character counts as a
non-word character; the generators' alphabets stay inside the exact part) -/
def isWordChar (c : Char) : Bool :=
  c.isAlphanum || c = '_' ||
  (0xC0 ≤ c.toNat && c.toNat ≤ 0xFF && c.toNat ≠ 0xD7 && c.toNat ≠ 0xF7) ||
  (0x4E00 ≤ c.toNat && c.toNat ≤ 0x9FFF)

/-- util.rs:21-23 `escape_assertion`: `\b(r\d*|p\d*)\.` ↦ `${1}_`.
`prevWord` = the previous character is a word character (no `\b` here). -/
def escapeAssertionGo : Nat → Bool → List Char → List Char
  | 0, _, s => s
  | _, _, [] => []
  | f + 1, prevWord, c :: t =>
    if !prevWord && (c = 'r' || c = 'p') then
      let digits := t.takeWhile Char.isDigit
      let rest := t.dropWhile Char.isDigit
      match rest with
      | '.' :: rest' => c :: digits ++ '_' :: escapeAssertionGo f true rest'
      | _ => c :: escapeAssertionGo f true t
    else c :: escapeAssertionGo f (isWordChar c) t

def escapeAssertion (s : String) : String := String.ofList (escapeAssertionGo (s.length + 1) false s.toList)

end Casbin
