import CasbinModel.Store
import CasbinModel.Text
/-!
# Adapters  (src/adapter/{memory,file,string,null}_adapter.rs)

`memory`: an ordered set of `[sec, ptype, fields…]` lines, incremental operations
mirror the model's.  `file` / `string`: a text; incremental operations are no-ops
(`Ok(true)`) for the file adapter and `Err` ("not implemented") for the string
adapter; `save` renders, `load` parses line by line.  `null`: everything succeeds,
nothing is stored.  A `plan` of injected faults models the harness' failing wrapper
(C10): each adapter entry point consumes the next plan item.
-/
namespace Casbin

inductive AKind where
  | null | memory | file | string
  deriving DecidableEq, Repr

inductive Fault where
  | pass              -- behave normally
  | err               -- return Err before doing anything
  | refuse            -- return Ok(false) before doing anything (management calls)
  | failAfter (k : Nat)  -- loads: insert the first k rules, then Err
  deriving DecidableEq, Repr

structure AdapterSt where
  kind : AKind
  /-- memory adapter: ordered set of `[sec, ptype, fields…]` -/
  lines : List Rule
  /-- file / string adapter: the stored text -/
  text : List Char
  filtered : Bool
  plan : List Fault
  deriving Repr

def AdapterSt.mk0 (k : AKind) : AdapterSt := ⟨k, [], [], false, []⟩

/-- next injected fault (default: pass) and the adapter with the plan advanced -/
def AdapterSt.nextFault (a : AdapterSt) : Fault × AdapterSt :=
  match a.plan with
  | [] => (.pass, a)
  | f :: rest => (f, { a with plan := rest })

/-- result of an incremental adapter call: `none` = `Err`, `some b` = `Ok(b)` -/
abbrev ARes := Option Bool

def tag (sec ptype : String) (rule : Rule) : Rule := sec :: ptype :: rule

/-- memory_adapter.rs:112-124 / file: Ok(true) / string: Err / null: Ok(true) -/
def AdapterSt.addPolicy (a : AdapterSt) (sec ptype : String) (rule : Rule) : AdapterSt × ARes :=
  let (f, a) := a.nextFault
  match f with
  | .err | .failAfter _ => (a, none)
  | .refuse => (a, some false)
  | .pass =>
    match a.kind with
    | .memory => let r := OrdSet.add a.lines (tag sec ptype rule); ({ a with lines := r.1 }, some r.2)
    | .string => (a, none)
    | _ => (a, some true)

/-- memory_adapter.rs:126-152 -/
def AdapterSt.addPolicies (a : AdapterSt) (sec ptype : String) (rules : List Rule) : AdapterSt × ARes :=
  let (f, a) := a.nextFault
  match f with
  | .err | .failAfter _ => (a, none)
  | .refuse => (a, some false)
  | .pass =>
    match a.kind with
    | .memory =>
      let ls := rules.map (tag sec ptype)
      if ls.any (fun l => l ∈ a.lines) then (a, some false)
      else ({ a with lines := OrdSet.addAll a.lines ls }, some true)
    | .string => (a, none)
    | _ => (a, some true)

/-- memory_adapter.rs:183-193 -/
def AdapterSt.removePolicy (a : AdapterSt) (sec ptype : String) (rule : Rule) : AdapterSt × ARes :=
  let (f, a) := a.nextFault
  match f with
  | .err | .failAfter _ => (a, none)
  | .refuse => (a, some false)
  | .pass =>
    match a.kind with
    | .memory => let r := OrdSet.remove a.lines (tag sec ptype rule); ({ a with lines := r.1 }, some r.2)
    | .string => (a, none)
    | _ => (a, some true)

/-- memory_adapter.rs:154-181 -/
def AdapterSt.removePolicies (a : AdapterSt) (sec ptype : String) (rules : List Rule) : AdapterSt × ARes :=
  let (f, a) := a.nextFault
  match f with
  | .err | .failAfter _ => (a, none)
  | .refuse => (a, some false)
  | .pass =>
    match a.kind with
    | .memory =>
      let ls := rules.map (tag sec ptype)
      if ls.any (fun l => l ∉ a.lines) then (a, some false)
      else ({ a with lines := OrdSet.removeAll a.lines ls }, some true)
    | .string => (a, none)
    | _ => (a, some true)

/-- memory_adapter.rs:195-232 -/
def AdapterSt.removeFiltered (a : AdapterSt) (sec ptype : String) (idx : Nat) (vals : List String) :
    AdapterSt × ARes :=
  let (f, a) := a.nextFault
  match f with
  | .err | .failAfter _ => (a, none)
  | .refuse => (a, some false)
  | .pass =>
    match a.kind with
    | .memory =>
      if vals.isEmpty then (a, some false) else
      let hit (l : Rule) : Bool := l[0]? = some sec && l[1]? = some ptype && filterMatch (idx + 2) vals l
      ({ a with lines := a.lines.filter (fun l => !hit l) }, some (a.lines.any hit))
    | .string => (a, none)
    | _ => (a, some true)

/-- `clear_policy` of the adapter: `none` = Err -/
def AdapterSt.clear (a : AdapterSt) : AdapterSt × Option Unit :=
  let (f, a) := a.nextFault
  match f with
  | .err | .failAfter _ | .refuse => (a, none)
  | .pass =>
    match a.kind with
    | .memory => ({ a with lines := [], filtered := false }, some ())
    | .string => ({ a with text := [], filtered := false }, some ())
    | .file => ({ a with text := [] }, some ())
    | .null => (a, some ())

/-- `LinkedHashSet::insert` as the loaders call it: an existing value moves to the back -/
def insertMove (s : List Rule) (v : Rule) : List Rule :=
  if v ∈ s then s.erase v ++ [v] else s ++ [v]

def Store.loadInsert (s : Store) (sec ptype : String) (rule : Rule) : Store :=
  s.update sec ptype (fun d => { d with policy := insertMove d.policy rule })

/-- memory adapter: a line `[sec, ptype, fields…]` is one record (memory_adapter.rs:18-30) -/
def memRecords (lines : List Rule) : List (String × String × Rule) :=
  lines.filterMap (fun l =>
    match l with
    | sec :: ptype :: rule => some (sec, ptype, rule)
    | _ => none)

/-- the records `(sec, ptype, rule)` an adapter offers to a loader, in order.
file/string: `load_policy_line` (file_adapter.rs:235-251, string_adapter.rs:226-242):
skip `""` and `#…`, parse, first char of the first token selects the section. -/
def AdapterSt.records (a : AdapterSt) : List (String × String × Rule) :=
  match a.kind with
  | .null => []
  | .memory => memRecords a.lines
  | _ =>
    let ls := splitLines a.text
    -- tokio's `lines()` also strips a trailing '\r'; the harness never writes one
    ls.filterMap (fun line =>
      if line.isEmpty || line.head? = some '#' then none else
      match parseCsvLine line with
      | none => none
      | some toks =>
        match toks with
        | [] => none
        | key :: rule =>
          match key with
          | [] => none
          | c :: _ => some (String.singleton c, String.ofList key, rule.map String.ofList))

/-- does the filter keep this record?  (file_adapter.rs:262-276, memory/string after F8) -/
def filterKeeps (fp fg : List String) (sec : String) (rule : Rule) : Bool :=
  let f := if sec = "p" then fp else if sec = "g" then fg else []
  (f.zipIdx).all (fun (v, i) => v = "" || rule[i]? = some v)

end Casbin
