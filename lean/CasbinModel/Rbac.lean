import CasbinModel.Enforcer
/-!
# RBAC API  (src/rbac_api.rs) as compositions over the enforcer model
-/
namespace Casbin

def optDom (d : Option String) : String := d.getD "DEFAULT"

/-- rbac_api.rs:214-230 (through the `g` assertion's role-manager handle, which is the
enforcer's manager whenever auto-build is on) -/
def Enforcer.getRolesForUser (e : Enforcer) (name : String) (d : Option String) : List String :=
  if (e.store.find "g" "g").isSome then e.rm.getRoles name (optDom d) else []

def Enforcer.getUsersForRole (e : Enforcer) (name : String) (d : Option String) : List String :=
  if (e.store.find "g" "g").isSome then e.rm.getUsers name (optDom d) else []

def Enforcer.hasRoleForUser (e : Enforcer) (name role : String) (d : Option String) : Bool :=
  decide (role ∈ e.getRolesForUser name d)

/-- rbac_api.rs:289-301 -/
def Enforcer.getPermissionsForUser (e : Enforcer) (user : String) (d : Option String) : List Rule :=
  e.store.getFiltered "p" "p" 0 (match d with | some dom => [user, dom] | none => [user])

/-- rbac_api.rs:313-330: work-list closure over `get_roles`: pop a name, add those of its
roles not seen yet to the result and to the queue -/
def closureGo (succ : String → List String) : Nat → List String → List String → List String
  | 0, _, res => res
  | _, [], res => res
  | fuel + 1, n :: q, res =>
    let fresh := dedup ((succ n).filter (fun r => r ∉ res))
    closureGo succ fuel (q ++ fresh) (res ++ fresh)

def implicitRolesGo (rm : RoleMgr String) (dom : String) : Nat → List String → List String → List String :=
  closureGo (fun n => rm.getRoles n dom)

def RoleMgr.nodeCount (rm : RoleMgr String) (dom : String) : Nat := (rm.graph dom).nodes.length

def Enforcer.getImplicitRoles (e : Enforcer) (name : String) (d : Option String) : List String :=
  implicitRolesGo e.rm (optDom d) (e.rm.nodeCount (optDom d) + 2) [name] []

/-- rbac_api.rs:332-347 (order of roles comes out of a `HashSet`: a multiset, the driver sorts) -/
def Enforcer.getImplicitPermissions (e : Enforcer) (user : String) (d : Option String) : List Rule :=
  (user :: e.getImplicitRoles user d).flatMap (fun r => e.getPermissionsForUser r d)

/-- rbac_api.rs:349-376 `get_implicit_users_for_permission`: subjects of p plus the direct
users of every role, minus the roles, kept when `enforce` grants -/
def Enforcer.getImplicitUsersForPermission (e : Enforcer) (call : String → List String → Option Atom)
    (tbl : String → Option Expr) (perm : List String) : List String :=
  let roles := (e.store.valuesForField "g" "g" 1).getD []
  let subjects := (e.store.valuesForField "p" "p" 0).getD [] ++ roles.flatMap (fun r => e.rm.getUsers r "DEFAULT")
  let users := subjects.filter (fun s => s ∉ roles)
  dedup (users.filter (fun u =>
    e.enforce call tbl ((u :: perm).map (fun s => Val.atom (Atom.str s))) == Out.ok true))

/-- rbac_api.rs:45-66, 259-277: the delete helpers are filtered removals -/
def Enforcer.deleteUser (e : Enforcer) (name : String) : Enforcer × Res :=
  match e.removeFiltered "g" "g" 0 [name] with
  | (e1, .rules b1 _) =>
    (match e1.removeFiltered "p" "p" 0 [name] with
     | (e2, .rules b2 _) => (e2, .bool (b1 || b2))
     | (e2, r) => (e2, r))
  | (e1, r) => (e1, r)

def Enforcer.deleteRole (e : Enforcer) (name : String) : Enforcer × Res :=
  match e.removeFiltered "g" "g" 1 [name] with
  | (e1, .rules b1 _) =>
    (match e1.removeFiltered "p" "p" 0 [name] with
     | (e2, .rules b2 _) => (e2, .bool (b1 || b2))
     | (e2, r) => (e2, r))
  | (e1, r) => (e1, r)

def Enforcer.deletePermission (e : Enforcer) (perm : List String) : Enforcer × Res :=
  match e.removeFiltered "p" "p" 1 perm with
  | (e1, .rules b _) => (e1, .bool b)
  | (e1, r) => (e1, r)

end Casbin
