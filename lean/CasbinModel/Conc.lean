/-!
# Concurrency model (C20)

Two layers.

**Lock protocol.**  Threads run straight-line programs of lock actions on numbered
reader-writer locks (0 = the caller's outer lock around the enforcer, 1 = the role-manager
lock `Arc<RwLock<dyn RoleManager>>`).  The state of a lock *is* the set of outstanding
guards, so a state is just the list of threads with what each holds and what it still has
to run.  A reader is refused while a writer holds the lock, and *may* be refused when another
thread is waiting to write (`pol`, parking_lot's fair policy: a parked writer blocks new
readers — which is what makes a re-entrant read deadlock).  The theorems hold for every
such policy.

**Data level.**  Calls on a shared enforcer with a decision cache, at the granularity of
cache lookup / compute-and-insert, interleaved with evictions, handle operations and
writes (which the outer lock makes exclusive).
-/
namespace Casbin.Conc

inductive Mode | R | W
deriving DecidableEq, Repr

inductive Act
  | acq (m : Mode) (l : Nat)
  | rel (m : Mode) (l : Nat)
  | tau
deriving DecidableEq, Repr

structure Thread where
  held : List (Nat × Mode)
  prog : List Act
deriving DecidableEq, Repr

abbrev State := List Thread

def Thread.next (th : Thread) : Option Act := th.prog.head?
def Thread.holds (th : Thread) (l : Nat) : Bool := th.held.any (·.1 == l)
def Thread.holdsW (th : Thread) (l : Nat) : Bool := th.held.contains (l, Mode.W)
def Thread.waitsW (th : Thread) (l : Nat) : Bool := th.next == some (.acq .W l)

/-- a reader-refusal policy: does lock `l` refuse reader `t` although no writer holds it? -/
abbrev Policy := State → Nat → Nat → Bool

/-- the fair policy (parking_lot): refuse when some other thread is queued to write -/
def fairPol : Policy := fun s t l =>
  (List.range s.length).any fun i => i != t && (match s[i]? with | some th => th.waitsW l | none => false)

/-- never refuse (a reader-preferring lock) -/
def eagerPol : Policy := fun _ _ _ => false

/-- may thread `t` take its next action? -/
def enabled (pol : Policy) (s : State) (t : Nat) : Bool :=
  match s[t]? with
  | none => false
  | some th =>
    match th.next with
    | none => false
    | some (.acq .R l) => !(s.any (·.holdsW l)) && !(pol s t l)
    | some (.acq .W l) => !(s.any (·.holds l))
    | some _ => true

def Thread.step (th : Thread) : Thread :=
  match th.prog with
  | [] => th
  | .acq m l :: p => { held := (l, m) :: th.held, prog := p }
  | .rel m l :: p => { held := th.held.erase (l, m), prog := p }
  | .tau :: p => { th with prog := p }

def stepT (s : State) (t : Nat) : State :=
  match s[t]? with
  | none => s
  | some th => s.set t th.step

/-- the static discipline of one program: locks are taken in strictly increasing order
(so never re-entrantly), released only when held, and nothing is held at the end -/
def disc (nL : Nat) : List (Nat × Mode) → List Act → Bool
  | held, [] => held.isEmpty
  | held, .acq m l :: p => decide (l < nL) && held.all (fun h => decide (h.1 < l)) && disc nL ((l, m) :: held) p
  | held, .rel m l :: p => held.contains (l, m) && disc nL (held.erase (l, m)) p
  | held, .tau :: p => disc nL held p

def initState (progs : List (List Act)) : State := progs.map fun p => { held := [], prog := p }

def allDone (s : State) : Bool := s.all (·.prog.isEmpty)
def stuck (pol : Policy) (s : State) : Bool :=
  !allDone s && (List.range s.length).all fun t => !enabled pol s t

/-- exhaustive exploration (driver / examples): a reachable stuck state, if any; `seen` avoids
revisiting states, the second component counts the states expanded -/
def exploreGo (pol : Policy) : Nat → List State → List State → Nat → Option State × Nat
  | 0, _, _, _ => (none, 1000000000)   -- out of fuel: not an answer
  | _ + 1, [], _, n => (none, n)
  | fuel + 1, s :: rest, seen, n =>
    if seen.contains s then exploreGo pol fuel rest seen n
    else if stuck pol s then (some s, n + 1)
    else
      let succ := (List.range s.length).filterMap fun t => if enabled pol s t then some (stepT s t) else none
      exploreGo pol fuel (succ ++ rest) (s :: seen) (n + 1)

def explore (pol : Policy) (fuel : Nat) (todo : List State) (n : Nat) : Option State × Nat :=
  exploreGo pol fuel todo [] n

/-! ### Data level -/

/-- one call in flight: the request whose cache lookup missed -/
structure Call (Req : Type) where
  pending : Option Req

/-- events of a schedule; `t` is a thread index -/
inductive Ev (Req W H : Type)
  | begin (t : Nat) (k : Req)      -- lookup; a hit returns at once
  | finish (t : Nat)               -- compute on the current state, insert, return
  | evict (k : Req)                -- the cache may drop any entry at any time
  | write (w : W)                  -- a management call (exclusive: no call in flight)
  | handle (h : H)                 -- an operation through the role-manager handle

structure Sys (S Req Dec W : Type) where
  st : S
  cache : List (Req × Dec)
  pending : List (Nat × Req)       -- thread ↦ request being computed
  ws : List W                      -- (ghost) the writes applied so far, oldest first
  log : List (Req × Dec × Nat)     -- returned decisions with the write count at return (newest first)

section
variable {S Req Dec W H : Type} [DecidableEq Req]

def lookup (c : List (Req × Dec)) (k : Req) : Option Dec := (c.find? (·.1 == k)).map (·.2)

/-- one event; events that are not enabled (thread busy / idle, a write while a call is in
flight — excluded by the outer lock) leave the system unchanged -/
def Sys.step (f : S → Req → Dec) (applyW : W → S → S) (clears : W → Bool) (applyH : H → S → S)
    (y : Sys S Req Dec W) : Ev Req W H → Sys S Req Dec W
  | .begin t k =>
    if y.pending.any (·.1 == t) then y
    else match lookup y.cache k with
      | some v => { y with log := (k, v, y.ws.length) :: y.log }
      | none => { y with pending := (t, k) :: y.pending }
  | .finish t =>
    match y.pending.find? (·.1 == t) with
    | none => y
    | some (_, k) =>
      let v := f y.st k
      { y with cache := (k, v) :: y.cache.filter (fun e => !(e.1 == k)),
               pending := y.pending.filter (fun e => !(e.1 == t)),
               log := (k, v, y.ws.length) :: y.log }
  | .evict k => { y with cache := y.cache.filter (fun e => !(e.1 == k)) }
  | .write w =>
    if y.pending.isEmpty then
      { y with st := applyW w y.st, cache := if clears w then [] else y.cache, ws := y.ws ++ [w] }
    else y
  | .handle h => { y with st := applyH h y.st }

/-- the serial oracle: the state after the first `n` writes -/
def serial (applyW : W → S → S) (st0 : S) (ws : List W) (n : Nat) : S :=
  (ws.take n).foldl (fun s w => applyW w s) st0

def Sys.init (st0 : S) : Sys S Req Dec W := { st := st0, cache := [], pending := [], ws := [], log := [] }

def Sys.run (f : S → Req → Dec) (applyW : W → S → S) (clears : W → Bool) (applyH : H → S → S)
    (y : Sys S Req Dec W) (evs : List (Ev Req W H)) : Sys S Req Dec W :=
  evs.foldl (Sys.step f applyW clears applyH) y
end

end Casbin.Conc
