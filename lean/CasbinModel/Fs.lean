import CasbinModel.Basic
/-!
# A tiny file-system model for `FileAdapter::save_policy_file`  (file_adapter.rs:108-131)

`create` truncates, a `write` of `text` under a byte budget `k` stores the first
`min k len` bytes and fails iff `k < len` (what `RLIMIT_FSIZE` / a full disk / an I/O
error produce), `rename` is atomic.  A *crash point* is a prefix of the step list.
What a power loss leaves on disk without `fsync` is outside this model.
-/
namespace Casbin

abbrev Bytes := List Nat

structure Fs where
  files : List (String × Bytes)
  deriving Repr

def Fs.read (fs : Fs) (p : String) : Option Bytes := fs.files.lookup p

def Fs.set (fs : Fs) (p : String) (c : Bytes) : Fs :=
  ⟨(p, c) :: fs.files.filter (fun f => f.1 ≠ p)⟩

def Fs.remove (fs : Fs) (p : String) : Fs := ⟨fs.files.filter (fun f => f.1 ≠ p)⟩

def Fs.rename (fs : Fs) (src dst : String) : Fs :=
  match fs.read src with
  | none => fs
  | some c => (fs.remove src).set dst c

/-- the states the file system goes through while `save_policy_file` runs with a write
budget of `k` bytes (current code: temp file, flush + sync, rename); last = final state -/
def saveAtomicStates (fs : Fs) (path : String) (text : Bytes) (k : Nat) : List Fs :=
  let tmp := path ++ ".tmp"
  let s1 := fs.set tmp []                       -- create(tmp)
  if k < text.length then
    let s2 := s1.set tmp (text.take k)          -- partial write, error surfaces at flush
    [fs, s1, s2, s2.remove tmp]                 -- remove_file(tmp); Err
  else
    let s2 := s1.set tmp text                   -- write_all + flush + sync_all
    [fs, s1, s2, s2.rename tmp path]            -- rename(tmp, path); Ok

/-- `Ok` iff the whole text could be written -/
def saveAtomicOk (text : Bytes) (k : Nat) : Bool := !(k < text.length : Bool)

/-- the code before the repair: `create(path)` then `write_all` -/
def saveTruncatingStates (fs : Fs) (path : String) (text : Bytes) (k : Nat) : List Fs :=
  let s1 := fs.set path []
  [fs, s1, s1.set path (text.take k)]

end Casbin
