import CasbinModel.Basic
/-!
# The streaming effect combiner  (src/effector.rs)

`Stream.new`  mirrors `DefaultEffector::new_stream` (effector.rs:35-56),
`Stream.push` mirrors `DefaultEffectStream::push_effect` (effector.rs:77-127),
`Stream.next` mirrors `DefaultEffectStream::next` (effector.rs:61-64).
-/

namespace Casbin

/-- `EffectKind` (effector.rs:4-8) -/
inductive Eff where
  | allow | indet | deny
  deriving DecidableEq, Repr

/-- the four supported effect expressions (after `escape_assertion`) -/
inductive EffExpr where
  | allowOverride   -- "some(where (p_eft == allow))"
  | denyOverride    -- "!some(where (p_eft == deny))"
  | allowAndDeny    -- "some(where (p_eft == allow)) && !some(where (p_eft == deny))"
  | priority        -- "priority(p_eft) || deny"
  deriving DecidableEq, Repr

def EffExpr.ofString : String → Option EffExpr
  | "some(where (p_eft == allow))" => some .allowOverride
  | "!some(where (p_eft == deny))" => some .denyOverride
  | "some(where (p_eft == allow)) && !some(where (p_eft == deny))" => some .allowAndDeny
  | "priority(p_eft) || deny" => some .priority
  | _ => none

/-- `DefaultEffectStream` (effector.rs:21-30) -/
structure Stream where
  done : Bool
  res  : Bool
  expr : EffExpr
  idx  : Nat
  cap  : Nat
  deriving DecidableEq, Repr

/-- effector.rs:36-56.  `none` = panic (`assert!(cap > 0)`; an unsupported
expression is rejected by `EffExpr.ofString` before we get here). -/
def Stream.new (expr : EffExpr) (cap : Nat) : Option Stream :=
  if cap = 0 then none
  else some { done := false
              res := (match expr with | .denyOverride => true | _ => false)
              expr := expr, idx := 0, cap := cap }

/-- effector.rs:77-127 `push_effect`; returns the new stream and the returned flag. -/
def Stream.push (s : Stream) (e : Eff) : Stream × Bool :=
  -- effector.rs:78-80  `if self.done { return true; }`
  if s.done then (s, true) else
  let s1 : Stream :=
    match s.expr with
    | .allowOverride =>
        if e = .allow then { s with done := true, res := true } else s
    | .allowAndDeny =>
        if e = .allow then { s with res := true }
        else if e = .deny then { s with done := true, res := false } else s
    | .denyOverride =>
        if e = .deny then { s with done := true, res := false } else s
    | .priority =>
        if e ≠ .indet then { s with res := decide (e = .allow), done := true } else s
  let s2 : Stream :=
    if s1.idx + 1 = s1.cap then { s1 with done := true, idx := s1.cap }
    else { s1 with idx := s1.idx + 1 }
  (s2, s2.done)

/-- effector.rs:61-64 `next`; `none` = panic (`assert!(self.done)`). -/
def Stream.next (s : Stream) : Option Bool :=
  if s.done then some s.res else none

/-- push every element whatever `push` returns (a caller that ignores the signal) -/
def pushAll (s : Stream) : List Eff → Stream
  | [] => s
  | e :: es => pushAll (s.push e).1 es

/-- push until the first `true` and stop (what the enforcer loop does, enforcer.rs:208-213) -/
def feed (s : Stream) : List Eff → Stream
  | [] => s
  | e :: es => if (s.push e).2 then (s.push e).1 else feed (s.push e).1 es

/-- the flags returned by pushing the whole sequence -/
def pushFlags (s : Stream) : List Eff → List Bool
  | [] => []
  | e :: es => (s.push e).2 :: pushFlags (s.push e).1 es

/-! ## Declarative specification -/

/-- first effect that is not indeterminate -/
def firstDet : List Eff → Option Eff
  | [] => none
  | e :: es => if e = .indet then firstDet es else some e

/-- the logical definition of each effect rule -/
def combine : EffExpr → List Eff → Bool
  | .allowOverride, es => es.contains .allow
  | .denyOverride,  es => !es.contains .deny
  | .allowAndDeny,  es => es.contains .allow && !es.contains .deny
  | .priority,      es => firstDet es == some .allow

/-- `decided expr pre`: already after `pre` no continuation can change the result -/
def decided : EffExpr → List Eff → Bool
  | .allowOverride, es => es.contains .allow
  | .denyOverride,  es => es.contains .deny
  | .allowAndDeny,  es => es.contains .deny
  | .priority,      es => (firstDet es).isSome

end Casbin
