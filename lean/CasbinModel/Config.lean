import CasbinModel.Text
/-!
# Model definition text  (src/config.rs:71-190, src/model/default_model.rs:47-146, 388-450)

`parseConfig` mirrors `Config::parse_buffer` line by line: trim; skip empty / `#` / `;`
lines; `[section]`; `\` continuation (strip the backslash, `trim_end`, append the *trimmed*
next line with no separator; a blank or comment line, or a `[section]` line, ends the
continuation — the latter becomes the next section); `splitn(2, '=')`, both sides trimmed;
no `=` ⇒ error; a later key overwrites an earlier one.  Whitespace is ASCII.
-/
namespace Casbin

abbrev CfgData := List (Str × List (Str × Str))

def isComment (l : Str) : Bool := l.head? = some '#' || l.head? = some ';'

def isSectionLine (l : Str) : Bool := l.head? = some '[' && l.getLast? = some ']'

def sectionName (l : Str) : Str := (l.drop 1).dropLast

/-- `add_config` (config.rs:151-170) -/
def addConfig (data : CfgData) (sec key val : Str) : CfgData :=
  let sec := if sec.isEmpty then "default".toList else sec
  let rec setKey : List (Str × Str) → List (Str × Str)
    | [] => [(key, val)]
    | (k, v) :: rest => if k = key then (k, val) :: rest else (k, v) :: setKey rest
  let rec setSec : CfgData → CfgData
    | [] => [(sec, [(key, val)])]
    | (s, kvs) :: rest => if s = sec then (s, setKey kvs) :: rest else (s, kvs) :: setSec rest
  setSec data

/-- the continuation loop (config.rs:96-121): returns (joined line, remaining lines, next section) -/
def contLoop : Nat → Str → List Str → Str → Str × List Str × Str
  | 0, line, rest, ns => (line, rest, ns)
  | fuel + 1, line, rest, ns =>
    if line.getLast? ≠ some '\\' then (line, rest, ns) else
    let line := trimR line.dropLast
    match rest with
    | [] => (line, [], ns)
    | nxt :: rest' =>
      let inner := trim nxt
      if inner.isEmpty || isComment inner then contLoop fuel line rest' ns
      else if isSectionLine inner then contLoop fuel line rest' (sectionName inner)
      else contLoop fuel (line ++ inner) rest' ns

/-- `trim_end_matches(|c| c.is_whitespace() || c == '\\')` -/
def trimEndWsBackslash (s : Str) : Str := (s.reverse.dropWhile (fun c => isWs c || c = '\\')).reverse

/-- `splitn(2, '=')` -/
def splitEq (s : Str) : Option (Str × Str) :=
  if '=' ∈ s then some (s.takeWhile (· ≠ '='), (s.dropWhile (· ≠ '=')).drop 1) else none

/-- config.rs:71-149; `none` = parse error -/
def parseLines : Nat → List Str → Str → CfgData → Option CfgData
  | 0, _, _, data => some data
  | _, [], _, data => some data
  | fuel + 1, l :: rest, sec, data =>
    let line := trim l
    if line.isEmpty || isComment line then parseLines fuel rest sec data
    else if isSectionLine line then parseLines fuel rest (sectionName line) data
    else
      let (joined, rest', ns) := contLoop (rest.length + 1) line rest []
      match splitEq (trimEndWsBackslash joined) with
      | none => none
      | some (k, v) =>
        parseLines fuel rest' (if ns.isEmpty then sec else ns) (addConfig data sec (trim k) (trim v))

def parseConfig (text : Str) : Option CfgData :=
  let lines := splitLines text
  parseLines (lines.length + 1) lines [] []

def CfgData.get (d : CfgData) (sec key : Str) : Option Str := (d.lookup sec).bind (·.lookup key)

/-- util.rs `remove_comment`: cut at the first `#`, `trim_end` -/
def removeComment (s : Str) : Str := trimR (s.takeWhile (· ≠ '#'))

def splitOnChar (c : Char) (s : Str) : List Str :=
  let rec go (cur : Str) : Str → List Str
    | [] => [cur.reverse]
    | x :: xs => if x = c then cur.reverse :: go [] xs else go (x :: cur) xs
  go [] s

/-- one loaded assertion: key, value (escaped for e/m/g), tokens (r/p only) -/
structure Def where
  key : Str
  value : Str
  tokens : List Str
  deriving Repr, DecidableEq

/-- `add_def` (default_model.rs:116-146); `none` = value empty after comment removal -/
def addDef (sec key : Str) (value : Str) : Option Def :=
  let v := removeComment value
  if v.isEmpty then none else
  if sec = ['r'] || sec = ['p'] then
    some { key := key, value := v, tokens := (splitOnChar ',' v).map (fun x => key ++ ['_'] ++ trim x) }
  else some { key := key, value := escapeAssertionGo (v.length + 1) false v, tokens := [] }

def secName : Char → Str
  | 'r' => "request_definition".toList | 'p' => "policy_definition".toList
  | 'g' => "role_definition".toList | 'e' => "policy_effect".toList | _ => "matchers".toList

def natToStr (n : Nat) : Str := (toString n).toList

/-- `load_section` (default_model.rs:62-79): keys `x`, `x2`, `x3`, … until the first gap -/
def loadSection (d : CfgData) (sec : Char) : Nat → Nat → List Def
  | 0, _ => []
  | fuel + 1, i =>
    let key := if i = 1 then [sec] else sec :: natToStr i
    match d.get (secName sec) key with
    | none => []
    | some v =>
      match addDef [sec] key v with
      | none => []
      | some df => df :: loadSection d sec fuel (i + 1)

/-- `DefaultModel::from_str`: the five sections in the order they are loaded -/
def modelFromText (text : Str) : Option (List (Char × List Def)) :=
  (parseConfig text).map (fun d => ['r', 'p', 'e', 'm', 'g'].map (fun s => (s, loadSection d s 64 1)))

end Casbin
