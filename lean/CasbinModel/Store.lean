import CasbinModel.Basic
/-!
# The policy store  (src/model/default_model.rs:198-386, src/model/assertion.rs:22)

`Assertion.policy` is a `hashlink::LinkedHashSet<Vec<String>>`: an insertion-ordered,
duplicate-free collection.  It is modelled as a `List` together with the separate
invariant `Nodup` (Lemmas/Store.lean), and the operations are written the way the
crate calls hashlink: `replace` (keeps the position of an existing value), `remove`,
`contains`, iteration in insertion order.
-/
namespace Casbin

abbrev Rule := List String

section OrdSet
variable {α : Type} [DecidableEq α]

/-- `LinkedHashSet::replace(v).is_none()`: append iff absent; `true` iff inserted -/
def OrdSet.add (s : List α) (v : α) : List α × Bool :=
  if v ∈ s then (s, false) else (s ++ [v], true)

/-- the loop `for rule in rules { policy.replace(rule) }` (default_model.rs add_policies) -/
def OrdSet.addAll (s : List α) : List α → List α
  | [] => s
  | v :: vs => OrdSet.addAll (OrdSet.add s v).1 vs

/-- `LinkedHashSet::remove` -/
def OrdSet.remove (s : List α) (v : α) : List α × Bool :=
  if v ∈ s then (s.erase v, true) else (s, false)

def OrdSet.removeAll (s : List α) : List α → List α
  | [] => s
  | v :: vs => OrdSet.removeAll (OrdSet.remove s v).1 vs

end OrdSet

/-- one assertion that holds rules (a `p`-type or `g`-type definition) -/
structure PolDef where
  key : String
  /-- `p`: the tokens `p_sub, p_obj, …`; `g`: unused -/
  tokens : List String
  /-- `g`: number of `_` in the definition (assertion.rs:53); `p`: 0 -/
  arity : Nat
  policy : List Rule
  deriving Repr, DecidableEq

/-- the two rule-holding sections of `DefaultModel.model` (LinkedHashMap order kept) -/
structure Store where
  p : List PolDef
  g : List PolDef
  deriving Repr, DecidableEq

def Store.sec (s : Store) (sec : String) : List PolDef :=
  if sec = "p" then s.p else if sec = "g" then s.g else []

def Store.setSec (s : Store) (sec : String) (ds : List PolDef) : Store :=
  if sec = "p" then { s with p := ds } else if sec = "g" then { s with g := ds } else s

/-- `model.get(sec).get(ptype)` -/
def Store.find (s : Store) (sec ptype : String) : Option PolDef :=
  (s.sec sec).find? (·.key = ptype)

def updDef (ds : List PolDef) (ptype : String) (f : PolDef → PolDef) : List PolDef :=
  ds.map (fun d => if d.key = ptype then f d else d)

def Store.update (s : Store) (sec ptype : String) (f : PolDef → PolDef) : Store :=
  s.setSec sec (updDef (s.sec sec) ptype f)

/-- `get_policy` (default_model.rs:233-240) -/
def Store.getPolicy (s : Store) (sec ptype : String) : List Rule :=
  match s.find sec ptype with
  | some d => d.policy
  | none => []

/-- default_model.rs:198-211 `add_policy` -/
def Store.addPolicy (s : Store) (sec ptype : String) (rule : Rule) : Store × Bool :=
  match s.find sec ptype with
  | none => (s, false)
  | some d =>
    (s.update sec ptype (fun d => { d with policy := (OrdSet.add d.policy rule).1 }),
     (OrdSet.add d.policy rule).2)

/-- default_model.rs:213-234 `add_policies`: all-or-nothing on "already present" -/
def Store.addPolicies (s : Store) (sec ptype : String) (rules : List Rule) : Store × Bool :=
  match s.find sec ptype with
  | none => (s, false)
  | some d =>
    if rules.any (fun r => r ∈ d.policy) then (s, false)
    else (s.update sec ptype (fun d => { d with policy := OrdSet.addAll d.policy rules }), true)

/-- default_model.rs:297-309 `remove_policy` -/
def Store.removePolicy (s : Store) (sec ptype : String) (rule : Rule) : Store × Bool :=
  match s.find sec ptype with
  | none => (s, false)
  | some d =>
    (s.update sec ptype (fun d => { d with policy := (OrdSet.remove d.policy rule).1 }),
     (OrdSet.remove d.policy rule).2)

/-- default_model.rs:311-334 `remove_policies`: all-or-nothing on "absent" -/
def Store.removePolicies (s : Store) (sec ptype : String) (rules : List Rule) : Store × Bool :=
  match s.find sec ptype with
  | none => (s, false)
  | some d =>
    if rules.any (fun r => r ∉ d.policy) then (s, false)
    else (s.update sec ptype (fun d => { d with policy := OrdSet.removeAll d.policy rules }), true)

/-- the per-rule test of `remove_filtered_policy` / `get_filtered_policy`
(default_model.rs:252-262, 362-372): every non-empty filter value must equal the
field at `fieldIndex + i`; a missing field is a mismatch (`rule.get(..) != Some(..)`). -/
def filterMatch (fieldIndex : Nat) (vals : List String) (rule : Rule) : Bool :=
  (vals.zipIdx).all (fun (v, i) => v = "" || rule[fieldIndex + i]? = some v)

/-- default_model.rs:348-386 `remove_filtered_policy` -/
def Store.removeFiltered (s : Store) (sec ptype : String) (fieldIndex : Nat) (vals : List String) :
    Store × Bool × List Rule :=
  if vals.isEmpty then (s, false, []) else
  match s.find sec ptype with
  | none => (s, false, [])
  | some d =>
    let removed := d.policy.filter (filterMatch fieldIndex vals)
    if removed.isEmpty then (s, false, [])
    else (s.update sec ptype (fun d => { d with policy := d.policy.filter (fun r => !filterMatch fieldIndex vals r) }),
          true, removed)

/-- default_model.rs:242-272 `get_filtered_policy` -/
def Store.getFiltered (s : Store) (sec ptype : String) (fieldIndex : Nat) (vals : List String) : List Rule :=
  (s.getPolicy sec ptype).filter (filterMatch fieldIndex vals)

/-- default_model.rs:274-282 `has_policy` -/
def Store.hasPolicy (s : Store) (sec ptype : String) (rule : Rule) : Bool :=
  decide (rule ∈ s.getPolicy sec ptype)

/-- distinct values in first-occurrence order (a `LinkedHashSet` fold with `insert`
moves a repeated value to the back: the order is that of *last* occurrence) -/
def lastOccurrenceOrder : List String → List String
  | [] => []
  | x :: xs => if x ∈ xs then lastOccurrenceOrder xs else x :: lastOccurrenceOrder xs

/-- default_model.rs:284-299 `get_values_for_field_in_policy`; `none` = panic (`x[field_index]`) -/
def Store.valuesForField (s : Store) (sec ptype : String) (fieldIndex : Nat) : Option (List String) :=
  let rules := s.getPolicy sec ptype
  if rules.all (fun r => fieldIndex < r.length) then
    some (lastOccurrenceOrder (rules.map (fun r => r.getD fieldIndex "")))
  else none

/-- default_model.rs:336-350 `clear_policy` -/
def Store.clear (s : Store) : Store :=
  { p := s.p.map (fun d => { d with policy := [] }), g := s.g.map (fun d => { d with policy := [] }) }

/-- `get_all_policy` / `get_all_grouping_policy` (management_api.rs): `[sec, ptype, fields…]` -/
def Store.allOf (s : Store) (sec : String) : List Rule :=
  (s.sec sec).flatMap (fun d => d.policy.map (fun r => sec :: d.key :: r))

end Casbin
