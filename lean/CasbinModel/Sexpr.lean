import CasbinModel.Matcher
import CasbinModel.Proto
/-!
# Wire format of matcher ASTs and request values (driver side)
`(and (cmp eq (r 0) (p 0)) (g2 g (r 0) (p 0)))`; atoms `s:…`, `i:…`, `b:…`, `u:`;
spaces and parentheses inside atoms are percent-escaped by the harness.
-/
namespace Casbin.Sexpr
open Casbin Casbin.Proto

inductive Tok where
  | lp | rp | sym (s : String)
  deriving Repr

def tokenize (s : String) : List Tok :=
  let rec go (cs : List Char) (cur : List Char) (acc : List Tok) : List Tok :=
    let flush (acc : List Tok) := if cur.isEmpty then acc else Tok.sym (String.ofList cur.reverse) :: acc
    match cs with
    | [] => (flush acc).reverse
    | '(' :: r => go r [] (Tok.lp :: flush acc)
    | ')' :: r => go r [] (Tok.rp :: flush acc)
    | ' ' :: r => go r [] (flush acc)
    | c :: r => go r (c :: cur) acc
  go s.toList [] []

def parseAtom (s : String) : Atom :=
  let body := unesc (String.ofList (s.toList.drop 2))
  match s.toList.take 2 with
  | ['s', ':'] => .str body
  | ['i', ':'] => .int (body.toInt?.getD 0)
  | ['b', ':'] => .bool (body == "true")
  | _ => .unit

def parseCmp : String → CmpOp
  | "eq" => .eq | "ne" => .ne | "lt" => .lt | "le" => .le | "gt" => .gt | _ => .ge

/-- recursive-descent parser on fuel -/
def parse : Nat → List Tok → Option (Expr × List Tok)
  | 0, _ => none
  | f + 1, .lp :: .sym head :: rest =>
    let sub := parse f
    let close (e : Expr) (ts : List Tok) : Option (Expr × List Tok) :=
      match ts with | .rp :: r => some (e, r) | _ => none
    match head, rest with
    | "lit", .sym a :: r => close (.lit (parseAtom a)) r
    | "r", .sym i :: r => close (.r i.toNat!) r
    | "p", .sym i :: r => close (.p i.toNat!) r
    | "evalp", .sym i :: r => close (.evalP i.toNat!) r
    | "unk", r => close .unknownVar r
    | "attr", .sym fld :: r => (sub r).bind (fun (e, r) => close (.attr e (unesc fld)) r)
    | "cmp", .sym op :: r =>
      (sub r).bind (fun (a, r) => (sub r).bind (fun (b, r) => close (.cmp (parseCmp op) a b) r))
    | "and", r => (sub r).bind (fun (a, r) => (sub r).bind (fun (b, r) => close (.and a b) r))
    | "or", r => (sub r).bind (fun (a, r) => (sub r).bind (fun (b, r) => close (.or a b) r))
    | "not", r => (sub r).bind (fun (a, r) => close (.not a) r)
    | "g2", .sym n :: r =>
      (sub r).bind (fun (a, r) => (sub r).bind (fun (b, r) => close (.g2 (unesc n) a b) r))
    | "g3", .sym n :: r =>
      (sub r).bind (fun (a, r) => (sub r).bind (fun (b, r) => (sub r).bind (fun (c, r) => close (.g3 (unesc n) a b c) r)))
    | "call2", .sym n :: r =>
      (sub r).bind (fun (a, r) => (sub r).bind (fun (b, r) => close (.call2 (unesc n) a b) r))
    | "call3", .sym n :: r =>
      (sub r).bind (fun (a, r) => (sub r).bind (fun (b, r) => (sub r).bind (fun (c, r) => close (.call3 (unesc n) a b c) r)))
    | _, _ => none
  | _, _ => none

/-- `-` = a matcher whose text does not compile -/
def parseExpr (s : String) : Option Expr :=
  if s == "-" then none else
  let ts := tokenize s
  (parse (ts.length + 1) ts).map (·.1)

/-- request value: atom, or `m:k=s:v&k2=i:3` -/
def parseVal (s : String) : Val :=
  match s.toList.take 2 with
  | ['m', ':'] =>
    let body := String.ofList (s.toList.drop 2)
    if body.isEmpty then .map [] else
    .map ((body.splitOn "&").map (fun kv =>
      match kv.splitOn "=" with
      | [k, v] => (unesc k, parseAtom v)
      | _ => (unesc kv, Atom.unit)))
  | _ => .atom (parseAtom s)

end Casbin.Sexpr
