import CasbinModel.Lemmas.Store
/-! Batch operations on the store as folds of single operations (C14 replica, C04). -/
namespace Casbin

/-- a generic rule-list update, seen through `getPolicy`; `g []` is irrelevant when the type is unknown -/
theorem Store.getPolicy_update' (s : Store) (sec pt sec' pt' : String) (g : List Rule → List Rule) :
    (s.update sec pt (fun d => { d with policy := g d.policy })).getPolicy sec' pt' =
      if sec = sec' ∧ pt = pt' ∧ (s.find sec pt).isSome = true then g (s.getPolicy sec pt) else s.getPolicy sec' pt' := by
  rw [Store.getPolicy_update]
  by_cases h : sec = sec' ∧ pt = pt'
  · obtain ⟨h1, h2⟩ := h; subst h1 h2
    cases hf : s.find sec pt with
    | none => simp [Store.getPolicy, hf]
    | some d => simp [Store.getPolicy, hf]
  · have : ¬ (sec = sec' ∧ pt = pt' ∧ (s.find sec pt).isSome = true) := fun hh => h ⟨hh.1, hh.2.1⟩
    simp [h, this]

theorem Store.find_isSome_update (s : Store) (sec pt sec' pt' : String) (g : List Rule → List Rule) :
    ((s.update sec pt (fun d => { d with policy := g d.policy })).find sec' pt').isSome = (s.find sec' pt').isSome := by
  rw [Store.find_update s sec pt sec' pt' (fun d => { d with policy := g d.policy }) (fun d => rfl)]
  by_cases h : sec = sec' ∧ pt = pt'
  · obtain ⟨h1, h2⟩ := h; subst h1 h2
    simp only [and_self, if_true]
    cases s.find sec pt <;> rfl
  · simp [h]

theorem Store.addPolicy_getPolicy (s : Store) (sec pt : String) (rule : Rule) (sec' pt' : String) :
    (s.addPolicy sec pt rule).1.getPolicy sec' pt' =
      if sec = sec' ∧ pt = pt' ∧ (s.find sec pt).isSome = true then (OrdSet.add (s.getPolicy sec pt) rule).1
      else s.getPolicy sec' pt' := by
  unfold Store.addPolicy
  cases hf : s.find sec pt with
  | none => simp
  | some d =>
    simp only
    rw [Store.getPolicy_update' s sec pt sec' pt' (fun pol => (OrdSet.add pol rule).1), hf]

theorem Store.addPolicy_find (s : Store) (sec pt : String) (rule : Rule) (sec' pt' : String) :
    ((s.addPolicy sec pt rule).1.find sec' pt').isSome = (s.find sec' pt').isSome := by
  unfold Store.addPolicy
  cases hf : s.find sec pt with
  | none => rfl
  | some d => exact Store.find_isSome_update s sec pt sec' pt' (fun pol => (OrdSet.add pol rule).1)

theorem Store.removePolicy_getPolicy (s : Store) (sec pt : String) (rule : Rule) (sec' pt' : String) :
    (s.removePolicy sec pt rule).1.getPolicy sec' pt' =
      if sec = sec' ∧ pt = pt' ∧ (s.find sec pt).isSome = true then (OrdSet.remove (s.getPolicy sec pt) rule).1
      else s.getPolicy sec' pt' := by
  unfold Store.removePolicy
  cases hf : s.find sec pt with
  | none => simp
  | some d =>
    simp only
    rw [Store.getPolicy_update' s sec pt sec' pt' (fun pol => (OrdSet.remove pol rule).1), hf]

theorem Store.removePolicy_find (s : Store) (sec pt : String) (rule : Rule) (sec' pt' : String) :
    ((s.removePolicy sec pt rule).1.find sec' pt').isSome = (s.find sec' pt').isSome := by
  unfold Store.removePolicy
  cases hf : s.find sec pt with
  | none => rfl
  | some d => exact Store.find_isSome_update s sec pt sec' pt' (fun pol => (OrdSet.remove pol rule).1)

/-- folding single additions = one `addAll` on that policy type -/
theorem Store.foldAdd_getPolicy (rules : List Rule) (s : Store) (sec pt sec' pt' : String) :
    (rules.foldl (fun s r => (s.addPolicy sec pt r).1) s).getPolicy sec' pt' =
      if sec = sec' ∧ pt = pt' ∧ (s.find sec pt).isSome = true then OrdSet.addAll (s.getPolicy sec pt) rules
      else s.getPolicy sec' pt' := by
  induction rules generalizing s with
  | nil =>
    simp only [List.foldl_nil, OrdSet.addAll]
    split
    · rename_i h; obtain ⟨h1, h2, _⟩ := h; subst h1 h2; rfl
    · rfl
  | cons r rs ih =>
    simp only [List.foldl_cons]
    rw [ih, Store.addPolicy_find, Store.addPolicy_getPolicy, Store.addPolicy_getPolicy]
    by_cases h : sec = sec' ∧ pt = pt' ∧ (s.find sec pt).isSome = true
    · obtain ⟨h1, h2, h3⟩ := h; subst h1 h2
      simp [h3, OrdSet.addAll]
    · simp only [h, if_false]

/-- folding single removals = one `removeAll` on that policy type -/
theorem Store.foldRemove_getPolicy (rules : List Rule) (s : Store) (sec pt sec' pt' : String) :
    (rules.foldl (fun s r => (s.removePolicy sec pt r).1) s).getPolicy sec' pt' =
      if sec = sec' ∧ pt = pt' ∧ (s.find sec pt).isSome = true then OrdSet.removeAll (s.getPolicy sec pt) rules
      else s.getPolicy sec' pt' := by
  induction rules generalizing s with
  | nil =>
    simp only [List.foldl_nil, OrdSet.removeAll]
    split
    · rename_i h; obtain ⟨h1, h2, _⟩ := h; subst h1 h2; rfl
    · rfl
  | cons r rs ih =>
    simp only [List.foldl_cons]
    rw [ih, Store.removePolicy_find, Store.removePolicy_getPolicy, Store.removePolicy_getPolicy]
    by_cases h : sec = sec' ∧ pt = pt' ∧ (s.find sec pt).isSome = true
    · obtain ⟨h1, h2, h3⟩ := h; subst h1 h2
      simp [h3, OrdSet.removeAll]
    · simp only [h, if_false]

/-- removing exactly the rules a filter selects, one by one, leaves the rules it does not select -/
theorem OrdSet.removeAll_filter (s : List Rule) (h : s.Nodup) (p : Rule → Bool) :
    OrdSet.removeAll s (s.filter p) = s.filter (fun r => !p r) := by
  -- generalise: remove the selected rules of a suffix-independent list `t ⊆ s`
  have key : ∀ (t s : List Rule), s.Nodup → (∀ x ∈ t, x ∈ s ∧ p x = true) → t.Nodup →
      OrdSet.removeAll s t = s.filter (fun r => !(decide (r ∈ t))) := by
    intro t
    induction t with
    | nil =>
      intro s _ _ _
      simp only [OrdSet.removeAll, List.not_mem_nil, decide_false, Bool.not_false]
      exact (List.filter_eq_self.mpr (fun _ _ => rfl)).symm
    | cons x t ih =>
      intro s hs hx ht
      have hxs : x ∈ s := (hx x (by simp)).1
      have ht' : t.Nodup := (List.nodup_cons.mp ht).2
      have hxt : x ∉ t := (List.nodup_cons.mp ht).1
      have hstep : OrdSet.removeAll s (x :: t) = OrdSet.removeAll (s.erase x) t := by
        simp only [OrdSet.removeAll, OrdSet.remove, hxs, if_true]
        first | rfl | (congr 1; exact (erase_inst_irrel _ _)) | (congr 1; exact (erase_inst_irrel _ _).symm)
      rw [hstep, ih (s.erase x) (hs.erase x) ?_ ht']
      · -- filter (∉ t) (erase x s) = filter (∉ x :: t) s
        rw [hs.erase_eq_filter]
        rw [List.filter_filter]
        apply List.filter_congr
        intro r _
        by_cases hrx : r = x
        · subst hrx; simp [hxt]
        · simp [hrx]
      · intro y hy
        have := hx y (by simp [hy])
        refine ⟨?_, this.2⟩
        rw [hs.mem_erase_iff]
        exact ⟨fun h => hxt (h ▸ hy), this.1⟩
  rw [key (s.filter p) s h (fun x hx => by simpa using List.mem_filter.mp hx) (h.filter _)]
  apply List.filter_congr
  intro r hr
  by_cases hp : p r = true
  · simp [hp, List.mem_filter, hr]
  · simp [hp, List.mem_filter]

end Casbin
