import CasbinModel.Enforcer
/-! With auto-save on, each of the five management calls either stops at the adapter or does, on the enforcer that holds
the adapter's new state, exactly what it does with auto-save off. -/
namespace Casbin

/-- the enforcer with the auto-save switch set -/
def Enforcer.withSave (e : Enforcer) (b : Bool) : Enforcer := { e with autoSave := b }

def Enforcer.setStore (e : Enforcer) (s' : Store) : Enforcer := { e with store := s' }

/-- the model-side part the five calls share: store replaced, event delivered, links updated -/
def Enforcer.goCore (e : Enforcer) (s' : Store) (changed : Bool) (ev : Event) (sec pt : String) (ins : Bool)
    (rules : List Rule) (ret : Res) : Enforcer × Res :=
  let e := e.setStore s'
  let e := if changed && e.autoNotify then e.emit ev else e
  e.linkUpdate changed sec pt ins rules ret

theorem setStore_withSave (e : Enforcer) (b : Bool) (s' : Store) : (e.withSave b).setStore s' = (e.setStore s').withSave b := rfl
theorem withSave_autoNotify (e : Enforcer) (b : Bool) : (e.withSave b).autoNotify = e.autoNotify := rfl

theorem emit_withSave (e : Enforcer) (b : Bool) (ev : Event) : (e.withSave b).emit ev = (e.emit ev).withSave b := by
  unfold Enforcer.emit Enforcer.withSave
  split <;> rfl

theorem linkUpdate_withSave (e : Enforcer) (b : Bool) (c : Bool) (sec pt : String) (ins : Bool) (rules : List Rule) (ret : Res) :
    (e.withSave b).linkUpdate c sec pt ins rules ret =
      ((e.linkUpdate c sec pt ins rules ret).1.withSave b, (e.linkUpdate c sec pt ins rules ret).2) := by
  unfold Enforcer.linkUpdate Enforcer.withSave
  dsimp only
  split
  · rfl
  · split
    · rfl
    · split <;> rfl

theorem goCore_withSave (e : Enforcer) (b : Bool) (s' : Store) (c : Bool) (ev : Event) (sec pt : String) (ins : Bool)
    (rules : List Rule) (ret : Res) :
    (e.withSave b).goCore s' c ev sec pt ins rules ret =
      ((e.goCore s' c ev sec pt ins rules ret).1.withSave b, (e.goCore s' c ev sec pt ins rules ret).2) := by
  unfold Enforcer.goCore
  dsimp only
  rw [setStore_withSave]
  simp only [withSave_autoNotify]
  by_cases hc : (c && (e.setStore s').autoNotify) = true
  · simp only [hc, if_true]
    rw [emit_withSave, linkUpdate_withSave]
  · simp only [hc, Bool.false_eq_true, if_false]
    rw [linkUpdate_withSave]

theorem linkUpdate_autoSave (e : Enforcer) (c : Bool) (sec pt : String) (ins : Bool) (rules : List Rule) (ret : Res) :
    (e.linkUpdate c sec pt ins rules ret).1.autoSave = e.autoSave := by
  unfold Enforcer.linkUpdate
  split
  · rfl
  · split
    · rfl
    · split <;> rfl

theorem goCore_autoSave (e : Enforcer) (s' : Store) (c : Bool) (ev : Event) (sec pt : String) (ins : Bool)
    (rules : List Rule) (ret : Res) : (e.goCore s' c ev sec pt ins rules ret).1.autoSave = e.autoSave := by
  unfold Enforcer.goCore
  dsimp only
  rw [linkUpdate_autoSave]
  split
  · unfold Enforcer.emit Enforcer.setStore; split <;> rfl
  · rfl

theorem withSave_back (y : Enforcer) (b : Bool) (h : y.autoSave = b) (b' : Bool) : (y.withSave b').withSave b = y := by
  cases y
  simp only [Enforcer.withSave] at h ⊢
  subst h
  rfl

/-- what auto-save on means for a call whose model-side part is `goCore`: stopped at the adapter, or the auto-save-off call
on the enforcer holding the adapter's new state (with the switch put back) -/
theorem on_cases (e : Enforcer) (hs : e.autoSave = true) (a : AdapterSt) (s' : Store) (c : Bool) (ev : Event) (sec pt : String)
    (ins : Bool) (rules : List Rule) (ret : Res) :
    (({ e with adapter := a } : Enforcer).goCore s' c ev sec pt ins rules ret).1 =
      (((({ e with adapter := a } : Enforcer).withSave false).goCore s' c ev sec pt ins rules ret).1).withSave true := by
  rw [goCore_withSave]
  dsimp only
  rw [withSave_back _ true (by rw [goCore_autoSave]; exact hs)]

/-! the five calls in terms of `goCore` -/

theorem addPolicy_off (e : Enforcer) (hs : e.autoSave = false) (sec pt : String) (rule : Rule) :
    e.addPolicy sec pt rule = e.goCore (e.store.addPolicy sec pt rule).1 (e.store.addPolicy sec pt rule).2
      (.addPolicy sec pt rule) sec pt true [rule] (.bool (e.store.addPolicy sec pt rule).2) := by
  unfold Enforcer.addPolicy Enforcer.goCore Enforcer.setStore
  rw [if_neg (by rw [hs]; exact Bool.false_ne_true)]

theorem removePolicy_off (e : Enforcer) (hs : e.autoSave = false) (sec pt : String) (rule : Rule) :
    e.removePolicy sec pt rule = e.goCore (e.store.removePolicy sec pt rule).1 (e.store.removePolicy sec pt rule).2
      (.removePolicy sec pt rule) sec pt false [rule] (.bool (e.store.removePolicy sec pt rule).2) := by
  unfold Enforcer.removePolicy Enforcer.goCore Enforcer.setStore
  rw [if_neg (by rw [hs]; exact Bool.false_ne_true)]

theorem addPolicies_off (e : Enforcer) (hs : e.autoSave = false) (sec pt : String) (rules : List Rule) :
    e.addPolicies sec pt rules = e.goCore (e.store.addPolicies sec pt rules).1 (e.store.addPolicies sec pt rules).2
      (.addPolicies sec pt rules) sec pt true rules (.bool (e.store.addPolicies sec pt rules).2) := by
  unfold Enforcer.addPolicies Enforcer.goCore Enforcer.setStore
  rw [if_neg (by rw [hs]; exact Bool.false_ne_true)]

theorem removePolicies_off (e : Enforcer) (hs : e.autoSave = false) (sec pt : String) (rules : List Rule) :
    e.removePolicies sec pt rules = e.goCore (e.store.removePolicies sec pt rules).1 (e.store.removePolicies sec pt rules).2
      (.removePolicies sec pt rules) sec pt false rules (.bool (e.store.removePolicies sec pt rules).2) := by
  unfold Enforcer.removePolicies Enforcer.goCore Enforcer.setStore
  rw [if_neg (by rw [hs]; exact Bool.false_ne_true)]

theorem removeFiltered_off (e : Enforcer) (hs : e.autoSave = false) (sec pt : String) (idx : Nat) (vals : List String) :
    e.removeFiltered sec pt idx vals = e.goCore (e.store.removeFiltered sec pt idx vals).1 (e.store.removeFiltered sec pt idx vals).2.1
      (.removeFiltered sec pt (e.store.removeFiltered sec pt idx vals).2.2) sec pt false (e.store.removeFiltered sec pt idx vals).2.2
      (.rules (e.store.removeFiltered sec pt idx vals).2.1 (e.store.removeFiltered sec pt idx vals).2.2) := by
  unfold Enforcer.removeFiltered Enforcer.goCore Enforcer.setStore
  rw [if_neg (by rw [hs]; exact Bool.false_ne_true)]

theorem addPolicy_on_eq (e : Enforcer) (hs : e.autoSave = true) (sec pt : String) (rule : Rule) :
    e.addPolicy sec pt rule =
      match e.adapter.addPolicy sec pt rule with
      | (a, none) => (({ e with adapter := a } : Enforcer), .err .adapter)
      | (a, some false) => (({ e with adapter := a } : Enforcer), .bool false)
      | (a, some true) => ({ e with adapter := a } : Enforcer).goCore (e.store.addPolicy sec pt rule).1 (e.store.addPolicy sec pt rule).2
          (.addPolicy sec pt rule) sec pt true [rule] (.bool (e.store.addPolicy sec pt rule).2) := by
  unfold Enforcer.addPolicy Enforcer.goCore Enforcer.setStore
  rw [if_pos hs]
  cases e.adapter.addPolicy sec pt rule with
  | mk a o =>
    cases o with
    | none => rfl
    | some b => cases b <;> rfl

/-- **auto-save on, `addPolicy`**: the call stops at the adapter (error or veto: only the adapter's own state moves) or is the
auto-save-off call on the enforcer holding the adapter's new state -/
theorem addPolicy_on (e : Enforcer) (hs : e.autoSave = true) (sec pt : String) (rule : Rule) :
    (∃ a, (e.addPolicy sec pt rule).1 = ({ e with adapter := a } : Enforcer)) ∨
    (∃ a, (e.addPolicy sec pt rule).1 =
      (((({ e with adapter := a } : Enforcer).withSave false).addPolicy sec pt rule).1).withSave true) := by
  rw [addPolicy_on_eq e hs]
  cases h : e.adapter.addPolicy sec pt rule with
  | mk a o =>
    cases o with
    | none => exact Or.inl ⟨a, rfl⟩
    | some b =>
      cases b with
      | false => exact Or.inl ⟨a, rfl⟩
      | true =>
        refine Or.inr ⟨a, ?_⟩
        rw [addPolicy_off _ rfl]
        exact on_cases e hs a (e.store.addPolicy sec pt rule).1 (e.store.addPolicy sec pt rule).2
          (.addPolicy sec pt rule) sec pt true [rule] (.bool (e.store.addPolicy sec pt rule).2)

theorem removePolicy_on_eq (e : Enforcer) (hs : e.autoSave = true) (sec pt : String) (rule : Rule) :
    e.removePolicy sec pt rule =
      match e.adapter.removePolicy sec pt rule with
      | (a, none) => (({ e with adapter := a } : Enforcer), .err .adapter)
      | (a, some false) => (({ e with adapter := a } : Enforcer), .bool false)
      | (a, some true) => ({ e with adapter := a } : Enforcer).goCore (e.store.removePolicy sec pt rule).1 (e.store.removePolicy sec pt rule).2
          (.removePolicy sec pt rule) sec pt false [rule] (.bool (e.store.removePolicy sec pt rule).2) := by
  unfold Enforcer.removePolicy Enforcer.goCore Enforcer.setStore
  rw [if_pos hs]
  cases e.adapter.removePolicy sec pt rule with
  | mk a o =>
    cases o with
    | none => rfl
    | some b => cases b <;> rfl

/-- **auto-save on, `removePolicy`**: the call stops at the adapter (error or veto: only the adapter's own state moves) or is the
auto-save-off call on the enforcer holding the adapter's new state -/
theorem removePolicy_on (e : Enforcer) (hs : e.autoSave = true) (sec pt : String) (rule : Rule) :
    (∃ a, (e.removePolicy sec pt rule).1 = ({ e with adapter := a } : Enforcer)) ∨
    (∃ a, (e.removePolicy sec pt rule).1 =
      (((({ e with adapter := a } : Enforcer).withSave false).removePolicy sec pt rule).1).withSave true) := by
  rw [removePolicy_on_eq e hs]
  cases h : e.adapter.removePolicy sec pt rule with
  | mk a o =>
    cases o with
    | none => exact Or.inl ⟨a, rfl⟩
    | some b =>
      cases b with
      | false => exact Or.inl ⟨a, rfl⟩
      | true =>
        refine Or.inr ⟨a, ?_⟩
        rw [removePolicy_off _ rfl]
        exact on_cases e hs a (e.store.removePolicy sec pt rule).1 (e.store.removePolicy sec pt rule).2
          (.removePolicy sec pt rule) sec pt false [rule] (.bool (e.store.removePolicy sec pt rule).2)

theorem addPolicies_on_eq (e : Enforcer) (hs : e.autoSave = true) (sec pt : String) (rules : List Rule) :
    e.addPolicies sec pt rules =
      match e.adapter.addPolicies sec pt rules with
      | (a, none) => (({ e with adapter := a } : Enforcer), .err .adapter)
      | (a, some false) => (({ e with adapter := a } : Enforcer), .bool false)
      | (a, some true) => ({ e with adapter := a } : Enforcer).goCore (e.store.addPolicies sec pt rules).1 (e.store.addPolicies sec pt rules).2
          (.addPolicies sec pt rules) sec pt true rules (.bool (e.store.addPolicies sec pt rules).2) := by
  unfold Enforcer.addPolicies Enforcer.goCore Enforcer.setStore
  rw [if_pos hs]
  cases e.adapter.addPolicies sec pt rules with
  | mk a o =>
    cases o with
    | none => rfl
    | some b => cases b <;> rfl

/-- **auto-save on, `addPolicies`**: the call stops at the adapter (error or veto: only the adapter's own state moves) or is the
auto-save-off call on the enforcer holding the adapter's new state -/
theorem addPolicies_on (e : Enforcer) (hs : e.autoSave = true) (sec pt : String) (rules : List Rule) :
    (∃ a, (e.addPolicies sec pt rules).1 = ({ e with adapter := a } : Enforcer)) ∨
    (∃ a, (e.addPolicies sec pt rules).1 =
      (((({ e with adapter := a } : Enforcer).withSave false).addPolicies sec pt rules).1).withSave true) := by
  rw [addPolicies_on_eq e hs]
  cases h : e.adapter.addPolicies sec pt rules with
  | mk a o =>
    cases o with
    | none => exact Or.inl ⟨a, rfl⟩
    | some b =>
      cases b with
      | false => exact Or.inl ⟨a, rfl⟩
      | true =>
        refine Or.inr ⟨a, ?_⟩
        rw [addPolicies_off _ rfl]
        exact on_cases e hs a (e.store.addPolicies sec pt rules).1 (e.store.addPolicies sec pt rules).2
          (.addPolicies sec pt rules) sec pt true rules (.bool (e.store.addPolicies sec pt rules).2)

theorem removePolicies_on_eq (e : Enforcer) (hs : e.autoSave = true) (sec pt : String) (rules : List Rule) :
    e.removePolicies sec pt rules =
      match e.adapter.removePolicies sec pt rules with
      | (a, none) => (({ e with adapter := a } : Enforcer), .err .adapter)
      | (a, some false) => (({ e with adapter := a } : Enforcer), .bool false)
      | (a, some true) => ({ e with adapter := a } : Enforcer).goCore (e.store.removePolicies sec pt rules).1 (e.store.removePolicies sec pt rules).2
          (.removePolicies sec pt rules) sec pt false rules (.bool (e.store.removePolicies sec pt rules).2) := by
  unfold Enforcer.removePolicies Enforcer.goCore Enforcer.setStore
  rw [if_pos hs]
  cases e.adapter.removePolicies sec pt rules with
  | mk a o =>
    cases o with
    | none => rfl
    | some b => cases b <;> rfl

/-- **auto-save on, `removePolicies`**: the call stops at the adapter (error or veto: only the adapter's own state moves) or is the
auto-save-off call on the enforcer holding the adapter's new state -/
theorem removePolicies_on (e : Enforcer) (hs : e.autoSave = true) (sec pt : String) (rules : List Rule) :
    (∃ a, (e.removePolicies sec pt rules).1 = ({ e with adapter := a } : Enforcer)) ∨
    (∃ a, (e.removePolicies sec pt rules).1 =
      (((({ e with adapter := a } : Enforcer).withSave false).removePolicies sec pt rules).1).withSave true) := by
  rw [removePolicies_on_eq e hs]
  cases h : e.adapter.removePolicies sec pt rules with
  | mk a o =>
    cases o with
    | none => exact Or.inl ⟨a, rfl⟩
    | some b =>
      cases b with
      | false => exact Or.inl ⟨a, rfl⟩
      | true =>
        refine Or.inr ⟨a, ?_⟩
        rw [removePolicies_off _ rfl]
        exact on_cases e hs a (e.store.removePolicies sec pt rules).1 (e.store.removePolicies sec pt rules).2
          (.removePolicies sec pt rules) sec pt false rules (.bool (e.store.removePolicies sec pt rules).2)

theorem removeFiltered_on_eq (e : Enforcer) (hs : e.autoSave = true) (sec pt : String) (idx : Nat) (vals : List String) :
    e.removeFiltered sec pt idx vals =
      match e.adapter.removeFiltered sec pt idx vals with
      | (a, none) => (({ e with adapter := a } : Enforcer), .err .adapter)
      | (a, some false) => (({ e with adapter := a } : Enforcer), .rules false [])
      | (a, some true) => ({ e with adapter := a } : Enforcer).goCore (e.store.removeFiltered sec pt idx vals).1 (e.store.removeFiltered sec pt idx vals).2.1
          (.removeFiltered sec pt (e.store.removeFiltered sec pt idx vals).2.2) sec pt false
          (e.store.removeFiltered sec pt idx vals).2.2
          (.rules (e.store.removeFiltered sec pt idx vals).2.1 (e.store.removeFiltered sec pt idx vals).2.2) := by
  unfold Enforcer.removeFiltered Enforcer.goCore Enforcer.setStore
  rw [if_pos hs]
  cases e.adapter.removeFiltered sec pt idx vals with
  | mk a o =>
    cases o with
    | none => rfl
    | some b => cases b <;> rfl

/-- **auto-save on, `removeFiltered`**: the call stops at the adapter (error or veto: only the adapter's own state moves) or is the
auto-save-off call on the enforcer holding the adapter's new state -/
theorem removeFiltered_on (e : Enforcer) (hs : e.autoSave = true) (sec pt : String) (idx : Nat) (vals : List String) :
    (∃ a, (e.removeFiltered sec pt idx vals).1 = ({ e with adapter := a } : Enforcer)) ∨
    (∃ a, (e.removeFiltered sec pt idx vals).1 =
      (((({ e with adapter := a } : Enforcer).withSave false).removeFiltered sec pt idx vals).1).withSave true) := by
  rw [removeFiltered_on_eq e hs]
  cases h : e.adapter.removeFiltered sec pt idx vals with
  | mk a o =>
    cases o with
    | none => exact Or.inl ⟨a, rfl⟩
    | some b =>
      cases b with
      | false => exact Or.inl ⟨a, rfl⟩
      | true =>
        refine Or.inr ⟨a, ?_⟩
        rw [removeFiltered_off _ rfl]
        exact on_cases e hs a (e.store.removeFiltered sec pt idx vals).1 (e.store.removeFiltered sec pt idx vals).2.1
          (.removeFiltered sec pt (e.store.removeFiltered sec pt idx vals).2.2) sec pt false
          (e.store.removeFiltered sec pt idx vals).2.2
          (.rules (e.store.removeFiltered sec pt idx vals).2.1 (e.store.removeFiltered sec pt idx vals).2.2)


/-! the same, for the call's answer as well -/

theorem on_cases2 (e : Enforcer) (hs : e.autoSave = true) (a : AdapterSt) (s' : Store) (c : Bool) (ev : Event) (sec pt : String)
    (ins : Bool) (rules : List Rule) (ret : Res) :
    ({ e with adapter := a } : Enforcer).goCore s' c ev sec pt ins rules ret =
      ((((({ e with adapter := a } : Enforcer).withSave false).goCore s' c ev sec pt ins rules ret).1).withSave true,
       ((({ e with adapter := a } : Enforcer).withSave false).goCore s' c ev sec pt ins rules ret).2) := by
  rw [goCore_withSave]
  dsimp only
  rw [withSave_back _ true (by rw [goCore_autoSave]; exact hs)]

/-- the answers of a call the adapter stopped -/
def stoppedRes (r : Res) : Prop := r = .err .adapter ∨ r = .bool false ∨ r = .rules false []

theorem addPolicy_on2 (e : Enforcer) (hs : e.autoSave = true) (sec pt : String) (rule : Rule) :
    (∃ a res, e.addPolicy sec pt rule = (({ e with adapter := a } : Enforcer), res) ∧ stoppedRes res) ∨
    (∃ a, e.addPolicy sec pt rule =
      (((({ e with adapter := a } : Enforcer).withSave false).addPolicy sec pt rule).1.withSave true,
       ((({ e with adapter := a } : Enforcer).withSave false).addPolicy sec pt rule).2)) := by
  rw [addPolicy_on_eq e hs]
  cases h : e.adapter.addPolicy sec pt rule with
  | mk a o =>
    cases o with
    | none => exact Or.inl ⟨a, _, rfl, Or.inl rfl⟩
    | some b =>
      cases b with
      | false => exact Or.inl ⟨a, _, rfl, by unfold stoppedRes; simp⟩
      | true =>
        refine Or.inr ⟨a, ?_⟩
        rw [addPolicy_off _ rfl]
        exact on_cases2 e hs a (e.store.addPolicy sec pt rule).1 (e.store.addPolicy sec pt rule).2
          (.addPolicy sec pt rule) sec pt true [rule] (.bool (e.store.addPolicy sec pt rule).2)

theorem removePolicy_on2 (e : Enforcer) (hs : e.autoSave = true) (sec pt : String) (rule : Rule) :
    (∃ a res, e.removePolicy sec pt rule = (({ e with adapter := a } : Enforcer), res) ∧ stoppedRes res) ∨
    (∃ a, e.removePolicy sec pt rule =
      (((({ e with adapter := a } : Enforcer).withSave false).removePolicy sec pt rule).1.withSave true,
       ((({ e with adapter := a } : Enforcer).withSave false).removePolicy sec pt rule).2)) := by
  rw [removePolicy_on_eq e hs]
  cases h : e.adapter.removePolicy sec pt rule with
  | mk a o =>
    cases o with
    | none => exact Or.inl ⟨a, _, rfl, Or.inl rfl⟩
    | some b =>
      cases b with
      | false => exact Or.inl ⟨a, _, rfl, by unfold stoppedRes; simp⟩
      | true =>
        refine Or.inr ⟨a, ?_⟩
        rw [removePolicy_off _ rfl]
        exact on_cases2 e hs a (e.store.removePolicy sec pt rule).1 (e.store.removePolicy sec pt rule).2
          (.removePolicy sec pt rule) sec pt false [rule] (.bool (e.store.removePolicy sec pt rule).2)

theorem addPolicies_on2 (e : Enforcer) (hs : e.autoSave = true) (sec pt : String) (rules : List Rule) :
    (∃ a res, e.addPolicies sec pt rules = (({ e with adapter := a } : Enforcer), res) ∧ stoppedRes res) ∨
    (∃ a, e.addPolicies sec pt rules =
      (((({ e with adapter := a } : Enforcer).withSave false).addPolicies sec pt rules).1.withSave true,
       ((({ e with adapter := a } : Enforcer).withSave false).addPolicies sec pt rules).2)) := by
  rw [addPolicies_on_eq e hs]
  cases h : e.adapter.addPolicies sec pt rules with
  | mk a o =>
    cases o with
    | none => exact Or.inl ⟨a, _, rfl, Or.inl rfl⟩
    | some b =>
      cases b with
      | false => exact Or.inl ⟨a, _, rfl, by unfold stoppedRes; simp⟩
      | true =>
        refine Or.inr ⟨a, ?_⟩
        rw [addPolicies_off _ rfl]
        exact on_cases2 e hs a (e.store.addPolicies sec pt rules).1 (e.store.addPolicies sec pt rules).2
          (.addPolicies sec pt rules) sec pt true rules (.bool (e.store.addPolicies sec pt rules).2)

theorem removePolicies_on2 (e : Enforcer) (hs : e.autoSave = true) (sec pt : String) (rules : List Rule) :
    (∃ a res, e.removePolicies sec pt rules = (({ e with adapter := a } : Enforcer), res) ∧ stoppedRes res) ∨
    (∃ a, e.removePolicies sec pt rules =
      (((({ e with adapter := a } : Enforcer).withSave false).removePolicies sec pt rules).1.withSave true,
       ((({ e with adapter := a } : Enforcer).withSave false).removePolicies sec pt rules).2)) := by
  rw [removePolicies_on_eq e hs]
  cases h : e.adapter.removePolicies sec pt rules with
  | mk a o =>
    cases o with
    | none => exact Or.inl ⟨a, _, rfl, Or.inl rfl⟩
    | some b =>
      cases b with
      | false => exact Or.inl ⟨a, _, rfl, by unfold stoppedRes; simp⟩
      | true =>
        refine Or.inr ⟨a, ?_⟩
        rw [removePolicies_off _ rfl]
        exact on_cases2 e hs a (e.store.removePolicies sec pt rules).1 (e.store.removePolicies sec pt rules).2
          (.removePolicies sec pt rules) sec pt false rules (.bool (e.store.removePolicies sec pt rules).2)

theorem removeFiltered_on2 (e : Enforcer) (hs : e.autoSave = true) (sec pt : String) (idx : Nat) (vals : List String) :
    (∃ a res, e.removeFiltered sec pt idx vals = (({ e with adapter := a } : Enforcer), res) ∧ stoppedRes res) ∨
    (∃ a, e.removeFiltered sec pt idx vals =
      (((({ e with adapter := a } : Enforcer).withSave false).removeFiltered sec pt idx vals).1.withSave true,
       ((({ e with adapter := a } : Enforcer).withSave false).removeFiltered sec pt idx vals).2)) := by
  rw [removeFiltered_on_eq e hs]
  cases h : e.adapter.removeFiltered sec pt idx vals with
  | mk a o =>
    cases o with
    | none => exact Or.inl ⟨a, _, rfl, Or.inl rfl⟩
    | some b =>
      cases b with
      | false => exact Or.inl ⟨a, _, rfl, by unfold stoppedRes; simp⟩
      | true =>
        refine Or.inr ⟨a, ?_⟩
        rw [removeFiltered_off _ rfl]
        exact on_cases2 e hs a (e.store.removeFiltered sec pt idx vals).1 (e.store.removeFiltered sec pt idx vals).2.1
          (.removeFiltered sec pt (e.store.removeFiltered sec pt idx vals).2.2) sec pt false
          (e.store.removeFiltered sec pt idx vals).2.2
          (.rules (e.store.removeFiltered sec pt idx vals).2.1 (e.store.removeFiltered sec pt idx vals).2.2)

end Casbin
