import CasbinModel.Lemmas.Load
/-! The memory adapter mirrors the store (C09). -/
namespace Casbin

theorem records_memory (a : AdapterSt) (h : a.kind = .memory) : a.records = memRecords a.lines := by
  simp [AdapterSt.records, h]

theorem memRecords_append (l1 l2 : List Rule) : memRecords (l1 ++ l2) = memRecords l1 ++ memRecords l2 := by
  simp [memRecords, List.filterMap_append]

theorem memRecords_tag (sec pt : String) (rule : Rule) : memRecords [tag sec pt rule] = [(sec, pt, rule)] := by
  simp [memRecords, tag]

theorem recsFor_append (sec pt : String) (r1 r2 : List (String × String × Rule)) :
    recsFor sec pt (r1 ++ r2) = recsFor sec pt r1 ++ recsFor sec pt r2 := by
  simp [recsFor]

theorem recsFor_single (sec pt sec' pt' : String) (rule : Rule) :
    recsFor sec pt [(sec', pt', rule)] = if sec' = sec ∧ pt' = pt then [rule] else [] := by
  unfold recsFor
  by_cases h : sec' = sec ∧ pt' = pt <;> simp [h]

theorem mem_recsFor_mem (sec pt : String) (rule : Rule) (lines : List Rule) :
    rule ∈ recsFor sec pt (memRecords lines) ↔ tag sec pt rule ∈ lines := by
  induction lines with
  | nil => simp [recsFor, memRecords]
  | cons l ls ih =>
    have happ : memRecords (l :: ls) = memRecords [l] ++ memRecords ls := by
      rw [← memRecords_append]; rfl
    rw [happ, recsFor_append, List.mem_append, ih, List.mem_cons]
    constructor
    · rintro (h | h)
      · left
        cases l with
        | nil => simp [memRecords, recsFor] at h
        | cons s t =>
          cases t with
          | nil => simp [memRecords, recsFor] at h
          | cons p r =>
            have e1 : memRecords [s :: p :: r] = [(s, p, r)] := by simp [memRecords]
            rw [e1, recsFor_single] at h
            split at h
            · rename_i hc; obtain ⟨h1, h2⟩ := hc; subst h1 h2
              have : rule = r := by simpa using h
              subst this; rfl
            · cases h
      · exact Or.inr h
    · rintro (h | h)
      · left; subst h
        rw [memRecords_tag, recsFor_single]; simp
      · exact Or.inr h

/-- erasing a tagged line from the adapter's lines erases the rule from the records of its own
policy type and leaves every other type's records alone -/
theorem recsFor_erase (sec pt sec' pt' : String) (rule : Rule) (lines : List Rule) :
    recsFor sec' pt' (memRecords (lines.erase (tag sec pt rule))) =
      if sec = sec' ∧ pt = pt' then (recsFor sec' pt' (memRecords lines)).erase rule
      else recsFor sec' pt' (memRecords lines) := by
  induction lines with
  | nil => simp [memRecords, recsFor]
  | cons l ls ih =>
    have happ : ∀ (x : Rule) (xs : List Rule), memRecords (x :: xs) = memRecords [x] ++ memRecords xs := by
      intro x xs; rw [← memRecords_append]; rfl
    by_cases hl : l = tag sec pt rule
    · subst hl
      rw [List.erase_cons_head, happ, recsFor_append, memRecords_tag, recsFor_single]
      by_cases hc : sec = sec' ∧ pt = pt'
      · simp [hc]
      · simp [hc]
    · have hE : (l :: ls).erase (tag sec pt rule) = l :: ls.erase (tag sec pt rule) :=
        List.erase_cons_tail (by simpa using hl)
      have hL : recsFor sec' pt' (memRecords (l :: ls.erase (tag sec pt rule))) =
          recsFor sec' pt' (memRecords [l]) ++ recsFor sec' pt' (memRecords (ls.erase (tag sec pt rule))) := by
        rw [happ, recsFor_append]
      have hR : recsFor sec' pt' (memRecords (l :: ls)) =
          recsFor sec' pt' (memRecords [l]) ++ recsFor sec' pt' (memRecords ls) := by
        rw [happ, recsFor_append]
      rw [hE, hL, hR, ih]
      by_cases hc : sec = sec' ∧ pt = pt'
      · simp only [hc, and_self, if_true]
        obtain ⟨h1, h2⟩ := hc; subst h1 h2
        -- the head line contributes nothing or a rule different from `rule`
        cases l with
        | nil => simp [memRecords, recsFor]
        | cons s t =>
          cases t with
          | nil => simp [memRecords, recsFor]
          | cons p r =>
            have e1 : memRecords [s :: p :: r] = [(s, p, r)] := by simp [memRecords]
            rw [e1, recsFor_single]
            by_cases hk : s = sec ∧ p = pt
            · obtain ⟨h1, h2⟩ := hk; subst h1 h2
              have hr : r ≠ rule := by intro h; subst h; exact hl rfl
              simp only [and_self, if_true, List.singleton_append]
              rw [List.erase_cons_tail (by simpa using hr)]
            · simp [hk]
      · simp [hc]

/-- the adapter's lines and the store agree on every existing policy type -/
def Mirror (e : Enforcer) : Prop :=
  ∀ sec pt, (e.store.find sec pt).isSome = true → recsFor sec pt (memRecords e.adapter.lines) = e.store.getPolicy sec pt

end Casbin
