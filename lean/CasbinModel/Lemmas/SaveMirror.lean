import CasbinModel.Lemmas.MirrorBatch
/-! What `save_policy` leaves in a memory adapter, seen per policy type (C09). -/
namespace Casbin

theorem proj_erase (sec pt sec' pt' : String) (rule : Rule) (lines : List Rule) :
    proj sec' pt' (lines.erase (tag sec pt rule)) =
      if sec = sec' ∧ pt = pt' then (proj sec' pt' lines).erase rule else proj sec' pt' lines := by
  unfold proj
  exact recsFor_erase sec pt sec' pt' rule lines

/-- `insert` as the savers and loaders call it (an existing value moves to the back), seen per policy type -/
theorem proj_insertMove (sec pt sec' pt' : String) (rule : Rule) (lines : List Rule) :
    proj sec' pt' (insertMove lines (tag sec pt rule)) =
      if sec = sec' ∧ pt = pt' then insertMove (proj sec' pt' lines) rule else proj sec' pt' lines := by
  have hs : proj sec' pt' [tag sec pt rule] = if sec = sec' ∧ pt = pt' then [rule] else [] := by
    unfold proj; rw [memRecords_tag, recsFor_single]
  unfold insertMove
  by_cases hin : tag sec pt rule ∈ lines
  · simp only [hin, if_true]
    rw [proj_append, hs]
    have he := proj_erase sec pt sec' pt' rule lines
    by_cases hc : sec = sec' ∧ pt = pt'
    · obtain ⟨h1, h2⟩ := hc; subst h1 h2
      have hm : rule ∈ proj sec pt lines := (mem_proj _ _ _ _).2 hin
      simp only [and_self, if_true, hm] at he ⊢
      first
        | rw [he]
        | (simp only [erase_inst_irrel] at he ⊢; rw [he])
        | (simp only [← erase_inst_irrel] at he ⊢; rw [he])
    · simp only [hc, if_false, List.append_nil] at he ⊢
      first
        | exact he
        | (simp only [erase_inst_irrel] at he ⊢; exact he)
        | (simp only [← erase_inst_irrel] at he ⊢; exact he)
  · simp only [hin, if_false]
    rw [proj_append, hs]
    by_cases hc : sec = sec' ∧ pt = pt'
    · obtain ⟨h1, h2⟩ := hc; subst h1 h2
      have : rule ∉ proj sec pt lines := fun h => hin ((mem_proj _ _ _ _).1 h)
      simp [this]
    · simp [hc]

/-- folding tagged records into the lines = folding, per policy type, that type's rules -/
theorem proj_foldl_insertMove (T : List (String × String × Rule)) (acc : List Rule) (sec pt : String) :
    proj sec pt ((T.map (fun t => tag t.1 t.2.1 t.2.2)).foldl insertMove acc) =
      (recsFor sec pt T).foldl insertMove (proj sec pt acc) := by
  induction T generalizing acc with
  | nil => simp [recsFor]
  | cons t rest ih =>
    obtain ⟨s, k, r⟩ := t
    simp only [List.map_cons, List.foldl_cons]
    rw [ih, proj_insertMove]
    have hr : recsFor sec pt ((s, k, r) :: rest) = (if s = sec ∧ k = pt then [r] else []) ++ recsFor sec pt rest := by
      have : (s, k, r) :: rest = [(s, k, r)] ++ rest := rfl
      rw [this, recsFor_append, recsFor_single]
    rw [hr]
    by_cases hc : s = sec ∧ k = pt
    · simp [hc]
    · simp [hc]

theorem recsFor_flatMap {α : Type} (sec pt : String) (ds : List α) (f : α → List (String × String × Rule)) :
    recsFor sec pt (ds.flatMap f) = ds.flatMap (fun d => recsFor sec pt (f d)) := by
  induction ds with
  | nil => simp [recsFor]
  | cons d rest ih => simp only [List.flatMap_cons]; rw [recsFor_append, ih]

theorem recsFor_const (sec pt s k : String) (rs : List Rule) :
    recsFor sec pt (rs.map (fun r => (s, k, r))) = if s = sec ∧ k = pt then rs else [] := by
  induction rs with
  | nil => simp [recsFor]
  | cons r rest ih =>
    have : (r :: rest).map (fun r => (s, k, r)) = [(s, k, r)] ++ rest.map (fun r => (s, k, r)) := rfl
    rw [this, recsFor_append, recsFor_single, ih]
    by_cases hc : s = sec ∧ k = pt <;> simp [hc]

/-- the section a saver files a definition under: the first character of its key -/
def tagOf (d : PolDef) : String := String.ofList (d.key.toList.take 1)

/-- a list of definitions with pairwise distinct keys, all filed under `sec`: the rules filed under `(sec, pt)` are
those of the definition `pt` names -/
theorem flatMap_unique (ds : List PolDef) (sec pt : String) (htag : ∀ d ∈ ds, tagOf d = sec)
    (hkeys : (ds.map (·.key)).Nodup) :
    ds.flatMap (fun d => if tagOf d = sec ∧ d.key = pt then d.policy else []) =
      (match ds.find? (·.key = pt) with | some d => d.policy | none => []) := by
  induction ds with
  | nil => rfl
  | cons d rest ih =>
    have hk' : d.key ∉ rest.map (·.key) ∧ (rest.map (·.key)).Nodup := by
      rw [List.map_cons] at hkeys; exact List.nodup_cons.mp hkeys
    have ih' := ih (fun x hx => htag x (by simp [hx])) hk'.2
    simp only [List.flatMap_cons, List.find?]
    by_cases hk : d.key = pt
    · have ht : tagOf d = sec := htag d (by simp)
      simp only [ht, hk, and_self, if_true, decide_true]
      have hnone : rest.flatMap (fun d => if tagOf d = sec ∧ d.key = pt then d.policy else []) = [] := by
        rw [List.flatMap_eq_nil_iff]
        intro x hx
        have hne : x.key ≠ pt := by
          intro hxk
          apply hk'.1
          rw [hk, ← hxk]
          exact List.mem_map.mpr ⟨x, hx, rfl⟩
        simp [hne]
      rw [hnone]; simp
    · have : ¬ (tagOf d = sec ∧ d.key = pt) := fun h => hk h.2
      rw [if_neg this]
      simp only [List.nil_append, hk, decide_false]
      exact ih'

/-- definitions filed under another section contribute nothing -/
theorem flatMap_other (ds : List PolDef) (sec pt : String) (htag : ∀ d ∈ ds, tagOf d ≠ sec) :
    ds.flatMap (fun d => if tagOf d = sec ∧ d.key = pt then d.policy else []) = [] := by
  rw [List.flatMap_eq_nil_iff]
  intro x hx
  have := htag x hx
  simp [this]

end Casbin
