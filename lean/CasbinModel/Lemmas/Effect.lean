import CasbinModel.Effect
/-! Helper lemmas for C02 (effect combiner). -/
namespace Casbin

theorem firstDet_append_of_isSome {pre : List Eff} (suf : List Eff)
    (h : (firstDet pre).isSome) : firstDet (pre ++ suf) = firstDet pre := by
  induction pre with
  | nil => simp [firstDet] at h
  | cons e es ih =>
    simp only [List.cons_append, firstDet]
    split
    · rename_i he; simp only [firstDet, he, if_true] at h; exact ih h
    · rfl

theorem firstDet_append_of_none {pre : List Eff} (suf : List Eff)
    (h : firstDet pre = none) : firstDet (pre ++ suf) = firstDet suf := by
  induction pre with
  | nil => rfl
  | cons e es ih =>
    simp only [List.cons_append, firstDet] at *
    split
    · rename_i he; simp only [he, if_true] at h; exact ih h
    · rename_i he; simp [he] at h

/-- once `decided`, no continuation changes the declarative result -/
theorem decided_stable (expr : EffExpr) (pre suf : List Eff)
    (h : decided expr pre = true) : combine expr (pre ++ suf) = combine expr pre := by
  cases expr <;> simp only [decided, combine] at *
  · simp at h ⊢; simp [h]
  · simp at h ⊢; simp [h]
  · simp at h ⊢; simp [h]
  · rw [firstDet_append_of_isSome suf h]

theorem decided_mono (expr : EffExpr) (pre suf : List Eff)
    (h : decided expr pre = true) : decided expr (pre ++ suf) = true := by
  cases expr <;> simp only [decided] at *
  · simp at h ⊢; simp [h]
  · simp at h ⊢; simp [h]
  · simp at h ⊢; simp [h]
  · rw [firstDet_append_of_isSome suf h]; exact h

theorem firstDet_snoc_none {pre : List Eff} {e : Eff} (h : firstDet pre = none) :
    firstDet (pre ++ [e]) = if e = .indet then none else some e := by
  rw [firstDet_append_of_none _ h]; simp [firstDet]

/-- invariant linking a stream to the prefix pushed so far; `fr` is the prefix
at which the verdict froze (all of `pre` while not done). -/
structure Good (expr : EffExpr) (n : Nat) (pre : List Eff) (s : Stream) : Prop where
  hexpr : s.expr = expr
  hcap  : s.cap = n
  frozen : ∃ fr, fr <+: pre ∧ s.res = combine expr fr ∧
      (s.done = false → fr = pre ∧ s.idx = pre.length ∧ pre.length < n ∧ decided expr pre = false) ∧
      (s.done = true → (decided expr fr = true ∨ fr.length = n) ∧ fr.length ≤ n ∧ 0 < fr.length)

theorem good_new (expr : EffExpr) (n : Nat) (s : Stream) (h : Stream.new expr n = some s) :
    Good expr n [] s := by
  unfold Stream.new at h
  split at h
  · cases h
  · rename_i hn
    cases h
    refine ⟨rfl, rfl, [], List.prefix_refl _, ?_, ?_, ?_⟩
    · cases expr <;> simp [combine, firstDet]
    · intro _; refine ⟨rfl, rfl, by simp; omega, ?_⟩
      cases expr <;> simp [decided, firstDet]
    · intro h; cases h

theorem not_decided_firstDet {pre : List Eff} (h : decided .priority pre = false) :
    firstDet pre = none := by
  simp only [decided] at h
  cases hf : firstDet pre with
  | none => rfl
  | some x => simp [hf] at h

theorem good_push {expr : EffExpr} {n : Nat} {pre : List Eff} {s : Stream} (e : Eff)
    (hg : Good expr n pre s) : Good expr n (pre ++ [e]) (s.push e).1 := by
  obtain ⟨hexpr, hcap, fr, hfr, hres, hnd, hd⟩ := hg
  unfold Stream.push
  by_cases hdone : s.done = true
  · -- already complete: nothing changes
    simp only [hdone, if_true]
    refine ⟨hexpr, hcap, fr, ?_, hres, ?_, hd⟩
    · exact List.IsPrefix.trans hfr (List.prefix_append _ _)
    · intro h; rw [hdone] at h; cases h
  · have hdone' : s.done = false := by cases h : s.done <;> simp_all
    obtain ⟨hfp, hidx, hlt, hndec⟩ := hnd hdone'
    subst hfp
    simp only [hdone', Bool.false_eq_true, if_false]
    -- case analysis on the expression and the effect
    subst hexpr
    subst hcap
    have hlen : (fr ++ [e]).length = fr.length + 1 := by simp
    refine ⟨?_, ?_, ?_⟩
    · cases hx : s.expr <;> cases e <;> simp [hx] <;> split <;> rfl
    · cases hx : s.expr <;> cases e <;> simp [hx] <;> split <;> rfl
    · refine ⟨fr ++ [e], List.prefix_refl _, ?_, ?_, ?_⟩
      · -- verdict
        cases hx : s.expr <;> cases e <;>
          simp [hx, combine] at hres hndec ⊢ <;>
          (try split) <;>
          simp_all [combine, decided, firstDet_snoc_none, not_decided_firstDet]
      · -- still running
        intro hrun
        refine ⟨rfl, ?_, ?_, ?_⟩
        · cases hx : s.expr <;> cases e <;> simp [hx] at hrun ⊢ <;>
            (split at hrun <;> simp_all)
        · cases hx : s.expr <;> cases e <;> simp [hx] at hrun ⊢ <;>
            (split at hrun <;> simp_all <;> omega)
        · cases hx : s.expr <;> cases e <;> simp [hx] at hrun hndec ⊢ <;>
            (try split at hrun) <;>
            simp_all [decided, firstDet_snoc_none, not_decided_firstDet]
      · -- complete
        intro hfin
        refine ⟨?_, by simp; omega, by simp⟩
        cases hx : s.expr <;> cases e <;> simp [hx] at hfin hndec ⊢ <;>
          (try split at hfin) <;>
          simp_all [decided, firstDet_snoc_none, not_decided_firstDet] <;> omega

theorem good_pushAll {expr : EffExpr} {n : Nat} (es : List Eff) :
    ∀ {pre : List Eff} {s : Stream}, Good expr n pre s → Good expr n (pre ++ es) (pushAll s es) := by
  induction es with
  | nil => intro pre s h; simpa [pushAll] using h
  | cons e es ih =>
    intro pre s h
    have := ih (good_push e h)
    simpa [pushAll, List.append_assoc] using this

theorem push_flag_eq_done (s : Stream) (e : Eff) : (s.push e).2 = (s.push e).1.done := by
  unfold Stream.push
  split
  · rename_i h; simp [h]
  · rfl

theorem push_done_of_done {s : Stream} (e : Eff) (h : s.done = true) : s.push e = (s, true) := by
  unfold Stream.push; simp [h]

theorem pushAll_of_done {s : Stream} (es : List Eff) (h : s.done = true) : pushAll s es = s := by
  induction es with
  | nil => rfl
  | cons e es ih => simp [pushAll, push_done_of_done e h, ih]

/-- stopping at the first `true` or pushing everything yields the same stream -/
theorem feed_eq_pushAll (s : Stream) (es : List Eff) : feed s es = pushAll s es := by
  induction es generalizing s with
  | nil => rfl
  | cons e es ih =>
    simp only [feed, pushAll]
    split
    · rename_i h
      rw [push_flag_eq_done] at h
      rw [pushAll_of_done es h]
    · exact ih _

end Casbin
