import CasbinModel.KeyMatch
/-! UTF-8 is a prefix code: byte-prefix comparison is character-prefix comparison (C15, C06). -/
namespace Casbin

/-- the encoding of one character -/
def enc (c : Char) : List Nat := utf8Bytes [c]

theorem utf8Bytes_cons (c : Char) (s : Str) : utf8Bytes (c :: s) = enc c ++ utf8Bytes s := by
  simp [utf8Bytes, enc]

theorem utf8Bytes_append (a b : Str) : utf8Bytes (a ++ b) = utf8Bytes a ++ utf8Bytes b := by
  simp [utf8Bytes]

theorem enc_length (c : Char) : (enc c).length = utf8Size c := by
  simp only [enc, utf8Bytes, List.flatMap_cons, List.flatMap_nil, List.append_nil, utf8Size]
  split
  · rfl
  · split
    · rfl
    · split <;> rfl

theorem utf8Len_eq (s : Str) : utf8Len s = (utf8Bytes s).length := by
  induction s with
  | nil => rfl
  | cons c t ih =>
    rw [utf8Bytes_cons, List.length_append, enc_length, ← ih]
    simp [utf8Len]

theorem enc_ne_nil (c : Char) : enc c ≠ [] := by
  intro h
  have := congrArg List.length h
  rw [enc_length] at this
  simp only [utf8Size, List.length_nil] at this
  split at this
  · cases this
  · split at this
    · cases this
    · split at this <;> cases this

theorem char_valid_lt (c : Char) : c.toNat < 0x110000 := by
  have := c.valid
  simp only [Char.toNat, UInt32.isValidChar, Nat.isValidChar] at *
  omega

/-- the first byte and the continuation bytes determine the code point -/
theorem enc_prefix_inj (c d : Char) (X Y : List Nat) (h : enc c ++ X = enc d ++ Y) : c = d ∧ X = Y := by
  have hc := char_valid_lt c
  have hd := char_valid_lt d
  have key : c.toNat = d.toNat ∧ X = Y := by
    simp only [enc, utf8Bytes, List.flatMap_cons, List.flatMap_nil, List.append_nil] at h
    generalize c.toNat = n at *
    generalize d.toNat = m at *
    by_cases h1 : n < 0x80 <;> by_cases h2 : n < 0x800 <;> by_cases h3 : n < 0x10000 <;>
    by_cases g1 : m < 0x80 <;> by_cases g2 : m < 0x800 <;> by_cases g3 : m < 0x10000 <;>
      simp only [h1, h2, h3, g1, g2, g3, if_true, if_false, List.cons_append, List.nil_append,
        List.cons.injEq] at h <;>
      (first
        | (exfalso; omega)
        | (refine ⟨by omega, ?_⟩; simp_all))
  refine ⟨?_, key.2⟩
  exact Char.toNat_inj.mp key.1

/-- **byte prefix ⇔ character prefix** -/
theorem bytes_prefix_iff (pre k : Str) :
    (∃ Z, utf8Bytes k = utf8Bytes pre ++ Z) ↔ pre <+: k := by
  induction pre generalizing k with
  | nil => exact ⟨fun _ => List.nil_prefix, fun _ => ⟨utf8Bytes k, by simp [utf8Bytes]⟩⟩
  | cons c pre' ih =>
    constructor
    · rintro ⟨Z, hZ⟩
      cases k with
      | nil =>
        rw [utf8Bytes_cons] at hZ
        have : enc c = [] := by
          have := congrArg List.length hZ
          simp [utf8Bytes] at this
          exact List.eq_nil_of_length_eq_zero (by omega)
        exact absurd this (enc_ne_nil c)
      | cons d k' =>
        rw [utf8Bytes_cons, utf8Bytes_cons, List.append_assoc] at hZ
        obtain ⟨hcd, hrest⟩ := enc_prefix_inj d c _ _ hZ
        subst hcd
        have := (ih k').mp ⟨Z, hrest⟩
        obtain ⟨t, ht⟩ := this
        exact ⟨t, by simp [← ht]⟩
    · rintro ⟨t, ht⟩
      exact ⟨utf8Bytes t, by rw [← ht, utf8Bytes_append]⟩

theorem take_eq_iff_prefix {α : Type} [DecidableEq α] (l p : List α) :
    l.take p.length = p ↔ ∃ Z, l = p ++ Z := by
  constructor
  · intro h; exact ⟨l.drop p.length, by conv => lhs; rw [← List.take_append_drop p.length l]; rw [h]⟩
  · rintro ⟨Z, hZ⟩; subst hZ; simp

end Casbin
