import CasbinModel.PatRoles
import CasbinModel.Lemmas.RoleMgr
/-!
# The manager without matching functions is the manager of `RoleGraph.lean`

`RoleMgr.toP` embeds the plain manager (every edge a `Link`).  With both functions absent every operation
and every query of the manager-as-written (`PatRoles.lean`) commutes with the embedding, over whole
histories (`run_toP`).  So the reachability theorems of C03 are theorems about the general code path.
-/
namespace Casbin

variable {α : Type} [DecidableEq α]

def embE (e : α × α) : PEdge α := (e.1, e.2, false)
def Graph.toP (g : Graph α) : PGraph α := ⟨g.nodes, g.edges.map embE⟩
def RoleMgr.toP (rm : RoleMgr α) : PRm α := ⟨rm.doms.map (fun p => (p.1, p.2.toP)), rm.maxLevel⟩

@[simp] theorem toP_nodes (g : Graph α) : g.toP.nodes = g.nodes := rfl
@[simp] theorem toP_maxLevel (rm : RoleMgr α) : rm.toP.maxLevel = rm.maxLevel := rfl

theorem toP_graph? (rm : RoleMgr α) (d : α) : rm.toP.graph? d = (rm.graph? d).map Graph.toP := by
  unfold PRm.graph? RoleMgr.graph? RoleMgr.toP
  induction rm.doms with
  | nil => simp
  | cons p ps ih =>
    simp only [List.map_cons, List.find?_cons]
    by_cases h : p.1 = d
    · simp [h]
    · simp [h]; simpa using ih

theorem toP_graph (rm : RoleMgr α) (d : α) : rm.toP.graph d = (rm.graph d).toP := by
  unfold PRm.graph RoleMgr.graph
  rw [toP_graph?]
  cases rm.graph? d <;> simp [Graph.toP, Graph.empty, PGraph.empty]

theorem psetDom_toP (doms : List (α × Graph α)) (d : α) (g : Graph α) :
    psetDom (doms.map (fun p => (p.1, p.2.toP))) d g.toP = (setDom doms d g).map (fun p => (p.1, p.2.toP)) := by
  induction doms with
  | nil => simp [psetDom, setDom]
  | cons p ps ih =>
    obtain ⟨d', g'⟩ := p
    simp only [List.map_cons, psetDom, setDom]
    by_cases h : d' = d
    · simp [h]
    · simp [h, ih]

theorem getOrCreate_toP (g : Graph α) (name : α) :
    PGraph.getOrCreate none g.toP name = (g.getOrCreate name).toP := by
  unfold PGraph.getOrCreate Graph.getOrCreate
  by_cases h : name ∈ g.nodes
  · simp [h]
  · simp [h, Graph.toP]

theorem findEdge_toP (g : Graph α) (a b : α) :
    g.toP.findEdge a b = if (a, b) ∈ g.edges then some false else none := by
  unfold PGraph.findEdge Graph.toP
  simp only
  induction g.edges with
  | nil => simp
  | cons e es ih =>
    obtain ⟨x, y⟩ := e
    simp only [List.map_cons, List.find?_cons, embE]
    by_cases h : x = a ∧ y = b
    · obtain ⟨rfl, rfl⟩ := h; simp
    · have h' : ¬ (a, b) = (x, y) := by
        intro hh; apply h; cases hh; exact ⟨rfl, rfl⟩
      simp only [h, decide_false, List.mem_cons, h', false_or]
      exact ih

theorem addLink_toP (rm : RoleMgr α) (a b d : α) :
    rm.toP.addLink none a b d = (rm.addLink a b d).toP := by
  unfold PRm.addLink RoleMgr.addLink
  by_cases hab : a = b
  · simp [hab]
  · simp only [hab, if_false]
    rw [toP_graph, getOrCreate_toP, getOrCreate_toP, findEdge_toP]
    generalize ((rm.graph d).getOrCreate a).getOrCreate b = g
    by_cases he : (a, b) ∈ g.edges
    · simp only [he, if_true]
      show PRm.mk _ _ = _
      simp only [RoleMgr.toP]
      congr 1
      exact psetDom_toP rm.doms d g
    · simp only [he, if_false]
      show PRm.mk _ _ = _
      simp only [RoleMgr.toP]
      congr 1
      have : ({ g.toP with edges := (a, b, false) :: g.toP.edges } : PGraph α)
          = ({ g with edges := (a, b) :: g.edges } : Graph α).toP := by simp [Graph.toP, embE]
      simp only [if_true]
      rw [this]
      exact psetDom_toP rm.doms d _

theorem matchedDomains_toP (rm : RoleMgr α) (d : α) :
    rm.toP.matchedDomains none d = if (rm.graph? d).isSome then [d] else [] := by
  unfold PRm.matchedDomains
  simp only [toP_graph?, Option.isSome_map]

theorem domainHasRole_toP (rm : RoleMgr α) (name d : α) :
    rm.toP.domainHasRole none none name d = rm.domainHasRole name d := by
  unfold PRm.domainHasRole RoleMgr.domainHasRole
  rw [matchedDomains_toP]
  cases h : rm.graph? d with
  | none => simp
  | some g =>
    have hg : rm.graph d = g := by simp [RoleMgr.graph, h]
    simp only [Option.isSome_some, if_true, List.any_cons, List.any_nil, Bool.or_false, toP_graph, hg, toP_nodes]
    by_cases hn : name ∈ g.nodes <;> simp [hn]

theorem eraseFirstEdge_map (a b : α) (es : List (α × α)) :
    eraseFirstEdge a b (es.map embE) = (es.erase (a, b)).map embE := by
  induction es with
  | nil => simp [eraseFirstEdge]
  | cons e es ih =>
    obtain ⟨x, y⟩ := e
    simp only [List.map_cons, eraseFirstEdge, embE]
    by_cases h : x = a ∧ y = b
    · obtain ⟨rfl, rfl⟩ := h; simp
    · have h' : ¬ (x, y) = (a, b) := by
        intro hh; apply h; cases hh; exact ⟨rfl, rfl⟩
      have h'' : ((x, y) == (a, b)) = false := by simpa using h'
      rw [List.erase_cons, h'']
      simp only [h, if_false, List.map_cons, embE]
      congr 1

theorem getOrCreate_mem (g : Graph α) (name : α) (h : name ∈ g.nodes) : g.getOrCreate name = g := by
  simp [Graph.getOrCreate, h]

theorem deleteLink_toP (rm : RoleMgr α) (a b d : α) :
    rm.toP.deleteLink none none a b d = (rm.deleteLink a b d).map RoleMgr.toP := by
  unfold PRm.deleteLink RoleMgr.deleteLink
  by_cases hab : a = b
  · simp [hab]
  · simp only [hab, if_false, domainHasRole_toP]
    cases ha : rm.domainHasRole a d with
    | false => simp
    | true =>
    cases hb : rm.domainHasRole b d with
    | false => simp
    | true =>
      simp only [Bool.not_true, Bool.or_self, Bool.false_eq_true, if_false, Option.map_some]
      -- both names are nodes of the domain's graph: `get_or_create_role` finds them
      have mem : ∀ x, rm.domainHasRole x d = true → x ∈ (rm.graph d).nodes := by
        intro x hx
        unfold RoleMgr.domainHasRole at hx
        cases h : rm.graph? d with
        | none => simp [h] at hx
        | some g => simp [h] at hx; simpa [RoleMgr.graph, h] using hx
      rw [toP_graph, getOrCreate_toP, getOrCreate_toP, getOrCreate_mem _ a (mem a ha), getOrCreate_mem _ b (mem b hb)]
      congr 1
      simp only [RoleMgr.toP]
      congr 1
      have : ({ (rm.graph d).toP with edges := eraseFirstEdge a b (rm.graph d).toP.edges } : PGraph α)
          = ({ rm.graph d with edges := (rm.graph d).edges.erase (a, b) } : Graph α).toP := by
        simp [Graph.toP, eraseFirstEdge_map]
      rw [this]
      exact psetDom_toP rm.doms d _

theorem clear_toP (rm : RoleMgr α) : rm.toP.clear = rm.clear.toP := by
  simp [PRm.clear, RoleMgr.clear, RoleMgr.toP]

/-! ### the walk -/

theorem outLinks_toP (g : Graph α) (u : α) : g.toP.outLinks u = g.succs u := by
  unfold PGraph.outLinks Graph.succs Graph.toP
  simp only
  induction g.edges with
  | nil => simp
  | cons e es ih =>
    obtain ⟨x, y⟩ := e
    simp only [List.map_cons, List.filter_cons, embE]
    by_cases h : x = u <;> simp [h, embE] <;> simpa [embE] using ih

theorem inAll_toP (g : Graph α) (u : α) : g.toP.inAll u = g.preds u := by
  unfold PGraph.inAll Graph.preds Graph.toP
  simp only
  induction g.edges with
  | nil => simp
  | cons e es ih =>
    obtain ⟨x, y⟩ := e
    simp only [List.map_cons, List.filter_cons, embE]
    by_cases h : y = u <;> simp [h, embE] <;> simpa [embE] using ih

theorem succs_toP (g : Graph α) : g.toP.succs false = g.succs := by
  funext u; simp [PGraph.succs, outLinks_toP]

theorem nextWith_succs (g : Graph α) (maxD : Nat) (b : Bfs α) :
    Bfs.nextWith g.succs maxD b = b.next g maxD := by
  unfold Bfs.nextWith Bfs.next; rfl

theorem searchWith_succs (g : Graph α) (maxD : Nat) (t : α) (fuel : Nat) (b : Bfs α) :
    searchWith g.succs (fun r => decide (r = t) || RoleFn.app none r t) maxD fuel b = search g maxD t fuel b := by
  induction fuel generalizing b with
  | zero => simp [searchWith, search]
  | succ n ih =>
    simp only [searchWith, search, nextWith_succs]
    cases b.next g maxD with
    | none => rfl
    | some p =>
      obtain ⟨u, b'⟩ := p
      simp only [RoleFn.app, Bool.or_false, decide_eq_true_eq]
      by_cases h : u = t
      · simp [h]
      · simp only [h, if_false]; simpa [RoleFn.app] using ih b'

theorem startNode_toP (g : Graph α) (a : α) :
    g.toP.startNode none a = if a ∈ g.nodes then some a else none := by
  unfold PGraph.startNode
  by_cases h : a ∈ g.nodes <;> simp [h]

theorem graphHasLink_toP (g : Graph α) (maxD : Nat) (a b : α) :
    g.toP.hasLink none maxD a b = if a ∈ g.nodes then search g maxD b (g.nodes.length + 1) (Bfs.init a) else false := by
  unfold PGraph.hasLink
  rw [startNode_toP]
  by_cases h : a ∈ g.nodes
  · simp only [h, if_true, Option.isSome_none, succs_toP, toP_nodes]
    exact searchWith_succs g maxD b _ _
  · simp [h]

/-- **has_link** of the manager as written, no function installed, is `has_link` of `RoleGraph.lean` -/
theorem hasLink_toP (rm : RoleMgr α) (a b d : α) :
    rm.toP.hasLink none none a b d = rm.hasLink a b d := by
  unfold PRm.hasLink RoleMgr.hasLink
  by_cases hab : a = b
  · simp [hab]
  · simp only [hab, if_false]
    rw [matchedDomains_toP]
    cases h : rm.graph? d with
    | none => simp
    | some g =>
      have hg : rm.graph d = g := by simp [RoleMgr.graph, h]
      simp only [Option.isSome_some, if_true, List.any_cons, List.any_nil, Bool.or_false, toP_graph, hg,
        toP_maxLevel, graphHasLink_toP]

theorem firstNode_toP (g : Graph α) (a : α) :
    g.toP.firstNode none a = if a ∈ g.nodes then some a else none := by
  unfold PGraph.firstNode
  simp only [RoleFn.app, Bool.or_false, toP_nodes]
  induction g.nodes with
  | nil => simp
  | cons x xs ih =>
    simp only [List.find?_cons, List.mem_cons]
    by_cases h : x = a
    · simp [h]
    · have h' : ¬ a = x := fun hh => h hh.symm
      simp only [h, decide_false, h', false_or]
      exact ih

theorem getRoles_toP (rm : RoleMgr α) (a d : α) :
    rm.toP.getRoles none none a d = rm.getRoles a d := by
  unfold PRm.getRoles RoleMgr.getRoles
  rw [matchedDomains_toP]
  cases h : rm.graph? d with
  | none => simp [dedup]
  | some g =>
    have hg : rm.graph d = g := by simp [RoleMgr.graph, h]
    simp only [Option.isSome_some, if_true, List.flatMap_cons, List.flatMap_nil, List.append_nil, toP_graph, hg,
      firstNode_toP]
    by_cases hn : a ∈ g.nodes
    · simp [hn, succs_toP]
    · simp [hn, dedup]

theorem getUsers_toP (rm : RoleMgr α) (a d : α) :
    rm.toP.getUsers none none a d = rm.getUsers a d := by
  unfold PRm.getUsers RoleMgr.getUsers
  rw [matchedDomains_toP]
  cases h : rm.graph? d with
  | none => simp [dedup]
  | some g =>
    have hg : rm.graph d = g := by simp [RoleMgr.graph, h]
    simp only [Option.isSome_some, if_true, List.flatMap_cons, List.flatMap_nil, List.append_nil, toP_graph, hg,
      firstNode_toP]
    by_cases hn : a ∈ g.nodes
    · simp [hn, inAll_toP]
    · simp [hn, dedup]

/-! ### histories -/

/-- a history of the manager as written, under fixed functions -/
def PRm.apply (rf df : RoleFn α) (rm : PRm α) : RmOp α → PRm α
  | .add a b d => rm.addLink rf a b d
  | .del a b d => (rm.deleteLink rf df a b d).getD rm
  | .clear => rm.clear

def PRm.run (rf df : RoleFn α) (rm : PRm α) (h : List (RmOp α)) : PRm α := h.foldl (PRm.apply rf df) rm

theorem apply_toP (rm : RoleMgr α) (op : RmOp α) : rm.toP.apply none none op = (rm.apply op).toP := by
  cases op with
  | add a b d => exact addLink_toP rm a b d
  | del a b d =>
    simp only [PRm.apply, RoleMgr.apply, deleteLink_toP]
    cases rm.deleteLink a b d <;> simp
  | clear => exact clear_toP rm

/-- after every history, the manager as written (no function installed) is the embedding of the plain one -/
theorem run_toP (rm : RoleMgr α) (h : List (RmOp α)) : rm.toP.run none none h = (rm.run h).toP := by
  induction h generalizing rm with
  | nil => rfl
  | cons op ops ih =>
    simp only [PRm.run, RoleMgr.run, List.foldl_cons, apply_toP]
    exact ih (rm.apply op)

theorem new_toP (n : Nat) : (RoleMgr.new n : RoleMgr α).toP = PRm.new n := rfl

/-! ### a domain-matching function only -/

theorem graphHasLink_eq (rm : RoleMgr α) (a b k : α) (hab : a ≠ b) :
    (rm.toP.graph k).hasLink none rm.maxLevel a b = rm.hasLink a b k := by
  rw [toP_graph, graphHasLink_toP]
  unfold RoleMgr.hasLink
  simp only [hab, if_false]
  cases h : rm.graph? k with
  | none => simp [RoleMgr.graph, h, Graph.empty]
  | some g => simp [RoleMgr.graph, h]

/-- with a domain-matching function only, `has_link` is the disjunction of the plain answers over the
matched domains -/
theorem hasLink_toP_df (rm : RoleMgr α) (df : RoleFn α) (a b d : α) (hab : a ≠ b) :
    rm.toP.hasLink none df a b d = (rm.toP.matchedDomains df d).any (fun k => rm.hasLink a b k) := by
  unfold PRm.hasLink
  simp only [hab, if_false, toP_maxLevel]
  congr 1
  funext k
  exact graphHasLink_eq rm a b k hab

theorem keys_setDom (doms : List (α × Graph α)) (d k : α) (g : Graph α) (h : k ∈ doms.map (·.1)) :
    k ∈ (setDom doms d g).map (·.1) := by
  induction doms with
  | nil => simp at h
  | cons p ps ih =>
    obtain ⟨d', g'⟩ := p
    simp only [setDom]
    by_cases hd : d' = d
    · simp only [hd, if_true, List.map_cons, List.mem_cons] at h ⊢
      rcases h with h | h
      · exact Or.inl (by simpa [hd] using h)
      · exact Or.inr h
    · simp only [hd, if_false, List.map_cons, List.mem_cons] at h ⊢
      rcases h with h | h
      · exact Or.inl h
      · exact Or.inr (ih h)

theorem matchedDomains_addLink (rm : RoleMgr α) (df : RoleFn α) (x y d' d k : α)
    (h : k ∈ rm.toP.matchedDomains df d) : k ∈ (rm.addLink x y d').toP.matchedDomains df d := by
  cases df with
  | none =>
    rw [matchedDomains_toP] at h ⊢
    by_cases hs : (rm.graph? d).isSome
    · simp only [hs, if_true] at h
      have : ((rm.addLink x y d').graph? d).isSome := by
        unfold RoleMgr.addLink
        by_cases hxy : x = y
        · simpa [hxy] using hs
        · simp only [hxy, if_false]
          rw [graph?_setDom]
          split <;> simp [hs]
      simpa [this] using h
    · simp [hs] at h
  | some f =>
    simp only [PRm.matchedDomains, RoleMgr.toP, List.map_map, List.mem_filter] at h ⊢
    refine ⟨?_, h.2⟩
    have h1 : k ∈ rm.doms.map (·.1) := by simpa [Function.comp] using h.1
    have : k ∈ (rm.addLink x y d').doms.map (·.1) := by
      unfold RoleMgr.addLink
      by_cases hxy : x = y
      · simpa [hxy] using h1
      · simp only [hxy, if_false]
        exact keys_setDom _ _ _ _ h1
    simpa [Function.comp] using this

end Casbin
