import CasbinModel.Lemmas.Enforce
/-! Indeterminate outcomes never influence the reference scan (used by C07 / C08). -/
namespace Casbin

def nonIndet (l : List Eff) : List Eff := l.filter (fun e => decide (e ≠ .indet))

theorem nonIndet_append (a b : List Eff) : nonIndet (a ++ b) = nonIndet a ++ nonIndet b := by
  simp [nonIndet]

theorem firstDet_nonIndet (l : List Eff) : firstDet (nonIndet l) = firstDet l := by
  induction l with
  | nil => rfl
  | cons e es ih =>
    by_cases he : e = .indet
    · subst he; simp only [nonIndet, firstDet] at ih ⊢; simpa using ih
    · simp only [nonIndet] at ih ⊢
      simp [he, firstDet]

theorem combine_nonIndet (ex : EffExpr) (l : List Eff) : combine ex (nonIndet l) = combine ex l := by
  cases ex <;> simp only [combine]
  · simp [nonIndet]
  · simp [nonIndet]
  · simp [nonIndet]
  · rw [firstDet_nonIndet]

theorem decided_nonIndet (ex : EffExpr) (l : List Eff) : decided ex (nonIndet l) = decided ex l := by
  cases ex <;> simp only [decided]
  · simp [nonIndet]
  · simp [nonIndet]
  · simp [nonIndet]
  · rw [firstDet_nonIndet]

theorem combine_congr_nonIndet (ex : EffExpr) {l l' : List Eff} (h : nonIndet l = nonIndet l') :
    combine ex l = combine ex l' := by
  rw [← combine_nonIndet ex l, ← combine_nonIndet ex l', h]

theorem decided_congr_nonIndet (ex : EffExpr) {l l' : List Eff} (h : nonIndet l = nonIndet l') :
    decided ex l = decided ex l' := by
  rw [← decided_nonIndet ex l, ← decided_nonIndet ex l', h]

/-- the scan depends on what was pushed so far only up to indeterminate effects -/
theorem refScan_congr_acc (ex : EffExpr) (outs : List (Except ErrKind Eff)) :
    ∀ acc acc', nonIndet acc = nonIndet acc' → refScan ex acc outs = refScan ex acc' outs := by
  induction outs with
  | nil => intro acc acc' h; simp only [refScan]; rw [combine_congr_nonIndet ex h]
  | cons o rest ih =>
    intro acc acc' h
    cases o with
    | error k => simp [refScan]
    | ok e =>
      have h' : nonIndet (acc ++ [e]) = nonIndet (acc' ++ [e]) := by
        rw [nonIndet_append, nonIndet_append, h]
      simp only [refScan]
      rw [decided_congr_nonIndet ex h', combine_congr_nonIndet ex h', ih _ _ h']

def isIndetOk : Except ErrKind Eff → Bool
  | .ok .indet => true
  | _ => false

/-- **Outcomes `ok indet` can be dropped** from an undecided scan -/
theorem refScan_drop_indet (ex : EffExpr) (outs : List (Except ErrKind Eff)) :
    ∀ acc, decided ex acc = false →
      refScan ex acc outs = refScan ex acc (outs.filter (fun o => !isIndetOk o)) := by
  induction outs with
  | nil => intro acc _; rfl
  | cons o rest ih =>
    intro acc hund
    cases o with
    | error k => simp [refScan, isIndetOk]
    | ok e =>
      by_cases he : e = .indet
      · subst he
        have h1 : nonIndet (acc ++ [Eff.indet]) = nonIndet acc := by simp [nonIndet]
        have hd : decided ex (acc ++ [Eff.indet]) = false := by
          rw [decided_congr_nonIndet ex h1]; exact hund
        simp only [refScan, hd, Bool.false_eq_true, if_false, List.filter, isIndetOk, Bool.not_true]
        rw [refScan_congr_acc ex rest _ _ h1]
        exact ih acc hund
      · have hk : isIndetOk (Except.ok e : Except ErrKind Eff) = false := by
          cases e <;> simp_all [isIndetOk]
        simp only [List.filter, hk, Bool.not_false, refScan]
        split
        · rfl
        · rename_i hd
          exact ih _ (by cases h : decided ex (acc ++ [e]) <;> simp_all)

theorem decided_nil (ex : EffExpr) : decided ex [] = false := by cases ex <;> simp [decided, firstDet]

/-- two outcome lists that agree after dropping `ok indet` scan to the same result -/
theorem refScan_eq_of_filter_eq (ex : EffExpr) (outs outs' : List (Except ErrKind Eff))
    (h : outs.filter (fun o => !isIndetOk o) = outs'.filter (fun o => !isIndetOk o)) :
    refScan ex [] outs = refScan ex [] outs' := by
  rw [refScan_drop_indet ex outs [] (decided_nil ex), refScan_drop_indet ex outs' [] (decided_nil ex), h]

/-- restricting a list to a sublist outside of which `f` is filtered away -/
theorem filter_map_restrict {α β : Type} (l : List α) (inD : α → Bool) (f : α → β) (q : β → Bool)
    (h : ∀ x ∈ l, inD x = false → q (f x) = false) :
    (l.map f).filter q = ((l.filter inD).map f).filter q := by
  induction l with
  | nil => rfl
  | cons x xs ih =>
    have ih' := ih (fun y hy => h y (by simp [hy]))
    by_cases hx : inD x = true
    · simp only [List.map_cons, List.filter_cons, hx, if_true]
      split <;> simp [ih']
    · have hx' : inD x = false := by cases hh : inD x <;> simp_all
      have := h x (by simp) hx'
      simp [List.filter_cons, hx', this, ih']

end Casbin
