import CasbinModel.Enforcer
import CasbinModel.Lemmas.Csv
import CasbinModel.Lemmas.SaveMirror
/-! What the file / string adapter reads back from the text its own `save_policy` wrote (C09). -/
namespace Casbin

theorem splitLines_go_line (cur l rest : List Char) (h : '\n' ∉ l) :
    splitLines.go cur (l ++ '\n' :: rest) = (cur.reverse ++ l) :: splitLines.go [] rest := by
  induction l generalizing cur with
  | nil => simp [splitLines.go]
  | cons c cs ih =>
    have hc : c ≠ '\n' := fun h' => h (by rw [h']; exact List.mem_cons_self)
    have hcs : '\n' ∉ cs := fun h' => h (List.mem_cons_of_mem _ h')
    simp only [List.cons_append, splitLines.go, hc, if_false]
    rw [ih _ hcs]
    simp

/-- a text made of newline-terminated lines splits into exactly those lines and one empty rest -/
theorem splitLines_terminated (ls : List (List Char)) (h : ∀ l ∈ ls, '\n' ∉ l) :
    splitLines ((ls.map (· ++ ['\n'])).flatten) = ls ++ [[]] := by
  unfold splitLines
  induction ls with
  | nil => rfl
  | cons l rest ih =>
    simp only [List.map_cons, List.flatten_cons, List.append_assoc, List.singleton_append]
    rw [splitLines_go_line [] l _ (h l List.mem_cons_self)]
    rw [ih (fun x hx => h x (List.mem_cons_of_mem _ hx))]
    simp

/-- `load_policy_line` of the file / string adapter on one line of text -/
def lineRecord (line : List Char) : Option (String × String × Rule) :=
  if line.isEmpty || line.head? = some '#' then none else
  match parseCsvLine line with
  | none => none
  | some toks =>
    match toks with
    | [] => none
    | key :: rule =>
      match key with
      | [] => none
      | c :: _ => some (String.singleton c, String.ofList key, rule.map String.ofList)

theorem records_text (a : AdapterSt) (hk : a.kind = .file ∨ a.kind = .string) :
    a.records = (splitLines a.text).filterMap lineRecord := by
  unfold AdapterSt.records
  rcases hk with hk | hk <;> rw [hk] <;> rfl

/-- a rule the text format carries: not empty, every value safe and on one line -/
structure SafeRule (r : Rule) : Prop where
  ne : r ≠ []
  safe : ∀ f ∈ r, SafeField f.toList
  oneLine : ∀ f ∈ r, '\n' ∉ f.toList

/-- a policy type name the text format carries -/
structure SafeKey (k : String) : Prop where
  safe : SafeField k.toList
  noComma : ',' ∉ k.toList
  noHash : k.toList.head? ≠ some '#'
  oneLine : '\n' ∉ k.toList

theorem joinWith_no_nl (sep : List Char) (hsep : '\n' ∉ sep) (cols : List (List Char)) (h : ∀ c ∈ cols, '\n' ∉ c) :
    '\n' ∉ joinWith sep cols := by
  induction cols with
  | nil => simp [joinWith]
  | cons x xs ih =>
    cases xs with
    | nil => simpa [joinWith] using h x List.mem_cons_self
    | cons y ys =>
      simp only [joinWith, List.mem_append, not_or]
      exact ⟨⟨h x List.mem_cons_self, hsep⟩, ih (fun c hc => h c (List.mem_cons_of_mem _ hc))⟩

theorem renderField_no_nl (f : List Char) (h : '\n' ∉ f) : '\n' ∉ renderField f := by
  unfold renderField
  split
  · intro hm
    have h1 : ('\n' : Char) ≠ '"' := by decide
    simp only [List.mem_cons, List.mem_append, List.not_mem_nil, or_false] at hm
    rcases hm with (hm | hm) | hm
    · exact h1 hm
    · exact h hm
    · exact h1 hm
  · exact h

theorem renderLine_no_nl (sep : List Char) (hsep : '\n' ∉ sep) (k : String) (r : Rule) (hk : SafeKey k) (hr : SafeRule r) :
    '\n' ∉ renderLine sep k.toList (r.map String.toList) := by
  unfold renderLine
  simp only [List.mem_append, not_or]
  refine ⟨⟨hk.oneLine, by decide⟩, ?_⟩
  apply joinWith_no_nl sep hsep
  intro c hc
  simp only [List.mem_map] at hc
  obtain ⟨f, ⟨s, hs, rfl⟩, rfl⟩ := hc
  exact renderField_no_nl _ (hr.oneLine s hs)

/-- **one saved line reads back as the rule that was written**, filed under the first character of its policy type -/
theorem lineRecord_render (sep : List Char) {k : String} {r : Rule}
    (parse : parseCsvLine (renderLine sep k.toList (r.map String.toList)) = some (k.toList :: r.map String.toList))
    (hk : SafeKey k) :
    lineRecord (renderLine sep k.toList (r.map String.toList)) = some (String.ofList (k.toList.take 1), k, r) := by
  obtain ⟨c, cs, hkc⟩ : ∃ c cs, k.toList = c :: cs := by
    cases hh : k.toList with
    | nil => exact absurd hh hk.safe.ne
    | cons c cs => exact ⟨c, cs, rfl⟩
  have hhead : (renderLine sep k.toList (r.map String.toList)).head? = some c := by
    unfold renderLine; rw [hkc]; rfl
  have hne : (renderLine sep k.toList (r.map String.toList)).isEmpty = false := by
    unfold renderLine; rw [hkc]; rfl
  have hc : c ≠ '#' := by
    intro h; apply hk.noHash; rw [hkc, h]; rfl
  unfold lineRecord
  rw [hne, hhead, parse]
  have : ¬ (false || decide (some c = some '#')) = true := by simp [hc]
  rw [if_neg this]
  simp only []
  rw [hkc]
  simp only [List.take_succ_cons, List.take_zero]
  rw [← hkc]
  have h1 : String.singleton c = String.ofList [c] := rfl
  rw [h1]
  simp

end Casbin
