import CasbinModel.KeyMatch
/-!
Segment grammar of the RESTful matchers and the segment-wise specification (C15), with the
lemmas relating the crate's pipeline — textual rewriting, regex compilation, backtracking
match — to it.
-/
namespace Casbin

/-- one `/`-separated pattern segment -/
inductive PSeg where
  | lit (s : Str)      -- literal text
  | named (n : Str)    -- `:name` / `{name}`
  | rest               -- `*`
  deriving DecidableEq, Repr

/-- literal characters: no regex metacharacter, no `/`, no `:` -/
def LitChar (c : Char) : Prop := isMeta c = false ∧ c ≠ '/' ∧ c ≠ ':'

instance : DecidablePred LitChar := fun c => by unfold LitChar; infer_instance

def PSeg.Ok : PSeg → Prop
  | .lit s => ∀ c ∈ s, LitChar c
  | .named n => ∀ c ∈ n, c ≠ '/'
  | .rest => True

/-- the pattern as written for keyMatch2 -/
def render2 : List PSeg → Str
  | [] => []
  | .lit s :: ps => '/' :: s ++ render2 ps
  | .named n :: ps => '/' :: ':' :: n ++ render2 ps
  | .rest :: ps => '/' :: '*' :: render2 ps

/-- tails of `t` reachable by skipping a newline-free prefix, longest tail first -/
def restTails : Str → List Str
  | [] => [[]]
  | c :: cs => (c :: cs) :: (if c ≠ '\n' then restTails cs else [])

/-- **the segment-wise meaning** (no regular expressions): every segment starts at a `/`;
a literal segment is that text, a named segment is one non-empty `/`-free run, `*` is any
newline-free remainder after which the remaining segments match -/
def segMatch : List PSeg → Str → Bool
  | [], k => k.isEmpty
  | .lit s :: ps, k =>
    (match k with
     | '/' :: t => s.isPrefixOf t && segMatch ps (t.drop s.length)
     | _ => false)
  | .named _ :: ps, k =>
    (match k with
     | '/' :: t => !(t.takeWhile (· ≠ '/')).isEmpty && segMatch ps (t.dropWhile (· ≠ '/'))
     | _ => false)
  | .rest :: ps, k =>
    (match k with
     | '/' :: t => (restTails t).any (fun b => segMatch ps b)
     | _ => false)

/-- compiled form -/
def itemsOf : List PSeg → List Item
  | [] => []
  | .lit s :: ps => .ch '/' :: (s.map Item.ch ++ itemsOf ps)
  | .named _ :: ps => .ch '/' :: .seg false false :: itemsOf ps
  | .rest :: ps => .ch '/' :: .dotStar :: itemsOf ps

/-- the regular expression text the rewriting produces -/
def reBody : List PSeg → Str
  | [] => []
  | .lit s :: ps => '/' :: s ++ reBody ps
  | .named _ :: ps => '/' :: segRe ++ reBody ps
  | .rest :: ps => '/' :: '.' :: '*' :: reBody ps

/-! ### matching -/

theorem firstSome_isSome {α β : Type} (xs : List α) (f : α → Option β) :
    (firstSome xs f).isSome = xs.any (fun x => (f x).isSome) := by
  induction xs with
  | nil => rfl
  | cons x rest ih =>
    simp only [firstSome, List.any_cons]
    cases h : f x with
    | some b => simp
    | none => simp [ih]

theorem mem_splits (p : Char → Bool) (s a b : Str) :
    (a, b) ∈ splits p s ↔ s = a ++ b ∧ ∀ c ∈ a, p c = true := by
  induction s generalizing a with
  | nil =>
    simp only [splits, List.mem_singleton, Prod.mk.injEq]
    constructor
    · rintro ⟨rfl, rfl⟩; simp
    · rintro ⟨h, _⟩
      have := List.append_eq_nil_iff.mp h.symm
      exact ⟨this.1, this.2⟩
  | cons c cs ih =>
    simp only [splits, List.mem_cons, Prod.mk.injEq]
    constructor
    · rintro (⟨rfl, rfl⟩ | h)
      · simp
      · by_cases hp : p c = true
        · simp only [hp, if_true, List.mem_map] at h
          obtain ⟨⟨a', b'⟩, hm, heq⟩ := h
          simp only [Prod.mk.injEq] at heq
          obtain ⟨rfl, rfl⟩ := heq
          obtain ⟨h1, h2⟩ := (ih a').mp hm
          refine ⟨by rw [h1]; rfl, ?_⟩
          intro x hx
          rcases List.mem_cons.mp hx with rfl | hx
          · exact hp
          · exact h2 x hx
        · simp [hp] at h
    · rintro ⟨h, hall⟩
      cases a with
      | nil => left; exact ⟨rfl, by simpa using h.symm⟩
      | cons x a' =>
        right
        simp only [List.cons_append, List.cons.injEq] at h
        obtain ⟨rfl, h⟩ := h
        have hp : p c = true := hall c (by simp)
        simp only [hp, if_true, List.mem_map]
        exact ⟨(a', b), (ih a').mpr ⟨h, fun y hy => hall y (by simp [hy])⟩, rfl⟩

theorem restTails_eq (t : Str) : restTails t = (splits (· ≠ '\n') t).map (·.2) := by
  induction t with
  | nil => rfl
  | cons c cs ih =>
    simp only [restTails, splits, List.map_cons]
    by_cases h : c ≠ '\n'
    · simp [h, ih, List.map_map, Function.comp_def]
    · simp [h]

theorem mem_takeWhile_sat (p : Char → Bool) (t : Str) (c : Char) (h : c ∈ t.takeWhile p) : p c = true := by
  induction t with
  | nil => cases h
  | cons x xs ih =>
    simp only [List.takeWhile] at h
    split at h
    · rename_i hp
      rcases List.mem_cons.mp h with rfl | h
      · exact hp
      · exact ih h
    · cases h

/-- whatever the remaining pattern, a key it matches is empty or starts a new segment -/
theorem segMatch_head (ps : List PSeg) (b : Str) (h : segMatch ps b = true) : b = [] ∨ ∃ t, b = '/' :: t := by
  cases ps with
  | nil => left; simpa [segMatch] using h
  | cons p ps =>
    right
    cases p <;> (unfold segMatch at h; split at h; exact ⟨_, rfl⟩; cases h)

theorem takeWhile_dropWhile_unique (a b t : Str) (h : t = a ++ b) (ha : ∀ c ∈ a, (decide (c ≠ '/')) = true)
    (hb : b = [] ∨ ∃ t', b = '/' :: t') : a = t.takeWhile (· ≠ '/') ∧ b = t.dropWhile (· ≠ '/') := by
  subst h
  induction a with
  | nil =>
    rcases hb with rfl | ⟨t', rfl⟩
    · simp
    · simp [List.takeWhile, List.dropWhile]
  | cons x a ih =>
    have hx := ha x (by simp)
    have := ih (fun c hc => ha c (by simp [hc]))
    simp only [List.cons_append, List.takeWhile, List.dropWhile, hx]
    exact ⟨by rw [← this.1], this.2⟩

/-- **matching the compiled segments = the segment-wise meaning** -/
theorem matchItems_itemsOf (ps : List PSeg) (k : Str) :
    (matchItems (itemsOf ps) k).isSome = segMatch ps k := by
  induction ps generalizing k with
  | nil => cases k <;> simp [itemsOf, matchItems, segMatch]
  | cons p ps ih =>
    cases k with
    | nil => cases p <;> simp [itemsOf, matchItems, segMatch]
    | cons x t =>
      by_cases hx : x = '/'
      · subst hx
        cases p with
        | lit s =>
          simp only [itemsOf, matchItems, if_true, segMatch]
          -- a literal run
          have hl : ∀ (s : Str) (k : Str), matchItems (s.map Item.ch ++ itemsOf ps) k =
              if s.isPrefixOf k then matchItems (itemsOf ps) (k.drop s.length) else none := by
            intro s
            induction s with
            | nil => intro k; simp [List.isPrefixOf]
            | cons c s ihs =>
              intro k
              cases k with
              | nil => simp [matchItems, List.isPrefixOf]
              | cons y r =>
                simp only [List.map_cons, List.cons_append, matchItems, List.isPrefixOf]
                by_cases hy : y = c
                · subst hy; simp [ihs]
                · have : (c == y) = false := by simp [Ne.symm hy]
                  simp [hy, this]
          rw [hl]
          cases hp : s.isPrefixOf t with
          | true => simp [ih]
          | false => simp
        | named n =>
          simp only [itemsOf, matchItems, if_true, segMatch, Bool.false_eq_true, if_false]
          rw [firstSome_isSome, List.any_reverse, Bool.eq_iff_iff, List.any_eq_true]
          constructor
          · rintro ⟨⟨a, b⟩, hm, hs⟩
            rw [List.mem_filter] at hm
            obtain ⟨hm, hne⟩ := hm
            obtain ⟨ht, hall⟩ := (mem_splits _ t a b).mp hm
            have hb : segMatch ps b = true := by
              rw [← ih b]
              cases hmi : matchItems (itemsOf ps) b with
              | none => simp [hmi] at hs
              | some v => rfl
            obtain ⟨e1, e2⟩ := takeWhile_dropWhile_unique a b t ht hall (segMatch_head ps b hb)
            rw [← e1, ← e2, hb]
            simpa using hne
          · intro h
            simp only [Bool.and_eq_true] at h
            refine ⟨(t.takeWhile (· ≠ '/'), t.dropWhile (· ≠ '/')), ?_, ?_⟩
            · rw [List.mem_filter]
              refine ⟨(mem_splits _ t _ _).mpr ⟨(List.takeWhile_append_dropWhile).symm, ?_⟩, h.1⟩
              intro c hc
              exact mem_takeWhile_sat _ t c hc
            · have := (ih (t.dropWhile (· ≠ '/'))).trans h.2
              cases hmi : matchItems (itemsOf ps) (t.dropWhile (· ≠ '/')) with
              | none => rw [hmi] at this; cases this
              | some v => simp
        | rest =>
          simp only [itemsOf, matchItems, if_true, segMatch]
          rw [firstSome_isSome, List.any_reverse, restTails_eq, List.any_map]
          congr 1
          funext pr
          exact ih pr.2
      · have hne : ¬ (x = '/') := hx
        cases p with
        | lit s => simp [itemsOf, matchItems, segMatch, hx]
        | named n => simp [itemsOf, matchItems, segMatch, hx]
        | rest => simp [itemsOf, matchItems, segMatch, hx]

/-! ### compilation -/

def quantChar (d : Char) : Bool := d = '?' || d = '*' || d = '+' || d = '{'

theorem toItems_ch_nil (f : Nat) (c : Char) (hc : isMeta c = false) :
    toItems (f + 1) [c] = some [Item.ch c] := by
  have h1 : c ≠ '.' := by intro h; subst h; simp [isMeta] at hc
  conv => lhs; unfold toItems
  split <;> simp_all

theorem toItems_ch_cons (f : Nat) (c d : Char) (t : Str) (hc : isMeta c = false) (hd : quantChar d = false) :
    toItems (f + 1) (c :: d :: t) = (toItems f (d :: t)).map (Item.ch c :: ·) := by
  have h1 : c ≠ '.' := by intro h; subst h; simp [isMeta] at hc
  have h2 : c ≠ '(' := by intro h; subst h; simp [isMeta] at hc
  have h3 : c ≠ '[' := by intro h; subst h; simp [isMeta] at hc
  have h4 : c ≠ '\\' := by intro h; subst h; simp [isMeta] at hc
  simp only [quantChar, Bool.or_eq_false_iff, decide_eq_false_iff_not] at hd
  conv => lhs; unfold toItems
  split <;> simp_all
  rename_i heq
  obtain ⟨_, rfl⟩ := heq
  simp [hd]

theorem segRe_eq : segRe = ['[', '^', '/', ']', '+'] := by decide +kernel

/-- the text continues with nothing or with a character that is not a quantifier -/
def SafeHead (X : Str) : Prop := X = [] ∨ ∃ d t, X = d :: t ∧ quantChar d = false

theorem toItems_nil (f : Nat) : toItems (f + 1) [] = some [] := by
  unfold toItems; rfl

theorem compile_ch (c : Char) (hc : isMeta c = false) (X : Str) (I : List Item)
    (hX : ∀ f, f > X.length → toItems f X = some I) (hXh : SafeHead X) :
    ∀ f, f > (c :: X).length → toItems f (c :: X) = some (Item.ch c :: I) := by
  intro f hf
  cases f with
  | zero => simp at hf
  | succ f =>
    rcases hXh with rfl | ⟨d, t, rfl, hd⟩
    · have : I = [] := by
        have := hX 1 (by simp)
        rw [toItems_nil] at this
        exact (Option.some.inj this).symm
      subst this
      exact toItems_ch_nil f c hc
    · rw [toItems_ch_cons f c d t hc hd, hX f (by simp at hf ⊢; omega)]
      rfl

theorem compile_dotStar (X : Str) (I : List Item) (hX : ∀ f, f > X.length → toItems f X = some I) :
    ∀ f, f > ('.' :: '*' :: X).length → toItems f ('.' :: '*' :: X) = some (Item.dotStar :: I) := by
  intro f hf
  cases f with
  | zero => simp at hf
  | succ f =>
    conv => lhs; unfold toItems
    simp only []
    rw [hX f (by simp at hf ⊢; omega)]
    rfl

theorem compile_seg (X : Str) (I : List Item) (hX : ∀ f, f > X.length → toItems f X = some I) (hXh : SafeHead X) :
    ∀ f, f > (segRe ++ X).length → toItems f (segRe ++ X) = some (Item.seg false false :: I) := by
  intro f hf
  rw [segRe_eq] at hf ⊢
  cases f with
  | zero => simp at hf
  | succ f =>
    rcases hXh with rfl | ⟨d, t, rfl, hd⟩
    · have : I = [] := by
        have := hX 1 (by simp)
        rw [toItems_nil] at this
        exact (Option.some.inj this).symm
      subst this
      conv => lhs; unfold toItems
      rfl
    · simp only [quantChar, Bool.or_eq_false_iff, decide_eq_false_iff_not] at hd
      conv => lhs; unfold toItems
      simp only [List.cons_append, List.nil_append]
      rw [hX f (by simp at hf ⊢; omega)]
      simp [hd]

theorem litChar_not_quant {c : Char} (h : LitChar c) : quantChar c = false := by
  obtain ⟨hm, _, _⟩ := h
  simp only [quantChar, Bool.or_eq_false_iff, decide_eq_false_iff_not]
  refine ⟨⟨⟨?_, ?_⟩, ?_⟩, ?_⟩ <;> (intro h; subst h; simp [isMeta] at hm)

theorem safeHead_lit (s : Str) (hs : ∀ c ∈ s, LitChar c) (X : Str) (hX : SafeHead X) : SafeHead (s ++ X) := by
  cases s with
  | nil => exact hX
  | cons c s => exact Or.inr ⟨c, s ++ X, rfl, litChar_not_quant (hs c (by simp))⟩

theorem compile_lit (s : Str) (hs : ∀ c ∈ s, LitChar c) (X : Str) (I : List Item)
    (hX : ∀ f, f > X.length → toItems f X = some I) (hXh : SafeHead X) :
    ∀ f, f > (s ++ X).length → toItems f (s ++ X) = some (s.map Item.ch ++ I) := by
  induction s with
  | nil => exact hX
  | cons c s ih =>
    have hs' : ∀ c ∈ s, LitChar c := fun x hx => hs x (by simp [hx])
    exact compile_ch c (hs c (by simp)).1 (s ++ X) (s.map Item.ch ++ I) (ih hs') (safeHead_lit s hs' X hXh)

theorem reBody_safeHead (ps : List PSeg) : SafeHead (reBody ps) := by
  cases ps with
  | nil => exact Or.inl rfl
  | cons p ps => cases p <;> exact Or.inr ⟨'/', _, rfl, by decide⟩

/-- **the rewritten pattern compiles to the segment items** -/
theorem compile_reBody (ps : List PSeg) (hok : ∀ p ∈ ps, p.Ok) :
    ∀ f, f > (reBody ps).length → toItems f (reBody ps) = some (itemsOf ps) := by
  induction ps with
  | nil =>
    intro f hf
    cases f with
    | zero => simp [reBody] at hf
    | succ f => exact toItems_nil f
  | cons p ps ih =>
    have ih' := ih (fun q hq => hok q (by simp [hq]))
    have hp := hok p (by simp)
    cases p with
    | lit s =>
      simp only [reBody, itemsOf]
      exact compile_ch '/' (by decide) _ _ (compile_lit s hp _ _ ih' (reBody_safeHead ps)) (safeHead_lit s hp _ (reBody_safeHead ps))
    | named n =>
      simp only [reBody, itemsOf]
      refine compile_ch '/' (by decide) _ _ (compile_seg _ _ ih' (reBody_safeHead ps)) ?_
      rw [segRe_eq]
      exact Or.inr ⟨'[', _, rfl, by decide⟩
    | rest =>
      simp only [reBody, itemsOf]
      exact compile_ch '/' (by decide) _ _ (compile_dotStar _ _ ih') (Or.inr ⟨'.', _, rfl, by decide⟩)

/-! ### rewriting -/

/-- after `replace("/*", "/.*")` -/
def renderStar2 : List PSeg → Str
  | [] => []
  | .lit s :: ps => '/' :: s ++ renderStar2 ps
  | .named n :: ps => '/' :: ':' :: n ++ renderStar2 ps
  | .rest :: ps => '/' :: '.' :: '*' :: renderStar2 ps

theorem repl_cons (c : Char) (t : Str) (h : c ≠ '/' ∨ t = [] ∨ ∃ d t', t = d :: t' ∧ d ≠ '*') :
    replSlashStar (c :: t) = c :: replSlashStar t := by
  conv => lhs; unfold replSlashStar
  split
  · rename_i heq
    simp only [List.cons.injEq] at heq
    obtain ⟨rfl, rfl⟩ := heq
    rcases h with h | h | ⟨d, t', h, hd⟩
    · exact absurd rfl h
    · cases h
    · simp only [List.cons.injEq] at h; exact absurd h.1.symm hd
  · rename_i heq
    simp only [List.cons.injEq] at heq
    obtain ⟨rfl, rfl⟩ := heq
    rfl
  · rename_i heq; cases heq

theorem repl_append (s : Str) (hs : ∀ c ∈ s, c ≠ '/') (X : Str) : replSlashStar (s ++ X) = s ++ replSlashStar X := by
  induction s with
  | nil => rfl
  | cons c s ih =>
    simp only [List.cons_append]
    rw [repl_cons c _ (Or.inl (hs c (by simp))), ih (fun x hx => hs x (by simp [hx]))]

theorem render2_head (ps : List PSeg) : render2 ps = [] ∨ ∃ t, render2 ps = '/' :: t := by
  cases ps with
  | nil => exact Or.inl rfl
  | cons p ps => cases p <;> exact Or.inr ⟨_, rfl⟩

theorem repl_render2 (ps : List PSeg) (hok : ∀ p ∈ ps, p.Ok) : replSlashStar (render2 ps) = renderStar2 ps := by
  induction ps with
  | nil => simp [render2, renderStar2, replSlashStar]
  | cons p ps ih =>
    have ih' := ih (fun q hq => hok q (by simp [hq]))
    have hp := hok p (by simp)
    cases p with
    | lit s =>
      simp only [render2, renderStar2]
      have hs : ∀ c ∈ s, c ≠ '/' := fun c hc => (hp c hc).2.1
      simp only [List.cons_append]
      rw [repl_cons, repl_append s hs, ih']
      -- what follows the leading slash is not a `*`
      cases s with
      | nil =>
        rcases render2_head ps with h | ⟨t, h⟩
        · right; left; simp [h]
        · right; right; exact ⟨'/', t, by simp [h], by decide⟩
      | cons c s =>
        right; right
        refine ⟨c, s ++ render2 ps, rfl, ?_⟩
        intro h; subst h
        have := (hp '*' (by simp)).1
        simp [isMeta] at this
    | named n =>
      simp only [render2, renderStar2, List.cons_append]
      rw [repl_cons '/' _ (Or.inr (Or.inr ⟨':', _, rfl, by decide⟩)), repl_cons ':' _ (Or.inl (by decide)),
        repl_append n hp, ih']
    | rest =>
      simp only [render2, renderStar2]
      show '/' :: '.' :: '*' :: replSlashStar (render2 ps) = _
      rw [ih']

theorem renderStar2_head (ps : List PSeg) : renderStar2 ps = [] ∨ ∃ t, renderStar2 ps = '/' :: t := by
  cases ps with
  | nil => exact Or.inl rfl
  | cons p ps => cases p <;> exact Or.inr ⟨_, rfl⟩

theorem rc_cons (repl : Str) (m f : Nat) (c : Char) (t : Str) (hc : c ≠ ':') :
    (rewriteColon repl m (f + 1) (c :: t)).1 = c :: (rewriteColon repl m f t).1 := by
  conv => lhs; unfold rewriteColon
  split
  · rename_i heq; cases heq
  · rename_i h1 h2
    simp only [List.cons.injEq] at h2
    exact absurd h2.1 hc
  · rename_i h1 h2
    simp only [List.cons.injEq] at h2
    obtain ⟨rfl, rfl⟩ := h2
    cases h1
    rfl
  · rename_i h2 _; cases h2

theorem rc_append (repl : Str) (m : Nat) (s : Str) (hs : ∀ c ∈ s, c ≠ ':') (X : Str) (f : Nat) :
    (rewriteColon repl m (f + s.length) (s ++ X)).1 = s ++ (rewriteColon repl m f X).1 := by
  induction s with
  | nil => rfl
  | cons c s ih =>
    have : f + (c :: s).length = (f + s.length) + 1 := by simp; omega
    rw [this]
    simp only [List.cons_append]
    rw [rc_cons _ _ _ _ _ (hs c (by simp)), ih (fun x hx => hs x (by simp [hx]))]

theorem rc_named (repl : Str) (f : Nat) (n X : Str) (hn : ∀ c ∈ n, c ≠ '/') (hX : X = [] ∨ ∃ t, X = '/' :: t) :
    (rewriteColon repl 0 (f + 1) (':' :: (n ++ X))).1 = repl ++ (rewriteColon repl 0 f X).1 := by
  have hu := takeWhile_dropWhile_unique n X (n ++ X) rfl (fun c hc => by simpa using hn c hc) hX
  conv => lhs; unfold rewriteColon
  split
  · rename_i heq; cases heq
  · rename_i h1 h2
    simp only [List.cons.injEq, true_and] at h2
    subst h2
    cases h1
    simp only [ge_iff_le, Nat.zero_le, if_true]
    rw [← hu.2]
  · rename_i hne _ heq
    simp only [List.cons.injEq] at heq
    exact absurd heq.1.symm hne
  · rename_i h2 _; cases h2

theorem rc_nil (repl : Str) (m f : Nat) : (rewriteColon repl m f []).1 = [] := by
  cases f <;> (unfold rewriteColon; rfl)

theorem rc_renderStar2 (ps : List PSeg) (hok : ∀ p ∈ ps, p.Ok) :
    ∀ f, f > (renderStar2 ps).length → (rewriteColon segRe 0 f (renderStar2 ps)).1 = reBody ps := by
  induction ps with
  | nil => intro f _; exact rc_nil _ _ _
  | cons p ps ih =>
    have ih' := ih (fun q hq => hok q (by simp [hq]))
    have hp := hok p (by simp)
    intro f hf
    cases p with
    | lit s =>
      simp only [renderStar2, reBody, List.cons_append, List.length_cons, List.length_append] at hf ⊢
      obtain ⟨f', rfl⟩ : ∃ f', f = (f' + s.length) + 1 := ⟨f - 1 - s.length, by omega⟩
      rw [rc_cons _ _ _ _ _ (by decide), rc_append _ _ s (fun c hc => (hp c hc).2.2), ih' f' (by omega)]
    | named n =>
      simp only [renderStar2, reBody, List.cons_append, List.length_cons, List.length_append] at hf ⊢
      obtain ⟨f', rfl⟩ : ∃ f', f = (f' + 1) + 1 := ⟨f - 2, by omega⟩
      rw [rc_cons _ _ _ _ _ (by decide), rc_named _ _ n _ hp (renderStar2_head ps), ih' f' (by omega)]
    | rest =>
      simp only [renderStar2, reBody, List.length_cons] at hf ⊢
      obtain ⟨f', rfl⟩ : ∃ f', f = f' + 1 + 1 + 1 := ⟨f - 3, by omega⟩
      rw [rc_cons _ _ _ _ _ (by decide), rc_cons _ _ _ _ _ (by decide), rc_cons _ _ _ _ _ (by decide), ih' f' (by omega)]

/-! ### the brace syntax (keyMatch3 / keyMatch5) -/

def render3 : List PSeg → Str
  | [] => []
  | .lit s :: ps => '/' :: s ++ render3 ps
  | .named n :: ps => '/' :: '{' :: n ++ '}' :: render3 ps
  | .rest :: ps => '/' :: '*' :: render3 ps

def renderStar3 : List PSeg → Str
  | [] => []
  | .lit s :: ps => '/' :: s ++ renderStar3 ps
  | .named n :: ps => '/' :: '{' :: n ++ '}' :: renderStar3 ps
  | .rest :: ps => '/' :: '.' :: '*' :: renderStar3 ps

/-- names for the lazy rewriting (`\{[^/]+?\}`): non-empty and without `}` -/
def PSeg.OkLazy : PSeg → Prop
  | .named n => n ≠ [] ∧ ∀ c ∈ n, c ≠ '}'
  | _ => True

theorem render3_head (ps : List PSeg) : render3 ps = [] ∨ ∃ t, render3 ps = '/' :: t := by
  cases ps with
  | nil => exact Or.inl rfl
  | cons p ps => cases p <;> exact Or.inr ⟨_, rfl⟩

theorem renderStar3_head (ps : List PSeg) : renderStar3 ps = [] ∨ ∃ t, renderStar3 ps = '/' :: t := by
  cases ps with
  | nil => exact Or.inl rfl
  | cons p ps => cases p <;> exact Or.inr ⟨_, rfl⟩

theorem repl_render3 (ps : List PSeg) (hok : ∀ p ∈ ps, p.Ok) : replSlashStar (render3 ps) = renderStar3 ps := by
  induction ps with
  | nil => simp [render3, renderStar3, replSlashStar]
  | cons p ps ih =>
    have ih' := ih (fun q hq => hok q (by simp [hq]))
    have hp := hok p (by simp)
    cases p with
    | lit s =>
      simp only [render3, renderStar3]
      have hs : ∀ c ∈ s, c ≠ '/' := fun c hc => (hp c hc).2.1
      simp only [List.cons_append]
      rw [repl_cons, repl_append s hs, ih']
      cases s with
      | nil =>
        rcases render3_head ps with h | ⟨t, h⟩
        · right; left; simp [h]
        · right; right; exact ⟨'/', t, by simp [h], by decide⟩
      | cons c s =>
        right; right
        refine ⟨c, s ++ render3 ps, rfl, ?_⟩
        intro h; subst h
        have := (hp '*' (by simp)).1
        simp [isMeta] at this
    | named n =>
      simp only [render3, renderStar3, List.cons_append]
      rw [repl_cons '/' _ (Or.inr (Or.inr ⟨'{', _, rfl, by decide⟩)), repl_cons '{' _ (Or.inl (by decide)),
        repl_append n hp, repl_cons '}' _ (Or.inl (by decide)), ih']
    | rest =>
      simp only [render3, renderStar3]
      show '/' :: '.' :: '*' :: replSlashStar (render3 ps) = _
      rw [ih']

theorem rbg_cons (repl : Str) (f : Nat) (c : Char) (t : Str) (hc : c ≠ '{') :
    rewriteBraceGreedy repl (f + 1) (c :: t) = c :: rewriteBraceGreedy repl f t := by
  conv => lhs; unfold rewriteBraceGreedy
  split
  · rename_i heq; cases heq
  · rename_i h1 h2
    simp only [List.cons.injEq] at h2
    exact absurd h2.1 hc
  · rename_i h1 h2
    simp only [List.cons.injEq] at h2
    obtain ⟨rfl, rfl⟩ := h2
    cases h1
    rfl
  · rename_i h2 _; cases h2

theorem rbg_append (repl : Str) (s : Str) (hs : ∀ c ∈ s, c ≠ '{') (X : Str) (f : Nat) :
    rewriteBraceGreedy repl (f + s.length) (s ++ X) = s ++ rewriteBraceGreedy repl f X := by
  induction s with
  | nil => rfl
  | cons c s ih =>
    have : f + (c :: s).length = (f + s.length) + 1 := by simp; omega
    rw [this]
    simp only [List.cons_append]
    rw [rbg_cons _ _ _ _ (hs c (by simp)), ih (fun x hx => hs x (by simp [hx]))]

theorem getLast?_cons_of_some {α : Type} (x y : α) (L : List α) (h : L.getLast? = some y) : (x :: L).getLast? = some y := by
  cases L with
  | nil => cases h
  | cons a L => simpa [List.getLast?_cons_cons] using h

theorem lastBrace (n : Str) (k : Nat) :
    ((((n ++ ['}']).zipIdx k).filter (fun x => decide (x.1 = '}'))).map (·.2)).getLast? = some (k + n.length) := by
  induction n generalizing k with
  | nil => simp
  | cons c n ih =>
    have := ih (k + 1)
    simp only [List.cons_append, List.zipIdx_cons, List.length_cons]
    by_cases hc : c = '}'
    · simp only [hc, List.filter_cons, decide_true, if_true, List.map_cons]
      rw [getLast?_cons_of_some _ _ _ this]; congr 1; omega
    · simp only [List.filter_cons, hc, decide_false, Bool.false_eq_true, if_false]
      rw [this]; congr 1; omega

theorem rbg_named (repl : Str) (f : Nat) (n X : Str) (hn : ∀ c ∈ n, c ≠ '/') (hX : X = [] ∨ ∃ t, X = '/' :: t) :
    rewriteBraceGreedy repl (f + 1) ('{' :: (n ++ '}' :: X)) = repl ++ rewriteBraceGreedy repl f X := by
  have hsplit : n ++ '}' :: X = (n ++ ['}']) ++ X := by simp
  have hu := takeWhile_dropWhile_unique (n ++ ['}']) X (n ++ '}' :: X) hsplit
    (fun c hc => by
      rcases List.mem_append.mp hc with h | h
      · simpa using hn c h
      · simp at h; subst h; decide) hX
  conv => lhs; unfold rewriteBraceGreedy
  split
  · rename_i heq; cases heq
  · rename_i h1 h2
    simp only [List.cons.injEq, true_and] at h2
    subst h2
    cases h1
    simp only []
    rw [← hu.1]
    have hl : lastIdx (fun x => decide (x = '}')) (n ++ ['}']) = some n.length := by
      unfold lastIdx
      have := lastBrace n 0
      simpa using this
    rw [hl]
    simp only []
    congr 2
    rw [hsplit, List.drop_append]
    simp
  · rename_i hne _ heq
    simp only [List.cons.injEq] at heq
    exact absurd heq.1.symm hne
  · rename_i h2 _; cases h2

theorem rbg_nil (repl : Str) (f : Nat) : rewriteBraceGreedy repl f [] = [] := by
  cases f <;> (unfold rewriteBraceGreedy; rfl)

theorem litChar_ne_brace {c : Char} (h : LitChar c) : c ≠ '{' := by
  intro hc; subst hc; have := h.1; simp [isMeta] at this

theorem rbg_renderStar3 (ps : List PSeg) (hok : ∀ p ∈ ps, p.Ok) :
    ∀ f, f > (renderStar3 ps).length → rewriteBraceGreedy segRe f (renderStar3 ps) = reBody ps := by
  induction ps with
  | nil => intro f _; exact rbg_nil _ _
  | cons p ps ih =>
    have ih' := ih (fun q hq => hok q (by simp [hq]))
    have hp := hok p (by simp)
    intro f hf
    cases p with
    | lit s =>
      simp only [renderStar3, reBody, List.cons_append, List.length_cons, List.length_append] at hf ⊢
      obtain ⟨f', rfl⟩ : ∃ f', f = (f' + s.length) + 1 := ⟨f - 1 - s.length, by omega⟩
      rw [rbg_cons _ _ _ _ (by decide), rbg_append _ s (fun c hc => litChar_ne_brace (hp c hc)), ih' f' (by omega)]
    | named n =>
      simp only [renderStar3, reBody, List.cons_append, List.length_cons, List.length_append] at hf ⊢
      obtain ⟨f', rfl⟩ : ∃ f', f = (f' + 1) + 1 := ⟨f - 2, by omega⟩
      rw [rbg_cons _ _ _ _ (by decide), rbg_named _ _ n _ hp (renderStar3_head ps), ih' f' (by omega)]
    | rest =>
      simp only [renderStar3, reBody, List.length_cons] at hf ⊢
      obtain ⟨f', rfl⟩ : ∃ f', f = f' + 1 + 1 + 1 := ⟨f - 3, by omega⟩
      rw [rbg_cons _ _ _ _ (by decide), rbg_cons _ _ _ _ (by decide), rbg_cons _ _ _ _ (by decide), ih' f' (by omega)]

theorem rbl_cons (repl : Str) (f : Nat) (c : Char) (t : Str) (hc : c ≠ '{') :
    (rewriteBraceLazy repl (f + 1) (c :: t)).1 = c :: (rewriteBraceLazy repl f t).1 := by
  conv => lhs; unfold rewriteBraceLazy
  split
  · rename_i heq; cases heq
  · rename_i h1 h2
    simp only [List.cons.injEq] at h2
    exact absurd h2.1 hc
  · rename_i h1 h2
    simp only [List.cons.injEq] at h2
    obtain ⟨rfl, rfl⟩ := h2
    cases h1
    rfl
  · rename_i h2 _; cases h2

theorem rbl_append (repl : Str) (s : Str) (hs : ∀ c ∈ s, c ≠ '{') (X : Str) (f : Nat) :
    (rewriteBraceLazy repl (f + s.length) (s ++ X)).1 = s ++ (rewriteBraceLazy repl f X).1 := by
  induction s with
  | nil => rfl
  | cons c s ih =>
    have : f + (c :: s).length = (f + s.length) + 1 := by simp; omega
    rw [this]
    simp only [List.cons_append]
    rw [rbl_cons _ _ _ _ (hs c (by simp)), ih (fun x hx => hs x (by simp [hx]))]

theorem firstBrace (n : Str) (k : Nat) (hn : ∀ c ∈ n, c ≠ '}') (hk : k + n.length ≥ 1) :
    ((n ++ ['}']).zipIdx k).filter (fun x => decide (x.1 = '}') && decide (x.2 ≥ 1)) = [('}', k + n.length)] := by
  induction n generalizing k with
  | nil =>
    simp only [List.nil_append, List.length_nil, Nat.add_zero] at hk ⊢
    simp [List.zipIdx_cons, hk]
  | cons c n ih =>
    have hc : c ≠ '}' := hn c (by simp)
    have := ih (k + 1) (fun x hx => hn x (by simp [hx])) (by simp at hk ⊢; omega)
    simp only [List.cons_append, List.zipIdx_cons, List.filter_cons, hc, decide_false, Bool.false_and,
      Bool.false_eq_true, if_false, List.length_cons]
    rw [this]; congr 2; omega

theorem rbl_named (repl : Str) (f : Nat) (n X : Str) (hn : ∀ c ∈ n, c ≠ '/') (hl : n ≠ [] ∧ ∀ c ∈ n, c ≠ '}')
    (hX : X = [] ∨ ∃ t, X = '/' :: t) :
    (rewriteBraceLazy repl (f + 1) ('{' :: (n ++ '}' :: X))).1 = repl ++ (rewriteBraceLazy repl f X).1 := by
  have hsplit : n ++ '}' :: X = (n ++ ['}']) ++ X := by simp
  have hu := takeWhile_dropWhile_unique (n ++ ['}']) X (n ++ '}' :: X) hsplit
    (fun c hc => by
      rcases List.mem_append.mp hc with h | h
      · simpa using hn c h
      · simp at h; subst h; decide) hX
  have hlen : 0 + n.length ≥ 1 := by
    cases n with
    | nil => exact absurd rfl hl.1
    | cons _ _ => simp
  conv => lhs; unfold rewriteBraceLazy
  split
  · rename_i heq; cases heq
  · rename_i h1 h2
    simp only [List.cons.injEq, true_and] at h2
    subst h2
    cases h1
    simp only []
    rw [← hu.1]
    have hfb := firstBrace n 0 hl.2 hlen
    simp only [Nat.zero_add] at hfb
    have : ((((n ++ ['}']).zipIdx).filter (fun x => decide (x.1 = '}') && decide (x.2 ≥ 1))).map (·.2)).head? = some n.length := by
      rw [hfb]; rfl
    rw [this]
    simp only []
    congr 2
    rw [hsplit, List.drop_append]
    simp
  · rename_i hne _ heq
    simp only [List.cons.injEq] at heq
    exact absurd heq.1.symm hne
  · rename_i h2 _; cases h2

theorem rbl_nil (repl : Str) (f : Nat) : (rewriteBraceLazy repl f []).1 = [] := by
  cases f <;> (unfold rewriteBraceLazy; rfl)

theorem rbl_renderStar3 (ps : List PSeg) (hok : ∀ p ∈ ps, p.Ok) (hlz : ∀ p ∈ ps, p.OkLazy) :
    ∀ f, f > (renderStar3 ps).length → (rewriteBraceLazy segRe f (renderStar3 ps)).1 = reBody ps := by
  induction ps with
  | nil => intro f _; exact rbl_nil _ _
  | cons p ps ih =>
    have ih' := ih (fun q hq => hok q (by simp [hq])) (fun q hq => hlz q (by simp [hq]))
    have hp := hok p (by simp)
    have hl := hlz p (by simp)
    intro f hf
    cases p with
    | lit s =>
      simp only [renderStar3, reBody, List.cons_append, List.length_cons, List.length_append] at hf ⊢
      obtain ⟨f', rfl⟩ : ∃ f', f = (f' + s.length) + 1 := ⟨f - 1 - s.length, by omega⟩
      rw [rbl_cons _ _ _ _ (by decide), rbl_append _ s (fun c hc => litChar_ne_brace (hp c hc)), ih' f' (by omega)]
    | named n =>
      simp only [renderStar3, reBody, List.cons_append, List.length_cons, List.length_append] at hf ⊢
      obtain ⟨f', rfl⟩ : ∃ f', f = (f' + 1) + 1 := ⟨f - 2, by omega⟩
      rw [rbl_cons _ _ _ _ (by decide), rbl_named _ _ n _ hp hl (renderStar3_head ps), ih' f' (by omega)]
    | rest =>
      simp only [renderStar3, reBody, List.length_cons] at hf ⊢
      obtain ⟨f', rfl⟩ : ∃ f', f = f' + 1 + 1 + 1 := ⟨f - 3, by omega⟩
      rw [rbl_cons _ _ _ _ (by decide), rbl_cons _ _ _ _ (by decide), rbl_cons _ _ _ _ (by decide), ih' f' (by omega)]
