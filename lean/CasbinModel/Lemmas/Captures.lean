import CasbinModel.Lemmas.Segments
/-!
Captured text of the RESTful matchers (C15: keyMatch4 and the getters): the segment-wise meaning with the text
each named segment stands for, and the lemmas relating the crate's pipeline — lazy brace rewriting with the
capturing group, regex compilation, backtracking match with captures — to it.
-/
namespace Casbin

/-- **the segment-wise meaning with captures**: the text of every named segment, in order; `*` takes as much
as it can (the longest newline-free remainder after which the remaining segments still match) -/
def segCaps : List PSeg → Str → Option (List Str)
  | [], k => if k.isEmpty then some [] else none
  | .lit s :: ps, k =>
    (match k with
     | '/' :: t => if s.isPrefixOf t then segCaps ps (t.drop s.length) else none
     | _ => none)
  | .named _ :: ps, k =>
    (match k with
     | '/' :: t =>
       if (t.takeWhile (· ≠ '/')).isEmpty then none
       else (segCaps ps (t.dropWhile (· ≠ '/'))).map (t.takeWhile (· ≠ '/') :: ·)
     | _ => none)
  | .rest :: ps, k =>
    (match k with
     | '/' :: t => firstSome (restTails t).reverse (segCaps ps)
     | _ => none)

/-- the names of the named segments, in order -/
def namesOf : List PSeg → List Str
  | [] => []
  | .named n :: ps => n :: namesOf ps
  | _ :: ps => namesOf ps

/-- compiled form with capturing groups (`lzy`: the lazy group of keyGet3) -/
def itemsOfC (lzy : Bool) : List PSeg → List Item
  | [] => []
  | .lit s :: ps => .ch '/' :: (s.map Item.ch ++ itemsOfC lzy ps)
  | .named _ :: ps => .ch '/' :: .seg true lzy :: itemsOfC lzy ps
  | .rest :: ps => .ch '/' :: .dotStar :: itemsOfC lzy ps

/-- the regular-expression text with `repl` in place of every named segment -/
def reBodyR (repl : Str) : List PSeg → Str
  | [] => []
  | .lit s :: ps => '/' :: s ++ reBodyR repl ps
  | .named _ :: ps => '/' :: repl ++ reBodyR repl ps
  | .rest :: ps => '/' :: '.' :: '*' :: reBodyR repl ps

/-! ### matching -/

theorem firstSome_map {α β γ : Type} (xs : List α) (g : α → β) (f : β → Option γ) :
    firstSome (xs.map g) f = firstSome xs (fun x => f (g x)) := by
  induction xs with
  | nil => rfl
  | cons x rest ih =>
    simp only [List.map_cons, firstSome]
    cases f (g x) with
    | some b => rfl
    | none => exact ih

theorem firstSome_congr {α β : Type} (xs : List α) (f g : α → Option β) (h : ∀ x ∈ xs, f x = g x) :
    firstSome xs f = firstSome xs g := by
  induction xs with
  | nil => rfl
  | cons x rest ih =>
    simp only [firstSome]
    rw [h x (by simp), ih (fun y hy => h y (by simp [hy]))]

theorem firstSome_none {α β : Type} (xs : List α) (f : α → Option β) (h : ∀ y ∈ xs, f y = none) :
    firstSome xs f = none := by
  induction xs with
  | nil => rfl
  | cons y rest ih =>
    simp only [firstSome]
    rw [h y (by simp)]
    exact ih (fun z hz => h z (by simp [hz]))

/-- if at most the candidate `x` can succeed, the order of the candidates does not matter -/
theorem firstSome_unique {α β : Type} (xs : List α) (f : α → Option β) (x : α) (hx : x ∈ xs)
    (h : ∀ y ∈ xs, y ≠ x → f y = none) : firstSome xs f = f x := by
  induction xs with
  | nil => cases hx
  | cons y rest ih =>
    simp only [firstSome]
    by_cases hy : y = x
    · subst hy
      cases hf : f y with
      | some b => rfl
      | none =>
        simp only
        exact firstSome_none rest f (fun z hz => by
          by_cases hzy : z = y
          · subst hzy; exact hf
          · exact h z (by simp [hz]) hzy)
    · rw [h y (by simp) hy]
      simp only
      rcases List.mem_cons.mp hx with h1 | h1
      · exact absurd h1.symm hy
      · exact ih h1 (fun z hz hne => h z (by simp [hz]) hne)

theorem matchItems_lit_gen (I : List Item) (s : Str) (k : Str) :
    matchItems (s.map Item.ch ++ I) k = if s.isPrefixOf k then matchItems I (k.drop s.length) else none := by
  induction s generalizing k with
  | nil => simp [List.isPrefixOf]
  | cons c s ihs =>
    cases k with
    | nil => simp [matchItems, List.isPrefixOf]
    | cons y r =>
      simp only [List.map_cons, List.cons_append, matchItems, List.isPrefixOf]
      by_cases hy : y = c
      · subst hy; simp [ihs]
      · have : (c == y) = false := by simp [Ne.symm hy]
        simp [hy, this]

/-- whatever the remaining pattern, a key it matches is empty or starts a new segment -/
theorem segCaps_head (ps : List PSeg) (b : Str) (v : List Str) (h : segCaps ps b = some v) :
    b = [] ∨ ∃ t, b = '/' :: t := by
  cases ps with
  | nil =>
    left
    unfold segCaps at h
    split at h
    · simpa using ‹b.isEmpty = true›
    · cases h
  | cons p ps =>
    right
    cases p <;> (unfold segCaps at h; split at h; exact ⟨_, rfl⟩; cases h)

/-- **matching the compiled segments with capturing groups = the segment-wise meaning with captures** (greedy
or lazy group alike: a named segment can only ever stand for the whole `/`-free run) -/
theorem matchItems_itemsOfC (lzy : Bool) (ps : List PSeg) (k : Str) :
    matchItems (itemsOfC lzy ps) k = segCaps ps k := by
  induction ps generalizing k with
  | nil => cases k <;> simp [itemsOfC, matchItems, segCaps]
  | cons p ps ih =>
    cases k with
    | nil => cases p <;> simp [itemsOfC, matchItems, segCaps]
    | cons x t =>
      by_cases hx : x = '/'
      · subst hx
        cases p with
        | lit s =>
          simp only [itemsOfC, matchItems, if_true, segCaps]
          rw [matchItems_lit_gen]
          cases hp : s.isPrefixOf t with
          | true => simp [ih]
          | false => simp
        | named n =>
          simp only [itemsOfC, matchItems, if_true, segCaps]
          let tw := t.takeWhile (· ≠ '/')
          let dw := t.dropWhile (· ≠ '/')
          let F : Str × Str → Option (List Str) := fun pr => (matchItems (itemsOfC lzy ps) pr.2).map (fun caps => pr.1 :: caps)
          have hcand : ∀ pr ∈ (splits (· ≠ '/') t).filter (fun pr => !pr.1.isEmpty), pr ≠ (tw, dw) → F pr = none := by
            intro pr hm hne
            obtain ⟨a, b⟩ := pr
            rw [List.mem_filter] at hm
            obtain ⟨ht, hall⟩ := (mem_splits _ t a b).mp hm.1
            show (matchItems (itemsOfC lzy ps) b).map (fun caps => a :: caps) = none
            rw [ih b]
            cases hs : segCaps ps b with
            | none => rfl
            | some v =>
              exfalso
              obtain ⟨e1, e2⟩ := takeWhile_dropWhile_unique a b t ht hall (segCaps_head ps b v hs)
              apply hne
              rw [e1, e2]
          have hFx : F (tw, dw) = (segCaps ps dw).map (tw :: ·) := by
            show (matchItems (itemsOfC lzy ps) dw).map (fun caps => tw :: caps) = _
            rw [ih dw]
          have hgoal : ∀ (L : List (Str × Str)),
              (∀ pr, pr ∈ L ↔ pr ∈ (splits (· ≠ '/') t).filter (fun pr => !pr.1.isEmpty)) →
              firstSome L F = if tw.isEmpty then none else (segCaps ps dw).map (tw :: ·) := by
            intro L hL
            by_cases he : tw.isEmpty = true
            · rw [if_pos he]
              apply firstSome_none
              intro pr hpr
              apply hcand pr ((hL pr).mp hpr)
              intro heq
              have hm := (hL pr).mp hpr
              rw [heq, List.mem_filter] at hm
              have := hm.2
              simp only [he, Bool.not_true] at this
              cases this
            · rw [if_neg he, ← hFx]
              have he' : tw.isEmpty = false := by simpa using he
              apply firstSome_unique
              · apply (hL _).mpr
                rw [List.mem_filter]
                refine ⟨(mem_splits _ t _ _).mpr ⟨(List.takeWhile_append_dropWhile).symm, ?_⟩, by simp [he']⟩
                intro c hc
                exact mem_takeWhile_sat _ t c hc
              · intro pr hpr hne
                exact hcand pr ((hL pr).mp hpr) hne
          cases lzy with
          | true => exact hgoal _ (fun pr => Iff.rfl)
          | false => exact hgoal _ (fun pr => List.mem_reverse)
        | rest =>
          simp only [itemsOfC, matchItems, if_true, segCaps]
          rw [restTails_eq, ← List.map_reverse, firstSome_map]
          apply firstSome_congr
          intro pr _
          exact ih pr.2
      · cases p with
        | lit s => simp [itemsOfC, matchItems, segCaps, hx]
        | named n => simp [itemsOfC, matchItems, segCaps, hx]
        | rest => simp [itemsOfC, matchItems, segCaps, hx]

/-- the captures exist exactly when the key matches segment-wise -/
theorem segCaps_isSome (ps : List PSeg) (k : Str) : (segCaps ps k).isSome = segMatch ps k := by
  rw [← matchItems_itemsOfC false ps k]
  -- both sides are the same backtracking match up to the captures
  induction ps generalizing k with
  | nil => cases k <;> simp [itemsOfC, matchItems, segMatch]
  | cons p ps ih =>
    rw [matchItems_itemsOfC, ← matchItems_itemsOf]
    cases k with
    | nil => cases p <;> simp [itemsOf, matchItems, segCaps]
    | cons x t =>
      by_cases hx : x = '/'
      · subst hx
        cases p with
        | lit s =>
          simp only [itemsOf, matchItems, if_true, segCaps]
          rw [matchItems_lit_gen]
          cases hp : s.isPrefixOf t with
          | true =>
            simp only [if_true]
            rw [← matchItems_itemsOfC false ps, ih, matchItems_itemsOf]
          | false => simp
        | named n =>
          simp only [segCaps]
          rw [matchItems_itemsOf]
          simp only [segMatch]
          by_cases he : (t.takeWhile (· ≠ '/')).isEmpty = true
          · simp only [he, if_true, Option.isSome_none, Bool.not_true, Bool.false_and]
          · have he' : (t.takeWhile (· ≠ '/')).isEmpty = false := by simpa using he
            simp only [he', Bool.false_eq_true, if_false, Option.isSome_map, Bool.not_false, Bool.true_and]
            rw [← matchItems_itemsOfC false ps, ih]
        | rest =>
          simp only [segCaps]
          rw [matchItems_itemsOf]
          simp only [segMatch]
          rw [firstSome_isSome, List.any_reverse]
          congr 1
          funext b
          rw [← matchItems_itemsOfC false ps, ih]
      · cases p <;> simp [itemsOf, matchItems, segCaps, hx]

/-! ### compilation -/

theorem capRe_eq : capRe = ['(', '[', '^', '/', ']', '+', ')'] := by decide +kernel
theorem capLazyRe_eq : capLazyRe = ['(', '[', '^', '/', ']', '+', '?', ')'] := by decide +kernel

theorem compile_cap (X : Str) (I : List Item) (hX : ∀ f, f > X.length → toItems f X = some I) :
    ∀ f, f > (capRe ++ X).length → toItems f (capRe ++ X) = some (Item.seg true false :: I) := by
  intro f hf
  rw [capRe_eq] at hf ⊢
  cases f with
  | zero => simp at hf
  | succ f =>
    conv => lhs; unfold toItems
    simp only [List.cons_append, List.nil_append]
    rw [hX f (by simp at hf ⊢; omega)]
    rfl

theorem compile_capLazy (X : Str) (I : List Item) (hX : ∀ f, f > X.length → toItems f X = some I) :
    ∀ f, f > (capLazyRe ++ X).length → toItems f (capLazyRe ++ X) = some (Item.seg true true :: I) := by
  intro f hf
  rw [capLazyRe_eq] at hf ⊢
  cases f with
  | zero => simp at hf
  | succ f =>
    conv => lhs; unfold toItems
    simp only [List.cons_append, List.nil_append]
    rw [hX f (by simp at hf ⊢; omega)]
    rfl

theorem reBodyR_safeHead (repl : Str) (ps : List PSeg) : SafeHead (reBodyR repl ps) := by
  cases ps with
  | nil => exact Or.inl rfl
  | cons p ps => cases p <;> exact Or.inr ⟨'/', _, rfl, by decide⟩

/-- **the pattern rewritten with the capturing group compiles to the capturing segment items** -/
theorem compile_reBodyCap (ps : List PSeg) (hok : ∀ p ∈ ps, p.Ok) :
    ∀ f, f > (reBodyR capRe ps).length → toItems f (reBodyR capRe ps) = some (itemsOfC false ps) := by
  induction ps with
  | nil =>
    intro f hf
    cases f with
    | zero => simp [reBodyR] at hf
    | succ f => exact toItems_nil f
  | cons p ps ih =>
    have ih' := ih (fun q hq => hok q (by simp [hq]))
    have hp := hok p (by simp)
    cases p with
    | lit s =>
      simp only [reBodyR, itemsOfC]
      exact compile_ch '/' (by decide) _ _ (compile_lit s hp _ _ ih' (reBodyR_safeHead _ ps)) (safeHead_lit s hp _ (reBodyR_safeHead _ ps))
    | named n =>
      simp only [reBodyR, itemsOfC]
      refine compile_ch '/' (by decide) _ _ (compile_cap _ _ ih') ?_
      rw [capRe_eq]
      exact Or.inr ⟨'(', _, rfl, by decide⟩
    | rest =>
      simp only [reBodyR, itemsOfC]
      exact compile_ch '/' (by decide) _ _ (compile_dotStar _ _ ih') (Or.inr ⟨'.', _, rfl, by decide⟩)

/-! ### lazy brace rewriting: the text for any replacement, and the names -/

theorem rbl_cons2 (repl : Str) (f : Nat) (c : Char) (t : Str) (hc : c ≠ '{') :
    (rewriteBraceLazy repl (f + 1) (c :: t)).2 = (rewriteBraceLazy repl f t).2 := by
  conv => lhs; unfold rewriteBraceLazy
  split
  · rename_i heq; cases heq
  · rename_i h1 h2
    simp only [List.cons.injEq] at h2
    exact absurd h2.1 hc
  · rename_i h1 h2
    simp only [List.cons.injEq] at h2
    obtain ⟨rfl, rfl⟩ := h2
    cases h1
    rfl
  · rename_i h2 _; cases h2

theorem rbl_append2 (repl : Str) (s : Str) (hs : ∀ c ∈ s, c ≠ '{') (X : Str) (f : Nat) :
    (rewriteBraceLazy repl (f + s.length) (s ++ X)).2 = (rewriteBraceLazy repl f X).2 := by
  induction s with
  | nil => rfl
  | cons c s ih =>
    have : f + (c :: s).length = (f + s.length) + 1 := by simp; omega
    rw [this]
    simp only [List.cons_append]
    rw [rbl_cons2 _ _ _ _ (hs c (by simp)), ih (fun x hx => hs x (by simp [hx]))]

theorem rbl_named2 (repl : Str) (f : Nat) (n X : Str) (hn : ∀ c ∈ n, c ≠ '/') (hl : n ≠ [] ∧ ∀ c ∈ n, c ≠ '}')
    (hX : X = [] ∨ ∃ t, X = '/' :: t) :
    (rewriteBraceLazy repl (f + 1) ('{' :: (n ++ '}' :: X))).2 = n :: (rewriteBraceLazy repl f X).2 := by
  have hsplit : n ++ '}' :: X = (n ++ ['}']) ++ X := by simp
  have hu := takeWhile_dropWhile_unique (n ++ ['}']) X (n ++ '}' :: X) hsplit
    (fun c hc => by
      rcases List.mem_append.mp hc with h | h
      · simpa using hn c h
      · simp at h; subst h; decide) hX
  have hlen : 0 + n.length ≥ 1 := by
    cases n with
    | nil => exact absurd rfl hl.1
    | cons _ _ => simp
  conv => lhs; unfold rewriteBraceLazy
  split
  · rename_i heq; cases heq
  · rename_i h1 h2
    simp only [List.cons.injEq, true_and] at h2
    subst h2
    cases h1
    simp only []
    rw [← hu.1]
    have hfb := firstBrace n 0 hl.2 hlen
    simp only [Nat.zero_add] at hfb
    have : ((((n ++ ['}']).zipIdx).filter (fun x => decide (x.1 = '}') && decide (x.2 ≥ 1))).map (·.2)).head? = some n.length := by
      rw [hfb]; rfl
    rw [this]
    simp only []
    congr 1
    · rw [hsplit, List.take_append]
      simp
    · congr 2
      rw [hsplit, List.drop_append]
      simp
  · rename_i hne _ heq
    simp only [List.cons.injEq] at heq
    exact absurd heq.1.symm hne
  · rename_i h2 _; cases h2

theorem rbl_nil2 (repl : Str) (f : Nat) : (rewriteBraceLazy repl f []).2 = [] := by
  cases f <;> (unfold rewriteBraceLazy; rfl)

/-- the lazy rewriting of a pattern of the grammar: `repl` for every `{name}`, and the names in order -/
theorem rbl_renderStar3_gen (repl : Str) (ps : List PSeg) (hok : ∀ p ∈ ps, p.Ok) (hlz : ∀ p ∈ ps, p.OkLazy) :
    ∀ f, f > (renderStar3 ps).length →
      (rewriteBraceLazy repl f (renderStar3 ps)).1 = reBodyR repl ps ∧
      (rewriteBraceLazy repl f (renderStar3 ps)).2 = namesOf ps := by
  induction ps with
  | nil => intro f _; exact ⟨rbl_nil _ _, rbl_nil2 _ _⟩
  | cons p ps ih =>
    have ih' := ih (fun q hq => hok q (by simp [hq])) (fun q hq => hlz q (by simp [hq]))
    have hp := hok p (by simp)
    have hl := hlz p (by simp)
    intro f hf
    cases p with
    | lit s =>
      simp only [renderStar3, reBodyR, namesOf, List.cons_append, List.length_cons, List.length_append] at hf ⊢
      obtain ⟨f', rfl⟩ : ∃ f', f = (f' + s.length) + 1 := ⟨f - 1 - s.length, by omega⟩
      rw [rbl_cons _ _ _ _ (by decide), rbl_append _ s (fun c hc => litChar_ne_brace (hp c hc)),
        rbl_cons2 _ _ _ _ (by decide), rbl_append2 _ s (fun c hc => litChar_ne_brace (hp c hc))]
      exact ⟨by rw [(ih' f' (by omega)).1], (ih' f' (by omega)).2⟩
    | named n =>
      simp only [renderStar3, reBodyR, namesOf, List.cons_append, List.length_cons, List.length_append] at hf ⊢
      obtain ⟨f', rfl⟩ : ∃ f', f = (f' + 1) + 1 := ⟨f - 2, by omega⟩
      rw [rbl_cons _ _ _ _ (by decide), rbl_named _ _ n _ hp hl (renderStar3_head ps),
        rbl_cons2 _ _ _ _ (by decide), rbl_named2 _ _ n _ hp hl (renderStar3_head ps)]
      exact ⟨by rw [(ih' f' (by omega)).1], by rw [(ih' f' (by omega)).2]⟩
    | rest =>
      simp only [renderStar3, reBodyR, namesOf, List.length_cons] at hf ⊢
      obtain ⟨f', rfl⟩ : ∃ f', f = f' + 1 + 1 + 1 := ⟨f - 3, by omega⟩
      rw [rbl_cons _ _ _ _ (by decide), rbl_cons _ _ _ _ (by decide), rbl_cons _ _ _ _ (by decide),
        rbl_cons2 _ _ _ _ (by decide), rbl_cons2 _ _ _ _ (by decide), rbl_cons2 _ _ _ _ (by decide)]
      exact ⟨by rw [(ih' f' (by omega)).1], (ih' f' (by omega)).2⟩

/-! ### colon rewriting: the text for any replacement, and the names (keyGet2) -/

theorem rc_cons2 (repl : Str) (m f : Nat) (c : Char) (t : Str) (hc : c ≠ ':') :
    (rewriteColon repl m (f + 1) (c :: t)).2 = (rewriteColon repl m f t).2 := by
  conv => lhs; unfold rewriteColon
  split
  · rename_i heq; cases heq
  · rename_i h1 h2
    simp only [List.cons.injEq] at h2
    exact absurd h2.1 hc
  · rename_i h1 h2
    simp only [List.cons.injEq] at h2
    obtain ⟨rfl, rfl⟩ := h2
    cases h1
    rfl
  · rename_i h2 _; cases h2

theorem rc_append2 (repl : Str) (m : Nat) (s : Str) (hs : ∀ c ∈ s, c ≠ ':') (X : Str) (f : Nat) :
    (rewriteColon repl m (f + s.length) (s ++ X)).2 = (rewriteColon repl m f X).2 := by
  induction s with
  | nil => rfl
  | cons c s ih =>
    have : f + (c :: s).length = (f + s.length) + 1 := by simp; omega
    rw [this]
    simp only [List.cons_append]
    rw [rc_cons2 _ _ _ _ _ (hs c (by simp)), ih (fun x hx => hs x (by simp [hx]))]

/-- a `:name` whose name is long enough for the getter's `:[^/]+` -/
theorem rc_named_gen (repl : Str) (m f : Nat) (n X : Str) (hn : ∀ c ∈ n, c ≠ '/') (hm : m ≤ n.length)
    (hX : X = [] ∨ ∃ t, X = '/' :: t) :
    (rewriteColon repl m (f + 1) (':' :: (n ++ X))).1 = repl ++ (rewriteColon repl m f X).1 ∧
    (rewriteColon repl m (f + 1) (':' :: (n ++ X))).2 = n :: (rewriteColon repl m f X).2 := by
  have hu := takeWhile_dropWhile_unique n X (n ++ X) rfl (fun c hc => by simpa using hn c hc) hX
  conv => lhs; lhs; unfold rewriteColon
  conv => rhs; lhs; unfold rewriteColon
  split
  · rename_i heq; cases heq
  · rename_i h1 h2
    simp only [List.cons.injEq, true_and] at h2
    subst h2
    cases h1
    have hge : (List.takeWhile (fun x => decide (x ≠ '/')) (n ++ X)).length ≥ m := by rw [← hu.1]; exact hm
    simp only [hge, if_true]
    rw [← hu.2, ← hu.1]
    exact ⟨rfl, rfl⟩
  · rename_i hne _ heq
    simp only [List.cons.injEq] at heq
    exact absurd heq.1.symm hne
  · rename_i h2 _; cases h2

theorem rc_nil2 (repl : Str) (m f : Nat) : (rewriteColon repl m f []).2 = [] := by
  cases f <;> (unfold rewriteColon; rfl)

/-- names for the getter's `:[^/]+`: non-empty -/
def PSeg.NameNonEmpty : PSeg → Prop
  | .named n => n ≠ []
  | _ => True

/-- the getter's colon rewriting of a pattern of the grammar: `repl` for every `:name`, and the names in order -/
theorem rc_renderStar2_gen (repl : Str) (ps : List PSeg) (hok : ∀ p ∈ ps, p.Ok) (hne : ∀ p ∈ ps, p.NameNonEmpty) :
    ∀ f, f > (renderStar2 ps).length →
      (rewriteColon repl 1 f (renderStar2 ps)).1 = reBodyR repl ps ∧
      (rewriteColon repl 1 f (renderStar2 ps)).2 = namesOf ps := by
  induction ps with
  | nil => intro f _; exact ⟨rc_nil _ _ _, rc_nil2 _ _ _⟩
  | cons p ps ih =>
    have ih' := ih (fun q hq => hok q (by simp [hq])) (fun q hq => hne q (by simp [hq]))
    have hp := hok p (by simp)
    have hl := hne p (by simp)
    intro f hf
    cases p with
    | lit s =>
      simp only [renderStar2, reBodyR, namesOf, List.cons_append, List.length_cons, List.length_append] at hf ⊢
      obtain ⟨f', rfl⟩ : ∃ f', f = (f' + s.length) + 1 := ⟨f - 1 - s.length, by omega⟩
      rw [rc_cons _ _ _ _ _ (by decide), rc_append _ _ s (fun c hc => (hp c hc).2.2),
        rc_cons2 _ _ _ _ _ (by decide), rc_append2 _ _ s (fun c hc => (hp c hc).2.2)]
      exact ⟨by rw [(ih' f' (by omega)).1], (ih' f' (by omega)).2⟩
    | named n =>
      simp only [renderStar2, reBodyR, namesOf, List.cons_append, List.length_cons, List.length_append] at hf ⊢
      obtain ⟨f', rfl⟩ : ∃ f', f = (f' + 1) + 1 := ⟨f - 2, by omega⟩
      have hlen : 1 ≤ n.length := by
        cases n with
        | nil => exact absurd rfl hl
        | cons _ _ => simp
      obtain ⟨g1, g2⟩ := rc_named_gen repl 1 f' n (renderStar2 ps) hp hlen (renderStar2_head ps)
      rw [rc_cons _ _ _ _ _ (by decide), g1, rc_cons2 _ _ _ _ _ (by decide), g2]
      exact ⟨by rw [(ih' f' (by omega)).1], by rw [(ih' f' (by omega)).2]⟩
    | rest =>
      simp only [renderStar2, reBodyR, namesOf, List.length_cons] at hf ⊢
      obtain ⟨f', rfl⟩ : ∃ f', f = f' + 1 + 1 + 1 := ⟨f - 3, by omega⟩
      rw [rc_cons _ _ _ _ _ (by decide), rc_cons _ _ _ _ _ (by decide), rc_cons _ _ _ _ _ (by decide),
        rc_cons2 _ _ _ _ _ (by decide), rc_cons2 _ _ _ _ _ (by decide), rc_cons2 _ _ _ _ _ (by decide)]
      exact ⟨by rw [(ih' f' (by omega)).1], (ih' f' (by omega)).2⟩

end Casbin
