import CasbinModel.Conc
/-! Lemmas about the lock protocol model (C20). -/
namespace Casbin.Conc

def Disc (nL : Nat) (s : State) : Prop := ∀ th ∈ s, disc nL th.held th.prog = true

/-- a reader is refused (beyond a held write guard) only because some other thread waits to write -/
def PolOk (pol : Policy) : Prop :=
  ∀ s t l, pol s t l = true → ∃ t' th', t' ≠ t ∧ s[t']? = some th' ∧ th'.waitsW l = true

theorem polOk_eager : PolOk eagerPol := by intro s t l h; simp [eagerPol] at h

theorem polOk_fair : PolOk fairPol := by
  intro s t l h
  unfold fairPol at h
  rw [List.any_eq_true] at h
  obtain ⟨i, _, hi⟩ := h
  simp only [Bool.and_eq_true, bne_iff_ne, ne_eq] at hi
  obtain ⟨hne, hw⟩ := hi
  cases hs : s[i]? with
  | none => rw [hs] at hw; cases hw
  | some th => rw [hs] at hw; exact ⟨i, th, hne, hs, hw⟩

theorem disc_step (nL : Nat) (th : Thread) (h : disc nL th.held th.prog = true) :
    disc nL th.step.held th.step.prog = true := by
  unfold Thread.step
  cases hp : th.prog with
  | nil => simp only []; rw [hp] at h; exact hp ▸ (by simpa [hp] using h)
  | cons a p =>
    rw [hp] at h
    cases a with
    | acq m l => simp only [disc, Bool.and_eq_true] at h; exact h.2
    | rel m l => simp only [disc, Bool.and_eq_true] at h; exact h.2
    | tau => simp only [disc] at h; exact h

theorem disc_stepT (nL : Nat) (s : State) (t : Nat) (h : Disc nL s) : Disc nL (stepT s t) := by
  unfold stepT
  cases hs : s[t]? with
  | none => exact h
  | some th =>
    intro th' hm
    rcases List.mem_or_eq_of_mem_set hm with h1 | h1
    · exact h th' h1
    · subst h1; exact disc_step nL th (h th (List.mem_of_getElem? hs))

theorem holds_of_holdsW {th : Thread} {l : Nat} (h : th.holdsW l = true) : th.holds l = true := by
  unfold Thread.holdsW at h
  unfold Thread.holds
  rw [List.any_eq_true]
  exact ⟨(l, Mode.W), List.contains_iff_mem.mp h |> fun x => x, by simp⟩

theorem prog_ne_nil_of_holds {nL : Nat} {th : Thread} {l : Nat} (hd : disc nL th.held th.prog = true)
    (hh : th.holds l = true) : th.prog ≠ [] := by
  intro hp
  rw [hp] at hd
  simp only [disc, List.isEmpty_iff] at hd
  unfold Thread.holds at hh
  rw [hd] at hh
  cases hh

theorem disc_acq {nL : Nat} {held : List (Nat × Mode)} {m : Mode} {l : Nat} {p : List Act}
    (h : disc nL held (.acq m l :: p) = true) : l < nL ∧ ∀ x ∈ held, x.1 < l := by
  simp only [disc, Bool.and_eq_true, decide_eq_true_eq, List.all_eq_true] at h
  exact ⟨h.1.1, h.1.2⟩

theorem next_eq {th : Thread} {a : Act} (h : th.next = some a) : ∃ p, th.prog = a :: p := by
  unfold Thread.next at h
  cases hp : th.prog with
  | nil => rw [hp] at h; cases h
  | cons b p => rw [hp] at h; simp at h; exact ⟨p, by rw [h]⟩

/-- if nobody can move, nobody is waiting for a lock: each waiter would wait for a holder that
itself waits for a strictly higher lock -/
theorem blocked_chain (pol : Policy) (hpol : PolOk pol) (nL : Nat) (s : State) (hd : Disc nL s)
    (hstuck : ∀ t, enabled pol s t = false) :
    ∀ (k t : Nat) (th : Thread) (m : Mode) (l : Nat), s[t]? = some th → th.next = some (Act.acq m l) → nL - l ≤ k → False := by
  intro k
  induction k with
  | zero =>
    intro t th m l hs hn hk
    obtain ⟨p, hp⟩ := next_eq hn
    have := hd th (List.mem_of_getElem? hs)
    rw [hp] at this
    have := (disc_acq this).1
    omega
  | succ k ih =>
    intro t th m l hs hn hk
    -- anyone holding `l` is itself blocked on a higher lock
    have holder : ∀ th1 ∈ s, th1.holds l = true → False := by
      intro th1 hm hh
      obtain ⟨t1, ht1⟩ := List.getElem?_of_mem hm
      have hd1 := hd th1 hm
      have hne := prog_ne_nil_of_holds hd1 hh
      cases hp1 : th1.prog with
      | nil => exact hne hp1
      | cons a p1 =>
        have hn1 : th1.next = some a := by simp [Thread.next, hp1]
        have hst := hstuck t1
        unfold enabled at hst
        rw [ht1] at hst
        simp only [hn1] at hst
        cases a with
        | rel m1 l1 => cases hst
        | tau => cases hst
        | acq m1 l1 =>
          rw [hp1] at hd1
          obtain ⟨h1, h2⟩ := disc_acq hd1
          unfold Thread.holds at hh
          rw [List.any_eq_true] at hh
          obtain ⟨x, hx, hxl⟩ := hh
          have hxl' : x.1 = l := by simpa using hxl
          have := h2 x hx
          exact ih t1 th1 m1 l1 ht1 hn1 (by omega)
    have hW : ∀ (t : Nat) (th : Thread), s[t]? = some th → th.next = some (Act.acq Mode.W l) → False := by
      intro t th hs hn
      have hst := hstuck t
      unfold enabled at hst
      rw [hs] at hst
      simp only [hn, Bool.not_eq_false'] at hst
      rw [List.any_eq_true] at hst
      obtain ⟨th1, hm, hh⟩ := hst
      exact holder th1 hm hh
    cases m with
    | W => exact hW t th hs hn
    | R =>
      have hst := hstuck t
      unfold enabled at hst
      rw [hs] at hst
      simp only [hn, Bool.and_eq_false_iff, Bool.not_eq_false'] at hst
      rcases hst with h | h
      · rw [List.any_eq_true] at h
        obtain ⟨th1, hm, hh⟩ := h
        exact holder th1 hm (holds_of_holdsW hh)
      · obtain ⟨t', th', _, hs', hw⟩ := hpol s t l h
        unfold Thread.waitsW at hw
        exact hW t' th' hs' (by simpa using hw)

/-- **progress**: in a disciplined state that is not finished some thread can move -/
theorem exists_enabled (pol : Policy) (hpol : PolOk pol) (nL : Nat) (s : State) (hd : Disc nL s)
    (hnd : allDone s = false) : ∃ t, enabled pol s t = true := by
  apply Classical.byContradiction
  intro hno
  have hstuck : ∀ t, enabled pol s t = false := by
    intro t
    cases h : enabled pol s t with
    | false => rfl
    | true => exact absurd ⟨t, h⟩ hno
  unfold allDone at hnd
  have : ∃ th ∈ s, th.prog.isEmpty = false := by
    apply Classical.byContradiction
    intro hc
    have : s.all (·.prog.isEmpty) = true := by
      rw [List.all_eq_true]
      intro th hm
      cases h : th.prog.isEmpty with
      | true => rfl
      | false => exact absurd ⟨th, hm, h⟩ hc
    rw [this] at hnd; cases hnd
  obtain ⟨th, hm, hne⟩ := this
  obtain ⟨t, ht⟩ := List.getElem?_of_mem hm
  cases hp : th.prog with
  | nil => rw [hp] at hne; cases hne
  | cons a p =>
    have hn : th.next = some a := by simp [Thread.next, hp]
    have hst := hstuck t
    cases a with
    | acq m l => exact blocked_chain pol hpol nL s hd hstuck (nL - l) t th m l ht hn (Nat.le_refl _)
    | rel m l => unfold enabled at hst; rw [ht] at hst; simp only [hn] at hst; cases hst
    | tau => unfold enabled at hst; rw [ht] at hst; simp only [hn] at hst; cases hst

/-- runs: `ReachN pol n s s'` — `s'` is reached from `s` by `n` enabled steps -/
inductive ReachN (pol : Policy) : Nat → State → State → Prop
  | refl (s : State) : ReachN pol 0 s s
  | step {n : Nat} {s s' : State} (t : Nat) : ReachN pol n s s' → enabled pol s' t = true → ReachN pol (n + 1) s (stepT s' t)

theorem disc_reach {pol : Policy} {nL n : Nat} {s s' : State} (h : Disc nL s) (r : ReachN pol n s s') : Disc nL s' := by
  induction r with
  | refl => exact h
  | step t _ _ ih => exact disc_stepT nL _ t (ih h)

/-- outstanding work: actions still to run -/
def work (s : State) : Nat := (s.map (·.prog.length)).sum

theorem work_set (s : State) (t : Nat) (th th' : Thread) (hs : s[t]? = some th)
    (hl : th'.prog.length + 1 = th.prog.length) : work (s.set t th') + 1 = work s := by
  induction s generalizing t with
  | nil => cases hs
  | cons x xs ih =>
    cases t with
    | zero =>
      simp only [List.getElem?_cons_zero, Option.some.injEq] at hs
      subst hs
      simp only [List.set_cons_zero, work, List.map_cons, List.sum_cons]
      omega
    | succ t =>
      simp only [List.getElem?_cons_succ] at hs
      have := ih t hs
      simp only [List.set_cons_succ, work, List.map_cons, List.sum_cons] at this ⊢
      omega

theorem work_step {pol : Policy} {s : State} {t : Nat} (h : enabled pol s t = true) : work (stepT s t) + 1 = work s := by
  unfold enabled at h
  unfold stepT
  cases hs : s[t]? with
  | none => rw [hs] at h; cases h
  | some th =>
    rw [hs] at h
    simp only []
    apply work_set s t th th.step hs
    unfold Thread.step
    cases hp : th.prog with
    | nil => simp [Thread.next, hp] at h
    | cons a p => cases a <;> simp

theorem reach_bounded {pol : Policy} {n : Nat} {s s' : State} (r : ReachN pol n s s') : n + work s' = work s := by
  induction r with
  | refl => simp
  | step t _ he ih => have := work_step he; omega

/-- mutual exclusion: a write guard excludes every other guard on the lock -/
def Excl (s : State) : Prop :=
  ∀ (t t' : Nat) (th th' : Thread) (l : Nat), s[t]? = some th → s[t']? = some th' → th.holdsW l = true → th'.holds l = true → t = t'

theorem holds_step_sub {th : Thread} {l : Nat} (h : th.step.holds l = true) :
    th.holds l = true ∨ ∃ m, th.next = some (.acq m l) := by
  unfold Thread.step at h
  cases hp : th.prog with
  | nil => rw [hp] at h; exact Or.inl h
  | cons a p =>
    rw [hp] at h
    cases a with
    | acq m l0 =>
      simp only [Thread.holds, List.any_cons, Bool.or_eq_true, beq_iff_eq] at h
      rcases h with h | h
      · right; exact ⟨m, by simp [Thread.next, hp, h]⟩
      · left; exact h
    | rel m l0 =>
      left
      simp only [Thread.holds, List.any_eq_true] at h ⊢
      obtain ⟨x, hx, hxl⟩ := h
      exact ⟨x, List.mem_of_mem_erase hx, hxl⟩
    | tau => left; exact h

theorem holdsW_step_sub {th : Thread} {l : Nat} (h : th.step.holdsW l = true) :
    th.holdsW l = true ∨ th.next = some (.acq .W l) := by
  unfold Thread.step at h
  cases hp : th.prog with
  | nil => rw [hp] at h; exact Or.inl h
  | cons a p =>
    rw [hp] at h
    cases a with
    | acq m l0 =>
      simp only [Thread.holdsW, List.contains_cons, Bool.or_eq_true, beq_iff_eq, Prod.mk.injEq] at h
      rcases h with h | h
      · right; simp [Thread.next, hp, h.1, ← h.2]
      · left; exact h
    | rel m l0 =>
      left
      simp only [Thread.holdsW, List.contains_iff_mem] at h ⊢
      exact List.mem_of_mem_erase h
    | tau => left; exact h

theorem excl_stepT {pol : Policy} {s : State} {t : Nat} (hx : Excl s) (he : enabled pol s t = true) :
    Excl (stepT s t) := by
  unfold enabled at he
  unfold stepT
  cases hs : s[t]? with
  | none => exact hx
  | some th =>
    rw [hs] at he
    simp only []
    have hlt : t < s.length := by
      rcases Nat.lt_or_ge t s.length with h | h
      · exact h
      · rw [List.getElem?_eq_none h] at hs; cases hs
    unfold Excl
    intro a b tha thb l ha hb hwa hhb
    rw [List.getElem?_set] at ha hb
    by_cases hat : t = a
    · subst hat
      by_cases hbt : t = b
      · exact hbt
      · -- a = t stepped, b untouched
        simp only [if_true, hbt, if_false, hlt, Option.some.injEq] at ha hb
        subst ha
        rcases holdsW_step_sub hwa with h | h
        · exact hx t b th thb l hs hb h hhb
        · exfalso
          simp only [h] at he
          have : s.any (·.holds l) = true := List.any_eq_true.mpr ⟨thb, List.mem_of_getElem? hb, hhb⟩
          rw [this] at he; cases he
    · by_cases hbt : t = b
      · subst hbt
        simp only [hat, if_false, if_true, hlt, Option.some.injEq] at ha hb
        subst hb
        rcases holds_step_sub hhb with h | ⟨m, h⟩
        · exact hx a t tha th l ha hs hwa h
        · exfalso
          have hanyW : s.any (·.holdsW l) = true := List.any_eq_true.mpr ⟨tha, List.mem_of_getElem? ha, hwa⟩
          have hany : s.any (·.holds l) = true := List.any_eq_true.mpr ⟨tha, List.mem_of_getElem? ha, holds_of_holdsW hwa⟩
          cases m with
          | R => simp only [h, hanyW, Bool.not_true, Bool.false_and] at he; cases he
          | W => simp only [h, hany, Bool.not_true] at he; cases he
      · simp only [hat, if_false, hbt] at ha hb
        exact hx a b tha thb l ha hb hwa hhb

theorem excl_reach {pol : Policy} {n : Nat} {s s' : State} (h : Excl s) (r : ReachN pol n s s') : Excl s' := by
  induction r with
  | refl => exact h
  | step t _ he ih => exact excl_stepT (ih h) he

theorem excl_init (progs : List (List Act)) : Excl (initState progs) := by
  unfold Excl
  intro t t' th th' l ht _ hw _
  unfold initState at ht
  rw [List.getElem?_map] at ht
  cases hp : progs[t]? with
  | none => rw [hp] at ht; cases ht
  | some p => rw [hp] at ht; simp at ht; subst ht; simp [Thread.holdsW] at hw

end Casbin.Conc
