import CasbinModel.Enforce
import CasbinModel.Lemmas.Effect
/-! Lemmas connecting the rule loop of `private_enforce` with the declarative scan (C01). -/
namespace Casbin

/-- per-rule outcome in the reference semantics: arity check, matcher, effect column -/
def ruleOutcome (ntok : Nat) (eftIdx : Option Nat) (m : MatchFn) (rule : Rule) : Except ErrKind Eff :=
  if rule.length ≠ ntok then .error .policy else
  match m rule with
  | none => .error .eval
  | some b => .ok (ruleEffect eftIdx b rule)

/-- the reference scan: effects are taken in stored order; the first error reached
*before the result is decided* is the answer; otherwise the declarative combination -/
def refScan (ex : EffExpr) : List Eff → List (Except ErrKind Eff) → Out ErrKind Bool
  | acc, [] => .ok (combine ex acc)
  | _, .error k :: _ => .err k
  | acc, .ok e :: rest =>
    if decided ex (acc ++ [e]) then .ok (combine ex (acc ++ [e])) else refScan ex (acc ++ [e]) rest

/-- a running stream: not complete, everything pushed so far is `pre` -/
structure Running (ex : EffExpr) (n : Nat) (pre : List Eff) (s : Stream) : Prop where
  hexpr : s.expr = ex
  hcap : s.cap = n
  hdone : s.done = false
  hidx : s.idx = pre.length
  hlt : pre.length < n
  hres : s.res = combine ex pre
  hundec : decided ex pre = false

theorem running_new (ex : EffExpr) (n : Nat) (s : Stream) (h : Stream.new ex n = some s) :
    Running ex n [] s := by
  unfold Stream.new at h
  split at h
  · cases h
  · cases h
    refine ⟨rfl, rfl, rfl, rfl, by simp; omega, ?_, ?_⟩
    · cases ex <;> simp [combine, firstDet]
    · cases ex <;> simp [decided, firstDet]

/-- one push from a running stream -/
theorem push_running {ex : EffExpr} {n : Nat} {pre : List Eff} {s : Stream} (e : Eff)
    (hr : Running ex n pre s) :
    (s.push e).1.res = combine ex (pre ++ [e]) ∧
    ((s.push e).2 = true ↔ (decided ex (pre ++ [e]) = true ∨ pre.length + 1 = n)) ∧
    ((s.push e).2 = false → Running ex n (pre ++ [e]) (s.push e).1) := by
  obtain ⟨hexpr, hcap, hdone, hidx, hlt, hres, hundec⟩ := hr
  subst hexpr; subst hcap
  have hfd : s.expr = .priority → firstDet pre = none := fun hx => by
    rw [hx] at hundec; exact not_decided_firstDet hundec
  refine ⟨?_, ?_, ?_⟩
  · unfold Stream.push
    simp only [hdone, Bool.false_eq_true, if_false]
    cases hx : s.expr <;> cases e <;>
      simp [hx, combine] at hres hundec ⊢ <;> (try split) <;>
      simp_all [combine, decided, firstDet_snoc_none, not_decided_firstDet]
  · unfold Stream.push
    simp only [hdone, Bool.false_eq_true, if_false]
    cases hx : s.expr <;> cases e <;>
      simp [hx, decided] at hundec ⊢ <;> (try split) <;>
      simp_all [decided, firstDet_snoc_none, not_decided_firstDet] <;> omega
  · intro hflag
    rw [push_flag_eq_done] at hflag
    refine ⟨?_, ?_, hflag, ?_, ?_, ?_, ?_⟩
    · unfold Stream.push; simp only [hdone, Bool.false_eq_true, if_false]
      cases hx : s.expr <;> cases e <;> simp [hx] <;> split <;> rfl
    · unfold Stream.push; simp only [hdone, Bool.false_eq_true, if_false]
      cases hx : s.expr <;> cases e <;> simp [hx] <;> split <;> rfl
    · unfold Stream.push at hflag ⊢; simp only [hdone, Bool.false_eq_true, if_false] at hflag ⊢
      cases hx : s.expr <;> cases e <;> simp [hx] at hflag ⊢ <;> (split at hflag <;> simp_all)
    · unfold Stream.push at hflag; simp only [hdone, Bool.false_eq_true, if_false] at hflag
      cases hx : s.expr <;> cases e <;> simp [hx] at hflag ⊢ <;> (split at hflag <;> simp_all <;> omega)
    · unfold Stream.push; simp only [hdone, Bool.false_eq_true, if_false]
      cases hx : s.expr <;> cases e <;>
        simp [hx, combine] at hres hundec ⊢ <;> (try split) <;>
        simp_all [combine, decided, firstDet_snoc_none, not_decided_firstDet]
    · unfold Stream.push at hflag; simp only [hdone, Bool.false_eq_true, if_false] at hflag
      cases hx : s.expr <;> cases e <;> simp [hx] at hflag hundec ⊢ <;>
        (try split at hflag) <;>
        simp_all [decided, firstDet_snoc_none, not_decided_firstDet]

/-- the rule loop followed by `next` is the reference scan -/
theorem ruleLoop_eq_refScan (ex : EffExpr) (n ntok : Nat) (eftIdx : Option Nat) (m : MatchFn) :
    ∀ (rules : List Rule) (pre : List Eff) (s : Stream),
      Running ex n pre s → pre.length + rules.length = n →
      (match ruleLoop ntok eftIdx m s rules with
       | .ok s' => (match s'.next with | some v => Out.ok v | none => Out.panic)
       | .err k => Out.err k
       | .panic => Out.panic) =
      refScan ex pre (rules.map (ruleOutcome ntok eftIdx m)) := by
  intro rules
  induction rules with
  | nil =>
    intro pre s hr hlen
    have := hr.hlt; simp at hlen; omega
  | cons rule rest ih =>
    intro pre s hr hlen
    simp only [ruleLoop, List.map_cons, ruleOutcome]
    by_cases hl : rule.length ≠ ntok
    · simp [hl, refScan]
    · simp only [hl, if_false]
      cases hm : m rule with
      | none => simp [refScan]
      | some b =>
        simp only [refScan]
        obtain ⟨hres, hflag, hrun⟩ := push_running (ruleEffect eftIdx b rule) hr
        by_cases hf : (s.push (ruleEffect eftIdx b rule)).2 = true
        · simp only [hf, if_true]
          have hdone : (s.push (ruleEffect eftIdx b rule)).1.done = true := by
            rw [← push_flag_eq_done]; exact hf
          simp only [Stream.next, hdone, if_true, hres]
          rcases hflag.mp hf with hd | hn
          · simp [hd]
          · -- complete by capacity: no rule left
            have hrest : rest = [] := by
              simp at hlen; exact List.eq_nil_of_length_eq_zero (by omega)
            subst hrest
            by_cases hd : decided ex (pre ++ [ruleEffect eftIdx b rule]) = true
            · simp [hd]
            · simp [hd, refScan]
        · have hf' : (s.push (ruleEffect eftIdx b rule)).2 = false := by
            cases h : (s.push (ruleEffect eftIdx b rule)).2 <;> simp_all
          simp only [hf', Bool.false_eq_true, if_false]
          have hnd : ¬ decided ex (pre ++ [ruleEffect eftIdx b rule]) = true := by
            intro hd; exact hf (hflag.mpr (Or.inl hd))
          simp only [hnd, if_false]
          exact ih _ _ (hrun hf') (by simp at hlen ⊢; omega)

/-- if no rule errs, the scan is the declarative combination of *all* effects -/
theorem refScan_all_ok (ex : EffExpr) (effs : List Eff) (acc : List Eff) :
    refScan ex acc (effs.map Except.ok) = .ok (combine ex (acc ++ effs)) := by
  induction effs generalizing acc with
  | nil => simp [refScan]
  | cons e rest ih =>
    simp only [List.map_cons, refScan]
    split
    · rename_i hd
      have := decided_stable ex (acc ++ [e]) rest hd
      simp only [List.append_assoc, List.singleton_append] at this
      rw [this]
    · rw [ih]; simp

end Casbin
