import CasbinModel.Enforcer
import CasbinModel.Lemmas.Store
/-! Loading records into a store (C09, C12). -/
namespace Casbin

/-- the rules a record list offers for one (section, policy type), in order -/
def recsFor (sec pt : String) (recs : List (String × String × Rule)) : List Rule :=
  (recs.filter (fun r => decide (r.1 = sec ∧ r.2.1 = pt))).map (·.2.2)

theorem find_loadInsert (s : Store) (sec pt sec' pt' : String) (rule : Rule) :
    ((s.loadInsert sec pt rule).find sec' pt').isSome = (s.find sec' pt').isSome := by
  unfold Store.loadInsert
  rw [Store.find_update s sec pt sec' pt' (fun d => { d with policy := insertMove d.policy rule }) (fun d => rfl)]
  split
  · rename_i h; obtain ⟨h1, h2⟩ := h; subst h1 h2; cases s.find sec pt <;> rfl
  · rfl

theorem getPolicy_loadInsert (s : Store) (sec pt sec' pt' : String) (rule : Rule) :
    (s.loadInsert sec pt rule).getPolicy sec' pt' =
      if sec = sec' ∧ pt = pt' then
        (match s.find sec pt with | some d => insertMove d.policy rule | none => [])
      else s.getPolicy sec' pt' := by
  unfold Store.loadInsert
  exact Store.getPolicy_update s sec pt sec' pt' (fun pol => insertMove pol rule)

theorem getPolicy_loadRecords (recs : List (String × String × Rule)) :
    ∀ (s : Store) (sec pt : String), (s.find sec pt).isSome = true →
      (loadRecords s recs).getPolicy sec pt = (recsFor sec pt recs).foldl insertMove (s.getPolicy sec pt) := by
  induction recs with
  | nil => intro s sec pt _; rfl
  | cons r rest ih =>
    intro s sec pt hsome
    obtain ⟨rs, rp, rule⟩ := r
    simp only [loadRecords, List.foldl_cons]
    have hsome' : ((s.loadInsert rs rp rule).find sec pt).isSome = true := by
      rw [find_loadInsert]; exact hsome
    have := ih (s.loadInsert rs rp rule) sec pt hsome'
    simp only [loadRecords] at this
    rw [this, getPolicy_loadInsert]
    by_cases hm : rs = sec ∧ rp = pt
    · obtain ⟨h1, h2⟩ := hm; subst h1 h2
      simp only [and_self, if_true, recsFor, List.filter_cons, decide_true, List.map_cons, List.foldl_cons]
      cases hf : s.find rs rp with
      | none => rw [hf] at hsome; cases hsome
      | some d => simp [Store.getPolicy, hf]
    · simp only [hm, if_false, recsFor, List.filter_cons, decide_false]
      rfl

theorem insertMove_new {acc : List Rule} {v : Rule} (h : v ∉ acc) : insertMove acc v = acc ++ [v] := by
  simp [insertMove, h]

theorem foldl_insertMove_nodup (l : List Rule) :
    ∀ acc : List Rule, l.Nodup → (∀ x ∈ l, x ∉ acc) → l.foldl insertMove acc = acc ++ l := by
  induction l with
  | nil => intro acc _ _; simp
  | cons v vs ih =>
    intro acc hn hd
    simp only [List.foldl_cons]
    rw [insertMove_new (hd v (by simp))]
    have hn' := List.nodup_cons.mp hn
    rw [ih (acc ++ [v]) hn'.2]
    · simp
    · intro x hx hxa
      simp only [List.mem_append, List.mem_singleton] at hxa
      rcases hxa with h | h
      · exact hd x (by simp [hx]) h
      · subst h; exact hn'.1 hx

theorem recsFor_filter (sec pt : String) (recs : List (String × String × Rule)) (k : String → Rule → Bool) :
    recsFor sec pt (recs.filter (fun r => k r.1 r.2.2)) = (recsFor sec pt recs).filter (k sec) := by
  induction recs with
  | nil => rfl
  | cons r rest ih =>
    obtain ⟨rs, rp, rule⟩ := r
    unfold recsFor at ih ⊢
    by_cases hm : rs = sec ∧ rp = pt
    · obtain ⟨h1, h2⟩ := hm; subst h1 h2
      by_cases hk : k rs rule = true
      · rw [List.filter_cons_of_pos (by simpa using hk), List.filter_cons_of_pos (by simp),
          List.filter_cons_of_pos (by simp), List.map_cons, List.map_cons,
          List.filter_cons_of_pos (by simpa using hk), ih]
      · rw [List.filter_cons_of_neg (by simpa using hk), List.filter_cons_of_pos (by simp),
          List.map_cons, List.filter_cons_of_neg (by simpa using hk), ih]
    · by_cases hk : k rs rule = true
      · rw [List.filter_cons_of_pos (by simpa using hk), List.filter_cons_of_neg (by simpa using hm),
          List.filter_cons_of_neg (by simpa using hm), ih]
      · rw [List.filter_cons_of_neg (by simpa using hk), List.filter_cons_of_neg (by simpa using hm), ih]

theorem getPolicy_clear' (s : Store) (sec pt : String) : s.clear.getPolicy sec pt = [] := by
  unfold Store.getPolicy Store.find Store.sec Store.clear
  by_cases h1 : sec = "p"
  · simp only [h1, if_true, List.find?_map]
    cases (s.p.find? _) <;> simp
  · simp only [h1, if_false]
    by_cases h2 : sec = "g"
    · simp only [h2, if_true, List.find?_map]
      cases (s.g.find? _) <;> simp
    · simp [h2]

theorem find_clear (s : Store) (sec pt : String) : (s.clear.find sec pt).isSome = (s.find sec pt).isSome := by
  unfold Store.find Store.sec Store.clear
  by_cases h1 : sec = "p"
  · simp only [h1, if_true, List.find?_map]
    cases h : (s.p.find? _) <;> simp_all [Function.comp_def]
  · simp only [h1, if_false]
    by_cases h2 : sec = "g"
    · simp only [h2, if_true, List.find?_map]
      cases h : (s.g.find? _) <;> simp_all [Function.comp_def]
    · simp [h2]

end Casbin
