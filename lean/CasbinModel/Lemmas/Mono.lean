import CasbinModel.Matcher
/-! Monotonicity of negation-free matchers in the role links (C08). -/
namespace Casbin

/-- no g-call, no `eval`: the value does not depend on the role manager -/
inductive LinkFree : Expr → Prop
  | lit (a) : LinkFree (.lit a)
  | r (i) : LinkFree (.r i)
  | p (i) : LinkFree (.p i)
  | attr {e f} : LinkFree e → LinkFree (.attr e f)
  | unknownVar : LinkFree .unknownVar

/-- the negation-free fragment: `==` on link-free operands, `&&`, `||`, g-calls and
built-ins on link-free arguments, literals -/
inductive Positive : Expr → Prop
  | lit (a) : Positive (.lit a)
  | cmpEq {a b} : LinkFree a → LinkFree b → Positive (.cmp .eq a b)
  | and {a b} : Positive a → Positive b → Positive (.and a b)
  | or {a b} : Positive a → Positive b → Positive (.or a b)
  | g2 {n a b} : LinkFree a → LinkFree b → Positive (.g2 n a b)
  | g3 {n a b c} : LinkFree a → LinkFree b → LinkFree c → Positive (.g3 n a b c)
  | call2 {f a b} : LinkFree a → LinkFree b → Positive (.call2 f a b)
  | call3 {f a b c} : LinkFree a → LinkFree b → LinkFree c → Positive (.call3 f a b c)

/-- `env'` differs from `env` only by a role manager that answers `true` at least as often -/
structure EnvLe (env env' : Env) : Prop where
  req : env'.req = env.req
  rule : env'.rule = env.rule
  gfuncs : env'.gfuncs = env.gfuncs
  call : env'.call = env.call
  tbl : env'.tbl = env.tbl
  links : ∀ a b d, env.rm.hasLink a b d = true → env'.rm.hasLink a b d = true

theorem linkFree_eval {env env' : Env} (h : EnvLe env env') {e : Expr} (hl : LinkFree e) (f : Nat) :
    e.eval env' f = e.eval env f := by
  induction hl with
  | lit a => simp [Expr.eval]
  | r i => simp [Expr.eval, h.req]
  | p i => simp [Expr.eval, h.rule]
  | attr _ ih => simp [Expr.eval, ih]
  | unknownVar => simp [Expr.eval]

abbrev vtrue : Option Val := some (.atom (.bool true))

/-- **Monotonicity**: a negation-free matcher that is true stays true when links are
added, provided its evaluation in the larger graph does not fail. -/
theorem eval_mono {env env' : Env} (h : EnvLe env env') {e : Expr} (hp : Positive e) (f : Nat) :
    e.eval env f = vtrue → e.eval env' f ≠ none → e.eval env' f = vtrue := by
  induction hp with
  | lit a => intro h1 _; simpa [Expr.eval] using h1
  | cmpEq ha hb =>
    intro h1 _
    simp only [Expr.eval, linkFree_eval h ha, linkFree_eval h hb] at h1 ⊢; exact h1
  | @and a b _ _ iha ihb =>
    intro h1 h2
    simp only [Expr.eval] at h1 h2 ⊢
    -- in env: a = true and b = true
    have ha : a.eval env f = vtrue := by
      revert h1
      cases a.eval env f with
      | none => simp
      | some v => cases v with
        | map fs => simp
        | atom x => cases x with
          | bool bb => cases bb <;> simp [vtrue]
          | _ => simp
    have hb : b.eval env f = vtrue := by
      rw [ha] at h1; simp only [vtrue] at h1
      revert h1
      cases b.eval env f with
      | none => simp
      | some v => cases v with
        | map fs => simp
        | atom x => cases x with
          | bool bb => cases bb <;> simp [vtrue]
          | _ => simp
    have ha' : a.eval env' f ≠ none := by
      intro hn; rw [hn] at h2; simp at h2
    have ha2 := iha ha ha'
    rw [ha2] at h2 ⊢
    simp only [vtrue] at h2 ⊢
    have hb' : b.eval env' f ≠ none := by
      intro hn; rw [hn] at h2; simp at h2
    rw [ihb hb hb']
  | @or a b _ _ iha ihb =>
    intro h1 h2
    simp only [Expr.eval] at h1 h2 ⊢
    have ha' : a.eval env' f ≠ none := by
      intro hn; rw [hn] at h2; simp at h2
    -- case on a in env
    cases hae : a.eval env f with
    | none => rw [hae] at h1; simp at h1
    | some v =>
      cases v with
      | map fs => rw [hae] at h1; simp at h1
      | atom x =>
        cases x with
        | bool bb =>
          cases bb with
          | true =>
            have := iha hae ha'
            rw [this]
          | false =>
            rw [hae] at h1
            simp only at h1
            have hb : b.eval env f = vtrue := by
              revert h1
              cases b.eval env f with
              | none => simp
              | some v => cases v with
                | map fs => simp
                | atom x => cases x with
                  | bool bb => cases bb <;> simp [vtrue]
                  | _ => simp
            -- in env': a is some boolean
            cases hae' : a.eval env' f with
            | none => exact absurd hae' ha'
            | some v' =>
              cases v' with
              | map fs => rw [hae'] at h2; simp at h2
              | atom y =>
                cases y with
                | bool cc =>
                  cases cc with
                  | true => rfl
                  | false =>
                    rw [hae'] at h2
                    simp only at h2 ⊢
                    have hb' : b.eval env' f ≠ none := by
                      intro hn; rw [hn] at h2; simp at h2
                    rw [ihb hb hb']
                | str s => rw [hae'] at h2; simp at h2
                | int i => rw [hae'] at h2; simp at h2
                | unit => rw [hae'] at h2; simp at h2
        | str s => rw [hae] at h1; simp at h1
        | int i => rw [hae] at h1; simp at h1
        | unit => rw [hae] at h1; simp at h1
  | @g2 n a b ha hb =>
    intro h1 _
    simp only [Expr.eval, linkFree_eval h ha, linkFree_eval h hb, h.gfuncs] at h1 ⊢
    cases hae : a.eval env f with
    | none => rw [hae] at h1; simp at h1
    | some x =>
      cases hbe : b.eval env f with
      | none => rw [hae, hbe] at h1; simp at h1
      | some y =>
        rw [hae, hbe] at h1; simp only at h1 ⊢
        split at h1
        · rename_i hg
          simp only [hg, if_true]
          cases hx : asStr x with
          | none => rw [hx] at h1; simp at h1
          | some s =>
            cases hy : asStr y with
            | none => rw [hx, hy] at h1; simp at h1
            | some t =>
              rw [hx, hy] at h1; simp only [vtrue, Option.some.injEq, Val.atom.injEq, Atom.bool.injEq] at h1 ⊢
              exact h.links _ _ _ h1
        · simp at h1
  | @g3 n a b c ha hb hc =>
    intro h1 _
    simp only [Expr.eval, linkFree_eval h ha, linkFree_eval h hb, linkFree_eval h hc, h.gfuncs] at h1 ⊢
    cases hae : a.eval env f with
    | none => rw [hae] at h1; simp at h1
    | some x =>
      cases hbe : b.eval env f with
      | none => rw [hae, hbe] at h1; simp at h1
      | some y =>
        cases hce : c.eval env f with
        | none => rw [hae, hbe, hce] at h1; simp at h1
        | some z =>
          rw [hae, hbe, hce] at h1; simp only at h1 ⊢
          split at h1
          · rename_i hg
            simp only [hg, if_true]
            cases hx : asStr x with
            | none => rw [hx] at h1; simp at h1
            | some s =>
              cases hy : asStr y with
              | none => rw [hx, hy] at h1; simp at h1
              | some t =>
                cases hz : asStr z with
                | none => rw [hx, hy, hz] at h1; simp at h1
                | some d =>
                  rw [hx, hy, hz] at h1
                  simp only [vtrue, Option.some.injEq, Val.atom.injEq, Atom.bool.injEq] at h1 ⊢
                  exact h.links _ _ _ h1
          · simp at h1
  | call2 ha hb =>
    intro h1 _
    simp only [Expr.eval, linkFree_eval h ha, linkFree_eval h hb, h.call] at h1 ⊢; exact h1
  | call3 ha hb hc =>
    intro h1 _
    simp only [Expr.eval, linkFree_eval h ha, linkFree_eval h hb, linkFree_eval h hc, h.call] at h1 ⊢; exact h1

end Casbin
