import CasbinModel.RoleGraph
/-!
# BFS lemmas for C03: soundness, completeness below the limit (with the code's
level-blind depth counter) and fuel sufficiency.
-/
namespace Casbin
variable {α : Type} [DecidableEq α]

theorem visitAll_disc (disc ss : List α) (x : α) :
    x ∈ (visitAll disc ss).2 ↔ x ∈ disc ∨ x ∈ ss := by
  induction ss generalizing disc with
  | nil => simp [visitAll]
  | cons s ss ih =>
    unfold visitAll
    split
    · rename_i h
      rw [ih]; constructor
      · rintro (h1 | h1) <;> simp [h1]
      · rintro (h1 | h1)
        · exact Or.inl h1
        · rcases List.mem_cons.mp h1 with h2 | h2
          · subst h2; exact Or.inl h
          · exact Or.inr h2
    · simp only []
      rw [ih]; simp only [List.mem_cons]; constructor
      · rintro ((h1 | h1) | h1) <;> simp [h1]
      · rintro (h1 | h1 | h1) <;> simp [h1]

theorem visitAll_new (disc ss : List α) (x : α) :
    x ∈ (visitAll disc ss).1 ↔ x ∈ ss ∧ x ∉ disc := by
  induction ss generalizing disc with
  | nil => simp [visitAll]
  | cons s ss ih =>
    unfold visitAll
    split
    · rename_i h
      rw [ih]; constructor
      · rintro ⟨h1, h2⟩; exact ⟨List.mem_cons_of_mem _ h1, h2⟩
      · rintro ⟨h1, h2⟩
        rcases List.mem_cons.mp h1 with h3 | h3
        · subst h3; exact absurd h h2
        · exact ⟨h3, h2⟩
    · rename_i h
      simp only [List.mem_cons]
      rw [ih]; simp only [List.mem_cons]; constructor
      · rintro (h1 | ⟨h1, h2⟩)
        · subst h1; exact ⟨Or.inl rfl, h⟩
        · exact ⟨Or.inr h1, fun h3 => h2 (Or.inr h3)⟩
      · rintro ⟨h1 | h1, h2⟩
        · exact Or.inl h1
        · by_cases hx : x = s
          · exact Or.inl hx
          · exact Or.inr ⟨h1, fun h3 => h3.elim hx h2⟩

theorem visitAll_nodup (disc ss : List α) : (visitAll disc ss).1.Nodup := by
  induction ss generalizing disc with
  | nil => simp [visitAll]
  | cons s ss ih =>
    unfold visitAll
    split
    · exact ih _
    · simp only [List.nodup_cons]
      refine ⟨?_, ih _⟩
      rw [visitAll_new]; simp

inductive Path (g : Graph α) : α → α → Nat → Prop
  | nil (a) : Path g a a 0
  | cons {a b c n} : (a, b) ∈ g.edges → Path g b c n → Path g a c (n+1)

theorem mem_succs {g : Graph α} {a b : α} : b ∈ g.succs a ↔ (a, b) ∈ g.edges := by
  simp [Graph.succs]

/-- ghost-state invariant -/
structure BInv (g : Graph α) (s : α) (N : List α) (b : Bfs α) (popped : List α) (lab ld : α → Nat) : Prop where
  rem_eq : b.rem = b.queue.length
  disc_iff : ∀ x, x ∈ b.disc ↔ x ∈ popped ∨ x ∈ b.queue
  q_lab : ∀ w ∈ b.queue, b.depth ≤ lab w
  p_ld : ∀ u ∈ popped, ld u ≤ lab u ∧ ld u ≤ b.depth
  p_succ : ∀ u ∈ popped, ∀ w ∈ g.succs u, w ∈ b.disc ∧ lab w ≤ ld u + 1
  start : lab s = 0 ∧ s ∈ b.disc
  q_nodup : b.queue.Nodup
  q_disj : ∀ x ∈ b.queue, x ∉ popped
  p_nodup : popped.Nodup
  bound : ∀ x ∈ b.disc, x ∈ N
  lab_le : ∀ w ∈ b.disc, lab w ≤ b.depth + 1

theorem inv_init (g : Graph α) (s : α) (N : List α) (hs : s ∈ N) :
    BInv g s N (Bfs.init s) [] (fun _ => 0) (fun _ => 0) := by
  constructor <;> simp [Bfs.init, hs]

theorem inv_step {g : Graph α} {s : α} {N : List α} {maxD : Nat} {b b' : Bfs α} {popped : List α} {lab ld : α → Nat} {u : α}
    (hN : ∀ e ∈ g.edges, e.2 ∈ N)
    (hi : BInv g s N b popped lab ld) (hn : b.next g maxD = some (u, b')) :
    ∃ lab' ld', BInv g s N b' (u :: popped) lab' ld' := by
  unfold Bfs.next at hn
  split at hn
  · cases hn
  · rename_i hdepth
    split at hn
    · cases hn
    · rename_i u0 q hq
      simp only [Option.some.injEq, Prod.mk.injEq] at hn
      obtain ⟨hu, hb'⟩ := hn
      subst hu
      have hrem : b.rem - 1 = q.length := by rw [hi.rem_eq, hq]; simp
      have hqn := hi.q_nodup; rw [hq] at hqn
      have hu0q : u0 ∉ q := (List.nodup_cons.mp hqn).1
      have hu0p : u0 ∉ popped := hi.q_disj u0 (by rw [hq]; simp)
      -- new ghost maps
      let new := (visitAll b.disc (g.succs u0)).1
      refine ⟨fun w => if w ∈ new then b.depth + 1 else lab w,
              fun w => if w = u0 then b.depth else ld w, ?_⟩
      subst hb'
      have hnew : ∀ x, x ∈ new ↔ x ∈ g.succs u0 ∧ x ∉ b.disc := visitAll_new _ _
      have hdepth' : ∀ (d : Nat), d = (if b.rem - 1 = 0 then b.depth + 1 else b.depth) →
          b.depth ≤ d ∧ d ≤ b.depth + 1 ∧ (q ≠ [] → d = b.depth) := by
        intro d hd; subst hd
        split
        · rename_i h0; refine ⟨by omega, by omega, ?_⟩
          intro hne; rw [hrem] at h0; exact absurd (List.length_eq_zero_iff.mp h0) hne
        · exact ⟨by omega, by omega, fun _ => rfl⟩
      obtain ⟨hd1, hd2, hd3⟩ := hdepth' _ rfl
      constructor
      · -- rem_eq
        simp [hrem]
      · -- disc_iff
        intro x
        simp only [visitAll_disc, List.mem_cons, List.mem_append]
        rw [hi.disc_iff, hq]
        simp only [List.mem_cons]
        constructor
        · rintro ((h | h | h) | h)
          · exact Or.inl (Or.inr h)
          · exact Or.inl (Or.inl h)
          · exact Or.inr (Or.inl h)
          · by_cases hx : x ∈ b.disc
            · rw [hi.disc_iff, hq] at hx
              rcases hx with hx | hx
              · exact Or.inl (Or.inr hx)
              · rcases List.mem_cons.mp hx with hx | hx
                · exact Or.inl (Or.inl hx)
                · exact Or.inr (Or.inl hx)
            · exact Or.inr (Or.inr ((hnew x).mpr ⟨h, hx⟩))
        · rintro ((h | h) | h | h)
          · exact Or.inl (Or.inr (Or.inl h))
          · exact Or.inl (Or.inl h)
          · exact Or.inl (Or.inr (Or.inr h))
          · exact Or.inr ((hnew x).mp h).1
      · -- q_lab
        intro w hw
        simp only [List.mem_append] at hw
        by_cases hwn : w ∈ new
        · simp only [hwn, if_true]; exact hd2
        · simp only [hwn, if_false]
          rcases hw with hw | hw
          · have := hi.q_lab w (by rw [hq]; exact List.mem_cons_of_mem _ hw)
            have hne : q ≠ [] := List.ne_nil_of_mem hw
            rw [hd3 hne]; exact this
          · exact absurd hw hwn
      · -- p_ld
        intro x hx
        have hxnew : ∀ y, (y ∈ popped ∨ y = u0) → y ∉ new := by
          intro y hy hyn
          have := ((hnew y).mp hyn).2
          apply this; rw [hi.disc_iff, hq]
          rcases hy with hy | hy
          · exact Or.inl hy
          · subst hy; exact Or.inr (by simp)
        rcases List.mem_cons.mp hx with hx | hx
        · subst hx
          have h1 := hxnew x (Or.inr rfl)
          simp only [h1, if_false, if_true]
          exact ⟨hi.q_lab x (by rw [hq]; simp), hd1⟩
        · have h1 := hxnew x (Or.inl hx)
          have hne : x ≠ u0 := fun h => hu0p (h ▸ hx)
          simp only [h1, if_false, hne]
          have := hi.p_ld x hx
          exact ⟨this.1, by omega⟩
      · -- p_succ
        intro x hx w hw
        have hpl := hi.p_ld
        rcases List.mem_cons.mp hx with hx | hx
        · subst hx
          simp only [if_true]
          refine ⟨(visitAll_disc _ _ _).mpr (Or.inr hw), ?_⟩
          by_cases hwn : w ∈ new
          · simp [hwn]
          · simp only [hwn, if_false]
            -- w already discovered: either in queue (lab ≥ depth? no: need lab w ≤ depth+1)
            have hwd : w ∈ b.disc := by
              by_cases h : w ∈ b.disc
              · exact h
              · exact absurd ((hnew w).mpr ⟨hw, h⟩) hwn
            have := hi.lab_le w hwd
            omega
        · have hne : x ≠ u0 := fun h => hu0p (h ▸ hx)
          simp only [hne, if_false]
          obtain ⟨h1, h2⟩ := hi.p_succ x hx w hw
          refine ⟨(visitAll_disc _ _ _).mpr (Or.inl h1), ?_⟩
          have : w ∉ new := fun h => ((hnew w).mp h).2 h1
          simp only [this, if_false]; exact h2
      · -- start
        obtain ⟨h1, h2⟩ := hi.start
        refine ⟨?_, (visitAll_disc _ _ _).mpr (Or.inl h2)⟩
        have : s ∉ new := fun h => ((hnew s).mp h).2 h2
        simp only [this, if_false]; exact h1
      · -- q_nodup
        rw [List.nodup_append]
        refine ⟨(List.nodup_cons.mp hqn).2, visitAll_nodup _ _, ?_⟩
        intro a ha c hc hac
        subst hac
        have := ((hnew a).mp hc).2
        apply this; rw [hi.disc_iff, hq]; exact Or.inr (List.mem_cons_of_mem _ ha)
      · -- q_disj
        intro x hx hxp
        simp only [List.mem_append] at hx
        rcases List.mem_cons.mp hxp with hxp | hxp
        · subst hxp
          rcases hx with hx | hx
          · exact hu0q hx
          · have := ((hnew x).mp hx).2
            apply this; rw [hi.disc_iff, hq]; exact Or.inr (by simp)
        · rcases hx with hx | hx
          · exact hi.q_disj x (by rw [hq]; exact List.mem_cons_of_mem _ hx) hxp
          · have := ((hnew x).mp hx).2
            apply this; rw [hi.disc_iff]; exact Or.inl hxp
      · -- p_nodup
        exact List.nodup_cons.mpr ⟨hu0p, hi.p_nodup⟩
      · -- bound
        intro x hx
        rcases (visitAll_disc _ _ _).mp hx with hx | hx
        · exact hi.bound x hx
        · exact hN (u0, x) (mem_succs.mp hx)
      · -- lab_le
        intro w hw
        by_cases hwn : w ∈ new
        · simp only [hwn, if_true]; omega
        · simp only [hwn, if_false]
          have hwd : w ∈ b.disc := by
            rcases (visitAll_disc _ _ _).mp hw with h | h
            · exact h
            · by_cases h' : w ∈ b.disc
              · exact h'
              · exact absurd ((hnew w).mpr ⟨h, h'⟩) hwn
          have := hi.lab_le w hwd
          omega

theorem next_ne_none {g : Graph α} {maxD : Nat} {b : Bfs α} {w : α}
    (hw : w ∈ b.queue) (hd : b.depth < maxD) : b.next g maxD ≠ none := by
  unfold Bfs.next
  have : ¬ maxD ≤ b.depth := by omega
  simp only [this, if_false]
  cases hq : b.queue with
  | nil => rw [hq] at hw; cases hw
  | cons u q => simp

theorem not_stop {g : Graph α} {s : α} {N : List α} {maxD : Nat} {b : Bfs α} {popped : List α} {lab ld : α → Nat} {t : α}
    (hi : BInv g s N b popped lab ld) (htp : t ∉ popped)
    {v : α} {n : Nat} (hp : Path g v t n) : ∀ j, v ∈ b.disc → lab v ≤ j → j + n < maxD →
    b.next g maxD ≠ none := by
  induction hp with
  | nil a =>
    intro j hv hl hj
    rcases (hi.disc_iff a).mp hv with h | h
    · exact absurd h htp
    · exact next_ne_none h (by have := hi.q_lab a h; omega)
  | @cons a b' c n he _ ih =>
    intro j hv hl hj
    rcases (hi.disc_iff a).mp hv with h | h
    · obtain ⟨h1, h2⟩ := hi.p_succ a h b' (mem_succs.mpr he)
      have := (hi.p_ld a h).1
      exact ih htp (j+1) h1 (by omega) (by omega)
    · exact next_ne_none h (by have := hi.q_lab a h; omega)

theorem search_complete {g : Graph α} {s t : α} {N : List α} {maxD L : Nat}
    (hN : ∀ e ∈ g.edges, e.2 ∈ N) (hp : Path g s t L) (hL : L < maxD) :
    ∀ (fuel : Nat) (b : Bfs α) (popped : List α) (lab ld : α → Nat),
      BInv g s N b popped lab ld → t ∉ popped → N.length < fuel + popped.length →
      search g maxD t fuel b = true := by
  intro fuel
  induction fuel with
  | zero =>
    intro b popped lab ld hi _ hf
    have hb : popped ⊆ N := fun x hx => hi.bound x ((hi.disc_iff x).mpr (Or.inl hx))
    have := List.Nodup.length_le_of_subset hi.p_nodup hb
    omega
  | succ fuel ih =>
    intro b popped lab ld hi htp hf
    unfold search
    have hne : b.next g maxD ≠ none := not_stop hi htp hp 0 hi.start.2 (by rw [hi.start.1]; omega) (by omega)
    cases hnx : b.next g maxD with
    | none => exact absurd hnx hne
    | some r =>
      obtain ⟨u, b'⟩ := r
      simp only
      by_cases hu : u = t
      · simp [hu]
      · simp only [hu, if_false]
        obtain ⟨lab', ld', hi'⟩ := inv_step hN hi hnx
        refine ih b' (u :: popped) lab' ld' hi' ?_ (by simp; omega)
        intro h
        rcases List.mem_cons.mp h with h | h
        · exact hu h.symm
        · exact htp h


end Casbin

namespace Casbin
variable {α : Type} [DecidableEq α]

def Reach (g : Graph α) (a b : α) : Prop := ∃ n, Path g a b n

theorem Path.snoc {g : Graph α} {a b c : α} {n : Nat} (h : Path g a b n) (he : (b, c) ∈ g.edges) :
    Path g a c (n + 1) := by
  induction h with
  | nil a => exact Path.cons he (Path.nil _)
  | cons h1 _ ih => exact Path.cons h1 (ih he)

theorem Path.append {g : Graph α} {a b c : α} {n m : Nat} (h1 : Path g a b n) (h2 : Path g b c m) :
    Path g a c (n + m) := by
  induction h1 with
  | nil a => simpa using h2
  | @cons a b' c' n he _ ih =>
    have := Path.cons he (ih h2)
    have e : n + 1 + m = n + m + 1 := by omega
    rw [e]; exact this

/-- soundness invariant: everything discovered is reachable from the start -/
structure SInv (g : Graph α) (s : α) (b : Bfs α) : Prop where
  disc_reach : ∀ x ∈ b.disc, Reach g s x
  q_disc : ∀ x ∈ b.queue, x ∈ b.disc

theorem sinv_init (g : Graph α) (s : α) : SInv g s (Bfs.init s) := by
  constructor
  · intro x hx; simp [Bfs.init] at hx; subst hx; exact ⟨0, Path.nil _⟩
  · intro x hx; simpa [Bfs.init] using hx

theorem sinv_step {g : Graph α} {s : α} {maxD : Nat} {b b' : Bfs α} {u : α}
    (hi : SInv g s b) (hn : b.next g maxD = some (u, b')) : SInv g s b' ∧ Reach g s u := by
  unfold Bfs.next at hn
  split at hn
  · cases hn
  · split at hn
    · cases hn
    · rename_i u0 q hq
      simp only [Option.some.injEq, Prod.mk.injEq] at hn
      obtain ⟨hu, hb'⟩ := hn
      subst hu; subst hb'
      have hu0 : u0 ∈ b.disc := hi.q_disc u0 (by rw [hq]; simp)
      obtain ⟨n0, hp0⟩ := hi.disc_reach u0 hu0
      refine ⟨⟨?_, ?_⟩, ⟨n0, hp0⟩⟩
      · intro x hx
        rcases (visitAll_disc _ _ _).mp hx with h | h
        · exact hi.disc_reach x h
        · exact ⟨n0 + 1, hp0.snoc (mem_succs.mp h)⟩
      · intro x hx
        simp only [List.mem_append] at hx
        rcases hx with h | h
        · exact (visitAll_disc _ _ _).mpr (Or.inl (hi.q_disc x (by rw [hq]; exact List.mem_cons_of_mem _ h)))
        · exact (visitAll_disc _ _ _).mpr (Or.inr ((visitAll_new _ _ _).mp h).1)

theorem search_sound {g : Graph α} {s t : α} {maxD : Nat} :
    ∀ (fuel : Nat) (b : Bfs α), SInv g s b → search g maxD t fuel b = true → Reach g s t := by
  intro fuel
  induction fuel with
  | zero => intro b _ h; simp [search] at h
  | succ fuel ih =>
    intro b hi h
    unfold search at h
    cases hnx : b.next g maxD with
    | none => simp [hnx] at h
    | some r =>
      obtain ⟨u, b'⟩ := r
      simp only [hnx] at h
      obtain ⟨hi', hr⟩ := sinv_step hi hnx
      by_cases hu : u = t
      · subst hu; exact hr
      · simp only [hu, if_false] at h
        exact ih b' hi' h

/-- once the fuel exceeds the number of nodes not yet popped, more fuel changes nothing:
the real `while let` loop (no fuel) computes what the model computes. -/
theorem search_fuel_stable {g : Graph α} {s t : α} {N : List α} {maxD : Nat}
    (hN : ∀ e ∈ g.edges, e.2 ∈ N) :
    ∀ (fuel : Nat) (b : Bfs α) (popped : List α) (lab ld : α → Nat),
      BInv g s N b popped lab ld → N.length < fuel + popped.length →
      ∀ k, search g maxD t (fuel + k) b = search g maxD t fuel b := by
  intro fuel
  induction fuel with
  | zero =>
    intro b popped lab ld hi hf
    have hb : popped ⊆ N := fun x hx => hi.bound x ((hi.disc_iff x).mpr (Or.inl hx))
    have := List.Nodup.length_le_of_subset hi.p_nodup hb
    omega
  | succ fuel ih =>
    intro b popped lab ld hi hf k
    have e : fuel + 1 + k = (fuel + k) + 1 := by omega
    rw [e]
    unfold search
    cases hnx : b.next g maxD with
    | none => rfl
    | some r =>
      obtain ⟨u, b'⟩ := r
      simp only
      by_cases hu : u = t
      · simp [hu]
      · simp only [hu, if_false]
        obtain ⟨lab', ld', hi'⟩ := inv_step hN hi hnx
        exact ih b' (u :: popped) lab' ld' hi' (by simp; omega) k

end Casbin
