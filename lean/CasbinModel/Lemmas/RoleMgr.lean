import CasbinModel.Lemmas.Bfs
/-! Role-manager level lemmas for C03: domain map, well-formedness, refinement to the link-set spec. -/
namespace Casbin
variable {α : Type} [DecidableEq α]

theorem mem_dedup (l : List α) (x : α) : x ∈ dedup l ↔ x ∈ l := by
  induction l with
  | nil => simp [dedup]
  | cons y ys ih =>
    unfold dedup
    split
    · rename_i h; rw [ih]; constructor
      · exact List.mem_cons_of_mem _
      · intro h1; rcases List.mem_cons.mp h1 with h2 | h2
        · subst h2; exact h
        · exact h2
    · simp [ih]

theorem nodup_dedup (l : List α) : (dedup l).Nodup := by
  induction l with
  | nil => simp [dedup]
  | cons y ys ih =>
    unfold dedup
    split
    · exact ih
    · rename_i h; exact List.nodup_cons.mpr ⟨fun h1 => h ((mem_dedup _ _).mp h1), ih⟩

theorem find_setDom (doms : List (α × Graph α)) (d d' : α) (g : Graph α) :
    ((setDom doms d g).find? (·.1 = d')).map (·.2) =
      if d = d' then some g else (doms.find? (·.1 = d')).map (·.2) := by
  induction doms with
  | nil =>
    simp only [setDom, List.find?]
    by_cases h : d = d' <;> simp [h]
  | cons p rest ih =>
    obtain ⟨d0, g0⟩ := p
    simp only [setDom]
    by_cases h0 : d0 = d
    · subst h0
      simp only [if_true, List.find?]
      by_cases h : d0 = d' <;> simp [h]
    · simp only [h0, if_false, List.find?]
      by_cases h1 : d0 = d'
      · subst h1; simp [Ne.symm h0]
      · simp only [h1, decide_false]
        exact ih

theorem graph?_setDom (rm : RoleMgr α) (d d' : α) (g : Graph α) :
    ({ rm with doms := setDom rm.doms d g } : RoleMgr α).graph? d' =
      if d = d' then some g else rm.graph? d' := by
  simp only [RoleMgr.graph?]; exact find_setDom _ _ _ _

theorem graph_setDom (rm : RoleMgr α) (d d' : α) (g : Graph α) :
    ({ rm with doms := setDom rm.doms d g } : RoleMgr α).graph d' =
      if d = d' then g else rm.graph d' := by
  simp only [RoleMgr.graph, graph?_setDom]
  by_cases h : d = d' <;> simp [h]

/-- well-formedness of one graph: what petgraph + the index map guarantee -/
structure Graph.WF (g : Graph α) : Prop where
  nodes_nodup : g.nodes.Nodup
  edges_in : ∀ e ∈ g.edges, e.1 ∈ g.nodes ∧ e.2 ∈ g.nodes
  edges_nodup : g.edges.Nodup
  no_loop : ∀ e ∈ g.edges, e.1 ≠ e.2

def RoleMgr.WF (rm : RoleMgr α) : Prop := ∀ d, (rm.graph d).WF

theorem Graph.WF_empty : (Graph.empty : Graph α).WF :=
  ⟨by simp [Graph.empty], by simp [Graph.empty], by simp [Graph.empty], by simp [Graph.empty]⟩

theorem Graph.getOrCreate_nodes (g : Graph α) (n x : α) :
    x ∈ (g.getOrCreate n).nodes ↔ x ∈ g.nodes ∨ x = n := by
  unfold Graph.getOrCreate
  split
  · rename_i h; constructor
    · exact Or.inl
    · rintro (h1 | h1); exact h1; subst h1; exact h
  · simp

theorem Graph.getOrCreate_edges (g : Graph α) (n : α) : (g.getOrCreate n).edges = g.edges := by
  unfold Graph.getOrCreate; split <;> rfl

theorem Graph.WF_getOrCreate {g : Graph α} (h : g.WF) (n : α) : (g.getOrCreate n).WF := by
  refine ⟨?_, ?_, ?_, ?_⟩
  · unfold Graph.getOrCreate; split
    · exact h.nodes_nodup
    · rename_i hn
      simp only [List.nodup_append]
      exact ⟨h.nodes_nodup, by simp, by intro a ha b hb; simp at hb; subst hb; exact fun e => hn (e ▸ ha)⟩
  · intro e he
    rw [Graph.getOrCreate_edges] at he
    simp only [Graph.getOrCreate_nodes]
    exact ⟨Or.inl (h.edges_in e he).1, Or.inl (h.edges_in e he).2⟩
  · rw [Graph.getOrCreate_edges]; exact h.edges_nodup
  · rw [Graph.getOrCreate_edges]; exact h.no_loop

theorem RoleMgr.graph?_none_graph {rm : RoleMgr α} {d : α} (h : rm.graph? d = none) :
    rm.graph d = Graph.empty := by simp [RoleMgr.graph, h]

theorem RoleMgr.graph?_some_graph {rm : RoleMgr α} {d : α} {g : Graph α} (h : rm.graph? d = some g) :
    rm.graph d = g := by simp [RoleMgr.graph, h]

/-- graph of the domain touched by `add_link` -/
def addedGraph (g : Graph α) (a b : α) : Graph α :=
  let g1 := (g.getOrCreate a).getOrCreate b
  if (a, b) ∈ g1.edges then g1 else { g1 with edges := (a, b) :: g1.edges }

theorem addLink_graph (rm : RoleMgr α) (a b d d' : α) :
    (rm.addLink a b d).graph d' =
      if a = b then rm.graph d' else if d = d' then addedGraph (rm.graph d) a b else rm.graph d' := by
  unfold RoleMgr.addLink
  by_cases hab : a = b
  · simp [hab]
  · simp only [hab, if_false]
    rw [graph_setDom]
    rfl

theorem addedGraph_edges (g : Graph α) (a b : α) (e : α × α) :
    e ∈ (addedGraph g a b).edges ↔ e ∈ g.edges ∨ e = (a, b) := by
  unfold addedGraph
  by_cases h : (a, b) ∈ ((g.getOrCreate a).getOrCreate b).edges
  · simp only [h, if_true]
    rw [Graph.getOrCreate_edges, Graph.getOrCreate_edges] at *
    constructor
    · exact Or.inl
    · rintro (h1 | h1); exact h1; subst h1; exact h
  · simp only [h, if_false, List.mem_cons]
    rw [Graph.getOrCreate_edges, Graph.getOrCreate_edges]
    constructor
    · rintro (h1 | h1); exact Or.inr h1; exact Or.inl h1
    · rintro (h1 | h1); exact Or.inr h1; exact Or.inl h1

theorem addedGraph_WF {g : Graph α} (h : g.WF) {a b : α} (hab : a ≠ b) : (addedGraph g a b).WF := by
  have h1 := Graph.WF_getOrCreate (Graph.WF_getOrCreate h a) b
  unfold addedGraph
  simp only
  split
  · exact h1
  · rename_i hne
    refine ⟨h1.nodes_nodup, ?_, ?_, ?_⟩
    · intro e he
      simp only [List.mem_cons] at he
      rcases he with he | he
      · subst he
        exact ⟨(Graph.getOrCreate_nodes _ _ _).mpr (Or.inl ((Graph.getOrCreate_nodes _ _ _).mpr (Or.inr rfl))),
               (Graph.getOrCreate_nodes _ _ _).mpr (Or.inr rfl)⟩
      · exact h1.edges_in e he
    · exact List.nodup_cons.mpr ⟨hne, h1.edges_nodup⟩
    · intro e he
      simp only [List.mem_cons] at he
      rcases he with he | he
      · subst he; exact hab
      · exact h1.no_loop e he

theorem deleteLink_graph {rm rm' : RoleMgr α} {a b d : α} (h : rm.deleteLink a b d = some rm') (d' : α) :
    rm'.graph d' = if a ≠ b ∧ d = d' then { rm.graph d with edges := (rm.graph d).edges.erase (a, b) } else rm.graph d' := by
  unfold RoleMgr.deleteLink at h
  split at h
  · rename_i hab; cases h; simp [hab]
  · rename_i hab
    split at h
    · cases h
    · cases h
      rw [graph_setDom]
      simp [hab]

theorem deleteLink_none_no_edge {rm : RoleMgr α} (hw : rm.WF) {a b d : α} (h : rm.deleteLink a b d = none) :
    (a, b) ∉ (rm.graph d).edges := by
  unfold RoleMgr.deleteLink at h
  split at h
  · cases h
  · split at h
    · rename_i hc
      intro he
      have := (hw d).edges_in _ he
      simp only [RoleMgr.domainHasRole] at hc
      cases hg : rm.graph? d with
      | none => rw [RoleMgr.graph?_none_graph hg] at he; simp [Graph.empty] at he
      | some g =>
        rw [RoleMgr.graph?_some_graph hg] at this
        simp [hg, this.1, this.2] at hc
    · cases h

theorem WF_new (n : Nat) : (RoleMgr.new n : RoleMgr α).WF := by
  intro d; simp [RoleMgr.new, RoleMgr.graph, RoleMgr.graph?]; exact Graph.WF_empty

theorem WF_apply {rm : RoleMgr α} (hw : rm.WF) (op : RmOp α) : (rm.apply op).WF := by
  intro d'
  cases op with
  | add a b d =>
    simp only [RoleMgr.apply, addLink_graph]
    by_cases hab : a = b
    · simp [hab]; exact hw d'
    · simp only [hab, if_false]
      by_cases hd : d = d'
      · simp only [hd, if_true]; exact addedGraph_WF (hw d') hab
      · simp only [hd, if_false]; exact hw d'
  | del a b d =>
    simp only [RoleMgr.apply]
    cases hdl : rm.deleteLink a b d with
    | none => exact hw d'
    | some rm' =>
      simp only [Option.getD, deleteLink_graph hdl]
      by_cases hd : a ≠ b ∧ d = d'
      · rw [if_pos hd]
        obtain ⟨_, hd⟩ := hd
        have h0 := hw d'
        subst hd
        refine ⟨h0.nodes_nodup, ?_, ?_, ?_⟩
        · intro e he; exact h0.edges_in e (List.mem_of_mem_erase he)
        · exact h0.edges_nodup.erase _
        · intro e he; exact h0.no_loop e (List.mem_of_mem_erase he)
      · simp only [hd, if_false]; exact hw d'
  | clear =>
    simp [RoleMgr.apply, RoleMgr.clear, RoleMgr.graph, RoleMgr.graph?]; exact Graph.WF_empty

theorem WF_run {rm : RoleMgr α} (hw : rm.WF) (h : List (RmOp α)) : (rm.run h).WF := by
  induction h generalizing rm with
  | nil => exact hw
  | cons op ops ih => exact ih (WF_apply hw op)

theorem maxLevel_apply (rm : RoleMgr α) (op : RmOp α) : (rm.apply op).maxLevel = rm.maxLevel := by
  cases op with
  | add a b d => simp only [RoleMgr.apply, RoleMgr.addLink]; split <;> rfl
  | del a b d =>
    simp only [RoleMgr.apply, RoleMgr.deleteLink]
    split
    · rfl
    · split <;> rfl
  | clear => rfl

theorem maxLevel_run (rm : RoleMgr α) (h : List (RmOp α)) : (rm.run h).maxLevel = rm.maxLevel := by
  induction h generalizing rm with
  | nil => rfl
  | cons op ops ih => simp only [RoleMgr.run, List.foldl] at *; rw [ih, maxLevel_apply]

/-! ### The abstract specification: one link relation per domain -/

/-- `L d a b`: the link `a → b` is currently present in domain `d` -/
abbrev LinkRel (α : Type) := α → α → α → Bool

def LinkRel.step (L : LinkRel α) : RmOp α → LinkRel α
  | .add a b d => fun d' a' b' => if a ≠ b ∧ d' = d ∧ a' = a ∧ b' = b then true else L d' a' b'
  | .del a b d => fun d' a' b' => if d' = d ∧ a' = a ∧ b' = b then false else L d' a' b'
  | .clear => fun _ _ _ => false

def LinkRel.run (L : LinkRel α) (h : List (RmOp α)) : LinkRel α := h.foldl LinkRel.step L

def LinkRel.empty : LinkRel α := fun _ _ _ => false

/-- the concrete graph holds exactly the spec's links -/
def Refines (rm : RoleMgr α) (L : LinkRel α) : Prop :=
  ∀ d a b, (a, b) ∈ (rm.graph d).edges ↔ L d a b = true

theorem refines_apply {rm : RoleMgr α} {L : LinkRel α} (hw : rm.WF) (hr : Refines rm L) (op : RmOp α) :
    Refines (rm.apply op) (L.step op) := by
  intro d' a' b'
  cases op with
  | add a b d =>
    simp only [RoleMgr.apply, addLink_graph, LinkRel.step]
    by_cases hab : a = b
    · simp [hab, hr d' a' b']
    · simp only [hab, if_false]
      by_cases hd : d = d'
      · subst hd
        simp only [if_true, addedGraph_edges, hr d a' b', Prod.mk.injEq]
        by_cases h1 : a' = a ∧ b' = b
        · simp [h1, hab]
        · simp [eq_false h1]
      · have : ¬ (a ≠ b ∧ d' = d ∧ a' = a ∧ b' = b) := fun h => hd h.2.1.symm
        simp only [hd, if_false, this, hr d' a' b']
  | del a b d =>
    simp only [RoleMgr.apply, LinkRel.step]
    cases hdl : rm.deleteLink a b d with
    | none =>
      simp only [Option.getD]
      have hne := deleteLink_none_no_edge hw hdl
      by_cases h1 : d' = d ∧ a' = a ∧ b' = b
      · obtain ⟨h1, h2, h3⟩ := h1; subst h1 h2 h3
        simp [hne]
      · simp only [h1, if_false]; exact hr d' a' b'
    | some rm' =>
      simp only [Option.getD, deleteLink_graph hdl]
      by_cases hab : a = b
      · -- deleting a self-link: nothing changes, and no edge is a self-link
        subst hab
        simp only [ne_eq, not_true_eq_false, false_and, if_false]
        by_cases h1 : d' = d ∧ a' = a ∧ b' = a
        · obtain ⟨h1, h2, h3⟩ := h1
          rw [h1, h2, h3]
          have : (a, a) ∉ (rm.graph d).edges := fun he => (hw d).no_loop _ he rfl
          simp [this]
        · simp only [h1, if_false]; exact hr d' a' b'
      · by_cases hd : d = d'
        · subst hd
          simp only [ne_eq, hab, not_false_eq_true, and_self, if_true]
          by_cases h1 : a' = a ∧ b' = b
          · obtain ⟨h2, h3⟩ := h1; subst h2 h3
            have hne := (hw d).edges_nodup.not_mem_erase (a := (a', b'))
            simp [hne]
          · simp only [eq_false h1, and_false, if_false]
            rw [← hr d a' b']
            have hne : (a', b') ≠ (a, b) := by
              intro h; simp only [Prod.mk.injEq] at h; exact h1 h
            exact List.mem_erase_of_ne hne
        · have : ¬ (d' = d ∧ a' = a ∧ b' = b) := fun h => hd h.1.symm
          simp only [hd, and_false, if_false, this]; exact hr d' a' b'
  | clear =>
    simp [RoleMgr.apply, RoleMgr.clear, RoleMgr.graph, RoleMgr.graph?, LinkRel.step, Graph.empty]

theorem refines_run {rm : RoleMgr α} {L : LinkRel α} (hw : rm.WF) (hr : Refines rm L) (h : List (RmOp α)) :
    Refines (rm.run h) (L.run h) := by
  induction h generalizing rm L with
  | nil => exact hr
  | cons op ops ih => exact ih (WF_apply hw op) (refines_apply hw hr op)

theorem refines_new (n : Nat) : Refines (RoleMgr.new n : RoleMgr α) LinkRel.empty := by
  intro d a b; simp [RoleMgr.new, RoleMgr.graph, RoleMgr.graph?, Graph.empty, LinkRel.empty]

/-- paths in the spec's link relation of one domain -/
inductive SpecPath (R : α → α → Bool) : α → α → Nat → Prop
  | nil (a) : SpecPath R a a 0
  | cons {a b c n} : R a b = true → SpecPath R b c n → SpecPath R a c (n + 1)

theorem path_iff_specPath {g : Graph α} {R : α → α → Bool} (h : ∀ a b, (a, b) ∈ g.edges ↔ R a b = true)
    {a b : α} {n : Nat} : Path g a b n ↔ SpecPath R a b n := by
  constructor
  · intro hp; induction hp with
    | nil a => exact SpecPath.nil _
    | cons he _ ih => exact SpecPath.cons ((h _ _).mp he) ih
  · intro hp; induction hp with
    | nil a => exact Path.nil _
    | cons he _ ih => exact Path.cons ((h _ _).mpr he) ih

end Casbin
