import CasbinModel.Enforcer
import CasbinModel.Lemmas.RoleMgr
/-!
# Role links vs stored grouping rules (C05): one role definition of arity 2 or 3.
-/
namespace Casbin

/-- the link a grouping rule stands for under a definition of the given arity -/
def linkOf (arity : Nat) (rule : Rule) : String × String × String :=
  (rule.getD 0 "", rule.getD 1 "", if arity = 3 then rule.getD 2 "" else "DEFAULT")

/-- `(a, b)` is a link of domain `d` implied by the rules -/
def Implied (arity : Nat) (rules : List Rule) (d a b : String) : Prop :=
  a ≠ b ∧ ∃ rule ∈ rules, linkOf arity rule = (a, b, d)

def WFRules (arity : Nat) (rules : List Rule) : Prop := ∀ r ∈ rules, arity ≤ r.length

/-- the graph holds exactly the implied links -/
def SyncedWith (arity : Nat) (rm : RoleMgr String) (rules : List Rule) : Prop :=
  ∀ d a b, (a, b) ∈ (rm.graph d).edges ↔ Implied arity rules d a b

theorem linkOp_insert {arity : Nat} (ha : arity = 2 ∨ arity = 3) (rm : RoleMgr String) (rule : Rule)
    (hl : arity ≤ rule.length) :
    linkOp arity true rm rule =
      .ok (rm.addLink (linkOf arity rule).1 (linkOf arity rule).2.1 (linkOf arity rule).2.2) := by
  unfold linkOp linkOf
  have : ¬ rule.length < arity := by omega
  rcases ha with h | h <;> subst h <;> simp [this]

theorem addLink_edges (rm : RoleMgr String) (a b d d' x y : String) :
    (x, y) ∈ ((rm.addLink a b d).graph d').edges ↔
      (x, y) ∈ (rm.graph d').edges ∨ (a ≠ b ∧ d = d' ∧ x = a ∧ y = b) := by
  rw [addLink_graph]
  by_cases hab : a = b
  · simp [hab]
  · simp only [hab, if_false]
    by_cases hd : d = d'
    · subst hd; simp [addedGraph_edges, hab]
    · simp [hd]

theorem addLink_WF {rm : RoleMgr String} (hw : rm.WF) (a b d : String) : (rm.addLink a b d).WF := by
  have := WF_apply hw (.add a b d); simpa [RoleMgr.apply] using this

theorem synced_insert {arity : Nat} (ha : arity = 2 ∨ arity = 3) {rm : RoleMgr String} {rules : List Rule}
    (hs : SyncedWith arity rm rules) (rule : Rule) :
    SyncedWith arity (rm.addLink (linkOf arity rule).1 (linkOf arity rule).2.1 (linkOf arity rule).2.2)
      (rules ++ [rule]) := by
  intro d x y
  rw [addLink_edges, hs d x y]
  unfold Implied
  constructor
  · rintro (⟨hne, r, hr, hl⟩ | ⟨hne, hd, hx, hy⟩)
    · exact ⟨hne, r, by simp [hr], hl⟩
    · refine ⟨by rw [hx, hy]; exact hne, rule, by simp, ?_⟩
      rw [hx, hy, ← hd]
  · rintro ⟨hne, r, hr, hl⟩
    simp only [List.mem_append, List.mem_singleton] at hr
    rcases hr with hr | hr
    · exact Or.inl ⟨hne, r, hr, hl⟩
    · subst hr
      right
      rw [hl]; exact ⟨hne, rfl, rfl, rfl⟩

/-- `Assertion::build_role_links` / incremental insertion: processing well-formed rules in
order keeps the graph in sync and never fails -/
theorem buildGo_synced {arity : Nat} (ha : arity = 2 ∨ arity = 3) :
    ∀ (rules : List Rule) (rm : RoleMgr String) (acc : List Rule) (d : PolDef),
      d.arity = arity → WFRules arity rules → SyncedWith arity rm acc → rm.WF →
      ∃ rm', buildDef.go d rm rules = (rm', none) ∧ SyncedWith arity rm' (acc ++ rules) ∧ rm'.WF := by
  intro rules
  induction rules with
  | nil => intro rm acc d _ _ hs hw; exact ⟨rm, rfl, by simpa using hs, hw⟩
  | cons rule rest ih =>
    intro rm acc d hd hwf hs hw
    have hl : arity ≤ rule.length := hwf rule (by simp)
    simp only [buildDef.go, hd, linkOp_insert ha rm rule hl]
    obtain ⟨rm', h1, h2, h3⟩ := ih _ (acc ++ [rule]) d hd (fun r hr => hwf r (by simp [hr]))
      (synced_insert ha hs rule) (addLink_WF hw _ _ _)
    exact ⟨rm', h1, by simpa [List.append_assoc] using h2, h3⟩

theorem synced_clear (arity : Nat) (rm : RoleMgr String) : SyncedWith arity rm.clear [] := by
  intro d a b
  simp [RoleMgr.clear, RoleMgr.graph, RoleMgr.graph?, Graph.empty, Implied]

theorem WF_clear (rm : RoleMgr String) : rm.clear.WF := by
  intro d; simp [RoleMgr.clear, RoleMgr.graph, RoleMgr.graph?]; exact Graph.WF_empty

/-- incremental insertion = the same loop -/
theorem incrInsert_eq_buildGo (d : PolDef) (hd : 2 ≤ d.arity) (rules : List Rule) (hwf : WFRules d.arity rules) :
    ∀ rm : RoleMgr String, buildIncremental rm d true rules = buildDef.go d rm rules := by
  have hlt : ¬ d.arity < 2 := by omega
  unfold buildIncremental
  simp only [hlt, if_false]
  induction rules with
  | nil => intro rm; rfl
  | cons rule rest ih =>
    intro rm
    have hl : ¬ rule.length < d.arity := by have := hwf rule (by simp); omega
    simp only [buildIncremental.go, buildDef.go, hl, if_false, Bool.not_true, Bool.false_and]
    cases h : linkOp d.arity true rm rule with
    | ok rm' => simp only []; exact ih (fun r hr => hwf r (by simp [hr])) rm'
    | error k => rfl

/-! ### removal -/

/-- one-sided invariant while removed rules are being processed: every link implied by
the remaining policy is present, every present link is implied by policy ∪ still-to-process -/
structure Removing (arity : Nat) (rm : RoleMgr String) (pol rest all : List Rule) : Prop where
  wf : rm.WF
  keep : ∀ d a b, Implied arity pol d a b → (a, b) ∈ (rm.graph d).edges
  only : ∀ d a b, (a, b) ∈ (rm.graph d).edges → Implied arity (pol ++ rest) d a b
  nodes : ∀ r ∈ all, (linkOf arity r).1 ≠ (linkOf arity r).2.1 →
    (linkOf arity r).1 ∈ (rm.graph (linkOf arity r).2.2).nodes ∧
    (linkOf arity r).2.1 ∈ (rm.graph (linkOf arity r).2.2).nodes

theorem take_eq_iff_linkOf {arity : Nat} (ha : arity = 2 ∨ arity = 3) {r r' : Rule}
    (h1 : arity ≤ r.length) (h2 : arity ≤ r'.length) :
    r'.take arity = r.take arity ↔ linkOf arity r' = linkOf arity r := by
  rcases ha with h | h <;> subst h
  · match r, r', h1, h2 with
    | a :: b :: _, a' :: b' :: _, _, _ => simp [linkOf, List.getD]
  · match r, r', h1, h2 with
    | a :: b :: c :: _, a' :: b' :: c' :: _, _, _ => simp [linkOf, List.getD]

theorem deleteLink_nodes {rm rm' : RoleMgr String} {a b d : String} (h : rm.deleteLink a b d = some rm')
    (d' : String) : (rm'.graph d').nodes = (rm.graph d').nodes := by
  rw [deleteLink_graph h]; split
  · rename_i hc; obtain ⟨_, hd⟩ := hc; subst hd; rfl
  · rfl

theorem deleteLink_edges {rm rm' : RoleMgr String} (hw : rm.WF) {a b d : String}
    (h : rm.deleteLink a b d = some rm') (d' x y : String) :
    (x, y) ∈ (rm'.graph d').edges ↔ (x, y) ∈ (rm.graph d').edges ∧ ¬ (d = d' ∧ x = a ∧ y = b) := by
  rw [deleteLink_graph h]
  by_cases hab : a = b
  · subst hab
    simp only [ne_eq, not_true_eq_false, false_and, if_false]
    constructor
    · intro he; refine ⟨he, ?_⟩
      rintro ⟨hd, hx, hy⟩; subst hd hx hy
      exact (hw d).no_loop _ he rfl
    · exact fun h => h.1
  · by_cases hd : d = d'
    · subst hd
      simp only [ne_eq, hab, not_false_eq_true, and_self, if_true, true_and]
      by_cases hxy : x = a ∧ y = b
      · obtain ⟨hx, hy⟩ := hxy; subst hx hy
        have := (hw d).edges_nodup.not_mem_erase (a := (x, y))
        simp [this]
      · have hne : (x, y) ≠ (a, b) := by intro h; simp only [Prod.mk.injEq] at h; exact hxy h
        rw [List.mem_erase_of_ne hne]; simp [hxy]
    · simp [hd]

theorem deleteLink_WF {rm rm' : RoleMgr String} (hw : rm.WF) {a b d : String}
    (h : rm.deleteLink a b d = some rm') : rm'.WF := by
  have := WF_apply hw (.del a b d); simpa [RoleMgr.apply, h] using this

theorem removeGo_synced {arity : Nat} (ha : arity = 2 ∨ arity = 3) (d : PolDef) (hd : d.arity = arity)
    (hpol : WFRules arity d.policy) (all : List Rule) :
    ∀ (rest : List Rule) (rm : RoleMgr String), WFRules arity rest → (∀ r ∈ rest, r ∈ all) →
      Removing arity rm d.policy rest all →
      ∃ rm', buildIncremental.go d false rm rest = (rm', none) ∧ Removing arity rm' d.policy [] all := by
  intro rest
  induction rest with
  | nil => intro rm _ _ hr; exact ⟨rm, rfl, hr⟩
  | cons rule rest ih =>
    intro rm hwf hall hr
    have hl : arity ≤ rule.length := hwf rule (by simp)
    have hl' : ¬ rule.length < d.arity := by rw [hd]; omega
    have hwf' : WFRules arity rest := fun r h => hwf r (by simp [h])
    have hall' : ∀ r ∈ rest, r ∈ all := fun r h => hall r (by simp [h])
    have ha3 : d.arity ≤ 3 := by rw [hd]; rcases ha with h | h <;> omega
    simp only [buildIncremental.go, hl', if_false, Bool.not_false, Bool.true_and, ha3, decide_true]
    by_cases hstill : d.policy.any (fun r => decide (r.length ≥ d.arity) && decide (r.take d.arity = rule.take d.arity)) = true
    · -- another stored rule still implies the link: skip
      simp only [hstill, if_true]
      apply ih rm hwf' hall'
      refine ⟨hr.wf, hr.keep, ?_, hr.nodes⟩
      intro dd a b he
      obtain ⟨hne, r, hrm, hlk⟩ := hr.only dd a b he
      simp only [List.mem_append, List.mem_cons] at hrm
      rcases hrm with hrm | hrm | hrm
      · exact ⟨hne, r, by simp [hrm], hlk⟩
      · subst hrm
        simp only [List.any_eq_true, Bool.and_eq_true, decide_eq_true_eq] at hstill
        obtain ⟨r', hr', hlen, htake⟩ := hstill
        rw [hd] at hlen htake
        refine ⟨hne, r', by simp [hr'], ?_⟩
        rw [← hlk]; exact (take_eq_iff_linkOf ha hl hlen).mp htake
      · exact ⟨hne, r, by simp [hrm], hlk⟩
    · have hstill' : ¬ ∃ r' ∈ d.policy, arity ≤ r'.length ∧ r'.take arity = rule.take arity := by
        intro ⟨r', h1, h2, h3⟩
        apply hstill
        simp only [List.any_eq_true, Bool.and_eq_true, decide_eq_true_eq]
        exact ⟨r', h1, by rw [hd]; exact h2, by rw [hd]; exact h3⟩
      simp only [hstill, Bool.false_eq_true, if_false]
      -- delete the link of `rule`
      have hdel : ∃ rm1, rm.deleteLink (linkOf arity rule).1 (linkOf arity rule).2.1 (linkOf arity rule).2.2 = some rm1 := by
        cases hdl : rm.deleteLink (linkOf arity rule).1 (linkOf arity rule).2.1 (linkOf arity rule).2.2 with
        | some rm1 => exact ⟨rm1, rfl⟩
        | none =>
          exfalso
          unfold RoleMgr.deleteLink at hdl
          split at hdl
          · cases hdl
          · rename_i hne
            have := hr.nodes rule (hall rule (by simp)) hne
            unfold RoleMgr.domainHasRole RoleMgr.graph at *
            cases hg : rm.graph? (linkOf arity rule).2.2 with
            | none => simp [hg, Graph.empty] at this
            | some g => simp [hg] at this hdl; simp [this.1, this.2] at hdl
      obtain ⟨rm1, hrm1⟩ := hdel
      have hop : linkOp d.arity false rm rule = .ok rm1 := by
        unfold linkOp
        simp only [hl', if_false, hd, Bool.false_eq_true]
        unfold linkOf at hrm1
        rcases ha with h | h <;> subst h <;> simp_all
      simp only [hop]
      apply ih rm1 hwf' hall'
      refine ⟨deleteLink_WF hr.wf hrm1, ?_, ?_, ?_⟩
      · intro dd a b himp
        rw [deleteLink_edges hr.wf hrm1]
        refine ⟨hr.keep dd a b himp, ?_⟩
        rintro ⟨h1, h2, h3⟩
        obtain ⟨_, r', hr', hlk⟩ := himp
        apply hstill'
        refine ⟨r', hr', hpol r' hr', (take_eq_iff_linkOf ha hl (hpol r' hr')).mpr ?_⟩
        rw [hlk, ← h1, h2, h3]
      · intro dd a b he
        rw [deleteLink_edges hr.wf hrm1] at he
        obtain ⟨he1, he2⟩ := he
        obtain ⟨hne, r, hrm, hlk⟩ := hr.only dd a b he1
        simp only [List.mem_append, List.mem_cons] at hrm
        rcases hrm with hrm | hrm | hrm
        · exact ⟨hne, r, by simp [hrm], hlk⟩
        · subst hrm
          exfalso; apply he2
          rw [hlk]; exact ⟨rfl, rfl, rfl⟩
        · exact ⟨hne, r, by simp [hrm], hlk⟩
      · intro r hrall hne
        rw [deleteLink_nodes hrm1]
        exact hr.nodes r hrall hne

end Casbin
