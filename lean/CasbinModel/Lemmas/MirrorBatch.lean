import CasbinModel.Lemmas.Mirror
import CasbinModel.Lemmas.Batch
/-! The memory adapter's lines seen per policy type, under the batch and filtered operations (C09). -/
namespace Casbin

/-- the rules the memory adapter's lines hold for one policy type, in order -/
def proj (sec pt : String) (lines : List Rule) : List Rule := recsFor sec pt (memRecords lines)

theorem proj_append (sec pt : String) (l1 l2 : List Rule) : proj sec pt (l1 ++ l2) = proj sec pt l1 ++ proj sec pt l2 := by
  unfold proj; rw [memRecords_append, recsFor_append]

theorem mem_proj (sec pt : String) (rule : Rule) (lines : List Rule) :
    rule ∈ proj sec pt lines ↔ tag sec pt rule ∈ lines := mem_recsFor_mem sec pt rule lines

theorem proj_add (sec pt sec' pt' : String) (rule : Rule) (lines : List Rule) :
    proj sec' pt' (OrdSet.add lines (tag sec pt rule)).1 =
      if sec = sec' ∧ pt = pt' then (OrdSet.add (proj sec' pt' lines) rule).1 else proj sec' pt' lines := by
  unfold OrdSet.add
  by_cases hin : tag sec pt rule ∈ lines
  · simp only [hin, if_true]
    by_cases hc : sec = sec' ∧ pt = pt'
    · obtain ⟨h1, h2⟩ := hc; subst h1 h2
      have : rule ∈ proj sec pt lines := (mem_proj _ _ _ _).2 hin
      simp [this]
    · simp [hc]
  · simp only [hin, if_false]
    rw [proj_append]
    have hs : proj sec' pt' [tag sec pt rule] = if sec = sec' ∧ pt = pt' then [rule] else [] := by
      unfold proj; rw [memRecords_tag, recsFor_single]
    rw [hs]
    by_cases hc : sec = sec' ∧ pt = pt'
    · obtain ⟨h1, h2⟩ := hc; subst h1 h2
      have : rule ∉ proj sec pt lines := fun h => hin ((mem_proj _ _ _ _).1 h)
      simp [this]
    · simp [hc]

theorem proj_addAll (sec pt sec' pt' : String) (rules : List Rule) (lines : List Rule) :
    proj sec' pt' (OrdSet.addAll lines (rules.map (tag sec pt))) =
      if sec = sec' ∧ pt = pt' then OrdSet.addAll (proj sec' pt' lines) rules else proj sec' pt' lines := by
  induction rules generalizing lines with
  | nil => simp [OrdSet.addAll]
  | cons r rs ih =>
    simp only [List.map_cons, OrdSet.addAll]
    rw [ih, proj_add]
    by_cases hc : sec = sec' ∧ pt = pt' <;> simp [hc]

theorem proj_remove (sec pt sec' pt' : String) (rule : Rule) (lines : List Rule) :
    proj sec' pt' (OrdSet.remove lines (tag sec pt rule)).1 =
      if sec = sec' ∧ pt = pt' then (OrdSet.remove (proj sec' pt' lines) rule).1 else proj sec' pt' lines := by
  have he := recsFor_erase sec pt sec' pt' rule lines
  unfold OrdSet.remove
  by_cases hin : tag sec pt rule ∈ lines
  · simp only [hin, if_true]
    by_cases hc : sec = sec' ∧ pt = pt'
    · obtain ⟨h1, h2⟩ := hc; subst h1 h2
      have hm : rule ∈ proj sec pt lines := (mem_proj _ _ _ _).2 hin
      simp only [and_self, if_true, hm] at he ⊢
      unfold proj at hm ⊢
      first
        | exact he
        | (simp only [erase_inst_irrel] at he ⊢; exact he)
        | (simp only [erase_inst_irrel] at he; exact he)
        | (simp only [erase_inst_irrel]; exact he)
    · simp only [hc, if_false] at he ⊢
      unfold proj
      first
        | exact he
        | (simp only [erase_inst_irrel] at he ⊢; exact he)
        | (simp only [erase_inst_irrel] at he; exact he)
        | (simp only [erase_inst_irrel]; exact he)
  · simp only [hin, if_false]
    by_cases hc : sec = sec' ∧ pt = pt'
    · obtain ⟨h1, h2⟩ := hc; subst h1 h2
      have : rule ∉ proj sec pt lines := fun h => hin ((mem_proj _ _ _ _).1 h)
      simp [this]
    · simp [hc]

theorem proj_removeAll (sec pt sec' pt' : String) (rules : List Rule) (lines : List Rule) :
    proj sec' pt' (OrdSet.removeAll lines (rules.map (tag sec pt))) =
      if sec = sec' ∧ pt = pt' then OrdSet.removeAll (proj sec' pt' lines) rules else proj sec' pt' lines := by
  induction rules generalizing lines with
  | nil => simp [OrdSet.removeAll]
  | cons r rs ih =>
    simp only [List.map_cons, OrdSet.removeAll]
    rw [ih, proj_remove]
    by_cases hc : sec = sec' ∧ pt = pt' <;> simp [hc]

/-- the memory adapter's per-line test of `remove_filtered_policy` -/
def lineHit (sec pt : String) (idx : Nat) (vals : List String) (l : Rule) : Bool :=
  l[0]? = some sec && l[1]? = some pt && filterMatch (idx + 2) vals l

theorem filterMatch_tag (sec pt : String) (idx : Nat) (vals : List String) (rule : Rule) :
    filterMatch (idx + 2) vals (sec :: pt :: rule) = filterMatch idx vals rule := by
  unfold filterMatch
  apply List.all_congr rfl
  intro x
  obtain ⟨v, i⟩ := x
  have : idx + 2 + i = (idx + i) + 2 := by omega
  simp only [this, List.getElem?_cons_succ]

theorem proj_filter (sec pt sec' pt' : String) (idx : Nat) (vals : List String) (lines : List Rule) :
    proj sec' pt' (lines.filter (fun l => !lineHit sec pt idx vals l)) =
      if sec = sec' ∧ pt = pt' then (proj sec' pt' lines).filter (fun r => !filterMatch idx vals r)
      else proj sec' pt' lines := by
  induction lines with
  | nil => simp [proj, memRecords, recsFor]
  | cons l ls ih =>
    have hcons : ∀ (x : Rule) (xs : List Rule), proj sec' pt' (x :: xs) = proj sec' pt' [x] ++ proj sec' pt' xs := by
      intro x xs; rw [← proj_append]; rfl
    rw [List.filter_cons]
    -- what one line contributes
    cases l with
    | nil =>
      have h0 : proj sec' pt' [([] : Rule)] = [] := by simp [proj, memRecords, recsFor]
      have hh : lineHit sec pt idx vals [] = false := by simp [lineHit]
      simp only [hh, Bool.not_false, if_true]
      rw [hcons, hcons [] ls, h0, ih]
      by_cases hc : sec = sec' ∧ pt = pt' <;> simp [hc]
    | cons s t =>
      cases t with
      | nil =>
        have h0 : proj sec' pt' [[s]] = [] := by simp [proj, memRecords, recsFor]
        have hh : lineHit sec pt idx vals [s] = false := by simp [lineHit]
        simp only [hh, Bool.not_false, if_true]
        rw [hcons, hcons [s] ls, h0, ih]
        by_cases hc : sec = sec' ∧ pt = pt' <;> simp [hc]
      | cons p r =>
        have h1 : proj sec' pt' [s :: p :: r] = if s = sec' ∧ p = pt' then [r] else [] := by
          have : (s :: p :: r) = tag s p r := rfl
          rw [this]; unfold proj; rw [memRecords_tag, recsFor_single]
        have hh : lineHit sec pt idx vals (s :: p :: r) = (decide (s = sec) && decide (p = pt) && filterMatch idx vals r) := by
          unfold lineHit
          rw [filterMatch_tag]
          simp
        by_cases hhit : lineHit sec pt idx vals (s :: p :: r) = true
        · simp only [hhit, Bool.not_true, Bool.false_eq_true, if_false]
          rw [ih, hcons (s :: p :: r) ls, h1]
          rw [hh] at hhit
          simp only [Bool.and_eq_true, decide_eq_true_eq] at hhit
          obtain ⟨⟨hs, hp⟩, hfm⟩ := hhit
          subst hs hp
          by_cases hc : s = sec' ∧ p = pt'
          · simp [hc, hfm]
          · simp [hc]
        · have hhit' : lineHit sec pt idx vals (s :: p :: r) = false := by simpa using hhit
          simp only [hhit', Bool.not_false, if_true]
          rw [hcons, ih, hcons (s :: p :: r) ls, h1]
          by_cases hc : sec = sec' ∧ pt = pt'
          · obtain ⟨hs, hp⟩ := hc; subst hs hp
            simp only [and_self, if_true]
            by_cases hc2 : s = sec ∧ p = pt
            · obtain ⟨hs, hp⟩ := hc2; subst hs hp
              rw [hh] at hhit'
              have hfm : filterMatch idx vals r = false := by simpa using hhit'
              simp [hfm]
            · simp [hc2]
          · simp [hc]

theorem any_lineHit_iff (sec pt : String) (idx : Nat) (vals : List String) (lines : List Rule) :
    lines.any (lineHit sec pt idx vals) = (proj sec pt lines).any (filterMatch idx vals) := by
  rw [Bool.eq_iff_iff, List.any_eq_true, List.any_eq_true]
  constructor
  · rintro ⟨l, hl, hh⟩
    cases l with
    | nil => simp [lineHit] at hh
    | cons s t =>
      cases t with
      | nil => simp [lineHit] at hh
      | cons p r =>
        unfold lineHit at hh
        rw [filterMatch_tag] at hh
        simp only [List.getElem?_cons_zero, Option.some.injEq, List.getElem?_cons_succ, Bool.and_eq_true,
          decide_eq_true_eq] at hh
        obtain ⟨⟨hs, hp⟩, hfm⟩ := hh
        subst hs hp
        exact ⟨r, (mem_proj _ _ _ _).2 hl, hfm⟩
  · rintro ⟨r, hr, hfm⟩
    refine ⟨tag sec pt r, (mem_proj _ _ _ _).1 hr, ?_⟩
    unfold lineHit tag
    rw [filterMatch_tag]
    simp [hfm]

end Casbin
