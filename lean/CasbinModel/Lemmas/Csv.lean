import CasbinModel.Text
/-! CSV render / parse round trip (C09, C16). -/
namespace Casbin

theorem tw_append {α : Type} (p : α → Bool) (a b : List α) (h : ∀ x ∈ a, p x = true) :
    (a ++ b).takeWhile p = a ++ b.takeWhile p := by
  induction a with
  | nil => rfl
  | cons x xs ih =>
    simp only [List.cons_append, List.takeWhile, h x (by simp)]
    rw [ih (fun y hy => h y (by simp [hy]))]

theorem dw_append {α : Type} (p : α → Bool) (a b : List α) (h : ∀ x ∈ a, p x = true) :
    (a ++ b).dropWhile p = b.dropWhile p := by
  induction a with
  | nil => rfl
  | cons x xs ih =>
    simp only [List.cons_append, List.dropWhile, h x (by simp)]
    exact ih (fun y hy => h y (by simp [hy]))

/-- `rest` is the end of the line or starts with the separating comma -/
def AtSep (rest : List Char) : Prop := rest = [] ∨ ∃ more, rest = ',' :: more

theorem tw_ne_comma_atSep {rest : List Char} (h : AtSep rest) : rest.takeWhile (· ≠ ',') = [] := by
  rcases h with h | ⟨m, h⟩ <;> subst h <;> simp [List.takeWhile]

theorem dw_ne_comma_atSep {rest : List Char} (h : AtSep rest) : rest.dropWhile (· ≠ ',') = rest := by
  rcases h with h | ⟨m, h⟩ <;> subst h <;> simp [List.dropWhile]

theorem tw_ws_atSep {rest : List Char} (h : AtSep rest) : rest.takeWhile isWs = [] := by
  rcases h with h | ⟨m, h⟩ <;> subst h <;> simp [List.takeWhile, isWs]

theorem dw_ws_atSep {rest : List Char} (h : AtSep rest) : rest.dropWhile isWs = rest := by
  rcases h with h | ⟨m, h⟩ <;> subst h <;> simp [List.dropWhile, isWs]

/-- a value the text format can carry: non-empty, no double quote, no newline, no
leading / trailing blank (commas allowed) -/
structure SafeField (f : List Char) : Prop where
  ne : f ≠ []
  noQuote : '"' ∉ f
  headNotWs : ∀ c, f.head? = some c → isWs c = false
  lastNotWs : ∀ c, f.getLast? = some c → isWs c = false

/-- a raw column as it appears between commas: optional blanks, then the rendered field -/
def rawCol (ws : List Char) (f : List Char) : List Char := ws ++ renderField f

theorem ws_no_comma {ws : List Char} (h : ∀ c ∈ ws, isWs c = true) : ∀ c ∈ ws, (decide (c ≠ ',')) = true := by
  intro c hc
  have := h c hc
  simp only [isWs, Bool.or_eq_true, decide_eq_true_eq] at this
  rcases this with ((h1 | h1) | h1) | h1 <;> subst h1 <;> decide

/-- **one column**: the column regex, tried at the start of a raw column followed by a
separator or the end of the line, matches exactly the raw column -/
theorem colMatch_rawCol (ws f rest : List Char) (hws : ∀ c ∈ ws, isWs c = true) (hf : SafeField f)
    (hr : AtSep rest) : colMatch (rawCol ws f ++ rest) = (rawCol ws f, rest) := by
  obtain ⟨c0, t0, hf0⟩ : ∃ c t, f = c :: t := by
    cases hfe : f with
    | nil => exact absurd hfe hf.ne
    | cons c t => exact ⟨c, t, rfl⟩
  have hc0ws : isWs c0 = false := hf.headNotWs c0 (by simp [hf0])
  have hc0q : c0 ≠ '"' := by intro h; apply hf.noQuote; rw [hf0, h]; simp
  unfold rawCol renderField
  by_cases hcomma : ',' ∈ f
  · -- quoted: first alternative
    simp only [hcomma, if_true]
    unfold colMatch
    have e1 : (ws ++ ('"' :: f ++ ['"']) ++ rest).dropWhile isWs = '"' :: (f ++ '"' :: rest) := by
      rw [List.append_assoc, dw_append isWs ws _ hws]
      simp [List.dropWhile, isWs]
    have e2 : (ws ++ ('"' :: f ++ ['"']) ++ rest).takeWhile isWs = ws := by
      rw [List.append_assoc, tw_append isWs ws _ hws]
      simp [List.takeWhile, isWs]
    simp only [e1, e2]
    have hq : ∀ x ∈ f, (decide (x ≠ '"')) = true := by
      intro x hx; simp only [decide_eq_true_eq]; intro h; subst h; exact hf.noQuote hx
    have e3 : (f ++ '"' :: rest).takeWhile (· ≠ '"') = f := by
      rw [tw_append _ f _ hq]; simp [List.takeWhile]
    have e4 : (f ++ '"' :: rest).dropWhile (· ≠ '"') = '"' :: rest := by
      rw [dw_append _ f _ hq]; simp [List.dropWhile]
    simp only [e3, e4, tw_ws_atSep hr, dw_ws_atSep hr]
    simp
  · -- plain: second alternative (the maximal comma-free run)
    simp only [hcomma, if_false]
    unfold colMatch
    have e1 : (ws ++ f ++ rest).dropWhile isWs = c0 :: (t0 ++ rest) := by
      rw [List.append_assoc, dw_append isWs ws _ hws, hf0]
      simp [List.dropWhile, hc0ws]
    simp only [e1]
    have hnc : ∀ x ∈ ws ++ f, (decide (x ≠ ',')) = true := by
      intro x hx
      rcases List.mem_append.mp hx with h | h
      · exact ws_no_comma hws x h
      · simp only [decide_eq_true_eq]; intro hh; subst hh; exact hcomma h
    have e5 : (ws ++ f ++ rest).takeWhile (· ≠ ',') = ws ++ f := by
      rw [tw_append _ (ws ++ f) _ hnc, tw_ne_comma_atSep hr]; simp
    have e6 : (ws ++ f ++ rest).dropWhile (· ≠ ',') = rest := by
      rw [dw_append _ (ws ++ f) _ hnc, dw_ne_comma_atSep hr]
    split
    · rename_i t heq
      simp only [List.cons.injEq] at heq
      exact absurd heq.1 hc0q
    · rw [e5, e6]

theorem rawCol_ne_nil (ws f : List Char) (hf : SafeField f) : rawCol ws f ≠ [] := by
  unfold rawCol renderField
  split
  · simp
  · intro h
    have := List.append_eq_nil_iff.mp h
    exact hf.ne this.2

/-- columns that behave like raw columns -/
def GoodCol (c : List Char) : Prop := c ≠ [] ∧ ∀ rest, AtSep rest → colMatch (c ++ rest) = (c, rest)

theorem colMatch_comma (more : List Char) : colMatch (',' :: more) = ([], ',' :: more) := by
  simp [colMatch, List.takeWhile, List.dropWhile, isWs]

/-- **the iteration**: `find_iter` over good columns joined by commas yields those columns -/
theorem csvCols_join (cols : List (List Char)) (hg : ∀ c ∈ cols, GoodCol c) :
    ∀ fuel, 2 * cols.length ≤ fuel →
      (cols ≠ [] → csvCols fuel (joinWith [','] cols) false = cols) ∧
      (cols ≠ [] → csvCols (fuel + 1) (',' :: joinWith [','] cols) true = cols) := by
  induction cols with
  | nil => intro fuel _; exact ⟨fun h => absurd rfl h, fun h => absurd rfl h⟩
  | cons c rest ih =>
    intro fuel hfuel
    obtain ⟨hcne, hcm⟩ := hg c (by simp)
    have hg' : ∀ x ∈ rest, GoodCol x := fun x hx => hg x (by simp [hx])
    simp only [List.length_cons] at hfuel
    -- what remains after the first column
    have hstep : ∀ f, 2 * rest.length + 1 ≤ f →
        csvCols (f + 1) (joinWith [','] (c :: rest)) false = c :: rest ∧
        csvCols (f + 1) (joinWith [','] (c :: rest)) true = c :: rest := by
      intro f hf
      cases hrest : rest with
      | nil =>
        have hm := hcm [] (Or.inl rfl)
        simp only [List.append_nil] at hm
        have hce : c.isEmpty = false := by cases c <;> simp_all
        constructor <;>
        · simp only [joinWith, csvCols, hm, hce, Bool.false_and]
          cases f with
          | zero => omega
          | succ f' =>
            simp [csvCols, colMatch, List.takeWhile, List.dropWhile]
      | cons c2 rest2 =>
        have hj : joinWith [','] (c :: c2 :: rest2) = c ++ ',' :: joinWith [','] (c2 :: rest2) := by
          simp [joinWith]
        have hm := hcm (',' :: joinWith [','] (c2 :: rest2)) (Or.inr ⟨_, rfl⟩)
        have hce : c.isEmpty = false := by cases c <;> simp_all
        subst hrest
        have hlen : 2 * (c2 :: rest2).length ≤ f - 1 := by simp at hf ⊢; omega
        have hih := (ih hg' (f - 1) hlen).2 (by simp)
        have hf1 : f - 1 + 1 = f := by simp at hf; omega
        rw [hf1] at hih
        constructor <;>
        · rw [hj]
          simp only [csvCols, hm, hce, Bool.false_and, Bool.false_eq_true, if_false]
          rw [hih]
    constructor
    · intro _
      cases fuel with
      | zero => omega
      | succ f => exact (hstep f (by omega)).1
    · intro _
      -- at the comma: empty match adjacent to the previous one, skipped; restart one char further
      simp only [csvCols, colMatch_comma, List.isEmpty_nil, Bool.true_and, if_true]
      cases fuel with
      | zero => omega
      | succ f =>
        -- csvCols (f+1) starting inside: first take one column with the inner matcher
        cases hrest : rest with
        | nil =>
          have hm := hcm [] (Or.inl rfl)
          simp only [List.append_nil] at hm
          simp only [joinWith, hm]
          cases f with
          | zero => simp at hfuel; omega
          | succ f' => simp [csvCols, colMatch, List.takeWhile, List.dropWhile]
        | cons c2 rest2 =>
          have hj : joinWith [','] (c :: c2 :: rest2) = c ++ ',' :: joinWith [','] (c2 :: rest2) := by
            simp [joinWith]
          have hm := hcm (',' :: joinWith [','] (c2 :: rest2)) (Or.inr ⟨_, rfl⟩)
          subst hrest
          rw [hj]
          simp only [hm]
          have hlen : 2 * (c2 :: rest2).length ≤ f := by simp at hfuel ⊢; omega
          have hih := (ih hg' f hlen).2 (by simp)
          rw [hih]

end Casbin

namespace Casbin

theorem trimL_of_head {s : List Char} (h : ∀ c, s.head? = some c → isWs c = false) : trimL s = s := by
  cases s with
  | nil => rfl
  | cons c t => simp [trimL, List.dropWhile, h c rfl]

theorem trimR_of_last {s : List Char} (h : ∀ c, s.getLast? = some c → isWs c = false) : trimR s = s := by
  unfold trimR
  have : (s.reverse).dropWhile isWs = s.reverse := by
    cases hr : s.reverse with
    | nil => rfl
    | cons c t =>
      have hl : s.getLast? = some c := by
        rw [← List.head?_reverse, hr]; rfl
      simp [List.dropWhile, h c hl]
  rw [this, List.reverse_reverse]

theorem getLast?_append_ne {α : Type} (a b : List α) (hb : b ≠ []) : (a ++ b).getLast? = b.getLast? := by
  cases b with
  | nil => exact absurd rfl hb
  | cons x xs =>
    rw [List.getLast?_append]
    have : (x :: xs).getLast?.isSome = true := by simp [List.getLast?_isSome]
    cases h : (x :: xs).getLast? with
    | none => rw [h] at this; cases this
    | some v => rfl

/-- the rendered field: what `trim` and `unquote` give back -/
theorem getLast?_quoted (f : List Char) : ('"' :: f ++ ['"']).getLast? = some '"' := by
  have : ('"' :: f ++ ['"']) = ('"' :: f) ++ ['"'] := by simp
  rw [this, getLast?_append_ne _ _ (by simp)]; rfl

theorem renderField_head (f : List Char) (hf : SafeField f) : ∀ c, (renderField f).head? = some c → isWs c = false := by
  unfold renderField; split
  · intro c hc; simp at hc; subst hc; decide
  · exact hf.headNotWs

theorem renderField_last (f : List Char) (hf : SafeField f) : ∀ c, (renderField f).getLast? = some c → isWs c = false := by
  unfold renderField; split
  · intro c hc
    rw [getLast?_quoted] at hc; cases hc; decide
  · exact hf.lastNotWs

theorem renderField_ne (f : List Char) (hf : SafeField f) : renderField f ≠ [] := by
  unfold renderField; split
  · simp
  · exact hf.ne

theorem unquote_renderField (f : List Char) (hf : SafeField f) : unquote (renderField f) = f := by
  unfold renderField
  split
  · -- quoted
    unfold unquote
    have h1 : ('"' :: f ++ ['"']).length ≥ 2 := by simp
    have h2 : ('"' :: f ++ ['"']).head? = some '"' := rfl
    have h3 : ('"' :: f ++ ['"']).getLast? = some '"' := getLast?_quoted f
    simp only [h1, h2, h3, decide_true, Bool.and_self, if_true, beq_self_eq_true]
    simp
  · unfold unquote
    have : f.head? ≠ some '"' := by
      intro h
      cases f with
      | nil => cases h
      | cons c t => simp at h; subst h; exact hf.noQuote (by simp)
    simp [this]

theorem trim_rawCol (ws f : List Char) (hws : ∀ c ∈ ws, isWs c = true) (hf : SafeField f) :
    unquote (trim (rawCol ws f)) = f := by
  unfold trim rawCol
  have e1 : trimL (ws ++ renderField f) = renderField f := by
    unfold trimL
    rw [dw_append isWs ws _ hws]
    exact trimL_of_head (renderField_head f hf)
  rw [e1, trimR_of_last (renderField_last f hf), unquote_renderField f hf]

theorem goodCol_rawCol (ws f : List Char) (hws : ∀ c ∈ ws, isWs c = true) (hf : SafeField f) : GoodCol (rawCol ws f) :=
  ⟨rawCol_ne_nil ws f hf, fun rest hr => colMatch_rawCol ws f rest hws hf hr⟩

/-- joining with `"," ++ blanks` = joining the blank-prefixed columns with "," -/
theorem joinWith_sep (sws : List Char) (x : List Char) (xs : List (List Char)) :
    joinWith (',' :: sws) (x :: xs) = joinWith [','] (x :: xs.map (sws ++ ·)) := by
  induction xs generalizing x with
  | nil => rfl
  | cons y ys ih =>
    simp only [joinWith, List.map_cons]
    rw [ih y]
    cases ys with
    | nil => simp [joinWith]
    | cons z zs => simp [joinWith, List.append_assoc]

theorem length_joinWith_ge (cols : List (List Char)) (h : ∀ c ∈ cols, c ≠ []) :
    cols.length ≤ (joinWith [','] cols).length := by
  induction cols with
  | nil => simp
  | cons c rest ih =>
    have hc : 1 ≤ c.length := by
      have := h c (by simp); cases c <;> simp_all
    cases rest with
    | nil => simp [joinWith]; omega
    | cons c2 r2 =>
      have := ih (fun x hx => h x (by simp [hx]))
      simp only [joinWith, List.length_append, List.length_cons, List.length_nil] at this ⊢
      omega

theorem getLast?_joinWith (cols : List (List Char)) (hne : cols ≠ []) (h : ∀ c ∈ cols, c ≠ []) :
    (joinWith [','] cols).getLast? = (cols.getLast?.bind List.getLast?) := by
  induction cols with
  | nil => exact absurd rfl hne
  | cons c rest ih =>
    cases rest with
    | nil => simp [joinWith]
    | cons c2 r2 =>
      have hj : joinWith [','] (c :: c2 :: r2) = c ++ (',' :: joinWith [','] (c2 :: r2)) := by simp [joinWith]
      rw [hj, getLast?_append_ne _ _ (by simp)]
      have hne2 : joinWith [','] (c2 :: r2) ≠ [] := by
        intro h0
        have := length_joinWith_ge (c2 :: r2) (fun x hx => h x (by simp [hx]))
        rw [h0] at this; simp at this
      rw [List.getLast?_cons_of_ne_nil hne2, ih (by simp) (fun x hx => h x (by simp [hx]))]
      simp [List.getLast?_cons_cons]

end Casbin
