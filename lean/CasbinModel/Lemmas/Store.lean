import CasbinModel.Store
/-! Lemmas about the ordered-set operations and the store (C04). -/
namespace Casbin

section OrdSet
variable {α : Type} [DecidableEq α]

theorem OrdSet.add_nodup {s : List α} (h : s.Nodup) (v : α) : (OrdSet.add s v).1.Nodup := by
  unfold OrdSet.add
  split
  · exact h
  · rename_i hv
    simp only [List.nodup_append]
    exact ⟨h, by simp, by intro a ha b hb; simp at hb; subst hb; exact fun e => hv (e ▸ ha)⟩

theorem OrdSet.add_mem (s : List α) (v x : α) : x ∈ (OrdSet.add s v).1 ↔ x ∈ s ∨ x = v := by
  unfold OrdSet.add
  split
  · rename_i hv; constructor
    · exact Or.inl
    · rintro (h | h); exact h; subst h; exact hv
  · simp

theorem OrdSet.addAll_nodup {s : List α} (h : s.Nodup) (vs : List α) : (OrdSet.addAll s vs).Nodup := by
  induction vs generalizing s with
  | nil => exact h
  | cons v vs ih => exact ih (OrdSet.add_nodup h v)

theorem OrdSet.addAll_mem (s vs : List α) (x : α) : x ∈ OrdSet.addAll s vs ↔ x ∈ s ∨ x ∈ vs := by
  induction vs generalizing s with
  | nil => simp [OrdSet.addAll]
  | cons v vs ih =>
    simp only [OrdSet.addAll, ih, OrdSet.add_mem, List.mem_cons]
    constructor
    · rintro ((h | h) | h); exact Or.inl h; exact Or.inr (Or.inl h); exact Or.inr (Or.inr h)
    · rintro (h | h | h); exact Or.inl (Or.inl h); exact Or.inl (Or.inr h); exact Or.inr h

/-- existing elements keep their places: the old list is a prefix of the new one -/
theorem OrdSet.addAll_prefix (s vs : List α) : s <+: OrdSet.addAll s vs := by
  induction vs generalizing s with
  | nil => exact List.prefix_refl _
  | cons v vs ih =>
    simp only [OrdSet.addAll]
    refine List.IsPrefix.trans ?_ (ih _)
    unfold OrdSet.add; split
    · exact List.prefix_refl _
    · exact List.prefix_append _ _

theorem OrdSet.remove_nodup {s : List α} (h : s.Nodup) (v : α) : (OrdSet.remove s v).1.Nodup := by
  unfold OrdSet.remove; split
  · exact h.erase v
  · exact h

theorem OrdSet.remove_eq (s : List α) (v : α) : (OrdSet.remove s v).1 = s.erase v := by
  unfold OrdSet.remove; split
  · rfl
  · rename_i h; exact (List.erase_of_not_mem h).symm

theorem OrdSet.remove_sublist (s : List α) (v : α) : (OrdSet.remove s v).1.Sublist s := by
  rw [OrdSet.remove_eq]; exact List.erase_sublist

theorem OrdSet.remove_mem {s : List α} (h : s.Nodup) (v x : α) :
    x ∈ (OrdSet.remove s v).1 ↔ x ∈ s ∧ x ≠ v := by
  rw [OrdSet.remove_eq, List.Nodup.mem_erase_iff h]; exact And.comm

theorem OrdSet.remove_flag (s : List α) (v : α) : (OrdSet.remove s v).2 = true ↔ v ∈ s := by
  unfold OrdSet.remove; by_cases h : v ∈ s <;> simp [h]

theorem OrdSet.remove_absent {s : List α} {v : α} (h : v ∉ s) : (OrdSet.remove s v).1 = s := by
  unfold OrdSet.remove; simp [h]

theorem OrdSet.removeAll_nodup {s : List α} (h : s.Nodup) (vs : List α) : (OrdSet.removeAll s vs).Nodup := by
  induction vs generalizing s with
  | nil => exact h
  | cons v vs ih => exact ih (OrdSet.remove_nodup h v)

theorem OrdSet.removeAll_mem {s : List α} (h : s.Nodup) (vs : List α) (x : α) :
    x ∈ OrdSet.removeAll s vs ↔ x ∈ s ∧ x ∉ vs := by
  induction vs generalizing s with
  | nil => simp [OrdSet.removeAll]
  | cons v vs ih =>
    simp only [OrdSet.removeAll]
    rw [ih (OrdSet.remove_nodup h v), OrdSet.remove_eq, List.Nodup.mem_erase_iff h]
    simp only [List.mem_cons, not_or]
    constructor
    · rintro ⟨⟨h1, h2⟩, h3⟩; exact ⟨h2, h1, h3⟩
    · rintro ⟨h1, h2, h3⟩; exact ⟨⟨h2, h1⟩, h3⟩

/-- removal keeps the relative order of what stays -/
theorem OrdSet.removeAll_sublist (s vs : List α) : (OrdSet.removeAll s vs).Sublist s := by
  induction vs generalizing s with
  | nil => exact List.Sublist.refl _
  | cons v vs ih =>
    simp only [OrdSet.removeAll]
    refine List.Sublist.trans (ih _) ?_
    rw [OrdSet.remove_eq]; exact List.erase_sublist

end OrdSet

/-! ### find / update -/

theorem find?_updDef (ds : List PolDef) (pt pt' : String) (f : PolDef → PolDef)
    (hf : ∀ d, (f d).key = d.key) :
    (updDef ds pt f).find? (·.key = pt') =
      if pt = pt' then (ds.find? (·.key = pt')).map f else ds.find? (·.key = pt') := by
  induction ds with
  | nil => simp [updDef]
  | cons d rest ih =>
    simp only [updDef, List.map_cons] at ih ⊢
    by_cases hk : d.key = pt
    · simp only [hk, if_true]
      by_cases hp : pt = pt'
      · subst hp; simp [List.find?, hf d, hk]
      · have : ¬ (f d).key = pt' := by rw [hf d, hk]; exact hp
        have h2 : ¬ d.key = pt' := by rw [hk]; exact hp
        simp only [List.find?, this, h2, decide_false, hp, if_false] at ih ⊢
        exact ih
    · simp only [hk, if_false]
      by_cases hd : d.key = pt'
      · simp only [List.find?, hd, decide_true]
        have : ¬ pt = pt' := fun h => hk (hd.trans h.symm)
        simp [this]
      · simp only [List.find?, hd, decide_false]; exact ih

def validSec (sec : String) : Prop := sec = "p" ∨ sec = "g"

instance (sec : String) : Decidable (validSec sec) := by unfold validSec; infer_instance

theorem Store.sec_setSec (s : Store) (sec sec' : String) (ds : List PolDef) :
    (s.setSec sec ds).sec sec' = if sec = sec' ∧ validSec sec then ds else s.sec sec' := by
  unfold Store.setSec Store.sec validSec
  by_cases h1 : sec = "p"
  · subst h1; by_cases h2 : sec' = "p"
    · subst h2; simp
    · have : ¬ "p" = sec' := fun h => h2 h.symm
      simp [h2, this]
  · by_cases h3 : sec = "g"
    · subst h3
      by_cases h2 : sec' = "p"
      · subst h2; simp
      · by_cases h4 : sec' = "g"
        · subst h4; simp
        · have : ¬ "g" = sec' := fun h => h4 h.symm
          simp [h2, h4, this]
    · simp [h1, h3]

theorem Store.find_update (s : Store) (sec pt sec' pt' : String) (f : PolDef → PolDef)
    (hf : ∀ d, (f d).key = d.key) :
    (s.update sec pt f).find sec' pt' =
      if sec = sec' ∧ pt = pt' then (s.find sec pt).map f else s.find sec' pt' := by
  unfold Store.update Store.find
  rw [Store.sec_setSec]
  by_cases hs : sec = sec'
  · subst hs
    by_cases hv : validSec sec
    · simp only [hv, and_self, if_true, true_and]
      rw [find?_updDef _ _ _ _ hf]
      by_cases hp : pt = pt'
      · subst hp; simp
      · simp [hp]
    · have hnil : s.sec sec = [] := by
        unfold Store.sec validSec at *
        simp only [not_or] at hv
        simp [hv.1, hv.2]
      simp only [hv, and_false, if_false, hnil]
      by_cases hp : pt = pt' <;> simp [hp]
  · simp [hs]

theorem Store.getPolicy_update (s : Store) (sec pt sec' pt' : String) (g : List Rule → List Rule) :
    (s.update sec pt (fun d => { d with policy := g d.policy })).getPolicy sec' pt' =
      if sec = sec' ∧ pt = pt' then
        (match s.find sec pt with | some d => g d.policy | none => [])
      else s.getPolicy sec' pt' := by
  unfold Store.getPolicy
  rw [Store.find_update s sec pt sec' pt' (fun d => { d with policy := g d.policy }) (fun d => rfl)]
  by_cases h : sec = sec' ∧ pt = pt'
  · obtain ⟨h1, h2⟩ := h
    subst h1; subst h2
    simp only [and_self, if_true]
    cases hf : s.find sec pt <;> simp
  · simp only [h, if_false]

/-- every rule set of the store is duplicate free -/
def Store.WF (s : Store) : Prop := ∀ sec pt, (s.getPolicy sec pt).Nodup

/-- `List.erase` does not depend on which lawful `BEq` instance elaboration picked -/
theorem erase_inst_irrel {α : Type} [DecidableEq α] [b : BEq α] [LawfulBEq α] (l : List α) (a : α) :
    @List.erase _ instBEqOfDecidableEq l a = @List.erase _ b l a := by
  induction l with
  | nil => rfl
  | cons x xs ih =>
    simp only [List.erase_cons]
    rw [ih]
    have : (@BEq.beq _ instBEqOfDecidableEq x a) = (@BEq.beq _ b x a) := by
      by_cases h : x = a
      · subst h; simp
      · have h1 : (@BEq.beq _ b x a) = false := by simpa using h
        have h2 : (@BEq.beq _ instBEqOfDecidableEq x a) = false := by simpa using h
        rw [h1, h2]
    rw [this]


end Casbin
