import CasbinModel.Rbac
import CasbinModel.Lemmas.RoleMgr
/-! The work-list closure of `get_implicit_roles_for_user` computes reachability (C13). -/
namespace Casbin

/-- reachable from `a` by at least one step of `succ` -/
inductive Reach1 (succ : String → List String) : String → String → Prop
  | one {a b} : b ∈ succ a → Reach1 succ a b
  | step {a b c} : Reach1 succ a b → c ∈ succ b → Reach1 succ a c

theorem Reach1.head {succ : String → List String} {a b c : String} (h1 : b ∈ succ a) (h2 : Reach1 succ b c) :
    Reach1 succ a c := by
  induction h2 with
  | one h => exact .step (.one h1) h
  | step _ h ih => exact .step ih h

structure CInv (succ : String → List String) (name : String) (q res : List String) : Prop where
  /-- everything in the result is reachable -/
  sound : ∀ r ∈ res, Reach1 succ name r
  /-- queue elements are the start or results -/
  qsrc : ∀ x ∈ q, x = name ∨ x ∈ res
  /-- processed elements (start or result, not pending) have all successors in the result -/
  closed : ∀ x, (x = name ∨ x ∈ res) → x ∉ q → ∀ y ∈ succ x, y ∈ res
  nodup : res.Nodup

theorem cinv_init (succ : String → List String) (name : String) : CInv succ name [name] [] :=
  ⟨by simp, by simp, by intro x _ hx; simp at hx; rcases ‹x = name ∨ x ∈ []› with h | h <;> simp_all, by simp⟩

theorem cinv_step {succ : String → List String} {name n : String} {q res : List String}
    (h : CInv succ name (n :: q) res) :
    CInv succ name (q ++ dedup ((succ n).filter (fun r => r ∉ res)))
      (res ++ dedup ((succ n).filter (fun r => r ∉ res))) := by
  have hfresh : ∀ y, y ∈ dedup ((succ n).filter (fun r => r ∉ res)) ↔ y ∈ succ n ∧ y ∉ res := by
    intro y; rw [mem_dedup]; simp
  have hn : n = name ∨ n ∈ res := h.qsrc n (by simp)
  have hreach_n : ∀ y ∈ succ n, Reach1 succ name y := by
    intro y hy
    rcases hn with hn | hn
    · subst hn; exact .one hy
    · exact .step (h.sound n hn) hy
  refine ⟨?_, ?_, ?_, ?_⟩
  · intro r hr
    rcases List.mem_append.mp hr with hr | hr
    · exact h.sound r hr
    · exact hreach_n r ((hfresh r).mp hr).1
  · intro x hx
    rcases List.mem_append.mp hx with hx | hx
    · rcases h.qsrc x (by simp [hx]) with h1 | h1
      · exact Or.inl h1
      · exact Or.inr (by simp [h1])
    · exact Or.inr (List.mem_append.mpr (Or.inr hx))
  · intro x hx hxq y hy
    simp only [List.mem_append, not_or] at hxq
    by_cases hxn : x = n
    · subst hxn
      by_cases hyr : y ∈ res
      · simp [hyr]
      · exact List.mem_append.mpr (Or.inr ((hfresh y).mpr ⟨hy, hyr⟩))
    · have hx' : x = name ∨ x ∈ res := by
        rcases hx with hx | hx
        · exact Or.inl hx
        · rcases List.mem_append.mp hx with hx | hx
          · exact Or.inr hx
          · exact absurd hx hxq.2
      have : x ∉ n :: q := by simp [hxn, hxq.1]
      exact List.mem_append.mpr (Or.inl (h.closed x hx' this y hy))
  · rw [List.nodup_append]
    refine ⟨h.nodup, nodup_dedup _, ?_⟩
    intro a ha b hb hab; subst hab
    exact ((hfresh a).mp hb).2 ha

/-- the loop keeps the invariant, and with enough fuel ends with an empty queue -/
theorem closureGo_spec (succ : String → List String) (name : String) (nodes : List String)
    (hnodes : ∀ x y, y ∈ succ x → y ∈ nodes) :
    ∀ (fuel : Nat) (q res : List String), CInv succ name q res →
      q.length + (nodes.length - res.length) < fuel →
      ∃ res', closureGo succ fuel q res = res' ∧ CInv succ name [] res' := by
  intro fuel
  induction fuel with
  | zero => intro q res _ hf; omega
  | succ fuel ih =>
    intro q res hinv hf
    cases q with
    | nil => exact ⟨res, by simp [closureGo], hinv⟩
    | cons n q =>
      simp only [closureGo]
      have hinv' := cinv_step hinv
      apply ih _ _ hinv'
      -- potential decreases by one
      have hsub : ∀ r ∈ res ++ dedup ((succ n).filter (fun r => r ∉ res)), r ∈ nodes := by
        intro r hr
        have := hinv'.sound r hr
        cases this with
        | one h => exact hnodes _ _ h
        | step _ h => exact hnodes _ _ h
      have hle := List.Nodup.length_le_of_subset hinv'.nodup hsub
      simp only [List.length_append, List.length_cons] at hf hle ⊢
      omega

/-- **the closure is reachability** -/
theorem closure_eq_reach (succ : String → List String) (name : String) (nodes : List String)
    (hnodes : ∀ x y, y ∈ succ x → y ∈ nodes) (r : String) :
    r ∈ closureGo succ (nodes.length + 2) [name] [] ↔ Reach1 succ name r := by
  obtain ⟨res', hres, hinv⟩ := closureGo_spec succ name nodes hnodes (nodes.length + 2) [name] []
    (cinv_init succ name) (by simp; omega)
  rw [hres]
  constructor
  · exact hinv.sound r
  · intro hr
    induction hr with
    | one h => exact hinv.closed name (Or.inl rfl) (by simp) _ h
    | step _ h ih => exact hinv.closed _ (Or.inr ih) (by simp) _ h

end Casbin
