import CasbinModel.Enforcer
import CasbinModel.Lemmas.Store
/-! The definitions of a store (names and places) stay what they are under every rule operation; a store without
grouping rules links without an error when every role definition has at least two places. -/
namespace Casbin

/-- the number of places of each role definition, in order -/
def Store.gArities (s : Store) : List Nat := s.g.map (·.arity)

theorem updDef_arities (ds : List PolDef) (pt : String) (f : PolDef → PolDef) (hf : ∀ d, (f d).arity = d.arity) :
    (updDef ds pt f).map (·.arity) = ds.map (·.arity) := by
  induction ds with
  | nil => rfl
  | cons d rest ih =>
    simp only [updDef, List.map_cons] at ih ⊢
    rw [ih]
    by_cases hk : d.key = pt
    · simp only [hk, if_true]; rw [hf d]
    · simp only [hk, if_false]

theorem Store.update_gArities (s : Store) (sec pt : String) (f : PolDef → PolDef) (hf : ∀ d, (f d).arity = d.arity) :
    (s.update sec pt f).gArities = s.gArities := by
  unfold Store.update Store.setSec Store.gArities
  by_cases h1 : sec = "p"
  · simp only [h1, if_true]
  · simp only [h1, if_false]
    by_cases h2 : sec = "g"
    · simp only [h2, if_true]
      unfold Store.sec
      have : ¬ ("g" : String) = "p" := by decide
      simp only [this, if_false, if_true]
      exact updDef_arities _ _ _ hf
    · simp only [h2, if_false]

theorem Store.addPolicy_gArities (s : Store) (sec pt : String) (rule : Rule) :
    (s.addPolicy sec pt rule).1.gArities = s.gArities := by
  unfold Store.addPolicy
  cases s.find sec pt with
  | none => rfl
  | some d => exact Store.update_gArities _ _ _ _ (fun _ => rfl)

theorem Store.removePolicy_gArities (s : Store) (sec pt : String) (rule : Rule) :
    (s.removePolicy sec pt rule).1.gArities = s.gArities := by
  unfold Store.removePolicy
  cases s.find sec pt with
  | none => rfl
  | some d => exact Store.update_gArities _ _ _ _ (fun _ => rfl)

theorem Store.addPolicies_gArities (s : Store) (sec pt : String) (rules : List Rule) :
    (s.addPolicies sec pt rules).1.gArities = s.gArities := by
  unfold Store.addPolicies
  cases s.find sec pt with
  | none => rfl
  | some d =>
    simp only []
    split
    · rfl
    · exact Store.update_gArities _ _ _ _ (fun _ => rfl)

theorem Store.removePolicies_gArities (s : Store) (sec pt : String) (rules : List Rule) :
    (s.removePolicies sec pt rules).1.gArities = s.gArities := by
  unfold Store.removePolicies
  cases s.find sec pt with
  | none => rfl
  | some d =>
    simp only []
    split
    · rfl
    · exact Store.update_gArities _ _ _ _ (fun _ => rfl)

theorem Store.removeFiltered_gArities (s : Store) (sec pt : String) (idx : Nat) (vals : List String) :
    (s.removeFiltered sec pt idx vals).1.gArities = s.gArities := by
  unfold Store.removeFiltered
  split
  · rfl
  · cases s.find sec pt with
    | none => rfl
    | some d =>
      simp only []
      split
      · rfl
      · exact Store.update_gArities _ _ _ _ (fun _ => rfl)

theorem Store.clear_gArities (s : Store) : s.clear.gArities = s.gArities := by
  unfold Store.clear Store.gArities
  simp only [List.map_map]
  rfl

/-- linking a list of role definitions none of which holds a rule cannot fail when each has two places or more -/
theorem buildRoleLinks_go_empty (gs : List PolDef) (rm : RoleMgr String)
    (hp : ∀ d ∈ gs, d.policy = []) (ha : ∀ d ∈ gs, 2 ≤ d.arity) :
    (buildRoleLinks.go rm gs).2 = none := by
  induction gs generalizing rm with
  | nil => rfl
  | cons d rest ih =>
    have hd : buildDef rm d = (rm, none) := by
      unfold buildDef
      have h2 : ¬ d.arity < 2 := by have := ha d (List.mem_cons_self); omega
      rw [if_neg h2, hp d (List.mem_cons_self)]
      rfl
    unfold buildRoleLinks.go
    rw [hd]
    exact ih rm (fun x hx => hp x (List.mem_cons_of_mem _ hx)) (fun x hx => ha x (List.mem_cons_of_mem _ hx))

theorem buildRoleLinks_cleared (e : Enforcer) (ha : ∀ a ∈ e.store.gArities, 2 ≤ a) :
    ({ e with store := e.store.clear } : Enforcer).buildRoleLinks.2 = none := by
  unfold Enforcer.buildRoleLinks Casbin.buildRoleLinks
  simp only []
  apply buildRoleLinks_go_empty
  · intro d hd
    simp only [Store.clear, List.mem_map] at hd
    obtain ⟨d0, _, rfl⟩ := hd
    rfl
  · intro d hd
    simp only [Store.clear, List.mem_map] at hd
    obtain ⟨d0, h0, rfl⟩ := hd
    exact ha d0.arity (by unfold Store.gArities; exact List.mem_map.2 ⟨d0, h0, rfl⟩)

theorem buildRoleLinks_fields (e : Enforcer) :
    e.buildRoleLinks.1.store = e.store ∧ e.buildRoleLinks.1.log = e.log ∧
    e.buildRoleLinks.1.autoSave = e.autoSave ∧ e.buildRoleLinks.1.autoNotify = e.autoNotify ∧
    e.buildRoleLinks.1.callbacks = e.callbacks ∧ e.buildRoleLinks.1.hasWatcher = e.hasWatcher ∧
    e.buildRoleLinks.1.adapter = e.adapter := by
  unfold Enforcer.buildRoleLinks
  exact ⟨rfl, rfl, rfl, rfl, rfl, rfl, rfl⟩

end Casbin
