import CasbinModel.Basic
/-!
# Built-in path matchers  (src/model/function_map.rs:179-361)

Each function is modelled as the crate writes it: *textual rewriting* of the
pattern into a regular expression, then matching.  The `regex` crate is replaced by
a matcher for the small fragment those rewritings produce (`Item`); a rewritten
pattern outside the fragment is reported as `none` ("not modelled").
Strings are `List Char`; byte offsets are computed with `utf8Len`.
-/
namespace Casbin


def utf8Size (c : Char) : Nat :=
  let n := c.toNat
  if n < 0x80 then 1 else if n < 0x800 then 2 else if n < 0x10000 then 3 else 4

def utf8Len (s : Str) : Nat := (s.map utf8Size).sum

/-! ## key_match / key_get  (function_map.rs:179-205) -/

/-- the UTF-8 bytes of a string -/
def utf8Bytes (s : Str) : List Nat := s.flatMap (fun c =>
  let n := c.toNat
  if n < 0x80 then [n]
  else if n < 0x800 then [0xC0 + n / 64, 0x80 + n % 64]
  else if n < 0x10000 then [0xE0 + n / 4096, 0x80 + (n / 64) % 64, 0x80 + n % 64]
  else [0xF0 + n / 262144, 0x80 + (n / 4096) % 64, 0x80 + (n / 64) % 64, 0x80 + n % 64])

/-- text before the first `*` (`key2[..i]` with `i = key2.find('*')`), if there is one -/
def beforeStar (p : Str) : Option Str :=
  if '*' ∈ p then some (p.takeWhile (· ≠ '*')) else none

/-- `key_match` after the byte-comparison fix: `key1.len() > i` ⇒ compare the first
`i` bytes; otherwise compare whole `key1` with the prefix. -/
def keyMatch (k1 k2 : Str) : Bool :=
  match beforeStar k2 with
  | none => k1 == k2
  | some pre =>
    let i := utf8Len pre
    if utf8Len k1 > i then (utf8Bytes k1).take i == utf8Bytes pre
    else k1 == pre

/-- drop a prefix known to be present -/
def keyGet (k1 k2 : Str) : Str :=
  match beforeStar k2 with
  | none => []
  | some pre =>
    let i := utf8Len pre
    if utf8Len k1 > i && (utf8Bytes k1).take i == utf8Bytes pre then k1.drop pre.length else []

/-! ## The regex fragment -/

inductive Item where
  | ch (c : Char)
  | any                          -- `.`
  | dotStar                      -- `.*`
  | seg (cap : Bool) (lzy : Bool)  -- `[^/]+`, `([^/]+)`, `([^/]+?)`
  deriving DecidableEq, Repr

def isMeta (c : Char) : Bool :=
  c = '\\' || c = '.' || c = '+' || c = '*' || c = '?' || c = '(' || c = ')' || c = '|' ||
  c = '[' || c = ']' || c = '{' || c = '}' || c = '^' || c = '$'

/-- parse the body of a rewritten pattern (between `^` and `$`) -/
def toItems : Nat → Str → Option (List Item)
  | 0, _ => none
  | _, [] => some []
  | f + 1, '.' :: '*' :: t => (toItems f t).map (Item.dotStar :: ·)
  | f + 1, '(' :: '[' :: '^' :: '/' :: ']' :: '+' :: '?' :: ')' :: t => (toItems f t).map (Item.seg true true :: ·)
  | f + 1, '(' :: '[' :: '^' :: '/' :: ']' :: '+' :: ')' :: t => (toItems f t).map (Item.seg true false :: ·)
  | f + 1, '[' :: '^' :: '/' :: ']' :: '+' :: t =>
    (match t with
     | c :: _ => if c = '?' || c = '*' || c = '+' || c = '{' then none else (toItems f t).map (Item.seg false false :: ·)
     | [] => some [Item.seg false false])
  | f + 1, '\\' :: '{' :: t => (toItems f t).map (Item.ch '{' :: ·)
  | f + 1, '.' :: t =>
    (match t with
     | c :: _ => if c = '?' || c = '+' || c = '{' then none else (toItems f t).map (Item.any :: ·)
     | [] => some [Item.any])
  | f + 1, c :: t =>
    if isMeta c then none else
    (match t with
     | d :: _ => if d = '?' || d = '*' || d = '+' || d = '{' then none else (toItems f t).map (Item.ch c :: ·)
     | [] => some [Item.ch c])

/-- all ways to split `s` into a prefix whose characters satisfy `p` and the rest,
shortest prefix first -/
def splits (p : Char → Bool) : Str → List (Str × Str)
  | [] => [([], [])]
  | c :: cs =>
    ([], c :: cs) :: (if p c then (splits p cs).map (fun (a, b) => (c :: a, b)) else [])

def firstSome {α β : Type} (xs : List α) (f : α → Option β) : Option β :=
  match xs with
  | [] => none
  | x :: rest => match f x with
    | some b => some b
    | none => firstSome rest f

/-- anchored backtracking match in leftmost-first priority order; returns the captures -/
def matchItems : List Item → Str → Option (List Str)
  | [], s => if s.isEmpty then some [] else none
  | .ch c :: is, s =>
    (match s with
     | x :: rest => if x = c then matchItems is rest else none
     | [] => none)
  | .any :: is, s =>
    (match s with
     | x :: rest => if x ≠ '\n' then matchItems is rest else none
     | [] => none)
  | .dotStar :: is, s =>
    firstSome (splits (· ≠ '\n') s).reverse (fun pr => matchItems is pr.2)
  | .seg cap lzy :: is, s =>
    let cands := (splits (· ≠ '/') s).filter (fun pr => !pr.1.isEmpty)
    let cands := if lzy then cands else cands.reverse
    firstSome cands (fun pr => (matchItems is pr.2).map (fun caps => if cap then pr.1 :: caps else caps))

/-! ## Pattern rewriting -/

/-- `key2.replace("/*", "/.*")` -/
def replSlashStar : Str → Str
  | '/' :: '*' :: t => '/' :: '.' :: '*' :: replSlashStar t
  | c :: t => c :: replSlashStar t
  | [] => []

def segRe : Str := "[^/]+".toList
def capRe : Str := "([^/]+)".toList
def capLazyRe : Str := "([^/]+?)".toList

/-- `MAT_B = :[^/]*` replace_all with `repl`; `minName` = 0 for key_match2, 1 for key_get2
(`:[^/]+`).  Also returns the names found (without the colon). -/
def rewriteColon (repl : Str) (minName : Nat) : Nat → Str → Str × List Str
  | 0, s => (s, [])
  | f + 1, ':' :: t =>
    let name := t.takeWhile (· ≠ '/')
    if name.length ≥ minName then
      let r := rewriteColon repl minName f (t.dropWhile (· ≠ '/'))
      (repl ++ r.1, name :: r.2)
    else
      let r := rewriteColon repl minName f t
      (':' :: r.1, r.2)
  | f + 1, c :: t => let r := rewriteColon repl minName f t; (c :: r.1, r.2)
  | _, [] => ([], [])

/-- index of the last element satisfying `p` -/
def lastIdx (p : Char → Bool) (s : Str) : Option Nat :=
  let idxs := (s.zipIdx.filter (fun (c, _) => p c)).map (·.2)
  idxs.getLast?

/-- `MAT_P = \{[^/]*\}` (greedy: up to the *last* `}` of the segment) replace_all -/
def rewriteBraceGreedy (repl : Str) : Nat → Str → Str
  | 0, s => s
  | f + 1, '{' :: t =>
    let sg := t.takeWhile (· ≠ '/')
    (match lastIdx (· = '}') sg with
     | some k => repl ++ rewriteBraceGreedy repl f (t.drop (k + 1))
     | none => '{' :: rewriteBraceGreedy repl f t)
  | f + 1, c :: t => c :: rewriteBraceGreedy repl f t
  | _, [] => []

/-- `\{[^/]+?\}` (lazy: at least one character, then the *first* `}`) replace_all;
returns the names too -/
def rewriteBraceLazy (repl : Str) : Nat → Str → Str × List Str
  | 0, s => (s, [])
  | f + 1, '{' :: t =>
    let sg := t.takeWhile (· ≠ '/')
    -- first `}` at index ≥ 1
    (match ((sg.zipIdx.filter (fun (c, i) => c = '}' && i ≥ 1)).map (·.2)).head? with
     | some k =>
       let r := rewriteBraceLazy repl f (t.drop (k + 1))
       (repl ++ r.1, t.take k :: r.2)
     | none => let r := rewriteBraceLazy repl f t; ('{' :: r.1, r.2))
  | f + 1, c :: t => let r := rewriteBraceLazy repl f t; (c :: r.1, r.2)
  | _, [] => ([], [])

/-- `Regex::new(r"\{").replace_all(.., "\\{")` in key_get3 -/
def escapeBrace : Str → Str
  | '{' :: t => '\\' :: '{' :: escapeBrace t
  | c :: t => c :: escapeBrace t
  | [] => []

def compileRe (body : Str) : Option (List Item) := toItems (body.length + 1) body

/-- `regex_match(key1, "^body$")` on the fragment; `none` = outside the fragment -/
def reMatch (k : Str) (body : Str) : Option Bool :=
  (compileRe body).map (fun items => (matchItems items k).isSome)

/-- function_map.rs:209-219 -/
def keyMatch2 (k1 k2 : Str) : Option Bool :=
  let p := replSlashStar k2
  reMatch k1 (rewriteColon segRe 0 (p.length + 1) p).1

/-- function_map.rs:224-248 -/
def keyGet2 (k1 k2 pathVar : Str) : Option Str :=
  let p := replSlashStar k2
  let r := rewriteColon capRe 1 (p.length + 1) p
  match compileRe r.1 with
  | none => none
  | some items =>
    match matchItems items k1 with
    | none => some []
    | some caps =>
      -- first name equal to path_var; caps.get(i+1)
      (match (r.2.zipIdx.filter (fun (n, _) => n == pathVar)).head? with
       | some (_, i) => some (caps.getD i [])
       | none => some [])

/-- function_map.rs:252-262 -/
def keyMatch3 (k1 k2 : Str) : Option Bool :=
  let p := replSlashStar k2
  reMatch k1 (rewriteBraceGreedy segRe (p.length + 1) p)

/-- function_map.rs:267-294 -/
def keyGet3 (k1 k2 pathVar : Str) : Option Str :=
  let p := replSlashStar k2
  let r := rewriteBraceLazy capLazyRe (p.length + 1) p
  match compileRe (escapeBrace r.1) with
  | none => none
  | some items =>
    match matchItems items k1 with
    | none => some []
    | some caps =>
      (match (r.2.zipIdx.filter (fun (n, _) => n == pathVar)).head? with
       | some (_, i) => some (caps.getD i [])
       | none => some [])

/-- equal names must have captured equal text (function_map.rs:325-336) -/
def consistent : List (Str × Str) → Bool
  | [] => true
  | (n, v) :: rest => rest.all (fun (n', v') => n' ≠ n || v' == v) && consistent rest

/-- function_map.rs:302-341 -/
def keyMatch4 (k1 k2 : Str) : Option Bool :=
  let p := replSlashStar k2
  let r := rewriteBraceLazy capRe (p.length + 1) p
  match compileRe r.1 with
  | none => none
  | some items =>
    match matchItems items k1 with
    | none => some false
    | some caps => some (consistent (r.2.zip caps))

/-- function_map.rs:348-361: the key is cut at the first `?` -/
def keyMatch5 (k1 k2 : Str) : Option Bool :=
  let k := k1.takeWhile (· ≠ '?')
  let p := replSlashStar k2
  reMatch k (rewriteBraceLazy segRe (p.length + 1) p).1

/-- function_map.rs:364-366 on patterns of the fragment written as `^…$` or bare
(unanchored patterns are outside the fragment) -/
def regexMatchAnchored (k pat : Str) : Option Bool :=
  match pat with
  | [] => some true        -- the empty regex matches every key (empty-policy evaluation)
  | '^' :: rest =>
    if rest.getLast? = some '$' then reMatch k rest.dropLast else none
  | _ => none

end Casbin
