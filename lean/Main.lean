import CasbinModel.Basic
import CasbinModel.Proto
import CasbinModel.Effect
import CasbinModel.RoleGraph
import CasbinModel.PatRoles
import CasbinModel.Rbac
import CasbinModel.KeyMatch
import CasbinModel.Sexpr
import CasbinModel.Fs
import CasbinModel.Cached
import CasbinModel.Config
import CasbinModel.Conc
/-!
# Line-protocol driver: runs the executable model on the harness' op stream.
One op per input line, one canonical answer per output line.
-/
open Casbin Casbin.Proto

/-- model definition being assembled by `m.*` ops -/
structure Spec where
  r : List (String × Nat) := []
  p : List PolDef := []
  g : List PolDef := []
  e : List (String × String) := []
  m : List (String × Option Expr) := []
  tbl : List (String × Option Expr) := []

/-- default_model.rs:62-79 `load_section`: keys `x`, `x2`, `x3`, … are loaded until the first gap -/
def contigKeys (sec : String) (have_ : String → Bool) : Nat → Nat → List String
  | 0, _ => []
  | fuel + 1, i =>
    let k := if i = 1 then sec else sec ++ toString i
    if have_ k then k :: contigKeys sec have_ fuel (i + 1) else []

def contig {α : Type} (sec : String) (xs : List (String × α)) : List (String × α) :=
  (contigKeys sec (fun k => (xs.lookup k).isSome) (xs.length + 1) 1).filterMap (fun k => (xs.lookup k).map (fun v => (k, v)))

def contigDefs (sec : String) (xs : List PolDef) : List PolDef :=
  (contigKeys sec (fun k => xs.any (·.key == k)) (xs.length + 1) 1).filterMap (fun k => xs.find? (·.key == k))

def Spec.defs (s : Spec) : Defs := { r := contig "r" s.r, e := contig "e" s.e, m := contig "m" s.m }
def Spec.store (s : Spec) : Store := { p := contigDefs "p" s.p, g := contigDefs "g" s.g }

def dummyEnforcer : Enforcer :=
  { defs := ⟨[], [], []⟩, store := ⟨[], []⟩, adapter := AdapterSt.mk0 .null, rm := RoleMgr.new 10,
    enabled := true, autoSave := true, autoBuild := true, autoNotify := true, callbacks := 1,
    hasWatcher := false, gfuncs := [], userFns := [], log := [] }

/-- the matching functions the harness may install on a role manager, by name (`-` = none) -/
def matchFnOf (n : String) : RoleFn String :=
  match n with
  | "keyMatch" => some (fun a b => keyMatch a.toList b.toList)
  | "keyMatch2" => some (fun a b => (keyMatch2 a.toList b.toList).getD false)
  | _ => none

structure DrvState where
  rm : RoleMgr String := RoleMgr.new 10
  /-- the role manager with matching functions (`prm.*` ops) and the names of the functions installed -/
  prm : PRm String := PRm.new 10
  prf : String := "-"
  pdf : String := "-"
  spec : Spec := {}
  enf : Enforcer := dummyEnforcer
  /-- eval table in force for `enf` -/
  tbl : List (String × Option Expr) := []
  /-- CachedEnforcer mode: `some cache` -/
  cache : Option (List (CacheKey × Bool)) := none
  /-- what `e.new` builds next -/
  wantCached : Bool := false
  /-- a role-manager handle kept by the caller (`e.keeprm`): `some none` = it is still the enforcer's
  current manager (an alias), `some (some rm)` = detached, with the content it had when replaced -/
  keptRm : Option (Option (RoleMgr String)) := none

def domOf (s : String) : String := if s == "-" then "DEFAULT" else unesc s

/-! ### C03 -/
def rmSnapBits (rm : RoleMgr String) (names : List String) (doms : List String) (mask : List Char) : String :=
  let qs := doms.flatMap (fun d => names.flatMap (fun a => names.map (fun b => (a, b, d))))
  let rec go (qs : List (String × String × String)) (mask : List Char) (acc : String) : String :=
    match qs with
    | [] => acc
    | (a, b, d) :: rest =>
      let (m, mrest) := match mask with | [] => ('.', []) | c :: cs => (c, cs)
      let ch := if m == '?' then '?' else if rm.hasLink a b d then '1' else '0'
      go rest mrest (acc.push ch)
  go qs mask ""

def rmSnap (rm : RoleMgr String) (names : List String) (doms : List String) (mask : List Char) : String :=
  let bits := rmSnapBits rm names doms mask
  let lists := doms.flatMap (fun d => names.map (fun a =>
    " R:" ++ encList (sortStrings (rm.getRoles a d)) ++ " U:" ++ encList (sortStrings (rm.getUsers a d))))
  "H:" ++ bits ++ String.join lists

/-! ### C02 -/
/-- lock programs on the wire: `aR1` acquire read lock 1, `rW0` release write lock 0, `t` local step; comma-separated -/
def concAct (s : String) : Option Conc.Act :=
  match s.toList with
  | ['t'] => some .tau
  | c :: m :: ds =>
    let mode : Option Conc.Mode := if m == 'R' then some .R else if m == 'W' then some .W else none
    match mode, (String.ofList ds).toNat? with
    | some md, some l => if c == 'a' then some (.acq md l) else if c == 'r' then some (.rel md l) else none
    | _, _ => none
  | _ => none
def concProg (s : String) : Option (List Conc.Act) :=
  if s == "-" || s == "" then some [] else (s.splitOn ",").mapM concAct

def effOfChar : Char → Eff
  | 'a' => .allow | 'i' => .indet | _ => .deny

def exprOfIdx : Nat → EffExpr
  | 0 => .allowOverride | 1 => .denyOverride | 2 => .allowAndDeny | _ => .priority

def effRun (s0 : Option Stream) (seq : List Char) : String :=
  match s0 with
  | none => "panic"
  | some s0 =>
    let rec go (s : Stream) (cs : List Char) (acc : String) : String :=
      match cs with
      | [] => acc
      | c :: cs =>
        let (s', flag) := s.push (effOfChar c)
        let acc := acc.push (if flag then '1' else '0')
        let acc := acc.push (match s'.next with
          | some true => if flag then 't' else 'T'
          | some false => if flag then 'f' else 'F'
          | none => '-')
        go s' cs acc
    go s0 seq ""

/-! ### enforcer -/

/-- built-in functions of `FunctionMap::default()` on the modelled fragment -/
def builtinCall (userFns : List String) (f : String) (args : List String) : Option Atom :=
  let b (o : Option Bool) : Option Atom := o.map Atom.bool
  let s (o : Option Str) : Option Atom := o.map (fun x => Atom.str (String.ofList x))
  match f, args with
  | "keyMatch", [a, c] => some (.bool (keyMatch a.toList c.toList))
  | "keyGet", [a, c] => some (.str (String.ofList (keyGet a.toList c.toList)))
  | "keyMatch2", [a, c] => b (keyMatch2 a.toList c.toList)
  | "keyGet2", [a, c, d] => s (keyGet2 a.toList c.toList d.toList)
  | "keyMatch3", [a, c] => b (keyMatch3 a.toList c.toList)
  | "keyGet3", [a, c, d] => s (keyGet3 a.toList c.toList d.toList)
  | "keyMatch4", [a, c] => b (keyMatch4 a.toList c.toList)
  | "keyMatch5", [a, c] => b (keyMatch5 a.toList c.toList)
  | "regexMatch", [a, c] => b (regexMatchAnchored a.toList c.toList)
  | "eqFn", [a, c] =>
    -- the latest registration under the name decides (`name=impl`)
    (match userFns.find? (fun u => u.startsWith "eqFn=") with
     | some "eqFn=eq" => some (.bool (a == c))
     | some "eqFn=ne" => some (.bool (a != c))
     | some "eqFn=true" => some (.bool true)
     | _ => none)
  | _, _ => none

def tblFn (tbl : List (String × Option Expr)) (text : String) : Option Expr :=
  (tbl.lookup text).getD none

def resS : Res → String
  | .unit => "ok"
  | .bool b => boolS b
  | .rules b _ => boolS b
  | .err k => "err:" ++ k.toString
  | .panic => "panic"

def outS : Out ErrKind Bool → String
  | .ok b => boolS b
  | .err k => "err:" ++ k.toString
  | .panic => "panic"

def optD (s : String) : Option String := if s == "-" then none else some (unesc s)

def akindOf : String → AKind
  | "memory" => .memory | "file" => .file | "string" => .string | _ => .null

def faultOf (s : String) : Fault :=
  if s == "err" then .err else if s == "refuse" then .refuse
  else if s.startsWith "fail" then .failAfter (String.ofList (s.toList.drop 4)).toNat! else .pass

/-- adapter initial content: memory = lines `[sec, ptype, fields…]`; file/string = text -/
def mkAdapter (kind : String) (content : String) (text : String) : AdapterSt :=
  let k := akindOf kind
  { kind := k, lines := if k = .memory then (decLists content).foldl (fun acc l => (OrdSet.add acc l).1) [] else [],
    text := if k = .file || k = .string then (unesc text).toList else [], filtered := false, plan := [] }

def enfReq (st : DrvState) (vals : List String) : Out ErrKind Bool :=
  st.enf.enforce (builtinCall st.enf.userFns) (tblFn st.tbl) (vals.map Sexpr.parseVal)

def enfReqCtx (st : DrvState) (suffix : String) (vals : List String) : Out ErrKind Bool :=
  st.enf.enforceCtx suffix (builtinCall st.enf.userFns) (tblFn st.tbl) (vals.map Sexpr.parseVal)

/-- one request through the cache (if in cached mode) -/
def enfCached (st : DrvState) (ctx : Option String) (vals : List String) : DrvState × Out ErrKind Bool :=
  let compute := fun (_ : Unit) => match ctx with
    | none => enfReq st vals
    | some k => enfReqCtx st k vals
  match st.cache with
  | none => (st, compute ())
  | some cache =>
    let c : Cached := { inner := st.enf, cache := cache }
    let key : CacheKey := (vals.map Sexpr.parseVal, match ctx with
      | none => ""
      | some k => "ctx:r" ++ k ++ "-p" ++ k ++ "-e" ++ k ++ "-m" ++ k)
    let r := c.enforceWith key (fun _ => compute ())
    ({ st with cache := some r.1.cache }, r.2)

def enfKeysCached (st : DrvState) (k : CtxKeys) (vals : List String) : DrvState × Out ErrKind Bool :=
  let compute := fun (_ : Unit) => st.enf.enforceKeys k (builtinCall st.enf.userFns) (tblFn st.tbl) (vals.map Sexpr.parseVal)
  match st.cache with
  | none => (st, compute ())
  | some cache =>
    let c : Cached := { inner := st.enf, cache := cache }
    let key : CacheKey := (vals.map Sexpr.parseVal, "ctx:" ++ k.r ++ "-" ++ k.p ++ "-" ++ k.e ++ "-" ++ k.m)
    let r := c.enforceWith key (fun _ => compute ())
    ({ st with cache := some r.1.cache }, r.2)

def enfCachedMany (st : DrvState) (ctx : Option String) (reqs : List (List String)) : DrvState × String :=
  let r := reqs.foldl (fun (acc : DrvState × List Char) rq =>
    let x := enfCached acc.1 ctx rq
    (x.1, acc.2 ++ [match x.2 with | .ok true => 't' | .ok false => 'f' | .err _ => 'e' | .panic => 'p'])) (st, [])
  (r.1, String.ofList r.2)

def outC : Out ErrKind Bool → Char
  | .ok true => 't' | .ok false => 'f' | .err _ => 'e' | .panic => 'p'

def eventS : Event → String
  | .addPolicy s p r => "add|" ++ s ++ "|" ++ p ++ "|" ++ encList r
  | .addPolicies s p rs => "addm|" ++ s ++ "|" ++ p ++ "|" ++ encLists rs
  | .removePolicy s p r => "rm|" ++ s ++ "|" ++ p ++ "|" ++ encList r
  | .removePolicies s p rs => "rmm|" ++ s ++ "|" ++ p ++ "|" ++ encLists rs
  | .removeFiltered s p rs => "rmf|" ++ s ++ "|" ++ p ++ "|" ++ encLists rs
  | .savePolicy rs => "save|" ++ encLists rs
  | .clearPolicy => "clear"

def upd (st : DrvState) (r : Enforcer × Res) : DrvState × String := ({ st with enf := r.1 }, resS r.2)

def sortRules (rs : List Rule) : List Rule :=
  let keyed := rs.map (fun r => (encList r, r))
  let sorted := sortStrings (keyed.map (·.1))
  sorted.filterMap (fun k => keyed.lookup k)

def stepEnf (st : DrvState) (f : List String) : Option (DrvState × String) :=
  let e := st.enf
  match f with
  | ["m.reset"] => some ({ st with spec := {} }, "ok")
  | ["m.r", k, toks] => some ({ st with spec := { st.spec with r := st.spec.r ++ [(k, (decList toks).length)] } }, "ok")
  | ["m.p", k, toks] =>
    some ({ st with spec := { st.spec with p := st.spec.p ++ [{ key := k, tokens := (decList toks).map (fun t => k ++ "_" ++ t), arity := 0, policy := [] }] } }, "ok")
  | ["m.g", k, n] =>
    some ({ st with spec := { st.spec with g := st.spec.g ++ [{ key := k, tokens := [], arity := n.toNat!, policy := [] }] } }, "ok")
  | ["m.e", k, text] => some ({ st with spec := { st.spec with e := st.spec.e ++ [(k, escapeAssertion (unesc text))] } }, "ok")
  | ["m.m", k, sx, _] => some ({ st with spec := { st.spec with m := st.spec.m ++ [(k, Sexpr.parseExpr sx)] } }, "ok")
  | ["m.tbl", text, sx] => some ({ st with spec := { st.spec with tbl := st.spec.tbl ++ [(unesc text, Sexpr.parseExpr sx)] } }, "ok")
  | ["e.new", kind, content, text, watcher] =>
    (match Enforcer.new st.spec.defs st.spec.store (mkAdapter kind content text) with
     | none => some (st, "err:model")
     | some (e, r) => some ({ st with enf := { e with hasWatcher := watcher == "w" }, tbl := st.spec.tbl,
                                      cache := if st.wantCached then some [] else none, keptRm := none }, resS r))
  | ["e.newfilt", kind, content, text, fp, fg] =>
    -- the adapter has served an adapter-level filtered load into the model handed to the constructor
    let a := mkAdapter kind content text
    (match a.loadFiltered st.spec.store.clear (decList fp) (decList fg) with
     | (_, _, none) => some (st, "err")
     | (a', s', some ()) =>
       match Enforcer.newPrefilled st.spec.defs s' a' with
       | none => some (st, "err:model")
       | some (e, r) => some ({ st with enf := e, tbl := st.spec.tbl, cache := if st.wantCached then some [] else none, keptRm := none }, resS r))
  | ["e.newpre", kind, content, text, _, _] =>
    -- a model filled beforehand is loaded afresh by the constructor: same as `e.new`
    (match Enforcer.new st.spec.defs st.spec.store (mkAdapter kind content text) with
     | none => some (st, "err:model")
     | some (e, r) => some ({ st with enf := e, tbl := st.spec.tbl, cache := if st.wantCached then some [] else none, keptRm := none }, resS r))
  | ["e.add", sec, pt, rule] => some (upd st (e.addPolicy sec pt (decList rule)))
  | ["e.addm", sec, pt, rules] => some (upd st (e.addPolicies sec pt (decLists rules)))
  | ["e.rm", sec, pt, rule] => some (upd st (e.removePolicy sec pt (decList rule)))
  | ["e.rmm", sec, pt, rules] => some (upd st (e.removePolicies sec pt (decLists rules)))
  | ["e.rmf", sec, pt, idx, vals] => some (upd st (e.removeFiltered sec pt idx.toNat! (decList vals)))
  | ["e.deluser", n] => some (upd st (e.deleteUser (unesc n)))
  | ["e.delrole", n] => some (upd st (e.deleteRole (unesc n)))
  | ["e.delperm", perm] => some (upd st (e.deletePermission (decList perm)))
  | ["e.clear"] => some (upd st e.clearPolicy)
  | ["e.load"] => some (upd st e.loadPolicy)
  | ["e.loadc"] => let r := e.loadPolicy; some ({ st with enf := r.1 }, match r.2 with | .err _ => "err" | x => resS x)
  | ["e.loadf", fp, fg] => some (upd st (e.loadFilteredPolicy (decList fp) (decList fg)))
  | ["e.loadfc", fp, fg] =>
    let r := upd st (e.loadFilteredPolicy (decList fp) (decList fg))
    some (r.1, if r.2.startsWith "err" then "err" else r.2)
  | ["e.save"] => some (upd st e.savePolicy)
  | ["e.build"] => let r := e.buildRoleLinks; some ({ st with enf := r.1 }, match r.2 with | none => "ok" | some k => "err:" ++ k.toString)
  | ["e.keeprm"] => some ({ st with keptRm := some none }, "ok")
  | ["e.setrm"] =>
    -- a kept alias is detached with the content it has now
    let st := match st.keptRm with | some none => { st with keptRm := some (some e.rm) } | _ => st
    some (upd st e.setRoleManager)
  | ["e.setrm", "kept"] =>
    (match st.keptRm with
     | none => some (st, "no-kept")
     | some none => some (upd st (e.setRoleManagerWith e.rm))
     | some (some r) => some (upd { st with keptRm := some none } (e.setRoleManagerWith r)))
  | ["e.rmh", "add", a, b, d] =>
    -- the caller edits the role manager through the kept handle
    (match st.keptRm with
     | none => some (st, "no-kept")
     | some none => some ({ st with enf := { e with rm := e.rm.addLink (unesc a) (unesc b) (domOf d) } }, "ok")
     | some (some r) => some ({ st with keptRm := some (some (r.addLink (unesc a) (unesc b) (domOf d))) }, "ok"))
  | ["e.rmh", "clear"] =>
    (match st.keptRm with
     | none => some (st, "no-kept")
     | some none => some ({ st with enf := { e with rm := e.rm.clear } }, "ok")
     | some (some r) => some ({ st with keptRm := some (some r.clear) }, "ok"))
  | ["e.setmodel"] =>
    let r := e.setModel st.spec.defs st.spec.store
    some ({ st with enf := r.1, tbl := st.spec.tbl }, resS r.2)
  | ["e.setadapter", kind, content, text] => some (upd st (e.setAdapter (mkAdapter kind content text)))
  | ["e.setadapter", kind, content, text, plan] =>
    let a := mkAdapter kind content text
    some (upd st (e.setAdapter { a with plan := if plan == "-" then [] else (plan.splitOn ",").map faultOf }))
  | ["fs.unlink"] =>
    -- the policy file disappears: the file adapter's next load fails with an I/O error
    some ({ st with enf := { e with adapter := { e.adapter with plan := [.err] } } }, "ok")
  | ["fs.crash", old, new, k] =>
    -- FileAdapter save under a write budget of k bytes: model of Fs.lean
    let render (rs : List (List String)) : Bytes :=
      (rs.flatMap (fun r => utf8Bytes (renderLine [','] "p".toList (r.map String.toList) ++ ['\n'])))
    let oldB := render (decLists old); let newB := render (decLists new)
    let fs : Fs := ⟨[("policy.csv", oldB)]⟩
    let final := (saveAtomicStates fs "policy.csv" newB k.toNat!).getLast?.bind (·.read "policy.csv")
    some (st, if final == some oldB then "old" else if final == some newB then "new" else "corrupt")
  | ["e.fault", plan] =>
    some ({ st with enf := { e with adapter := { e.adapter with plan := if plan == "-" then [] else (plan.splitOn ",").map faultOf } } }, "ok")
  | ["e.auto", what, b] =>
    let v := b == "true"
    (match what with
     | "save" => some ({ st with enf := { e with autoSave := v } }, "ok")
     | "build" => some ({ st with enf := { e with autoBuild := v } }, "ok")
     | "notify" => some ({ st with enf := e.enableAutoNotify v }, "ok")
     | "enforce" => some ({ st with enf := { e with enabled := v } }, "ok")
     | _ => none)
  | ["e.addfn", n] => some ({ st with enf := { e with userFns := (unesc n ++ "=eq") :: e.userFns } }, "ok")
  | ["e.addfn", n, impl] => some ({ st with enf := { e with userFns := (unesc n ++ "=" ++ impl) :: e.userFns } }, "ok")
  | ["e.seteft"] => some (st, "ok")
  | "e.enf" :: vals => let r := enfCached st none vals; some (r.1, outS r.2)
  | "e.enfc" :: suffix :: vals => let r := enfCached st (some (unesc suffix)) vals; some (r.1, outS r.2)
  | ["e.enfs", reqs] =>
    -- many requests in one line: `;`-separated, values `,`-separated (already escaped)
    some (enfCachedMany st none ((reqs.splitOn ";").map (fun r => if r == "|" then [] else r.splitOn ",")))
  | ["e.enfcs", suffix, reqs] =>
    some (enfCachedMany st (some (unesc suffix)) ((reqs.splitOn ";").map (fun r => if r == "|" then [] else r.splitOn ",")))
  | ["e.enfx", rk, pk, ek, mk, reqs] =>
    let k : CtxKeys := ⟨rk, pk, ek, mk⟩
    let r := (reqs.splitOn ";").foldl (fun (acc : DrvState × List Char) rq =>
      let x := enfKeysCached acc.1 k (if rq == "|" then [] else rq.splitOn ",")
      (x.1, acc.2 ++ [outC x.2])) (st, [])
    some (r.1, String.ofList r.2)
  | ["e.cached", b] => some ({ st with wantCached := b == "true" }, "ok")
  | ["e.pol"] => some (st, encLists (e.store.allOf "p") ++ " " ++ encLists (e.store.allOf "g"))
  | ["e.get", sec, pt] => some (st, encLists (e.store.getPolicy sec pt))
  | ["e.has", sec, pt, rule] => some (st, boolS (e.store.hasPolicy sec pt (decList rule)))
  | ["e.getf", sec, pt, idx, vals] => some (st, encLists (e.store.getFiltered sec pt idx.toNat! (decList vals)))
  | ["e.vals", sec, pt, idx] =>
    some (st, match e.store.valuesForField sec pt idx.toNat! with | some v => encList v | none => "panic")
  | ["e.roles", n, d] => some (st, encList (sortStrings (e.getRolesForUser (unesc n) (optD d))))
  | ["e.users", n, d] => some (st, encList (sortStrings (e.getUsersForRole (unesc n) (optD d))))
  | ["e.hasrole", n, r, d] => some (st, boolS (e.hasRoleForUser (unesc n) (unesc r) (optD d)))
  | ["e.iroles", n, d] => some (st, encList (sortStrings (e.getImplicitRoles (unesc n) (optD d))))
  | ["e.perms", n, d] => some (st, encLists (e.getPermissionsForUser (unesc n) (optD d)))
  | ["e.iperms", n, d] => some (st, encLists (sortRules (e.getImplicitPermissions (unesc n) (optD d))))
  | ["e.reload"] =>
    let s := loadRecords e.store.clear e.adapter.records
    some (st, encLists (s.allOf "p") ++ " " ++ encLists (s.allOf "g"))
  | ["e.iusers", perm] =>
    some (st, encList (sortStrings (e.getImplicitUsersForPermission (builtinCall e.userFns) (tblFn st.tbl) (decList perm))))
  | ["e.filtered"] => some (st, boolS e.adapter.filtered)
  | ["e.events"] => some ({ st with enf := { e with log := [] } }, if e.log.isEmpty then "-" else " ".intercalate (e.log.map eventS))
  | ["e.adapter"] =>
    some (st, match e.adapter.kind with
      | .memory => encLists e.adapter.lines
      | .null => "-"
      | _ => esc (String.ofList e.adapter.text))
  | _ => none

/-- cached_enforcer.rs: which forwarded calls clear the decision cache -/
def cachePolicy (f : List String) (out : String) : Bool :=
  match f.head? with
  | some op =>
    if op ∈ ["e.clear", "e.load", "e.loadf", "e.loadfc", "e.loadc", "e.setmodel", "e.setadapter", "e.setrm", "e.build", "e.seteft", "e.addfn"] then true
    else if op == "e.auto" then f[1]? == some "enforce"
    else if op ∈ ["e.add", "e.addm", "e.rm", "e.rmm", "e.rmf", "e.deluser", "e.delrole", "e.delperm"] then out == "true"
    else false
  | none => false

def step (st : DrvState) (f : List String) : DrvState × String :=
  match stepEnf st f with
  | some r =>
    -- a management call clears the cache iff the store changed — also when the call then fails (link update)
    let mgmtOp := match f.head? with
      | some op => op ∈ ["e.add", "e.addm", "e.rm", "e.rmm", "e.rmf", "e.deluser", "e.delrole", "e.delperm"]
      | none => false
    let storeChanged := mgmtOp && decide (r.1.enf.store ≠ st.enf.store)
    if r.1.cache.isSome && (cachePolicy f r.2 || storeChanged) then ({ r.1 with cache := some [] }, r.2) else r
  | none =>
  match f with
  | ["eff.run", x, cap, seq] =>
    (st, effRun (Stream.new (exprOfIdx x.toNat!) cap.toNat!) seq.toList)
  | ["eff.raw", expr, cap, seq] =>
    (st, match EffExpr.ofString (unesc expr) with
         | none => "panic"
         | some e => effRun (Stream.new e cap.toNat!) seq.toList)
  | ["conc.disc", nL, prog] =>
    (st, match concProg prog with
      | none => "bad-op"
      | some p => if Conc.disc nL.toNat! [] p then "disciplined" else "undisciplined")
  | ["conc.explore", pol, progs] =>
    (st, match (progs.splitOn ";").mapM concProg with
      | none => "bad-op"
      | some ps =>
        let pl : Conc.Policy := if pol == "fair" then Conc.fairPol else Conc.eagerPol
        match Conc.explore pl 400000 [Conc.initState ps] 0 with
        | (some _, _) => "deadlock"
        | (none, n) => if n ≥ 1000000000 then "fuel" else "no-deadlock")
  | ["cfg.parse", text] =>
    (st, match modelFromText (unesc text).toList with
      | none => "err"
      | some secs =>
        ";".intercalate (secs.flatMap (fun (sc, defs) => defs.map (fun d =>
          String.singleton sc ++ "." ++ esc (String.ofList d.key) ++ "=" ++ esc (String.ofList d.value) ++ "{" ++ encList (d.tokens.map String.ofList) ++ "}"))))
  | ["csv.parse", line] =>
    -- observed through StringAdapter::load_policy of the text "p, <line>" on a model that defines `p`
    (st, match (("p, " ++ unesc line).toList |> splitLines).head? with
      | none => "none"
      | some first =>
        match parseCsvLine first with
        | some (key :: rest) => if key == ['p'] then encList ("p" :: rest.map String.ofList) else "none"
        | _ => "none")
  | ["re", body, key] =>
    (st, match compileRe (unesc body).toList with
      | none => "invalid"
      | some items => match matchItems items (unesc key).toList with
        | none => "none"
        | some caps => "match:" ++ encList (caps.map String.ofList))
  | "km" :: fname :: k :: pat :: rest =>
    let v := match rest with | [x] => unesc x | _ => ""
    let ob (o : Option Bool) : String := match o with | some b => boolS b | none => "unmodelled"
    let os (o : Option Str) : String := match o with | some x => "s:" ++ esc (String.ofList x) | none => "unmodelled"
    let k := (unesc k).toList; let pat := (unesc pat).toList
    (st, match fname with
      | "keyMatch" => boolS (keyMatch k pat)
      | "keyGet" => "s:" ++ esc (String.ofList (keyGet k pat))
      | "keyMatch2" => ob (keyMatch2 k pat)
      | "keyGet2" => os (keyGet2 k pat v.toList)
      | "keyMatch3" => ob (keyMatch3 k pat)
      | "keyGet3" => os (keyGet3 k pat v.toList)
      | "keyMatch4" => ob (keyMatch4 k pat)
      | "keyMatch5" => ob (keyMatch5 k pat)
      | "regexMatch" => ob (regexMatchAnchored k pat)
      | _ => "bad-fn")
  | ["rm.new", n] => ({ st with rm := RoleMgr.new n.toNat! }, "ok")
  | ["rm.add", a, b, d] => ({ st with rm := st.rm.addLink (unesc a) (unesc b) (domOf d) }, "ok")
  | ["rm.del", a, b, d] =>
    (match st.rm.deleteLink (unesc a) (unesc b) (domOf d) with
     | some rm' => ({ st with rm := rm' }, "ok")
     | none => (st, "err:rbac"))
  | ["rm.clear"] => ({ st with rm := st.rm.clear }, "ok")
  | ["rm.has", a, b, d] => (st, boolS (st.rm.hasLink (unesc a) (unesc b) (domOf d)))
  | ["rm.roles", a, d] => (st, encList (sortStrings (st.rm.getRoles (unesc a) (domOf d))))
  | ["rm.users", a, d] => (st, encList (sortStrings (st.rm.getUsers (unesc a) (domOf d))))
  | ["prm.new", n, rf, df] => ({ st with prm := PRm.new n.toNat!, prf := rf, pdf := df }, "ok")
  | ["prm.fn", rf, df] => ({ st with prf := rf, pdf := df }, "ok")
  | ["prm.add", a, b, d] => ({ st with prm := st.prm.addLink (matchFnOf st.prf) (unesc a) (unesc b) (domOf d) }, "ok")
  | ["prm.del", a, b, d] =>
    (match st.prm.deleteLink (matchFnOf st.prf) (matchFnOf st.pdf) (unesc a) (unesc b) (domOf d) with
     | some rm' => ({ st with prm := rm' }, "ok")
     | none => (st, "err:rbac"))
  | ["prm.clear"] => ({ st with prm := st.prm.clear }, "ok")
  | ["prm.has", a, b, d] => (st, boolS (st.prm.hasLink (matchFnOf st.prf) (matchFnOf st.pdf) (unesc a) (unesc b) (domOf d)))
  | ["prm.roles", a, d] => (st, encList (sortStrings (st.prm.getRoles (matchFnOf st.prf) (matchFnOf st.pdf) (unesc a) (domOf d))))
  | ["prm.users", a, d] => (st, encList (sortStrings (st.prm.getUsers (matchFnOf st.prf) (matchFnOf st.pdf) (unesc a) (domOf d))))
  | ["prm.snap", names, doms] =>
    -- every ordered pair of names in every domain, one character per has_link answer
    let ns := decList names
    let ds := (doms.splitOn ",").map domOf
    (st, String.ofList (ds.flatMap (fun d => ns.flatMap (fun a => ns.map (fun b =>
      if st.prm.hasLink (matchFnOf st.prf) (matchFnOf st.pdf) a b d then 't' else 'f')))))
  | ["rm.snap", names, doms, mask] =>
    (st, rmSnap st.rm (decList names) ((doms.splitOn ",").map domOf) mask.toList)
  | ["rm.snapf", names, doms] =>
    (st, rmSnapBits st.rm (decList names) ((doms.splitOn ",").map domOf) [])
  | _ => (st, "bad-op")

partial def loop (hin : IO.FS.Stream) (hout : IO.FS.Stream) (st : DrvState) : IO Unit := do
  let line ← hin.getLine
  if line.isEmpty then return ()
  let cs := line.toList
  let cs := if cs.getLast? == some '\n' then cs.dropLast else cs
  let cs := match cs with | '~' :: r => r | r => r
  let line := String.ofList cs
  let (st', out) := step st (line.splitOn "\t")
  hout.putStrLn out
  loop hin hout st'

def main : IO Unit := do
  let hin ← IO.getStdin
  let hout ← IO.getStdout
  loop hin hout {}
