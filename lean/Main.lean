import CasbinModel.Basic
import CasbinModel.Proto
import CasbinModel.Effect
import CasbinModel.RoleGraph
/-!
# Line-protocol driver: runs the executable model on the harness' op stream.
One op per input line, one canonical answer per output line.
-/
open Casbin Casbin.Proto

structure DrvState where
  rm : RoleMgr String := RoleMgr.new 10

def domOf (s : String) : String := if s == "-" then "DEFAULT" else unesc s

/-! ### C03 -/
def rmSnapBits (rm : RoleMgr String) (names : List String) (doms : List String) (mask : List Char) : String :=
  let qs := doms.flatMap (fun d => names.flatMap (fun a => names.map (fun b => (a, b, d))))
  let rec go (qs : List (String × String × String)) (mask : List Char) (acc : String) : String :=
    match qs with
    | [] => acc
    | (a, b, d) :: rest =>
      let (m, mrest) := match mask with | [] => ('.', []) | c :: cs => (c, cs)
      let ch := if m == '?' then '?' else if rm.hasLink a b d then '1' else '0'
      go rest mrest (acc.push ch)
  go qs mask ""

def rmSnap (rm : RoleMgr String) (names : List String) (doms : List String) (mask : List Char) : String :=
  let bits := rmSnapBits rm names doms mask
  let lists := doms.flatMap (fun d => names.map (fun a =>
    " R:" ++ encList (sortStrings (rm.getRoles a d)) ++ " U:" ++ encList (sortStrings (rm.getUsers a d))))
  "H:" ++ bits ++ String.join lists

/-! ### C02 -/
def effOfChar : Char → Eff
  | 'a' => .allow | 'i' => .indet | _ => .deny

def exprOfIdx : Nat → EffExpr
  | 0 => .allowOverride | 1 => .denyOverride | 2 => .allowAndDeny | _ => .priority

def effRun (s0 : Option Stream) (seq : List Char) : String :=
  match s0 with
  | none => "panic"
  | some s0 =>
    let rec go (s : Stream) (cs : List Char) (acc : String) : String :=
      match cs with
      | [] => acc
      | c :: cs =>
        let (s', flag) := s.push (effOfChar c)
        let acc := acc.push (if flag then '1' else '0')
        let acc := acc.push (match s'.next with
          | some true => if flag then 't' else 'T'
          | some false => if flag then 'f' else 'F'
          | none => '-')
        go s' cs acc
    go s0 seq ""

def step (st : DrvState) (f : List String) : DrvState × String :=
  match f with
  | ["eff.run", x, cap, seq] =>
    (st, effRun (Stream.new (exprOfIdx x.toNat!) cap.toNat!) seq.toList)
  | ["eff.raw", expr, cap, seq] =>
    (st, match EffExpr.ofString (unesc expr) with
         | none => "panic"
         | some e => effRun (Stream.new e cap.toNat!) seq.toList)
  | ["rm.new", n] => ({ st with rm := RoleMgr.new n.toNat! }, "ok")
  | ["rm.add", a, b, d] => ({ st with rm := st.rm.addLink (unesc a) (unesc b) (domOf d) }, "ok")
  | ["rm.del", a, b, d] =>
    (match st.rm.deleteLink (unesc a) (unesc b) (domOf d) with
     | some rm' => ({ st with rm := rm' }, "ok")
     | none => (st, "err:rbac"))
  | ["rm.clear"] => ({ st with rm := st.rm.clear }, "ok")
  | ["rm.has", a, b, d] => (st, boolS (st.rm.hasLink (unesc a) (unesc b) (domOf d)))
  | ["rm.roles", a, d] => (st, encList (sortStrings (st.rm.getRoles (unesc a) (domOf d))))
  | ["rm.users", a, d] => (st, encList (sortStrings (st.rm.getUsers (unesc a) (domOf d))))
  | ["rm.snap", names, doms, mask] =>
    (st, rmSnap st.rm (decList names) ((doms.splitOn ",").map domOf) mask.toList)
  | ["rm.snapf", names, doms] =>
    (st, rmSnapBits st.rm (decList names) ((doms.splitOn ",").map domOf) [])
  | _ => (st, "bad-op")

partial def loop (hin : IO.FS.Stream) (hout : IO.FS.Stream) (st : DrvState) : IO Unit := do
  let line ← hin.getLine
  if line.isEmpty then return ()
  let cs := line.toList
  let cs := if cs.getLast? == some '\n' then cs.dropLast else cs
  let cs := match cs with | '~' :: r => r | r => r
  let line := String.ofList cs
  let (st', out) := step st (line.splitOn "\t")
  hout.putStrLn out
  loop hin hout st'

def main : IO Unit := do
  let hin ← IO.getStdin
  let hout ← IO.getStdout
  loop hin hout {}
