import CasbinModel.Basic
import CasbinModel.Proto
import CasbinModel.Effect
/-!
# Line-protocol driver: runs the executable model on the harness' op stream.
One op per input line, one canonical answer per output line.
-/
open Casbin Casbin.Proto

structure DrvState where
  dummy : Unit := ()

/-! ### C02 -/
def effOfChar : Char → Eff
  | 'a' => .allow | 'i' => .indet | _ => .deny

def exprOfIdx : Nat → EffExpr
  | 0 => .allowOverride | 1 => .denyOverride | 2 => .allowAndDeny | _ => .priority

def effRun (s0 : Option Stream) (seq : List Char) : String :=
  match s0 with
  | none => "panic"
  | some s0 =>
    let rec go (s : Stream) (cs : List Char) (acc : String) : String :=
      match cs with
      | [] => acc
      | c :: cs =>
        let (s', flag) := s.push (effOfChar c)
        let acc := acc.push (if flag then '1' else '0')
        let acc := acc.push (match s'.next with
          | some true => if flag then 't' else 'T'
          | some false => if flag then 'f' else 'F'
          | none => '-')
        go s' cs acc
    go s0 seq ""

def step (st : DrvState) (f : List String) : DrvState × String :=
  match f with
  | ["eff.run", x, cap, seq] =>
    (st, effRun (Stream.new (exprOfIdx x.toNat!) cap.toNat!) seq.toList)
  | ["eff.raw", expr, cap, seq] =>
    (st, match EffExpr.ofString (unesc expr) with
         | none => "panic"
         | some e => effRun (Stream.new e cap.toNat!) seq.toList)
  | _ => (st, "bad-op")

partial def loop (hin : IO.FS.Stream) (hout : IO.FS.Stream) (st : DrvState) : IO Unit := do
  let line ← hin.getLine
  if line.isEmpty then return ()
  let line := if line.back == '\n' then line.dropRight 1 else line
  let (st', out) := step st (line.splitOn "\t")
  hout.putStrLn out
  loop hin hout st'

def main : IO Unit := do
  let hin ← IO.getStdin
  let hout ← IO.getStdout
  loop hin hout {}
