//! C11 — caching never changes a decision: CachedEnforcer in lock-step with an uncached twin.
use crate::ast::*;
use crate::interp::World;
use crate::mgmt::*;
use crate::proto::*;

/// RBAC sections plus a second section set whose matcher differs (plain ACL), and a third
/// matcher `m3` reachable only through a hand-built context
fn model(variant: usize) -> ModelDef {
    let r = |i| Ex::R(i); let p = |i| Ex::P(i);
    let rt = sv(&["sub", "obj", "act"]);
    let pt = sv(&["sub", "obj", "act", "eft"]);
    let rbac = and(and(Ex::G2("g".into(), b(r(0)), b(p(0))), eq(r(1), p(1))), eq(r(2), p(2)));
    let acl = and(and(eq(r(0), p(0)), eq(r(1), p(1))), eq(r(2), p(2)));
    let sup = or(acl.clone(), eq(r(0), Ex::LitS("bob".into())));
    let efn = and(Ex::Call2("eqFn".into(), b(r(0)), b(p(0))), eq(r(1), p(1)));
    // variant 3: the role definition carries a domain, so stored two-field grouping rules make the reload fail
    let dom = and(and(Ex::G3("g".into(), b(r(0)), b(p(0)), b(r(1))), eq(r(1), p(1))), eq(r(2), p(2)));
    let m1 = match variant { 0 => rbac.clone(), 1 => sup.clone(), 2 => efn.clone(), _ => dom.clone() };
    ModelDef {
        r: vec![("r".into(), rt.clone()), ("r2".into(), rt.clone())],
        p: vec![("p".into(), pt.clone()), ("p2".into(), pt.clone())],
        g: vec![("g".into(), if variant == 3 { 3 } else { 2 })],
        e: vec![("e".into(), if variant == 1 { E_DENY.into() } else { E_BOTH.into() }), ("e2".into(), E_ALLOW.into())],
        m: vec![("m".into(), m1.sexpr(), m1.text("r", &rt, "p", &pt)),
                ("m2".into(), acl.sexpr(), acl.text("r2", &rt, "p2", &pt)),
                ("m3".into(), sup.sexpr(), sup.text("r2", &rt, "p2", &pt))],
        tbl: vec![],
    }
}

#[derive(Clone, Debug)]
enum St { Notify(bool), M(MOp), Load, LoadF, SetModel(usize), SetAdapter(Vec<Vec<String>>), SetRm, SetRmSame, Build, Enable(bool), SetEft, AddFn, AutoBuild(bool), AutoSave(bool), Rejected(MOp) }

fn st_line(s: &St) -> Vec<String> {
    match s {
        St::M(op) => vec![op.line()],
        St::Notify(v) => vec![format!("e.auto\tnotify\t{}", v)],
        St::Load => vec!["e.load".into()],
        St::LoadF => vec![format!("e.loadf\t{}\t-", enc_list(&sv(&["alice"])))],
        St::SetModel(_) => vec!["e.setmodel".into()],
        St::SetAdapter(l) => vec![format!("e.setadapter\tmemory\t{}\t", enc_lists(l))],
        St::SetRm => vec!["e.setrm".into()],
        // the installed manager handed to set_role_manager again (the call still rebuilds the links)
        St::SetRmSame => vec!["e.keeprm".into(), "e.setrm\tkept".into()],
        St::Build => vec!["e.build".into()],
        St::Enable(v) => vec![format!("e.auto\tenforce\t{}", v)],
        St::SetEft => vec!["e.seteft".into()],
        St::AddFn => vec!["e.addfn\teqFn".into()],
        St::AutoBuild(v) => vec![format!("e.auto\tbuild\t{}", v)],
        St::AutoSave(v) => vec![format!("e.auto\tsave\t{}", v)],
        St::Rejected(op) => vec![format!("e.fault\t{}", fault_plan(op, "refuse")), op.line(), "e.fault\t-".into()],
    }
}

fn gen_p(rng: &mut Rng, u: &[&str]) -> Vec<String> { sv(&[*rng.pick(u), *rng.pick(&["d1", "d2", "d1", "d2", "alice", "1", "true"]), "read", *rng.pick(&["allow", "allow", "deny"])]) }

fn gen_step(rng: &mut Rng) -> St {
    let subs = ["alice", "bob", "admin"];
    match rng.below(30) {
        0..=5 => St::M(MOp::Add("p".into(), (*rng.pick(&["p", "p", "p2"])).into(), gen_p(rng, &subs))),
        6 | 7 => St::M(MOp::Rm("p".into(), (*rng.pick(&["p", "p2"])).into(), gen_p(rng, &subs))),
        8..=10 => St::M(MOp::Add("g".into(), "g".into(), sv(&[*rng.pick(&subs), *rng.pick(&["admin", "bob"])]))),
        11 => St::M(MOp::Rm("g".into(), "g".into(), sv(&[*rng.pick(&subs), *rng.pick(&["admin", "bob"])]))),
        12 => if rng.chance(1, 2) { St::M(MOp::AddM("p".into(), "p".into(), vec![gen_p(rng, &subs), gen_p(rng, &subs)])) }
              else { St::M(MOp::AddM("g".into(), "g".into(), vec![sv(&[*rng.pick(&subs), *rng.pick(&["admin", "bob"])]), sv(&["bob"])])) },
        13 => St::M(MOp::RmF("p".into(), "p".into(), 0, sv(&[*rng.pick(&subs)]))),
        14 => St::M(MOp::DelUser((*rng.pick(&subs)).into())),
        15 => St::M(MOp::Clear),
        16 => St::Load,
        17 => St::LoadF,
        18 | 19 => St::SetModel(rng.below(4)),
        20 => St::SetAdapter((0..rng.below(4)).map(|_| { let mut l = sv(&["p", "p"]); l.extend(gen_p(rng, &subs)); l }).collect()),
        21 => if rng.chance(1, 2) { St::SetRm } else { St::SetRmSame },
        22 => St::Build,
        23 | 24 => St::Enable(rng.chance(1, 2)),
        25 => St::SetEft,
        26 => St::AddFn,
        27 => St::AutoBuild(rng.chance(1, 2)),
        28 => if rng.chance(1, 2) { St::AutoSave(rng.chance(1, 2)) } else { St::Notify(rng.chance(1, 3)) },
        _ => St::Rejected(MOp::Add("p".into(), "p".into(), gen_p(rng, &subs))),
    }
}

/// run one history on a cached or plain enforcer; returns the decision lines
fn run_once(rec: &mut Recorder, w: &mut World, cached: bool, hist: &[St], reqf: &str) -> Vec<String> {
    rec.exec(w, &format!("e.cached\t{}", cached));
    let mut cur_variant = 0usize;
    new_enforcer(rec, w, &model(0), "memory", &[], "", false);
    let mut outs = vec![];
    let ask = |rec: &mut Recorder, w: &mut World, outs: &mut Vec<String>| {
        outs.push(rec.exec(w, &format!("e.enfs\t{}", reqf)));
        outs.push(rec.exec(w, &format!("e.enfcs\t2\t{}", reqf)));
        // a hand-built context that differs from suffix 2 only in its matcher
        outs.push(rec.exec(w, &format!("e.enfx\tr2\tp2\te2\tm3\t{}", reqf)));
        outs.push(rec.exec(w, &format!("e.enfx\tr2\tp2\te2\tm2\t{}", reqf)));
        // ... and one that differs from it only in the effect section
        outs.push(rec.exec(w, &format!("e.enfx\tr2\tp2\te\tm2\t{}", reqf)));
        // ... and one that keeps the default request, policy and matcher sections and switches the effect section only
        // (asked right after the plain requests: the two must not share an answer)
        outs.push(rec.exec(w, &format!("e.enfx\tr\tp\te2\tm\t{}", reqf)));
    };
    ask(rec, w, &mut outs);
    for s in hist {
        if let St::SetModel(v) = s { cur_variant = *v; model(*v).emit(rec, w); }
        let _ = cur_variant;
        // each mutator is immediately preceded and followed by the same requests (a stale entry, if any, is hit)
        for l in st_line(s) { rec.exec(w, &l); }
        ask(rec, w, &mut outs);
    }
    rec.exec(w, "e.cached\tfalse");
    outs
}

pub fn run(rec: &mut Recorder, w: &mut World, tier: &str, seed: u64) {
    let mut rng = Rng::new(seed);
    let mut reqs = vec![];
    for s in ["alice", "bob", "admin"] { for o in ["d1", "d2"] { reqs.push(sv(&[s, o, "read"])); } }
    // the same values in other positions and repeated values: distinct requests whose field multisets collide
    for r in [["d1", "alice", "read"], ["read", "d1", "alice"], ["alice", "alice", "read"], ["bob", "bob", "read"], ["d1", "d1", "read"], ["d2", "admin", "read"]] { reqs.push(sv(&r)); }
    // a number or a boolean and the string spelled the same way are different requests (asked in this order: the typed one
    // first, so that a cache keyed by the printed value would hand its answer to the string request)
    let reqf = format!("{};s:alice,i:1,s:read;s:alice,s:1,s:read;s:bob,b:true,s:read;s:bob,s:true,s:read;s:admin,s:1,s:read;s:admin,i:1,s:read", reqs_field(&reqs));
    // exhaustive: every history of length <= L over a fixed alphabet covering the whole mutating surface
    let subs = ["alice", "bob", "admin"];
    let _ = subs;
    let fixed: Vec<St> = vec![
        St::M(MOp::Add("p".into(), "p".into(), sv(&["alice", "d1", "read", "allow"]))),
        St::M(MOp::Add("p".into(), "p".into(), sv(&["admin", "d2", "read", "allow"]))),
        St::M(MOp::Add("p".into(), "p".into(), sv(&["alice", "alice", "read", "allow"]))),
        St::M(MOp::Add("p".into(), "p".into(), sv(&["alice", "1", "read", "allow"]))),
        St::M(MOp::Add("p".into(), "p2".into(), sv(&["bob", "d1", "read", "allow"]))),
        St::M(MOp::Add("g".into(), "g".into(), sv(&["alice", "admin"]))),
        St::M(MOp::AddM("g".into(), "g".into(), vec![sv(&["bob", "admin"]), sv(&["bob"])])),
        St::M(MOp::Rm("p".into(), "p".into(), sv(&["alice", "d1", "read", "allow"]))),
        // one batch naming the same rule twice (the call succeeds and the rule is added / removed once)
        St::M(MOp::AddM("p".into(), "p".into(), vec![sv(&["alice", "d1", "read", "allow"]), sv(&["alice", "d1", "read", "allow"])])),
        St::M(MOp::RmM("p".into(), "p".into(), vec![sv(&["alice", "d1", "read", "allow"]), sv(&["alice", "d1", "read", "allow"])])),
        St::M(MOp::Clear), St::Load, St::LoadF, St::SetModel(1), St::SetModel(2), St::SetModel(3),
        St::SetAdapter(vec![sv(&["p", "p", "bob", "d2", "read", "allow"])]), St::SetRm, St::Build,
        St::Enable(false), St::Enable(true), St::Notify(false), St::M(MOp::RmF("p".into(), "p".into(), 0, sv(&["alice"]))), St::SetEft, St::AddFn, St::AutoBuild(false), St::AutoBuild(true), St::AutoSave(false),
    ];
    let l = if tier == "thorough" { 3 } else { 2 };
    let mut hists: Vec<Vec<St>> = vec![];
    let mut idx = vec![0usize; 1];
    for len in 1..=l {
        idx.clear(); idx.resize(len, 0);
        loop {
            hists.push(idx.iter().map(|&i| fixed[i].clone()).collect());
            let mut k = len; let mut done = false;
            loop { if k == 0 { done = true; break; } k -= 1; idx[k] += 1; if idx[k] < fixed.len() { break; } idx[k] = 0; }
            if done { break; }
        }
    }
    let n_ex = hists.len();
    let n_rand = (if tier == "thorough" { 1200 } else { 120 }) * rec.budget as usize;
    for _ in 0..n_rand {
        let len = 2 + rng.below(if tier == "thorough" { 150 } else { 40 });
        let mut h: Vec<St> = vec![];
        while h.len() < len {
            if rng.chance(1, 10) {
                // a batch that names one rule twice: added in one call, or stored first and then removed by such a batch
                let (sec, pt, r) = if rng.chance(2, 3) { ("p", *rng.pick(&["p", "p2"]), gen_p(&mut rng, &subs)) } else { ("g", "g", sv(&[*rng.pick(&subs), *rng.pick(&["admin", "bob"])])) };
                if rng.chance(1, 2) { h.push(St::M(MOp::AddM(sec.into(), pt.into(), vec![r.clone(), r]))); }
                else { h.push(St::M(MOp::Add(sec.into(), pt.into(), r.clone()))); h.push(St::M(MOp::RmM(sec.into(), pt.into(), vec![r.clone(), r]))); }
                rec.count("shape:batch-with-repeated-rule");
            } else { h.push(gen_step(&mut rng)); }
        }
        hists.push(h);
    }
    // directed: a change made while a switch was off takes effect only at a later call that is not a management call —
    // the requests asked in between are cached with the old answer, so that later call has to empty the cache whatever the
    // switch says by then (auto-build off: grouping change stored, link built only by the rebuild / set_role_manager / load)
    let padm = || St::M(MOp::Add("p".into(), "p".into(), sv(&["admin", "d1", "read", "allow"])));
    let gadd = || St::M(MOp::Add("g".into(), "g".into(), sv(&["alice", "admin"])));
    let grm = || St::M(MOp::Rm("g".into(), "g".into(), sv(&["alice", "admin"])));
    for fin in [St::Build, St::SetRm, St::SetRmSame, St::Load, St::SetModel(0), St::SetAdapter(vec![sv(&["p", "p", "admin", "d1", "read", "allow"]), sv(&["g", "g", "alice", "admin"])])] {
        hists.push(vec![padm(), St::AutoBuild(false), gadd(), St::AutoBuild(true), fin.clone()]);
        hists.push(vec![padm(), gadd(), St::AutoBuild(false), grm(), St::AutoBuild(true), fin.clone()]);
        hists.push(vec![padm(), St::AutoBuild(false), gadd(), fin.clone(), St::AutoBuild(true), fin.clone()]);
    }
    let n_dir = hists.len() - n_ex - n_rand;
    rec.count_n("histories:directed-switch-window", n_dir as u64);
    for (hi, hist) in hists.iter().enumerate() {
        rec.begin();
        let cached = run_once(rec, w, true, hist, &reqf);
        let plain = run_once(rec, w, false, hist, &reqf);
        if cached != plain {
            let i = cached.iter().zip(plain.iter()).position(|(a, c)| a != c).unwrap_or(0);
            let step = i / 5;
            let descr: Vec<String> = hist.iter().take(step).map(|s| st_line(s).join(" / ").replace('\t', " ")).collect();
            rec.fail("stale-cached-decision", format!("after {}: cached enforcer answered {} where the uncached twin answers {} (query kind {})", descr.join(" ; "), cached[i], plain[i], ["enforce", "enforce_with_context(2)", "context r2/p2/e2/m3", "context r2/p2/e2/m2", "context r2/p2/e/m2"][i % 5]));
        }
        for s in hist { rec.count(&format!("op:{}", match s { St::M(op) => op.kind(), St::Load => "load_policy", St::LoadF => "load_filtered_policy", St::SetModel(_) => "set_model", St::SetAdapter(_) => "set_adapter", St::SetRm => "set_role_manager", St::SetRmSame => "set_role_manager(installed)", St::Build => "build_role_links", St::Enable(_) => "enable_enforce", St::SetEft => "set_effector", St::AddFn => "add_function", St::AutoBuild(_) => "auto_build", St::AutoSave(_) => "auto_save", St::Notify(_) => "auto_notify", St::Rejected(_) => "rejected" })); }
        rec.nontrivial_case(&format!("{:?}", hist));
        if hi == n_ex { rec.sample(hist.iter().take(8).map(|s| st_line(s).join(" / ").replace('\t', " ")).collect::<Vec<_>>().join(" ; ")); }
    }
    // ---- construction: both enforcers built from a model pre-filled by an adapter-level filtered load and that
    //      (now filtered) adapter; then a short history in lock-step ----
    let n_ctor = (if tier == "thorough" { 300 } else { 30 }) * rec.budget as usize;
    for _ in 0..n_ctor {
        let mut lines: Vec<Vec<String>> = vec![];
        for _ in 0..2 + rng.below(4) { let mut l = sv(&["p", "p"]); l.extend(gen_p(&mut rng, &subs)); if !lines.contains(&l) { lines.push(l); } }
        for _ in 0..rng.below(3) { let l = sv(&["g", "g", *rng.pick(&subs), *rng.pick(&["admin", "bob"])]); if l[2] != l[3] && !lines.contains(&l) { lines.push(l); } }
        let fp = vec![lines[0][2].clone()];
        let hist: Vec<St> = (0..rng.below(4)).map(|_| gen_step(&mut rng)).collect();
        rec.begin();
        let mut both: Vec<Vec<String>> = vec![];
        for cached in [true, false] {
            rec.exec(w, &format!("e.cached\t{}", cached));
            model(0).emit(rec, w);
            let r = rec.exec(w, &format!("e.newfilt\tmemory\t{}\t\t{}\t-", enc_lists(&lines), enc_list(&fp)));
            let mut outs = vec![r, rec.exec(w, "e.pol"), rec.exec(w, "e.filtered"), rec.exec(w, &format!("e.enfs\t{}", reqf))];
            for s in &hist {
                if matches!(s, St::SetModel(_)) { continue; }
                for l in st_line(s) { rec.exec(w, &l); }
                outs.push(rec.exec(w, &format!("e.enfs\t{}", reqf)));
                outs.push(rec.exec(w, &format!("e.enfcs\t2\t{}", reqf)));
            }
            rec.exec(w, "e.cached\tfalse");
            both.push(outs);
        }
        if both[0] != both[1] {
            let i = both[0].iter().zip(both[1].iter()).position(|(a, c)| a != c).unwrap_or(0);
            rec.fail("cached-constructor-differs", format!("built from a model pre-filled through load_filtered_policy(p={:?}) of {:?} and that filtered adapter: cached enforcer gives {} where the plain one gives {} (observation {})", fp, lines, both[0][i], both[1][i], i));
        }
        rec.count("constructor:filtered-adapter");
        rec.nontrivial_case(&format!("ctor|{:?}|{:?}", lines, fp));
    }
    rec.count_n("histories:exhaustive", n_ex as u64);
    rec.count_n("histories:random", n_rand as u64);
    rec.exhaustive = true;
}
