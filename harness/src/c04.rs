//! C04 — the policy store behaves as an insertion-ordered set under the management API.
use crate::interp::World;
use crate::mgmt::*;
use crate::proto::*;

pub struct Obs {
    pub pol: String,
    pub dec: String,
}

/// observe the store through every read API + six decisions; compare views with the reference
pub fn observe(rec: &mut Recorder, w: &mut World, u: &Universe, refs: &RefStore, check_spec: bool) -> Obs {
    let pol = rec.exec(w, "e.pol");
    if check_spec && pol != refs.render() {
        rec.fail("store-not-ordered-set", format!("stored rules {} differ from the ordered-set reference {}", pol, refs.render()));
    }
    for (s, k) in [("p", "p"), ("p", "p2"), ("g", "g"), ("g", "g2")] {
        let got = rec.exec(w, &format!("e.get\t{}\t{}", s, k));
        let want = enc_lists(&refs.sets[&(s.to_string(), k.to_string())]);
        if check_spec && got != want { rec.fail("view-get", format!("get_policy({},{}) = {} but the set is {}", s, k, got, want)); }
    }
    for (s, k, idx, vals) in [("p", "p", 0usize, sv(&["alice"])), ("p", "p", 1, sv(&["d1", "", "deny"])), ("g", "g", 1, sv(&["admin"])), ("p", "p", 2, sv(&["read", "allow", "x"]))] {
        let got = rec.exec(w, &format!("e.getf\t{}\t{}\t{}\t{}", s, k, idx, enc_list(&vals)));
        let want = enc_lists(&refs.getf(s, k, idx, &vals));
        if check_spec && got != want { rec.fail("view-filtered-get", format!("get_filtered_policy({},{},{},{:?}) = {} but the set gives {}", s, k, idx, vals, got, want)); }
    }
    // membership is exact: a prefix of a stored rule, or a rule with an empty field where a stored one has a value, is not
    // "had" (has_* is not a filter) — asked of every definition, through all spellings of the call
    let mut asks: Vec<(&str, &str, Vec<String>)> = vec![];
    for r in [&u.p_rules[0], &u.p_rules[3]] {
        asks.push(("p", "p", r.clone()));
        asks.push(("p", "p", r[..r.len() - 1].to_vec()));
        asks.push(("p", "p", r[..1].to_vec()));
        let mut e = r.clone(); e[1] = String::new(); asks.push(("p", "p", e));
        asks.push(("p", "p2", r.clone()));
        asks.push(("p", "p2", r[..2].to_vec()));
    }
    for (s, k) in [("g", "g"), ("g", "g2")] {
        if let Some(r) = refs.sets[&(s.to_string(), k.to_string())].iter().next().cloned() { asks.push((s, k, r[..1].to_vec())); asks.push((s, k, r.clone())); let mut e = r.clone(); e[0] = String::new(); asks.push((s, k, e)); }
    }
    for (s, k, r) in asks {
        let got = rec.exec(w, &format!("e.has\t{}\t{}\t{}", s, k, enc_list(&r)));
        let want = refs.sets[&(s.to_string(), k.to_string())].contains(&r);
        if check_spec && got != bool_s(want) { rec.fail("view-has", format!("has_policy({},{},{:?}) = {} but membership is {}", s, k, r, got, want)); }
    }
    for (s, k, idx) in [("p", "p", 0usize), ("p", "p", 1), ("p", "p", 2), ("g", "g", 1)] {
        let got = rec.exec(w, &format!("e.vals\t{}\t{}\t{}", s, k, idx));
        // spec: the distinct values of that column (as a set; the listing order is a fidelity matter)
        let mut want: Vec<String> = refs.sets[&(s.to_string(), k.to_string())].iter().filter_map(|r| r.get(idx).cloned()).collect();
        want.sort(); want.dedup();
        let mut g2 = dec_list(&got); g2.sort();
        if check_spec && got != "panic" && g2 != want { rec.fail("view-values", format!("values({},{},{}) = {} but the distinct column values are {:?}", s, k, idx, got, want)); }
    }
    let dec = rec.exec(w, &format!("e.enfs\t{}", reqs_field(&u.reqs)));
    Obs { pol, dec }
}

fn run_history(rec: &mut Recorder, w: &mut World, m: &ModelDef, u: &Universe, kind: &str, autosave: bool, hist: &[MOp], observe_every: bool) {
    rec.begin();
    new_enforcer(rec, w, m, kind, &[], "", false);
    if !autosave { rec.exec(w, "e.auto\tsave\tfalse"); }
    let mut refs = RefStore::of_model(m);
    // the string adapter rejects every incremental call when auto-save is on: the store must not move
    let vetoed = kind == "string" && autosave;
    let mut before = if observe_every { Some(observe(rec, w, u, &refs, true)) } else { None };
    for (i, op) in hist.iter().enumerate() {
        let out = rec.exec(w, &op.line());
        rec.count(&format!("op:{}", op.kind()));
        let mut r2 = refs.clone();
        let want = r2.apply(op);
        if vetoed && !matches!(op, MOp::Clear) {
            if !out.starts_with("err") { rec.fail("veto-ignored", format!("{} returned {} although the adapter rejected the call", op.line(), out)); }
        } else if matches!(op, MOp::Clear) {
            if out != "ok" { rec.fail("clear-failed", format!("clear_policy returned {}", out)); }
            refs = r2;
        } else {
            refs = r2;
            if out != bool_s(want) {
                rec.fail("wrong-changed-flag", format!("{} returned {} but the ordered-set spec says changed={}", op.line().replace('\t', " "), out, want));
            }
        }
        rec.count(if out == "true" { "result:changed" } else if out == "false" { "result:unchanged" } else { "result:other" });
        if observe_every || i + 1 == hist.len() {
            let after = observe(rec, w, u, &refs, true);
            if let Some(b) = &before {
                if out == "false" && (b.pol != after.pol || b.dec != after.dec) {
                    rec.fail("no-change-but-changed", format!("{} reported no change but store/decisions moved: {} / {} -> {} / {}", op.line().replace('\t', " "), b.pol, b.dec, after.pol, after.dec));
                }
            }
            before = Some(after);
        }
    }
}

pub fn run(rec: &mut Recorder, w: &mut World, tier: &str, seed: u64) {
    let m = priority_rbac();
    let u = small_universe();
    let alpha = alphabet(&u);
    rec.notes.insert("alphabet".into(), alpha.len().into());
    // exhaustive: every history up to length L over the alphabet (memory adapter, auto-save on),
    // observed after every call (prefix sharing is not possible: the enforcer is not Clone)
    let l = if tier == "thorough" { 3 } else { 2 };
    rec.notes.insert("exhaustive_len".into(), l.into());
    let mut n_hist = 0u64;
    for len in 1..=l {
        let mut idx = vec![0usize; len];
        loop {
            let hist: Vec<MOp> = idx.iter().map(|&i| alpha[i].clone()).collect();
            // observe only around the last call: all prefixes are enumerated as histories of their own
            rec.begin();
            new_enforcer(rec, w, &m, "memory", &[], "", false);
            let mut refs = RefStore::of_model(&m);
            let mut last_before = None;
            for (i, op) in hist.iter().enumerate() {
                if i + 1 == hist.len() { last_before = Some(observe(rec, w, &u, &refs, true)); }
                let out = rec.exec(w, &op.line());
                let want = refs.apply(op);
                if matches!(op, MOp::Clear) { if out != "ok" { rec.fail("clear-failed", format!("clear_policy returned {}", out)); } }
                else if out != bool_s(want) {
                    rec.fail("wrong-changed-flag", format!("{} returned {} but the ordered-set spec says changed={}", op.line().replace('\t', " "), out, want));
                }
                if i + 1 == hist.len() {
                    let after = observe(rec, w, &u, &refs, true);
                    let b = last_before.take().unwrap();
                    if out == "false" && (b.pol != after.pol || b.dec != after.dec) {
                        rec.fail("no-change-but-changed", format!("{} reported no change but store/decisions moved", op.line().replace('\t', " ")));
                    }
                    if out == "false" || out == "true" { rec.count(if out == "true" { "result:changed" } else { "result:unchanged" }); }
                }
            }
            n_hist += 1;
            rec.nontrivial_case(&hist.iter().map(|o| o.line()).collect::<Vec<_>>().join("|"));
            if n_hist % 211 == 5 { rec.sample(hist.iter().map(|o| o.line().replace('\t', " ")).collect::<Vec<_>>().join(" ; ")); }
            let mut k = len;
            let mut done = false;
            loop {
                if k == 0 { done = true; break; }
                k -= 1;
                idx[k] += 1;
                if idx[k] < alpha.len() { break; }
                idx[k] = 0;
            }
            if done { break; }
        }
    }
    rec.count_n("histories:exhaustive", n_hist);
    rec.exhaustive = true;
    // seeded random histories over all adapters, with and without auto-save
    let mut rng = Rng::new(seed);
    let n_random = (if tier == "thorough" { 1500 } else { 120 }) * rec.budget;
    let maxlen = if tier == "thorough" { 200 } else { 60 };
    for i in 0..n_random {
        let kind = *rng.pick(&["memory", "memory", "null", "file", "string"]);
        let autosave = rng.chance(2, 3);
        let len = 1 + rng.below(maxlen);
        let hist: Vec<MOp> = (0..len).map(|_| random_op(&mut rng, &u)).collect();
        rec.count(&format!("adapter:{}:{}", kind, if autosave { "autosave" } else { "manual" }));
        run_history(rec, w, &m, &u, kind, autosave, &hist, true);
        rec.nontrivial_case(&format!("{}|{}|{}", kind, autosave, hist.iter().map(|o| o.line()).collect::<Vec<_>>().join("|")));
        if i < 2 { rec.sample(format!("random {} autosave={} len={}: {}", kind, autosave, len, hist.iter().take(5).map(|o| o.line().replace('\t', " ")).collect::<Vec<_>>().join(" ; "))); }
    }
    rec.count_n("histories:random", n_random);
    // ---- directed: clear_policy brings store and adapter back in step whatever the enforcer holds in memory - after it a rule
    //      that was stored before can be added again (an adapter left holding it would veto the call) ----
    let mut rules3: Vec<(String, String, Vec<String>)> = u.p_rules.iter().take(3).map(|r| ("p".to_string(), "p".to_string(), r.clone())).collect();
    rules3.extend(u.g_rules.iter().take(2).map(|r| ("g".to_string(), "g".to_string(), r.clone())));
    for kind in ["memory", "file"] { for variant in 0..3usize { for pi in 0..rules3.len() {
        rec.begin();
        new_enforcer(rec, w, &m, kind, &[], "", false);
        let (sec, pt, r) = rules3[pi].clone();
        let add = MOp::Add(sec.clone(), pt.clone(), r.clone());
        let mut descr = vec![];
        let mut step = |rec: &mut Recorder, w: &mut World, descr: &mut Vec<String>, line: String| -> String { let o = rec.exec(w, &line); descr.push(format!("{} -> {}", line.replace('\t', " "), o)); o };
        step(rec, w, &mut descr, add.line());
        match variant {
            0 => { step(rec, w, &mut descr, "e.auto\tsave\tfalse".into()); step(rec, w, &mut descr, "e.clear".into()); step(rec, w, &mut descr, "e.auto\tsave\ttrue".into()); step(rec, w, &mut descr, "e.clear".into()); }
            1 => { step(rec, w, &mut descr, "e.clear".into()); step(rec, w, &mut descr, "e.clear".into()); }
            _ => { step(rec, w, &mut descr, format!("e.loadf\t{}\t{}", enc_list(&sv(&["nobody-at-all"])), enc_list(&sv(&["nobody-at-all"])))); step(rec, w, &mut descr, "e.clear".into()); }
        }
        let out = step(rec, w, &mut descr, add.line());
        let has = rec.exec(w, &format!("e.has\t{}\t{}\t{}", sec, pt, enc_list(&r)));
        if out != "true" || has != "true" { rec.fail("add-after-clear-refused", format!("{} adapter: {} ; has -> {}", kind, descr.join(" ; "), has)); }
        rec.count(&format!("directed:add-after-clear:{}", kind));
        rec.nontrivial_case(&format!("clear|{}|{}|{}", kind, variant, pi));
    } } }
}
