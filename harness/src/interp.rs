//! In-process interpreter: executes protocol ops against the real crate.
//! Every op of the protocol is executable here, so any replay file can be re-run.
use crate::proto::*;

use casbin::{DefaultRoleManager, RoleManager};

pub struct World {
    pub rt: tokio::runtime::Runtime,
    pub rm: Option<DefaultRoleManager>,
    /// a role manager with matching functions installed (`prm.*` ops)
    pub prm: Option<DefaultRoleManager>,
    pub ew: crate::enf::EnfWorld,
}

pub fn dom_opt(s: &str) -> Option<String> {
    if s == "-" { None } else { Some(unesc(s)) }
}

impl World {
    pub fn new() -> Self {
        World {
            rt: tokio::runtime::Builder::new_current_thread().enable_all().build().unwrap(),
            rm: None,
            prm: None,
            ew: crate::enf::EnfWorld::new(),
        }
    }

    /// run one op; a leading `~` marks a fidelity-only observable and is ignored here
    pub fn exec(&mut self, op: &str) -> String {
        let op = op.strip_prefix('~').unwrap_or(op);
        let op = op.strip_prefix('!').unwrap_or(op);
        let f: Vec<&str> = op.split('\t').collect();
        if f[0] == "e.reload" {
            return self.ew.reload_scratch(&self.rt);
        }
        if f[0] == "conc.run" { return crate::c20::conc_run(&unesc(f[1])); }
        if f[0] == "conc.disc" { return if crate::c20::balanced_increasing(&f[2].split(',').map(|s| s.to_string()).collect::<Vec<_>>()) { "disciplined".into() } else { "undisciplined".into() }; }
        if f[0] == "conc.explore" {
            let ok = f[2].split(';').all(|p| crate::c20::balanced_increasing(&p.split(',').map(|s| s.to_string()).collect::<Vec<_>>()));
            return if ok || f[1] != "fair" { "no-deadlock".into() } else { "deadlock".into() };
        }
        if f[0] == "fs.crash" {
            return crate::enf::fs_crash(&self.rt, &dec_lists(f[1]), &dec_lists(f[2]), f[3].parse().unwrap());
        }
        if f[0].starts_with("e.") || f[0].starts_with("m.") || f[0] == "fs.unlink" || f[0] == "fs.blocktmp" || f[0] == "fs.unblocktmp" {
            return self.ew.exec(&self.rt, &f);
        }
        match f[0] {
            "cfg.parse" => {
                let text = unesc(f[1]);
                let rt = &self.rt;
                let r = catch(move || rt.block_on(async move { casbin::DefaultModel::from_str(&text).await.map(|m| crate::c16::dump_model(&m)) }));
                match r { None => "panic".into(), Some(Err(_)) => "err".into(), Some(Ok(s)) => s }
            }
            "cfg.roundtrip" => {
                // to_text output parses back to the same definitions (implementation only)
                let text = unesc(f[1]);
                let rt = &self.rt;
                let r = catch(move || rt.block_on(async move {
                    use casbin::Model;
                    let m = casbin::DefaultModel::from_str(&text).await?;
                    let t = m.to_text();
                    let m2 = casbin::DefaultModel::from_str(&t).await?;
                    let (a, b) = (crate::c16::dump_model(&m), crate::c16::dump_model(&m2));
                    Ok::<String, casbin::Error>(if a == b { "same".to_string() } else { format!("differs:{} VS {}", a, b) })
                }));
                match r { None => "panic".into(), Some(Err(_)) => "err".into(), Some(Ok(s)) => s }
            }
            "cfg.file" => {
                // arbitrary bytes through DefaultModel::from_file and FileAdapter (totality; implementation only)
                let bytes: Vec<u8> = (0..f[1].len() / 2).filter_map(|i| u8::from_str_radix(&f[1][2 * i..2 * i + 2], 16).ok()).collect();
                let dir = "/verif/target/tmp"; std::fs::create_dir_all(dir).ok();
                let path = format!("{}/noise{}.txt", dir, std::process::id());
                std::fs::write(&path, &bytes).unwrap();
                let rt = &self.rt;
                let p2 = path.clone();
                let r = catch(move || rt.block_on(async move {
                    use casbin::{Adapter, CoreApi};
                    let a = casbin::DefaultModel::from_file(p2.clone()).await.is_ok();
                    let m = casbin::DefaultModel::from_str("[request_definition]\nr = a\n[policy_definition]\np = a\n[policy_effect]\ne = some(where (p.eft == allow))\n[matchers]\nm = r.a == p.a\n").await.unwrap();
                    let mut m2 = m.clone();
                    let mut fa = casbin::FileAdapter::new(p2.clone());
                    let b = fa.load_policy(&mut m2).await.is_ok();
                    let s = String::from_utf8_lossy(&std::fs::read(&p2).unwrap_or_default()).into_owned();
                    let c = casbin::Enforcer::new(m, casbin::StringAdapter::new(s)).await.is_ok();
                    format!("model:{} file:{} string:{}", a, b, c)
                }));
                std::fs::remove_file(&path).ok();
                r.unwrap_or_else(|| "panic".to_string())
            }
            "csv.parse" => {
                // parse_csv_line is private: observe it through StringAdapter::load_policy on a one-column model
                let line = unesc(f[1]);
                let rt = &self.rt;
                let r = catch(move || rt.block_on(async move {
                    use casbin::{Adapter, Model};
                    let mut m = casbin::DefaultModel::from_str("[request_definition]\nr = a\n[policy_definition]\np = a\n[policy_effect]\ne = some(where (p.eft == allow))\n[matchers]\nm = r.a == p.a\n").await?;
                    let mut a = casbin::StringAdapter::new(format!("p, {}", line));
                    a.load_policy(&mut m).await?;
                    let rules = m.get_policy("p", "p");
                    Ok::<String, casbin::Error>(if rules.is_empty() { "none".to_string() } else { let mut v = vec!["p".to_string()]; v.extend(rules[0].iter().cloned()); enc_list(&v) })
                }));
                match r { None => "panic".into(), Some(Err(_)) => "err".into(), Some(Ok(s)) => s }
            }
            "re" => {
                let body = unesc(f[1]); let key = unesc(f[2]);
                let r = catch(move || match regex::Regex::new(&format!("^{}$", body)) {
                    Err(_) => "invalid".to_string(),
                    Ok(re) => match re.captures(&key) {
                        None => "none".to_string(),
                        Some(c) => format!("match:{}", enc_list(&c.iter().skip(1).map(|m| m.map(|x| x.as_str().to_string()).unwrap_or_default()).collect::<Vec<_>>())),
                    },
                });
                r.unwrap_or_else(|| "panic".to_string())
            }
            "km" => {
                use casbin::function_map as fm;
                let k = unesc(f[2]); let pat = unesc(f[3]);
                let v = if f.len() > 4 { unesc(f[4]) } else { String::new() };
                let name = f[1].to_string();
                let r = catch(move || match name.as_str() {
                    "keyMatch" => bool_s(fm::key_match(&k, &pat)).to_string(),
                    "keyGet" => format!("s:{}", esc(&fm::key_get(&k, &pat))),
                    "keyMatch2" => bool_s(fm::key_match2(&k, &pat)).to_string(),
                    "keyGet2" => format!("s:{}", esc(&fm::key_get2(&k, &pat, &v))),
                    "keyMatch3" => bool_s(fm::key_match3(&k, &pat)).to_string(),
                    "keyGet3" => format!("s:{}", esc(&fm::key_get3(&k, &pat, &v))),
                    "keyMatch4" => bool_s(fm::key_match4(&k, &pat)).to_string(),
                    "keyMatch5" => bool_s(fm::key_match5(&k, &pat)).to_string(),
                    "regexMatch" => bool_s(fm::regex_match(&k, &pat)).to_string(),
                    _ => "bad-fn".to_string(),
                });
                r.unwrap_or_else(|| "panic".to_string())
            }
            "eff.run" => {
                let xi: usize = f[1].parse().unwrap();
                let cap: usize = f[2].parse().unwrap();
                crate::c02::run_impl(crate::c02::EXPRS[xi.min(3)], cap, &crate::c02::seq_of(f[3]))
            }
            "eff.raw" => {
                let cap: usize = f[2].parse().unwrap();
                crate::c02::run_impl(&unesc(f[1]), cap, &crate::c02::seq_of(f[3]))
            }
            "prm.new" | "prm.fn" => {
                // role manager as written, with a role- and / or a domain-matching function (`-` = none)
                let pick = |n: &str| -> Option<casbin::MatchingFn> { match n { "keyMatch" => Some(casbin::function_map::key_match), "keyMatch2" => Some(casbin::function_map::key_match2), _ => None } };
                if f[0] == "prm.new" {
                    let mut rm = DefaultRoleManager::new(f[1].parse().unwrap());
                    rm.matching_fn(pick(f[2]), pick(f[3]));
                    self.prm = Some(rm);
                } else {
                    match self.prm.as_mut() { Some(rm) => rm.matching_fn(pick(f[1]), pick(f[2])), None => return "no-rm".into() }
                }
                "ok".into()
            }
            "prm.add" | "prm.del" | "prm.clear" | "prm.has" | "prm.roles" | "prm.users" | "prm.snap" => {
                let rm = match self.prm.as_mut() { Some(r) => r, None => return "no-rm".into() };
                let r = catch(|| match f[0] {
                    "prm.add" => { let d = dom_opt(f[3]); rm.add_link(&unesc(f[1]), &unesc(f[2]), d.as_deref()); "ok".to_string() }
                    "prm.del" => {
                        let d = dom_opt(f[3]);
                        match rm.delete_link(&unesc(f[1]), &unesc(f[2]), d.as_deref()) { Ok(()) => "ok".to_string(), Err(e) => format!("err:{}", err_kind(&e)) }
                    }
                    "prm.clear" => { rm.clear(); "ok".to_string() }
                    "prm.has" => { let d = dom_opt(f[3]); bool_s(rm.has_link(&unesc(f[1]), &unesc(f[2]), d.as_deref())).to_string() }
                    "prm.roles" => { let d = dom_opt(f[2]); enc_list(&sorted(rm.get_roles(&unesc(f[1]), d.as_deref()))) }
                    "prm.users" => { let d = dom_opt(f[2]); enc_list(&sorted(rm.get_users(&unesc(f[1]), d.as_deref()))) }
                    _ => {
                        let names = dec_list(f[1]);
                        let doms: Vec<Option<String>> = f[2].split(',').map(dom_opt).collect();
                        let mut bits = String::new();
                        for d in &doms { for a in &names { for b in &names { bits.push(if rm.has_link(a, b, d.as_deref()) { 't' } else { 'f' }); } } }
                        bits
                    }
                });
                r.unwrap_or_else(|| "panic".into())
            }
            "rm.new" => {
                self.rm = Some(DefaultRoleManager::new(f[1].parse().unwrap()));
                "ok".into()
            }
            "rm.add" | "rm.del" | "rm.clear" | "rm.has" | "rm.roles" | "rm.users" | "rm.snap" | "rm.snapf" => {
                let rm = match self.rm.as_mut() { Some(r) => r, None => return "no-rm".into() };
                let r = catch(|| match f[0] {
                    "rm.add" => {
                        let d = dom_opt(f[3]);
                        rm.add_link(&unesc(f[1]), &unesc(f[2]), d.as_deref());
                        "ok".to_string()
                    }
                    "rm.del" => {
                        let d = dom_opt(f[3]);
                        match rm.delete_link(&unesc(f[1]), &unesc(f[2]), d.as_deref()) {
                            Ok(()) => "ok".to_string(),
                            Err(e) => format!("err:{}", err_kind(&e)),
                        }
                    }
                    "rm.clear" => { rm.clear(); "ok".to_string() }
                    "rm.has" => {
                        let d = dom_opt(f[3]);
                        bool_s(rm.has_link(&unesc(f[1]), &unesc(f[2]), d.as_deref())).to_string()
                    }
                    "rm.roles" => {
                        let d = dom_opt(f[2]);
                        enc_list(&sorted(rm.get_roles(&unesc(f[1]), d.as_deref())))
                    }
                    "rm.users" => {
                        let d = dom_opt(f[2]);
                        enc_list(&sorted(rm.get_users(&unesc(f[1]), d.as_deref())))
                    }
                    _ => {
                        // rm.snap names doms mask | rm.snapf names doms
                        let names = dec_list(f[1]);
                        let doms: Vec<Option<String>> = f[2].split(',').map(dom_opt).collect();
                        let mask: Vec<u8> = if f[0] == "rm.snap" { f[3].bytes().collect() } else { vec![] };
                        let mut bits = String::new();
                        let mut k = 0;
                        for d in &doms {
                            for a in &names {
                                for b in &names {
                                    if !mask.is_empty() && mask[k] == b'?' {
                                        bits.push('?');
                                    } else {
                                        bits.push(if rm.has_link(a, b, d.as_deref()) { '1' } else { '0' });
                                    }
                                    k += 1;
                                }
                            }
                        }
                        if f[0] == "rm.snapf" { return bits; }
                        let mut out = format!("H:{}", bits);
                        for d in &doms {
                            for a in &names {
                                out.push_str(&format!(" R:{} U:{}", enc_list(&sorted(rm.get_roles(a, d.as_deref()))), enc_list(&sorted(rm.get_users(a, d.as_deref())))));
                            }
                        }
                        out
                    }
                });
                r.unwrap_or_else(|| "panic".to_string())
            }
            _ => "bad-op".to_string(),
        }
    }
}

pub fn err_kind(e: &casbin::Error) -> &'static str {
    use casbin::Error::*;
    match e {
        IoError(_) => "io",
        ModelError(_) => "model",
        PolicyError(_) => "policy",
        RbacError(_) => "rbac",
        RhaiError(_) => "eval",
        RhaiParseError(_) => "eval",
        RequestError(_) => "request",
        AdapterError(_) => "adapter",
    }
}
