//! In-process interpreter: executes protocol ops against the real crate.
//! Every op of the protocol is executable here, so any replay file can be re-run.
use crate::proto::*;

pub struct World {
    pub rt: tokio::runtime::Runtime,
}

impl World {
    pub fn new() -> Self {
        World {
            rt: tokio::runtime::Builder::new_current_thread().enable_all().build().unwrap(),
        }
    }

    /// run one op; a leading `~` marks a fidelity-only observable and is ignored here
    pub fn exec(&mut self, op: &str) -> String {
        let op = op.strip_prefix('~').unwrap_or(op);
        let f: Vec<&str> = op.split('\t').collect();
        match f[0] {
            "eff.run" => {
                let xi: usize = f[1].parse().unwrap();
                let cap: usize = f[2].parse().unwrap();
                crate::c02::run_impl(crate::c02::EXPRS[xi.min(3)], cap, &crate::c02::seq_of(f[3]))
            }
            "eff.raw" => {
                let cap: usize = f[2].parse().unwrap();
                crate::c02::run_impl(&unesc(f[1]), cap, &crate::c02::seq_of(f[3]))
            }
            _ => "bad-op".to_string(),
        }
    }
}
