//! Line protocol shared with the Lean driver (lean/Main.lean).
//! One op per line, fields separated by TAB; strings percent-escaped.
use std::collections::{BTreeMap, HashSet};
use std::fs::File;
use std::io::{BufWriter, Write};
use std::path::{Path, PathBuf};

pub fn esc(s: &str) -> String {
    let mut o = String::with_capacity(s.len());
    for c in s.chars() {
        match c {
            '%' => o.push_str("%25"),
            '\t' => o.push_str("%09"),
            '\n' => o.push_str("%0A"),
            '\r' => o.push_str("%0D"),
            ',' => o.push_str("%2C"),
            ';' => o.push_str("%3B"),
            '|' => o.push_str("%7C"),
            '-' => o.push_str("%2D"),
            ' ' => o.push_str("%20"),
            c => o.push(c),
        }
    }
    o
}

pub fn unesc(s: &str) -> String {
    let b = s.as_bytes();
    let mut o: Vec<u8> = Vec::with_capacity(b.len());
    let mut i = 0;
    while i < b.len() {
        if b[i] == b'%' && i + 2 < b.len() {
            let h = std::str::from_utf8(&b[i + 1..i + 3]).unwrap_or("00");
            o.push(u8::from_str_radix(h, 16).unwrap_or(b'?'));
            i += 3;
        } else {
            o.push(b[i]);
            i += 1;
        }
    }
    String::from_utf8_lossy(&o).into_owned()
}

pub fn dec_list(s: &str) -> Vec<String> {
    if s == "-" { vec![] } else { s.split(',').map(unesc).collect() }
}

pub fn dec_lists(s: &str) -> Vec<Vec<String>> {
    if s == "-" { vec![] } else { s.split(';').map(|x| if x == "|" { vec![] } else { dec_list(x) }).collect() }
}

/// list of strings: `-` for the empty list, else comma-joined escaped items
pub fn enc_list<S: AsRef<str>>(xs: &[S]) -> String {
    if xs.is_empty() {
        "-".to_string()
    } else {
        xs.iter().map(|x| esc(x.as_ref())).collect::<Vec<_>>().join(",")
    }
}

/// list of lists: `-` for empty, else `;`-joined enc_list
pub fn enc_lists<S: AsRef<str>>(xs: &[Vec<S>]) -> String {
    if xs.is_empty() {
        "-".to_string()
    } else {
        xs.iter().map(|x| if x.is_empty() { "|".to_string() } else { enc_list(x) }).collect::<Vec<_>>().join(";")
    }
}

pub fn sorted(mut v: Vec<String>) -> Vec<String> {
    v.sort();
    v
}

/// splitmix64 — the single PRNG every random choice derives from
#[derive(Clone)]
pub struct Rng(pub u64);
impl Rng {
    pub fn new(seed: u64) -> Self {
        Rng(seed ^ 0x9E37_79B9_7F4A_7C15)
    }
    pub fn next(&mut self) -> u64 {
        self.0 = self.0.wrapping_add(0x9E37_79B9_7F4A_7C15);
        let mut z = self.0;
        z = (z ^ (z >> 30)).wrapping_mul(0xBF58_476D_1CE4_E5B9);
        z = (z ^ (z >> 27)).wrapping_mul(0x94D0_49BB_1331_11EB);
        z ^ (z >> 31)
    }
    pub fn below(&mut self, n: usize) -> usize {
        if n == 0 { 0 } else { (self.next() % (n as u64)) as usize }
    }
    pub fn chance(&mut self, num: usize, den: usize) -> bool {
        self.below(den) < num
    }
    pub fn pick<'a, T>(&mut self, xs: &'a [T]) -> &'a T {
        &xs[self.below(xs.len())]
    }
    pub fn fork(&mut self) -> Rng {
        Rng(self.next())
    }
}

/// A spec-level failure observed directly on the implementation.
#[derive(serde::Serialize, Clone)]
pub struct SpecFailure {
    pub signature: String,
    pub what: String,
    pub replay: Vec<String>,
}

/// Collects op lines + the implementation's output lines, statistics and samples.
pub struct Recorder {
    pub dir: PathBuf,
    ops: BufWriter<File>,
    imp: BufWriter<File>,
    pub lines: u64,
    pub hist: BTreeMap<String, u64>,
    pub samples: Vec<String>,
    pub spec_failures: Vec<SpecFailure>,
    pub distinct: HashSet<u64>,
    pub nontrivial: u64,
    pub notes: BTreeMap<String, serde_json::Value>,
    pub exhaustive: bool,
    /// ops since the last `reset` marker (for replay extraction)
    pub current: Vec<String>,
    starts: BufWriter<File>,
    pub budget: u64,
    pub impl_only: u64,
}

impl Recorder {
    pub fn new(dir: &Path) -> Self {
        std::fs::create_dir_all(dir).unwrap();
        Recorder {
            dir: dir.to_path_buf(),
            ops: BufWriter::new(File::create(dir.join("ops.txt")).unwrap()),
            imp: BufWriter::new(File::create(dir.join("impl.txt")).unwrap()),
            lines: 0,
            hist: BTreeMap::new(),
            samples: vec![],
            spec_failures: vec![],
            distinct: HashSet::new(),
            nontrivial: 0,
            notes: BTreeMap::new(),
            exhaustive: false,
            current: vec![],
            starts: BufWriter::new(File::create(dir.join("starts.txt")).unwrap()),
            budget: 1,
            impl_only: 0,
        }
    }
    /// record one op line and what the implementation answered
    pub fn rec(&mut self, op: &str, out: &str) {
        debug_assert!(!op.contains('\n') && !out.contains('\n'));
        writeln!(self.ops, "{}", op).unwrap();
        writeln!(self.imp, "{}", out).unwrap();
        self.lines += 1;
        self.current.push(op.to_string());
    }
    /// execute an op on the implementation only (a configuration outside the Lean model): it is
    /// kept in the replay (prefixed `!`) and counted, but not sent to the model
    pub fn exec_impl_only(&mut self, w: &mut crate::interp::World, op: &str) -> String {
        let out = w.exec(op);
        self.current.push(format!("!{}", op));
        self.impl_only += 1;
        out
    }
    /// start of a fresh history (the op itself must reset the model state too)
    pub fn begin(&mut self) {
        self.current.clear();
        writeln!(self.starts, "{}", self.lines).unwrap();
    }
    /// execute one op on the implementation (through the interpreter) and record it
    pub fn exec(&mut self, w: &mut crate::interp::World, op: &str) -> String {
        let out = w.exec(op);
        self.rec(op, &out);
        out
    }
    pub fn count(&mut self, key: &str) {
        *self.hist.entry(key.to_string()).or_insert(0) += 1;
    }
    pub fn count_n(&mut self, key: &str, n: u64) {
        *self.hist.entry(key.to_string()).or_insert(0) += n;
    }
    pub fn sample(&mut self, s: String) {
        if self.samples.len() < 12 {
            self.samples.push(s);
        }
    }
    /// count a distinct non-trivial case (hash of its canonical text)
    pub fn nontrivial_case(&mut self, canon: &str) {
        use std::hash::{Hash, Hasher};
        let mut h = std::collections::hash_map::DefaultHasher::new();
        canon.hash(&mut h);
        if self.distinct.insert(h.finish()) {
            self.nontrivial += 1;
        }
    }
    pub fn fail(&mut self, signature: &str, what: String) {
        // keep the first failures of EACH signature, so that a frequent (e.g. known) one cannot crowd out another
        if self.spec_failures.iter().filter(|f| f.signature == signature).count() < 40 && self.spec_failures.len() < 2000 {
            let replay = self.current.clone();
            self.spec_failures.push(SpecFailure { signature: signature.to_string(), what, replay });
        }
        self.count(&format!("spec_failure:{}", signature));
    }
    pub fn fail_with(&mut self, signature: &str, what: String, replay: Vec<String>) {
        if self.spec_failures.iter().filter(|f| f.signature == signature).count() < 40 && self.spec_failures.len() < 2000 {
            self.spec_failures.push(SpecFailure { signature: signature.to_string(), what, replay });
        }
        self.count(&format!("spec_failure:{}", signature));
    }
    pub fn finish(mut self) {
        self.ops.flush().unwrap();
        self.imp.flush().unwrap();
        self.starts.flush().unwrap();
        let stats = serde_json::json!({
            "lines": self.lines,
            "histogram": self.hist,
            "samples": self.samples,
            "spec_failures": self.spec_failures,
            "distinct_nontrivial": self.nontrivial,
            "exhaustive": self.exhaustive,
            "notes": self.notes,
            "impl_only_ops": self.impl_only,
        });
        std::fs::write(self.dir.join("stats.json"), serde_json::to_string_pretty(&stats).unwrap()).unwrap();
    }
}

pub fn bool_s(b: bool) -> &'static str {
    if b { "true" } else { "false" }
}

/// run `f` catching panics; returns None on panic
pub fn catch<T>(f: impl FnOnce() -> T) -> Option<T> {
    std::panic::catch_unwind(std::panic::AssertUnwindSafe(f)).ok()
}
